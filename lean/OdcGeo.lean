import OdcGeo.Model.IO
import OdcGeo.Audit
import OdcGeo.Model.C17
import OdcGeo.Spec.PySlice
import OdcGeo.Drv.C17
import OdcGeo.Props.C17
