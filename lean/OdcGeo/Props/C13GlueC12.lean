/-
C13 glue × C12/C04 — the public entry point from its arguments to its pixels on the linear path, with no
tiling hypothesis and no dependency hypothesis.

`chunked_eq_whole_linear` (Props/C13C12) still assumes `GridRel`: that the C04/C12 tilings (`Tiling.reg` /
`Tiling.var`, `getItem`) and C13's span lists describe the same tiles.  Here that translation is PROVED
for every tiling the glue can produce — the dask chunks of the source (`chunksTiling` vs `Tiling.var`)
and every accepted `chunks=` argument (`regularTiling` vs `Tiling.reg`, `chunksTiling` vs `Tiling.var`) —
so `xr_entry_linear` goes from `xr_reproject`'s arguments to pixel equality.
-/
import OdcGeo.Props.C13Glue
import OdcGeo.Props.C13C12
import OdcGeo.Props.C13Nd

namespace OdcGeo.C13
open OdcGeo OdcGeo.C17 OdcGeo.C04

/-- dask chunks as the C04 model of `VariableSizedTiles` takes them -/
def intChunks (ch : List Nat) : List Int := ch.map Int.ofNat

private theorem chunksTilingFrom_length (l : List Nat) (off : Int) : (chunksTilingFrom off l).length = l.length := by
  induction l generalizing off with
  | nil => rfl
  | cons n r ih => simp [chunksTilingFrom, ih]

private theorem chunksTilingFrom_get (l : List Nat) (off : Int) (i : Nat) (s : Span)
    (h : (chunksTilingFrom off l)[i]? = some s) :
    s = (off + pre (intChunks l) i, off + pre (intChunks l) (i + 1)) ∧ i < l.length := by
  induction l generalizing off i with
  | nil => simp [chunksTilingFrom] at h
  | cons n r ih =>
    cases i with
    | zero =>
      simp only [chunksTilingFrom, List.getElem?_cons_zero, Option.some.injEq] at h
      subst h
      simp [intChunks, pre]
    | succ j =>
      simp only [chunksTilingFrom, List.getElem?_cons_succ] at h
      obtain ⟨hs, hj⟩ := ih (off + n) j h
      refine ⟨?_, by simp; omega⟩
      rw [hs]
      simp only [intChunks, List.map_cons, pre] at *
      ext <;> simp <;> omega

private theorem total_intChunks (ch : List Nat) : total (intChunks ch) = ((ch.sum : Nat) : Int) := by
  induction ch with
  | nil => rfl
  | cons n r ih => simp only [intChunks, List.map_cons, total, List.sum_cons] at *; rw [ih]; push_cast; rfl

/-- **dask chunks = `VariableSizedTiles`**: the span list C13 uses for a chunk tuple and C04's model of
`VariableSizedTiles(chunks)` describe the same tiles (chunk sums below 2³¹: the `int32` cumsum of the
real class) -/
theorem tilingRel_var (ch : List Nat) (hok : ChunksOK (intChunks ch)) :
    TilingRel (.var (intChunks ch)) (chunksTiling ch) := by
  refine ⟨?_, ?_⟩
  · simp [Tiling.count, vcount_eq, chunksTiling, chunksTilingFrom_length, intChunks]
  · intro i s h
    obtain ⟨hs, hi⟩ := chunksTilingFrom_get ch 0 i s h
    have := vgetItem_idx (intChunks ch) hok i (by simpa [intChunks] using hi)
    simp only [Tiling.getItem]
    rw [this, hs]
    simp

private theorem regularTiling_get (N n : Nat) (i : Nat) (s : Span) (h : (regularTiling N n)[i]? = some s) :
    i < (N + n - 1) / n ∧ s = (((i * n : Nat) : Int), ((min ((i + 1) * n) N : Nat) : Int)) := by
  simp only [regularTiling, List.getElem?_map, Option.map_eq_some_iff] at h
  obtain ⟨j, hj, hs⟩ := h
  have := List.getElem?_range (n := (N + n - 1) / n) (i := i)
  rcases Nat.lt_or_ge i ((N + n - 1) / n) with hlt | hge
  · rw [List.getElem?_range hlt] at hj
    cases hj
    exact ⟨hlt, hs.symm⟩
  · rw [List.getElem?_eq_none (by simpa using hge)] at hj
    cases hj

/-- **`(ny, nx)` chunks = `Tiles`**: the regular span list and C04's model of `Tiles(N, n)` describe the same
tiles, ragged last tile included -/
theorem tilingRel_reg (N n : Nat) (hn : 0 < n) :
    TilingRel (.reg (N : Int) (n : Int)) (regularTiling N n) := by
  have hcount : C04.count (N : Int) (n : Int) = (((N + n - 1) / n : Nat) : Int) := by
    simp only [C04.count, ceilDiv]
    rw [if_pos (by omega)]
    have : (N : Int) + (n : Int) - 1 = ((N + n - 1 : Nat) : Int) := by omega
    rw [this]
    exact (Int.natCast_ediv _ _).symm
  refine ⟨?_, ?_⟩
  · simp only [Tiling.count, hcount, regularTiling, List.length_map, List.length_range]
  · intro i s h
    obtain ⟨hi, hs⟩ := regularTiling_get N n i s h
    have := getItem_idx (N : Int) (n : Int) (by omega) (i : Int) ⟨by omega, by rw [hcount]; exact_mod_cast hi⟩
    simp only [Tiling.getItem]
    rw [this, hs]
    simp only [NSlice.mk.injEq, Except.ok.injEq]
    constructor
    · push_cast; ring
    · push_cast
      congr 1

/-- the C04/C12 tiling that `GeoboxTiles(d_gbox, chunks)` builds for each form of `chunks=` -/
def tiling12 (H W : Nat) (sy sx : List Nat) : ChunkArg → Tiling2
  | .default => ⟨.reg (H : Int) (chunkSize sy : Nat), .reg (W : Int) (chunkSize sx : Nat)⟩
  | .pair cy cx => ⟨.reg (H : Int) cy, .reg (W : Int) cx⟩
  | .var ys xs => ⟨.var (intChunks ys), .var (intChunks xs)⟩

/-- size condition of the variable form (the `int32` offsets of `VariableSizedTiles`) -/
def ChunkArg.Small : ChunkArg → Prop
  | .var ys xs => ChunksOK (intChunks ys) ∧ ChunksOK (intChunks xs)
  | _ => True

private theorem tilesPair_rel (H W : Nat) (cy cx : Int) (dy dx : List Span)
    (h : tilesPair H W cy cx = .ok (dy, dx)) :
    TilingRel (.reg (H : Int) cy) dy ∧ TilingRel (.reg (W : Int) cx) dx := by
  unfold tilesPair at h
  split at h
  · cases h
  · split at h
    · cases h
    · rename_i h0 hn
      simp only [Except.ok.injEq, Prod.mk.injEq] at h
      obtain ⟨rfl, rfl⟩ := h
      have hy : 0 < cy := by omega
      have hx : 0 < cx := by omega
      have e1 : cy = ((cy.toNat : Nat) : Int) := by omega
      have e2 : cx = ((cx.toNat : Nat) : Int) := by omega
      constructor
      · have := tilingRel_reg H cy.toNat (by omega)
        rwa [← e1] at this
      · have := tilingRel_reg W cx.toNat (by omega)
        rwa [← e2] at this

/-- **Every accepted `chunks=` argument is the tiling `GeoboxTiles` builds from it** -/
theorem dstTilings_rel (H W : Nat) (sy sx : List Nat) (a : ChunkArg) (ha : a.Small) (dy dx : List Span)
    (h : dstTilings H W sy sx a = .ok (dy, dx)) :
    TilingRel (tiling12 H W sy sx a).y dy ∧ TilingRel (tiling12 H W sy sx a).x dx := by
  cases a with
  | default => exact tilesPair_rel H W _ _ dy dx h
  | pair cy cx => exact tilesPair_rel H W cy cx dy dx h
  | var ys xs =>
    simp only [dstTilings] at h
    split at h
    · cases h
    · split at h
      · simp only [Except.ok.injEq, Prod.mk.injEq] at h
        obtain ⟨rfl, rfl⟩ := h
        exact ⟨tilingRel_var ys ha.1, tilingRel_var xs ha.2⟩
      · cases h

/-- **`xr_reproject`, linear path, from the arguments to the pixels.**  Same CRS, nearest neighbour,
pixel map `~S * D` a (possibly mirrored) scale + translation that `snap_affine` leaves alone.  For EVERY
`nodata` attribute, `src_nodata=`, `dst_nodata=`, EVERY accepted form of `chunks=` (`None`, pair, tuple of
tuples), every source chunking (sums below 2³¹): with the dependency map that the C12 model of
`_grid_intersect_linear` computes for the two tilings `GeoboxTiles` builds from these arguments, every pixel
of the computed dask array equals the pixel of the numpy-backed call.
No tiling hypothesis (`tilingRel_var`, `tilingRel_reg`, `dstTilings_chain`), no dependency-completeness
hypothesis (C12 `linear_deps_complete`), no nodata hypothesis (`xrNodata_guarantee`); what is left besides
well-formedness is `DepsValid` (every listed source tile exists). -/
theorem xr_entry_linear (a : XrArgs) (G : Gdal) (src buf r : Img) (c : Cfg)
    (g : List ((Int × Int) × List (Int × Int)))
    (hg : C12.gridIntersectLinear ⟨a.dstH, a.dstW, tiling12 a.dstH a.dstW a.sy a.sx a.chunks⟩
            ⟨a.srcH, a.srcW, ⟨.var (intChunks a.sy), .var (intChunks a.sx)⟩⟩ (a.S.inv * a.D) = .ok g)
    (hc : xrCfg a (depsOfC12 g) = .ok c)
    (hr : xrDask a G (depsOfC12 g) src = .ok r)
    (hsmall : a.chunks.Small) (hsy' : ChunksOK (intChunks a.sy)) (hsx' : ChunksOK (intChunks a.sx))
    (hb : (a.S.inv * a.D).b = 0) (hd' : (a.S.inv * a.D).d = 0)
    (ha : (a.S.inv * a.D).a ≠ 0) (he : (a.S.inv * a.D).e ≠ 0)
    (hbuf : WF buf a.dstH a.dstW)
    (hsy : a.sy.sum = a.srcH) (hsx : a.sx.sum = a.srcW)
    (hH : 1 ≤ a.srcH) (hW : 1 ≤ a.srcW)
    (hS : a.S.det ≠ 0) (hvalid : DepsValid c)
    (hnd1 : NodataOk a.kind (xrNodata a.attrNd a.kwSrcNd a.dstNd).2)
    (hnd2 : NodataOk a.kind (xrNodata a.attrNd a.kwSrcNd a.dstNd).1)
    (d : Int × Int) (hd : 0 ≤ d.1 ∧ d.1 < a.dstH ∧ 0 ≤ d.2 ∧ d.2 < a.dstW) :
    r d = xrNumpy a G src buf d := by
  refine xr_entry_chunked_eq_whole a G (depsOfC12 g) src buf r c hc hr hbuf hsy hsx hS hvalid ?_ hnd1 hnd2 d hd
  -- dependency completeness from C12, through the tiling translation
  unfold xrCfg at hc
  cases ht : dstTilings a.dstH a.dstW a.sy a.sx a.chunks with
  | error e => rw [ht] at hc; simp [bind, Except.bind] at hc
  | ok t =>
    obtain ⟨dy, dx⟩ := t
    rw [ht] at hc
    simp only [bind, Except.bind, pure, Except.pure, Except.ok.injEq] at hc
    subst hc
    obtain ⟨hry, hrx⟩ := dstTilings_rel _ _ _ _ _ hsmall _ _ ht
    have h1 := chunksTiling_isTiling a.sy
    have h2 := chunksTiling_isTiling a.sx
    rw [hsy] at h1
    rw [hsx] at h2
    let dst12 : C12.GBT := ⟨a.dstH, a.dstW, tiling12 a.dstH a.dstW a.sy a.sx a.chunks⟩
    let src12 : C12.GBT := ⟨a.srcH, a.srcW, ⟨.var (intChunks a.sy), .var (intChunks a.sx)⟩⟩
    refine deps_complete_of_linear _ dst12 src12
      ⟨tilingRel_var a.sy hsy', tilingRel_var a.sx hsx', hry, hrx, rfl, rfl⟩
      ⟨hsy', hsx', by simp only [src12, Tiling.base]; rw [vbase_eq_total _ hsy', total_intChunks, hsy],
        by simp only [src12, Tiling.base]; rw [vbase_eq_total _ hsx', total_intChunks, hsx],
        by simp only [src12]; omega, by simp only [src12]; omega⟩ h1 h2 hb hd' ha he ?_
    intro iy ix l hiy hix hl i j hmem
    dsimp only at hiy hix
    have hlook := lookup_depsOfC12 (C12.linearDeps dst12 src12 (a.S.inv * a.D)) iy ix l hl
      (C12.allTiles dst12) g hg
      (by
        intro t ht'
        simp only [C12.allTiles, C12.mem_product, C12.mem_irange] at ht'
        exact ⟨ht'.1.1, ht'.2.1⟩)
      (by
        simp only [C12.allTiles, C12.mem_product, C12.mem_irange]
        have e1 : dst12.tiles.y.count = (dy.length : Int) := hry.count
        have e2 : dst12.tiles.x.count = (dx.length : Int) := hrx.count
        rw [e1, e2]
        omega)
    show (i, j) ∈ lookupDeps (depsOfC12 g) (iy, ix)
    rw [hlook]
    exact List.mem_map.2 ⟨((i : Int), (j : Int)), hmem, by simp [idxToNat]⟩

/-! ### the hypotheses are satisfiable -/

example : TilingRel (.var (intChunks [2, 0, 3])) (chunksTiling [2, 0, 3]) :=
  tilingRel_var _ ⟨by decide, by decide⟩

example : TilingRel (.reg 5 2) (regularTiling 5 2) := tilingRel_reg 5 2 (by decide)



/-- the witness configuration of Props/C13 as arguments of the public entry point -/
def cexArgs : XrArgs :=
  { kind := .float, srcH := 1, srcW := 1, S := Aff.id, dstH := 1, dstW := 2, D := Aff.id, sy := [1], sx := [1],
    attrNd := none, kwSrcNd := none, dstNd := none, chunks := .pair 1 2 }

theorem cexArgs_cfg : xrCfg cexArgs [((0, 0), [(0, 0)])] = .ok (cexCfg Variant.repaired .float none none) := by
  rfl

example : ∃ r, xrDask cexArgs cexGdal [((0, 0), [(0, 0)])] (full 1 1 (.num 5)) = .ok r ∧
    r (0, 1) = xrNumpy cexArgs cexGdal (full 1 1 (.num 5)) (full 1 2 (.num 77)) (0, 1) := by
  have hr : xrDask cexArgs cexGdal [((0, 0), [(0, 0)])] (full 1 1 (.num 5)) =
      .ok (daskResult (cexCfg Variant.repaired .float none none) cexGdal (full 1 1 (.num 5))) := by
    unfold xrDask
    rw [cexArgs_cfg]
    rfl
  refine ⟨_, hr, ?_⟩
  exact xr_entry_chunked_eq_whole cexArgs cexGdal _ _ (full 1 2 (.num 77)) _ _ cexArgs_cfg hr
    (by intro p; simp only [full, cexArgs]; split <;> simp_all)
    rfl rfl (by decide +kernel) (cexCfg_deps_valid _ _ _ _) (cexCfg_deps_complete _ _ _ _)
    (by intro h; cases h) (by intro h; cases h) (0, 1) (by decide)


theorem cexArgs_linear_deps :
    C12.gridIntersectLinear ⟨cexArgs.dstH, cexArgs.dstW, tiling12 cexArgs.dstH cexArgs.dstW cexArgs.sy cexArgs.sx cexArgs.chunks⟩
      ⟨cexArgs.srcH, cexArgs.srcW, ⟨.var (intChunks cexArgs.sy), .var (intChunks cexArgs.sx)⟩⟩
      (cexArgs.S.inv * cexArgs.D) = .ok [((0, 0), [(0, 0)])] := by decide +kernel

/-- all hypotheses of `xr_entry_linear` hold together -/
example : ∃ r, xrDask cexArgs cexGdal (depsOfC12 [((0, 0), [(0, 0)])]) (full 1 1 (.num 5)) = .ok r ∧
    r (0, 1) = xrNumpy cexArgs cexGdal (full 1 1 (.num 5)) (full 1 2 (.num 77)) (0, 1) := by
  have hc : xrCfg cexArgs (depsOfC12 [((0, 0), [(0, 0)])]) = .ok (cexCfg Variant.repaired .float none none) := by rfl
  have hr : xrDask cexArgs cexGdal (depsOfC12 [((0, 0), [(0, 0)])]) (full 1 1 (.num 5)) =
      .ok (daskResult (cexCfg Variant.repaired .float none none) cexGdal (full 1 1 (.num 5))) := by
    unfold xrDask
    rw [hc]
    rfl
  refine ⟨_, hr, ?_⟩
  exact xr_entry_linear cexArgs cexGdal _ (full 1 2 (.num 77)) _ _ _ cexArgs_linear_deps hc hr trivial
    ⟨by decide, by decide⟩ ⟨by decide, by decide⟩ (by decide +kernel) (by decide +kernel) (by decide +kernel)
    (by decide +kernel)
    (by intro p; simp only [full, cexArgs]; split <;> simp_all)
    rfl rfl (by decide) (by decide) (by decide +kernel) (cexCfg_deps_valid _ _ _ _)
    (by intro h; cases h) (by intro h; cases h) (0, 1) (by decide)

/-! ### the default and the pair form never hand GDAL an empty chunk -/

private theorem regularTiling_nonempty (N n : Nat) (hn : 0 < n) : ∀ s ∈ regularTiling N n, s.1 < s.2 := by
  intro s hs
  obtain ⟨i, hi⟩ := List.getElem?_of_mem hs
  obtain ⟨hlt, rfl⟩ := regularTiling_get N n i s hi
  have h1 : (i + 1) * n ≤ ((N + n - 1) / n) * n := Nat.mul_le_mul_right n (by omega)
  have h2 := Nat.div_mul_le_self (N + n - 1) n
  have h3 : (i + 1) * n = i * n + n := by rw [Nat.add_mul, Nat.one_mul]
  have : i * n < min ((i + 1) * n) N := by omega
  show ((i * n : Nat) : Int) < ((min ((i + 1) * n) N : Nat) : Int)
  exact_mod_cast this

private theorem tilesPair_nonempty (H W : Nat) (cy cx : Int) (dy dx : List Span)
    (h : tilesPair H W cy cx = .ok (dy, dx)) : (∀ s ∈ dy, s.1 < s.2) ∧ (∀ s ∈ dx, s.1 < s.2) := by
  unfold tilesPair at h
  split at h
  · cases h
  · split at h
    · cases h
    · simp only [Except.ok.injEq, Prod.mk.injEq] at h
      obtain ⟨rfl, rfl⟩ := h
      exact ⟨regularTiling_nonempty H cy.toNat (by omega), regularTiling_nonempty W cx.toNat (by omega)⟩

/-- **`chunks=None` and `chunks=(ny, nx)` never produce an empty destination chunk**, so the compute-time GDAL
error of `xrDask` (`emptyTask`) can only come from zero-length chunks the caller spelled out in the tuple-of-tuples
form -/
theorem emptyTask_false_of_regular (a : XrArgs) (deps : List (TIdx × List TIdx)) (c : Cfg)
    (hform : a.chunks = .default ∨ ∃ cy cx, a.chunks = .pair cy cx)
    (hc : xrCfg a deps = .ok c) : emptyTask c = false := by
  unfold xrCfg at hc
  cases ht : dstTilings a.dstH a.dstW a.sy a.sx a.chunks with
  | error e => rw [ht] at hc; simp [bind, Except.bind] at hc
  | ok t =>
    obtain ⟨dy, dx⟩ := t
    rw [ht] at hc
    simp only [bind, Except.bind, pure, Except.pure, Except.ok.injEq] at hc
    subst hc
    have hne : (∀ s ∈ dy, s.1 < s.2) ∧ (∀ s ∈ dx, s.1 < s.2) := by
      rcases hform with h | ⟨cy, cx, h⟩ <;> rw [h] at ht
      · exact tilesPair_nonempty _ _ _ _ _ _ ht
      · exact tilesPair_nonempty _ _ _ _ _ _ ht
    have inner : ∀ iy ix : Nat, (match dy[iy]?, dx[ix]? with
        | some ty, some tx => (decide (ty.2 - ty.1 = 0 ∨ tx.2 - tx.1 = 0)) && !(lookupDeps deps (iy, ix)).isEmpty
        | _, _ => false) = false := by
      intro iy ix
      cases hy : dy[iy]? with
      | none => simp
      | some ty =>
        cases hx : dx[ix]? with
        | none => simp
        | some tx =>
          have h1 := hne.1 ty (List.mem_of_getElem? hy)
          have h2 := hne.2 tx (List.mem_of_getElem? hx)
          have : ¬ (ty.2 - ty.1 = 0 ∨ tx.2 - tx.1 = 0) := by omega
          simp [this]
    simp only [emptyTask]
    rw [List.any_eq_false]
    intro iy _
    rw [Bool.not_eq_true, List.any_eq_false]
    intro ix _
    rw [Bool.not_eq_true]
    exact inner iy ix

/-- **The default never fails**: `xr_reproject(dask-backed, geobox)` without `chunks=` (source chunked into non-empty
blocks) always builds and computes — in the model there is no error branch left -/
theorem xrDask_default_ok (a : XrArgs) (G : Gdal) (deps : List (TIdx × List TIdx)) (src : Img)
    (hd : a.chunks = .default) (hy : 0 < chunkSize a.sy) (hx : 0 < chunkSize a.sx) :
    ∃ r, xrDask a G deps src = .ok r := by
  have ht : ∃ t, dstTilings a.dstH a.dstW a.sy a.sx a.chunks = .ok t := by
    rw [hd]
    simp only [dstTilings, tilesPair]
    rw [if_neg (by omega), if_neg (by omega)]
    exact ⟨_, rfl⟩
  obtain ⟨⟨dy, dx⟩, ht⟩ := ht
  have hc : ∃ c, xrCfg a deps = .ok c := by
    unfold xrCfg
    rw [ht]
    exact ⟨_, rfl⟩
  obtain ⟨c, hc⟩ := hc
  have he := emptyTask_false_of_regular a deps c (Or.inl hd) hc
  unfold xrDask
  rw [hc]
  simp only [bind, Except.bind, he]
  exact ⟨_, rfl⟩

example : ∃ r, xrDask { cexArgs with chunks := .default } cexGdal [] (full 1 1 (.num 5)) = .ok r :=
  xrDask_default_ok _ _ _ _ rfl (by decide) (by decide)

/-! ### every listed source tile exists (`DepsValid`), from the C12 model -/

/-- the tiles `_tiles_from_pix_bbox` returns are tiles of the tiling -/
theorem tilesFromPixBBox_in_range (g : C12.GBT) (hg : g.WF) (b : C12.BBox) (l : List (Int × Int))
    (h : C12.tilesFromPixBBox g b = .ok l) :
    ∀ p ∈ l, (0 ≤ p.1 ∧ p.1 < g.tiles.y.count) ∧ (0 ≤ p.2 ∧ p.2 < g.tiles.x.count) := by
  unfold C12.tilesFromPixBBox at h
  split at h
  · cases h
    intro p hp
    cases hp
  · obtain ⟨px1, px2, hcx, hpx1, hpx2, _⟩ := C12.clampSpan_covers b.x1 b.x2 g.nx hg.nx
    obtain ⟨py1, py2, hcy, hpy1, hpy2, _⟩ := C12.clampSpan_covers b.y1 b.y2 g.ny hg.ny
    obtain ⟨r1, _, lr1, br1, _, _⟩ := C12.Tiling.locate_spec g.tiles.y hg.y py1 (by rw [hg.by_]; omega)
    obtain ⟨r2, _, lr2, br2, _, _⟩ := C12.Tiling.locate_spec g.tiles.y hg.y py2 (by rw [hg.by_]; omega)
    obtain ⟨c1, _, lc1, bc1, _, _⟩ := C12.Tiling.locate_spec g.tiles.x hg.x px1 (by rw [hg.bx]; omega)
    obtain ⟨c2, _, lc2, bc2, _, _⟩ := C12.Tiling.locate_spec g.tiles.x hg.x px2 (by rw [hg.bx]; omega)
    have hr : C12.rangeFromBBox g b = .ok ((r1, r2), (c1, c2)) := by
      simp only [C12.rangeFromBBox, hcx, hcy, locate2, zip2, lr1, lr2, lc1, lc2, bind, Except.bind, pure,
        Except.pure]
    simp only [C12.candidates, hr, bind, Except.bind, pure, Except.pure, Except.ok.injEq] at h
    subst h
    intro p hp
    rw [C12.mem_product, C12.mem_irange, C12.mem_irange] at hp
    omega

private theorem mapM_ok_mem {α β : Type} (f : α → Res β) :
    ∀ (l : List α) (g : List β), l.mapM f = .ok g → ∀ e ∈ g, ∃ x ∈ l, f x = .ok e
  | [], g, h => by
    simp only [List.mapM_nil, pure, Except.pure, Except.ok.injEq] at h
    subst h
    intro e he
    cases he
  | a :: as, g, h => by
    rw [List.mapM_cons] at h
    cases hfa : f a with
    | error e => rw [hfa] at h; simp [bind, Except.bind] at h
    | ok b =>
      rw [hfa] at h
      cases hr : as.mapM f with
      | error e => rw [hr] at h; simp [bind, Except.bind] at h
      | ok g' =>
        rw [hr] at h
        simp only [bind, Except.bind, pure, Except.pure, Except.ok.injEq] at h
        subst h
        intro e he
        rcases List.mem_cons.1 he with rfl | he
        · exact ⟨a, by simp, hfa⟩
        · obtain ⟨x, hx, hfx⟩ := mapM_ok_mem f as g' hr e he
          exact ⟨x, List.mem_cons_of_mem _ hx, hfx⟩

private theorem lookupDeps_mem (deps : List (TIdx × List TIdx)) (idx i : TIdx) (h : i ∈ lookupDeps deps idx) :
    ∃ e ∈ deps, i ∈ e.2 := by
  induction deps with
  | nil => simp [lookupDeps, List.lookup] at h
  | cons e r ih =>
    simp only [lookupDeps, List.lookup] at h
    by_cases hk : idx == e.1
    · simp only [hk] at h
      exact ⟨e, by simp, h⟩
    · simp only [hk] at h
      obtain ⟨e', he', hi⟩ := ih (by simpa [lookupDeps] using h)
      exact ⟨e', List.mem_cons_of_mem _ he', hi⟩

/-- **Every source tile the linear dependency table lists exists** — `DepsValid` for the table C12's model of
`_grid_intersect_linear` computes, read by C13 (`depsOfC12`), against any span lists that describe the source
tiling (`TilingRel`) -/
theorem depsValid_of_linear (dst src : C12.GBT) (hs : src.WF) (A : Aff)
    (g : List ((Int × Int) × List (Int × Int)))
    (hg : C12.gridIntersectLinear dst src A = .ok g)
    (sy sx : List Span) (hry : TilingRel src.tiles.y sy) (hrx : TilingRel src.tiles.x sx) :
    ∀ idx, ∀ i ∈ lookupDeps (depsOfC12 g) idx, i.1 < sy.length ∧ i.2 < sx.length := by
  intro idx i hi
  obtain ⟨e, he, hie⟩ := lookupDeps_mem _ _ _ hi
  simp only [depsOfC12, List.mem_map] at he
  obtain ⟨e0, he0, rfl⟩ := he
  simp only [List.mem_map] at hie
  obtain ⟨p, hp, rfl⟩ := hie
  unfold C12.gridIntersectLinear at hg
  obtain ⟨t, _, ht⟩ := mapM_ok_mem _ _ _ hg e0 he0
  cases hl : C12.linearDeps dst src A t with
  | error err => rw [hl] at ht; simp [bind, Except.bind] at ht
  | ok d =>
    rw [hl] at ht
    simp only [bind, Except.bind, pure, Except.pure, Except.ok.injEq] at ht
    subst ht
    simp only [C12.linearDeps] at hl
    cases hb : C12.pixBBox dst t with
    | error err => rw [hb] at hl; simp [bind, Except.bind] at hl
    | ok bb =>
      rw [hb] at hl
      simp only [bind, Except.bind] at hl
      have := tilesFromPixBBox_in_range src hs _ d hl p hp
      have cy := hry.count
      have cx := hrx.count
      simp only [idxToNat]
      omega

/-- **`xr_reproject`, linear path, from the arguments to the pixels — no named hypothesis left.**
As `xr_entry_linear`, with `DepsValid` discharged by `depsValid_of_linear`: what remains are the facts about the
inputs themselves (source chunks add up to the source shape and are below 2³¹, the source is not empty, `S` is
invertible, `~S * D` is an unsnapped scale + translation, boolean nodata values are booleans, the in-memory buffer
has the destination shape). -/
theorem xr_entry_linear_total (a : XrArgs) (G : Gdal) (src buf r : Img)
    (g : List ((Int × Int) × List (Int × Int)))
    (hg : C12.gridIntersectLinear ⟨a.dstH, a.dstW, tiling12 a.dstH a.dstW a.sy a.sx a.chunks⟩
            ⟨a.srcH, a.srcW, ⟨.var (intChunks a.sy), .var (intChunks a.sx)⟩⟩ (a.S.inv * a.D) = .ok g)
    (hr : xrDask a G (depsOfC12 g) src = .ok r)
    (hsmall : a.chunks.Small) (hsy' : ChunksOK (intChunks a.sy)) (hsx' : ChunksOK (intChunks a.sx))
    (hb : (a.S.inv * a.D).b = 0) (hd' : (a.S.inv * a.D).d = 0)
    (ha : (a.S.inv * a.D).a ≠ 0) (he : (a.S.inv * a.D).e ≠ 0)
    (hbuf : WF buf a.dstH a.dstW)
    (hsy : a.sy.sum = a.srcH) (hsx : a.sx.sum = a.srcW)
    (hH : 1 ≤ a.srcH) (hW : 1 ≤ a.srcW)
    (hS : a.S.det ≠ 0)
    (hnd1 : NodataOk a.kind (xrNodata a.attrNd a.kwSrcNd a.dstNd).2)
    (hnd2 : NodataOk a.kind (xrNodata a.attrNd a.kwSrcNd a.dstNd).1)
    (d : Int × Int) (hd : 0 ≤ d.1 ∧ d.1 < a.dstH ∧ 0 ≤ d.2 ∧ d.2 < a.dstW) :
    r d = xrNumpy a G src buf d := by
  have hcfg : ∃ c, xrCfg a (depsOfC12 g) = .ok c := by
    unfold xrDask at hr
    cases h : xrCfg a (depsOfC12 g) with
    | error e => rw [h] at hr; simp [bind, Except.bind] at hr
    | ok c => exact ⟨c, rfl⟩
  obtain ⟨c, hc⟩ := hcfg
  refine xr_entry_linear a G src buf r c g hg hc hr hsmall hsy' hsx' hb hd' ha he hbuf hsy hsx hH hW hS ?_
    hnd1 hnd2 d hd
  have hc' := hc
  unfold xrCfg at hc'
  cases ht : dstTilings a.dstH a.dstW a.sy a.sx a.chunks with
  | error e => rw [ht] at hc'; simp [bind, Except.bind] at hc'
  | ok t =>
    obtain ⟨dy, dx⟩ := t
    rw [ht] at hc'
    simp only [bind, Except.bind, pure, Except.pure, Except.ok.injEq] at hc'
    subst hc'
    let src12 : C12.GBT := ⟨a.srcH, a.srcW, ⟨.var (intChunks a.sy), .var (intChunks a.sx)⟩⟩
    have hw : src12.WF :=
      ⟨hsy', hsx', by simp only [src12, Tiling.base]; rw [vbase_eq_total _ hsy', total_intChunks, hsy],
        by simp only [src12, Tiling.base]; rw [vbase_eq_total _ hsx', total_intChunks, hsx],
        by simp only [src12]; omega, by simp only [src12]; omega⟩
    exact depsValid_of_linear _ src12 hw _ g hg _ _ (tilingRel_var a.sy hsy') (tilingRel_var a.sx hsx')

/-- all hypotheses of `xr_entry_linear_total` hold together -/
example : ∃ r, xrDask cexArgs cexGdal (depsOfC12 [((0, 0), [(0, 0)])]) (full 1 1 (.num 5)) = .ok r ∧
    r (0, 1) = xrNumpy cexArgs cexGdal (full 1 1 (.num 5)) (full 1 2 (.num 77)) (0, 1) := by
  have hc : xrCfg cexArgs (depsOfC12 [((0, 0), [(0, 0)])]) = .ok (cexCfg Variant.repaired .float none none) := by rfl
  have hr : xrDask cexArgs cexGdal (depsOfC12 [((0, 0), [(0, 0)])]) (full 1 1 (.num 5)) =
      .ok (daskResult (cexCfg Variant.repaired .float none none) cexGdal (full 1 1 (.num 5))) := by
    unfold xrDask
    rw [hc]
    rfl
  refine ⟨_, hr, ?_⟩
  exact xr_entry_linear_total cexArgs cexGdal _ (full 1 2 (.num 77)) _ _ cexArgs_linear_deps hr trivial
    ⟨by decide, by decide⟩ ⟨by decide, by decide⟩ (by decide +kernel) (by decide +kernel) (by decide +kernel)
    (by decide +kernel)
    (by intro p; simp only [full, cexArgs]; split <;> simp_all)
    rfl rfl (by decide) (by decide) (by decide +kernel)
    (by intro h; cases h) (by intro h; cases h) (0, 1) (by decide)

/-! ### N-d arrays through the public entry point -/

/-- **`xr_reproject` on an N-d array, linear path, no named hypothesis**: spatial axes at any position `ydim`, any
chunk tables on the other axes (time, band, …), every accepted `chunks=` form, every nodata option: element
`(*e[:ydim], y, x, *e[ydim:])` of the computed dask array is pixel `(y, x)` of the numpy-backed call on the plane at
non-spatial index `e` (`rio_reproject` warps plane by plane).  Composition of `nd_any_ydim` (Props/C13Nd) with
`xr_entry_linear_total`. -/
theorem xr_entry_nd_linear (ydim : Nat) (tables : List (List Span)) (a : XrArgs) (G : Gdal)
    (arr : List Int → Option Val) (buf : Img) (e : List Int) (y x : Int) (hy : ydim ≤ e.length)
    (b : List Nat) (l : List Int) (hloc : locAxes tables e = some (b, l))
    (g : List ((Int × Int) × List (Int × Int))) (c : Cfg)
    (hg : C12.gridIntersectLinear ⟨a.dstH, a.dstW, tiling12 a.dstH a.dstW a.sy a.sx a.chunks⟩
            ⟨a.srcH, a.srcW, ⟨.var (intChunks a.sy), .var (intChunks a.sx)⟩⟩ (a.S.inv * a.D) = .ok g)
    (hc : xrCfg a (depsOfC12 g) = .ok c) (hne : emptyTask c = false)
    (hsmall : a.chunks.Small) (hsy' : ChunksOK (intChunks a.sy)) (hsx' : ChunksOK (intChunks a.sx))
    (hb : (a.S.inv * a.D).b = 0) (hd' : (a.S.inv * a.D).d = 0)
    (ha : (a.S.inv * a.D).a ≠ 0) (he : (a.S.inv * a.D).e ≠ 0)
    (hbuf : WF buf a.dstH a.dstW)
    (hsy : a.sy.sum = a.srcH) (hsx : a.sx.sum = a.srcW)
    (hH : 1 ≤ a.srcH) (hW : 1 ≤ a.srcW)
    (hS : a.S.det ≠ 0)
    (hnd1 : NodataOk a.kind (xrNodata a.attrNd a.kwSrcNd a.dstNd).2)
    (hnd2 : NodataOk a.kind (xrNodata a.attrNd a.kwSrcNd a.dstNd).1)
    (hd : 0 ≤ y ∧ y < a.dstH ∧ 0 ≤ x ∧ x < a.dstW) :
    daskResultFull ydim tables c G arr (withYX ydim e y x) = xrNumpy a G (planeOf ydim arr e) buf (y, x) := by
  rw [nd_any_ydim ydim tables c G arr e y x hy b l hloc]
  have hr : xrDask a G (depsOfC12 g) (planeOf ydim arr e) = .ok (daskResult c G (planeOf ydim arr e)) := by
    unfold xrDask
    rw [hc]
    simp only [bind, Except.bind, hne]
    rfl
  exact xr_entry_linear_total a G (planeOf ydim arr e) buf _ g hg hr hsmall hsy' hsx' hb hd' ha he hbuf hsy hsx hH hW
    hS hnd1 hnd2 (y, x) hd

/-- all hypotheses of `xr_entry_nd_linear` hold together: a time axis of 5 steps chunked (2, 2, 1), time step 4 -/
example (arr : List Int → Option Val) :
    daskResultFull 1 [chunksTiling [2, 2, 1]] (cexCfg Variant.repaired .float none none) cexGdal arr (withYX 1 [4] 0 1) =
      xrNumpy cexArgs cexGdal (planeOf 1 arr [4]) (full 1 2 (.num 77)) (0, 1) :=
  xr_entry_nd_linear 1 _ cexArgs cexGdal arr _ [4] 0 1 (by decide) [2] [0] (by decide) _ _ cexArgs_linear_deps
    (by rfl) (by decide +kernel) trivial
    ⟨by decide, by decide⟩ ⟨by decide, by decide⟩ (by decide +kernel) (by decide +kernel) (by decide +kernel)
    (by decide +kernel)
    (by intro p; simp only [full, cexArgs]; split <;> simp_all)
    rfl rfl (by decide) (by decide) (by decide +kernel)
    (by intro h; cases h) (by intro h; cases h) (by decide)

/-! ### the snapped transform (`snap_affine` inside `_check_linear`), up to the entry point -/

/-- **`xr_reproject`, linear path, SNAPPED dependency transform, from the arguments to the pixels.**
The real code computes the chunk dependencies with `A' = snap_affine(~S * D)` (what `_check_linear` returns), not with
the pixel map `~S * D` GDAL samples through.  If per axis the drift stays within a quarter of a destination pixel over
the whole destination raster, `|a - a'|·dstW + |c - c'| ≤ |a'|/4` (same in `y`), then for every nodata option, every
accepted `chunks=` form and every source chunking the dask-backed result equals the numpy-backed one, pixel for
pixel — no tiling / dependency / validity hypothesis.  `A'` is whatever the model of `_check_linear` returns at the
code's tolerances (`hchk`), so its off-diagonal terms are 0 (`check_linear_accepts_only_st`).
The known findings are exactly outside the bound: K17 (`extreme_zoom_snap_cex`: translation snap at zoom > 500x),
K23 (`scale_snap_cex`: scale snap on a 2^21 wide raster). -/
theorem xr_entry_linear_snapped (a : XrArgs) (G : Gdal) (src buf r : Img)
    (g : List ((Int × Int) × List (Int × Int))) (A' : Aff) (ttol stol tol sttol : Rat) (hst : sttol ≤ tol)
    (hchk : C12.checkLinear a.S a.D ttol stol tol sttol = .ok (some A'))
    (hg : C12.gridIntersectLinear ⟨a.dstH, a.dstW, tiling12 a.dstH a.dstW a.sy a.sx a.chunks⟩
            ⟨a.srcH, a.srcW, ⟨.var (intChunks a.sy), .var (intChunks a.sx)⟩⟩ A' = .ok g)
    (hr : xrDask a G (depsOfC12 g) src = .ok r)
    (hsmall : a.chunks.Small) (hsy' : ChunksOK (intChunks a.sy)) (hsx' : ChunksOK (intChunks a.sx))
    (hb : (a.S.inv * a.D).b = 0) (hd' : (a.S.inv * a.D).d = 0)
    (ha : (a.S.inv * a.D).a ≠ 0) (he : (a.S.inv * a.D).e ≠ 0)
    (ha' : A'.a ≠ 0) (he' : A'.e ≠ 0)
    (hx : |(a.S.inv * a.D).a - A'.a| * ((a.dstW : Int) : Rat) + |(a.S.inv * a.D).c - A'.c| ≤ |A'.a| / 4)
    (hy : |(a.S.inv * a.D).e - A'.e| * ((a.dstH : Int) : Rat) + |(a.S.inv * a.D).f - A'.f| ≤ |A'.e| / 4)
    (hbuf : WF buf a.dstH a.dstW)
    (hsy : a.sy.sum = a.srcH) (hsx : a.sx.sum = a.srcW)
    (hH : 1 ≤ a.srcH) (hW : 1 ≤ a.srcW)
    (hS : a.S.det ≠ 0)
    (hnd1 : NodataOk a.kind (xrNodata a.attrNd a.kwSrcNd a.dstNd).2)
    (hnd2 : NodataOk a.kind (xrNodata a.attrNd a.kwSrcNd a.dstNd).1)
    (d : Int × Int) (hd : 0 ≤ d.1 ∧ d.1 < a.dstH ∧ 0 ≤ d.2 ∧ d.2 < a.dstW) :
    r d = xrNumpy a G src buf d := by
  obtain ⟨_, _, hb', hd''⟩ := check_linear_accepts_only_st a.S a.D ttol stol tol sttol A' hS hst hchk
  have hcfg : ∃ c, xrCfg a (depsOfC12 g) = .ok c := by
    unfold xrDask at hr
    cases h : xrCfg a (depsOfC12 g) with
    | error e => rw [h] at hr; simp [bind, Except.bind] at hr
    | ok c => exact ⟨c, rfl⟩
  obtain ⟨c, hc⟩ := hcfg
  have hc' := hc
  unfold xrCfg at hc'
  cases ht : dstTilings a.dstH a.dstW a.sy a.sx a.chunks with
  | error e => rw [ht] at hc'; simp [bind, Except.bind] at hc'
  | ok t =>
    obtain ⟨dy, dx⟩ := t
    rw [ht] at hc'
    simp only [bind, Except.bind, pure, Except.pure, Except.ok.injEq] at hc'
    obtain ⟨hry, hrx⟩ := dstTilings_rel _ _ _ _ _ hsmall _ _ ht
    obtain ⟨hdy, hdx⟩ := dstTilings_chain _ _ _ _ _ _ _ ht
    have h1 := chunksTiling_isTiling a.sy
    have h2 := chunksTiling_isTiling a.sx
    rw [hsy] at h1
    rw [hsx] at h2
    let dst12 : C12.GBT := ⟨a.dstH, a.dstW, tiling12 a.dstH a.dstW a.sy a.sx a.chunks⟩
    let src12 : C12.GBT := ⟨a.srcH, a.srcW, ⟨.var (intChunks a.sy), .var (intChunks a.sx)⟩⟩
    have hw : src12.WF :=
      ⟨hsy', hsx', by simp only [src12, Tiling.base]; rw [vbase_eq_total _ hsy', total_intChunks, hsy],
        by simp only [src12, Tiling.base]; rw [vbase_eq_total _ hsx', total_intChunks, hsx],
        by simp only [src12]; omega, by simp only [src12]; omega⟩
    have hvalid : DepsValid c := by
      subst hc'
      exact depsValid_of_linear dst12 src12 hw _ g hg _ _ (tilingRel_var a.sy hsy') (tilingRel_var a.sx hsx')
    refine xr_entry_chunked_eq_whole a G (depsOfC12 g) src buf r c hc hr hbuf hsy hsx hS hvalid ?_ hnd1 hnd2 d hd
    subst hc'
    refine deps_complete_of_linear_tol _ dst12 src12
      ⟨tilingRel_var a.sy hsy', tilingRel_var a.sx hsx', hry, hrx, rfl, rfl⟩ hw h1 h2 hb hd' ha he A' hb' hd'' ha' he'
      hdy hdx hx hy ?_
    intro iy ix l hiy hix hl i j hmem
    dsimp only at hiy hix
    have hlook := lookup_depsOfC12 (C12.linearDeps dst12 src12 A') iy ix l hl
      (C12.allTiles dst12) g hg
      (by
        intro t ht'
        simp only [C12.allTiles, C12.mem_product, C12.mem_irange] at ht'
        exact ⟨ht'.1.1, ht'.2.1⟩)
      (by
        simp only [C12.allTiles, C12.mem_product, C12.mem_irange]
        have e1 : dst12.tiles.y.count = (dy.length : Int) := hry.count
        have e2 : dst12.tiles.x.count = (dx.length : Int) := hrx.count
        rw [e1, e2]
        omega)
    show (i, j) ∈ lookupDeps (depsOfC12 g) (iy, ix)
    rw [hlook]
    exact List.mem_map.2 ⟨((i : Int), (j : Int)), hmem, by simp [idxToNat]⟩

/-- a destination grid shifted by 2^-11 source pixels: `_check_linear` snaps the shift away -/
def snapArgs : XrArgs := { cexArgs with D := ⟨1, 0, 1 / 2048, 0, 1, 0⟩ }

theorem snapArgs_checkLinear :
    C12.checkLinear snapArgs.S snapArgs.D (1 / 1000) (1 / 1000000) (1 / 100000000) (1 / 10000000000) = .ok (some Aff.id) := by
  decide +kernel

/-- all hypotheses of `xr_entry_linear_snapped` hold together on a transform that IS snapped -/
example : ∃ r, xrDask snapArgs cexGdal (depsOfC12 [((0, 0), [(0, 0)])]) (full 1 1 (.num 5)) = .ok r ∧
    r (0, 0) = xrNumpy snapArgs cexGdal (full 1 1 (.num 5)) (full 1 2 (.num 77)) (0, 0) := by
  have hr : ∃ r, xrDask snapArgs cexGdal (depsOfC12 [((0, 0), [(0, 0)])]) (full 1 1 (.num 5)) = .ok r := ⟨_, rfl⟩
  obtain ⟨r, hr⟩ := hr
  refine ⟨r, hr, ?_⟩
  have hA : snapArgs.S.inv * snapArgs.D = ⟨1, 0, 1 / 2048, 0, 1, 0⟩ := by decide +kernel
  exact xr_entry_linear_snapped snapArgs cexGdal _ (full 1 2 (.num 77)) r _ Aff.id (1 / 1000) (1 / 1000000)
    (1 / 100000000) (1 / 10000000000) (by norm_num) snapArgs_checkLinear (by decide +kernel) hr trivial
    ⟨by decide, by decide⟩ ⟨by decide, by decide⟩ (by rw [hA]) (by rw [hA]) (by rw [hA]; norm_num) (by rw [hA]; norm_num)
    (by decide +kernel) (by decide +kernel)
    (by rw [hA]; norm_num [Aff.id, snapArgs, cexArgs, abs_of_pos])
    (by rw [hA]; norm_num [Aff.id, snapArgs, cexArgs])
    (by intro p; simp only [full, snapArgs, cexArgs]; split <;> simp_all)
    rfl rfl (by decide) (by decide) (by decide +kernel)
    (by intro h; cases h) (by intro h; cases h) (0, 0) (by decide)

/-! ### the known findings lie exactly outside the drift bound of `xr_entry_linear_snapped` -/

/-- K17 (translation snapped at 2048x zoom): the snap moves the map by 2^-11 source pixels = one destination pixel,
four times the quarter-pixel budget `|a'|/4 = 2^-13` -/
theorem k17_outside_bound :
    ¬ (|(k17S.inv * k17D).a - k17A'.a| * ((2056 : Int) : Rat) + |(k17S.inv * k17D).c - k17A'.c| ≤ |k17A'.a| / 4) := by
  have hA : k17S.inv * k17D = ⟨1 / 2048, 0, 2049 / 2048, 0, 1 / 2048, 1 / 2⟩ := by decide +kernel
  rw [hA]
  norm_num [k17A']

/-- K23 (scale `1 + 2^-21` snapped to 1 on a raster 2^21 + 8 pixels wide): the accumulated drift exceeds one source
pixel, the budget is a quarter -/
theorem k23_outside_bound :
    ¬ (|(k23S.inv * k23D).a - Aff.id.a| * ((2097152 + 8 : Int) : Rat) + |(k23S.inv * k23D).c - Aff.id.c| ≤ |Aff.id.a| / 4) := by
  have hA : k23S.inv * k23D = ⟨1 + 1 / 2097152, 0, 0, 0, 1, 0⟩ := by decide +kernel
  rw [hA]
  norm_num [Aff.id]

end OdcGeo.C13
