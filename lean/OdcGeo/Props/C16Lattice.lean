/-
C16 — the algebra of `|` and `&` on the GeoBoxes of one pixel grid, packaged; and `reduce(&)` = n-ary for
arbitrary operand lists without the shape assumption.

On a common grid `|` and `&` are the images of `Rect.union` (bounding hull) and `Rect.inter` (shared pixels,
normalised when empty).  They are idempotent, commutative, associative, `a & (a | b) = a`, and
`a | (a & b) = a` whenever `a` and `b` share a pixel.  They do NOT form a distributive lattice, and the
second absorption law fails for disjoint operands (the empty `a & b` is a zero-width box placed beside
`a`, which the hull then reaches for): both are shown by concrete witnesses.
-/
import OdcGeo.Props.C16World

namespace OdcGeo.C16
open OdcGeo

/-- **The lattice-like laws of `|` and `&` on one pixel grid** (any invertible grid; `r`, `s`, `t` pixel
rectangles of non-negative shape, empty ones included): closure, idempotence, commutativity,
associativity, absorption `a & (a | b) = a`, and `a | (a & b) = a` when a pixel is shared. -/
theorem geobox_lattice_laws (g0 : GeoBox) (hdet : g0.aff.det ≠ 0) (r s t : Rect) (hr : r.Valid) :
    -- closure: the results are members of the family
    (onGrid g0 r).or (onGrid g0 s) = .ok (onGrid g0 (r.union s)) ∧
    (onGrid g0 r).and (onGrid g0 s) = .ok (onGrid g0 (r.inter s)) ∧
    -- idempotent
    (onGrid g0 r).or (onGrid g0 r) = .ok (onGrid g0 r) ∧ (onGrid g0 r).and (onGrid g0 r) = .ok (onGrid g0 r) ∧
    -- commutative
    (onGrid g0 r).or (onGrid g0 s) = (onGrid g0 s).or (onGrid g0 r) ∧
    (onGrid g0 r).and (onGrid g0 s) = (onGrid g0 s).and (onGrid g0 r) ∧
    -- associative (on the rectangles the results stand on)
    (r.union s).union t = r.union (s.union t) ∧ (r.inter s).inter t = r.inter (s.inter t) ∧
    -- absorption
    (onGrid g0 r).and (onGrid g0 (r.union s)) = .ok (onGrid g0 r) ∧
    ((r.inter s).NonEmpty → (onGrid g0 r).or (onGrid g0 (r.inter s)) = .ok (onGrid g0 r)) := by
  obtain ⟨v1, v2⟩ := hr
  refine ⟨or_onGrid g0 hdet r s, and_onGrid g0 hdet r s, ?_, ?_, union_comm_world g0 hdet r s,
    inter_comm_world g0 hdet r s, ?_, ?_, ?_, ?_⟩
  · rw [or_onGrid g0 hdet, Rect.union_self]
  · rw [and_onGrid g0 hdet]
    congr 2
    obtain ⟨x0, y0, x1, y1⟩ := r
    simp only [Rect.inter, Rect.mk.injEq] at v1 v2 ⊢
    omega
  · simp only [Rect.union, Rect.mk.injEq]; omega
  · simp only [Rect.inter, Rect.mk.injEq]; omega
  · rw [and_onGrid g0 hdet]
    congr 2
    obtain ⟨x0, y0, x1, y1⟩ := r
    simp only [Rect.inter, Rect.union, Rect.mk.injEq] at v1 v2 ⊢
    omega
  · rintro ⟨n1, n2⟩
    rw [or_onGrid g0 hdet]
    congr 2
    obtain ⟨x0, y0, x1, y1⟩ := r
    simp only [Rect.inter, Rect.union, Rect.mk.injEq] at v1 v2 n1 n2 ⊢
    omega

/-- **Not a distributive lattice**: with `a` between two boxes `b`, `c` it does not touch,
`a & (b | c) = a` (the hull of `b` and `c` covers `a`) but `(a & b) | (a & c)` is an empty GeoBox. -/
theorem geobox_not_distributive_cex :
    (⟨2, 0, 3, 1⟩ : Rect).inter ((⟨0, 0, 1, 1⟩ : Rect).union ⟨4, 0, 5, 1⟩) = ⟨2, 0, 3, 1⟩ ∧
    (((⟨2, 0, 3, 1⟩ : Rect).inter ⟨0, 0, 1, 1⟩).union ((⟨2, 0, 3, 1⟩ : Rect).inter ⟨4, 0, 5, 1⟩)) = ⟨2, 0, 4, 1⟩ ∧
    (⟨2, 0, 3, 1⟩ : Rect) ≠ ⟨2, 0, 4, 1⟩ := by decide

/-- **`a | (a & b) = a` fails for disjoint operands** (as on HEAD): the empty `a & b` is a zero-width box at
the start of `b`, and the union's hull reaches for it -/
theorem geobox_absorption_disjoint_cex :
    (⟨0, 0, 1, 1⟩ : Rect).inter ⟨5, 0, 6, 1⟩ = ⟨5, 0, 5, 1⟩ ∧
    (⟨0, 0, 1, 1⟩ : Rect).union ((⟨0, 0, 1, 1⟩ : Rect).inter ⟨5, 0, 6, 1⟩) = ⟨0, 0, 5, 1⟩ ∧
    (⟨0, 0, 1, 1⟩ : Rect) ≠ ⟨0, 0, 5, 1⟩ := by decide

/-- **`reduce(&)` = n-ary for arbitrary operands, no shape assumption**, as soon as there is a second
operand: the first `&` already normalises. (For a single operand of negative width the n-ary form
returns a zero-width GeoBox while `reduce` returns the operand itself — `reduce_and_eq_inter_any` needs
its hypothesis only there.) -/
theorem reduce_and_eq_inter_any' (a : GeoBox) (hdet : a.aff.det ≠ 0) (g : GeoBox) (gs : List GeoBox) :
    List.foldlM (fun acc g => acc.and g) a (g :: gs) = geoboxIntersectionConservative (a :: g :: gs) := by
  have hself : bboxInPixelDomain a a tolPix = .ok ⟨0, 0, a.nx, a.ny, none⟩ := by
    have := bboxInPixelDomain_of_mul a a rfl hdet 0 0 (by simp [translation_zero, Aff.mul_id]) tolPix tolPix_pos
    simpa using this
  have ha : a = geoboxOfPixBBox a ⟨0, 0, a.nx, a.ny, none⟩ := by
    simp [geoboxOfPixBBox, translation_zero, Aff.mul_id]
  have hstep := and_step a hdet ⟨0, 0, a.nx, a.ny, none⟩ g
  rw [← ha] at hstep
  simp only [List.foldlM_cons, hstep, geoboxIntersectionConservative, allBBoxes, hself, bboxIntersection]
  cases hb : bboxInPixelDomain g a tolPix with
  | error e => rfl
  | ok bb =>
    have hc := bbpd_crs_none g a tolPix bb hb
    simp only [bind, Except.bind]
    rw [foldl_and_eq a hdet gs ⟨max bb.left 0, max bb.bottom 0, min bb.right a.nx, min bb.top a.ny, none⟩ rfl]
    cases allBBoxes a tolPix gs with
    | error e => rfl
    | ok bbs =>
      simp only [foldRes, interStep, hc, ne_eq, not_true_eq_false, if_false]
      rfl

/-- non-vacuity: an invertible grid and a rectangle of non-negative (here zero-width) shape -/
example : ∃ (g0 : GeoBox) (r : Rect), g0.aff.det ≠ 0 ∧ r.Valid :=
  ⟨⟨4, 5, ⟨3, -4, 100, 4, 3, 200⟩, some 1⟩, ⟨0, 0, 0, 3⟩, by simp [Aff.det]; norm_num, ⟨by decide, by decide⟩⟩
example : (Rect.inter ⟨0, 0, 4, 4⟩ ⟨2, 1, 6, 3⟩).NonEmpty := ⟨by decide, by decide⟩

end OdcGeo.C16
