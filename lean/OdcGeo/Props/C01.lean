/- C01 — property theorems only.

Every theorem about `run` is stated for an **arbitrary** `OpSpec` (any walk, any arity, any
error kind) and an arbitrary delegate, which is stronger than quantifying over `opTable`;
`table_*` theorems then record the facts that are specific to the table the harness matches
against the live modules. -/
import OdcGeo.Model.C01
import OdcGeo.Lemmas.C01
namespace OdcGeo.C01

variable {S R : Type}

/-! ### `CRS.__eq__` -/

theorem crsEq_refl (a : CrsRec) : crsEq a a = true := crsEq_refl' a

theorem crsEq_symm (a b : CrsRec) : crsEq a b = crsEq b a := crsEq_symm' a b

/-- For well-formed records `CRS.__eq__` decides exactly pyproj equality. -/
theorem crsEq_iff_sameClass (a b : CrsRec) (h : WF a b) : crsEq a b = true ↔ a.cls = b.cls := by
  unfold crsEq
  by_cases h1 : a.objId = b.objId
  · simp [h1, h.obj h1]
  · by_cases h2 : a.epsg ≠ 0 ∧ b.epsg ≠ 0
    · rw [if_neg h1, if_pos h2, decide_eq_true_eq]
      exact h.epsg h2.1 h2.2
    · by_cases h4 : a.str = b.str
      · simp [h1, h2, h4, h.str h4]
      · simp [h1, h2, h4]

/-- The same CRS in another spelling (EPSG code vs WKT vs PROJJSON …) is accepted. -/
theorem crsEq_spelling (a b : CrsRec) (h : WF a b) (hc : a.cls = b.cls) : crsEq a b = true :=
  (crsEq_iff_sameClass a b h).mpr hc

/-- On well-formed records `CRS.__eq__` is transitive (it is not on arbitrary records). -/
theorem crsEq_trans (a b c : CrsRec) (hab : WF a b) (hbc : WF b c) (hac : WF a c)
    (h1 : crsEq a b = true) (h2 : crsEq b c = true) : crsEq a c = true :=
  (crsEq_iff_sameClass a c hac).mpr
    (((crsEq_iff_sameClass a b hab).mp h1).trans ((crsEq_iff_sameClass b c hbc).mp h2))

/-- Without well-formedness transitivity fails: this is why `WF` is checked on the live CRS pool. -/
theorem crsEq_not_trans_cex :
    crsEq ⟨1, 5, 1, 1⟩ ⟨2, 0, 1, 2⟩ = true ∧ crsEq ⟨2, 0, 1, 2⟩ ⟨3, 6, 3, 2⟩ = true ∧
    crsEq ⟨1, 5, 1, 1⟩ ⟨3, 6, 3, 2⟩ = false := by decide

theorem tagEq_refl (t : Tag) : tagEq t t = true := tagEq_refl' t
theorem tagEq_symm (a b : Tag) : tagEq a b = tagEq b a := tagEq_symm' a b
theorem tagNe_symm (a b : Tag) : tagNe a b = tagNe b a := tagNe_symm' a b

/-- "exactly one operand has no CRS" always counts as a mismatch, in both operand orders -/
theorem tagNe_none_some (c : CrsRec) : tagNe none (some c) = true ∧ tagNe (some c) none = true := by
  simp [tagNe, tagEq]

theorem tagNe_none_none : tagNe none none = false := by simp [tagNe, tagEq]

/-! ### the three statements of the property, for every walk -/

/-- what leaves the operation on a CRS mismatch -/
def raisedErr (op : OpSpec) : Err :=
  match op.walk with
  | .pixelEach => op.mismatchErr.asValueError
  | _ => op.mismatchErr

/-- delegates that cannot fail between two CRS checks (only the interleaved walks need it) -/
def StepsTotal (D : Delegate S R) (op : OpSpec) : Prop :=
  match op.walk with
  | .reduce => ∀ acc s, ∃ acc', D.step op.name acc s = .ok acc'
  | .pixelEach => ∀ s r, ∃ b, D.pix op.name s r = .ok b
  | _ => True

/-- **No mixed result**: whenever an operation returns, every operand's CRS compared equal to
the first operand's.  No hypothesis on the delegate, the operand count or the walk. -/
theorem no_mixed_result (op : OpSpec) (D : Delegate S R) (x0 : Obj S) (rest : List (Obj S))
    (r : Out R) (h : run op D (x0 :: rest) = .ok r) : ∀ x ∈ rest, tagEq x0.crs x.crs = true := by
  unfold run at h
  by_cases har : op.arity = .two ∧ rest.length ≠ 1
  · simp [har] at h
  · simp only [har, if_false] at h
    cases hw : op.walk with
    | guardFirst rev =>
      simp only [hw] at h
      cases hg : guardAll rev op.mismatchErr x0.crs rest with
      | error e => simp [hg] at h
      | ok u => exact (guardAll_ok_iff rev op.mismatchErr x0.crs rest).mp hg
    | reduce =>
      simp only [hw] at h
      cases hg : reduceGo D op.name op.mismatchErr x0.crs (D.init op.name x0.raw) rest with
      | error e => simp [hg] at h
      | ok acc => exact reduceGo_ok_allEq D _ _ _ rest _ acc hg
    | foldCheckInside =>
      simp only [hw] at h
      cases hg : foldGo D op.name op.mismatchErr x0.crs (D.init op.name x0.raw) rest with
      | error e => simp [hg] at h
      | ok acc => exact foldGo_ok_allEq D _ _ _ rest _ acc hg
    | pixelEach =>
      simp only [hw] at h
      cases hg : pixGo D op.name op.mismatchErr x0 (x0 :: rest) with
      | error e => simp [hg] at h
      | ok bs =>
        have := pixGo_ok_allEq D _ _ x0 (x0 :: rest) bs hg
        exact (allEq_cons.mp this).2

/-- A mismatch anywhere (in particular exactly one operand without CRS) never yields a result. -/
theorem mismatch_never_ok (op : OpSpec) (D : Delegate S R) (x0 : Obj S) (rest : List (Obj S))
    (hmis : ∃ x ∈ rest, tagNe x0.crs x.crs = true) : ∃ e, run op D (x0 :: rest) = .error e := by
  cases hr : run op D (x0 :: rest) with
  | error e => exact ⟨e, rfl⟩
  | ok r =>
    obtain ⟨x, hx, hne⟩ := hmis
    have := no_mixed_result op D x0 rest r hr x hx
    simp [tagNe, this] at hne

/-- **Mismatch raises**: with the right number of operands, a mismatch anywhere raises the
operation's CRS error (`CRSMismatchError`, or the GeoBox family's `ValueError`), for operand
lists of any length.  For the two interleaved walks the delegate must not fail first
(`StepsTotal`; see `mismatch_raises_two` for the hypothesis-free binary case). -/
theorem mismatch_raises (op : OpSpec) (D : Delegate S R) (x0 : Obj S) (rest : List (Obj S))
    (har : op.arity = .two → rest.length = 1) (hD : StepsTotal D op)
    (hmis : ∃ x ∈ rest, tagNe x0.crs x.crs = true) :
    run op D (x0 :: rest) = .error (raisedErr op) := by
  have hna : ¬ AllEq x0.crs rest := by
    intro hall
    obtain ⟨x, hx, hne⟩ := hmis
    simp [tagNe, hall x hx] at hne
  have har' : ¬ (op.arity = .two ∧ rest.length ≠ 1) := fun h => h.2 (har h.1)
  unfold run
  simp only [har', if_false]
  unfold StepsTotal at hD
  unfold raisedErr
  cases hw : op.walk with
  | guardFirst rev =>
    dsimp only
    rw [guardAll_err_of_not_allEq rev _ _ rest hna]
  | reduce =>
    simp only [hw] at hD
    dsimp only
    rw [reduceGo_mismatch D _ _ _ hD rest _ hna]
  | foldCheckInside =>
    dsimp only
    rw [foldGo_mismatch D _ _ _ rest _ hna]
  | pixelEach =>
    simp only [hw] at hD
    dsimp only
    have : ¬ AllEq x0.crs (x0 :: rest) := fun h => hna (allEq_cons.mp h).2
    rw [pixGo_mismatch D _ _ x0 hD (x0 :: rest) this]

/-- Binary form (`a.op(b)`, `a | b`, …): no assumption on shapely; for the GeoBox `|`/`&` only
that the reference's own pixel box can be computed. -/
theorem mismatch_raises_two (op : OpSpec) (D : Delegate S R) (a b : Obj S)
    (hpix : op.walk = .pixelEach → ∃ bx, D.pix op.name a.raw a.raw = .ok bx)
    (hmis : tagNe a.crs b.crs = true) :
    run op D [a, b] = .error (raisedErr op) := by
  unfold run raisedErr
  have hne' : tagNe b.crs a.crs = true := by rw [tagNe_symm]; exact hmis
  cases hw : op.walk with
  | guardFirst rev =>
    cases rev <;> simp [guardAll, hmis, hne']
  | reduce => simp [reduceGo, hmis]
  | foldCheckInside => simp [foldGo, hmis]
  | pixelEach =>
    obtain ⟨bx, hb⟩ := hpix hw
    have hself : tagNe a.crs a.crs = false := by simp [tagNe, tagEq_refl]
    simp [pixGo, hself, hb, hne']

/-- **Equal delegates**: when all CRSs compare equal (in whatever spelling) the result is
exactly the un-guarded computation on the raw shapes, re-tagged with the first operand's CRS
(or left untagged for predicates / ROIs), errors of the delegate included. -/
theorem equal_delegates (op : OpSpec) (D : Delegate S R) (x0 : Obj S) (rest : List (Obj S))
    (heq : ∀ x ∈ rest, tagEq x0.crs x.crs = true) :
    run op D (x0 :: rest) = (rawRun op D (x0.raw :: rest.map (·.raw))).map (retag op x0.crs) := by
  have hall : AllEq x0.crs rest := heq
  unfold run rawRun
  by_cases har : op.arity = .two ∧ rest.length ≠ 1
  · simp [har]; rfl
  · simp only [har, if_false, List.length_map]
    cases hw : op.walk with
    | guardFirst rev =>
      dsimp only
      rw [(guardAll_ok_iff rev _ _ rest).mpr hall]
      cases D.call op.name (x0.raw :: List.map (fun x => x.raw) rest) <;> rfl
    | reduce =>
      dsimp only
      rw [reduceGo_eq_raw D _ _ _ rest _ hall]
      cases rawReduce D op.name (D.init op.name x0.raw) (List.map (fun x => x.raw) rest) <;> rfl
    | foldCheckInside =>
      dsimp only
      rw [foldGo_eq_raw D _ _ _ rest _ hall]
      rfl
    | pixelEach =>
      dsimp only
      have h0 : AllEq x0.crs (x0 :: rest) := allEq_cons.mpr ⟨tagEq_refl _, hall⟩
      rw [pixGo_eq_raw D _ _ x0 (x0 :: rest) h0]
      simp only [List.map_cons]
      cases rawPix D op.name x0.raw (x0.raw :: List.map (fun x => x.raw) rest) with
      | error e => rfl
      | ok bs =>
        dsimp only
        cases D.fin op.name x0.raw bs <;> rfl

/-- no operands at all: nothing to mix; the model answers what the raw operation answers -/
theorem equal_delegates_nil (op : OpSpec) (D : Delegate S R) :
    run op D [] = (rawRun op D []).map (retag op none) := by
  unfold run rawRun
  cases op.arity with
  | two => rfl
  | many => cases op.onEmpty <;> rfl

/-- the result carries the first operand's CRS, or no CRS at all when it is not a geo-object -/
theorem result_tag (op : OpSpec) (D : Delegate S R) (x0 : Obj S) (rest : List (Obj S))
    (t : Option Tag) (r : R) (h : run op D (x0 :: rest) = .ok (.val t r)) :
    t = outTag op x0.crs := by
  unfold run at h
  by_cases har : op.arity = .two ∧ rest.length ≠ 1
  · simp [har] at h
  · simp only [har, if_false] at h
    cases hw : op.walk with
    | guardFirst rev =>
      simp only [hw] at h
      cases hg : guardAll rev op.mismatchErr x0.crs rest with
      | error e => simp [hg] at h
      | ok u =>
        cases hc : D.call op.name (x0.raw :: List.map (fun x => x.raw) rest) with
        | error e => simp [hg, hc] at h
        | ok r' => simp [hg, hc] at h; exact h.1.symm
    | reduce =>
      simp only [hw] at h
      cases hg : reduceGo D op.name op.mismatchErr x0.crs (D.init op.name x0.raw) rest with
      | error e => simp [hg] at h
      | ok acc => simp [hg] at h; exact h.1.symm
    | foldCheckInside =>
      simp only [hw] at h
      cases hg : foldGo D op.name op.mismatchErr x0.crs (D.init op.name x0.raw) rest with
      | error e => simp [hg] at h
      | ok acc => simp [hg] at h; exact h.1.symm
    | pixelEach =>
      simp only [hw] at h
      cases hg : pixGo D op.name op.mismatchErr x0 (x0 :: rest) with
      | error e => simp [hg] at h
      | ok bs =>
        cases hf : D.fin op.name x0.raw bs with
        | error e => simp [hg, hf] at h
        | ok r' => simp [hg, hf] at h; exact h.1.symm

theorem tagEq_trans (a b c : Tag) (hab : TagWF a b) (hbc : TagWF b c) (hac : TagWF a c)
    (h1 : tagEq a b = true) (h2 : tagEq b c = true) : tagEq a c = true := by
  cases a <;> cases b <;> cases c <;> simp_all [tagEq, TagWF]
  exact crsEq_trans _ _ _ hab hbc hac h1 h2

/-- With well-formed CRS records a returned result means that **all operands pairwise** carry
equal CRSs (not only "equal to the first"): nothing computed from two different systems. -/
theorem no_mixed_result_pairwise (op : OpSpec) (D : Delegate S R) (x0 : Obj S) (rest : List (Obj S))
    (r : Out R) (h : run op D (x0 :: rest) = .ok r)
    (hwf : ∀ x ∈ x0 :: rest, ∀ y ∈ x0 :: rest, TagWF x.crs y.crs) :
    ∀ x ∈ x0 :: rest, ∀ y ∈ x0 :: rest, tagEq x.crs y.crs = true := by
  have h0 := no_mixed_result op D x0 rest r h
  have hfirst : ∀ x ∈ x0 :: rest, tagEq x0.crs x.crs = true := by
    intro x hx
    rcases List.mem_cons.mp hx with rfl | hx
    · exact tagEq_refl _
    · exact h0 x hx
  intro x hx y hy
  have hx0 : tagEq x.crs x0.crs = true := by rw [tagEq_symm]; exact hfirst x hx
  exact tagEq_trans x.crs x0.crs y.crs (hwf x hx x0 (List.mem_cons_self ..))
    (hwf x0 (List.mem_cons_self ..) y hy) (hwf x hx y hy) hx0 (hfirst y hy)

/-! ### the stream folds: the error comes at the first differing element -/

/-- `bbox_union` / `bbox_intersection` loop: whatever follows the first differing box is never
looked at, and the (already updated) accumulator is discarded. -/
theorem fold_first_mismatch (D : Delegate S R) (name : String) (e : Err) (t0 : Tag) (acc : R)
    (pre post : List (Obj S)) (y : Obj S)
    (_hpre : ∀ x ∈ pre, tagEq t0 x.crs = true) (hy : tagNe t0 y.crs = true) :
    foldGo D name e t0 acc (pre ++ y :: post) = .error e := by
  apply foldGo_mismatch
  intro hall
  have := hall y (by simp)
  simp [tagNe, this] at hy

/-! ### facts about the table the harness matches against the live modules -/

theorem table_names_nodup : (opTable.map (·.name)).Nodup := by decide

/-- every table entry raises a `ValueError` (CRSMismatchError or plain) on mismatch, also after
the re-raise inside the bounding-box fold -/
theorem table_mismatch_is_valueError :
    ∀ op ∈ opTable, (raisedErr op).isValueError = true ∧ raisedErr op = op.mismatchErr := by decide

/-- binary table entries are exactly those called with two operands -/
theorem table_mismatch_raises (op : OpSpec) (_hop : op ∈ opTable) (D : Delegate S R) (x0 : Obj S)
    (rest : List (Obj S)) (har : op.arity = .two → rest.length = 1) (hD : StepsTotal D op)
    (hmis : ∃ x ∈ rest, tagNe x0.crs x.crs = true) :
    ∃ e, run op D (x0 :: rest) = .error e ∧ e.isValueError = true := by
  refine ⟨raisedErr op, mismatch_raises op D x0 rest har hD hmis, ?_⟩
  exact (table_mismatch_is_valueError op _hop).1

/-- the positional-only operations are table entries, and exactly the guard-first binary
`Geometry` methods other than `split` -/
theorem positionalOnly_in_table :
    ∀ n ∈ positionalOnly, ∃ op ∈ opTable, op.name = n ∧ op.walk = .guardFirst false ∧ op.arity = .two := by
  decide

/-- a call form that is not accepted never yields a result, hence never a mixed one; an accepted
one goes through `run` (the call form does not enter the model of the operation) -/
theorem callForm_positional_always (n : String) : callFormAccepted n .positional = true := rfl

/-- a foreign CRS object is identified by its own WKT whatever its (fuzzy) `to_epsg()` or
`to_string()` say, and is refused without `to_wkt()`: a near-match EPSG code can never make
two different systems compare equal at construction -/
theorem foreign_identity_ignores_epsg (w e e' s s' : Bool) :
    foreignIdentity w e s = foreignIdentity w e' s' ∧
    (foreignIdentity true e s = .ok .wkt) ∧ (∃ err, foreignIdentity false e s = .error err) := by
  cases w <;> simp [foreignIdentity]

/-- `mismatch_raises` without `StepsTotal`, for `functools.reduce`: the CRS error is raised at
the first differing operand provided shapely succeeded on the CRS-consistent operands before
it (if shapely fails earlier, that failure is what propagates — still no result). -/
theorem reduce_first_mismatch (D : Delegate S R) (name : String) (e : Err) (t0 : Tag) :
    ∀ (pre : List (Obj S)) (acc acc' : R) (y : Obj S) (post : List (Obj S)),
      (∀ x ∈ pre, tagEq t0 x.crs = true) → rawReduce D name acc (pre.map (·.raw)) = .ok acc' →
      tagNe t0 y.crs = true → reduceGo D name e t0 acc (pre ++ y :: post) = .error e := by
  intro pre
  induction pre with
  | nil => intro acc acc' y post _ _ hy; simp [reduceGo, hy]
  | cons x pre ih =>
    intro acc acc' y post hall hraw hy
    have hx : tagNe t0 x.crs = false := (tagNe_false_iff _ _).mpr (hall x (List.mem_cons_self ..))
    simp only [List.map_cons, rawReduce] at hraw
    simp only [List.cons_append, reduceGo, hx, Bool.false_eq_true, if_false]
    cases hs : D.step name acc x.raw with
    | error e' => simp [hs] at hraw
    | ok a1 =>
      simp only [hs] at hraw ⊢
      exact ih a1 acc' y post (fun z hz => hall z (List.mem_cons_of_mem _ hz)) hraw hy

/-- the same for the pixel-domain generator of `geobox_*_conservative` -/
theorem pixel_first_mismatch (D : Delegate S R) (name : String) (e : Err) (ref : Obj S) :
    ∀ (pre : List (Obj S)) (bs : List R) (y : Obj S) (post : List (Obj S)),
      (∀ x ∈ pre, tagEq ref.crs x.crs = true) → rawPix D name ref.raw (pre.map (·.raw)) = .ok bs →
      tagNe y.crs ref.crs = true → pixGo D name e ref (pre ++ y :: post) = .error e := by
  intro pre
  induction pre with
  | nil => intro bs y post _ _ hy; simp [pixGo, hy]
  | cons x pre ih =>
    intro bs y post hall hraw hy
    have hx : tagNe x.crs ref.crs = false := by
      rw [tagNe_symm]; exact (tagNe_false_iff _ _).mpr (hall x (List.mem_cons_self ..))
    simp only [List.map_cons, rawPix] at hraw
    simp only [List.cons_append, pixGo, hx, Bool.false_eq_true, if_false]
    cases hp : D.pix name x.raw ref.raw with
    | error e' => simp [hp] at hraw
    | ok b =>
      simp only [hp] at hraw ⊢
      cases hr : rawPix D name ref.raw (pre.map (·.raw)) with
      | error e' => simp [hr] at hraw
      | ok bs' =>
        rw [ih bs' y post (fun z hz => hall z (List.mem_cons_of_mem _ hz)) hr hy]
/-! ### operations as programs: the check precedes every geometric short-cut -/

theorem runBody_of_eq (op : OpSpec) (D : Delegate S R) (Q : Quick S R) (t0 : Tag) (x : Obj S)
    (hx : tagNe t0 x.crs = false) :
    ∀ (body : List LoopStmt) (acc : R), ∃ acc', runBody op D Q t0 x acc body = .ok acc' := by
  intro body
  induction body with
  | nil => intro acc; exact ⟨acc, rfl⟩
  | cons st more ih =>
    intro acc
    cases st with
    | accumulate => exact ih _
    | check => simp only [runBody, hx, Bool.false_eq_true]; exact ih acc
    | continueIf p =>
      simp only [runBody]
      by_cases hs : Q.skip p x.raw = true
      · exact ⟨acc, by simp [hs]⟩
      · simp only [hs]; exact ih acc

theorem runBody_safe_ok (op : OpSpec) (D : Delegate S R) (Q : Quick S R) (t0 : Tag) (x : Obj S) :
    ∀ (body : List LoopStmt), safeBody body = true → ∀ (acc acc' : R),
      runBody op D Q t0 x acc body = .ok acc' → tagEq t0 x.crs = true := by
  intro body
  induction body with
  | nil => intro h; simp [safeBody] at h
  | cons st more ih =>
    intro h acc acc' hr
    cases st with
    | accumulate => exact ih (by simpa [safeBody] using h) _ acc' hr
    | check =>
      simp only [runBody] at hr
      by_cases hne : tagNe t0 x.crs = true
      · simp [hne] at hr
      · exact (tagNe_false_iff _ _).mp (by simpa using hne)
    | continueIf p => simp [safeBody] at h

theorem runBody_safe_mismatch (op : OpSpec) (D : Delegate S R) (Q : Quick S R) (t0 : Tag) (x : Obj S)
    (hx : tagNe t0 x.crs = true) :
    ∀ (body : List LoopStmt), safeBody body = true → ∀ (acc : R),
      runBody op D Q t0 x acc body = .error op.mismatchErr := by
  intro body
  induction body with
  | nil => intro h; simp [safeBody] at h
  | cons st more ih =>
    intro h acc
    cases st with
    | accumulate => exact ih (by simpa [safeBody] using h) _
    | check => simp [runBody, hx]
    | continueIf p => simp [safeBody] at h

/-- **Safe programs never mix**: if the program text has the CRS comparison before anything
that can return, skip or call shapely, then a returned result means every operand's CRS
compared equal to the first — whatever quick rejects, `continue`s or delegates follow. -/
theorem safe_prog_no_mixed (op : OpSpec) (D : Delegate S R) (Q : Quick S R) (p : Prog)
    (hs : p.safe = true) (x0 : Obj S) (rest : List (Obj S)) (r : Out R)
    (h : runProg op D Q p x0 rest = .ok r) : ∀ x ∈ rest, tagEq x0.crs x.crs = true := by
  cases p with
  | straight stmts =>
    cases stmts with
    | nil => simp [Prog.safe, safeStmts] at hs
    | cons st more =>
      cases st with
      | checkRest rev =>
        simp only [runProg, runStmts] at h
        cases hg : guardAll rev op.mismatchErr x0.crs rest with
        | error e => simp [hg] at h
        | ok u => exact (guardAll_ok_iff rev op.mismatchErr x0.crs rest).mp hg
      | returnIf p => simp [Prog.safe, safeStmts] at hs
      | delegate => simp [Prog.safe, safeStmts] at hs
  | loop body =>
    simp only [Prog.safe] at hs
    simp only [runProg] at h
    cases hl : runLoop op D Q x0.crs body (D.init op.name x0.raw) rest with
    | error e => simp [hl] at h
    | ok acc =>
      clear h
      generalize D.init op.name x0.raw = a0 at hl
      induction rest generalizing a0 with
      | nil => intro x hx; cases hx
      | cons y ys ih =>
        simp only [runLoop] at hl
        cases hb : runBody op D Q x0.crs y a0 body with
        | error e => simp [hb] at hl
        | ok a1 =>
          simp only [hb] at hl
          intro x hx
          rcases List.mem_cons.mp hx with rfl | hx
          · exact runBody_safe_ok op D Q x0.crs x body hs a0 a1 hb
          · exact ih a1 hl x hx

/-- **Safe programs raise on every mismatch**, wherever in the operand list it sits. -/
theorem safe_prog_mismatch_raises (op : OpSpec) (D : Delegate S R) (Q : Quick S R) (p : Prog)
    (hs : p.safe = true) (x0 : Obj S) (rest : List (Obj S))
    (hmis : ∃ x ∈ rest, tagNe x0.crs x.crs = true) :
    runProg op D Q p x0 rest = .error op.mismatchErr := by
  have hna : ¬ AllEq x0.crs rest := by
    intro hall
    obtain ⟨x, hx, hne⟩ := hmis
    simp [tagNe, hall x hx] at hne
  cases p with
  | straight stmts =>
    cases stmts with
    | nil => simp [Prog.safe, safeStmts] at hs
    | cons st more =>
      cases st with
      | checkRest rev =>
        simp only [runProg, runStmts]
        rw [guardAll_err_of_not_allEq rev _ _ rest hna]
      | returnIf p => simp [Prog.safe, safeStmts] at hs
      | delegate => simp [Prog.safe, safeStmts] at hs
  | loop body =>
    simp only [Prog.safe] at hs
    simp only [runProg]
    have key : ∀ (ys : List (Obj S)) (a0 : R), ¬ AllEq x0.crs ys →
        runLoop op D Q x0.crs body a0 ys = .error op.mismatchErr := by
      intro ys
      induction ys with
      | nil => intro _ h; exact absurd (allEq_nil _) h
      | cons y ys ih =>
        intro a0 h
        simp only [runLoop]
        by_cases hy : tagNe x0.crs y.crs = true
        · rw [runBody_safe_mismatch op D Q x0.crs y hy body hs a0]
        · have hy' : tagNe x0.crs y.crs = false := by simpa using hy
          obtain ⟨a1, ha⟩ := runBody_of_eq op D Q x0.crs y hy' body a0
          rw [ha]
          have : ¬ AllEq x0.crs ys := fun h' =>
            h (allEq_cons.mpr ⟨(tagNe_false_iff _ _).mp hy', h'⟩)
          simp only
          exact ih a1 this
    rw [key rest _ hna]

/-- the program of a walk *is* the operation: `run` executes exactly that statement list -/
theorem prog_refines_run (op : OpSpec) (D : Delegate S R) (Q : Quick S R) (p : Prog)
    (hp : progOf op.walk = some p) (x0 : Obj S) (rest : List (Obj S))
    (har : op.arity = .two → rest.length = 1) :
    run op D (x0 :: rest) = runProg op D Q p x0 rest := by
  have har' : ¬ (op.arity = .two ∧ rest.length ≠ 1) := fun h => h.2 (har h.1)
  unfold run
  simp only [har', if_false]
  cases hw : op.walk with
  | guardFirst rev =>
    rw [hw] at hp
    simp only [progOf, Option.some.injEq] at hp
    subst hp
    simp only [runProg, runStmts]
  | reduce => rw [hw] at hp; simp [progOf] at hp
  | pixelEach => rw [hw] at hp; simp [progOf] at hp
  | foldCheckInside =>
    rw [hw] at hp
    simp only [progOf, Option.some.injEq] at hp
    subst hp
    simp only [runProg]
    have : ∀ (ys : List (Obj S)) (a0 : R),
        foldGo D op.name op.mismatchErr x0.crs a0 ys
          = runLoop op D Q x0.crs [.accumulate, .check] a0 ys := by
      intro ys
      induction ys with
      | nil => intro _; rfl
      | cons y ys ih =>
        intro a0
        simp only [foldGo, runLoop, runBody]
        by_cases hy : tagNe x0.crs y.crs = true
        · simp [hy]
        · simp only [hy]; exact ih _
    rw [this]

/-- every walk of the table that has a program has a **safe** one: no table operation places a
quick reject, an early return or a `continue` above its CRS comparison -/
theorem table_progs_safe : ∀ op ∈ opTable, ∀ p, progOf op.walk = some p → p.safe = true := by
  decide

/-- why `safe` is needed — the shape of seeded change C01-10: a bounding-box quick reject above
the check returns a result for operands in different CRSs … -/
theorem unsafe_quick_reject_mixes_cex :
    (Prog.straight [.returnIf 0, .checkRest true, .delegate]).safe = false ∧
    (match runProg (S := Nat) (R := Nat) ⟨"Geometry.split", .guardFirst true, .two, .nothing, .first, .crsMismatch⟩
        ⟨fun _ _ => .ok 0, fun _ s => s, fun _ a _ => .ok a, fun _ a _ => a, fun _ _ _ => .ok 0, fun _ _ _ => .ok 0⟩
        ⟨fun _ _ => true, fun _ _ => 7, fun _ _ => false⟩
        (.straight [.returnIf 0, .checkRest true, .delegate]) ⟨some ⟨1, 4326, 1, 1⟩, 0⟩ [⟨none, 1⟩] with
      | .ok (.val _ 7) => true
      | _ => false) = true := by decide

/-- … and the shape of C01-11: a `continue` above the check lets an operand of another CRS through -/
theorem unsafe_continue_mixes_cex :
    (Prog.loop [.continueIf 0, .accumulate, .check]).safe = false ∧
    (match runProg (S := Nat) (R := Nat) ⟨"geom.bbox_union", .foldCheckInside, .many, .err .valueError, .first, .crsMismatch⟩
        ⟨fun _ _ => .ok 0, fun _ s => s, fun _ a _ => .ok a, fun _ a s => a + s, fun _ _ _ => .ok 0, fun _ _ _ => .ok 0⟩
        ⟨fun _ _ => false, fun _ _ => 0, fun _ s => s == 99⟩
        (.loop [.continueIf 0, .accumulate, .check]) ⟨some ⟨1, 4326, 1, 1⟩, 1⟩ [⟨some ⟨2, 3857, 2, 2⟩, 99⟩, ⟨some ⟨1, 4326, 1, 1⟩, 5⟩] with
      | .ok (.val _ 6) => true
      | _ => false) = true := by decide

/-- what the access-logging probe of the harness must see for a safe program: an operand's CRS is
read before its coordinates (`'C'`) unless the operation is the stream fold, which reads the
numbers first and compares in the same iteration (`'R'`) -/
theorem accessPattern_spec (w : Walk) :
    (accessPattern w = 'R' ↔ w = .foldCheckInside) := by
  cases w <;> simp [accessPattern]

/-- `norm_crs_or_error` never hands back "no CRS": it returns a CRS or raises, and raises the
`ValueError` exactly where `norm_crs` would answer `None` -/
theorem normCrsOrError_spec (i : CrsInput) :
    normCrsOrError i ≠ .ok .nothing ∧
    (normCrs i = .ok .nothing → normCrsOrError i = .error .valueError) ∧
    (∀ n, n ≠ .nothing → normCrs i = .ok n → normCrsOrError i = .ok n) ∧
    (∀ e, normCrs i = .error e → normCrsOrError i = .error e) := by
  cases i with
  | none => simp [normCrsOrError, normCrs]; exact fun n h h' => h h'.symm
  | unset => simp [normCrsOrError, normCrs]; exact fun n h h' => h h'.symm
  | odc => simp [normCrsOrError, normCrs]
  | utmText c => cases c <;> simp [normCrsOrError, normCrs]
  | otherSpec a => cases a <;> simp [normCrsOrError, normCrs]

/-! ### bounding boxes with the real arithmetic -/

theorem bboxUnion_mismatch (x0 : Obj BBox) (rest : List (Obj BBox))
    (hmis : ∃ x ∈ rest, tagNe x0.crs x.crs = true) :
    bboxUnion (x0 :: rest) = .error .crsMismatch :=
  mismatch_raises bboxUnionSpec (bboxDelegate unionStep) x0 rest (by intro h; cases h) trivial hmis

theorem bboxIntersection_mismatch (x0 : Obj BBox) (rest : List (Obj BBox))
    (hmis : ∃ x ∈ rest, tagNe x0.crs x.crs = true) :
    bboxIntersection (x0 :: rest) = .error .crsMismatch :=
  mismatch_raises bboxInterSpec (bboxDelegate interStep) x0 rest (by intro h; cases h) trivial hmis

theorem bboxUnion_equal (x0 : Obj BBox) (rest : List (Obj BBox))
    (heq : ∀ x ∈ rest, tagEq x0.crs x.crs = true) :
    bboxUnion (x0 :: rest) = .ok (.val (some x0.crs) ((rest.map (·.raw)).foldl unionStep x0.raw)) := by
  unfold bboxUnion
  rw [equal_delegates _ _ _ _ heq]
  have : ∀ (ss : List BBox) (acc : BBox),
      rawFold (bboxDelegate unionStep) "geom.bbox_union" acc ss = ss.foldl unionStep acc := by
    intro ss; induction ss with
    | nil => intro _; rfl
    | cons s ss ih => intro acc; exact ih _
  simp [rawRun, bboxUnionSpec, retag, outTag, Except.map]
  exact this _ _

theorem bboxIntersection_equal (x0 : Obj BBox) (rest : List (Obj BBox))
    (heq : ∀ x ∈ rest, tagEq x0.crs x.crs = true) :
    bboxIntersection (x0 :: rest)
      = .ok (.val (some x0.crs) ((rest.map (·.raw)).foldl interStep x0.raw)) := by
  unfold bboxIntersection
  rw [equal_delegates _ _ _ _ heq]
  have : ∀ (ss : List BBox) (acc : BBox),
      rawFold (bboxDelegate interStep) "geom.bbox_intersection" acc ss = ss.foldl interStep acc := by
    intro ss; induction ss with
    | nil => intro _; rfl
    | cons s ss ih => intro acc; exact ih _
  simp [rawRun, bboxInterSpec, retag, outTag, Except.map]
  exact this _ _

/-! ### converting operations and equality tests -/

/-- what a converting operation may do with the two CRSs -/
def ConvSound (self other : Tag) (r : Except Err ConvOut) : Prop :=
  ∀ o, r = .ok o →
    (o.path = .same → tagEq self other = true) ∧
    (o.path = .converted → self ≠ none ∧ other ≠ none ∧ tagEq self other = false) ∧
    (o.path = .pixelPlane → other = none)

theorem projectOp_sound (self g : Tag) : ConvSound self g (projectOp self g) := by
  intro o h
  cases g with
  | none =>
    simp only [projectOp, Except.ok.injEq] at h
    subst h; simp
  | some b =>
    cases self with
    | none => simp [projectOp] at h
    | some a =>
      simp only [projectOp] at h
      by_cases hne : tagNe (some b) (some a) = true
      · have hf : tagEq (some a) (some b) = false := by
          rw [tagEq_symm]; exact (tagNe_true_iff _ _).mp hne
        simp only [hne, if_true, Except.ok.injEq] at h
        subst h; simp [hf]
      · have hne' : tagNe (some b) (some a) = false := by simpa using hne
        have ht : tagEq (some a) (some b) = true := by
          rw [tagEq_symm]; exact (tagNe_false_iff _ _).mp hne'
        simp only [hne', Bool.false_eq_true, if_false, Except.ok.injEq] at h
        subst h; simp [ht]

/-- operations that call `project` and only change the tag of the result -/
theorem viaProject_sound (self other : Tag) (t : Option Tag) :
    ConvSound self other (match projectOp self other with
      | .error e => .error e
      | .ok o => .ok ⟨o.path, t⟩) := by
  intro o h
  cases hp : projectOp self other with
  | error e => simp [hp] at h
  | ok o' =>
    simp only [hp, Except.ok.injEq] at h
    have := projectOp_sound self other o' hp
    subst h
    exact this

theorem tilesOp_sound (isBBox : Bool) (self q : Tag) : ConvSound self q (tilesOp isBBox self q) := by
  intro o h
  unfold tilesOp at h
  by_cases h0 : isBBox = true ∧ q = none
  · simp only [h0, and_self, if_true, Except.ok.injEq] at h
    subst h; simp [h0.2]
  · rw [if_neg h0] at h
    cases self with
    | none =>
      cases q with
      | none => simp only [Except.ok.injEq] at h; subst h; simp [tagEq]
      | some b => simp at h
    | some a =>
      dsimp only at h
      by_cases hne : tagNe q (some a) = true
      · rw [if_pos hne] at h
        cases q with
        | none => simp at h
        | some b =>
          have hf : tagEq (some a) (some b) = false := by
            rw [tagEq_symm]; exact (tagNe_true_iff _ _).mp hne
          simp only [Except.ok.injEq] at h
          subst h; simp [hf]
      · rw [if_neg hne] at h
        have hne' : tagNe q (some a) = false := by simpa using hne
        have ht : tagEq (some a) q = true := by
          rw [tagEq_symm]; exact (tagNe_false_iff _ _).mp hne'
        simp only [Except.ok.injEq] at h
        subst h; simp [ht]

theorem gridIntersectOp_sound (self src : Tag) : ConvSound self src (gridIntersectOp self src) := by
  intro o h
  unfold gridIntersectOp at h
  by_cases he : tagEq src self = true
  · rw [if_pos he] at h
    simp only [Except.ok.injEq] at h
    subst h; simp [tagEq_symm self src, he]
  · rw [if_neg he] at h
    have hf : tagEq self src = false := by
      rw [tagEq_symm]; simpa using he
    cases src <;> cases self <;> simp at h
    subst h; simp [hf]

/-- A converting operation that returns either found equal CRSs, or converted between two
*known* CRSs, or read an operand **without** CRS as pixel-plane coordinates (documented);
it never combines coordinates of two different known systems as they are. -/
theorem conv_never_mixes (name : String) (isBBox : Bool) (self other : Tag)
    (r : Except Err ConvOut) (h : convRun name isBBox self other = some r) :
    ConvSound self other r := by
  unfold convRun at h
  split at h
  · cases h; exact projectOp_sound self other
  split at h
  · cases h
    unfold enclosingOp
    cases other with
    | none => intro o ho; simp at ho
    | some b => exact viaProject_sound self (some b) _
  split at h
  · cases h
    unfold cropOp
    cases other with
    | none => intro o ho; simp only [Except.ok.injEq] at ho; subst ho; simp
    | some b => exact viaProject_sound self (some b) _
  split at h
  · cases h
    unfold cropOp
    cases other with
    | none => intro o ho; simp only [Except.ok.injEq] at ho; subst ho; simp
    | some b => exact viaProject_sound self (some b) _
  split at h
  · cases h
    unfold rangeFromBBoxOp
    cases other with
    | none => intro o ho; simp only [Except.ok.injEq] at ho; subst ho; simp
    | some b => exact viaProject_sound self (some b) _
  split at h
  · cases h; exact tilesOp_sound isBBox self other
  split at h
  · cases h; exact gridIntersectOp_sound self other
  · simp at h

/-- every name of the converting table is modelled -/
theorem convTable_covered (isBBox : Bool) (self other : Tag) :
    ∀ n ∈ convTable, (convRun n isBBox self other).isSome = true := by
  intro n hn
  simp only [convTable, List.mem_cons, List.not_mem_nil, or_false] at hn
  rcases hn with rfl | rfl | rfl | rfl | rfl | rfl | rfl <;> simp [convRun]

/-- equality tests answer `False` as soon as the CRSs differ -/
theorem eq_mismatch_false (a b : Tag) (rawEq : Bool) (h : tagNe a b = true) :
    eqRun a b rawEq = false := by
  simp [eqRun, (tagNe_true_iff a b).mp h]

/-! ### non-vacuity -/

/-- EPSG:4326 by code vs. the same CRS from WKT (no resolved code, other object, other text) -/
example : crsEq ⟨1, 4326, 1, 7⟩ ⟨2, 0, 2, 7⟩ = true ∧ WF ⟨1, 4326, 1, 7⟩ ⟨2, 0, 2, 7⟩ :=
  ⟨by decide,
   { obj := fun h => absurd h (by decide), str := fun h => absurd h (by decide),
     epsg := fun _ h => absurd rfl h }⟩

example : (findOp "geom.bbox_union").isSome = true := by decide

/-- equal CRSs in two spellings: the union box, tagged with the first operand's CRS -/
example : (match bboxUnion [⟨some ⟨1, 4326, 1, 7⟩, ⟨0, 0, 1, 1⟩⟩, ⟨some ⟨2, 0, 2, 7⟩, ⟨2, -1, 3, 4⟩⟩] with
    | .ok (.val (some (some c)) b) => decide (c.objId = 1 ∧ b = ⟨0, -1, 3, 4⟩)
    | _ => false) = true := by decide

/-- a box without CRS in the middle of the stream: CRSMismatchError -/
example : (match bboxUnion [⟨some ⟨1, 4326, 1, 7⟩, ⟨0, 0, 1, 1⟩⟩, ⟨none, ⟨2, -1, 3, 4⟩⟩,
      ⟨some ⟨1, 4326, 1, 7⟩, ⟨0, 0, 9, 9⟩⟩] with
    | .error .crsMismatch => true
    | _ => false) = true := by decide

end OdcGeo.C01
