/- C01 — property theorems only. -/
import OdcGeo.Model.C01
namespace OdcGeo.C01

end OdcGeo.C01
