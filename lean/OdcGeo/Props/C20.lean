/-
C20 — numeric helpers of `odc/geo/math.py` meet their documented contracts.

Property theorems only (helpers are in `Lemmas/C20.lean`).  Everything is over exact
rationals; IEEE rounding is outside the model (see DESIGN.md §3.1).
-/
import OdcGeo.Model.C20
import OdcGeo.Lemmas.C20
import OdcGeo.Lemmas.C20b
import OdcGeo.Lemmas.C20c
import OdcGeo.Lemmas.C20d
import OdcGeo.Lemmas.C20e
import Mathlib.Algebra.Order.Field.Basic
import OdcGeo.Props.C17

namespace OdcGeo.C20

/-! ## `split_float` -/

/-- The whole part is an integer, whole + fraction = `x`, and the fraction lies in
`[-1/2, 1/2]` (with `fmod`'s truncation semantics: `2.5 ↦ (2, 0.5)`, `-2.5 ↦ (-2, -0.5)`). -/
theorem split_float_sum_range_whole (x : Rat) :
    (∃ k : Int, (splitFloat x).1 = (k : Rat)) ∧ (splitFloat x).1 + (splitFloat x).2 = x ∧
      -(1 / 2) ≤ (splitFloat x).2 ∧ (splitFloat x).2 ≤ 1 / 2 :=
  splitFloat_spec x

/-- Non-finite inputs are passed through with a zero fraction. -/
theorem split_float_nonfinite (x : XF) (h : ∀ q, x ≠ .fin q) : splitFloatX x = (x, .fin 0) := by
  cases x with
  | fin q => exact absurd rfl (h q)
  | pinf => rfl
  | ninf => rfl
  | nan => rfl

/-! ## `split_translation` -/

/-- `split_translation(t)`: `t = t_whole + t_subpix` on both axes, the whole part is a pair of
integers and the sub-pixel part lies in `[-½, ½]²`. -/
theorem split_translation_spec (t : Rat × Rat) :
    let r := splitTranslation t
    (r.1.1 + r.2.1 = t.1 ∧ r.1.2 + r.2.2 = t.2) ∧
    (∃ i j : Int, r.1 = ((i : Rat), (j : Rat))) ∧
    (-(1 / 2) ≤ r.2.1 ∧ r.2.1 ≤ 1 / 2 ∧ -(1 / 2) ≤ r.2.2 ∧ r.2.2 ≤ 1 / 2) := by
  obtain ⟨⟨i, hi⟩, s1, l1, u1⟩ := splitFloat_spec t.1
  obtain ⟨⟨j, hj⟩, s2, l2, u2⟩ := splitFloat_spec t.2
  exact ⟨⟨s1, s2⟩, ⟨i, j, by simp only [splitTranslation, hi, hj]⟩, l1, u1, l2, u2⟩

/-! ## `maybe_int`, `is_almost_int` -/

/-- `maybe_int` replaces `x` by an `int` exactly when `is_almost_int` says yes. -/
theorem maybe_int_iff_is_almost_int (x tol : Rat) :
    (maybeInt? x tol).isSome = isAlmostInt x tol := (isAlmostInt_eq x tol).symm

/-- …and both agree with the tolerance: "some integer is closer than `tol`". -/
theorem is_almost_int_iff (x tol : Rat) : isAlmostInt x tol = true ↔ ∃ n : Int, |x - n| < tol := by
  rw [isAlmostInt_eq]; exact maybeInt?_isSome_iff x tol

/-- The integer returned is within `tol` of `x` and is a nearest integer. -/
theorem maybe_int_snapped {x tol : Rat} {k : Int} (h : maybeInt? x tol = some k) :
    maybeInt x tol = k ∧ |x - k| < tol ∧ ∀ n : Int, |x - k| ≤ |x - n| := by
  obtain ⟨_, h1, h2⟩ := maybeInt?_some h
  refine ⟨maybeInt_of_some h, h1, fun n => ?_⟩
  by_cases hn : n = k
  · rw [hn]
  · have h3 : (1 : Rat) ≤ |(k : Rat) - n| := by
      have : (1 : Int) ≤ |k - n| := Int.one_le_abs (by omega)
      have : ((1 : Int) : Rat) ≤ ((|k - n| : Int) : Rat) := by exact_mod_cast this
      simpa using this
    have h4 : |(k : Rat) - n| ≤ |x - n| + |x - k| := by
      have : (k : Rat) - n = (x - n) - (x - k) := by ring
      rw [this]; exact abs_sub _ _
    linarith

/-- Values that are not close to an integer pass through unmodified. -/
theorem maybe_int_unsnapped {x tol : Rat} (h : maybeInt? x tol = none) :
    maybeInt x tol = x ∧ ∀ n : Int, tol ≤ |x - n| :=
  ⟨maybeInt_of_none h, maybeInt?_none h⟩

/-- `maybe_int` / `is_almost_int` on non-finite input: passed through / `False`. -/
theorem maybe_int_nonfinite (x : XF) (tol : Rat) (h : ∀ q, x ≠ .fin q) :
    maybeIntX x tol = .inr x ∧ isAlmostIntX x tol = false := by
  cases x with
  | fin q => exact absurd rfl (h q)
  | pinf => exact ⟨rfl, rfl⟩
  | ninf => exact ⟨rfl, rfl⟩
  | nan => exact ⟨rfl, rfl⟩

/-! ## `snap_scale` -/

/-- The result is `s` itself, or an integer within `tol` of `s`, or `1/k` for a non-zero
integer `k` within `tol` of `1/s`. -/
theorem snap_scale_within_tol {s tol r : Rat} (h : snapScale s tol = .ok r) :
    r = s ∨ (∃ k : Int, r = k ∧ |s - k| < tol) ∨
      (∃ k : Int, k ≠ 0 ∧ s ≠ 0 ∧ r = 1 / (k : Rat) ∧ |1 / s - k| < tol) :=
  snapScale_cases h

/-- With a positive tolerance `snap_scale` never divides by zero. -/
theorem snap_scale_total (s : Rat) {tol : Rat} (ht : 0 < tol) : ∃ r, snapScale s tol = .ok r :=
  snapScale_total s ht

/-- Snapping twice is the same as snapping once (every `s`, every `tol`). -/
theorem snap_scale_idem {s tol r : Rat} (h : snapScale s tol = .ok r) : snapScale r tol = .ok r :=
  snapScale_idem h

/-! ## integer alignment -/

/-- `align_down`, `align_up` (Python floor-mod, negative `x` included): proved in C17, restated
here because the statement of C20 lists them. -/
theorem align_down_spec (x a : Int) (ha : 0 < a) :
    a ∣ C17.alignDown x a ∧ C17.alignDown x a ≤ x ∧ x - C17.alignDown x a < a :=
  C17.align_down_spec x a ha

theorem align_up_spec (x a : Int) (ha : 0 < a) :
    a ∣ C17.alignUp x a ∧ x ≤ C17.alignUp x a ∧ C17.alignUp x a - x < a :=
  C17.align_up_spec x a ha

/-- `align_up_pow2(x)` is the least power of two `≥ x` (for `x ≥ 1`; `log2` exact). -/
theorem align_up_pow2_least (x : Int) (hx : 1 ≤ x) :
    ∃ n : Nat, alignUpPow2 x = 2 ^ n ∧ x ≤ 2 ^ n ∧ ∀ m : Nat, x ≤ 2 ^ m → (2 : Int) ^ n ≤ 2 ^ m :=
  alignUpPow2_least x hx

/-- `align_down_pow2(x)` is the greatest power of two `≤ x` (for `x ≥ 1`). -/
theorem align_down_pow2_greatest (x : Int) (hx : 1 ≤ x) :
    ∃ n : Nat, alignDownPow2 x = 2 ^ n ∧ (2 : Int) ^ n ≤ x ∧ ∀ m : Nat, (2 : Int) ^ m ≤ x → (2 : Int) ^ m ≤ 2 ^ n :=
  alignDownPow2_greatest x hx

/-- For `x ≤ 0` the code returns `1` / `0` (no power of two is `≤ x`). -/
theorem align_pow2_nonpos (x : Int) (hx : x ≤ 0) : alignUpPow2 x = 1 ∧ alignDownPow2 x = 0 := by
  have h1 : alignUpPow2 x = 1 := by unfold alignUpPow2; rw [if_pos hx]
  refine ⟨h1, ?_⟩
  unfold alignDownPow2
  simp only [h1]
  rw [if_pos (by omega)]
  rfl

/-! ## one-axis grid snapping (`snap_grid`, `_snap_edge`, `_snap_edge_pos`)

`gridLo` / `gridHi` are the lower / upper world edge of the returned 1-d grid
(`tx`, `tx + nx·res` in the order given by the sign of `res`).
Hypotheses: `x0 ≤ x1`, `res ≠ 0`, `0 ≤ off < 1`, `0 ≤ tol < 1/2`. -/

/-- The call succeeds and `nx ≥ 1`. -/
theorem snap_grid_n_pos {x0 x1 res tol : Rat} (off : Option Rat) (hr : res ≠ 0) (hx : x0 ≤ x1)
    (hop : ∀ op, off = some op → 0 ≤ op ∧ op < 1) (ht : 0 ≤ tol) (ht2 : tol < 1 / 2) :
    ∃ tx nx, snapGrid x0 x1 res off tol = .ok (tx, nx) ∧ 1 ≤ nx := by
  cases off with
  | none =>
    obtain ⟨n, tx, h, hn, _⟩ := snapGrid_none_spec hr hx ht (tol := tol)
    exact ⟨tx, n, h, hn⟩
  | some op =>
    obtain ⟨i, n, tx, h, hn, _⟩ := snapGrid_some_spec hr hx (hop op rfl) ht ht2
    exact ⟨tx, n, h, hn⟩

/-- **Cover**: the grid covers `[x0, x1]` except at most `tol·|res|` per side. -/
theorem snap_grid_cover {x0 x1 res tol tx : Rat} {nx : Int} (off : Option Rat) (hr : res ≠ 0)
    (hx : x0 ≤ x1) (hop : ∀ op, off = some op → 0 ≤ op ∧ op < 1) (ht : 0 ≤ tol) (ht2 : tol < 1 / 2)
    (h : snapGrid x0 x1 res off tol = .ok (tx, nx)) :
    gridLo res tx nx ≤ x0 + tol * |res| ∧ x1 - tol * |res| ≤ gridHi res tx nx := by
  cases off with
  | none =>
    obtain ⟨n, t, h', _, _, h1, h2, _⟩ := snapGrid_none_spec hr hx ht (tol := tol)
    rw [h] at h'; cases h'; exact ⟨h1, h2⟩
  | some op =>
    obtain ⟨i, n, t, h', _, _, _, h1, _, h2, _⟩ := snapGrid_some_spec hr hx (hop op rfl) ht ht2
    rw [h] at h'; cases h'; exact ⟨h1, h2⟩

/-- **Minimal**: the grid exceeds the interval by less than one pixel (plus `tol`) per side.
The strict bound needs `0 < tol ∨ x0 < x1`: a zero-width interval sitting exactly on a pixel
edge with `tol = 0` still gets one whole pixel (`nx ≥ 1`), see `snap_grid_minimal_le` and
`snap_grid_minimal_degenerate`. -/
theorem snap_grid_minimal {x0 x1 res tol tx : Rat} {nx : Int} (off : Option Rat) (hr : res ≠ 0)
    (hx : x0 ≤ x1) (hop : ∀ op, off = some op → 0 ≤ op ∧ op < 1) (ht : 0 ≤ tol) (ht2 : tol < 1 / 2)
    (hs : 0 < tol ∨ x0 < x1)
    (h : snapGrid x0 x1 res off tol = .ok (tx, nx)) :
    x0 - gridLo res tx nx < |res| * (1 + tol) ∧ gridHi res tx nx - x1 < |res| * (1 + tol) := by
  have hpos : 0 < |res| := abs_pos.mpr hr
  cases off with
  | none =>
    obtain ⟨n, t, h', _, _, _, _, _, _, h3⟩ := snapGrid_none_spec hr hx ht (tol := tol)
    rw [h] at h'; cases h'; exact h3 hs
  | some op =>
    obtain ⟨i, n, t, h', _, _, _, _, h1, _, _, h3, _⟩ := snapGrid_some_spec hr hx (hop op rfl) ht ht2
    rw [h] at h'; cases h'
    exact ⟨by nlinarith, h3 hs⟩

/-- Non-strict version, no side condition. -/
theorem snap_grid_minimal_le {x0 x1 res tol tx : Rat} {nx : Int} (off : Option Rat) (hr : res ≠ 0)
    (hx : x0 ≤ x1) (hop : ∀ op, off = some op → 0 ≤ op ∧ op < 1) (ht : 0 ≤ tol) (ht2 : tol < 1 / 2)
    (h : snapGrid x0 x1 res off tol = .ok (tx, nx)) :
    x0 - gridLo res tx nx ≤ |res| * (1 + tol) ∧ gridHi res tx nx - x1 ≤ |res| * (1 + tol) := by
  have hpos : 0 < |res| := abs_pos.mpr hr
  cases off with
  | none =>
    obtain ⟨n, t, h', _, _, _, _, h1, h2, _⟩ := snapGrid_none_spec hr hx ht (tol := tol)
    rw [h] at h'; cases h'; exact ⟨h1, h2⟩
  | some op =>
    obtain ⟨i, n, t, h', _, _, _, _, h1, _, h2, _⟩ := snapGrid_some_spec hr hx (hop op rfl) ht ht2
    rw [h] at h'; cases h'
    exact ⟨by nlinarith, h2⟩

/-- The excluded point of `snap_grid_minimal`: `x0 = x1 = 2`, `res = 1`, `tol = 0` gives the pixel
`[2, 3]`, exactly one pixel beyond `x1` (replayed on the real code by the harness). -/
theorem snap_grid_minimal_degenerate :
    snapGrid 2 2 1 (some 0) 0 = .ok (2, 1) ∧ gridHi 1 2 1 - 2 = |(1 : Rat)| * (1 + 0) := by
  constructor
  · decide +kernel
  · simp [gridHi]

/-- **Aligned**: the pixel edges are offset from the origin by exactly the requested
fraction of a pixel: `(lo − off·|res|)/|res|` and `(hi − off·|res|)/|res|` are integers. -/
theorem snap_grid_aligned {x0 x1 res tol tx op : Rat} {nx : Int} (hr : res ≠ 0)
    (hx : x0 ≤ x1) (hop : 0 ≤ op ∧ op < 1) (ht : 0 ≤ tol) (ht2 : tol < 1 / 2)
    (h : snapGrid x0 x1 res (some op) tol = .ok (tx, nx)) :
    ∃ i : Int, (gridLo res tx nx - op * |res|) / |res| = i ∧
      (gridHi res tx nx - op * |res|) / |res| = ((i + nx : Int) : Rat) := by
  have hpos : 0 < |res| := abs_pos.mpr hr
  obtain ⟨i, n, t, h', _, h1, h2, _⟩ := snapGrid_some_spec hr hx hop ht ht2
  rw [h] at h'; cases h'
  refine ⟨i, ?_, ?_⟩
  · rw [h1]; field_simp; ring
  · rw [h2]; push_cast; field_simp; ring

/-- **Not snapping**: with `off_pix = None` the origin is `x0` (`res > 0`) / `x1` (`res < 0`). -/
theorem snap_grid_none_exact {x0 x1 res tol tx : Rat} {nx : Int} (hr : res ≠ 0) (hx : x0 ≤ x1)
    (ht : 0 ≤ tol) (h : snapGrid x0 x1 res none tol = .ok (tx, nx)) :
    tx = if 0 < res then x0 else x1 := by
  obtain ⟨n, t, h', _, h1, _⟩ := snapGrid_none_spec hr hx ht (tol := tol)
  rw [h] at h'; cases h'; exact h1

/-- What the code rejects: a zero resolution, an inverted interval (when snapping), an
anchor fraction outside `[0, 1)`. -/
theorem snap_grid_rejects (x0 x1 res tol : Rat) :
    snapGrid x0 x1 0 none tol = .error .zeroDiv ∧
    (∀ op, 0 ≤ op ∧ op < 1 → snapGrid x0 x1 0 (some op) tol = .error .assertion) ∧
    (∀ op, ¬ (0 ≤ op ∧ op < 1) → snapGrid x0 x1 res (some op) tol = .error .assertion) ∧
    (∀ op, 0 ≤ op ∧ op < 1 → x1 < x0 → snapGrid x0 x1 res (some op) tol = .error .assertion) := by
  refine ⟨?_, ?_, ?_, ?_⟩
  · simp [snapGrid]
  · intro op hop
    unfold snapGrid; simp only; rw [if_neg (not_not.mpr hop)]
    have : ¬ (x1 - op * rabs 0 ≥ x0 - op * rabs 0) ∨ (x1 - op * rabs 0 ≥ x0 - op * rabs 0) := by
      exact (em _).symm
    rcases this with hh | hh
    · simp [snapEdge, hh]
    · simp [snapEdge, snapEdgePos, hh]
  · intro op hop
    unfold snapGrid; simp only; rw [if_pos hop]
  · intro op hop hlt
    unfold snapGrid; simp only; rw [if_neg (not_not.mpr hop)]
    have : ¬ (x1 - op * rabs res ≥ x0 - op * rabs res) := by
      rw [ge_iff_le, not_le]; linarith
    simp [snapEdge, this]

/-! ## `is_affine_st`, `snap_affine` -/

theorem is_affine_st_iff (A : Aff) (tol : Rat) : isAffineSt A tol = true ↔ |A.b| < tol ∧ |A.d| < tol := by
  simp [isAffineSt, rabs_eq_abs]

/-- A transform with rotation / shear above `tol` is returned untouched. -/
theorem snap_affine_rotated_untouched (A : Aff) (ttol stol tol : Rat) (h : tol < |A.b| ∨ tol < |A.d|) :
    snapAffine A ttol stol tol = .ok A := by
  unfold snapAffine
  rw [if_pos (by simpa [rabs_eq_abs] using h)]

/-- Otherwise the off-diagonal terms become `0`, each translation moves by less than `ttol` (or
not at all) and each scale is `snap_scale` of the input scale (see `snap_scale_within_tol`). -/
theorem snap_affine_within_tol {A B : Aff} {ttol stol tol : Rat} (hr : ¬ (tol < |A.b| ∨ tol < |A.d|))
    (h : snapAffine A ttol stol tol = .ok B) :
    B.b = 0 ∧ B.d = 0 ∧ (B.c = A.c ∨ |A.c - B.c| < ttol) ∧ (B.f = A.f ∨ |A.f - B.f| < ttol) ∧
      snapScale A.a stol = .ok B.a ∧ snapScale A.e stol = .ok B.e := by
  obtain ⟨sx, sy, h1, h2, rfl⟩ := snapAffine_inv hr h
  exact ⟨rfl, rfl, maybeInt_close A.c ttol, maybeInt_close A.f ttol, h1, h2⟩

/-- `snap_affine` is idempotent (all tolerances, rotated or not). -/
theorem snap_affine_idem {A B : Aff} {ttol stol tol : Rat} (h : snapAffine A ttol stol tol = .ok B) :
    snapAffine B ttol stol tol = .ok B := by
  by_cases hr : tol < |A.b| ∨ tol < |A.d|
  · rw [snap_affine_rotated_untouched A ttol stol tol hr] at h
    have := Except.ok.inj h; subst this
    exact snap_affine_rotated_untouched A ttol stol tol hr
  · obtain ⟨sx, sy, h1, h2, rfl⟩ := snapAffine_inv hr h
    unfold snapAffine
    split
    · rfl
    · rw [snapScale_idem h1, snapScale_idem h2]
      simp only [bind, Except.bind, pure, Except.pure, maybeInt_idem]

/-! ## `decompose_rws`, `resolution_from_affine`

`n` and `p` are the two square roots taken by the Cholesky factorisation of `AᵀA`
(`n² = a² + d²`, `p² = (b² + e²) − ((ab + de)/n)²`, both positive); the model follows the
code step by step (Cholesky, inverse, determinant test with column / row flip, diagonal
extraction). -/

/-- **`decompose_rws`**: `R·W·S = A` (translation carried by `R`), `R` is a proper rotation
(`RᵀR = I`, `det R = 1`), `W = [[1, w], [0, 1]]`, `S` is diagonal with `S₁₁ = n > 0` and
`S₁₁·S₂₂ = det A`. -/
theorem decompose_rws_spec (A : Aff) (n p : Rat) (hdet : A.det ≠ 0) (hn : 0 < n)
    (hn2 : n * n = A.a * A.a + A.d * A.d) (hp : 0 < p)
    (hp2 : p * p = (A.b * A.b + A.e * A.e) - ((A.b * A.a + A.e * A.d) / n) ^ 2) :
    let r := decomposeRws A n p
    r.R * r.W * r.S = A ∧
    (r.R.a * r.R.a + r.R.d * r.R.d = 1 ∧ r.R.b * r.R.b + r.R.e * r.R.e = 1 ∧
      r.R.a * r.R.b + r.R.d * r.R.e = 0 ∧ r.R.det = 1) ∧
    (r.W.a = 1 ∧ r.W.d = 0 ∧ r.W.e = 1 ∧ r.W.c = 0 ∧ r.W.f = 0) ∧
    (r.S.b = 0 ∧ r.S.d = 0 ∧ r.S.c = 0 ∧ r.S.f = 0 ∧ r.S.a = n ∧ r.S.e = A.det / n) := by
  have hne : n ≠ 0 := ne_of_gt hn
  have hnn : A.a * A.a + A.d * A.d = n * n := hn2.symm
  intro r
  have hr : r = ⟨⟨A.a / n, -A.d / n, A.c, A.d / n, A.a / n, A.f⟩,
      ⟨1, (A.a * A.b + A.d * A.e) / A.det, 0, 0, 1, 0⟩, ⟨n, 0, 0, 0, A.det / n, 0⟩⟩ := by
    simp only [r, decomposeRws, decomposeRws2_closed A n p hdet hn hn2 hp hp2, m2]
  rw [hr]
  obtain ⟨a, b, c, d, e, f⟩ := A
  simp only [Aff.det] at hdet hnn ⊢
  refine ⟨?_, ⟨?_, ?_, ?_, ?_⟩, by simp, by simp⟩
  · have hdet' : a * e - d * b ≠ 0 := by rwa [mul_comm d b]
    simp only [Aff.mul_def, Aff.mul]
    ext <;> simp only [] <;> field_simp <;>
      first
        | ring1
        | linear_combination (-b) * hnn
        | linear_combination b * hnn
        | linear_combination (-e) * hnn
        | linear_combination e * hnn
  · field_simp; linarith
  · field_simp; linarith
  · field_simp; ring
  · field_simp; linarith

/-- The same decomposition in closed form over **any ordered field** (so also over ℝ, where
`n = √(a² + d²)` exists for every invertible `A`): with `R = [[a,−d],[d,a]]/n`,
`W = [[1, (ab+de)/det], [0, 1]]`, `S = diag(n, det/n)` one has `R·W·S = A`, `RᵀR = I`, `det R = 1`. -/
theorem decompose_rws_field {K : Type} [Field K] [LinearOrder K] [IsStrictOrderedRing K]
    (a b d e n : K) (hdet : a * e - b * d ≠ 0) (hn : 0 < n) (hn2 : n * n = a * a + d * d) :
    let w := (a * b + d * e) / (a * e - b * d)
    let s2 := (a * e - b * d) / n
    -- R·W·S, entry by entry
    (a / n * n = a ∧ (a / n * w + -d / n) * s2 = b ∧ d / n * n = d ∧ (d / n * w + a / n) * s2 = e) ∧
    -- RᵀR = I and det R = 1
    (a / n * (a / n) + d / n * (d / n) = 1 ∧ a / n * (-d / n) + d / n * (a / n) = 0 ∧
      a / n * (a / n) - -d / n * (d / n) = 1) := by
  have hne : n ≠ 0 := ne_of_gt hn
  have hdet' : a * e - d * b ≠ 0 := by rwa [mul_comm d b]
  refine ⟨⟨by field_simp, ?_, by field_simp, ?_⟩, ?_, by ring, ?_⟩
  · field_simp; linear_combination (-b) * hn2
  · field_simp; linear_combination (-e) * hn2
  · field_simp; linear_combination -hn2
  · field_simp; linear_combination -hn2

/-- **`resolution_from_affine`**: without rotation/shear (off-diagonal terms below `1e-10`) the
resolution is the diagonal of `A` (signs kept); otherwise it is `(n, det A / n)`: the length of
the first column and a second component that makes the product equal `det A`. -/
theorem resolution_from_affine_spec (A : Aff) (n p : Rat) :
    (isAffineSt A tol1em10 = true → resolutionFromAffine A n p = (A.a, A.e)) ∧
    (isAffineSt A tol1em10 = false → A.det ≠ 0 → 0 < n → n * n = A.a * A.a + A.d * A.d → 0 < p →
      p * p = (A.b * A.b + A.e * A.e) - ((A.b * A.a + A.e * A.d) / n) ^ 2 →
      resolutionFromAffine A n p = (n, A.det / n)) := by
  constructor
  · intro h; unfold resolutionFromAffine; rw [if_pos h]
  · intro h hdet hn hn2 hp hp2
    unfold resolutionFromAffine
    rw [if_neg (by rw [h]; simp)]
    simp only [decomposeRws, decomposeRws2_closed A n p hdet hn hn2 hp hp2, m2]

/-- The tolerance constants are the exact values of the Python doubles `1e-10` (`is_affine_st`
default, used by `resolution_from_affine`) and `1e-6`: `m / 2^86` resp. `m / 2^72`, within half an
ulp of the decimal. -/
theorem tolerance_constants :
    tol1em10 = 7737125245533627 / 2 ^ 86 ∧ |tol1em10 - 1 / 10 ^ 10| < 1 / 10 ^ 26 ∧
    tol1em6 = 4722366482869645 / 2 ^ 72 ∧ |tol1em6 - 1 / 10 ^ 6| < 1 / 10 ^ 22 := by
  have e1 : tol1em10 = 7737125245533627 / 2 ^ 86 := by
    unfold tol1em10; rw [Rat.mkRat_eq_div]; norm_num
  have e2 : tol1em6 = 4722366482869645 / 2 ^ 72 := by
    unfold tol1em6; rw [Rat.mkRat_eq_div]; norm_num
  refine ⟨e1, ?_, e2, ?_⟩
  · rw [e1, abs_lt]; constructor <;> norm_num
  · rw [e2, abs_lt]; constructor <;> norm_num

/-- **Sheared input** (`A = [[sx, k], [0, sy]]`, shear `k` at or above the `1e-10` tolerance): the
reported resolution is `(|sx|, sy·sign sx)` — the shear does not leak into it, the x component is
always positive. -/
theorem resolution_from_affine_sheared (sx k c sy f : Rat) (hsx : sx ≠ 0) (hsy : sy ≠ 0)
    (hk : tol1em10 ≤ |k|) :
    resolutionFromAffine ⟨sx, k, c, 0, sy, f⟩ |sx| |sy| = (|sx|, sx * sy / |sx|) := by
  have hst : isAffineSt ⟨sx, k, c, 0, sy, f⟩ tol1em10 = false := by
    simp only [isAffineSt, rabs_eq_abs, Bool.and_eq_false_iff, decide_eq_false_iff_not, not_lt]
    left; exact hk
  have hn : 0 < |sx| := abs_pos.mpr hsx
  have hp : 0 < |sy| := abs_pos.mpr hsy
  have h := (resolution_from_affine_spec ⟨sx, k, c, 0, sy, f⟩ |sx| |sy|).2 hst
    (by simp [Aff.det, hsx, hsy]) hn (by simp [abs_mul_abs_self]) hp
    (by
      simp only [mul_zero, add_zero]
      have : (k * sx / |sx|) ^ 2 = k * k := by
        rw [div_pow, mul_pow, sq_abs]; field_simp
      rw [this, abs_mul_abs_self]; ring)
  rw [h]; simp [Aff.det]

/-- What HEAD does at the boundary between the two branches: a mirrored scale keeps its sign without
shear (`(-1, 1)`), but the same scale with a shear reports `(1, -1)` — the documented sign
ambiguity of `decompose_rws` becomes a discontinuity of `resolution_from_affine`. -/
theorem resolution_from_affine_sign_discontinuity :
    resolutionFromAffine ⟨-1, 0, 0, 0, 1, 0⟩ 1 1 = (-1, 1) ∧
    resolutionFromAffine ⟨-1, 1, 0, 0, 1, 0⟩ 1 1 = (1, -1) := by
  constructor <;> decide +kernel

/-- Hypotheses of `decompose_rws_spec` are satisfiable: the 3-4-5 rotation with shear and scale. -/
example : (decomposeRws ⟨3, -1, 7, 4, 7, 9⟩ 5 5).S = ⟨5, 0, 0, 0, 5, 0⟩ ∧
    (decomposeRws ⟨3, -1, 7, 4, 7, 9⟩ 5 5).R = ⟨3 / 5, -4 / 5, 7, 4 / 5, 3 / 5, 9⟩ := by
  constructor <;> decide +kernel

/-! ## `affine_from_pts`, `Poly2d.fit`: least squares on exactly representable mappings -/

/-- The squared residual vanishes exactly when the map reproduces every correspondence. -/
theorem sq_residual_zero_iff (M : Aff) (XY : List ((Rat × Rat) × (Rat × Rat))) :
    sqResidual M XY = 0 ↔ ∀ q ∈ XY, M.apply q.1 = q.2 :=
  sqResidual_eq_zero_iff M XY

/-- **`affine_fit_exact`**: if `Y = A·X` holds exactly on the correspondences and three of the `X`
are not collinear, then *every* least-squares minimiser equals `A` (so whatever LAPACK returns,
if it is a minimiser, it is `A`). -/
theorem affine_fit_exact (A M : Aff) (XY : List ((Rat × Rat) × (Rat × Rat)))
    (hexact : ∀ q ∈ XY, A.apply q.1 = q.2)
    (hmin : ∀ M' : Aff, sqResidual M XY ≤ sqResidual M' XY)
    (p q r : (Rat × Rat) × (Rat × Rat)) (hp : p ∈ XY) (hq : q ∈ XY) (hr : r ∈ XY)
    (hnc : (q.1.1 - p.1.1) * (r.1.2 - p.1.2) - (q.1.2 - p.1.2) * (r.1.1 - p.1.1) ≠ 0) :
    M = A := by
  have h0 : sqResidual A XY = 0 := (sqResidual_eq_zero_iff A XY).mpr hexact
  have h1 : sqResidual M XY = 0 := le_antisymm (h0 ▸ hmin A) (sqResidual_nonneg M XY)
  have hM := (sqResidual_eq_zero_iff M XY).mp h1
  exact aff_eq_of_three (by rw [hM p hp, hexact p hp]) (by rw [hM q hq, hexact q hq])
    (by rw [hM r hr, hexact r hr]) hnc

/-- `affine_from_pts` with a solver that returns a minimiser reproduces an exact mapping. -/
theorem affine_from_pts_exact (lstsq : List (Rat × Rat) → List (Rat × Rat) → Option Aff)
    (X Y : List (Rat × Rat)) (A M : Aff)
    (hsolver : ∀ M0, lstsq X Y = some M0 → ∀ M' : Aff, sqResidual M0 (X.zip Y) ≤ sqResidual M' (X.zip Y))
    (hexact : ∀ q ∈ X.zip Y, A.apply q.1 = q.2)
    (p q r : (Rat × Rat) × (Rat × Rat)) (hp : p ∈ X.zip Y) (hq : q ∈ X.zip Y) (hr : r ∈ X.zip Y)
    (hnc : (q.1.1 - p.1.1) * (r.1.2 - p.1.2) - (q.1.2 - p.1.2) * (r.1.1 - p.1.1) ≠ 0)
    (h : affineFromPts lstsq X Y = .ok M) : M = A := by
  unfold affineFromPts at h
  split at h
  · exact absurd h (by simp)
  · split at h
    · exact absurd h (by simp)
    · split at h
      · rename_i M0 hM0
        have := Except.ok.inj h; subst this
        exact affine_fit_exact A M0 _ hexact (hsolver M0 hM0) p q r hp hq hr hnc
      · exact absurd h (by simp)

/-- `affine_from_pts` needs at least three points and equally many on both sides. -/
theorem affine_from_pts_rejects (lstsq : List (Rat × Rat) → List (Rat × Rat) → Option Aff)
    (X Y : List (Rat × Rat)) (h : X.length ≠ Y.length ∨ X.length < 3) :
    affineFromPts lstsq X Y = .error .assertion := by
  unfold affineFromPts
  rcases h with h | h
  · rw [if_pos h]
  · by_cases h1 : X.length ≠ Y.length
    · rw [if_pos h1]
    · rw [if_neg h1, if_pos h]

/-- **`poly_fit_exact_partial`** — the general least-squares fact behind `Poly2d.fit`: for any
parametrised model `F`, if some parameter reproduces the data exactly then every minimiser of the
squared residual reproduces it too; with an injective design (hypothesis `hinj`) the minimiser is
that parameter.  It is instantiated for the real pipeline — `norm_xy` on both sides, LAPACK on
the normalised problem, de-normalisation — by `poly_fit_exact_affine` (N = 3),
`poly_fit_exact_bilinear` (4 ≤ N ≤ 8) and `poly_fit_exact_biquadratic` (N ≥ 9) below, so what
remains *partial* is only the assumption that LAPACK returns a minimiser (and IEEE rounding). -/
theorem poly_fit_exact_partial {C : Type} (F : C → (Rat × Rat) → (Rat × Rat))
    (XY : List ((Rat × Rat) × (Rat × Rat))) (c0 c : C)
    (hexact : ∀ q ∈ XY, F c0 q.1 = q.2)
    (hmin : ∀ c' : C,
      (XY.map fun q => ((F c q.1).1 - q.2.1) * ((F c q.1).1 - q.2.1) + ((F c q.1).2 - q.2.2) * ((F c q.1).2 - q.2.2)).sum ≤
      (XY.map fun q => ((F c' q.1).1 - q.2.1) * ((F c' q.1).1 - q.2.1) + ((F c' q.1).2 - q.2.2) * ((F c' q.1).2 - q.2.2)).sum) :
    (∀ q ∈ XY, F c q.1 = q.2) ∧
      ((∀ c1 c2 : C, (∀ q ∈ XY, F c1 q.1 = F c2 q.1) → c1 = c2) → c = c0) := by
  have key : ∀ (c : C) (L : List ((Rat × Rat) × (Rat × Rat))),
      0 ≤ (L.map fun q => ((F c q.1).1 - q.2.1) * ((F c q.1).1 - q.2.1) + ((F c q.1).2 - q.2.2) * ((F c q.1).2 - q.2.2)).sum ∧
      ((L.map fun q => ((F c q.1).1 - q.2.1) * ((F c q.1).1 - q.2.1) + ((F c q.1).2 - q.2.2) * ((F c q.1).2 - q.2.2)).sum = 0 ↔
        ∀ q ∈ L, F c q.1 = q.2) := by
    intro c L
    induction L with
    | nil => simp
    | cons q qs ih =>
      simp only [List.map_cons, List.sum_cons, List.mem_cons, forall_eq_or_imp]
      have h1 := mul_self_nonneg ((F c q.1).1 - q.2.1)
      have h2 := mul_self_nonneg ((F c q.1).2 - q.2.2)
      refine ⟨by linarith [ih.1], ?_⟩
      constructor
      · intro h
        have e1 : ((F c q.1).1 - q.2.1) * ((F c q.1).1 - q.2.1) = 0 := by linarith [ih.1]
        have e2 : ((F c q.1).2 - q.2.2) * ((F c q.1).2 - q.2.2) = 0 := by linarith [ih.1]
        refine ⟨Prod.ext (by linarith [mul_self_eq_zero.mp e1]) (by linarith [mul_self_eq_zero.mp e2]), ?_⟩
        exact ih.2.mp (by linarith [ih.1])
      · rintro ⟨hq, hqs⟩
        rw [ih.2.mpr hqs, hq]; ring
  have h0 := (key c0 XY).2.mpr hexact
  have h1 := le_antisymm (h0 ▸ hmin c0) (key c XY).1
  have hc := (key c XY).2.mp h1
  refine ⟨hc, fun hinj => hinj c c0 fun q hq => ?_⟩
  rw [hc q hq, hexact q hq]

/-! ## `Poly2d` -/

/-- The scale/translation shortcut of `Poly2d._norm` (taken only for exactly zero off-diagonal
terms) computes the same point as the full affine map. -/
theorem poly_norm_eq_apply (A : Aff) (p : Rat × Rat) : Poly2d.norm A p = A.apply p := by
  unfold Poly2d.norm
  split
  · rename_i h
    simp [Aff.apply, h.1, h.2]
  · rfl

/-- **`poly_with_input_transform`**: `eval (p.with_input_transform A) x = eval p (A x)`. -/
theorem poly_with_input_transform (P : Poly2d) (A : Aff) (p : Rat × Rat) :
    (P.withInputTransform A).eval p = P.eval (A.apply p) := by
  simp only [Poly2d.eval, Poly2d.withInputTransform, poly_norm_eq_apply, Aff.apply_mul]

/-- **`grid2d` is pointwise evaluation**: whenever it returns, `out[i][j]` is the value of the
polynomial at `(xs[i], ys[j])` — first index along `x`, second along `y`, any lengths. -/
theorem poly_grid2d_pointwise (P : Poly2d) (xs ys : List Rat) (out : List (List (Rat × Rat)))
    (h : P.grid2d xs ys = .ok out) :
    out = xs.map fun x => ys.map fun y => P.eval (x, y) := by
  unfold Poly2d.grid2d at h
  split at h
  · exact absurd h (by simp)
  · rename_i hst
    have hst' : P.A.b = 0 ∧ P.A.d = 0 := not_not.mp hst
    have := Except.ok.inj h
    subst this
    simp only [List.map_map, Function.comp_def, Poly2d.eval, Poly2d.norm, if_pos hst']

/-- `grid2d` refuses input transforms with rotation or shear (as after `with_input_transform` of a
rotated map): the axes are not separable there. -/
theorem poly_grid2d_rejects_rotated (P : Poly2d) (xs ys : List Rat) (h : ¬ (P.A.b = 0 ∧ P.A.d = 0)) :
    P.grid2d xs ys = .error .assertion := by
  unfold Poly2d.grid2d; rw [if_pos h]

/-- Before the repair (`_norm` ignored off-diagonal terms below an absolute `1e-6`) the
composition law failed: normalising scale `2⁻¹⁴`, input rotated by `2⁻⁶` rad-ish shear, point
`(0, 2¹⁴)` (replayed on the real code by the harness: key
`poly2d-input-transform-ignores-small-rotation`). -/
theorem poly_with_input_transform_prefix_cex :
    let cc : List (List (Rat × Rat)) := [[(0, 0), (0, 1)], [(1, 0), (0, 0)]]   -- the identity polynomial
    let A1 : Aff := Aff.scale (1 / 16384) (1 / 16384)
    let A2 : Aff := ⟨1, -(1 / 64), 0, 1 / 64, 1, 0⟩
    Poly2d.evalCC cc (Poly2d.normTol (A1 * A2) (0, 16384)) ≠
      Poly2d.evalCC cc (Poly2d.normTol A1 (A2.apply (0, 16384))) := by
  decide +kernel

/-- Output de-normalisation of `_fit4` (`cc*s; cc[0,:] += (tx,ty)` with `(s,_,tx,_,_,ty) = ~Ab`,
`Ab = S(s)·…` uniform scale + translation): the de-normalised polynomial is `Ab⁻¹ ∘ q`. -/
theorem poly_fit_denorm (c0 c1 c2 c3 : Rat × Rat) (Ab : Aff) (hb : Ab.b = 0) (hd : Ab.d = 0)
    (hs : Ab.a = Ab.e) (q : Rat × Rat) :
    Poly2d.evalCC (Poly2d.reshape 2 (Poly2d.denorm [c0, c1, c2, c3] Ab)) q =
      Ab.inv.apply (Poly2d.evalCC (Poly2d.reshape 2 [c0, c1, c2, c3]) q) := by
  have e1 : Ab.inv.b = 0 := by simp [Aff.inv, hb]
  have e2 : Ab.inv.d = 0 := by simp [Aff.inv, hd]
  have e3 : Ab.inv.e = Ab.inv.a := by simp [Aff.inv, hs]
  simp only [Poly2d.evalCC, Poly2d.reshape, Poly2d.denorm, polyval2d, polyval, Aff.apply, e1, e2, e3,
    List.range, List.range.loop, List.map, List.drop, List.take, List.foldr]
  ext <;> simp <;> ring

/-! ## `norm_xy` (as repaired) and `Poly2d.fit` through normalisation + de-normalisation

`norm_xy` is modelled over an arbitrary ordered field (`normXYK` in `Lemmas/C20e.lean`; over `Rat`
there is no `√2`), with the distances from the centroid and `√2` given as witnesses. -/

section normxy
variable {K : Type} [Field K] [LinearOrder K] [IsStrictOrderedRing K]
set_option linter.unusedSectionVars false

/-- **The affine returned by `norm_xy` maps the input points onto the normalised ones**, it is a
uniform scale + translation with positive scale (hence invertible). -/
theorem norm_xy_affine_maps (pts : List (K × K)) (ds : List K) (r : K) (hr : 0 < r) :
    (normXYK pts ds r).pts =
      pts.map (fun p => ((normXYK pts ds r).s * p.1 + (normXYK pts ds r).tx,
                         (normXYK pts ds r).s * p.2 + (normXYK pts ds r).ty)) ∧
    0 < (normXYK pts ds r).s :=
  ⟨normXYK_affine_maps pts ds r, normXYK_scale_pos pts ds r hr⟩

/-- **The mean of the normalised points is 0** (any non-empty point set). -/
theorem norm_xy_mean_zero (pts : List (K × K)) (ds : List K) (r : K) (hne : pts ≠ []) :
    meanK ((normXYK pts ds r).pts.map (·.1)) = 0 ∧ meanK ((normXYK pts ds r).pts.map (·.2)) = 0 :=
  normXYK_mean_zero pts ds r hne

/-- **The mean distance of the normalised points from 0 is `√2`** whenever the input has a positive
mean distance from its centroid (i.e. not all points coincide): with `ds` the distances of the
centred input points (`0 ≤ d`, `d² = x² + y²`), `ds·s` are the distances of the normalised
points, their mean is `r`, and `r·r = 2` makes its square 2.  A point *on* the centroid
(`d = 0`) is harmless — that was the defect repaired by 1cb55fb. -/
theorem norm_xy_mean_dist_sqrt2 (pts : List (K × K)) (ds : List K) (r : K) (hr : 0 < r)
    (hd : IsCentredDist pts ds) (hm : 0 < meanK ds) :
    List.Forall₂ (fun q d => 0 ≤ d ∧ d * d = q.1 * q.1 + q.2 * q.2)
        (normXYK pts ds r).pts (ds.map (· * (normXYK pts ds r).s)) ∧
      meanK (ds.map (· * (normXYK pts ds r).s)) = r ∧
      (r * r = 2 → meanK (ds.map (· * (normXYK pts ds r).s)) * meanK (ds.map (· * (normXYK pts ds r).s)) = 2) :=
  normXYK_mean_dist pts ds r hr hd hm

/-- All points coincide (mean distance 0): the scale is 1 and every normalised point is 0. -/
theorem norm_xy_degenerate (pts : List (K × K)) (ds : List K) (r : K) (hm : ¬ 0 < meanK ds) :
    (normXYK pts ds r).s = 1 := by
  simp only [normXYK]; rw [if_neg hm]

end normxy

/-- Hypotheses of `norm_xy_mean_dist_sqrt2` are satisfiable, with a point exactly on the centroid:
a 6×8 rectangle plus its centre, distances `5, 5, 5, 5, 0`, mean distance `4 > 0`. -/
example : IsCentredDist (K := Rat) [(-3, -4), (3, 4), (-3, 4), (3, -4), (0, 0)] [5, 5, 5, 5, 0] ∧
    0 < meanK (K := Rat) [5, 5, 5, 5, 0] := by
  constructor
  · unfold IsCentredDist meanK
    norm_num
  · unfold meanK; norm_num

/-! `FitNorms Ain Ab` (defined in `Lemmas/C20e.lean`): both normalisations are scale + translation with
non-zero scales, uniform on the output side — what `norm_xy` produces (`fit_norms_of_norm_xy`). -/

/-- `norm_xy`'s output (any witnesses, any positive stand-in `r` for `√2`; rational instance)
satisfies `FitNorms`: `aa_, Ain = norm_xy(aa)`, `bb_, Ab = norm_xy(bb)`. -/
theorem fit_norms_of_norm_xy (aa bb : List (Rat × Rat)) (da db : List Rat) (r : Rat) (hr : 0 < r) :
    FitNorms
      ⟨(normXYK aa da r).s, 0, (normXYK aa da r).tx, 0, (normXYK aa da r).s, (normXYK aa da r).ty⟩
      ⟨(normXYK bb db r).s, 0, (normXYK bb db r).tx, 0, (normXYK bb db r).s, (normXYK bb db r).ty⟩ :=
  ⟨rfl, rfl, ne_of_gt (normXYK_scale_pos aa da r hr), ne_of_gt (normXYK_scale_pos aa da r hr), rfl, rfl, rfl,
   ne_of_gt (normXYK_scale_pos bb db r hr)⟩

/-- **`Poly2d.fit`, `4 ≤ N ≤ 8` (`_fit4`): exactly bilinear data are reproduced through the
normalisation and the de-normalisation.**  If `b_i = p(a_i)` for a bilinear `p` (in the original
coordinates) and LAPACK's coefficient table `[c0..c3]` minimises the squared residual on the
*normalised* correspondences `(Ain·a_i, Ab·b_i)`, then the returned `Poly2d` maps every `a_i` to
`b_i`.  The only assumption left is "LAPACK returns a minimiser". -/
theorem poly_fit_exact_bilinear (Ain Ab : Aff) (hN : FitNorms Ain Ab)
    (data : List ((Rat × Rat) × (Rat × Rat))) (p0 p1 p2 p3 : Rat × Rat)
    (hexact : ∀ q ∈ data, Poly2d.evalCC (Poly2d.reshape 2 [p0, p1, p2, p3]) q.1 = q.2)
    (c0 c1 c2 c3 : Rat × Rat)
    (hmin : ∀ d0 d1 d2 d3 : Rat × Rat,
      Poly2d.fitCost 2 Ain Ab data [c0, c1, c2, c3] ≤ Poly2d.fitCost 2 Ain Ab data [d0, d1, d2, d3]) :
    ∀ q ∈ data, (Poly2d.ofFit 2 [c0, c1, c2, c3] Ain Ab).eval q.1 = q.2 := by
  obtain ⟨hdetin, hib, hid⟩ := st_inv Ain hN.inb hN.ind hN.ina hN.ine
  obtain ⟨hdetout, _, _⟩ := st_inv Ab hN.outb hN.outd hN.outa (hN.outs ▸ hN.outa)
  obtain ⟨e0, e1, e2, e3, _, hcl⟩ := bilinear_closed p0 p1 p2 p3 Ain.inv Ab ⟨hib, hid⟩ ⟨hN.outb, hN.outd⟩
  -- the problem LAPACK solves, as an instance of the general least-squares fact
  let F : ((Rat × Rat) × (Rat × Rat) × (Rat × Rat) × (Rat × Rat)) → (Rat × Rat) → (Rat × Rat) :=
    fun c a => Poly2d.evalCC (Poly2d.reshape 2 [c.1, c.2.1, c.2.2.1, c.2.2.2]) (Ain.apply a)
  have hfit := (poly_fit_exact_partial F (data.map fun q => (q.1, Ab.apply q.2)) (e0, e1, e2, e3) (c0, c1, c2, c3)
    (by
      intro q hq
      obtain ⟨q', hq', rfl⟩ := List.mem_map.mp hq
      simp only [F]
      rw [hcl, Aff.inv_apply_apply Ain hdetin, hexact q' hq'])
    (by
      intro c'
      have := hmin c'.1 c'.2.1 c'.2.2.1 c'.2.2.2
      simpa only [Poly2d.fitCost, List.map_map, Function.comp_def, F] using this)).1
  intro q hq
  have h1 := hfit (q.1, Ab.apply q.2) (List.mem_map.mpr ⟨q, hq, rfl⟩)
  simp only [F] at h1
  simp only [Poly2d.eval, Poly2d.ofFit, poly_norm_eq_apply]
  rw [poly_fit_denorm c0 c1 c2 c3 Ab hN.outb hN.outd hN.outs, h1, Aff.inv_apply_apply Ab hdetout]

/-- **`Poly2d.fit`, `N = 3` (`_fit3`): exactly affine data are reproduced**; LAPACK minimises over
the three coefficients of `1, y, x`, the `xy` coefficient is the appended zero row. -/
theorem poly_fit_exact_affine (Ain Ab : Aff) (hN : FitNorms Ain Ab)
    (data : List ((Rat × Rat) × (Rat × Rat))) (p0 p1 p2 : Rat × Rat)
    (hexact : ∀ q ∈ data, Poly2d.evalCC (Poly2d.reshape 2 [p0, p1, p2, (0, 0)]) q.1 = q.2)
    (c0 c1 c2 : Rat × Rat)
    (hmin : ∀ d0 d1 d2 : Rat × Rat,
      Poly2d.fitCost 2 Ain Ab data [c0, c1, c2, (0, 0)] ≤ Poly2d.fitCost 2 Ain Ab data [d0, d1, d2, (0, 0)]) :
    ∀ q ∈ data, (Poly2d.ofFit 2 [c0, c1, c2, (0, 0)] Ain Ab).eval q.1 = q.2 := by
  obtain ⟨hdetin, hib, hid⟩ := st_inv Ain hN.inb hN.ind hN.ina hN.ine
  obtain ⟨hdetout, _, _⟩ := st_inv Ab hN.outb hN.outd hN.outa (hN.outs ▸ hN.outa)
  obtain ⟨e0, e1, e2, e3, he3, hcl⟩ := bilinear_closed p0 p1 p2 (0, 0) Ain.inv Ab ⟨hib, hid⟩ ⟨hN.outb, hN.outd⟩
  have he3' := he3 rfl
  subst he3'
  let F : ((Rat × Rat) × (Rat × Rat) × (Rat × Rat)) → (Rat × Rat) → (Rat × Rat) :=
    fun c a => Poly2d.evalCC (Poly2d.reshape 2 [c.1, c.2.1, c.2.2, (0, 0)]) (Ain.apply a)
  have hfit := (poly_fit_exact_partial F (data.map fun q => (q.1, Ab.apply q.2)) (e0, e1, e2) (c0, c1, c2)
    (by
      intro q hq
      obtain ⟨q', hq', rfl⟩ := List.mem_map.mp hq
      simp only [F]
      rw [hcl, Aff.inv_apply_apply Ain hdetin, hexact q' hq'])
    (by
      intro c'
      have := hmin c'.1 c'.2.1 c'.2.2
      simpa only [Poly2d.fitCost, List.map_map, Function.comp_def, F] using this)).1
  intro q hq
  have h1 := hfit (q.1, Ab.apply q.2) (List.mem_map.mpr ⟨q, hq, rfl⟩)
  simp only [F] at h1
  simp only [Poly2d.eval, Poly2d.ofFit, poly_norm_eq_apply]
  rw [poly_fit_denorm c0 c1 c2 (0, 0) Ab hN.outb hN.outd hN.outs, h1, Aff.inv_apply_apply Ab hdetout]

/-- **`Poly2d.fit`, `N ≥ 9` (`_fit9`): exactly biquadratic data are reproduced** through the
normalisation and the de-normalisation, given that LAPACK returns a minimiser. -/
theorem poly_fit_exact_biquadratic (Ain Ab : Aff) (hN : FitNorms Ain Ab)
    (data : List ((Rat × Rat) × (Rat × Rat))) (p0 p1 p2 p3 p4 p5 p6 p7 p8 : Rat × Rat)
    (hexact : ∀ q ∈ data, Poly2d.evalCC (Poly2d.reshape 3 [p0, p1, p2, p3, p4, p5, p6, p7, p8]) q.1 = q.2)
    (c0 c1 c2 c3 c4 c5 c6 c7 c8 : Rat × Rat)
    (hmin : ∀ d0 d1 d2 d3 d4 d5 d6 d7 d8 : Rat × Rat,
      Poly2d.fitCost 3 Ain Ab data [c0, c1, c2, c3, c4, c5, c6, c7, c8] ≤
        Poly2d.fitCost 3 Ain Ab data [d0, d1, d2, d3, d4, d5, d6, d7, d8]) :
    ∀ q ∈ data, (Poly2d.ofFit 3 [c0, c1, c2, c3, c4, c5, c6, c7, c8] Ain Ab).eval q.1 = q.2 := by
  obtain ⟨hdetin, hib, hid⟩ := st_inv Ain hN.inb hN.ind hN.ina hN.ine
  obtain ⟨hdetout, _, _⟩ := st_inv Ab hN.outb hN.outd hN.outa (hN.outs ▸ hN.outa)
  obtain ⟨e0, e1, e2, e3, e4, e5, e6, e7, e8, hcl⟩ :=
    biquadratic_closed p0 p1 p2 p3 p4 p5 p6 p7 p8 Ain.inv Ab ⟨hib, hid⟩ ⟨hN.outb, hN.outd⟩
  let C := (Rat × Rat) × (Rat × Rat) × (Rat × Rat) × (Rat × Rat) × (Rat × Rat) × (Rat × Rat) × (Rat × Rat) ×
    (Rat × Rat) × (Rat × Rat)
  let F : C → (Rat × Rat) → (Rat × Rat) := fun c a =>
    Poly2d.evalCC (Poly2d.reshape 3 [c.1, c.2.1, c.2.2.1, c.2.2.2.1, c.2.2.2.2.1, c.2.2.2.2.2.1,
      c.2.2.2.2.2.2.1, c.2.2.2.2.2.2.2.1, c.2.2.2.2.2.2.2.2]) (Ain.apply a)
  have hfit := (poly_fit_exact_partial F (data.map fun q => (q.1, Ab.apply q.2))
    (e0, e1, e2, e3, e4, e5, e6, e7, e8) (c0, c1, c2, c3, c4, c5, c6, c7, c8)
    (by
      intro q hq
      obtain ⟨q', hq', rfl⟩ := List.mem_map.mp hq
      simp only [F]
      rw [hcl, Aff.inv_apply_apply Ain hdetin, hexact q' hq'])
    (by
      intro c'
      have := hmin c'.1 c'.2.1 c'.2.2.1 c'.2.2.2.1 c'.2.2.2.2.1 c'.2.2.2.2.2.1 c'.2.2.2.2.2.2.1
        c'.2.2.2.2.2.2.2.1 c'.2.2.2.2.2.2.2.2
      simpa only [Poly2d.fitCost, List.map_map, Function.comp_def, F] using this)).1
  intro q hq
  have h1 := hfit (q.1, Ab.apply q.2) (List.mem_map.mpr ⟨q, hq, rfl⟩)
  simp only [F] at h1
  simp only [Poly2d.eval, Poly2d.ofFit, poly_norm_eq_apply]
  rw [denorm9 c0 c1 c2 c3 c4 c5 c6 c7 c8 Ab hN.outb hN.outd hN.outs, h1, Aff.inv_apply_apply Ab hdetout]

/-! ## `Poly2d.fit`: dispatch on the number of points and layout of the design matrix -/

/-- **Dispatch**: fewer than three point pairs are rejected; 3 → affine (`_fit3`), 4…8 → bilinear
(`_fit4`), 9 and more → biquadratic (`_fit9`); the system LAPACK gets is never under-determined
(`columns ≤ points`). -/
theorem fit_kind_spec (N : Nat) :
    (N < 3 → Poly2d.fitKind N = .error .valueError) ∧
    (N = 3 → Poly2d.fitKind N = .ok .affine) ∧
    (4 ≤ N ∧ N ≤ 8 → Poly2d.fitKind N = .ok .bilinear) ∧
    (9 ≤ N → Poly2d.fitKind N = .ok .biquadratic) ∧
    (∀ k, Poly2d.fitKind N = .ok k → k.ncols ≤ N) := by
  refine ⟨?_, ?_, ?_, ?_, ?_⟩
  · intro h; simp [Poly2d.fitKind, h]
  · intro h; subst h; rfl
  · rintro ⟨h1, h2⟩
    simp only [Poly2d.fitKind]
    rw [if_neg (by omega), if_neg (by omega), if_pos (by omega)]
  · intro h
    simp only [Poly2d.fitKind]
    rw [if_neg (by omega), if_pos (by omega)]
  · intro k hk
    simp only [Poly2d.fitKind] at hk
    split at hk
    · exact absurd hk (by simp)
    · split at hk
      · cases Except.ok.inj hk; simp only [Poly2d.FitKind.ncols]; omega
      · split at hk
        · cases Except.ok.inj hk; simp only [Poly2d.FitKind.ncols]; omega
        · cases Except.ok.inj hk; simp only [Poly2d.FitKind.ncols]; omega

/-- **The columns of the design matrix match the coefficient layout `Poly2d` evaluates**: for each
family, `AA[i] · cc` (what LAPACK fits) is `polyval2d` of the reshaped (for `_fit3`: zero-padded)
coefficient table at the same point — `cc[i][j]` multiplies `x^i·y^j`. -/
theorem design_row_is_polyval (p : Rat × Rat) :
    (∀ c0 c1 c2 : Rat × Rat,
      Poly2d.designDot (Poly2d.designRow .affine p) [c0, c1, c2] =
        Poly2d.evalCC (Poly2d.reshape 2 (Poly2d.padCoeffs .affine [c0, c1, c2])) p) ∧
    (∀ c0 c1 c2 c3 : Rat × Rat,
      Poly2d.designDot (Poly2d.designRow .bilinear p) [c0, c1, c2, c3] =
        Poly2d.evalCC (Poly2d.reshape 2 (Poly2d.padCoeffs .bilinear [c0, c1, c2, c3])) p) ∧
    (∀ c0 c1 c2 c3 c4 c5 c6 c7 c8 : Rat × Rat,
      Poly2d.designDot (Poly2d.designRow .biquadratic p) [c0, c1, c2, c3, c4, c5, c6, c7, c8] =
        Poly2d.evalCC (Poly2d.reshape 3 (Poly2d.padCoeffs .biquadratic [c0, c1, c2, c3, c4, c5, c6, c7, c8])) p) := by
  refine ⟨?_, ?_, ?_⟩
  · intro c0 c1 c2
    simp only [Poly2d.padCoeffs, List.cons_append, List.nil_append, evalCC_reshape2, Poly2d.designDot,
      Poly2d.designRow, List.zip_cons_cons, List.zip_nil_right, List.foldl_cons, List.foldl_nil]
    ext <;> simp only [] <;> ring
  · intro c0 c1 c2 c3
    simp only [Poly2d.padCoeffs, evalCC_reshape2, Poly2d.designDot,
      Poly2d.designRow, List.zip_cons_cons, List.zip_nil_right, List.foldl_cons, List.foldl_nil]
    ext <;> simp only [] <;> ring
  · intro c0 c1 c2 c3 c4 c5 c6 c7 c8
    simp only [Poly2d.padCoeffs, evalCC_reshape3, Poly2d.designDot,
      Poly2d.designRow, List.zip_cons_cons, List.zip_nil_right, List.foldl_cons, List.foldl_nil]
    ext <;> simp only [] <;> ring

/-- The squared residual of `AA·cc` against the normalised targets *is* `Poly2d.fitCost` (bilinear
case): the cost LAPACK minimises is the cost the `poly_fit_exact_*` theorems are about. -/
theorem design_residual_is_fit_cost (Ain Ab : Aff) (data : List ((Rat × Rat) × (Rat × Rat)))
    (c0 c1 c2 c3 : Rat × Rat) :
    (data.map fun q =>
      let v := Poly2d.designDot (Poly2d.designRow .bilinear (Ain.apply q.1)) [c0, c1, c2, c3]
      let w := Ab.apply q.2
      (v.1 - w.1) * (v.1 - w.1) + (v.2 - w.2) * (v.2 - w.2)).sum =
    Poly2d.fitCost 2 Ain Ab data [c0, c1, c2, c3] := by
  unfold Poly2d.fitCost
  congr 1
  apply List.map_congr_left
  intro q _
  have := (design_row_is_polyval (Ain.apply q.1)).2.1 c0 c1 c2 c3
  simp only [Poly2d.padCoeffs] at this
  simp only [this]

/-- **`Poly2d.fit` end to end (4 ≤ N ≤ 8)**: with `norm_xy`'s two affines and LAPACK as parameters,
if LAPACK returns four coefficient pairs minimising `‖AA·cc − B‖²` and the data are exactly bilinear
(in the original coordinates), the returned `Poly2d` maps every `a_i` to `b_i`.  The N = 3 and
N ≥ 9 cases are `poly_fit_exact_affine` / `poly_fit_exact_biquadratic` composed in the same way. -/
theorem poly_fit_pipeline_exact (lstsq : List (List Rat) → List (Rat × Rat) → Option (List (Rat × Rat)))
    (Ain Ab : Aff) (hN : FitNorms Ain Ab) (aa bb : List (Rat × Rat)) (hN4 : 4 ≤ aa.length) (hN8 : aa.length ≤ 8)
    (p0 p1 p2 p3 : Rat × Rat)
    (hexact : ∀ q ∈ aa.zip bb, Poly2d.evalCC (Poly2d.reshape 2 [p0, p1, p2, p3]) q.1 = q.2)
    (hls : ∀ rows targets cc, lstsq rows targets = some cc →
      ∃ c0 c1 c2 c3, cc = [c0, c1, c2, c3] ∧ ∀ d0 d1 d2 d3 : Rat × Rat,
        Poly2d.lsqCost rows targets [c0, c1, c2, c3] ≤ Poly2d.lsqCost rows targets [d0, d1, d2, d3])
    (P : Poly2d) (h : Poly2d.fit lstsq Ain Ab aa bb = .ok P) :
    ∀ q ∈ aa.zip bb, P.eval q.1 = q.2 := by
  unfold Poly2d.fit at h
  split at h
  · exact absurd h (by simp)
  · have hk : Poly2d.fitKind aa.length = .ok .bilinear := (fit_kind_spec aa.length).2.2.1 ⟨hN4, hN8⟩
    rw [hk] at h
    simp only at h
    split at h
    · exact absurd h (by simp)
    · rename_i cc hcc
      obtain ⟨c0, c1, c2, c3, rfl, hmin⟩ := hls _ _ cc hcc
      have hP := Except.ok.inj h
      subst hP
      -- the cost LAPACK saw is `fitCost` on the zipped data
      have hcost : ∀ d : List (Rat × Rat),
          Poly2d.lsqCost (aa.map fun a => Poly2d.designRow .bilinear (Ain.apply a)) (bb.map Ab.apply) d =
            ((aa.zip bb).map fun q =>
              let v := Poly2d.designDot (Poly2d.designRow .bilinear (Ain.apply q.1)) d
              let w := Ab.apply q.2
              (v.1 - w.1) * (v.1 - w.1) + (v.2 - w.2) * (v.2 - w.2)).sum := by
        intro d
        unfold Poly2d.lsqCost
        rw [List.zip_map, List.map_map]
        rfl
      have hmin' : ∀ d0 d1 d2 d3 : Rat × Rat,
          Poly2d.fitCost 2 Ain Ab (aa.zip bb) [c0, c1, c2, c3] ≤ Poly2d.fitCost 2 Ain Ab (aa.zip bb) [d0, d1, d2, d3] := by
        intro d0 d1 d2 d3
        have := hmin d0 d1 d2 d3
        rw [hcost, hcost, design_residual_is_fit_cost, design_residual_is_fit_cost] at this
        exact this
      have := poly_fit_exact_bilinear Ain Ab hN (aa.zip bb) p0 p1 p2 p3 hexact c0 c1 c2 c3 hmin'
      simpa only [Poly2d.ofFit, Poly2d.padCoeffs, Poly2d.FitKind.side] using this

/-- `Poly2d.fit` rejects mismatching inputs and fewer than three point pairs before anything else. -/
theorem poly_fit_rejects (lstsq : List (List Rat) → List (Rat × Rat) → Option (List (Rat × Rat)))
    (Ain Ab : Aff) (aa bb : List (Rat × Rat)) :
    (aa.length ≠ bb.length → Poly2d.fit lstsq Ain Ab aa bb = .error .assertion) ∧
    (aa.length = bb.length → aa.length < 3 → Poly2d.fit lstsq Ain Ab aa bb = .error .valueError) := by
  constructor
  · intro h; unfold Poly2d.fit; rw [if_pos h]
  · intro h1 h2
    unfold Poly2d.fit
    rw [if_neg (by simpa using h1), (fit_kind_spec aa.length).1 h2]

/-! ## `data_resolution_and_offset`, `affine_from_axis` -/

/-- **`affine_from_axis_roundtrip`**: labels `t + (i + ½)·r`, `i < n`, `n ≥ 2` give back
resolution `r` and offset `t` (pixel-edge convention). -/
theorem affine_from_axis_roundtrip (t r : Rat) (n : Nat) (hn : 2 ≤ n) (fb : Option Rat) :
    dataResolutionAndOffset ((List.range n).map fun (i : Nat) => t + ((i : Rat) + 1 / 2) * r) fb = .ok (r, t) := by
  obtain ⟨m, rfl⟩ : ∃ m, n = m + 2 := ⟨n - 2, by omega⟩
  have hlist : (List.range (m + 2)).map (fun (i : Nat) => t + ((i : Rat) + 1 / 2) * r) =
      (t + ((0 : Nat) + 1 / 2) * r) :: (t + ((1 : Nat) + 1 / 2) * r) ::
        (List.range m).map (fun (i : Nat) => t + (((i + 2 : Nat) : Rat) + 1 / 2) * r) := by
    apply List.ext_getElem
    · simp
    · intro i h1 h2
      rcases i with _ | _ | k
      · simp
      · simp
      · simp; left; ring
  rw [hlist]
  unfold dataResolutionAndOffset
  simp only
  have hlast : ((t + ((1 : Nat) + 1 / 2) * r) ::
        (List.range m).map (fun (i : Nat) => t + (((i + 2 : Nat) : Rat) + 1 / 2) * r)).getLast
        (List.cons_ne_nil _ _) = t + (((m + 1 : Nat) : Rat) + 1 / 2) * r := by
    rw [List.getLast_eq_getElem]
    cases m with
    | zero => simp
    | succ k => simp; left; ring
  rw [hlast]
  have hlen : (((t + ((1 : Nat) + 1 / 2) * r) ::
      (List.range m).map (fun (i : Nat) => t + (((i + 2 : Nat) : Rat) + 1 / 2) * r)).length : Nat) = m + 1 := by
    simp
  rw [hlen]
  have hm : ((m + 1 : Nat) : Rat) ≠ 0 := by positivity
  congr 1
  ext
  · push_cast at hm ⊢; field_simp; ring
  · push_cast at hm ⊢; field_simp; ring

/-- **Branch order of `data_resolution_and_offset`**: with two or more labels the fallback resolution
is never consulted, and only the first and the last label matter (not "the first two" as the
docstring says): `res = (last − first)/(n − 1)`, `off = first − res/2`. -/
theorem data_resolution_first_last (x y : Rat) (rest : List Rat) (fb : Option Rat) :
    dataResolutionAndOffset (x :: y :: rest) fb =
      .ok (((y :: rest).getLast (List.cons_ne_nil y rest) - x) / (((rest.length + 1 : Nat)) : Rat),
           x - 1 / 2 * (((y :: rest).getLast (List.cons_ne_nil y rest) - x) / (((rest.length + 1 : Nat)) : Rat))) ∧
    dataResolutionAndOffset (x :: y :: rest) fb = dataResolutionAndOffset (x :: y :: rest) none := by
  constructor
  · simp [dataResolutionAndOffset]
  · rfl

/-- `affine_from_axis` passes the x / y component of the fallback to the respective axis, and an axis
with a single label takes its resolution from it (sign included). -/
theorem affine_from_axis_single_labels (x y rx ry : Rat) :
    affineFromAxis [x] [y] (some (rx, ry)) = .ok (Aff.translation (x - 1 / 2 * rx) (y - 1 / 2 * ry) * Aff.scale rx ry) ∧
    affineFromAxis [x] [y] none = .error .valueError := by
  constructor <;> rfl

/-- A single label needs the fallback resolution; no label is an error. -/
theorem data_resolution_small (x : Rat) (fb : Option Rat) :
    dataResolutionAndOffset [] fb = .error .valueError ∧
    dataResolutionAndOffset [x] none = .error .valueError ∧
    (∀ r, dataResolutionAndOffset [x] (some r) = .ok (r, x - 1 / 2 * r)) :=
  ⟨rfl, rfl, fun _ => rfl⟩

/-- `affine_from_axis` is `T(xoff, yoff)·S(xres, yres)`: pixel `(i, j)`'s centre maps to the
labels `(xx[i], yy[j])`. -/
theorem affine_from_axis_centres (tx rx ty ry : Rat) (nx ny : Nat) (hnx : 2 ≤ nx) (hny : 2 ≤ ny)
    (fb : Option (Rat × Rat)) :
    ∃ A, affineFromAxis ((List.range nx).map fun (i : Nat) => tx + ((i : Rat) + 1 / 2) * rx)
        ((List.range ny).map fun (j : Nat) => ty + ((j : Rat) + 1 / 2) * ry) fb = .ok A ∧
      ∀ i j : Nat, A.apply ((i : Rat) + 1 / 2, (j : Rat) + 1 / 2) =
        (tx + ((i : Rat) + 1 / 2) * rx, ty + ((j : Rat) + 1 / 2) * ry) := by
  refine ⟨Aff.translation tx ty * Aff.scale rx ry, ?_, ?_⟩
  · unfold affineFromAxis
    rw [affine_from_axis_roundtrip tx rx nx hnx, affine_from_axis_roundtrip ty ry ny hny]
    rfl
  · intro i j
    simp [Aff.mul_def, Aff.mul, Aff.apply, Aff.translation, Aff.scale]
    constructor <;> ring

/-! ## `Bin1D` -/

/-- **Every point lies in the interval of the bin it is mapped to** (both directions). -/
theorem bin1d_point_in_bin (b : Bin1D) (hsz : 0 < b.sz) (hd : b.direction = 1 ∨ b.direction = -1)
    (x : Rat) : (b.interval (b.bin x)).1 ≤ x ∧ x < (b.interval (b.bin x)).2 := by
  have h1 := Rat.floor_le ((x - b.origin) / b.sz)
  have h2 := Rat.lt_floor_add_one ((x - b.origin) / b.sz)
  push_cast at h2
  rw [le_div_iff₀ hsz] at h1
  rw [div_lt_iff₀ hsz] at h2
  have hdd : (b.direction : Rat) * b.direction = 1 := by
    rcases hd with h | h <;> rw [h] <;> norm_num
  simp only [Bin1D.interval, Bin1D.bin]
  push_cast
  generalize ((x - b.origin) / b.sz).floor = k at h1 h2 ⊢
  have e : (b.direction : Rat) * k * b.sz * b.direction = k * b.sz := by
    linear_combination ((k : Rat) * b.sz) * hdd
  rw [e]
  constructor <;> linarith

/-- Conversely every point of the interval `self[idx]` is mapped to bin `idx`. -/
theorem bin1d_bin_of_interval (b : Bin1D) (hsz : 0 < b.sz) (hd : b.direction = 1 ∨ b.direction = -1)
    (idx : Int) (x : Rat) (hx : (b.interval idx).1 ≤ x ∧ x < (b.interval idx).2) : b.bin x = idx := by
  simp only [Bin1D.interval] at hx
  obtain ⟨hx1, hx2⟩ := hx
  have hfl : ((x - b.origin) / b.sz).floor = b.direction * idx := by
    have hdd : (b.direction : Rat) * b.direction = 1 := by
      rcases hd with h | h <;> rw [h] <;> norm_num
    apply le_antisymm
    · rw [← Int.lt_add_one_iff, Rat.floor_lt_iff, div_lt_iff₀ hsz]; push_cast; nlinarith
    · rw [Rat.le_floor_iff, le_div_iff₀ hsz]; push_cast; nlinarith
  simp only [Bin1D.bin, hfl]
  rcases hd with h | h <;> rw [h] <;> ring

/-- Consecutive intervals tile the line: all have width `sz` and `self[i + direction]` starts
where `self[i]` ends. -/
theorem bin1d_intervals_tile (b : Bin1D) (hd : b.direction = 1 ∨ b.direction = -1) (idx : Int) :
    (b.interval idx).2 - (b.interval idx).1 = b.sz ∧
      (b.interval (idx + b.direction)).1 = (b.interval idx).2 := by
  have hdd : (b.direction : Rat) * b.direction = 1 := by
    rcases hd with h | h <;> rw [h] <;> norm_num
  simp only [Bin1D.interval]
  push_cast
  constructor
  · ring
  · linear_combination b.sz * hdd

/-- **Reconstruction from a sample bin** gives back the same binning. -/
theorem bin1d_from_sample_bin (b : Bin1D) (hsz : 0 < b.sz) (hd : b.direction = 1 ∨ b.direction = -1)
    (idx : Int) :
    Bin1D.fromSampleBin idx (b.interval idx).1 (b.interval idx).2 b.direction = .ok b := by
  have hlt : (b.interval idx).1 < (b.interval idx).2 := by simp only [Bin1D.interval]; linarith
  have hd' : b.direction = -1 ∨ b.direction = 1 := hd.symm
  unfold Bin1D.fromSampleBin
  rw [if_neg (not_not.mpr hlt)]
  have hw : (b.interval idx).2 - (b.interval idx).1 = b.sz := by simp only [Bin1D.interval]; ring
  simp only [hw]
  unfold Bin1D.mk?
  rw [if_neg (not_not.mpr hd'), if_neg (not_not.mpr hsz)]
  have ho : (b.interval idx).1 - b.sz * (idx : Rat) * (b.direction : Rat) = b.origin := by
    simp only [Bin1D.interval]; ring
  rw [ho]

/-- The constructor rejects a non-positive size and directions other than `±1`. -/
theorem bin1d_rejects (sz origin : Rat) (d : Int) (h : ¬ (d = -1 ∨ d = 1) ∨ ¬ sz > 0) :
    Bin1D.mk? sz origin d = .error .assertion := by
  unfold Bin1D.mk?
  rcases h with h | h
  · rw [if_pos h]
  · by_cases h1 : ¬ (d = -1 ∨ d = 1)
    · rw [if_pos h1]
    · rw [if_neg h1, if_pos h]


end OdcGeo.C20
