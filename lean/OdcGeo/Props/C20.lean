/- C20 — property theorems only. -/
import OdcGeo.Model.C20
namespace OdcGeo.C20

end OdcGeo.C20
