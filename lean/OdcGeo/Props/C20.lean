/-
C20 — numeric helpers of `odc/geo/math.py` meet their documented contracts.

Property theorems only (helpers are in `Lemmas/C20.lean`).  Everything is over exact
rationals; IEEE rounding is outside the model (see DESIGN.md §3.1).
-/
import OdcGeo.Model.C20
import OdcGeo.Lemmas.C20
import OdcGeo.Lemmas.C20b
import OdcGeo.Props.C17

namespace OdcGeo.C20

/-! ## `split_float` -/

/-- The whole part is an integer, whole + fraction = `x`, and the fraction lies in
`[-1/2, 1/2]` (with `fmod`'s truncation semantics: `2.5 ↦ (2, 0.5)`, `-2.5 ↦ (-2, -0.5)`). -/
theorem split_float_sum_range_whole (x : Rat) :
    (∃ k : Int, (splitFloat x).1 = (k : Rat)) ∧ (splitFloat x).1 + (splitFloat x).2 = x ∧
      -(1 / 2) ≤ (splitFloat x).2 ∧ (splitFloat x).2 ≤ 1 / 2 :=
  splitFloat_spec x

/-- Non-finite inputs are passed through with a zero fraction. -/
theorem split_float_nonfinite (x : XF) (h : ∀ q, x ≠ .fin q) : splitFloatX x = (x, .fin 0) := by
  cases x with
  | fin q => exact absurd rfl (h q)
  | pinf => rfl
  | ninf => rfl
  | nan => rfl

/-! ## `maybe_int`, `is_almost_int` -/

/-- `maybe_int` replaces `x` by an `int` exactly when `is_almost_int` says yes. -/
theorem maybe_int_iff_is_almost_int (x tol : Rat) :
    (maybeInt? x tol).isSome = isAlmostInt x tol := (isAlmostInt_eq x tol).symm

/-- …and both agree with the tolerance: "some integer is closer than `tol`". -/
theorem is_almost_int_iff (x tol : Rat) : isAlmostInt x tol = true ↔ ∃ n : Int, |x - n| < tol := by
  rw [isAlmostInt_eq]; exact maybeInt?_isSome_iff x tol

/-- The integer returned is within `tol` of `x` and is a nearest integer. -/
theorem maybe_int_snapped {x tol : Rat} {k : Int} (h : maybeInt? x tol = some k) :
    maybeInt x tol = k ∧ |x - k| < tol ∧ ∀ n : Int, |x - k| ≤ |x - n| := by
  obtain ⟨_, h1, h2⟩ := maybeInt?_some h
  refine ⟨maybeInt_of_some h, h1, fun n => ?_⟩
  by_cases hn : n = k
  · rw [hn]
  · have h3 : (1 : Rat) ≤ |(k : Rat) - n| := by
      have : (1 : Int) ≤ |k - n| := Int.one_le_abs (by omega)
      have : ((1 : Int) : Rat) ≤ ((|k - n| : Int) : Rat) := by exact_mod_cast this
      simpa using this
    have h4 : |(k : Rat) - n| ≤ |x - n| + |x - k| := by
      have : (k : Rat) - n = (x - n) - (x - k) := by ring
      rw [this]; exact abs_sub _ _
    linarith

/-- Values that are not close to an integer pass through unmodified. -/
theorem maybe_int_unsnapped {x tol : Rat} (h : maybeInt? x tol = none) :
    maybeInt x tol = x ∧ ∀ n : Int, tol ≤ |x - n| :=
  ⟨maybeInt_of_none h, maybeInt?_none h⟩

/-- `maybe_int` / `is_almost_int` on non-finite input: passed through / `False`. -/
theorem maybe_int_nonfinite (x : XF) (tol : Rat) (h : ∀ q, x ≠ .fin q) :
    maybeIntX x tol = .inr x ∧ isAlmostIntX x tol = false := by
  cases x with
  | fin q => exact absurd rfl (h q)
  | pinf => exact ⟨rfl, rfl⟩
  | ninf => exact ⟨rfl, rfl⟩
  | nan => exact ⟨rfl, rfl⟩

/-! ## `snap_scale` -/

/-- The result is `s` itself, or an integer within `tol` of `s`, or `1/k` for a non-zero
integer `k` within `tol` of `1/s`. -/
theorem snap_scale_within_tol {s tol r : Rat} (h : snapScale s tol = .ok r) :
    r = s ∨ (∃ k : Int, r = k ∧ |s - k| < tol) ∨
      (∃ k : Int, k ≠ 0 ∧ s ≠ 0 ∧ r = 1 / (k : Rat) ∧ |1 / s - k| < tol) :=
  snapScale_cases h

/-- With a positive tolerance `snap_scale` never divides by zero. -/
theorem snap_scale_total (s : Rat) {tol : Rat} (ht : 0 < tol) : ∃ r, snapScale s tol = .ok r :=
  snapScale_total s ht

/-- Snapping twice is the same as snapping once (every `s`, every `tol`). -/
theorem snap_scale_idem {s tol r : Rat} (h : snapScale s tol = .ok r) : snapScale r tol = .ok r :=
  snapScale_idem h

/-! ## integer alignment -/

/-- `align_down`, `align_up` (Python floor-mod, negative `x` included): proved in C17, restated
here because the statement of C20 lists them. -/
theorem align_down_spec (x a : Int) (ha : 0 < a) :
    a ∣ C17.alignDown x a ∧ C17.alignDown x a ≤ x ∧ x - C17.alignDown x a < a :=
  C17.align_down_spec x a ha

theorem align_up_spec (x a : Int) (ha : 0 < a) :
    a ∣ C17.alignUp x a ∧ x ≤ C17.alignUp x a ∧ C17.alignUp x a - x < a :=
  C17.align_up_spec x a ha

/-- `align_up_pow2(x)` is the least power of two `≥ x` (for `x ≥ 1`; `log2` exact). -/
theorem align_up_pow2_least (x : Int) (hx : 1 ≤ x) :
    ∃ n : Nat, alignUpPow2 x = 2 ^ n ∧ x ≤ 2 ^ n ∧ ∀ m : Nat, x ≤ 2 ^ m → (2 : Int) ^ n ≤ 2 ^ m :=
  alignUpPow2_least x hx

/-- `align_down_pow2(x)` is the greatest power of two `≤ x` (for `x ≥ 1`). -/
theorem align_down_pow2_greatest (x : Int) (hx : 1 ≤ x) :
    ∃ n : Nat, alignDownPow2 x = 2 ^ n ∧ (2 : Int) ^ n ≤ x ∧ ∀ m : Nat, (2 : Int) ^ m ≤ x → (2 : Int) ^ m ≤ 2 ^ n :=
  alignDownPow2_greatest x hx

/-- For `x ≤ 0` the code returns `1` / `0` (no power of two is `≤ x`). -/
theorem align_pow2_nonpos (x : Int) (hx : x ≤ 0) : alignUpPow2 x = 1 ∧ alignDownPow2 x = 0 := by
  have h1 : alignUpPow2 x = 1 := by unfold alignUpPow2; rw [if_pos hx]
  refine ⟨h1, ?_⟩
  unfold alignDownPow2
  simp only [h1]
  rw [if_pos (by omega)]
  rfl

/-! ## one-axis grid snapping (`snap_grid`, `_snap_edge`, `_snap_edge_pos`)

`gridLo` / `gridHi` are the lower / upper world edge of the returned 1-d grid
(`tx`, `tx + nx·res` in the order given by the sign of `res`).
Hypotheses: `x0 ≤ x1`, `res ≠ 0`, `0 ≤ off < 1`, `0 ≤ tol < 1/2`. -/

/-- The call succeeds and `nx ≥ 1`. -/
theorem snap_grid_n_pos {x0 x1 res tol : Rat} (off : Option Rat) (hr : res ≠ 0) (hx : x0 ≤ x1)
    (hop : ∀ op, off = some op → 0 ≤ op ∧ op < 1) (ht : 0 ≤ tol) (ht2 : tol < 1 / 2) :
    ∃ tx nx, snapGrid x0 x1 res off tol = .ok (tx, nx) ∧ 1 ≤ nx := by
  cases off with
  | none =>
    obtain ⟨n, tx, h, hn, _⟩ := snapGrid_none_spec hr hx ht (tol := tol)
    exact ⟨tx, n, h, hn⟩
  | some op =>
    obtain ⟨i, n, tx, h, hn, _⟩ := snapGrid_some_spec hr hx (hop op rfl) ht ht2
    exact ⟨tx, n, h, hn⟩

/-- **Cover**: the grid covers `[x0, x1]` except at most `tol·|res|` per side. -/
theorem snap_grid_cover {x0 x1 res tol tx : Rat} {nx : Int} (off : Option Rat) (hr : res ≠ 0)
    (hx : x0 ≤ x1) (hop : ∀ op, off = some op → 0 ≤ op ∧ op < 1) (ht : 0 ≤ tol) (ht2 : tol < 1 / 2)
    (h : snapGrid x0 x1 res off tol = .ok (tx, nx)) :
    gridLo res tx nx ≤ x0 + tol * |res| ∧ x1 - tol * |res| ≤ gridHi res tx nx := by
  cases off with
  | none =>
    obtain ⟨n, t, h', _, _, h1, h2, _⟩ := snapGrid_none_spec hr hx ht (tol := tol)
    rw [h] at h'; cases h'; exact ⟨h1, h2⟩
  | some op =>
    obtain ⟨i, n, t, h', _, _, _, h1, _, h2, _⟩ := snapGrid_some_spec hr hx (hop op rfl) ht ht2
    rw [h] at h'; cases h'; exact ⟨h1, h2⟩

/-- **Minimal**: the grid exceeds the interval by less than one pixel (plus `tol`) per side.
The strict bound needs `0 < tol ∨ x0 < x1`: a zero-width interval sitting exactly on a pixel
edge with `tol = 0` still gets one whole pixel (`nx ≥ 1`), see `snap_grid_minimal_le` and
`snap_grid_minimal_degenerate`. -/
theorem snap_grid_minimal {x0 x1 res tol tx : Rat} {nx : Int} (off : Option Rat) (hr : res ≠ 0)
    (hx : x0 ≤ x1) (hop : ∀ op, off = some op → 0 ≤ op ∧ op < 1) (ht : 0 ≤ tol) (ht2 : tol < 1 / 2)
    (hs : 0 < tol ∨ x0 < x1)
    (h : snapGrid x0 x1 res off tol = .ok (tx, nx)) :
    x0 - gridLo res tx nx < |res| * (1 + tol) ∧ gridHi res tx nx - x1 < |res| * (1 + tol) := by
  have hpos : 0 < |res| := abs_pos.mpr hr
  cases off with
  | none =>
    obtain ⟨n, t, h', _, _, _, _, _, _, h3⟩ := snapGrid_none_spec hr hx ht (tol := tol)
    rw [h] at h'; cases h'; exact h3 hs
  | some op =>
    obtain ⟨i, n, t, h', _, _, _, _, h1, _, _, h3⟩ := snapGrid_some_spec hr hx (hop op rfl) ht ht2
    rw [h] at h'; cases h'
    exact ⟨by nlinarith, h3 hs⟩

/-- Non-strict version, no side condition. -/
theorem snap_grid_minimal_le {x0 x1 res tol tx : Rat} {nx : Int} (off : Option Rat) (hr : res ≠ 0)
    (hx : x0 ≤ x1) (hop : ∀ op, off = some op → 0 ≤ op ∧ op < 1) (ht : 0 ≤ tol) (ht2 : tol < 1 / 2)
    (h : snapGrid x0 x1 res off tol = .ok (tx, nx)) :
    x0 - gridLo res tx nx ≤ |res| * (1 + tol) ∧ gridHi res tx nx - x1 ≤ |res| * (1 + tol) := by
  have hpos : 0 < |res| := abs_pos.mpr hr
  cases off with
  | none =>
    obtain ⟨n, t, h', _, _, _, _, h1, h2, _⟩ := snapGrid_none_spec hr hx ht (tol := tol)
    rw [h] at h'; cases h'; exact ⟨h1, h2⟩
  | some op =>
    obtain ⟨i, n, t, h', _, _, _, _, h1, _, h2, _⟩ := snapGrid_some_spec hr hx (hop op rfl) ht ht2
    rw [h] at h'; cases h'
    exact ⟨by nlinarith, h2⟩

/-- The excluded point of `snap_grid_minimal`: `x0 = x1 = 2`, `res = 1`, `tol = 0` gives the pixel
`[2, 3]`, exactly one pixel beyond `x1` (replayed on the real code by the harness). -/
theorem snap_grid_minimal_degenerate :
    snapGrid 2 2 1 (some 0) 0 = .ok (2, 1) ∧ gridHi 1 2 1 - 2 = |(1 : Rat)| * (1 + 0) := by
  constructor
  · decide +kernel
  · simp [gridHi]

/-- **Aligned**: the pixel edges are offset from the origin by exactly the requested
fraction of a pixel: `(lo − off·|res|)/|res|` and `(hi − off·|res|)/|res|` are integers. -/
theorem snap_grid_aligned {x0 x1 res tol tx op : Rat} {nx : Int} (hr : res ≠ 0)
    (hx : x0 ≤ x1) (hop : 0 ≤ op ∧ op < 1) (ht : 0 ≤ tol) (ht2 : tol < 1 / 2)
    (h : snapGrid x0 x1 res (some op) tol = .ok (tx, nx)) :
    ∃ i : Int, (gridLo res tx nx - op * |res|) / |res| = i ∧
      (gridHi res tx nx - op * |res|) / |res| = ((i + nx : Int) : Rat) := by
  have hpos : 0 < |res| := abs_pos.mpr hr
  obtain ⟨i, n, t, h', _, h1, h2, _⟩ := snapGrid_some_spec hr hx hop ht ht2
  rw [h] at h'; cases h'
  refine ⟨i, ?_, ?_⟩
  · rw [h1]; field_simp; ring
  · rw [h2]; push_cast; field_simp; ring

/-- **Not snapping**: with `off_pix = None` the origin is `x0` (`res > 0`) / `x1` (`res < 0`). -/
theorem snap_grid_none_exact {x0 x1 res tol tx : Rat} {nx : Int} (hr : res ≠ 0) (hx : x0 ≤ x1)
    (ht : 0 ≤ tol) (h : snapGrid x0 x1 res none tol = .ok (tx, nx)) :
    tx = if 0 < res then x0 else x1 := by
  obtain ⟨n, t, h', _, h1, _⟩ := snapGrid_none_spec hr hx ht (tol := tol)
  rw [h] at h'; cases h'; exact h1

/-- What the code rejects: a zero resolution, an inverted interval (when snapping), an
anchor fraction outside `[0, 1)`. -/
theorem snap_grid_rejects (x0 x1 res tol : Rat) :
    snapGrid x0 x1 0 none tol = .error .zeroDiv ∧
    (∀ op, 0 ≤ op ∧ op < 1 → snapGrid x0 x1 0 (some op) tol = .error .assertion) ∧
    (∀ op, ¬ (0 ≤ op ∧ op < 1) → snapGrid x0 x1 res (some op) tol = .error .assertion) ∧
    (∀ op, 0 ≤ op ∧ op < 1 → x1 < x0 → snapGrid x0 x1 res (some op) tol = .error .assertion) := by
  refine ⟨?_, ?_, ?_, ?_⟩
  · simp [snapGrid]
  · intro op hop
    unfold snapGrid; simp only; rw [if_neg (not_not.mpr hop)]
    have : ¬ (x1 - op * rabs 0 ≥ x0 - op * rabs 0) ∨ (x1 - op * rabs 0 ≥ x0 - op * rabs 0) := by
      exact (em _).symm
    rcases this with hh | hh
    · simp [snapEdge, hh]
    · simp [snapEdge, snapEdgePos, hh]
  · intro op hop
    unfold snapGrid; simp only; rw [if_pos hop]
  · intro op hop hlt
    unfold snapGrid; simp only; rw [if_neg (not_not.mpr hop)]
    have : ¬ (x1 - op * rabs res ≥ x0 - op * rabs res) := by
      rw [ge_iff_le, not_le]; linarith
    simp [snapEdge, this]

end OdcGeo.C20
