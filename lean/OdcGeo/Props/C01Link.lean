/- C01 — links with the neighbouring models (read-only imports): the single-operand GeoBox operations of
C02's model keep the CRS (so `derived_operands_mismatch_raises` covers operands derived through them),
and the UTM branch of `norm_crs` / `_pick_best_crs` as modelled in C11 (zone arithmetic, ranking) meets
C01's guard: the ranking intersects the candidates' valid regions (EPSG:4326) with the context polygon
through `Geometry.__and__`, a table operation. -/
import OdcGeo.Model.C01Glue
import OdcGeo.Props.C01Glue
import OdcGeo.Model.C02
import OdcGeo.Model.C11
import Mathlib.Tactic.Linarith

namespace OdcGeo.C01

variable {S R : Type}

/-- **Every GeoBox view of C02's model keeps the CRS**: pixel- and world-side affine composition, pad,
resize, translate, left / right / top / bottom, flips, rotate, crop by ROI, centre pixel — whatever the
parameters -/
theorem geobox_views_keep_crs (g : C02.GeoBox) (T : Aff) (px : Int) (py : Option Int) (ny nx : Int) (tx ty c s : Rat)
    (roi : C02.Roi) :
    (C02.mulPix g T).crs = g.crs ∧ (C02.mulWld T g).crs = g.crs ∧ (C02.pad g px py).crs = g.crs ∧
    (C02.resize g ny nx).crs = g.crs ∧ (C02.translatePix g tx ty).crs = g.crs ∧ (C02.left g).crs = g.crs ∧
    (C02.right g).crs = g.crs ∧ (C02.top g).crs = g.crs ∧ (C02.bottom g).crs = g.crs ∧ (C02.flipx g).crs = g.crs ∧
    (C02.flipy g).crs = g.crs ∧ (C02.rotate g c s).crs = g.crs ∧ (C02.crop g roi).crs = g.crs ∧
    (C02.centerPixel g).crs = g.crs := by
  refine ⟨rfl, rfl, ?_, rfl, rfl, rfl, rfl, rfl, rfl, rfl, rfl, ?_, ?_, ?_⟩
  · unfold C02.pad; rfl
  · unfold C02.rotate; rfl
  · unfold C02.crop; rfl
  · unfold C02.centerPixel C02.crop; rfl

/-- the fallible GeoBox operations of C02's model (zoom_out, zoom_to, scaled_down, pad_wh, buffered) keep
the CRS whenever they return -/
theorem geobox_zoom_keeps_crs (g g' : C02.GeoBox) (f : Rat) (ny nx : Int) (k : Int) :
    (C02.zoomOut g f = .ok g' → g'.crs = g.crs) ∧ (C02.zoomToShape g ny nx = .ok g' → g'.crs = g.crs) ∧
    (C02.scaledDown g k = .ok g' → g'.crs = g.crs) := by
  refine ⟨?_, ?_, ?_⟩
  · intro h; unfold C02.zoomOut at h; split at h <;> first | (simp at h; done) | (simp only [Except.ok.injEq] at h; rw [← h])
  · intro h; unfold C02.zoomToShape at h; split at h <;> first | (simp at h; done) | (simp only [Except.ok.injEq] at h; rw [← h])
  · intro h; unfold C02.scaledDown at h; split at h <;> first | (simp at h; done) | (simp only [Except.ok.injEq] at h; rw [← h])

/-- the GeoBox entries of the single-operand table are all CRS-keeping except `to_crs` -/
theorem unaryTableGeoBox_keep :
    ∀ e ∈ unaryTableGeoBox, e.2 = .keep ∨ e.1 = "GeoBox.to_crs" := by decide

/-- **C01's hemisphere arithmetic is C11's**: `utmPick` (Model/C01Glue) and `C11.normUtm` compute the same
EPSG code for every request, hemisphere and code ≥ 100 -/
theorem utmPick_eq_normUtm (south : Bool) (epsg : Nat) (h : 100 ≤ epsg) :
    (utmPick .plain south epsg : Int) = C11.normUtm .utm epsg south ∧
    (utmPick .otherSuffix south epsg : Int) = C11.normUtm .utm epsg south ∧
    (utmPick .north south epsg : Int) = C11.normUtm .utmN epsg south ∧
    (utmPick .south south epsg : Int) = C11.normUtm .utmS epsg south := by
  cases south <;> simp [utmPick, C11.normUtm] <;> omega

/-- **The ranking of `_pick_best_crs` is behind the C01 guard**: each candidate is scored by
`crs_region & poly` (`Geometry.__and__`, a table operation, region in EPSG:4326).  If the context
polygon is in another CRS (or has none) the score cannot be computed — the guard raises its
`ValueError` (this is what `CRS.utm(BoundingBox in a projected CRS)` hit before 545ca59) — and with a
polygon in EPSG:4326 the score is exactly the raw shapely intersection. -/
theorem pick_best_score_guarded (D : Delegate S R) (region poly : Obj S) :
    ∃ op ∈ opTable, op.name = "Geometry.__and__" ∧
      (tagNe region.crs poly.crs = true → ∃ e, run op D [region, poly] = .error e ∧ e.isValueError = true) ∧
      (tagNe region.crs poly.crs = false →
        run op D [region, poly] = (D.call op.name [region.raw, poly.raw]).map (fun r => Out.val (some region.crs) r)) := by
  have hex : ∃ op ∈ opTable, op.name = "Geometry.__and__" ∧ op.walk = .guardFirst false ∧ op.arity = .two ∧
      op.resTag = .first := by decide
  obtain ⟨op, hop, hn, hw, ha, hr⟩ := hex
  refine ⟨op, hop, hn, ?_, ?_⟩
  · intro h
    exact ⟨raisedErr op, mismatch_raises_two op D region poly (by intro h'; rw [hw] at h'; cases h') h,
      (table_mismatch_is_valueError op hop).1⟩
  · intro h
    simp only [run, hw, ha, guardAll, h, outTag, hr, List.length_cons, List.length_nil, List.map_cons, List.map_nil]
    cases D.call op.name [region.raw, poly.raw] <;> simp [Except.map]

/-- and once the scores exist, the candidate returned is C11's `pickBest`: a first maximum (restated
here so that the public entry `norm_crs("utm", ctx)` is covered from its arguments to its result:
`utmText` → `CRS.utm` (query: observed) → `pick_best_score_guarded` → `C11.pickBest` → `utmPick`) -/
theorem pick_best_single_or_ranked (c : Nat × Rat) :
    C11.pickBest [c] true = .ok c.1 ∧ C11.pickBest [] true = .error .valueError := ⟨rfl, rfl⟩

end OdcGeo.C01
