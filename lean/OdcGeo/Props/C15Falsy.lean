/-
C15 — corollaries of the call-trace model for the falsy-but-meaningful option spellings of `write_cog` / `to_cog`:
supplied-but-empty overviews, `overview_levels=[]`, `nodata=0` / `0.0`.  (A change `if overviews is not None:` → `if overviews:`
breaks exactly the first.)
-/
import OdcGeo.Props.C15Glue

set_option linter.unusedVariables false
set_option linter.unusedSimpArgs false

namespace OdcGeo.C15

/-- is this event a `build_overviews` call? -/
def Ev.isBuild : Ev → Bool
  | .buildOverviews _ _ => true
  | _ => false

theorem isBuild_writeEvents (l : Layout) (ndim : Nat) (win : Bool) (opts : Dict) :
    ∀ ev ∈ writeEvents l ndim win opts, ev.isBuild = false := by
  intro ev hev
  obtain ⟨sh, b, w, rfl⟩ := mem_writeEvents l ndim win opts ev hev
  rfl

/-- `levels_empty_never_builds`: `_write_cog` with an EMPTY level list never asks GDAL for overviews — whatever the image size
(also past the 512 px threshold of the default pyramid), layout, destination or other options, and whether the call succeeds
or not -/
theorem levels_empty_never_builds (k0 : Nat) (a : WArgs) (hlv : a.levels = some []) :
    ∀ ev ∈ (writeCogFrom k0 a).1, ev.isBuild = false := by
  unfold writeCogFrom
  cases hl : layoutOf a.shape a.g with
  | error e => simp
  | ok l =>
    have hw := isBuild_writeEvents l a.shape.length a.windowed
    have hlev : (levelsFor a.levels l.w l.h).length = 0 := by simp [hlv, levelsFor]
    by_cases hb : (a.blocksize.getD 512 % 16 != 0) = true <;>
    cases hr : resamplingS2rio (a.resampling.getD "nearest") <;>
    (cases hd : a.dst with
      | mem =>
        simp only [hlev, hb, hr, hd]
        simp (config := { contextual := true }) [Ev.isBuild, or_imp, forall_and] <;> (try exact fun e he => hw _ e he)
      | path p ex =>
        cases ex <;> cases ho : a.overwrite <;> simp only [hlev, hb, hr, hd, ho] <;>
        simp (config := { contextual := true }) [Ev.isBuild, or_imp, forall_and] <;> (try exact fun e he => hw _ e he))

/-- every first-pass image of the supplied-overviews path is written with `overview_levels=[]` -/
theorem layerLoop_never_builds (cfg : Dict) : ∀ (ls : List (Layer × String)), ∀ ev ∈ (layerLoop cfg ls).1, ev.isBuild = false := by
  intro ls
  induction ls with
  | nil => simp [layerLoop]
  | cons p rest ih =>
    obtain ⟨ly, name⟩ := p
    have h1 := levels_empty_never_builds 0 (layerArgs cfg ly name) rfl
    unfold layerLoop
    cases hw : writeCogFrom 0 (layerArgs cfg ly name) with
    | mk evs r =>
      rw [hw] at h1
      cases r with
      | error e => simpa using h1
      | ok _ =>
        simp only
        intro ev hev
        rcases List.mem_append.mp hev with h | h
        · exact h1 ev h
        · exact ih ev h

/-- `supplied_overviews_never_build`: when `overviews=` is supplied — ANY list, in particular the EMPTY one (`[]`, `()`, an
exhausted iterator) — `write_cog` / `to_cog` never ask GDAL to compute overviews, whatever the image size and whatever
`overview_levels` / `overview_resampling` say: the file gets exactly the supplied levels -/
theorem supplied_overviews_never_build (a : CArgs) (ovs : List Layer) (h : a.overviews = some ovs) :
    ∀ ev ∈ (writeCogEntry a).1, ev.isBuild = false := by
  unfold writeCogEntry writeCogEntryWith
  simp only [h]
  unfold writeCogLayersWith
  simp only
  have fin : ∀ (pre : List Ev) (cfg : Dict) (ls : List (Layer × String)) (post : List Ev) (r1 : Ret),
      (∀ ev ∈ pre, ev.isBuild = false) → (∀ ev ∈ post, ev.isBuild = false) →
      ∀ ev ∈ (match layerLoop cfg ls with
        | (evs, .error e) => (pre ++ evs, (Except.error e : Except GErr Ret))
        | (evs, .ok _) => (pre ++ evs ++ post, .ok r1)).1, ev.isBuild = false := by
    intro pre cfg ls post r1 hpre hpost ev hev
    have hloop := layerLoop_never_builds cfg ls
    cases hl : layerLoop cfg ls with
    | mk evs r =>
      rw [hl] at hloop hev
      cases r with
      | error e =>
        simp only [List.mem_append] at hev
        rcases hev with h' | h'
        · exact hpre ev h'
        · exact hloop ev h'
      | ok _ =>
        simp only [List.mem_append] at hev
        rcases hev with (h' | h') | h'
        · exact hpre ev h'
        · exact hloop ev h'
        · exact hpost ev h'
  have hpost : ∀ (env : Dict) (s d : Loc) (o : Dict), ∀ ev ∈ [Ev.envEnter env, Ev.copy s d o, Ev.envExit], ev.isBuild = false := by
    intro env s d o ev hev
    simp only [List.mem_cons, List.not_mem_nil, or_false] at hev
    rcases hev with rfl | rfl | rfl <;> rfl
  cases hg : a.im.g with
  | none =>
    cases hd : a.dst with
    | mem => simp [hd, hg]
    | path p ex => cases ex <;> cases ho : a.overwrite <;> simp [hd, hg, ho, Ev.isBuild]
  | some g =>
    cases hd : a.dst with
    | mem =>
      simp only [hd, hg, Bool.false_eq_true, if_false]
      exact fin [] _ _ _ _ (by simp) (hpost _ _ _ _)
    | path p ex =>
      cases ex <;> cases ho : a.overwrite <;> simp only [hd, hg, ho, Bool.false_eq_true, if_false, if_true]
      · exact fin [] _ _ _ _ (by simp) (hpost _ _ _ _)
      · exact fin [] _ _ _ _ (by simp) (hpost _ _ _ _)
      · simp
      · exact fin [Ev.unlink p] _ _ _ _ (by simp [Ev.isBuild]) (hpost _ _ _ _)

/-- the corner the round-7 change broke: `overviews=[]` on an image of ANY size -/
theorem empty_supplied_overviews_never_build (a : CArgs) (h : a.overviews = some []) :
    ∀ ev ∈ (writeCogEntry a).1, ev.isBuild = false := supplied_overviews_never_build a [] h

/-- `overview_levels=[]` on the direct path: no overviews are computed, whatever the image size -/
theorem direct_levels_empty_never_build (a : CArgs) (ho : a.overviews = none) (hl : a.levels = some []) :
    ∀ ev ∈ (writeCogEntry a).1, ev.isBuild = false := by
  unfold writeCogEntry writeCogEntryWith
  simp only [ho]
  cases hg : a.im.g with
  | none => simp
  | some g =>
    simp only
    exact levels_empty_never_builds 0 _ (by simpa using hl)

/-- non-vacuity: a 600 × 513 image (past the threshold) with `overviews=[]` is written without a `build_overviews` call, while the
same call without `overviews=` asks for the default pyramid (`write_cog_default_overviews`) -/
def bigEmptyOverviewsCall : CArgs := {
  im := { shape := [600, 513], g := some ⟨600, 513⟩, dtype := "uint8", isFloat := false },
  dst := .mem, overviews := some [] }

example : ∀ ev ∈ (toCog bigEmptyOverviewsCall).1, ev.isBuild = false :=
  empty_supplied_overviews_never_build _ rfl

/-! ## `nodata=0` / `nodata=0.0` is a value -/

/-- `nodata_keyword_forwarded_as_given`: on the direct path every `nodata=` keyword other than `None` — in particular the falsy
`0` and `0.0` — reaches GDAL as given; the array's attribute is not consulted -/
theorem nodata_keyword_forwarded_as_given (l : Layout) (dtype : String) (fl : Bool) (b : Nat) (attrs kw : V) (extra : Dict)
    (hk : extra.getNone "nodata" = kw) (hne : kw ≠ .none) :
    Dict.get (rioOpts l dtype fl b (if extra.getNone "nodata" = .none then attrs else extra.getNone "nodata") (extra.without ["nodata"])) "nodata" = some kw := by
  have := entry_nodata_direct l dtype fl b attrs extra
  simp only [hk, hne, if_false] at this ⊢
  exact this

/-- the same on the supplied-overviews path -/
theorem nodata_keyword_forwarded_as_given_layers (b w h : Nat) (fl : Bool) (attrs kw : V) (extra : Dict)
    (hu : extra.lastGet "nodata" = Dict.get extra "nodata") (hk : extra.getNone "nodata" = kw) (hne : kw ≠ .none) :
    Dict.get ((defaultCogOpts b w h fl [("nodata", attrs)]).update (layersExtra true extra)) "nodata" = some kw := by
  rw [layers_nodata_resolution b w h fl attrs extra hu, hk, if_neg hne]

example : Dict.get ((defaultCogOpts 512 64 64 false [("nodata", .int 255)]).update (layersExtra true [("nodata", .int 0)])) "nodata" = some (.int 0) :=
  nodata_keyword_forwarded_as_given_layers 512 64 64 false (.int 255) (.int 0) [("nodata", .int 0)] rfl rfl (by decide)

example : Dict.get ((defaultCogOpts 512 64 64 true [("nodata", .int 255)]).update (layersExtra true [("nodata", .ext "f0.0")])) "nodata" =
    some (.ext "f0.0") :=
  nodata_keyword_forwarded_as_given_layers 512 64 64 true (.int 255) (.ext "f0.0") [("nodata", .ext "f0.0")] rfl rfl (by decide)

end OdcGeo.C15
