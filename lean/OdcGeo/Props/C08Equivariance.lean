/-
C08 — shift-equivariance of the resolution-driven `GeoBox.from_bbox`: translating the region by whole pixels translates
the resulting geobox by the same pixels and keeps its shape and pixel size (any anchor, tight or not, both signs of either
resolution component).
-/
import OdcGeo.Props.C08
import OdcGeo.Props.C20Equivariance

namespace OdcGeo.C08
open OdcGeo.C20 (snapGrid)

/-- the geobox moved by `(dx, dy)` in world units -/
def GeoBox.shifted (g : GeoBox) (dx dy : Rat) : GeoBox :=
  ⟨g.ny, g.nx, ⟨g.affine.a, g.affine.b, g.affine.c + dx, g.affine.d, g.affine.e, g.affine.f + dy⟩⟩

/-- **`from_bbox` is equivariant under whole-pixel translations of the region.** -/
theorem from_bbox_res_shift (bb : BBox) (tight : Bool) {shape : ShapeArg} {res : ResArg} (anchor : AnchorArg)
    (tol rx ry : Rat) (jx jy : Int) (hs : ∀ n, shape ≠ .int n) (hres : res.xy? = some (rx, ry)) (ht : tol ≤ 1 / 2) :
    fromBbox ⟨bb.left + jx * |rx|, bb.bottom + jy * |ry|, bb.right + jx * |rx|, bb.top + jy * |ry|⟩ tight shape res
        anchor tol =
      (fromBbox bb tight shape res anchor tol).map fun g => g.shifted (jx * |rx|) (jy * |ry|) := by
  rw [fromBbox_res_eq hs hres, fromBbox_res_eq hs hres]
  simp only
  rw [C20.snap_grid_shift bb.left bb.right rx tol _ jx ht, C20.snap_grid_shift bb.bottom bb.top ry tol _ jy ht]
  cases snapGrid bb.left bb.right rx ((snapOf tight (normAnchor anchor)).map (·.1)) tol with
  | error e => rfl
  | ok p =>
    cases snapGrid bb.bottom bb.top ry ((snapOf tight (normAnchor anchor)).map (·.2)) tol with
    | error e => rfl
    | ok q =>
      simp only [Except.map, bind, Except.bind, pure, Except.pure, GeoBox.shifted, ts_eq]

/-- Consequently shape and pixel size do not depend on where (in whole pixels) the region sits. -/
theorem from_bbox_res_shift_shape (bb : BBox) (tight : Bool) {shape : ShapeArg} {res : ResArg} (anchor : AnchorArg)
    (tol rx ry : Rat) (jx jy : Int) (hs : ∀ n, shape ≠ .int n) (hres : res.xy? = some (rx, ry)) (ht : tol ≤ 1 / 2)
    {g : GeoBox} (h : fromBbox bb tight shape res anchor tol = .ok g) :
    ∃ g', fromBbox ⟨bb.left + jx * |rx|, bb.bottom + jy * |ry|, bb.right + jx * |rx|, bb.top + jy * |ry|⟩ tight shape
        res anchor tol = .ok g' ∧ g'.ny = g.ny ∧ g'.nx = g.nx ∧ g'.affine.a = g.affine.a ∧ g'.affine.e = g.affine.e ∧
      g'.affine.c = g.affine.c + jx * |rx| ∧ g'.affine.f = g.affine.f + jy * |ry| := by
  refine ⟨g.shifted (jx * |rx|) (jy * |ry|), ?_, rfl, rfl, rfl, rfl, rfl, rfl⟩
  rw [from_bbox_res_shift bb tight anchor tol rx ry jx jy hs hres ht, h]; rfl

/-! ## non-vacuity -/

example : fromBbox ⟨0, 0, 10, 7⟩ false .none (.scalar 3) (.name .default) (1 / 100) = .ok ⟨3, 4, ⟨3, 0, 0, 0, -3, 9⟩⟩ ∧
    fromBbox ⟨0 + 2 * 3, 0 + (-5) * 3, 10 + 2 * 3, 7 + (-5) * 3⟩ false .none (.scalar 3) (.name .default) (1 / 100) =
      .ok ⟨3, 4, ⟨3, 0, 6, 0, -3, -6⟩⟩ := by decide +kernel

end OdcGeo.C08
