/-
C12 ∘ C13 on the general path: chunked reprojection equals whole-array reprojection for two rasters
of ONE CRS related by ANY invertible affine map (rotated, sheared, mirrored grids – the path on which
`_check_linear` answers `None`), with the dependency table that the model of the public
`grid_intersect` computes (`Model/C12Gi.gridIntersectSameCrs`).

`Props/C13P` proves chunked == whole for an arbitrary transformer under `deps_complete_P`, and
reduces that to the named hypothesis `FootprintsSuperset` about shapely / pyproj footprints.  Here
the transformer is the identity (same CRS) and `FootprintsSuperset` is *discharged*: the footprints
are the rings of `polygon_from_transform`, the predicate is `Spec.Convex.disjoint`, and
`grid_intersect_same_crs_general_complete` does the rest.  No hypothesis about dependencies is left
– neither completeness nor validity.
-/
import OdcGeo.Props.C12Gi
import OdcGeo.Props.C13P
import Mathlib.Tactic.Linarith
import Mathlib.Tactic.Ring
import Mathlib.Tactic.FieldSimp
import Mathlib.Tactic.Positivity
import Mathlib.Tactic.LinearCombination
import Mathlib.Algebra.Order.Field.Rat
import Mathlib.Algebra.Order.AbsoluteValue.Basic
namespace OdcGeo.C12
open OdcGeo OdcGeo.C17 OdcGeo.C04 OdcGeo.C13

/-- the linear part of `A * ~A = id`, componentwise -/
theorem mul_inv_linear (A : Aff) (hA : A.det ≠ 0) :
    A.a * A.inv.a + A.b * A.inv.d = 1 ∧ A.a * A.inv.b + A.b * A.inv.e = 0 ∧
    A.d * A.inv.a + A.e * A.inv.d = 0 ∧ A.d * A.inv.b + A.e * A.inv.e = 1 := by
  have hI := Aff.mul_inv_self A hA
  generalize A.inv = B at hI
  rw [Aff.mul_def] at hI
  simp only [Aff.mul, Aff.id, Aff.mk.injEq] at hI
  exact ⟨hI.1, hI.2.1, hI.2.2.2.1, hI.2.2.2.2.1⟩

/-- the algebra of `strict_point_2d` on plain rationals: `(a b; d e)` with inverse `(ia ib; id ie)` -/
theorem strict_point_core (a b c d e f ia ib id_ ie ux uy jx jy : Rat)
    (h1 : a * ia + b * id_ = 1) (h2 : a * ib + b * ie = 0) (h3 : d * ia + e * id_ = 0) (h4 : d * ib + e * ie = 1)
    (hx : jx ≤ a * ux + b * uy + c ∧ a * ux + b * uy + c < jx + 1)
    (hy : jy ≤ d * ux + e * uy + f ∧ d * ux + e * uy + f < jy + 1) :
    ∃ qx qy, (ux - 1 / 2 < qx ∧ qx < ux + 1 / 2) ∧ (uy - 1 / 2 < qy ∧ qy < uy + 1 / 2) ∧
      (jx < a * qx + b * qy + c ∧ a * qx + b * qy + c < jx + 1) ∧
      (jy < d * qx + e * qy + f ∧ d * qx + e * qy + f < jy + 1) := by
  obtain ⟨px, hpx⟩ : ∃ px, px = a * ux + b * uy + c := ⟨_, rfl⟩
  obtain ⟨py, hpy⟩ : ∃ py, py = d * ux + e * uy + f := ⟨_, rfl⟩
  rw [← hpx] at hx
  rw [← hpy] at hy
  obtain ⟨wx, hwx⟩ : ∃ wx, wx = jx + 1 / 2 - px := ⟨_, rfl⟩
  obtain ⟨wy, hwy⟩ : ∃ wy, wy = jy + 1 / 2 - py := ⟨_, rfl⟩
  obtain ⟨vx, hvx⟩ : ∃ vx, vx = ia * wx + ib * wy := ⟨_, rfl⟩
  obtain ⟨vy, hvy⟩ : ∃ vy, vy = id_ * wx + ie * wy := ⟨_, rfl⟩
  obtain ⟨s, hs⟩ : ∃ s, s = |vx| + |vy| := ⟨_, rfl⟩
  have hs0 : 0 ≤ s := by rw [hs]; positivity
  have hden : (0 : Rat) < 2 * s + 2 := by linarith
  obtain ⟨ε, hε⟩ : ∃ ε, ε = 1 / (2 * s + 2) := ⟨_, rfl⟩
  have hε0 : 0 < ε := by rw [hε]; exact one_div_pos.2 hden
  have hε1 : ε * (2 * s + 2) = 1 := by rw [hε]; field_simp
  have hεs : ε * s = 1 / 2 - ε := by linarith
  have bx1 : -s ≤ vx := by have := neg_abs_le vx; have := abs_nonneg vy; linarith
  have bx2 : vx ≤ s := by have := le_abs_self vx; have := abs_nonneg vy; linarith
  have by1 : -s ≤ vy := by have := neg_abs_le vy; have := abs_nonneg vx; linarith
  have by2 : vy ≤ s := by have := le_abs_self vy; have := abs_nonneg vx; linarith
  have ex1 : ε * vx ≤ ε * s := mul_le_mul_of_nonneg_left bx2 hε0.le
  have ex2 : ε * (-s) ≤ ε * vx := mul_le_mul_of_nonneg_left bx1 hε0.le
  have ey1 : ε * vy ≤ ε * s := mul_le_mul_of_nonneg_left by2 hε0.le
  have ey2 : ε * (-s) ≤ ε * vy := mul_le_mul_of_nonneg_left by1 hε0.le
  have lx : a * vx + b * vy = wx := by
    rw [hvx, hvy]; linear_combination wx * h1 + wy * h2
  have ly : d * vx + e * vy = wy := by
    rw [hvx, hvy]; linear_combination wx * h3 + wy * h4
  have imx : a * (ux + ε * vx) + b * (uy + ε * vy) + c = px + ε * wx := by
    rw [hpx]; linear_combination ε * lx
  have imy : d * (ux + ε * vx) + e * (uy + ε * vy) + f = py + ε * wy := by
    rw [hpy]; linear_combination ε * ly
  have hεh : ε ≤ 1 / 2 := by
    have : 0 ≤ ε * s := mul_nonneg hε0.le hs0
    linarith
  -- towards the centre of the source pixel by the fraction ε
  have tx1 : ε * (px - jx) ≤ 1 / 2 * (px - jx) := mul_le_mul_of_nonneg_right hεh (by linarith [hx.1])
  have tx2 : ε * (jx + 1 - px) ≤ 1 / 2 * (jx + 1 - px) := mul_le_mul_of_nonneg_right hεh (by linarith [hx.2])
  have ty1 : ε * (py - jy) ≤ 1 / 2 * (py - jy) := mul_le_mul_of_nonneg_right hεh (by linarith [hy.1])
  have ty2 : ε * (jy + 1 - py) ≤ 1 / 2 * (jy + 1 - py) := mul_le_mul_of_nonneg_right hεh (by linarith [hy.2])
  refine ⟨ux + ε * vx, uy + ε * vy, ⟨by linarith, by linarith⟩, ⟨by linarith, by linarith⟩, ?_, ?_⟩
  · rw [imx, hwx]
    have e1 : ε * (jx + 1 / 2 - px) = ε / 2 - ε * (px - jx) := by ring
    have e2 : ε * (jx + 1 / 2 - px) = ε * (jx + 1 - px) - ε / 2 := by ring
    constructor
    · rw [e1]; linarith [hx.1]
    · rw [e2]; linarith [hx.2]
  · rw [imy, hwy]
    have e1 : ε * (jy + 1 / 2 - py) = ε / 2 - ε * (py - jy) := by ring
    have e2 : ε * (jy + 1 / 2 - py) = ε * (jy + 1 - py) - ε / 2 := by ring
    constructor
    · rw [e1]; linarith [hy.1]
    · rw [e2]; linarith [hy.2]

/-- **a point strictly inside, in two dimensions.**  If the image `A·u` of a pixel centre `u` lies in
the half-open source pixel `[jx, jx+1) × [jy, jy+1)` (`A` invertible: any rotation / shear), then
some point strictly within half a pixel of `u` has its image strictly inside that source pixel.
(Move the image a fraction `ε` towards the centre of the source pixel; the pre-image moves by
`ε · A⁻¹w`, which is shorter than half a pixel for `ε = 1 / (2(|v₁| + |v₂|) + 2)`.) -/
theorem strict_point_2d (A : Aff) (hA : A.det ≠ 0) (ux uy : Rat) (jx jy : Int)
    (hx : (jx : Rat) ≤ (A.apply (ux, uy)).1 ∧ (A.apply (ux, uy)).1 < jx + 1)
    (hy : (jy : Rat) ≤ (A.apply (ux, uy)).2 ∧ (A.apply (ux, uy)).2 < jy + 1) :
    ∃ qx qy, (ux - 1 / 2 < qx ∧ qx < ux + 1 / 2) ∧ (uy - 1 / 2 < qy ∧ qy < uy + 1 / 2) ∧
      ((jx : Rat) < (A.apply (qx, qy)).1 ∧ (A.apply (qx, qy)).1 < jx + 1) ∧
      ((jy : Rat) < (A.apply (qx, qy)).2 ∧ (A.apply (qx, qy)).2 < jy + 1) := by
  obtain ⟨h1, h2, h3, h4⟩ := mul_inv_linear A hA
  exact strict_point_core A.a A.b A.c A.d A.e A.f A.inv.a A.inv.b A.inv.d A.inv.e ux uy jx jy h1 h2 h3 h4 hx hy

/-- entries of a table `ts.map (d ↦ (d, f d))` read through C13's `lookupDeps` come from some `f d` -/
theorem lookup_depsOfC12_map_mem (f : Int × Int → List (Int × Int)) (idx : TIdx) :
    ∀ (ts : List (Int × Int)) (i : TIdx), i ∈ lookupDeps (depsOfC12 (ts.map fun d => (d, f d))) idx →
      ∃ d ∈ ts, ∃ s ∈ f d, i = idxToNat s
  | [], i, h => by simp [depsOfC12, lookupDeps] at h
  | t :: r, i, h => by
    by_cases ht : idx == idxToNat t
    · have : lookupDeps (depsOfC12 ((t :: r).map fun d => (d, f d))) idx = (f t).map idxToNat := by
        simp only [depsOfC12, lookupDeps, List.map_cons, List.lookup, ht]
      rw [this] at h
      obtain ⟨s, hs, rfl⟩ := List.mem_map.1 h
      exact ⟨t, List.mem_cons_self, s, hs, rfl⟩
    · have hf : (idx == idxToNat t) = false := by simpa using ht
      have : lookupDeps (depsOfC12 ((t :: r).map fun d => (d, f d))) idx =
          lookupDeps (depsOfC12 (r.map fun d => (d, f d))) idx := by
        simp only [depsOfC12, lookupDeps, List.map_cons, List.lookup, hf]
      rw [this] at h
      obtain ⟨d, hd, s, hs, e⟩ := lookup_depsOfC12_map_mem f idx r i h
      exact ⟨d, List.mem_cons_of_mem _ hd, s, hs, e⟩

/-- the two models describe the same pair of rasters: tilings and image sizes (C13 `GridRel`) and the
pixel-to-world affines -/
structure GridRelW (c : Cfg) (dst src : TGB) : Prop where
  rel : GridRel c dst.g src.g
  D : dst.W = c.D
  S : src.W = c.S

/-- **`FootprintsSuperset` discharged for one CRS.**  For two rasters of the same CRS (transformer
= identity) related by any invertible affine, the dependency table computed by the model of
`grid_intersect`'s general path is complete in C13's sense: whenever a pixel of destination tile
`(iy, ix)` samples a source pixel, the source tile holding that pixel is listed for `(iy, ix)`.
(The pixel centre may map onto a source pixel edge; `strict_point_2d` supplies a point of the same
destination pixel whose image is strictly inside the sampled source pixel.) -/
theorem deps_complete_P_same_crs_general (c : Cfg) (dst src : TGB) (hrel : GridRelW c dst src)
    (hd : dst.WF) (hs : src.WF) (hsy : Chain 0 c.sy c.srcH) (hsx : Chain 0 c.sx c.srcW)
    (L : List ((Int × Int) × List (Int × Int))) (hL : gridIntersectSameCrs dst src = .ok L)
    (hdeps : c.deps = depsOfC12 L) : deps_complete_P c id := by
  have hLe := grid_intersect_same_crs_eq dst src hd hs
  rw [hL] at hLe
  cases hLe
  have hDdet : c.D.det ≠ 0 := by rw [← hrel.D]; exact hd.det
  have hSdet : c.S.det ≠ 0 := by rw [← hrel.S]; exact hs.det
  have hAdet : (c.S.inv * c.D).det ≠ 0 := by
    rw [Aff.det_mul]
    have h1 : (c.S.inv * c.S).det = 1 := by rw [Aff.inv_mul_self c.S hSdet]; simp [Aff.det, Aff.id]
    rw [Aff.det_mul] at h1
    intro h0
    rcases mul_eq_zero.1 h0 with h | h
    · rw [h] at h1; simp at h1
    · exact hDdet h
  rintro iy ix ⟨dy, dx⟩ ⟨ty, hty, t1, t2⟩ ⟨tx, htx, t3, t4⟩ s hs'
  simp only at t1 t2 t3 t4
  rw [pixMapP_id, samplePixM_apply] at hs'
  unfold samplePix at hs'
  simp only at hs'
  generalize hp : (c.S.inv * c.D).apply ((dx : Rat) + 1 / 2, (dy : Rat) + 1 / 2) = p at hs'
  split at hs'
  swap
  · cases hs'
  next hin =>
  obtain ⟨p1, p2, p3, p4⟩ := hin
  simp only [Option.some.injEq] at hs'
  subst hs'
  have jy0 : 0 ≤ p.2.floor := Rat.le_floor_iff.2 (by exact_mod_cast p3)
  have jy1 : p.2.floor < c.srcH := Rat.floor_lt_iff.2 p4
  have jx0 : 0 ≤ p.1.floor := Rat.le_floor_iff.2 (by exact_mod_cast p1)
  have jx1 : p.1.floor < c.srcW := Rat.floor_lt_iff.2 p2
  have fy1 := Rat.floor_le p.2
  have fy2 := Rat.lt_floor_add_one p.2
  have fx1 := Rat.floor_le p.1
  have fx2 := Rat.lt_floor_add_one p.1
  push_cast at fy2 fx2
  -- the source tile holding the sampled pixel
  obtain ⟨i, hi⟩ := Chain.locate_some hsy jy0 jy1
  obtain ⟨j, hj⟩ := Chain.locate_some hsx jx0 jx1
  obtain ⟨sp, hsp, a1, a2⟩ := locate_spec hi
  obtain ⟨sq, hsq, a3, a4⟩ := locate_spec hj
  have hlt : ∀ {l : List Span} {k : Nat} {v : Span}, l[k]? = some v → k < l.length := by
    intro l k v h
    rcases Nat.lt_or_ge k l.length with h' | h'
    · exact h'
    · rw [List.getElem?_eq_none h'] at h; cases h
  -- a point of the destination pixel whose image is strictly inside the sampled source pixel
  obtain ⟨qx, qy, ⟨q1, q2⟩, ⟨q3, q4⟩, hqx, hqy⟩ := strict_point_2d (c.S.inv * c.D) hAdet ((dx : Rat) + 1 / 2)
    ((dy : Rat) + 1 / 2) p.1.floor p.2.floor (by rw [hp]; exact ⟨fx1, fx2⟩) (by rw [hp]; exact ⟨fy1, fy2⟩)
  -- destination tile sees P
  have vd : ValidTile dst.g ((iy : Int), (ix : Int)) :=
    ⟨⟨by simp, by simp only [hrel.rel.dy.count]; exact_mod_cast hlt hty⟩,
     ⟨by simp, by simp only [hrel.rel.dx.count]; exact_mod_cast hlt htx⟩⟩
  have gdy := hrel.rel.dy.get iy ty hty
  have gdx := hrel.rel.dx.get ix tx htx
  obtain ⟨wy0, _, wy2⟩ := Tiling.getItem_within dst.g.tiles.y hd.g.y (iy : Int) vd.1 _ gdy
  obtain ⟨wx0, _, wx2⟩ := Tiling.getItem_within dst.g.tiles.x hd.g.x (ix : Int) vd.2 _ gdx
  simp only at wy0 wy2 wx0 wx2
  rw [hd.g.by_] at wy2
  rw [hd.g.bx] at wx2
  have h1 : TileSees dst ((iy : Int), (ix : Int)) (c.D.apply (qx, qy)) := by
    refine ⟨vd, ⟨ty.1, ty.2⟩, ⟨tx.1, tx.2⟩, dy, dx, gdy, gdx, ⟨t1, t2⟩, ⟨t3, t4⟩, ⟨by omega, by omega⟩,
      ⟨by omega, by omega⟩, ?_, ?_⟩
    · rw [hrel.D, Aff.inv_apply_apply c.D hDdet]; exact ⟨by simp only; linarith, by simp only; linarith⟩
    · rw [hrel.D, Aff.inv_apply_apply c.D hDdet]; exact ⟨by simp only; linarith, by simp only; linarith⟩
  -- source tile sees P
  have vs : ValidTile src.g ((i : Int), (j : Int)) :=
    ⟨⟨by simp, by simp only [hrel.rel.sy.count]; exact_mod_cast hlt hsp⟩,
     ⟨by simp, by simp only [hrel.rel.sx.count]; exact_mod_cast hlt hsq⟩⟩
  have h2 : TileSees src ((i : Int), (j : Int)) (c.D.apply (qx, qy)) := by
    refine ⟨vs, ⟨sp.1, sp.2⟩, ⟨sq.1, sq.2⟩, p.2.floor, p.1.floor, hrel.rel.sy.get i sp hsp, hrel.rel.sx.get j sq hsq,
      ⟨a1, a2⟩, ⟨a3, a4⟩, ⟨jy0, by rw [hrel.rel.ny]; exact jy1⟩, ⟨jx0, by rw [hrel.rel.nx]; exact jx1⟩, ?_, ?_⟩
    · rw [hrel.S, ← Aff.apply_mul]; exact hqx
    · rw [hrel.S, ← Aff.apply_mul]; exact hqy
  have m1 := tiles_quad_complete dst hd src.extent _ (extent_contains src hs _ _ h2) _ h1
  have m2 := tiles_quad_complete src hs (extOf dst ((iy : Int), (ix : Int))) _ (extOf_contains dst hd _ _ h1) _ h2
  refine ⟨(i, j), ?_, ⟨sp, hsp, a1, a2⟩, ⟨sq, hsq, a3, a4⟩⟩
  rw [hdeps]
  rw [lookup_depsOfC12_map (fun idx => tilesQuadL src (extOf dst idx)) iy ix _
    (fun t ht => by have := (tiles_quad_ok dst hd src.extent).2 t ht; exact ⟨this.1.1, this.2.1⟩) m1]
  exact List.mem_map.2 ⟨((i : Int), (j : Int)), m2, by simp [idxToNat]⟩

/-- every dependency the general path lists names an existing source block (C13 `DepsValid`) -/
theorem deps_valid_same_crs_general (c : Cfg) (dst src : TGB) (hrel : GridRelW c dst src)
    (hd : dst.WF) (hs : src.WF)
    (L : List ((Int × Int) × List (Int × Int))) (hL : gridIntersectSameCrs dst src = .ok L)
    (hdeps : c.deps = depsOfC12 L) : DepsValid c := by
  have hLe := grid_intersect_same_crs_eq dst src hd hs
  rw [hL] at hLe
  cases hLe
  intro idx i hi
  rw [hdeps] at hi
  obtain ⟨d, _, s, hs', rfl⟩ := lookup_depsOfC12_map_mem _ idx _ i hi
  have v := (tiles_quad_ok src hs (extOf dst d)).2 s hs'
  simp only [idxToNat]
  have c1 := hrel.rel.sy.count
  have c2 := hrel.rel.sx.count
  obtain ⟨⟨v1, v2⟩, v3, v4⟩ := v
  constructor <;> omega

/-- **Chunked reprojection equals whole-array reprojection on rotated / sheared / mirrored grids of
one CRS, end to end** (nearest neighbour): for every source and destination chunking, every nodata
pair, every dtype kind and every content of the uninitialised buffer, each pixel of the dask
result – built from the dependency table that the model of the *public* `grid_intersect` computes
for the two tiled rasters – equals the pixel of the in-memory result.  No hypothesis about
dependencies, footprints or shapely is left (compare `C13.chunked_eq_whole_cross_general` and its
`FootprintsSuperset`). -/
theorem chunked_eq_whole_same_crs_general (c : Cfg) (G : Gdal) (srcImg buf : Img) (dst src : TGB)
    (hrel : GridRelW c dst src) (hd : dst.WF) (hs : src.WF)
    (L : List ((Int × Int) × List (Int × Int))) (hL : gridIntersectSameCrs dst src = .ok L)
    (hdeps : c.deps = depsOfC12 L)
    (hV : c.variant = Variant.repaired)
    (hbuf : WF buf c.dstH c.dstW)
    (hsy : Chain 0 c.sy c.srcH) (hsx : Chain 0 c.sx c.srcW)
    (hdy : Chain 0 c.dy c.dstH) (hdx : Chain 0 c.dx c.dstW)
    (hnd : c.dstNd = none → c.srcNd = none)
    (hnd1 : NodataOk c.kind c.dstNd) (hnd2 : NodataOk c.kind c.srcNd)
    (d : Int × Int) (hdd : 0 ≤ d.1 ∧ d.1 < c.dstH ∧ 0 ≤ d.2 ∧ d.2 < c.dstW) :
    daskResultP c id G srcImg d = wholeResult c G srcImg buf d := by
  rw [← wholeResultP_id]
  exact chunked_eq_whole_cross c id G srcImg buf hV hbuf hsy hsx hdy hdx (by rw [← hrel.S]; exact hs.det)
    (deps_valid_same_crs_general c dst src hrel hd hs L hL hdeps)
    (deps_complete_P_same_crs_general c dst src hrel hd hs hsy hsx L hL hdeps) hnd hnd1 hnd2 d hdd

/-! ## the hypotheses are satisfiable: a 2×2 raster and the same raster rotated by 90° -/

def srcT : TGB := ⟨some 1, true, Aff.id, ⟨2, 2, ⟨.var [2], .var [2]⟩⟩⟩
def dstT : TGB := ⟨some 1, true, ⟨0, -1, 2, 1, 0, 0⟩, ⟨2, 2, ⟨.var [2], .var [2]⟩⟩⟩
def rotCfg : Cfg :=
  { variant := Variant.repaired, kind := .float, srcH := 2, srcW := 2, S := Aff.id, dstH := 2, dstW := 2,
    D := ⟨0, -1, 2, 1, 0, 0⟩, sy := [(0, 2)], sx := [(0, 2)], dy := [(0, 2)], dx := [(0, 2)],
    deps := [((0, 0), [(0, 0)])], srcNd := none, dstNd := none }

theorem tilingRel_one : TilingRel (.var [2]) [(0, 2)] := by
  refine ⟨by decide, ?_⟩
  intro i s h
  cases i with
  | zero => simp at h; subst h; decide
  | succ k => simp at h

example : GridRelW rotCfg dstT srcT :=
  ⟨⟨tilingRel_one, tilingRel_one, tilingRel_one, tilingRel_one, rfl, rfl⟩, rfl, rfl⟩
example : srcT.WF := ⟨⟨⟨by decide, by decide⟩, ⟨by decide, by decide⟩, by decide, by decide, by decide, by decide⟩,
  by decide +kernel⟩
example : dstT.WF := ⟨⟨⟨by decide, by decide⟩, ⟨by decide, by decide⟩, by decide, by decide, by decide, by decide⟩,
  by decide +kernel⟩
example : ∃ L, gridIntersectSameCrs dstT srcT = .ok L ∧ rotCfg.deps = depsOfC12 L :=
  ⟨[((0, 0), [(0, 0)])], by decide +kernel, by decide⟩
example : ∃ qx qy : Rat, (1 / 2 - 1 / 2 < qx ∧ qx < 1 / 2 + 1 / 2) ∧ (1 / 2 - 1 / 2 < qy ∧ qy < 1 / 2 + 1 / 2) ∧
    (((1 : Int) : Rat) < (dstT.W.apply (qx, qy)).1 ∧ (dstT.W.apply (qx, qy)).1 < (1 : Int) + 1) ∧
    (((0 : Int) : Rat) < (dstT.W.apply (qx, qy)).2 ∧ (dstT.W.apply (qx, qy)).2 < (0 : Int) + 1) :=
  strict_point_2d dstT.W (by decide +kernel) (1 / 2) (1 / 2) 1 0 (by decide +kernel) (by decide +kernel)

end OdcGeo.C12
