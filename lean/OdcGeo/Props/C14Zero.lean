/-
C14 — signed zeros in `Bin1D` and the valid-region pipeline of `geojson()` (`Model/C14Zero.lean`).
-/
import OdcGeo.Model.C14Zero
import OdcGeo.Lemmas.C14Args
import OdcGeo.Props.C14

namespace OdcGeo.C14

/-- the sign of a zero never changes a VALUE or an INDEX: bin edges and point lookup with signed zeros are those of the model
    without them (so `-0.0` as origin or as point coordinate is the same grid and the same tile) -/
theorem signed_zeros_change_no_value (b : Bin1D) (oz : Bool) (k x : SZ) :
    (b.loZ oz k).v = k.v * b.sz * (b.dir : Rat) + b.origin ∧
    (b.hiZ oz k).v = k.v * b.sz * (b.dir : Rat) + b.origin + b.sz ∧
    b.binZ oz x = b.bin id x.v := by
  refine ⟨rfl, rfl, ?_⟩
  simp [Bin1D.binZ, Bin1D.bin, SZ.sub, SZ.add, SZ.neg, SZ.divPos, sub_eq_add_neg]

/-- WHEN a tile's lower edge is `-0.0`: exactly for the tile with index (value) zero whose product `idx·sz·direction` is a negative
    zero — index `-0.0` with direction `+1`, or index `0` / `+0.0` with direction `-1` — on a grid whose origin is `-0.0`. -/
theorem signed_zero_lower_edge (b : Bin1D) (hs : 0 < b.sz) (hd : b.dir = 1 ∨ b.dir = -1) (oz : Bool) (k : SZ) :
    (b.loZ oz k).negz = true ↔
      k.v = 0 ∧ b.origin = 0 ∧ oz = true ∧ (k.negz != decide (b.dir = -1)) = true := by
  obtain ⟨sz, o, d⟩ := b
  obtain ⟨kv, kn⟩ := k
  simp only at hs hd
  have hsz : sz ≠ 0 := hs.ne'
  have hnz : ¬ sz < 0 := not_lt.mpr hs.le
  by_cases hk : kv = 0
  · subst hk
    rcases hd with rfl | rfl <;> by_cases ho : o = 0 <;> cases oz <;> cases kn <;>
      simp [Bin1D.loZ, SZ.mul, SZ.add, SZ.ofRat, SZ.sgn, hsz, hnz, ho]
  · have hd' : (d : Rat) ≠ 0 := by rcases hd with rfl | rfl <;> norm_num
    have hp : kv * sz * (d : Rat) ≠ 0 := mul_ne_zero (mul_ne_zero hk hsz) hd'
    simp [Bin1D.loZ, SZ.mul, SZ.add, SZ.ofRat, hk, hp, mul_ne_zero hk hsz]

/-- the upper edge `_x + sz` is never a negative zero -/
theorem signed_zero_upper_edge (b : Bin1D) (hs : 0 < b.sz) (oz : Bool) (k : SZ) : (b.hiZ oz k).negz = false := by
  have hsz : b.sz ≠ 0 := hs.ne'
  simp [Bin1D.hiZ, SZ.add, SZ.ofRat, hsz]

/-- `geojson()` without arguments, with pyproj (`proj`) and the 0.5-degree segmentation (`densify`) as parameters: it fails with
    `ValueError` exactly when the densified ring is empty; otherwise the document lists the tiles of ONE bounding box `q`, that box
    contains the projection of EVERY vertex of the densified, 0.05-degree-shrunk valid region (whole globe when the CRS has no
    area of use), and the document repeats the grid's tile shape and resolution. -/
theorem geojson_default_structure (fl : Rnd) (tol : Rat) (g : GridSpec) (proj : Rat × Rat → Rat × Rat)
    (densify : List (Rat × Rat) → List (Rat × Rat)) (valid : Option (Rat × Rat × Rat × Rat)) :
    let v := valid.getD (-180, -90, 180, 90)
    let ring := densify (shrunkBox v.1 v.2.1 v.2.2.1 v.2.2.2 (1 / 20))
    (ring = [] → g.geojsonDefault fl tol proj densify valid = .error .valueError) ∧
    (ring ≠ [] → ∃ q, validRegionBox proj densify valid = some q ∧
      g.geojsonDefault fl tol proj densify valid = .ok (g.geojson fl tol none none q) ∧
      (g.geojson fl tol none none q).ids.length = (g.tiles fl tol q).length ∧
      (g.geojson fl tol none none q).shape = (g.ny, g.nx) ∧
      ∀ p ∈ ring, q.left ≤ (proj p).1 ∧ (proj p).1 ≤ q.right ∧ q.bottom ≤ (proj p).2 ∧ (proj p).2 ≤ q.top) := by
  intro v ring
  constructor
  · intro h
    have : validRegionBox proj densify valid = none := by
      show hullBBox (((densify (shrunkBox v.1 v.2.1 v.2.2.1 v.2.2.2 (1 / 20))).map proj).map _) = none
      rw [show densify (shrunkBox v.1 v.2.1 v.2.2.1 v.2.2.2 (1 / 20)) = ring from rfl, h]; rfl
    simp [GridSpec.geojsonDefault, this]
  · intro h
    have hne : ((ring.map proj).map (fun p => (⟨p.1, p.2, p.1, p.2⟩ : BBox))) ≠ [] := by
      simpa using h
    obtain ⟨q, hq⟩ : ∃ q, hullBBox ((ring.map proj).map (fun p => (⟨p.1, p.2, p.1, p.2⟩ : BBox))) = some q := by
      cases hl : (ring.map proj).map (fun p => (⟨p.1, p.2, p.1, p.2⟩ : BBox)) with
      | nil => exact absurd hl hne
      | cons a as => exact ⟨_, rfl⟩
    have hv : validRegionBox proj densify valid = some q := hq
    refine ⟨q, hv, by simp [GridSpec.geojsonDefault, hv], by simp [GridSpec.geojson], rfl, ?_⟩
    intro p hp
    have := hull_contains_parts _ q hq ⟨(proj p).1, (proj p).2, (proj p).1, (proj p).2⟩
      (by simp only [List.mem_map]; exact ⟨proj p, ⟨p, hp, rfl⟩, rfl⟩)
    exact ⟨this.1, this.2.2.1, this.2.1, this.2.2.2⟩

example : (⟨5 / 2, 0, -1⟩ : Bin1D).loZ true (SZ.ofRat 0) = SZ.negZero ∧ (⟨5 / 2, 0, 1⟩ : Bin1D).loZ true (SZ.ofRat 0) = ⟨0, false⟩ := by
  decide +kernel

example : ∃ q, validRegionBox (fun p => (p.1 * 2, p.2 + 1)) id (some (0, 0, 10, 5)) = some q ∧ q.left = 1 / 10 := by
  refine ⟨_, rfl, ?_⟩; decide +kernel

end OdcGeo.C14
