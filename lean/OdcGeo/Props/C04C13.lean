/-
C04 ∘ C13 — the block assembly of `_do_chunked_reproject` in the two models.

`Model/C13.assemble` pastes dask blocks over `Span` lists into an `Img`; `Model/C04.extract` is
`BlockAssembler.extract` over chunk tuples.  For a 2-D layout (no extra axes) the two agree on the
full window: with the representation map `spans ↦ chunk sizes`, `blocks ↦ block table`, every pixel of
C13's assembled image is the cell C04's `extract` returns (`c13_assemble_eq_c04_extract`).
-/
import OdcGeo.Props.C04
import OdcGeo.Lemmas.C13
import Mathlib.Tactic.Linarith
import Mathlib.Data.List.Nodup
namespace OdcGeo.C04
open OdcGeo OdcGeo.C17 OdcGeo.NpArray OdcGeo.C13

/-- chunk sizes of a span list -/
def spanLens (t : List Span) : List Int := t.map fun s => s.2 - s.1

theorem chain_spans : ∀ (t : List Span) (a b : Int), Chain a t b →
    (∀ c ∈ spanLens t, 0 ≤ c) ∧ b = a + total (spanLens t) ∧
    ∀ (i : Nat) (s : Span), t[i]? = some s → s.1 = a + pre (spanLens t) i ∧ s.2 = a + pre (spanLens t) (i + 1)
  | [], a, b, h => by
    simp only [Chain] at h
    refine ⟨by simp [spanLens], by simp [spanLens, total, h], ?_⟩
    intro i s hs; simp at hs
  | s0 :: r, a, b, h => by
    obtain ⟨h1, h2, h3⟩ := h
    obtain ⟨n, tt, g⟩ := chain_spans r s0.2 b h3
    refine ⟨?_, ?_, ?_⟩
    · intro c hc
      simp only [spanLens, List.map_cons, List.mem_cons] at hc
      rcases hc with rfl | hc
      · omega
      · exact n c hc
    · simp only [spanLens, List.map_cons, total] at tt ⊢; omega
    · intro i s hs
      cases i with
      | zero =>
        simp at hs; subst hs
        simp only [spanLens, List.map_cons, pre]
        constructor <;> omega
      | succ k =>
        simp at hs
        obtain ⟨g1, g2⟩ := g k s hs
        simp only [spanLens, List.map_cons, pre] at g1 g2 ⊢
        constructor <;> omega

/-- block `e` of a C13 block list covers pixel `p` -/
def Covers (cy cx : List Span) (e : TIdx × Img) (p : Int × Int) : Prop :=
  ∃ ys xs, cy[e.1.1]? = some ys ∧ cx[e.1.2]? = some xs ∧ ys.1 ≤ p.1 ∧ p.1 < ys.2 ∧ xs.1 ≤ p.2 ∧ p.2 < xs.2

/-- **what C13's `assemble` computes, pixel by pixel**: the pasted block's cell where exactly one
block covers the pixel, the initial image where none does -/
theorem c13_assemble_pixel (cy cx : List Span) (p : Int × Int) : ∀ (bl : List (TIdx × Img)) (acc : Img),
    (∀ e ∈ bl, ∃ ys xs, cy[e.1.1]? = some ys ∧ cx[e.1.2]? = some xs) →
    ∃ img, assemble cy cx bl acc = some img ∧
      (∀ e ∈ bl, ∀ ys xs, cy[e.1.1]? = some ys → cx[e.1.2]? = some xs → Covers cy cx e p →
        (∀ e' ∈ bl, Covers cy cx e' p → e' = e) → img p = e.2 (p.1 - ys.1, p.2 - xs.1)) ∧
      ((∀ e ∈ bl, ¬ Covers cy cx e p) → img p = acc p)
  | [], acc, _ => ⟨acc, rfl, (fun e he => absurd he (by simp)), (fun _ => rfl)⟩
  | e0 :: rest, acc, hv => by
    obtain ⟨ys0, xs0, gy0, gx0⟩ := hv e0 List.mem_cons_self
    obtain ⟨img, hi, h1, h2⟩ := c13_assemble_pixel cy cx p rest (C13.pasteBlock acc ys0 xs0 e0.2)
      (fun e he => hv e (List.mem_cons_of_mem _ he))
    refine ⟨img, by simp only [assemble, gy0, gx0, bind, Option.bind]; exact hi, ?_, ?_⟩
    · intro e he ys xs gy gx hc huniq
      by_cases hex : ∃ e' ∈ rest, Covers cy cx e' p
      · obtain ⟨e', he', hc'⟩ := hex
        have ee := huniq e' (List.mem_cons_of_mem _ he') hc'
        subst ee
        exact h1 e' he' ys xs gy gx hc' (fun e'' he'' hc'' => huniq e'' (List.mem_cons_of_mem _ he'') hc'')
      · have hn : ∀ e' ∈ rest, ¬ Covers cy cx e' p := fun e' he' hc' => hex ⟨e', he', hc'⟩
        rw [h2 hn]
        have e0e : e0 = e := by
          rcases List.mem_cons.1 he with h | h
          · exact h.symm
          · exact absurd hc (hn e h)
        subst e0e
        rw [gy0] at gy; rw [gx0] at gx
        cases gy; cases gx
        obtain ⟨ys', xs', gy', gx', c1, c2, c3, c4⟩ := hc
        rw [gy0] at gy'; rw [gx0] at gx'
        cases gy'; cases gx'
        simp only [C13.pasteBlock]
        rw [if_pos ⟨c1, c2, c3, c4⟩]
    · intro hn
      rw [h2 (fun e he => hn e (List.mem_cons_of_mem _ he))]
      have h0 := hn e0 List.mem_cons_self
      simp only [C13.pasteBlock]
      rw [if_neg]
      intro hc
      exact h0 ⟨ys0, xs0, gy0, gx0, hc.1, hc.2.1, hc.2.2.1, hc.2.2.2⟩

/-! ## the representation map and the refinement -/

/-- a C13 block index as a C04 block key -/
def keyOf (e : TIdx × Img) : Int × Int := ((e.1.1 : Int), (e.1.2 : Int))

/-- the C04 `BlockAssembler` of a C13 block list: chunk sizes of the spans, the blocks as a table keyed
by tile position, cells are `Option Val` (what an `Img` holds) -/
def asmOf (cy cx : List Span) (bl : List (TIdx × Img)) : Assembler (Option C13.Val) :=
  { chy := spanLens cy, chx := spanLens cx, present := bl.map keyOf, lead := [], trail := [],
    blk := fun k _ y x _ =>
      match bl.find? (fun e => keyOf e == k) with
      | some e => e.2 (y, x)
      | none => none }

theorem find_of_nodup : ∀ (bl : List (TIdx × Img)), (bl.map keyOf).Nodup → ∀ e ∈ bl,
    bl.find? (fun e' => keyOf e' == keyOf e) = some e
  | [], _, e, he => by cases he
  | a :: as, hnd, e, he => by
    simp only [List.map_cons, List.nodup_cons] at hnd
    by_cases hk : keyOf a = keyOf e
    · have : a = e := by
        rcases List.mem_cons.1 he with h | h
        · exact h.symm
        · exact absurd (List.mem_map.2 ⟨e, h, hk.symm⟩) hnd.1
      subst this
      simp [List.find?]
    · have he' : e ∈ as := by
        rcases List.mem_cons.1 he with h | h
        · exact absurd (by rw [h]) hk
        · exact h
      simp only [List.find?, beq_iff_eq, hk, if_false]
      have : (keyOf a == keyOf e) = false := by simpa using hk
      rw [this]
      exact find_of_nodup as hnd.2 e he'

theorem normSlice_full (n : Int) (hn : 0 ≤ n) : normSlice (.slc none none) n = ⟨0, n⟩ := by
  simp only [normSlice, wrapNeg]
  rw [if_pos (by omega), if_pos (by omega)]

/-- `Covers` (C13: spans) is `Owns` (C04: prefix sums of the chunk sizes) -/
theorem owns_iff_covers (cy cx : List Span) (H W : Int) (hcy : Chain 0 cy H) (hcx : Chain 0 cx W)
    (bl : List (TIdx × Img)) (e : TIdx × Img) (hv : e.1.1 < cy.length ∧ e.1.2 < cx.length) (y x : Int) :
    Owns (asmOf cy cx bl) (keyOf e) y x ↔ Covers cy cx e (y, x) := by
  obtain ⟨_, _, gy⟩ := chain_spans cy 0 H hcy
  obtain ⟨_, _, gx⟩ := chain_spans cx 0 W hcx
  have hy : cy[e.1.1]? = some cy[e.1.1] := List.getElem?_eq_getElem hv.1
  have hx : cx[e.1.2]? = some cx[e.1.2] := List.getElem?_eq_getElem hv.2
  obtain ⟨a1, a2⟩ := gy _ _ hy
  obtain ⟨b1, b2⟩ := gx _ _ hx
  simp only [Owns, asmOf, keyOf, tileReg, NSlice.Has, Int.toNat_natCast, Covers]
  constructor
  · rintro ⟨⟨c1, c2⟩, c3, c4⟩
    exact ⟨_, _, hy, hx, by omega, by omega, by omega, by omega⟩
  · rintro ⟨ys, xs, hy', hx', c1, c2, c3, c4⟩
    rw [hy] at hy'; rw [hx] at hx'
    cases hy'; cases hx'
    exact ⟨⟨by omega, by omega⟩, by omega, by omega⟩

/-- **C13's `assemble` is C04's `BlockAssembler.extract` on the full window** (2-D layouts, regular or
variable chunk spans): with the spans turned into chunk sizes and the blocks into a block table,
every pixel of the image C13 assembles over `np.full((H, W), v)` is the cell C04's `extract(v)` returns;
both succeed. -/
theorem c13_assemble_eq_c04_extract (cy cx : List Span) (H W : Int) (hcy : Chain 0 cy H) (hcx : Chain 0 cx W)
    (hH : H < 2147483648) (hW : W < 2147483648) (bl : List (TIdx × Img))
    (hv : ∀ e ∈ bl, e.1.1 < cy.length ∧ e.1.2 < cx.length) (hnd : (bl.map keyOf).Nodup) (v : C13.Val) :
    ∃ img arr, assemble cy cx bl (full H W v) = some img ∧
      extract (asmOf cy cx bl) (some v) [] (.slc none none) (.slc none none) [] = .ok (([], H, W, []), arr) ∧
      ∀ y x, 0 ≤ y ∧ y < H → 0 ≤ x ∧ x < W → img (y, x) = arr [] y x [] := by
  obtain ⟨ny, tH, gy⟩ := chain_spans cy 0 H hcy
  obtain ⟨nx, tW, gx⟩ := chain_spans cx 0 W hcx
  have hoky : ChunksOK (spanLens cy) := ⟨ny, by omega⟩
  have hokx : ChunksOK (spanLens cx) := ⟨nx, by omega⟩
  have hH0 : 0 ≤ total (spanLens cy) := total_nonneg _ ny
  have hW0 : 0 ≤ total (spanLens cx) := total_nonneg _ nx
  have hkeys : ∀ k ∈ (asmOf cy cx bl).present, KeyOK (asmOf cy cx bl) k := by
    intro k hk
    obtain ⟨e, he, rfl⟩ := List.mem_map.1 hk
    have := hv e he
    simp only [KeyOK, asmOf, keyOf, spanLens, List.length_map]
    omega
  have e1' : normSlice (.slc none none) (total (asmOf cy cx bl).chy) = ⟨0, total (spanLens cy)⟩ :=
    normSlice_full _ hH0
  have e2' : normSlice (.slc none none) (total (asmOf cy cx bl).chx) = ⟨0, total (spanLens cx)⟩ :=
    normSlice_full _ hW0
  have hw := assemble_window (asmOf cy cx bl) hoky hokx hkeys (some v) [] (.slc none none) (.slc none none) []
    rfl rfl (by simp [asmOf, WinOK]) (by simp [asmOf, WinOK])
    (by rw [e1']; exact ⟨le_refl _, hH0⟩) (by rw [e2']; exact ⟨le_refl _, hW0⟩)
  simp only at hw
  obtain ⟨arr, harr, hcell⟩ := hw
  rw [e1', e2'] at harr hcell
  have hvalid : ∀ e ∈ bl, ∃ ys xs, cy[e.1.1]? = some ys ∧ cx[e.1.2]? = some xs := fun e he =>
    ⟨_, _, List.getElem?_eq_getElem (hv e he).1, List.getElem?_eq_getElem (hv e he).2⟩
  obtain ⟨img, himg, _, _⟩ := c13_assemble_pixel cy cx (0, 0) bl (full H W v) hvalid
  have ta : total (spanLens cy) = H := by omega
  have tb : total (spanLens cx) = W := by omega
  refine ⟨img, arr, himg, ?_, ?_⟩
  · rw [harr]
    simp [lens, asmOf, ta, tb]
  intro y x hy hx
  obtain ⟨img', himg', s1, s2⟩ := c13_assemble_pixel cy cx (y, x) bl (full H W v) hvalid
  rw [himg] at himg'
  cases himg'
  have hc := hcell [] y x [] (by simp [InBox, lens, asmOf]) (by simp only []; omega) (by simp only []; omega)
    (by simp [InBox, lens, asmOf])
  by_cases hex : ∃ e ∈ bl, Covers cy cx e (y, x)
  · obtain ⟨e, he, hcov⟩ := hex
    have huniq : ∀ e' ∈ bl, Covers cy cx e' (y, x) → e' = e := by
      intro e' he' hc'
      have o1 := (owns_iff_covers cy cx H W hcy hcx bl e (hv e he) y x).2 hcov
      have o2 := (owns_iff_covers cy cx H W hcy hcx bl e' (hv e' he') y x).2 hc'
      have k1 : (keyOf e').1 = (keyOf e).1 :=
        tileReg_unique (spanLens cy) hoky _ _ (by simp [keyOf]) (by simp [keyOf]) y o2.1 o1.1
      have k2 : (keyOf e').2 = (keyOf e).2 :=
        tileReg_unique (spanLens cx) hokx _ _ (by simp [keyOf]) (by simp [keyOf]) x o2.2 o1.2
      exact List.inj_on_of_nodup_map hnd he' he (Prod.ext k1 k2)
    obtain ⟨ys, xs, gy', gx'⟩ := hvalid e he
    rw [s1 e he ys xs gy' gx' hcov huniq]
    have o1 := (owns_iff_covers cy cx H W hcy hcx bl e (hv e he) y x).2 hcov
    have hk : keyOf e ∈ (asmOf cy cx bl).present := List.mem_map.2 ⟨e, he, rfl⟩
    have := hc.1 (keyOf e) hk (by simpa using o1)
    rw [this]
    obtain ⟨a1, _⟩ := gy _ _ gy'
    obtain ⟨b1, _⟩ := gx _ _ gx'
    have hf := find_of_nodup bl hnd e he
    simp only [keyOf] at hf
    simp only [asmOf, tileReg, keyOf, Int.toNat_natCast, zero_add] at a1 b1 ⊢
    rw [a1, b1, hf]
  · have hn : ∀ e ∈ bl, ¬ Covers cy cx e (y, x) := fun e he hc' => hex ⟨e, he, hc'⟩
    rw [s2 hn]
    have hno : ∀ k ∈ (asmOf cy cx bl).present, ¬ Owns (asmOf cy cx bl) k (0 + y) (0 + x) := by
      intro k hk ho
      obtain ⟨e, he, rfl⟩ := List.mem_map.1 hk
      exact hn e he ((owns_iff_covers cy cx H W hcy hcx bl e (hv e he) y x).1 (by simpa using ho))
    rw [hc.2 hno]
    simp only [full]
    rw [if_pos ⟨hy.1, hy.2, hx.1, hx.2⟩]

/-! ## the hypotheses are satisfiable: a 2 × 3 image in two row blocks -/
example : Chain 0 [(0, 1), (1, 2)] 2 ∧ Chain 0 [(0, 3)] 3 := by
  refine ⟨⟨rfl, by decide, rfl, by decide, rfl⟩, ⟨rfl, by decide, rfl⟩⟩
example : ([(((0 : Nat), (0 : Nat)), (fun _ => none : Img)), ((1, 0), fun _ => none)].map keyOf).Nodup := by decide

end OdcGeo.C04
