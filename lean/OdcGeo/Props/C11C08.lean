/-
C11 ∘ C08 — `compute_output_geobox` **is** `GeoBox.from_bbox` (the C08 model, with `snap_grid` of the C20
model) applied to the footprint bounding box with the chosen resolution.

Model/C11.lean carries its own small copy of `from_bbox` / `snap_grid` (so that the C11 driver does not
depend on the C08/C20 files while they were being built).  This file proves that the copy and the C08 / C20
models are the same functions on all inputs, error behaviour included, states the end-to-end link, and
transfers C08's minimal-cover theorem to the output grid of `compute_output_geobox`.
Model/C08.lean, Model/C20.lean and Props/C08.lean are imported read-only.
-/
import OdcGeo.Model.C11
import OdcGeo.Model.C08
import OdcGeo.Props.C08
import OdcGeo.Lemmas.C11
import Mathlib.Tactic.Linarith
import Mathlib.Tactic.Ring

namespace OdcGeo.C11
open OdcGeo

/-! ### the one-axis helpers coincide with the C20 model -/

theorem truncR_eq (x : Rat) : truncR x = C20.trunc x := rfl

theorem rabs_eq (x : Rat) : rabs x = C20.rabs x := rfl

theorem c20_trunc_intCast (k : Int) : C20.trunc (k : Rat) = k := by
  unfold C20.trunc
  split
  · exact Rat.floor_intCast k
  · exact Rat.ceil_intCast k

theorem maybeInt_eq (x tol : Rat) : maybeInt x tol = C20.maybeInt x tol := by
  have hw : x - C20.fmod1 x = ((C20.trunc x : Int) : Rat) := by unfold C20.fmod1; ring
  have hp : C20.fmod1 x = x - ((truncR x : Int) : Rat) := by unfold C20.fmod1; rw [truncR_eq]
  unfold maybeInt C20.maybeInt C20.maybeInt? splitFloat C20.splitFloat
  simp only [hw]
  rw [← hp]
  by_cases h1 : C20.fmod1 x > 1 / 2
  · simp only [h1, if_true]
    have e : ((C20.trunc x : Int) : Rat) + 1 = (((C20.trunc x + 1 : Int)) : Rat) := by push_cast; ring
    rw [e, c20_trunc_intCast, ← rabs_eq, truncR_eq]
    split <;> rfl
  · by_cases h2 : C20.fmod1 x < -(1 / 2)
    · simp only [h1, h2, if_false, if_true]
      have e : ((C20.trunc x : Int) : Rat) - 1 = (((C20.trunc x - 1 : Int)) : Rat) := by push_cast; ring
      rw [e, c20_trunc_intCast, ← rabs_eq, truncR_eq]
      split <;> rfl
    · simp only [h1, h2, if_false]
      rw [c20_trunc_intCast, ← rabs_eq, truncR_eq]
      split <;> rfl

theorem snapEdgePos_eq (x0 x1 res tol : Rat) : snapEdgePos x0 x1 res tol = C20.snapEdgePos x0 x1 res tol := by
  unfold snapEdgePos C20.snapEdgePos
  simp only [maybeInt_eq, gt_iff_lt, ge_iff_le]

theorem snapEdge_eq (x0 x1 res tol : Rat) : snapEdge x0 x1 res tol = C20.snapEdge x0 x1 res tol := by
  unfold snapEdge C20.snapEdge
  simp only [snapEdgePos_eq, gt_iff_lt, ge_iff_le]
  split
  · rfl
  · split
    · rfl
    · cases C20.snapEdgePos x0 x1 (-res) tol with
      | error e => rfl
      | ok p => rfl

/-- the copy of `snap_grid` in Model/C11 is the C20 model, on all inputs, errors included -/
theorem snapGrid_eq (x0 x1 res : Rat) (off : Option Rat) (tol : Rat) :
    snapGrid x0 x1 res off tol = C20.snapGrid x0 x1 res off tol := by
  unfold snapGrid C20.snapGrid
  cases off with
  | none =>
    simp only [maybeInt_eq, gt_iff_lt]
    by_cases h0 : res = 0
    · subst h0; simp
    · by_cases hp : 0 < res
      · simp [h0, hp]
      · simp [h0, hp]
  | some o =>
    simp only [snapEdge_eq, ← rabs_eq]
    split
    · rfl
    · cases C20.snapEdge (x0 - o * rabs res) (x1 - o * rabs res) res tol with
      | error e => rfl
      | ok p => rfl

/-! ### translation of the arguments -/

def BBox.toC08 (b : BBox) : C08.BBox := ⟨b.left, b.bottom, b.right, b.top⟩

def ShapeReq.toC08 : ShapeReq → C08.ShapeArg
  | .none => .none
  | .side n => .int n
  | .exact ny nx => .yx ny nx

def resToC08 : Option (Rat × Rat) → C08.ResArg
  | none => .none
  | some (rx, ry) => .xy rx ry

/-- the anchor as `compute_output_geobox` hands it on: the literal `"default"` is the name, the others are
already-normalised values -/
def Anchor.toC08 : Anchor → C08.AnchorArg
  | .dflt => .name .default
  | .edge => .val .edge
  | .center => .val .center
  | .floating => .val .floating
  | .xy ax ay => .val (.xy ax ay)

def Grid.toC08 (g : Grid) : C08.GeoBox := ⟨g.ny, g.nx, g.A⟩

theorem snapOf_eq (anchor : Anchor) (tight : Bool) :
    snapOf anchor tight = C08.snapOf tight (C08.normAnchor anchor.toC08) := by
  cases tight <;> cases anchor <;> rfl

/-! ### `from_bbox`: the copy is the C08 model -/

theorem fromBboxRes_eq (b : BBox) (rx ry : Rat) (snap : Option (Rat × Rat)) (tol : Rat) :
    (fromBboxRes b rx ry snap tol).map Grid.toC08 =
      (do
        let (offx, nx) ← C20.snapGrid b.left b.right rx (snap.map (·.1)) tol
        let (offy, ny) ← C20.snapGrid b.bottom b.top ry (snap.map (·.2)) tol
        return (⟨ny, nx, Aff.translation offx offy * Aff.scale rx ry⟩ : C08.GeoBox)) := by
  unfold fromBboxRes
  simp only [snapGrid_eq, bind, Except.bind, pure, Except.pure]
  cases C20.snapGrid b.left b.right rx (snap.map (·.1)) tol with
  | error e => rfl
  | ok p =>
    cases C20.snapGrid b.bottom b.top ry (snap.map (·.2)) tol with
    | error e => rfl
    | ok q => rfl

/-- **from_bbox_is_C08** — for every bounding box, shape request, resolution, anchor, `tight` and `tol`
(valid or not: the error kinds agree too) -/
theorem from_bbox_is_C08 (b : BBox) (shape : ShapeReq) (res : Option (Rat × Rat)) (anchor : Anchor)
    (tight : Bool) (tol : Rat) :
    (fromBbox b shape res anchor tight tol).map Grid.toC08 =
      C08.fromBbox b.toC08 tight shape.toC08 (resToC08 res) anchor.toC08 tol := by
  unfold fromBbox C08.fromBbox
  rw [← snapOf_eq]
  cases shape with
  | side n =>
    simp only [ShapeReq.toC08, C08.intShapeToRes, C08.BBox.spanX, C08.BBox.spanY, BBox.toC08, bind, Except.bind]
    by_cases hn : n = 0
    · subst hn
      by_cases hy : b.top - b.bottom = 0 <;> simp [hy, Except.map]
    · by_cases hy : b.top - b.bottom = 0
      · simp [hn, hy, Except.map]
      · simp only [hn, hy, if_false]
        by_cases ha : (b.right - b.left) / (b.top - b.bottom) > 1
        · simp only [ha, if_true, C08.ResArg.xy?]
          exact fromBboxRes_eq b _ _ _ tol
        · simp only [ha, if_false, C08.ResArg.xy?]
          exact fromBboxRes_eq b _ _ _ tol
  | none =>
    simp only [ShapeReq.toC08, C08.intShapeToRes, bind, Except.bind]
    cases res with
    | none => simp [resToC08, C08.ResArg.xy?, Except.map]
    | some r =>
      obtain ⟨rx, ry⟩ := r
      simp only [resToC08, C08.ResArg.xy?]
      exact fromBboxRes_eq b rx ry _ tol
  | exact ny nx =>
    simp only [ShapeReq.toC08, C08.intShapeToRes, bind, Except.bind]
    cases res with
    | some r =>
      obtain ⟨rx, ry⟩ := r
      simp only [resToC08, C08.ResArg.xy?]
      exact fromBboxRes_eq b rx ry _ tol
    | none =>
      simp only [resToC08, C08.ResArg.xy?, C08.BBox.spanX, C08.BBox.spanY, BBox.toC08]
      by_cases hx : nx = 0
      · simp [hx, Except.map]
      · by_cases hy : ny = 0
        · simp [hx, hy, Except.map]
        · simp only [hx, hy, or_self, if_false]
          cases hs : snapOf anchor tight with
          | none => simp [Except.map, Grid.toC08, pure, Except.pure]
          | some sxy =>
            obtain ⟨sx, sy⟩ := sxy
            simp only [snapGrid_eq, pure, Except.pure]
            cases C20.snapGrid b.left b.right ((b.right - b.left) / nx) (some sx) tol with
            | error e =>
              cases C20.snapGrid b.bottom b.top (-(b.top - b.bottom) / ny) (some sy) tol <;> rfl
            | ok p =>
              cases C20.snapGrid b.bottom b.top (-(b.top - b.bottom) / ny) (some sy) tol with
              | error e => rfl
              | ok q => rfl

/-- **compute_output_is_from_bbox** (C11 ∘ C08) — outside the identity fast path
`compute_output_geobox(gbox, crs, …)` is `GeoBox.from_bbox` — the C08 model — applied to the bounding box
of the projected footprint, with the resolution chosen by the mode (`chooseRes`: none when a shape is
given), the caller's `shape`, `tight`, `anchor` and `tol` handed on unchanged; errors included. -/
theorem compute_output_is_from_bbox (c : Captured) (mode : ResMode) (shape : ShapeReq) (tight : Bool)
    (anchor : Anchor) (tol : Rat) (rnd : Rounding)
    (hslow : ¬ (c.sameCrs ∧ (mode = .auto ∨ mode = .same) ∧ shape = .none ∧ anchor = .dflt)) :
    (computeOutput c mode shape tight anchor tol rnd).map (fun o => match o with
        | .source => none
        | .grid g => some g.toC08) =
      match chooseRes c mode shape rnd with
      | .error e => .error e
      | .ok res => (C08.fromBbox c.bbox.toC08 tight shape.toC08 (resToC08 res) anchor.toC08 tol).map some := by
  unfold computeOutput
  rw [if_neg hslow]
  cases hres : chooseRes c mode shape rnd with
  | error e => rfl
  | ok res =>
    simp only
    rw [← from_bbox_is_C08]
    cases fromBbox c.bbox shape res anchor tight tol <;> rfl

/-! ### a C08 theorem transferred through the link -/

/-- **out_minimal_cover** (corollary of C08 `from_bbox_res_minimal_le` through `compute_output_is_from_bbox`) —
the grid computed for a resolution-driven request is not only a cover (C11 `out_contains_bbox_up_to_tol`)
but a *minimal* one: on every side it exceeds the projected footprint's bounding box by at most
`(1 + tol)` output pixels.  For all modes, anchors (fractions in `[0,1)`), `tight`, signs of the pixel
size, `0 ≤ tol < ½`. -/
theorem out_minimal_cover (c : Captured) (mode : ResMode) (tight : Bool) (anchor : Anchor) (tol : Rat)
    (rnd : Rounding) (g : Grid) (rx ry : Rat) (ht : 0 ≤ tol) (ht2 : tol < 1 / 2)
    (hbx : c.bbox.left ≤ c.bbox.right) (hby : c.bbox.bottom ≤ c.bbox.top)
    (hres : chooseRes c mode .none rnd = .ok (some (rx, ry))) (hrx : rx ≠ 0) (hry : ry ≠ 0)
    (hanchor : ∀ s, snapOf anchor tight = some s → (0 ≤ s.1 ∧ s.1 < 1) ∧ (0 ≤ s.2 ∧ s.2 < 1))
    (h : computeOutput c mode .none tight anchor tol rnd = .ok (.grid g)) :
    c.bbox.left - g.toC08.xmin ≤ |rx| * (1 + tol) ∧ g.toC08.xmax - c.bbox.right ≤ |rx| * (1 + tol) ∧
    c.bbox.bottom - g.toC08.ymin ≤ |ry| * (1 + tol) ∧ g.toC08.ymax - c.bbox.top ≤ |ry| * (1 + tol) := by
  have hslow : ¬ (c.sameCrs ∧ (mode = .auto ∨ mode = .same) ∧ ShapeReq.none = .none ∧ anchor = .dflt) := by
    intro hf
    unfold computeOutput at h
    rw [if_pos hf] at h
    cases h
  have hl := compute_output_is_from_bbox c mode .none tight anchor tol rnd hslow
  rw [h, hres] at hl
  simp only [Except.map] at hl
  have hc8 : C08.fromBbox c.bbox.toC08 tight ShapeReq.none.toC08 (resToC08 (some (rx, ry))) anchor.toC08 tol
      = .ok g.toC08 := by
    cases hf : C08.fromBbox c.bbox.toC08 tight ShapeReq.none.toC08 (resToC08 (some (rx, ry))) anchor.toC08 tol with
    | error e => rw [hf] at hl; cases hl
    | ok g' =>
      rw [hf] at hl
      simp only [Except.ok.injEq, Option.some.injEq] at hl
      rw [hl]
  have v : C08.ValidRes c.bbox.toC08 rx ry tol (C08.snapOf tight (C08.normAnchor anchor.toC08)) :=
    ⟨hbx, hby, hrx, hry, ht, ht2, by rw [← snapOf_eq]; exact hanchor⟩
  exact C08.from_bbox_res_minimal_le (shape := ShapeReq.none.toC08) (res := resToC08 (some (rx, ry)))
    (by intro n hn; cases hn) rfl v hc8

end OdcGeo.C11
