/-
C03 — reprojection planning never drops a needed pixel.

Property theorems only (helper lemmas: `Lemmas/C03.lean`).  Conventions: an axis transform is
`x_src = s · x_dst + t`; pixel `d` of the destination has centre `d + ½`; the source pixel a
coordinate `x` falls in is `⌊x⌋`; "inside the source image" is `0 ≤ x < Ns`.
-/
import OdcGeo.Model.C03
import OdcGeo.Lemmas.C03
import OdcGeo.Props.C17
import Mathlib.Tactic.Linarith
import Mathlib.Tactic.Ring
import Mathlib.Algebra.Order.Field.Rat
namespace OdcGeo.C03
open OdcGeo.C17

/-! ## one axis: `compute_axis_overlap` -/

/-- The only failure is the `assert s > 0` for a zero scale. -/
theorem axis_error_iff (Ns Nd : Int) (s t : Rat) :
    (∃ e, axisOverlap Ns Nd s t = .error e) ↔ s = 0 := by
  unfold axisOverlap
  constructor
  · rintro ⟨e, h⟩
    by_cases h1 : s < 0
    · simp [h1] at h
    · by_cases h2 : s > 0
      · simp [h1, h2] at h
      · exact le_antisymm (not_lt.mp h2) (not_lt.mp h1)
  · rintro rfl
    exact ⟨.assertion, by simp⟩

/-- Both regions lie within their images and are well formed, for every scale of either sign. -/
theorem axis_within (Ns Nd : Int) (s t : Rat) (hNs : 0 ≤ Ns) (hNd : 0 ≤ Nd) (r : NSlice × NSlice)
    (h : axisOverlap Ns Nd s t = .ok r) :
    (0 ≤ r.1.start ∧ r.1.start ≤ r.1.stop ∧ r.1.stop ≤ Ns) ∧
    (0 ≤ r.2.start ∧ r.2.start ≤ r.2.stop ∧ r.2.stop ≤ Nd) := by
  unfold axisOverlap at h
  by_cases h1 : s < 0
  · simp only [h1, if_true, Except.ok.injEq] at h
    have := axisPos_within Ns Nd (-s) ((Ns : Rat) - t) hNs hNd (by linarith)
    subst h
    simp only at this ⊢
    omega
  · by_cases h2 : s > 0
    · simp only [h1, h2, if_true, if_false, Except.ok.injEq] at h
      subst h
      exact axisPos_within Ns Nd s t hNs hNd h2
    · simp [h1, h2] at h

/-- **Destination coverage.**  Every destination pixel whose centre maps inside the source
image lies in the destination region (mirrored axes included). -/
theorem axis_dst_covers (Ns Nd : Int) (s t : Rat) (r : NSlice × NSlice)
    (h : axisOverlap Ns Nd s t = .ok r) (d : Int) (hd0 : 0 ≤ d) (hdN : d < Nd)
    (hx0 : 0 ≤ s * ((d : Rat) + 1 / 2) + t) (hxN : s * ((d : Rat) + 1 / 2) + t < Ns) :
    r.2.start ≤ d ∧ d < r.2.stop := by
  have hu0 : (0 : Rat) ≤ (d : Rat) + 1 / 2 := by
    have : (0 : Rat) ≤ d := by exact_mod_cast hd0
    linarith
  have huN : (d : Rat) + 1 / 2 ≤ Nd := by
    have : (d : Rat) + 1 ≤ Nd := by exact_mod_cast hdN
    linarith
  have fin : ∀ p : NSlice, (p.start : Rat) ≤ (d : Rat) + 1 / 2 → (d : Rat) + 1 / 2 ≤ p.stop →
      p.start ≤ d ∧ d < p.stop := by
    intro p h1 h2
    constructor
    · have : (p.start : Rat) < (d : Rat) + 1 := by linarith
      have : p.start < d + 1 := by exact_mod_cast this
      omega
    · have : (d : Rat) < p.stop := by linarith
      exact_mod_cast this
  unfold axisOverlap at h
  by_cases h1 : s < 0
  · simp only [h1, if_true, Except.ok.injEq] at h
    have c := axisPos_covers Ns Nd (-s) ((Ns : Rat) - t) ((d : Rat) + 1 / 2) (by linarith) hu0 huN
      (by linarith) (by linarith)
    subst h
    exact fin _ c.1.1 c.1.2
  · by_cases h2 : s > 0
    · simp only [h1, h2, if_true, if_false, Except.ok.injEq] at h
      have c := axisPos_covers Ns Nd s t ((d : Rat) + 1 / 2) h2 hu0 huN hx0 (le_of_lt hxN)
      subst h
      exact fin _ c.1.1 c.1.2
    · simp [h1, h2] at h

/-- **Source coverage.**  The source pixel `⌊s(d+½)+t⌋` that such a destination pixel reads
lies in the source region (mirrored axes included: the region is mapped back from the
flipped image). -/
theorem axis_src_covers (Ns Nd : Int) (s t : Rat) (r : NSlice × NSlice)
    (h : axisOverlap Ns Nd s t = .ok r) (d : Int) (hd0 : 0 ≤ d) (hdN : d < Nd)
    (hx0 : 0 ≤ s * ((d : Rat) + 1 / 2) + t) (hxN : s * ((d : Rat) + 1 / 2) + t < Ns) :
    r.1.start ≤ (s * ((d : Rat) + 1 / 2) + t).floor ∧ (s * ((d : Rat) + 1 / 2) + t).floor < r.1.stop := by
  have hu0 : (0 : Rat) < (d : Rat) + 1 / 2 := by
    have : (0 : Rat) ≤ d := by exact_mod_cast hd0
    linarith
  have huN : (d : Rat) + 1 / 2 < Nd := by
    have : (d : Rat) + 1 ≤ Nd := by exact_mod_cast hdN
    linarith
  generalize hx : s * ((d : Rat) + 1 / 2) + t = x at *
  have f1 := Rat.floor_le x
  have f2 : x < (x.floor : Rat) + 1 := by
    have := Rat.lt_floor_add_one x; push_cast at this; exact this
  unfold axisOverlap at h
  by_cases h1 : s < 0
  · simp only [h1, if_true, Except.ok.injEq] at h
    have hy : -s * ((d : Rat) + 1 / 2) + ((Ns : Rat) - t) = (Ns : Rat) - x := by rw [← hx]; ring
    have c := axisPos_covers Ns Nd (-s) ((Ns : Rat) - t) ((d : Rat) + 1 / 2) (by linarith) (le_of_lt hu0)
      (le_of_lt huN) (by rw [hy]; linarith) (by rw [hy]; linarith)
    rw [hy] at c
    have c1 := c.2.2.1 hu0 (by linarith)
    have c2 := c.2.1.2
    subst h
    simp only
    constructor
    · have : ((Ns - (axisPos Ns Nd (-s) ((Ns : Rat) - t)).1.stop : Int) : Rat) < (x.floor : Rat) + 1 := by
        push_cast; linarith
      have : Ns - (axisPos Ns Nd (-s) ((Ns : Rat) - t)).1.stop < x.floor + 1 := by exact_mod_cast this
      omega
    · have : (x.floor : Rat) < ((Ns - (axisPos Ns Nd (-s) ((Ns : Rat) - t)).1.start : Int) : Rat) := by
        push_cast; linarith
      exact_mod_cast this
  · by_cases h2 : s > 0
    · simp only [h1, h2, if_true, if_false, Except.ok.injEq] at h
      have c := axisPos_covers Ns Nd s t ((d : Rat) + 1 / 2) h2 (le_of_lt hu0) (le_of_lt huN)
        (by rw [hx]; exact hx0) (by rw [hx]; exact le_of_lt hxN)
      rw [hx] at c
      have c1 := c.2.1.1
      have c2 := c.2.2.2 huN hxN
      subst h
      constructor
      · rw [Rat.le_floor_iff]; exact c1
      · have : (x.floor : Rat) < ((axisPos Ns Nd s t).1.stop : Rat) := by linarith
        exact_mod_cast this
    · simp [h1, h2] at h

/-- **Disjoint ⇒ empty.**  When the image `[min(t, Nd·s+t), max(t, Nd·s+t)]` of the destination
axis does not overlap `[0, Ns]` (touching allowed), both regions are empty. -/
theorem axis_disjoint_empty (Ns Nd : Int) (s t : Rat) (hNs : 0 ≤ Ns) (hNd : 0 ≤ Nd) (r : NSlice × NSlice)
    (h : axisOverlap Ns Nd s t = .ok r)
    (hsep : max t ((Nd : Rat) * s + t) ≤ 0 ∨ (Ns : Rat) ≤ min t ((Nd : Rat) * s + t)) :
    r.1.stop - r.1.start = 0 ∧ r.2.stop - r.2.start = 0 := by
  have hNdq : (0 : Rat) ≤ Nd := by exact_mod_cast hNd
  unfold axisOverlap at h
  by_cases h1 : s < 0
  · simp only [h1, if_true, Except.ok.injEq] at h
    have hNds : (Nd : Rat) * s ≤ 0 := mul_nonpos_of_nonneg_of_nonpos hNdq (le_of_lt h1)
    have c := axisPos_disjoint Ns Nd (-s) ((Ns : Rat) - t) hNs hNd (by linarith) (by
      rcases hsep with h' | h'
      · right
        have := le_trans (le_max_left _ _) h'
        linarith
      · left
        have := le_trans h' (min_le_right _ _)
        linarith)
    subst h
    simp only at c ⊢
    omega
  · by_cases h2 : s > 0
    · simp only [h1, h2, if_true, if_false, Except.ok.injEq] at h
      have c := axisPos_disjoint Ns Nd s t hNs hNd h2 (by
        rcases hsep with h' | h'
        · left; exact le_trans (le_max_right _ _) h'
        · right; exact le_trans h' (min_le_left _ _))
      subst h
      simp only at c ⊢
      omega
    · simp [h1, h2] at h


/-! ## two axes: `box_overlap` (scale + translation transforms) -/

/-- `box_overlap` fails only for a zero scale on some axis. -/
theorem box_error_iff (src dst : Shape) (ST : Aff) :
    (∃ e, boxOverlap src dst ST = .error e) ↔ (ST.a = 0 ∨ ST.e = 0) := by
  rw [← axis_error_iff src.2 dst.2 ST.a ST.c, ← axis_error_iff src.1 dst.1 ST.e ST.f]
  unfold boxOverlap
  cases hy : axisOverlap src.1 dst.1 ST.e ST.f <;> cases hx : axisOverlap src.2 dst.2 ST.a ST.c <;> simp

/-- Both regions of `box_overlap` lie within their images and are well formed. -/
theorem box_within (src dst : Shape) (ST : Aff) (hs : 0 ≤ src.1 ∧ 0 ≤ src.2) (hd : 0 ≤ dst.1 ∧ 0 ≤ dst.2)
    (r : ROI × ROI) (h : boxOverlap src dst ST = .ok r) :
    ((0 ≤ r.1.1.start ∧ r.1.1.start ≤ r.1.1.stop ∧ r.1.1.stop ≤ src.1) ∧
     (0 ≤ r.1.2.start ∧ r.1.2.start ≤ r.1.2.stop ∧ r.1.2.stop ≤ src.2)) ∧
    ((0 ≤ r.2.1.start ∧ r.2.1.start ≤ r.2.1.stop ∧ r.2.1.stop ≤ dst.1) ∧
     (0 ≤ r.2.2.start ∧ r.2.2.start ≤ r.2.2.stop ∧ r.2.2.stop ≤ dst.2)) := by
  obtain ⟨yy, xx, hy, hx, rfl⟩ := boxOverlap_ok h
  have wy := axis_within _ _ _ _ hs.1 hd.1 yy hy
  have wx := axis_within _ _ _ _ hs.2 hd.2 xx hx
  exact ⟨⟨wy.1, wx.1⟩, ⟨wy.2, wx.2⟩⟩

/-- **2-D coverage for scale+translation transforms**: a destination pixel `(dy, dx)` whose centre
maps (through `ST`, which has no rotation/shear terms) inside the source image lies in the
destination region and the source pixel it maps to lies in the source region. -/
theorem box_covers (src dst : Shape) (ST : Aff) (hb : ST.b = 0) (hd' : ST.d = 0)
    (r : ROI × ROI) (h : boxOverlap src dst ST = .ok r) (dy dx : Int)
    (hdy : 0 ≤ dy ∧ dy < dst.1) (hdx : 0 ≤ dx ∧ dx < dst.2)
    (hqx : 0 ≤ (ST.apply ((dx : Rat) + 1 / 2, (dy : Rat) + 1 / 2)).1 ∧
           (ST.apply ((dx : Rat) + 1 / 2, (dy : Rat) + 1 / 2)).1 < src.2)
    (hqy : 0 ≤ (ST.apply ((dx : Rat) + 1 / 2, (dy : Rat) + 1 / 2)).2 ∧
           (ST.apply ((dx : Rat) + 1 / 2, (dy : Rat) + 1 / 2)).2 < src.1) :
    (r.2.1.start ≤ dy ∧ dy < r.2.1.stop) ∧ (r.2.2.start ≤ dx ∧ dx < r.2.2.stop) ∧
    (r.1.2.start ≤ (ST.apply ((dx : Rat) + 1 / 2, (dy : Rat) + 1 / 2)).1.floor ∧
      (ST.apply ((dx : Rat) + 1 / 2, (dy : Rat) + 1 / 2)).1.floor < r.1.2.stop) ∧
    (r.1.1.start ≤ (ST.apply ((dx : Rat) + 1 / 2, (dy : Rat) + 1 / 2)).2.floor ∧
      (ST.apply ((dx : Rat) + 1 / 2, (dy : Rat) + 1 / 2)).2.floor < r.1.1.stop) := by
  obtain ⟨yy, xx, hy, hx, rfl⟩ := boxOverlap_ok h
  have ex : (ST.apply ((dx : Rat) + 1 / 2, (dy : Rat) + 1 / 2)).1 = ST.a * ((dx : Rat) + 1 / 2) + ST.c := by
    simp [Aff.apply, hb]
  have ey : (ST.apply ((dx : Rat) + 1 / 2, (dy : Rat) + 1 / 2)).2 = ST.e * ((dy : Rat) + 1 / 2) + ST.f := by
    simp [Aff.apply, hd']
  rw [ex] at hqx ⊢
  rw [ey] at hqy ⊢
  exact ⟨axis_dst_covers _ _ _ _ yy hy dy hdy.1 hdy.2 hqy.1 hqy.2,
         axis_dst_covers _ _ _ _ xx hx dx hdx.1 hdx.2 hqx.1 hqx.2,
         axis_src_covers _ _ _ _ xx hx dx hdx.1 hdx.2 hqx.1 hqx.2,
         axis_src_covers _ _ _ _ yy hy dy hdy.1 hdy.2 hqy.1 hqy.2⟩

/-! ## `_relative_rois`: sampled boundary, padding, alignment, clipping -/

/-- Both regions of `_relative_rois` lie within their images, whatever the point transform
(non-finite images, arbitrary padding / alignment included). -/
theorem relative_within (src dst : Shape) (back fwd : PtTr) (pps : Nat) (pad : Int) (al : Option Int)
    (hs : 0 ≤ src.1 ∧ 0 ≤ src.2) (hd : 0 ≤ dst.1 ∧ 0 ≤ dst.2) :
    let r := relativeRois src dst back fwd pps pad al
    ((0 ≤ r.1.1.start ∧ r.1.1.stop ≤ src.1) ∧ (0 ≤ r.1.2.start ∧ r.1.2.stop ≤ src.2)) ∧
    ((0 ≤ r.2.1.start ∧ r.2.1.stop ≤ dst.1) ∧ (0 ≤ r.2.2.start ∧ r.2.2.stop ≤ dst.2)) := by
  have w1 := from_points_within_image ((roiBoundary (⟨0, dst.1⟩, ⟨0, dst.2⟩) pps).map back) src.1 src.2 pad al hs.1 hs.2
  simp only [relativeRois]
  split_ifs with c1 c2 c3
  · simp [emptyROI, hs.1, hs.2, hd.1, hd.2]
  · simp [emptyROI, hs.1, hs.2]
    have := from_points_within_image
      ((roiBoundary emptyROI pps).map fwd) dst.1 dst.2 0 none hd.1 hd.2
    simp only [emptyROI] at this
    omega
  · simp only [emptyROI]
    simp only at w1
    omega
  · have w2 := from_points_within_image
      ((roiBoundary (fromPoints ((roiBoundary (⟨0, dst.1⟩, ⟨0, dst.2⟩) pps).map back) src.1 src.2 pad al) pps).map fwd)
      dst.1 dst.2 0 none hd.1 hd.2
    simp only at w1 w2 ⊢
    omega


/-- **Coverage for an abstract (possibly non-linear) point transform — partial.**
Full statement wanted: for the real cross-CRS transform every destination pixel whose centre maps inside the source lies
in `roi_dst` and its source location in `roi_src`.

What is missing, exactly: *control of the transform BETWEEN the 16 boundary samples* (5 per side).  The plan is the
envelope of the images of those samples (`relative_samples_covered` proves that every sampled point that falls in the
image is inside `roi_src`, with its padding neighbourhood).  A pixel centre is covered as soon as its image lies in that
envelope grown by `padding` (`henvS`), resp. the centre lies in the unpadded envelope of the forward images of the
samples of `roi_src`'s boundary (`henvD`).  For an affine map both hold for every interior point, because an affine
function on a rectangle is extremal at a corner and the corners are samples (`linear_covers`: the FULL statement).  For a
real projection an edge maps to a curve whose extreme may lie between two samples; the excess over the sampled extreme
(the sagitta of the arc between neighbouring samples) is not bounded by anything the code computes — it exceeds the
1-pixel padding for long thin destinations and large extents (known finding `xcrs-curved-edge-sliver-dropped`), and
`roi_dst` has no padding at all.  No hypothesis on the abstract transform short of `henvS ∧ henvD` themselves (or a
quantitative curvature bound per projection, which pyproj does not provide) closes the gap, so the theorem is stated
under exactly these two hypotheses; the harness samples them with an independent pyproj oracle. -/
theorem nonlinear_covers_partial (src dst : Shape) (back fwd : PtTr) (pps : Nat) (pad : Int) (al : Option Int)
    (hal : ∀ a, al = some a → 0 < a) (dy dx : Int) (hdy : 0 ≤ dy ∧ dy < dst.1) (hdx : 0 ≤ dx ∧ dx < dst.2)
    (q : Rat × Rat) (hqx : 0 ≤ q.1 ∧ q.1 < src.2) (hqy : 0 ≤ q.2 ∧ q.2 < src.1)
    (henvS : InEnvStrict (finitePts (srcSamples dst back pps)) q pad)
    (henvD : InEnvClosed (finitePts (dstSamples (relativeRois src dst back fwd pps pad al).1 fwd pps))
      ((dx : Rat) + 1 / 2, (dy : Rat) + 1 / 2)) :
    let r := relativeRois src dst back fwd pps pad al
    (r.2.1.start ≤ dy ∧ dy < r.2.1.stop) ∧ (r.2.2.start ≤ dx ∧ dx < r.2.2.stop) ∧
    (r.1.2.start ≤ q.1.floor ∧ q.1.floor < r.1.2.stop) ∧ (r.1.1.start ≤ q.2.floor ∧ q.2.floor < r.1.1.stop) := by
  have hs := relativeRois_src src dst back fwd pps pad al q henvS hqx hqy hal
  obtain ⟨_, e2, m1, m2⟩ := hs
  have hdxq : (0 : Rat) ≤ dx ∧ (dx : Rat) + 1 ≤ dst.2 := ⟨by exact_mod_cast hdx.1, by exact_mod_cast hdx.2⟩
  have hdyq : (0 : Rat) ≤ dy ∧ (dy : Rat) + 1 ≤ dst.1 := ⟨by exact_mod_cast hdy.1, by exact_mod_cast hdy.2⟩
  have c := fromPoints_mem_closed _ dst.1 dst.2 ((dx : Rat) + 1 / 2, (dy : Rat) + 1 / 2) henvD
    ⟨by simp only; linarith, by simp only; linarith⟩ ⟨by simp only; linarith, by simp only; linarith⟩
  simp only at c ⊢
  rw [← e2] at c
  have fin : ∀ (p : NSlice) (d : Int), (p.start : Rat) ≤ (d : Rat) + 1 / 2 → (d : Rat) + 1 / 2 ≤ p.stop →
      p.start ≤ d ∧ d < p.stop := by
    intro p d h1 h2
    constructor
    · have : (p.start : Rat) < (d : Rat) + 1 := by linarith
      have : p.start < d + 1 := by exact_mod_cast this
      omega
    · have : (d : Rat) < p.stop := by linarith
      exact_mod_cast this
  exact ⟨fin _ _ c.2.1 c.2.2, fin _ _ c.1.1 c.1.2, m1, m2⟩

/-- **Coverage on the sampled-corner path for every invertible affine map** (rotation, shear,
mirroring, any scale), any `padding ≥ 0`, any alignment: a destination pixel whose centre maps
inside the source image lies in the destination region, and the source pixel it maps to lies
in the source region.  `fwd` is the inverse of `A` (what `tr` / `tr.back` are in the code). -/
theorem linear_covers (src dst : Shape) (A fwd : Aff) (hdet : A.det ≠ 0)
    (hinv : ∀ p, fwd.apply (A.apply p) = p) (pad : Int) (hpad : 0 ≤ pad) (al : Option Int)
    (hal : ∀ a, al = some a → 0 < a) (dy dx : Int) (hdy : 0 ≤ dy ∧ dy < dst.1) (hdx : 0 ≤ dx ∧ dx < dst.2)
    (hqx : 0 ≤ (A.apply ((dx : Rat) + 1 / 2, (dy : Rat) + 1 / 2)).1 ∧
           (A.apply ((dx : Rat) + 1 / 2, (dy : Rat) + 1 / 2)).1 < src.2)
    (hqy : 0 ≤ (A.apply ((dx : Rat) + 1 / 2, (dy : Rat) + 1 / 2)).2 ∧
           (A.apply ((dx : Rat) + 1 / 2, (dy : Rat) + 1 / 2)).2 < src.1) :
    let r := relativeRois src dst (linTr A) (linTr fwd) 2 pad al
    (r.2.1.start ≤ dy ∧ dy < r.2.1.stop) ∧ (r.2.2.start ≤ dx ∧ dx < r.2.2.stop) ∧
    (r.1.2.start ≤ (A.apply ((dx : Rat) + 1 / 2, (dy : Rat) + 1 / 2)).1.floor ∧
      (A.apply ((dx : Rat) + 1 / 2, (dy : Rat) + 1 / 2)).1.floor < r.1.2.stop) ∧
    (r.1.1.start ≤ (A.apply ((dx : Rat) + 1 / 2, (dy : Rat) + 1 / 2)).2.floor ∧
      (A.apply ((dx : Rat) + 1 / 2, (dy : Rat) + 1 / 2)).2.floor < r.1.1.stop) := by
  have hdxq : (0 : Rat) ≤ dx ∧ (dx : Rat) + 1 ≤ dst.2 := ⟨by exact_mod_cast hdx.1, by exact_mod_cast hdx.2⟩
  have hdyq : (0 : Rat) ≤ dy ∧ (dy : Rat) + 1 ≤ dst.1 := ⟨by exact_mod_cast hdy.1, by exact_mod_cast hdy.2⟩
  generalize hc : ((dx : Rat) + 1 / 2, (dy : Rat) + 1 / 2) = c at *
  have hc1 : c.1 = (dx : Rat) + 1 / 2 := by rw [← hc]
  have hc2 : c.2 = (dy : Rat) + 1 / 2 := by rw [← hc]
  have henvS : InEnvStrict (finitePts (srcSamples dst (linTr A) 2)) (A.apply c) pad := by
    apply inEnvStrict_of_interior A hdet (⟨0, dst.1⟩, ⟨0, dst.2⟩) c pad hpad
    · simp only; push_cast; constructor <;> linarith
    · simp only; push_cast; constructor <;> linarith
  have hs := relativeRois_src src dst (linTr A) (linTr fwd) 2 pad al (A.apply c) henvS hqx hqy hal
  obtain ⟨_, _, m1, m2⟩ := hs
  have henvD : InEnvClosed (finitePts (dstSamples (relativeRois src dst (linTr A) (linTr fwd) 2 pad al).1 (linTr fwd) 2)) c := by
    have := inEnvClosed_of_mem fwd (relativeRois src dst (linTr A) (linTr fwd) 2 pad al).1 (A.apply c) ?_ ?_
    · rw [hinv] at this; exact this
    · have f1 := Rat.floor_le (A.apply c).1
      have f2 : (A.apply c).1 < ((A.apply c).1.floor : Rat) + 1 := by
        have := Rat.lt_floor_add_one (A.apply c).1; push_cast at this; exact this
      have a1 : (((relativeRois src dst (linTr A) (linTr fwd) 2 pad al).1.2.start : Int) : Rat) ≤ ((A.apply c).1.floor : Rat) := by
        exact_mod_cast m1.1
      have a2 : ((A.apply c).1.floor : Rat) + 1 ≤ (((relativeRois src dst (linTr A) (linTr fwd) 2 pad al).1.2.stop : Int) : Rat) := by
        exact_mod_cast m1.2
      constructor <;> linarith
    · have f1 := Rat.floor_le (A.apply c).2
      have f2 : (A.apply c).2 < ((A.apply c).2.floor : Rat) + 1 := by
        have := Rat.lt_floor_add_one (A.apply c).2; push_cast at this; exact this
      have a1 : (((relativeRois src dst (linTr A) (linTr fwd) 2 pad al).1.1.start : Int) : Rat) ≤ ((A.apply c).2.floor : Rat) := by
        exact_mod_cast m2.1
      have a2 : ((A.apply c).2.floor : Rat) + 1 ≤ (((relativeRois src dst (linTr A) (linTr fwd) 2 pad al).1.1.stop : Int) : Rat) := by
        exact_mod_cast m2.2
      constructor <;> linarith
  rw [← hc] at henvD
  have := nonlinear_covers_partial src dst (linTr A) (linTr fwd) 2 pad al hal dy dx hdy hdx (A.apply c) hqx hqy henvS henvD
  exact this


/-- **Separated ⇒ zero area (any point transform, any alignment).**  When every finite sampled
boundary image lies beyond the source image grown by `padding` on one side, the source region
has zero area and the destination region is `0:0, 0:0`.  (With alignment this relies on the
repaired `_relative_rois`: alignment may not revive an empty padded overlap.) -/
theorem separated_empty (src dst : Shape) (back fwd : PtTr) (pps : Nat) (pad : Int) (al : Option Int)
    (hs : 0 ≤ src.1 ∧ 0 ≤ src.2)
    (h : (∀ p ∈ finitePts (srcSamples dst back pps), p.1 + pad ≤ 0) ∨
         (∀ p ∈ finitePts (srcSamples dst back pps), (src.2 : Rat) ≤ p.1 - pad) ∨
         (∀ p ∈ finitePts (srcSamples dst back pps), p.2 + pad ≤ 0) ∨
         (∀ p ∈ finitePts (srcSamples dst back pps), (src.1 : Rat) ≤ p.2 - pad)) :
    let r := relativeRois src dst back fwd pps pad al
    ROI.isEmpty r.1 = true ∧ r.2 = emptyROI := by
  have e := fromPoints_separated (srcSamples dst back pps) src.1 src.2 pad hs.1 hs.2 h
  simp only [srcSamples] at e
  simp only [relativeRois]
  have ee : ROI.isEmpty emptyROI = true := by decide
  cases al with
  | none =>
    generalize fromPoints ((roiBoundary (⟨0, dst.1⟩, ⟨0, dst.2⟩) pps).map back) src.1 src.2 pad none = Rn at e ⊢
    have c : ¬ ((none : Option Int).isSome = true ∧ ¬ ROI.isEmpty Rn = true ∧ ROI.isEmpty Rn = true) := by
      rintro ⟨h1, _⟩; simp at h1
    rw [if_neg c, if_pos e]
    exact ⟨e, rfl⟩
  | some a =>
    generalize fromPoints ((roiBoundary (⟨0, dst.1⟩, ⟨0, dst.2⟩) pps).map back) src.1 src.2 pad none = Rn at e ⊢
    generalize fromPoints ((roiBoundary (⟨0, dst.1⟩, ⟨0, dst.2⟩) pps).map back) src.1 src.2 pad (some a) = R0
    by_cases h0 : ROI.isEmpty R0 = true
    · have c : ¬ ((some a).isSome = true ∧ ¬ ROI.isEmpty R0 = true ∧ ROI.isEmpty Rn = true) := by
        rintro ⟨_, h2, _⟩; exact h2 h0
      rw [if_neg c, if_pos h0]
      exact ⟨h0, rfl⟩
    · have c : ((some a).isSome = true ∧ ¬ ROI.isEmpty R0 = true ∧ ROI.isEmpty Rn = true) := ⟨rfl, h0, e⟩
      rw [if_pos c, if_pos ee]
      exact ⟨ee, rfl⟩

/-- Affine instance: all four corner images of the destination rectangle beyond the padded
source image on one side ⇒ both regions have zero area. -/
theorem linear_separated_empty (src dst : Shape) (A fwd : Aff) (pad : Int) (al : Option Int)
    (hs : 0 ≤ src.1 ∧ 0 ≤ src.2)
    (h : (∀ c ∈ roiBoundary (⟨0, dst.1⟩, ⟨0, dst.2⟩) 2, (A.apply c).1 + pad ≤ 0) ∨
         (∀ c ∈ roiBoundary (⟨0, dst.1⟩, ⟨0, dst.2⟩) 2, (src.2 : Rat) ≤ (A.apply c).1 - pad) ∨
         (∀ c ∈ roiBoundary (⟨0, dst.1⟩, ⟨0, dst.2⟩) 2, (A.apply c).2 + pad ≤ 0) ∨
         (∀ c ∈ roiBoundary (⟨0, dst.1⟩, ⟨0, dst.2⟩) 2, (src.1 : Rat) ≤ (A.apply c).2 - pad)) :
    let r := relativeRois src dst (linTr A) (linTr fwd) 2 pad al
    ROI.isEmpty r.1 = true ∧ r.2 = emptyROI := by
  apply separated_empty src dst (linTr A) (linTr fwd) 2 pad al hs
  simp only [srcSamples, finitePts_linTr, List.mem_map, forall_exists_index, and_imp, forall_apply_eq_imp_iff₂]
  exact h

/-! ## scale and read-shrink -/

/-- For a scale+translation map the reported per-axis scales are the destination-to-source
pixel-size ratios `|sx|, |sy|` (so `scale` is the smaller of them). -/
theorem scale_is_min_ratio (A : Aff) (n : Rat) (hb : A.b = 0) (hd : A.d = 0) (hn : 0 < n)
    (hroot : n * n = A.a * A.a + A.d * A.d) :
    scale2 A n = (rabs A.a, rabs A.e) ∧
    min (scale2 A n).1 (scale2 A n).2 = min (rabs A.a) (rabs A.e) := by
  have hna : n = rabs A.a := by
    rw [hd] at hroot
    unfold rabs
    split_ifs with c
    · nlinarith
    · have hc : 0 ≤ A.a := not_lt.mp c
      nlinarith
  have e : scale2 A n = (rabs A.a, rabs A.e) := by
    simp only [scale2, Aff.det, hb, zero_mul, sub_zero, Prod.mk.injEq]
    refine ⟨hna, ?_⟩
    have hne : n ≠ 0 := ne_of_gt hn
    rw [div_eq_iff hne, hna]
    unfold rabs
    split_ifs <;> nlinarith
  rw [e]
  exact ⟨rfl, rfl⟩

/-- The read-shrink factor is a positive integer. -/
theorem read_shrink_pos_int (scale tol : Rat) (rs : Int) (h : pickReadScale scale tol = .ok rs) : 1 ≤ rs := by
  rcases pickReadScale_cases scale tol rs h with ⟨_, rfl⟩ | ⟨hs, k⟩
  · exact le_refl _
  · have hfl : 1 ≤ scale.floor := by rw [Rat.le_floor_iff]; exact_mod_cast hs
    rcases k with rfl | ⟨rfl, _⟩ <;> omega

/-- The read-shrink factor is `1` for scales below 1, otherwise `⌊scale⌋`, or the next integer
when the scale is less than `tol` below it: it exceeds the scale by less than the tolerance
(if at all) and is more than `scale - 1`. -/
theorem read_shrink_bound (scale tol : Rat) (rs : Int) (h : pickReadScale scale tol = .ok rs) :
    ((rs : Rat) ≤ max 1 scale ∨ (rs : Rat) - scale < tol) ∧ scale - 1 < rs := by
  have f1 := Rat.floor_le scale
  have f2 : scale < (scale.floor : Rat) + 1 := by
    have := Rat.lt_floor_add_one scale; push_cast at this; exact this
  rcases pickReadScale_cases scale tol rs h with ⟨hs, rfl⟩ | ⟨hs, k⟩
  · exact ⟨Or.inl (by simp), by push_cast; linarith⟩
  · rcases k with rfl | ⟨rfl, k2, k3⟩
    · exact ⟨Or.inl (le_trans f1 (le_max_right _ _)), by linarith⟩
    · have : scale - scale.floor - 1 < 0 := by linarith
      have k2' : -(scale - scale.floor - 1) < tol := by simpa [rabs, this] using k2
      refine ⟨Or.inr (by push_cast; linarith), by push_cast; linarith⟩

/-- `_pick_read_scale` fails (assert) exactly for non-positive scales. -/
theorem read_shrink_error_iff (scale tol : Rat) : (∃ e, pickReadScale scale tol = .error e) ↔ scale ≤ 0 := by
  unfold pickReadScale
  constructor
  · rintro ⟨e, h⟩
    by_contra hc
    have : scale > 0 := not_le.mp hc
    simp only [this, not_true_eq_false, if_false] at h
    split_ifs at h
  · intro h
    exact ⟨.assertion, by simp [not_lt.mpr h]⟩


/-! ## paste path: a true transform within half a pixel of the snapped one -/

/-- **Coverage on the paste path.**  The snapped axis transform has `s = ±1` and an integer
offset `t`.  If the *true* source coordinate `y` of the centre of destination pixel `d` is
within half a pixel of the snapped one and inside the source image, then `d` is in the
destination region and `⌊y⌋` in the source region.  (For a true transform
`y = ±(1+δ)(d+½) + t + ε` the hypothesis holds whenever `|δ|·Nd + |ε| < ½`; without such a
bound it fails, see `paste_drift_cex`.) -/
theorem axis_covers_near (Ns Nd : Int) (s : Rat) (t : Int) (hs : s = 1 ∨ s = -1) (r : NSlice × NSlice)
    (h : axisOverlap Ns Nd s t = .ok r) (d : Int) (hd0 : 0 ≤ d) (hdN : d < Nd) (y : Rat)
    (hnear : rabs (y - (s * ((d : Rat) + 1 / 2) + t)) < 1 / 2) (hy0 : 0 ≤ y) (hyN : y < Ns) :
    (r.2.start ≤ d ∧ d < r.2.stop) ∧ (r.1.start ≤ y.floor ∧ y.floor < r.1.stop) ∧
    y.floor = (s * ((d : Rat) + 1 / 2) + t).floor := by
  -- the snapped centre is `m + ½` for an integer `m`
  obtain ⟨m, hm⟩ : ∃ m : Int, s * ((d : Rat) + 1 / 2) + t = (m : Rat) + 1 / 2 := by
    rcases hs with rfl | rfl
    · exact ⟨d + t, by push_cast; ring⟩
    · exact ⟨-d - 1 + t, by push_cast; ring⟩
  rw [hm] at hnear
  have hn : -(1 / 2) < y - ((m : Rat) + 1 / 2) ∧ y - ((m : Rat) + 1 / 2) < 1 / 2 := by
    unfold rabs at hnear
    split_ifs at hnear with c <;> constructor <;> linarith
  have hfy : y.floor = m := by
    apply le_antisymm
    · have := Rat.floor_le y
      have : (y.floor : Rat) < (m : Rat) + 1 := by linarith
      have : y.floor < m + 1 := by exact_mod_cast this
      omega
    · rw [Rat.le_floor_iff]; linarith
  have hfm : ((m : Rat) + 1 / 2).floor = m := by
    apply le_antisymm
    · have := Rat.floor_le ((m : Rat) + 1 / 2)
      have : ((((m : Rat) + 1 / 2).floor : Int) : Rat) < (m : Rat) + 1 := by linarith
      have : ((m : Rat) + 1 / 2).floor < m + 1 := by exact_mod_cast this
      omega
    · rw [Rat.le_floor_iff]; linarith
  have hm0 : (0 : Rat) ≤ (m : Rat) + 1 / 2 := by
    have : (-1 : Rat) < m := by linarith
    have : (-1 : Int) < m := by exact_mod_cast this
    have : (0 : Rat) ≤ m := by exact_mod_cast (by omega : (0 : Int) ≤ m)
    linarith
  have hmN : (m : Rat) + 1 / 2 < Ns := by
    have : (m : Rat) < Ns := by linarith
    have : m < Ns := by exact_mod_cast this
    have : (m : Rat) + 1 ≤ Ns := by exact_mod_cast (by omega : m + 1 ≤ Ns)
    linarith
  have c1 := axis_dst_covers Ns Nd s t r h d hd0 hdN (by rw [hm]; exact hm0) (by rw [hm]; exact hmN)
  have c2 := axis_src_covers Ns Nd s t r h d hd0 hdN (by rw [hm]; exact hm0) (by rw [hm]; exact hmN)
  rw [hm, hfm] at c2
  rw [hm, hfm, hfy]
  exact ⟨c1, c2, rfl⟩

/-- Counterexample to coverage on the paste path *without* the half-pixel bound: the true
x-scale `2047/2048` (within `stol = 1e-3` of 1, so it is snapped to 1), 4096-pixel source,
4100-pixel destination.  The snapped plan ends the destination region at 4096, yet the centre
of destination pixel 4097 maps to `≈ 4095.499` inside the source image.  (Replayed on the real
code by the harness: known finding `paste-scale-drift-dst-pixel-dropped`.) -/
theorem paste_drift_cex :
    (axisOverlap 4096 4100 1 0 = .ok (⟨0, 4096⟩, ⟨0, 4096⟩)) ∧
    (0 ≤ (2047 / 2048 : Rat) * ((4097 : Rat) + 1 / 2) + 0 ∧ (2047 / 2048 : Rat) * ((4097 : Rat) + 1 / 2) + 0 < 4096) ∧
    ¬ ((4097 : Int) < 4096) := by
  refine ⟨by decide +kernel, by norm_num, by decide⟩

/-! ## the whole plan: `compute_reproject_roi`, same-CRS branch -/

/-- Scale and read-shrink claims of the plan. -/
theorem plan_scale (src dst : Shape) (fwd A : Aff) (n ttol stol : Rat) (padding align : Option Int) (p : Plan)
    (h : reprojectLinear src dst fwd A n ttol stol padding align = .ok p) :
    p.scale2 = scale2 A n ∧ p.scale = min p.scale2.1 p.scale2.2 ∧ 1 ≤ p.readShrink ∧
    (((p.readShrink : Rat) ≤ max 1 p.scale ∨ (p.readShrink : Rat) - p.scale < tol1em3) ∧ p.scale - 1 < p.readShrink) := by
  obtain ⟨h1, h2, h3, _⟩ := reprojectLinear_cases h
  rw [h3, h2]
  exact ⟨rfl, rfl, read_shrink_pos_int _ _ _ h1, read_shrink_bound _ _ _ h1⟩

/-- **Within.**  The destination region lies in the destination image; the source region lies in
the source image, except on the overview path (`paste_ok`, read-shrink `k > 1`), where it is `k`
times a region of the `k`-fold overview and so may extend to the next multiple of `k`:
its stop is at most `⌈N/k⌉·k < N + k`. -/
theorem plan_within (src dst : Shape) (fwd A : Aff) (n ttol stol : Rat) (padding align : Option Int) (p : Plan)
    (hs : 1 ≤ src.1 ∧ 1 ≤ src.2) (hd : 0 ≤ dst.1 ∧ 0 ≤ dst.2)
    (h : reprojectLinear src dst fwd A n ttol stol padding align = .ok p) :
    ((0 ≤ p.roiDst.1.start ∧ p.roiDst.1.stop ≤ dst.1) ∧ (0 ≤ p.roiDst.2.start ∧ p.roiDst.2.stop ≤ dst.2)) ∧
    (0 ≤ p.roiSrc.1.start ∧ 0 ≤ p.roiSrc.2.start) ∧
    ((p.pasteOk = false ∨ p.readShrink = 1) → p.roiSrc.1.stop ≤ src.1 ∧ p.roiSrc.2.stop ≤ src.2) ∧
    (p.roiSrc.1.stop ≤ zoomOutDim src.1 p.readShrink * p.readShrink ∧ zoomOutDim src.1 p.readShrink * p.readShrink < src.1 + p.readShrink) ∧
    (p.roiSrc.2.stop ≤ zoomOutDim src.2 p.readShrink * p.readShrink ∧ zoomOutDim src.2 p.readShrink * p.readShrink < src.2 + p.readShrink) := by
  obtain ⟨h1, _, _, hc⟩ := reprojectLinear_cases h
  have hrs := read_shrink_pos_int _ _ _ h1
  have z1 := zoomOutDim_spec src.1 p.readShrink hs.1 hrs
  have z2 := zoomOutDim_spec src.2 p.readShrink hs.2 hrs
  rcases hc with ⟨hp, hr⟩ | ⟨hp, _, _, _, hr⟩
  · have w := relative_within src dst (linTr A) (linTr fwd) 2 (padOr1 padding) (normAlign align)
      ⟨by omega, by omega⟩ hd
    rw [← hr] at w
    simp only at w
    refine ⟨w.2, ⟨w.1.1.1, w.1.2.1⟩, fun _ => ⟨w.1.1.2, w.1.2.2⟩, ⟨by omega, z1.2⟩, ⟨by omega, z2.2⟩⟩
  · rcases hr with ⟨hr1, hb⟩ | ⟨hr1, r', hb, hsrc⟩
    · have w := box_within src dst _ ⟨by omega, by omega⟩ hd _ hb
      simp only at w
      refine ⟨⟨⟨w.2.1.1, w.2.1.2.2⟩, ⟨w.2.2.1, w.2.2.2.2⟩⟩, ⟨w.1.1.1, w.1.2.1⟩, fun _ => ⟨w.1.1.2.2, w.1.2.2.2⟩,
        ⟨by omega, z1.2⟩, ⟨by omega, z2.2⟩⟩
    · have w := box_within (zoomOutDim src.1 p.readShrink, zoomOutDim src.2 p.readShrink) dst _
        ⟨by simp only [zoomOutDim]; omega, by simp only [zoomOutDim]; omega⟩ hd _ hb
      simp only at w
      have e1 : p.roiSrc.1 = ⟨r'.1.start * p.readShrink, r'.1.stop * p.readShrink⟩ := by
        rw [hsrc]; simp [scaledUpROI, scaledUpSlice]
      have e2 : p.roiSrc.2 = ⟨r'.2.start * p.readShrink, r'.2.stop * p.readShrink⟩ := by
        rw [hsrc]; simp [scaledUpROI, scaledUpSlice]
      have hk : 0 ≤ p.readShrink := by omega
      refine ⟨⟨⟨w.2.1.1, w.2.1.2.2⟩, ⟨w.2.2.1, w.2.2.2.2⟩⟩, ?_, ?_, ⟨?_, z1.2⟩, ⟨?_, z2.2⟩⟩
      · rw [e1, e2]; exact ⟨Int.mul_nonneg w.1.1.1 hk, Int.mul_nonneg w.1.2.1 hk⟩
      · rintro (hf | h1')
        · rw [hp] at hf; exact absurd hf (by simp)
        · exact absurd h1' hr1
      · rw [e1]; exact Int.mul_le_mul_of_nonneg_right w.1.1.2.2 hk
      · rw [e2]; exact Int.mul_le_mul_of_nonneg_right w.1.2.2.2 hk

/-- **Coverage of the plan when pasting is not possible** (rotation, shear, fractional scale,
sub-pixel shift, or padding/alignment requested): for the true transform `A` (with inverse
`fwd`) every destination pixel whose centre maps inside the source lies in `roi_dst` and the
source pixel it maps to in `roi_src`. -/
theorem plan_nonpaste_covers (src dst : Shape) (fwd A : Aff) (n ttol stol : Rat) (padding align : Option Int)
    (p : Plan) (h : reprojectLinear src dst fwd A n ttol stol padding align = .ok p) (hnp : p.pasteOk = false)
    (hdet : A.det ≠ 0) (hinv : ∀ q, fwd.apply (A.apply q) = q)
    (hpad : ∀ k, padding = some k → 0 ≤ k) (hal : ∀ a, align = some a → 0 ≤ a)
    (dy dx : Int) (hdy : 0 ≤ dy ∧ dy < dst.1) (hdx : 0 ≤ dx ∧ dx < dst.2)
    (hqx : 0 ≤ (A.apply ((dx : Rat) + 1 / 2, (dy : Rat) + 1 / 2)).1 ∧
           (A.apply ((dx : Rat) + 1 / 2, (dy : Rat) + 1 / 2)).1 < src.2)
    (hqy : 0 ≤ (A.apply ((dx : Rat) + 1 / 2, (dy : Rat) + 1 / 2)).2 ∧
           (A.apply ((dx : Rat) + 1 / 2, (dy : Rat) + 1 / 2)).2 < src.1) :
    (p.roiDst.1.start ≤ dy ∧ dy < p.roiDst.1.stop) ∧ (p.roiDst.2.start ≤ dx ∧ dx < p.roiDst.2.stop) ∧
    (p.roiSrc.2.start ≤ (A.apply ((dx : Rat) + 1 / 2, (dy : Rat) + 1 / 2)).1.floor ∧
      (A.apply ((dx : Rat) + 1 / 2, (dy : Rat) + 1 / 2)).1.floor < p.roiSrc.2.stop) ∧
    (p.roiSrc.1.start ≤ (A.apply ((dx : Rat) + 1 / 2, (dy : Rat) + 1 / 2)).2.floor ∧
      (A.apply ((dx : Rat) + 1 / 2, (dy : Rat) + 1 / 2)).2.floor < p.roiSrc.1.stop) := by
  obtain ⟨_, _, _, hc⟩ := reprojectLinear_cases h
  rcases hc with ⟨_, hr⟩ | ⟨hp, _⟩
  · have hpad' : 0 ≤ padOr1 padding := by
      cases padding with
      | none => simp [padOr1]
      | some k => exact hpad k rfl
    have hal' : ∀ a, normAlign align = some a → 0 < a := by
      intro a ha
      unfold normAlign at ha
      split_ifs at ha with c
      have := hal a ha
      rcases lt_or_eq_of_le this with h' | h'
      · exact h'
      · exact absurd (by rw [ha, ← h']) c
    have c := linear_covers src dst A fwd hdet hinv (padOr1 padding) hpad' (normAlign align) hal' dy dx hdy hdx hqx hqy
    rw [← hr] at c
    exact c
  · rw [hp] at hnp; exact absurd hnp (by simp)

/-- Separated footprints on the padded path of the plan ⇒ both regions have zero area. -/
theorem plan_separated_empty (src dst : Shape) (fwd A : Aff) (n ttol stol : Rat) (padding align : Option Int)
    (p : Plan) (h : reprojectLinear src dst fwd A n ttol stol padding align = .ok p) (hnp : p.pasteOk = false)
    (hs : 0 ≤ src.1 ∧ 0 ≤ src.2)
    (hsep : (∀ c ∈ roiBoundary (⟨0, dst.1⟩, ⟨0, dst.2⟩) 2, (A.apply c).1 + padOr1 padding ≤ 0) ∨
         (∀ c ∈ roiBoundary (⟨0, dst.1⟩, ⟨0, dst.2⟩) 2, (src.2 : Rat) ≤ (A.apply c).1 - padOr1 padding) ∨
         (∀ c ∈ roiBoundary (⟨0, dst.1⟩, ⟨0, dst.2⟩) 2, (A.apply c).2 + padOr1 padding ≤ 0) ∨
         (∀ c ∈ roiBoundary (⟨0, dst.1⟩, ⟨0, dst.2⟩) 2, (src.1 : Rat) ≤ (A.apply c).2 - padOr1 padding)) :
    ROI.isEmpty p.roiSrc = true ∧ p.roiDst = emptyROI := by
  obtain ⟨_, _, _, hc⟩ := reprojectLinear_cases h
  rcases hc with ⟨_, hr⟩ | ⟨hp, _⟩
  · have c := linear_separated_empty src dst A fwd (padOr1 padding) (normAlign align) hs hsep
    rw [← hr] at c
    exact c
  · rw [hp] at hnp; exact absurd hnp (by simp)

/-- On the paste path the regions are exactly `box_overlap` of the snapped transform (of the
`k`-fold overview, scaled back up by `k`, when read-shrink is `k > 1`), so `box_covers`,
`box_within` and `axis_disjoint_empty` apply to them. -/
theorem plan_paste_is_box (src dst : Shape) (fwd A : Aff) (n ttol stol : Rat) (padding align : Option Int)
    (p : Plan) (h : reprojectLinear src dst fwd A n ttol stol padding align = .ok p) (hp : p.pasteOk = true) :
    canPaste A n stol ttol = .ok true ∧ (align = none ∨ align = some 0) ∧ (padding = none ∨ padding = some 0) ∧
    ((p.readShrink = 1 ∧ boxOverlap src dst (snapAffine A ttol stol) = .ok (p.roiSrc, p.roiDst)) ∨
     (p.readShrink ≠ 1 ∧ ∃ r' : ROI,
        boxOverlap (zoomOutDim src.1 p.readShrink, zoomOutDim src.2 p.readShrink) dst
          (snapAffine (Aff.scale (1 / (p.readShrink : Rat)) (1 / (p.readShrink : Rat)) * A) ttol stol)
          = .ok (r', p.roiDst) ∧ p.roiSrc = scaledUpROI r' p.readShrink)) := by
  obtain ⟨_, _, _, hc⟩ := reprojectLinear_cases h
  rcases hc with ⟨hf, _⟩ | ⟨_, h1, h2, h3, h4⟩
  · rw [hp] at hf; exact absurd hf (by simp)
  · refine ⟨h1, ?_, h3, h4⟩
    unfold normAlign at h2
    split_ifs at h2 with c
    · right; exact c
    · left; exact h2

/-! ## cross-CRS branch -/

/-- The cross-CRS plan never pastes, its regions are `_relative_rois` with 5 points per side and
default padding 1 (so `relative_within`, `separated_empty`, `nonlinear_covers_partial` apply),
and its read-shrink is a positive integer. -/
theorem nonlinear_plan (src dst : Shape) (back fwd : PtTr) (scaleAt : Rat × Rat → Rat × Rat)
    (padding align : Option Int) (p : Plan)
    (h : reprojectNonlinear src dst back fwd scaleAt padding align = .ok p) :
    p.pasteOk = false ∧ 1 ≤ p.readShrink ∧
    (p.roiSrc, p.roiDst) = relativeRois src dst back fwd 5 (padOr1 padding) (normAlign align) := by
  unfold reprojectNonlinear at h
  dsimp only at h
  split_ifs at h with c
  · simp only [Except.ok.injEq] at h
    subst h
    exact ⟨rfl, le_refl _, rfl⟩
  · split at h
    · simp at h
    · rename_i rs hrs
      simp only [Except.ok.injEq] at h
      subst h
      exact ⟨rfl, read_shrink_pos_int _ _ _ hrs, rfl⟩

/-! ## sampled boundary points, `roi_center`, `get_scale_at_point` -/

/-- **Every sampled boundary point is covered.**  When the padded envelope of the samples is not empty, the source region
of `_relative_rois` is the aligned padded envelope, and every finite sample that falls in the source image lies in it
together with its `padding` neighbourhood (clamped to the image) — whatever the transform does between the samples. -/
theorem relative_samples_covered (src dst : Shape) (back fwd : PtTr) (pps : Nat) (pad : Int) (al : Option Int)
    (hp : 0 ≤ pad) (hal : ∀ a, al = some a → 0 < a)
    (hne : ROI.isEmpty (fromPoints (srcSamples dst back pps) src.1 src.2 pad none) = false)
    (x y : Rat) (hmem : (Coord.fin x, Coord.fin y) ∈ srcSamples dst back pps)
    (hx : 0 ≤ x ∧ x ≤ src.2) (hy : 0 ≤ y ∧ y ≤ src.1) :
    let r := relativeRois src dst back fwd pps pad al
    r.1 = fromPoints (srcSamples dst back pps) src.1 src.2 pad al ∧
    ((r.1.2.start : Rat) ≤ max 0 (x - pad) ∧ min (src.2 : Rat) (x + pad) ≤ r.1.2.stop) ∧
    ((r.1.1.start : Rat) ≤ max 0 (y - pad) ∧ min (src.1 : Rat) (y + pad) ≤ r.1.1.stop) := by
  have c := from_points_contains (srcSamples dst back pps) src.1 src.2 pad al x y hmem hx hy hp hal
  have e : (relativeRois src dst back fwd pps pad al).1 =
      fromPoints (srcSamples dst back pps) src.1 src.2 pad al := by
    unfold srcSamples at hne ⊢
    simp only [relativeRois, hne, Bool.false_eq_true, and_false, if_false]
    split_ifs <;> rfl
  simp only
  rw [e]
  exact ⟨rfl, c⟩

/-- **The scale is estimated at `roi_center(roi_dst)`.**  In the cross-CRS branch with a non-empty destination region the
point handed to `get_scale_at_point` is `(roi_center x-slice, roi_center y-slice)` of `roi_dst` as computed by C17's
`slice_center` (no sign flip, no swap of axes), `scale` is the smaller component and read-shrink is `_pick_read_scale` of
it. -/
theorem nonlinear_scale_point_is_roi_center (src dst : Shape) (back fwd : PtTr) (scaleAt : Rat × Rat → Rat × Rat)
    (padding align : Option Int) (p : Plan) (hs : 0 ≤ src.1 ∧ 0 ≤ src.2) (hd : 0 ≤ dst.1 ∧ 0 ≤ dst.2)
    (h : reprojectNonlinear src dst back fwd scaleAt padding align = .ok p)
    (hne : ROI.isEmpty p.roiDst = false) :
    ∃ cx cy : Rat, sliceCenter (.slc (some p.roiDst.2.start) (some p.roiDst.2.stop)) = .ok cx ∧
      sliceCenter (.slc (some p.roiDst.1.start) (some p.roiDst.1.stop)) = .ok cy ∧
      p.scale2 = scaleAt (cx, cy) ∧ p.scale = min p.scale2.1 p.scale2.2 ∧
      pickReadScale p.scale = .ok p.readShrink := by
  have w := relative_within src dst back fwd 5 (padOr1 padding) (normAlign align) hs hd
  obtain ⟨_, _, hr⟩ := nonlinear_plan src dst back fwd scaleAt padding align p h
  unfold reprojectNonlinear at h
  dsimp only at h
  have e2 : (relativeRois src dst back fwd 5 (padOr1 padding) (normAlign align)).2 = p.roiDst := by rw [← hr]
  have e1 : (relativeRois src dst back fwd 5 (padOr1 padding) (normAlign align)).1 = p.roiSrc := by rw [← hr]
  rw [e2, e1] at h
  simp only at w
  rw [e2] at w
  simp only [hne, Bool.false_eq_true, not_false_eq_true, if_true] at h
  have cxe := center_eq p.roiDst.2.start p.roiDst.2.stop ⟨w.2.2.1, by
    have := w.2.2.2
    by_contra hc
    simp only [ROI.isEmpty, Bool.or_eq_false_iff, decide_eq_false_iff_not] at hne
    omega⟩
  have cye := center_eq p.roiDst.1.start p.roiDst.1.stop ⟨w.2.1.1, by
    by_contra hc
    simp only [ROI.isEmpty, Bool.or_eq_false_iff, decide_eq_false_iff_not] at hne
    omega⟩
  refine ⟨_, _, cxe, cye, ?_⟩
  split at h
  · simp at h
  · rename_i rs hrs
    simp only [Except.ok.injEq] at h
    have hsc2 := congrArg Plan.scale2 h
    have hsc := congrArg Plan.scale h
    have hrsq := congrArg Plan.readShrink h
    simp only at hsc2 hsc hrsq
    refine ⟨hsc2.symm, ?_, ?_⟩
    · rw [← hsc, ← hsc2]
    · rw [← hsc, ← hrsq]; exact hrs

/-- With an empty destination region the cross-CRS plan reports `scale = 0`, `scale2 = (0, 0)` and read-shrink 1. -/
theorem nonlinear_empty_scale (src dst : Shape) (back fwd : PtTr) (scaleAt : Rat × Rat → Rat × Rat)
    (padding align : Option Int) (p : Plan)
    (h : reprojectNonlinear src dst back fwd scaleAt padding align = .ok p) (he : ROI.isEmpty p.roiDst = true) :
    p.scale = 0 ∧ p.scale2 = (0, 0) ∧ p.readShrink = 1 := by
  obtain ⟨_, _, hr⟩ := nonlinear_plan src dst back fwd scaleAt padding align p h
  unfold reprojectNonlinear at h
  dsimp only at h
  have e2 : (relativeRois src dst back fwd 5 (padOr1 padding) (normAlign align)).2 = p.roiDst := by rw [← hr]
  rw [e2] at h
  simp only [he, not_true_eq_false, if_false, Except.ok.injEq] at h
  exact ⟨(congrArg Plan.scale h).symm, (congrArg Plan.scale2 h).symm, (congrArg Plan.readShrink h).symm⟩

/-- **`affine_from_pts` on the stencil recovers an affine map exactly**: all six coefficients, for every stencil centre
and radius `r ≠ 0` (however far from the origin: there is no conditioning in exact arithmetic). -/
theorem stencil_exact_for_affine (A : Aff) (pt : Rat × Rat) (r : Rat) (hr : r ≠ 0) :
    stencilAffine A.apply pt r = A := by
  obtain ⟨a, b, c, d, e, f⟩ := A
  simp only [stencilAffine, Aff.apply]
  have h2 : (2 : Rat) * r ≠ 0 := by intro h; apply hr; linarith
  ext <;> simp only <;> field_simp <;> ring

/-- so `get_scale_at_point` of an affine transform is `get_scale_from_linear_transform` of it, at every point -/
theorem scale_at_point_affine (A : Aff) (pt : Rat × Rat) (r n : Rat) (hr : r ≠ 0) :
    scaleAtPoint A.apply pt r n = scale2 A n := by
  simp only [scaleAtPoint, stencil_exact_for_affine A pt r hr]

/-- **The closed form IS the least-squares fit**: for ANY transform the residuals of the fitted map on the five stencil
points satisfy the normal equations of `lstsq([x y 1], Y)` — they sum to zero and are orthogonal to the `x` and to the
`y` column — in both output coordinates. -/
theorem stencil_normal_equations (tr : Rat × Rat → Rat × Rat) (pt : Rat × Rat) (r : Rat) (hr : r ≠ 0) :
    let F := stencilAffine tr pt r
    let res := (stencilPts pt r).map fun q => ((tr q).1 - (F.apply q).1, (tr q).2 - (F.apply q).2)
    let xs := (stencilPts pt r).map (·.1)
    let ys := (stencilPts pt r).map (·.2)
    (res.map (·.1)).sum = 0 ∧ (res.map (·.2)).sum = 0 ∧
    ((List.zipWith (· * ·) xs (res.map (·.1))).sum = 0 ∧ (List.zipWith (· * ·) ys (res.map (·.1))).sum = 0) ∧
    ((List.zipWith (· * ·) xs (res.map (·.2))).sum = 0 ∧ (List.zipWith (· * ·) ys (res.map (·.2))).sum = 0) := by
  have h2 : (2 : Rat) * r ≠ 0 := by intro h; apply hr; linarith
  simp only [stencilPts, stencilAffine, Aff.apply, List.map_cons, List.map_nil, List.sum_cons, List.sum_nil,
    List.zipWith_cons_cons, List.zipWith_nil_right]
  refine ⟨?_, ?_, ⟨?_, ?_⟩, ⟨?_, ?_⟩⟩ <;> field_simp <;> ring

/-! ## `_pick_read_scale`: truncation, not rounding -/

/-- **Read-shrink is 1 for every scale below `2 − tol`** (`tol ≥ 0`): nothing is read from an overview unless the
destination pixels are (within `tol` of) at least twice the source pixels. -/
theorem read_shrink_one_below_two (scale tol : Rat) (rs : Int) (h : pickReadScale scale tol = .ok rs)
    (htol : 0 ≤ tol) (hlt : scale < 2 - tol) : rs = 1 := by
  rcases pickReadScale_cases scale tol rs h with ⟨_, rfl⟩ | ⟨hs, k⟩
  · rfl
  · have f1 := Rat.floor_le scale
    have hfl : 1 ≤ scale.floor := by rw [Rat.le_floor_iff]; exact_mod_cast hs
    rcases k with rfl | ⟨_, k2, k3⟩
    · by_contra hc
      have : (2 : Int) ≤ scale.floor := by omega
      have : (2 : Rat) ≤ (scale.floor : Rat) := by exact_mod_cast this
      linarith
    · -- snapping up needs `1 - frac < tol`, i.e. `scale > ⌊scale⌋ + 1 - tol ≥ 2 - tol`
      have hfq : (1 : Rat) ≤ (scale.floor : Rat) := by exact_mod_cast hfl
      have hneg : scale - scale.floor - 1 < 0 := by linarith
      have k2' : -(scale - scale.floor - 1) < tol := by simpa [rabs, hneg] using k2
      linarith

/-- **Truncation, not rounding.**  For `scale ≥ 1` whose fractional part is at most `1 − tol` (not within `tol` below the
next integer) read-shrink is exactly `⌊scale⌋`: `2.6 ↦ 2`, `2.9 ↦ 2`, never `3`. -/
theorem read_shrink_truncates (scale tol : Rat) (rs : Int) (h : pickReadScale scale tol = .ok rs)
    (hs : 1 ≤ scale) (hfrac : scale - scale.floor ≤ 1 - tol) : rs = scale.floor := by
  rcases pickReadScale_cases scale tol rs h with ⟨hlt, _⟩ | ⟨_, k⟩
  · linarith
  · rcases k with rfl | ⟨_, k2, k3⟩
    · rfl
    · have hneg : scale - scale.floor - 1 < 0 := by
        have f2 : scale < (scale.floor : Rat) + 1 := by
          have := Rat.lt_floor_add_one scale; push_cast at this; exact this
        linarith
      have k2' : -(scale - scale.floor - 1) < tol := by simpa [rabs, hneg] using k2
      linarith

/-! ## non-vacuity: concrete instances -/

example : axisOverlap 10 10 2 (-3 / 2) = .ok (⟨0, 10⟩, ⟨0, 6⟩) := by decide +kernel
example : axisOverlap 10 10 (-1) 7 = .ok (⟨0, 7⟩, ⟨0, 7⟩) := by decide +kernel
example : relativeRois (100, 100) (50, 50) (linTr ⟨1, 0, 103, 0, 1, 10⟩) (linTr ⟨1, 0, -103, 0, 1, -10⟩) 2 1 (some 16)
    = (emptyROI, emptyROI) := by decide +kernel
example : pickReadScale (1 / 2) (1 / 8) = .ok 1 := by decide +kernel
-- a quadratic map: the fit at (10, 20) is its tangent map there (a = 2·10/8, b = 0, d = 0, e = 1)
example : stencilAffine (fun q => (q.1 * q.1 / 8, q.2)) (10, 20) 1 = ⟨5 / 2, 0, -249 / 20, 0, 1, 0⟩ := by decide +kernel
example : (reprojectNonlinear (50, 60) (20, 30) (linTr ⟨2, 0, 3, 0, 2, 5⟩) (linTr ⟨1 / 2, 0, -3 / 2, 0, 1 / 2, -5 / 2⟩)
    (fun c => scaleAtPoint (Aff.apply ⟨2, 0, 3, 0, 2, 5⟩) c 1 2) none none).toOption.map
      (fun p => (p.roiSrc, p.roiDst, p.readShrink)) = some ((⟨4, 46⟩, ⟨2, 60⟩), (⟨0, 20⟩, ⟨0, 29⟩), 2) := by decide +kernel

end OdcGeo.C03
