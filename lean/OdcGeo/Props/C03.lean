/- C03 — property theorems only. -/
import OdcGeo.Model.C03
namespace OdcGeo.C03

end OdcGeo.C03
