/-
C10 — theorems about the public warp entry points (`OdcGeo.Model.C10Nd`) and about the public calling convention
(`OdcGeo.Model.C10Sig`).
-/
import OdcGeo.Model.C10Nd
import OdcGeo.Model.C10Sig
import OdcGeo.Lemmas.Affine
import Mathlib.Tactic.Ring
import Mathlib.Data.List.Nodup
namespace OdcGeo.C10
open OdcGeo.C17 OdcGeo.C03

/-! ## `rio_reproject`'s float default, `warp_affine` -/

theorem rioDstNodata_idem (f : Bool) (nan : Int) (dn : Option Int) :
    rioDstNodata f nan (rioDstNodata f nan dn) = rioDstNodata f nan dn := by
  cases dn <;> cases f <;> simp [rioDstNodata]

/-- For a non-float destination, or when `dst_nodata` is given, `rio_reproject` is `_rio_reproject`; for a float
destination without `dst_nodata` it is `_rio_reproject` with `dst_nodata = NaN`. -/
theorem rio_reproject2_eq (t : PixT) (f : Bool) (nan : Int) (src dst : Int → Int → Int) (shape : Int × Int) (A : Aff)
    (sn dn : Option Int) (init : Bool) (dy dx : Int) :
    rioReproject2 t f nan src dst shape A sn dn init dy dx =
      rioNN t src dst shape A sn (if f = true ∧ dn = none then some nan else dn) init dy dx := by
  unfold rioReproject2 rioDstNodata
  cases dn <;> cases f <;> simp

/-- `warp_affine(src, dst, A, …)`: the destination → source pixel transform GDAL is given (identity source grid, `A`
as destination grid) is `A` itself. -/
theorem warp_affine_transform (A : Aff) : Aff.id.inv * A = A := by
  have : Aff.id.inv = Aff.id := by decide +kernel
  rw [this, Aff.id_mul]

theorem warp_affine_eq (t : PixT) (src dst : Int → Int → Int) (shape : Int × Int) (A : Aff) (sn dn : Option Int)
    (init : Bool) (dy dx : Int) :
    warpAffine t src dst shape A sn dn init dy dx = rioNN t src dst shape A sn dn init dy dx := by
  unfold warpAffine; rw [warp_affine_transform]

/-- **The two public entry points differ on float rasters**: a destination pixel no source pixel maps to, freshly
initialised, no nodata given — `rio_reproject` leaves NaN there, `warp_affine` leaves 0. -/
theorem float_default_differs (nan : Int) (src dst : Int → Int → Int) (shape : Int × Int) (A : Aff) (dy dx : Int)
    (hmiss : nnPick shape A dy dx = none) :
    rioReproject2 .other true nan src dst shape A none none true dy dx = nan ∧
    warpAffine .other src dst shape A none none true dy dx = 0 := by
  constructor
  · simp [rioReproject2, rioDstNodata, rioNN, gdalNN, hmiss, fromWork, stretchNodata, effFill]
  · rw [warp_affine_eq]
    simp [rioNN, gdalNN, hmiss, fromWork, stretchNodata, effFill]

/-! ## the plane loop -/

theorem length_of_mem_ndindex : ∀ (dims : List Nat) (idx : List Nat), idx ∈ ndindex dims → idx.length = dims.length
  | [], idx, h => by simp [ndindex] at h; simp [h]
  | d :: ds, idx, h => by
    simp only [ndindex, List.mem_flatMap, List.mem_range, List.mem_map] at h
    obtain ⟨i, _, r, hr, rfl⟩ := h
    simp [length_of_mem_ndindex ds r hr]

theorem ndindex_nodup : ∀ dims : List Nat, (ndindex dims).Nodup
  | [] => by simp [ndindex]
  | d :: ds => by
    simp only [ndindex]
    rw [List.nodup_flatMap]
    constructor
    · intro i _
      exact (ndindex_nodup ds).map (fun a b h => by simpa using h)
    · refine (List.nodup_range).pairwise_of_forall_ne ?_
      intro i _ j _ hij
      simp only [Function.onFun, List.disjoint_left, List.mem_map]
      rintro x ⟨a, _, rfl⟩ ⟨b, _, hb⟩
      simp at hb
      exact hij hb.1.symm

/-- the selector of plane `idx` and the plane of a coordinate are inverse to each other -/
theorem extraOf_planeCoord (idx : List Nat) (yd y x : Nat) (h : yd ≤ idx.length) :
    extraOf (planeCoord idx yd y x) yd = idx := by
  unfold extraOf planeCoord
  have hl : (idx.take yd).length = yd := by simp [h]
  have e1 : (idx.take yd ++ [y, x] ++ idx.drop yd).take yd = idx.take yd := by
    rw [List.append_assoc, List.take_append_of_le_length (by omega), List.take_of_length_le (by omega)]
  have e2 : (idx.take yd ++ [y, x] ++ idx.drop yd).drop (yd + 2) = idx.drop yd := by
    have : (idx.take yd ++ [y, x]).length = yd + 2 := by simp [hl]
    rw [← this, List.drop_left]
  rw [e1, e2, List.take_append_drop]

/-- the fold over distinct planes: each listed plane is computed once, from the ORIGINAL content of that plane -/
theorem fold_planes (step : NdArr → List Nat → NdArr) (yd : Nat) (G : List Nat → (Int → Int → Int) → List Nat → Int)
    (hstep : ∀ acc idx c, step acc idx c = if extraOf c yd = idx then G idx (planeOf acc idx yd) c else acc c) :
    ∀ (keys : List (List Nat)), keys.Nodup → (∀ k ∈ keys, yd ≤ k.length) → ∀ (acc : NdArr) (c : List Nat),
      keys.foldl step acc c =
        if extraOf c yd ∈ keys then G (extraOf c yd) (planeOf acc (extraOf c yd) yd) c else acc c
  | [], _, _, acc, c => by simp
  | k :: ks, hnd, hlen, acc, c => by
    rw [List.foldl_cons, fold_planes step yd G hstep ks (List.nodup_cons.mp hnd).2
      (fun k' hk' => hlen k' (List.mem_cons_of_mem _ hk')) (step acc k) c]
    have hk : k ∉ ks := (List.nodup_cons.mp hnd).1
    by_cases he : extraOf c yd ∈ ks
    · have hne : extraOf c yd ≠ k := fun h => hk (h ▸ he)
      rw [if_pos he, if_pos (List.mem_cons_of_mem _ he)]
      congr 1
      funext i j
      simp only [planeOf]
      rw [hstep, if_neg]
      rw [extraOf_planeCoord _ _ _ _ (hlen _ (List.mem_cons_of_mem _ he))]
      exact hne
    · rw [if_neg he, hstep]
      by_cases hek : extraOf c yd = k
      · rw [if_pos hek, if_pos (by rw [hek]; exact List.mem_cons_self), hek]
      · rw [if_neg hek, if_neg]
        simp only [List.mem_cons, not_or]
        exact ⟨hek, he⟩

/-- **Every plane exactly once, independent of the others.**  For an N-d call that does not raise: an element whose
plane index (its coordinate without the Y and X entries) is one of the source's planes holds the 2-D `rio_reproject` of
that source plane INTO THE ORIGINAL content of the same destination plane — whatever was written to other planes
before; every other element (surplus planes of a bigger destination) is unchanged.  `ydim = None` means the last two
axes. -/
theorem nd_every_plane_once (t : PixT) (f : Bool) (nan : Int) (src dst : NdArr) (sshape dshape : List Nat)
    (ydim : Option Nat) (A : Aff) (sn dn : Option Int) (init : Bool) (out : NdArr)
    (hy : ydimOf sshape.length ydim + 2 ≤ sshape.length)
    (h : rioReprojectNd t f nan src dst sshape dshape ydim A sn dn init = .ok out) (c : List Nat) :
    let yd := ydimOf sshape.length ydim
    out c =
      if extraOf c yd ∈ ndindex (extraDims sshape yd) then
        rioReproject2 t f nan (planeOf src (extraOf c yd) yd) (planeOf dst (extraOf c yd) yd)
          ((sshape.getD yd 0 : Nat), (sshape.getD (yd + 1) 0 : Nat)) A sn dn init
          ((c.getD yd 0 : Nat) : Int) ((c.getD (yd + 1) 0 : Nat) : Int)
      else dst c := by
  intro yd
  unfold rioReprojectNd at h
  simp only at h
  split_ifs at h
  simp only [Except.ok.injEq] at h
  subst h
  have hlen : ∀ k ∈ ndindex (extraDims sshape yd), yd ≤ k.length := by
    intro k hk
    rw [length_of_mem_ndindex _ _ hk]
    simp only [extraDims, List.length_append, List.length_take, List.length_drop]
    have : yd + 2 ≤ sshape.length := hy
    omega
  exact fold_planes _ yd
    (fun idx pl c => rioReproject2 t f nan (planeOf src idx yd) pl
      ((sshape.getD yd 0 : Nat), (sshape.getD (yd + 1) 0 : Nat)) A sn dn init
      ((c.getD yd 0 : Nat) : Int) ((c.getD (yd + 1) 0 : Nat) : Int))
    (fun acc idx c => rfl) _ (ndindex_nodup _) hlen dst c

/-! ## the calling convention -/

/-- The default tolerances of the public signatures are the constants the model's functions default to, and in the
documented positional order the TRANSLATION tolerance comes before the SCALE tolerance, both in
`compute_reproject_roi(src, dst, ttol, stol, …)` and in `snap_affine(A, ttol, stol, tol)`. -/
theorem signature_defaults_tie :
    defaultOf "math.snap_affine" "tol" = some tol1em8 ∧ defaultOf "math.is_affine_st" "tol" = some tol1em10 ∧
    defaultOf "overlap.compute_reproject_roi" "stol" = some tol1em3 ∧
    (∀ A ttol stol, snapAffine A ttol stol = snapAffine A ttol stol tol1em8) ∧
    (∀ A, isAffineST A = isAffineST A tol1em10) ∧
    positionOf "overlap.compute_reproject_roi" "ttol" = some 2 ∧ positionOf "overlap.compute_reproject_roi" "stol" = some 3 ∧
    positionOf "math.snap_affine" "ttol" = some 1 ∧ positionOf "math.snap_affine" "stol" = some 2 := by
  refine ⟨by decide +kernel, by decide +kernel, by decide +kernel, fun _ _ _ => rfl, fun _ => rfl,
    by decide +kernel, by decide +kernel, by decide +kernel, by decide +kernel⟩

/-! ## non-vacuity -/

example : ndindex [2, 3] = [[0, 0], [0, 1], [0, 2], [1, 0], [1, 1], [1, 2]] := by decide
example : extraDims [4, 5, 6, 7] 1 = [4, 7] ∧ planeCoord [3, 2] 1 10 20 = [3, 10, 20, 2] ∧ extraOf [3, 10, 20, 2] 1 = [3, 2] := by
  decide
example : ydimOf 3 none = 1 ∧ ydimOf 3 (some 0) = 0 := by decide
-- `nd_every_plane_once`: the call succeeds when every source plane has a destination plane, raises otherwise
example : (rioReprojectNd .other false 0 (fun _ => 1) (fun _ => 0) [2, 3, 4] [2, 5, 6] none Aff.id none none true).toOption.isSome
    = true := by decide +kernel
example : (rioReprojectNd .other false 0 (fun _ => 1) (fun _ => 0) [3, 3, 4] [2, 5, 6] none Aff.id none none true).toOption.isSome
    = false := by decide +kernel

end OdcGeo.C10
