/-
C17 — source tie.  `OdcGeo/Gen/C17.lean` is regenerated from `/repo/odc/geo/{roi,math}.py` by
`tools/py2lean.py` on every run of `check.py C17`; the theorems `tie_*` prove each regenerated definition
equal to the hand model of `OdcGeo/Model/C17.lean` for ALL inputs (under the precondition the model is
stated for), so every theorem of `Props/C17.lean` holds of the function the code defines as written now —
`gen_*` below are a few of them transferred by rewriting.

Python's `//` and `%` raise `ZeroDivisionError` on a zero divisor and round to −∞ for any sign; the hand model
`alignDown` / `fdiv` uses `Int.emod` / `Int.ediv` and is documented for a positive divisor, hence `0 < align`.
-/
import OdcGeo.Gen.C17
import OdcGeo.Gen.Tie
import OdcGeo.Props.C17

namespace OdcGeo.C17
open OdcGeo.Gen OdcGeo.PySlice

/-! ## ties: generated definition = hand model -/

/-- `math.align_down` -/
theorem tie_align_down (x align : Int) (h : 0 < align) :
    Gen.C17.align_down x align = .ok (alignDown x align) := by
  have h0 : align ≠ 0 := by omega
  simp only [Gen.C17.align_down, alignDown]
  tie_auto []

/-- `math.align_up` -/
theorem tie_align_up (x align : Int) (h : 0 < align) :
    Gen.C17.align_up x align = .ok (alignUp x align) := by
  have h0 : align ≠ 0 := by omega
  have hd := fun y => tie_align_down y align h
  simp only [Gen.C17.align_up, alignUp, Gen.C17.align_down, alignDown] at hd ⊢
  tie_auto []

/-- `roi._norm_slice_or_error` -/
theorem tie_norm_slice_or_error (s : PIdx) : Gen.C17.norm_slice_or_error s = normSliceOrError s := by
  rcases s with i | ⟨_ | a, _ | b⟩ <;>
    tie_auto [Gen.C17.norm_slice_or_error, normSliceOrError]

/-- `roi._norm_slice` -/
theorem tie_norm_slice (s : PIdx) (n : Int) : Gen.C17.norm_slice s n = normSlice s n := by
  rcases s with i | ⟨_ | a, _ | b⟩ <;>
    tie_auto [Gen.C17.norm_slice, normSlice, wrapNeg]

/-- `roi.slice_intersect3` -/
theorem tie_slice_intersect3 (a b : PIdx) : Gen.C17.slice_intersect3 a b = sliceIntersect3 a b := by
  tie_auto [Gen.C17.slice_intersect3, sliceIntersect3, tie_norm_slice_or_error, intersect3N]

/-- `roi.roi_intersect`'s `slice_intersect` -/
theorem tie_slice_intersect (a b : PIdx) : Gen.C17.slice_intersect a b = sliceIntersect a b := by
  tie_auto [Gen.C17.slice_intersect, sliceIntersect, tie_norm_slice_or_error, intersectN]

/-- `roi.roi_shape`'s `slice_dim` -/
theorem tie_slice_dim (s : PIdx) : Gen.C17.slice_dim s = sliceDim s := by
  rcases s with i | ⟨_ | a, _ | b⟩ <;> tie_auto [Gen.C17.slice_dim, sliceDim]

/-- `roi.roi_is_full`'s `slice_full` -/
theorem tie_slice_full (s : PIdx) (n : Int) : Gen.C17.slice_full s n = sliceFull s n := by
  rcases s with i | ⟨_ | a, _ | b⟩ <;> tie_auto [Gen.C17.slice_full, sliceFull]

/-- `roi.roi_center`'s `slice_center` -/
theorem tie_slice_center (s : PIdx) : Gen.C17.slice_center s = sliceCenter s := by
  tie_auto [Gen.C17.slice_center, sliceCenter, tie_norm_slice_or_error]

/-- `roi.roi_pad`'s `pad_slice` (closure variable `pad` is the last parameter) -/
theorem tie_pad_slice (s : PIdx) (n pad : Int) : Gen.C17.pad_slice s n pad = padSlice s pad n := by
  tie_auto [Gen.C17.pad_slice, padSlice, tie_norm_slice]

/-- `roi.scaled_down_roi` (both axes) -/
theorem tie_scaled_down_roi (roi : NSlice × NSlice) (scale : Int) (h : 0 < scale) :
    Gen.C17.scaled_down_roi roi scale = .ok (scaledDownSlice roi.1 scale, scaledDownSlice roi.2 scale) := by
  have h0 : scale ≠ 0 := by omega
  tie_auto [Gen.C17.scaled_down_roi, scaledDownSlice, tie_align_up _ _ h, fdiv]

/-- `roi.scaled_up_roi` (both axes; `shape` clamps when given) -/
theorem tie_scaled_up_roi (roi : NSlice × NSlice) (scale : Int) (shape : Option (Int × Int)) :
    Gen.C17.scaled_up_roi roi scale shape =
      (scaledUpSlice roi.1 scale (shape.map (·.1)), scaledUpSlice roi.2 scale (shape.map (·.2))) := by
  cases shape <;> tie_auto [Gen.C17.scaled_up_roi, scaledUpSlice, Option.map]

/-- `roi.scaled_down_shape` (two axes) -/
theorem tie_scaled_down_shape (shape : Int × Int) (scale : Int) (h : 0 < scale) :
    Gen.C17.scaled_down_shape shape scale = .ok (scaledDownDim shape.1 scale, scaledDownDim shape.2 scale) := by
  have h0 : scale ≠ 0 := by omega
  tie_auto [Gen.C17.scaled_down_shape, scaledDownDim, tie_align_up _ _ h, fdiv]

/-! ## headline theorems of `Props/C17.lean`, transferred to the regenerated definitions -/

/-- `normalise_same_elements` for the function `_norm_slice` as written in the source -/
theorem gen_normalise_same_elements (n : Int) (hn : 0 ≤ n) (a b : Option Int) (i : Int) :
    Sel n (Gen.C17.norm_slice (.slc a b) n).toPIdx i ↔ Sel n (.slc a b) i := by
  rw [tie_norm_slice]; exact normalise_same_elements n hn a b i

/-- `normalise_int_index` for the source `_norm_slice` -/
theorem gen_normalise_int_index (n : Int) (k : Int) (hk : -n ≤ k ∧ k < n) (i : Int) :
    Sel n (Gen.C17.norm_slice (.idx k) n).toPIdx i ↔ Sel n (.idx k) i := by
  rw [tie_norm_slice]; exact normalise_int_index n k hk i

/-- `intersect3_common` for the source `slice_intersect3`: on closed non-negative operands it succeeds and its
third component selects exactly the common index set -/
theorem gen_intersect3_common (n : Int) (a b : NSlice) (i : Int)
    (ha : 0 ≤ a.start ∧ 0 ≤ a.stop) (hb : 0 ≤ b.start ∧ 0 ≤ b.stop) :
    ∃ r, Gen.C17.slice_intersect3 a.toPIdx b.toPIdx = .ok r ∧
      (Sel n r.2.2.toPIdx i ↔ (Sel n a.toPIdx i ∧ Sel n b.toPIdx i)) := by
  refine ⟨intersect3N a b, ?_, intersect3_common n a b i ha hb⟩
  rw [tie_slice_intersect3]
  apply intersect3_total
  · have : ¬ (a.stop < 0 ∨ a.start < 0) := by omega
    simp [normSliceOrError, NSlice.toPIdx, this]
  · have : ¬ (b.stop < 0 ∨ b.start < 0) := by omega
    simp [normSliceOrError, NSlice.toPIdx, this]

/-- `pad_within` for the source `roi_pad.pad_slice` -/
theorem gen_pad_within (n : Int) (hn : 0 ≤ n) (s : PIdx) (pad : Int) :
    0 ≤ (Gen.C17.pad_slice s n pad).start ∧ (Gen.C17.pad_slice s n pad).stop ≤ n := by
  rw [tie_pad_slice]; exact pad_within n hn s pad

/-- `center_eq` for the source `roi_center.slice_center` -/
theorem gen_center_eq (s e : Int) (h : 0 ≤ s ∧ 0 ≤ e) :
    Gen.C17.slice_center (.slc (some s) (some e)) = .ok (((s + e : Int) : Rat) / 2) := by
  rw [tie_slice_center]; exact center_eq s e h

/-- `align_down_spec` for the source `align_down`: it does not raise for a positive alignment and returns the
multiple of `a` in `(x - a, x]` -/
theorem gen_align_down_spec (x a : Int) (ha : 0 < a) :
    ∃ y, Gen.C17.align_down x a = .ok y ∧ a ∣ y ∧ y ≤ x ∧ x - y < a :=
  ⟨alignDown x a, tie_align_down x a ha, align_down_spec x a ha⟩

/-- `align_up_spec` for the source `align_up` -/
theorem gen_align_up_spec (x a : Int) (ha : 0 < a) :
    ∃ y, Gen.C17.align_up x a = .ok y ∧ a ∣ y ∧ x ≤ y ∧ y - x < a :=
  ⟨alignUp x a, tie_align_up x a ha, align_up_spec x a ha⟩

/-- `scale_down_up` for the source `scaled_down_roi` followed by `scaled_up_roi` (no clamp), per axis -/
theorem gen_scale_down_up (roi : NSlice × NSlice) (k : Int) (hk : 0 < k) :
    ∃ d, Gen.C17.scaled_down_roi roi k = .ok d ∧
      let r := Gen.C17.scaled_up_roi d k none
      (r.1.start ≤ roi.1.start ∧ roi.1.start - r.1.start < k ∧ roi.1.stop ≤ r.1.stop ∧ r.1.stop - roi.1.stop < k) ∧
      (r.2.start ≤ roi.2.start ∧ roi.2.start - r.2.start < k ∧ roi.2.stop ≤ r.2.stop ∧ r.2.stop - roi.2.stop < k) := by
  refine ⟨_, tie_scaled_down_roi roi k hk, ?_⟩
  simp only [tie_scaled_up_roi, Option.map]
  exact ⟨scale_down_up roi.1 k hk, scale_down_up roi.2 k hk⟩

/-- `scaled_down_dim_spec` for the source `scaled_down_shape` -/
theorem gen_scaled_down_dim_spec (shape : Int × Int) (k : Int) (hk : 0 < k) :
    ∃ d, Gen.C17.scaled_down_shape shape k = .ok d ∧
      (shape.1 ≤ d.1 * k ∧ d.1 * k - shape.1 < k) ∧ (shape.2 ≤ d.2 * k ∧ d.2 * k - shape.2 < k) :=
  ⟨_, tie_scaled_down_shape shape k hk, scaled_down_dim_spec shape.1 k hk, scaled_down_dim_spec shape.2 k hk⟩

end OdcGeo.C17
