/-
C17 — source tie.  `OdcGeo/Gen/C17.lean` is regenerated from `/repo/odc/geo/{roi,math}.py` by
`tools/py2lean.py` on every run of `check.py C17`; the theorems `tie_*` prove each regenerated definition
equal to the hand model of `OdcGeo/Model/C17.lean` for ALL inputs (under the precondition the model is
stated for), so every theorem of `Props/C17.lean` holds of the function the code defines as written now —
`gen_*` below are a few of them transferred by rewriting.

Python's `//` and `%` raise `ZeroDivisionError` on a zero divisor and round to −∞ for any sign; the hand model
`alignDown` / `fdiv` uses `Int.emod` / `Int.ediv` and is documented for a positive divisor, hence `0 < align`.

The theorems live in OdcGeo/Props/GenC17/*.lean, one compilation unit per tied function or small group; this file only
imports them all (`lake build OdcGeo.Props.GenC17`).
-/
import OdcGeo.Props.GenC17.AlignDown
import OdcGeo.Props.GenC17.AlignUp
import OdcGeo.Props.GenC17.NormSliceOrError
import OdcGeo.Props.GenC17.NormSlice
import OdcGeo.Props.GenC17.SliceIntersect3
import OdcGeo.Props.GenC17.SliceIntersect
import OdcGeo.Props.GenC17.SliceDim
import OdcGeo.Props.GenC17.SliceFull
import OdcGeo.Props.GenC17.SliceCenter
import OdcGeo.Props.GenC17.PadSlice
import OdcGeo.Props.GenC17.ScaledDownRoi
import OdcGeo.Props.GenC17.ScaledUpRoi
import OdcGeo.Props.GenC17.ScaleDownUp
import OdcGeo.Props.GenC17.ScaledDownShape
import OdcGeo.Props.GenC17.RoiShape
import OdcGeo.Props.GenC17.RoiIsEmpty
import OdcGeo.Props.GenC17.RoiIsFull
import OdcGeo.Props.GenC17.RoiNormalise
import OdcGeo.Props.GenC17.RoiPad
