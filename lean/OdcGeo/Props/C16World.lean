/-
C16, growth round 2 — the public entry points, from their arguments to their results.

Part L  `GeoBox.enclosing(region)` with its dispatch on the region type and `GeoBox.project`:
        the entry point is the modelled core applied to the (re-projected) coordinates, whatever
        pyproj is (`enclosingRegion_eq`, `enclosing_region_spec`); the covered set is convex, so a
        same-CRS `BoundingBox` / polygon region is covered point by point, not only at its vertices
        (`covers_convex`, `enclosing_bbox_covers_box`); `project` there and back is the identity;
        `g.enclosing(h.extent) = h` for every non-empty member `h` of `g`'s grid.
Part M  the same facts in WORLD coordinates through `GeoBox.boundingbox`:
        `enclosing(bbox).boundingbox ⊇ bbox`, `(a | b).boundingbox ⊇ a.boundingbox | b.boundingbox`,
        `(a & b).boundingbox ⊆ a.boundingbox & b.boundingbox`, with equality on axis-aligned grids.
Part N  `BoundingBox` as a value / sequence, `split_translation`, non-finite doubles, argument
        forms of the n-ary operations.
-/
import OdcGeo.Props.C16
import OdcGeo.Model.C16Ext
import Mathlib.Tactic.Linarith
import Mathlib.Tactic.Ring
import Mathlib.Tactic.FieldSimp
import Mathlib.Tactic.Positivity
import Mathlib.Algebra.Order.Field.Rat

namespace OdcGeo.C16
open OdcGeo

/-! ## Part L — `enclosing(region)` and `project` -/

/-- the world point `w` lies in the footprint of `g` (image of the pixel rectangle `[0,nx]×[0,ny]`) -/
def GeoBox.Covers (g : GeoBox) (w : Pt) : Prop :=
  ∃ x y : Rat, 0 ≤ x ∧ x ≤ g.nx ∧ 0 ≤ y ∧ y ≤ g.ny ∧ g.aff.apply (x, y) = w

/-- the coordinates `enclosing` works on, in the CRS of the GeoBox (pyproj = `reproj`) -/
def Region.worldHead (r : Region) (reproj : Reproj) (dst : Option Nat) : Pt :=
  if r.crs = dst then r.head else reproj r.crs dst r.head
def Region.worldTail (r : Region) (reproj : Reproj) (dst : Option Nat) : List Pt :=
  if r.crs = dst then r.tail else r.tail.map (reproj r.crs dst)

/-- **The public entry point is the modelled core** applied to the coordinates of the region
(`region.polygon` for a `BoundingBox`), re-projected exactly when the CRSs differ — for every
region type, every CRS combination, every `reproj`, error branches included. -/
theorem enclosingRegion_eq (g : GeoBox) (reproj : Reproj) (r : Region) :
    g.enclosingRegion reproj r =
      g.enclosing r.crs (r.worldHead reproj g.crs) (r.worldTail reproj g.crs) := by
  unfold GeoBox.enclosingRegion GeoBox.enclosing GeoBox.project Region.worldHead Region.worldTail
  by_cases h1 : r.crs = none
  · simp [h1]
  by_cases h2 : g.crs = none
  · simp [h1, h2]
  by_cases h3 : r.crs = g.crs
  · cases h4 : g.aff.inv? <;> simp [h2, h3]
  · cases h4 : g.aff.inv? <;> simp [h1, h2, h3, List.map_map, Function.comp_def]

/-- error behaviour of the entry point: no CRS on the region → `ValueError` (whatever the GeoBox);
a GeoBox without CRS → `AssertionError`; a degenerate grid → `ValueError` -/
theorem enclosing_region_errors (g : GeoBox) (reproj : Reproj) (r : Region) :
    (r.crs = none → g.enclosingRegion reproj r = .error .valueError) ∧
    (r.crs ≠ none → g.crs = none → g.enclosingRegion reproj r = .error .assertion) ∧
    (r.crs ≠ none → g.crs ≠ none → g.aff.det = 0 → g.enclosingRegion reproj r = .error .valueError) := by
  rw [enclosingRegion_eq]
  refine ⟨fun h => (enclosing_errors g _ _ _).1 h, fun h1 h2 => (enclosing_errors g _ _ _).2 h1 h2, ?_⟩
  intro h1 h2 h3
  simp [GeoBox.enclosing, h1, h2, Aff.inv?, h3]

/-- **`enclosing(region)`, any region type, same or different CRS**: on the grid, at least one
pixel, covers every (re-projected) coordinate of the region, exceeds them by less than one pixel per
side (the zero-extent-on-a-grid-line case gives exactly one pixel). -/
theorem enclosing_region_spec (g : GeoBox) (hdet : g.aff.det ≠ 0) (hg : g.crs ≠ none) (reproj : Reproj)
    (r : Region) (hr : r.crs ≠ none) :
    ∃ (res : GeoBox) (tx ty : Int), g.enclosingRegion reproj r = .ok res ∧
      res = onGrid g ⟨tx, ty, tx + res.nx, ty + res.ny⟩ ∧ 1 ≤ res.nx ∧ 1 ≤ res.ny ∧
      (∀ q ∈ r.worldHead reproj g.crs :: r.worldTail reproj g.crs, res.Covers q) ∧
      (∃ q ∈ r.worldHead reproj g.crs :: r.worldTail reproj g.crs, (g.aff.inv.apply q).1 - tx < 1) ∧
      (∃ q ∈ r.worldHead reproj g.crs :: r.worldTail reproj g.crs, (g.aff.inv.apply q).2 - ty < 1) ∧
      ((∃ q ∈ r.worldHead reproj g.crs :: r.worldTail reproj g.crs,
          (tx : Rat) + res.nx - (g.aff.inv.apply q).1 < 1) ∨
        (res.nx = 1 ∧ ∀ q ∈ r.worldHead reproj g.crs :: r.worldTail reproj g.crs, (g.aff.inv.apply q).1 = tx)) ∧
      ((∃ q ∈ r.worldHead reproj g.crs :: r.worldTail reproj g.crs,
          (ty : Rat) + res.ny - (g.aff.inv.apply q).2 < 1) ∨
        (res.ny = 1 ∧ ∀ q ∈ r.worldHead reproj g.crs :: r.worldTail reproj g.crs, (g.aff.inv.apply q).2 = ty)) := by
  rw [enclosingRegion_eq]
  exact enclosing_spec g hdet r.crs hr hg _ _

/-- the footprint of a GeoBox is convex: with two points it contains the segment between them -/
theorem covers_convex (g : GeoBox) (w1 w2 : Pt) (t : Rat) (ht0 : 0 ≤ t) (ht1 : t ≤ 1)
    (h1 : g.Covers w1) (h2 : g.Covers w2) :
    g.Covers (t * w1.1 + (1 - t) * w2.1, t * w1.2 + (1 - t) * w2.2) := by
  obtain ⟨x1, y1, a1, a2, a3, a4, a5⟩ := h1
  obtain ⟨x2, y2, b1, b2, b3, b4, b5⟩ := h2
  have hs : 0 ≤ 1 - t := by linarith
  refine ⟨t * x1 + (1 - t) * x2, t * y1 + (1 - t) * y2, ?_, ?_, ?_, ?_, ?_⟩
  · exact add_nonneg (mul_nonneg ht0 a1) (mul_nonneg hs b1)
  · have e1 := mul_le_mul_of_nonneg_left a2 ht0
    have e2 := mul_le_mul_of_nonneg_left b2 hs
    linarith
  · exact add_nonneg (mul_nonneg ht0 a3) (mul_nonneg hs b3)
  · have e1 := mul_le_mul_of_nonneg_left a4 ht0
    have e2 := mul_le_mul_of_nonneg_left b4 hs
    linarith
  · rw [← a5, ← b5]
    simp only [Aff.apply, Prod.mk.injEq]
    constructor <;> ring

/-- a number between two others is a convex combination of them -/
theorem between_convex (l r x : Rat) (h1 : l ≤ x) (h2 : x ≤ r) :
    ∃ t : Rat, 0 ≤ t ∧ t ≤ 1 ∧ x = t * l + (1 - t) * r := by
  by_cases h : l = r
  · exact ⟨0, le_refl _, by norm_num, by subst h; linarith⟩
  · have hlt : 0 < r - l := by
      rcases lt_or_eq_of_le (h1.trans h2) with h' | h'
      · linarith
      · exact absurd h' h
    refine ⟨(r - x) / (r - l), div_nonneg (by linarith) hlt.le, ?_, ?_⟩
    · rw [div_le_one hlt]; linarith
    · field_simp
      ring

/-- with the four corners of a box the footprint contains the whole box -/
theorem covers_box (g : GeoBox) (bb : BBox Rat)
    (c1 : g.Covers (bb.left, bb.bottom)) (c2 : g.Covers (bb.left, bb.top))
    (c3 : g.Covers (bb.right, bb.top)) (c4 : g.Covers (bb.right, bb.bottom))
    (q : Pt) (hq : bb.Contains q) : g.Covers q := by
  obtain ⟨h1, h2, h3, h4⟩ := hq
  obtain ⟨t, t0, t1, ht⟩ := between_convex _ _ _ h1 h2
  obtain ⟨s, s0, s1, hs⟩ := between_convex _ _ _ h3 h4
  have lo := covers_convex g _ _ t t0 t1 c1 c4      -- (x, bottom)
  have hi := covers_convex g _ _ t t0 t1 c2 c3      -- (x, top)
  have := covers_convex g _ _ s s0 s1 lo hi
  simp only at this
  have e1 : s * (t * bb.left + (1 - t) * bb.right) + (1 - s) * (t * bb.left + (1 - t) * bb.right) = q.1 := by
    rw [ht]; ring
  have e2 : s * (t * bb.bottom + (1 - t) * bb.bottom) + (1 - s) * (t * bb.top + (1 - t) * bb.top) = q.2 := by
    rw [hs]; ring
  rw [e1, e2] at this
  exact this

/-- **A `BoundingBox` region in the CRS of the GeoBox is covered point by point** (not only at
its corners): every point of the box lies in the footprint of `g.enclosing(bbox)`. -/
theorem enclosing_bbox_covers_box (g : GeoBox) (hdet : g.aff.det ≠ 0) (hg : g.crs ≠ none) (reproj : Reproj)
    (bb : BBox Rat) (hc : bb.crs = g.crs) :
    ∃ res : GeoBox, g.enclosingRegion reproj (.bbox bb) = .ok res ∧ ∀ q, bb.Contains q → res.Covers q := by
  have hr : (Region.bbox bb).crs ≠ none := by simpa [Region.crs, hc] using hg
  obtain ⟨res, tx, ty, h, -, -, -, hcov, -⟩ := enclosing_region_spec g hdet hg reproj (.bbox bb) hr
  refine ⟨res, h, fun q hq => ?_⟩
  have hh : (Region.bbox bb).worldHead reproj g.crs = (bb.left, bb.bottom) := by
    simp [Region.worldHead, Region.crs, Region.head, BBox.ringHead, hc]
  have ht : (Region.bbox bb).worldTail reproj g.crs =
      [(bb.left, bb.top), (bb.right, bb.top), (bb.right, bb.bottom), (bb.left, bb.bottom)] := by
    simp [Region.worldTail, Region.crs, Region.tail, BBox.ringTail, hc]
  rw [hh, ht] at hcov
  exact covers_box res bb (hcov _ (by simp)) (hcov _ (by simp)) (hcov _ (by simp)) (hcov _ (by simp)) q hq

/-- non-vacuity of the hypotheses above: a rotated grid with a CRS and a box in the same CRS -/
example : ∃ (g : GeoBox) (bb : BBox Rat) (q : Pt), g.aff.det ≠ 0 ∧ g.crs ≠ none ∧ bb.crs = g.crs ∧ bb.Contains q :=
  ⟨⟨4, 5, ⟨3, -4, 100, 4, 3, 200⟩, some 1⟩, ⟨0, 0, 2, 2, some 1⟩, (1, 1), by simp [Aff.det]; norm_num,
    by simp, rfl, by simp [BBox.Contains]⟩

/-- `project` to the world and back (a region without CRS is read as pixel coordinates; its image
carries the CRS of the GeoBox and is mapped back without re-projection): the identity -/
theorem project_roundtrip (g : GeoBox) (hdet : g.aff.det ≠ 0) (hg : g.crs ≠ none) (reproj : Reproj)
    (p : Pt) (ps : List Pt) :
    ∃ w ws, g.project reproj none p ps = .ok (g.crs, w, ws) ∧
      g.project reproj g.crs w ws = .ok (none, p, ps) := by
  refine ⟨g.aff.apply p, ps.map g.aff.apply, by simp [GeoBox.project], ?_⟩
  simp only [GeoBox.project, if_neg hg, Aff.inv?, if_neg hdet, if_true, List.map_map, Function.comp_def,
    Aff.inv_apply_apply g.aff hdet]
  simp

/-- … and from the world to pixels and back (same CRS) -/
theorem project_roundtrip_world (g : GeoBox) (hdet : g.aff.det ≠ 0) (hg : g.crs ≠ none) (reproj : Reproj)
    (p : Pt) (ps : List Pt) :
    ∃ w ws, g.project reproj g.crs p ps = .ok (none, w, ws) ∧
      g.project reproj none w ws = .ok (g.crs, p, ps) := by
  refine ⟨g.aff.inv.apply p, ps.map g.aff.inv.apply, by simp [GeoBox.project, hg, Aff.inv?, hdet], ?_⟩
  simp only [GeoBox.project, if_true, List.map_map, Function.comp_def, Aff.apply_inv_apply g.aff hdet]
  simp

/-- `project` never consults pyproj for a region in the CRS of the GeoBox or without CRS, and the
result does not depend on the vertex being first or later in the sequence (pointwise map) -/
theorem project_same_crs_ignores_reproj (g : GeoBox) (r1 r2 : Reproj) (crs : Option Nat)
    (h : crs = none ∨ crs = g.crs) (p : Pt) (ps : List Pt) :
    g.project r1 crs p ps = g.project r2 crs p ps := by
  rcases h with h | h
  · simp [GeoBox.project, h]
  · by_cases hg : g.crs = none
    · simp [GeoBox.project, h, hg]
    · simp [GeoBox.project, h, hg]

/-- pixel coordinates, in the frame of `g0`, of a point given in the pixel frame of a member -/
theorem inv_apply_member (g0 : GeoBox) (hdet : g0.aff.det ≠ 0) (a b : Rat) (p : Pt) :
    g0.aff.inv.apply ((g0.aff * Aff.translation a b).apply p) = (p.1 + a, p.2 + b) := by
  rw [apply_mul_translation, Aff.inv_apply_apply g0.aff hdet]

/-- **`g.enclosing(h.extent) = h`** for every non-empty member `h` of the grid of `g` (in
particular `g.enclosing(g.extent) = g`): the footprint polygon of a GeoBox on the grid is enclosed
by exactly that GeoBox — same shape, same affine, nothing gained by the outward rounding. -/
theorem enclosing_of_member (g0 : GeoBox) (hdet : g0.aff.det ≠ 0) (hg : g0.crs ≠ none) (reproj : Reproj)
    (r : Rect) (hr : r.NonEmpty) :
    g0.enclosingRegion reproj (.geom g0.crs (onGrid g0 r).extentHead (onGrid g0 r).extentTail) =
      .ok (onGrid g0 r) := by
  obtain ⟨hx, hy⟩ := hr
  have hxq : (r.x0 : Rat) ≤ r.x1 := by exact_mod_cast hx.le
  have hyq : (r.y0 : Rat) ≤ r.y1 := by exact_mod_cast hy.le
  have ex : ((r.x1 - r.x0 : Int) : Rat) + (r.x0 : Rat) = (r.x1 : Rat) := by push_cast; ring
  have ey : ((r.y1 - r.y0 : Int) : Rat) + (r.y0 : Rat) = (r.y1 : Rat) := by push_cast; ring
  rw [enclosingRegion_eq]
  simp only [Region.worldHead, Region.worldTail, Region.crs, Region.head, Region.tail, if_true,
    GeoBox.extentHead, GeoBox.extentTail, onGrid, GeoBox.enclosing, if_neg hg, Aff.inv?, if_neg hdet,
    List.map, inv_apply_member g0 hdet, bboxOfPoints, BBox.round, minL, maxL, zero_add, ex, ey,
    GeoBox.translatePix, min_self, max_self, min_eq_left hxq, min_eq_left hyq, max_eq_right hxq, max_eq_right hyq,
    max_eq_left hxq, max_eq_left hyq, Rat.floor_intCast, Rat.ceil_intCast]
  have h1 : max 1 (r.x1 - r.x0) = r.x1 - r.x0 := by omega
  have h2 : max 1 (r.y1 - r.y0) = r.y1 - r.y0 := by omega
  rw [h1, h2]

/-- **The enclosing GeoBox can always be combined with its source grid**: for every region type, in
the same or another CRS, `g | r`, `r | g`, `g & r`, `r & g` and `g.overlap_roi(r)` with
`r = g.enclosing(region)` all succeed, and `g[g.overlap_roi(r)]`'s pixel window is exactly the part
of the source that the region's enclosing box shares with it (`overlap_roi_exact`). -/
theorem enclosing_then_ops_succeed (g : GeoBox) (hdet : g.aff.det ≠ 0) (hg : g.crs ≠ none) (reproj : Reproj)
    (r : Region) (hr : r.crs ≠ none) (hny : 0 ≤ g.ny) (hnx : 0 ≤ g.nx) :
    ∃ (res : GeoBox) (t : Rect), g.enclosingRegion reproj r = .ok res ∧ res = onGrid g t ∧ t.NonEmpty ∧
      g.or res = .ok (onGrid g ((⟨0, 0, g.nx, g.ny⟩ : Rect).union t)) ∧
      res.or g = .ok (onGrid g ((⟨0, 0, g.nx, g.ny⟩ : Rect).union t)) ∧
      g.and res = .ok (onGrid g ((⟨0, 0, g.nx, g.ny⟩ : Rect).inter t)) ∧
      res.and g = .ok (onGrid g ((⟨0, 0, g.nx, g.ny⟩ : Rect).inter t)) ∧
      ∃ roi, g.overlapRoi res tolPix = .ok roi := by
  obtain ⟨res, tx, ty, h, e, h1, h2, -⟩ := enclosing_region_spec g hdet hg reproj r hr
  have hs := self_onGrid g
  refine ⟨res, ⟨tx, ty, tx + res.nx, ty + res.ny⟩, h, e, ⟨by show tx < tx + res.nx; omega, by show ty < ty + res.ny; omega⟩,
    ?_, ?_, ?_, ?_, ?_⟩
  · have := or_onGrid g hdet ⟨0, 0, g.nx, g.ny⟩ ⟨tx, ty, tx + res.nx, ty + res.ny⟩
    rw [← hs, ← e] at this
    exact this
  · have := (union_comm_world g hdet ⟨tx, ty, tx + res.nx, ty + res.ny⟩ ⟨0, 0, g.nx, g.ny⟩)
    have h2 := or_onGrid g hdet ⟨0, 0, g.nx, g.ny⟩ ⟨tx, ty, tx + res.nx, ty + res.ny⟩
    rw [← hs, ← e] at this h2
    rw [this]; exact h2
  · have := and_onGrid g hdet ⟨0, 0, g.nx, g.ny⟩ ⟨tx, ty, tx + res.nx, ty + res.ny⟩
    rw [← hs, ← e] at this
    exact this
  · have := (inter_comm_world g hdet ⟨tx, ty, tx + res.nx, ty + res.ny⟩ ⟨0, 0, g.nx, g.ny⟩)
    have h2 := and_onGrid g hdet ⟨0, 0, g.nx, g.ny⟩ ⟨tx, ty, tx + res.nx, ty + res.ny⟩
    rw [← hs, ← e] at this h2
    rw [this]; exact h2
  · obtain ⟨roi, hroi, -⟩ := overlap_roi_exact g hdet ⟨0, 0, g.nx, g.ny⟩ ⟨tx, ty, tx + res.nx, ty + res.ny⟩
      ⟨hnx, hny⟩ tolPix tolPix_pos
    rw [← hs, ← e] at hroi
    exact ⟨roi, hroi⟩

example : ∃ g : GeoBox, g.aff.det ≠ 0 ∧ g.crs ≠ none ∧ 0 ≤ g.ny ∧ 0 ≤ g.nx :=
  ⟨⟨4, 5, ⟨3, -4, 100, 4, 3, 200⟩, some 1⟩, by simp [Aff.det]; norm_num, by simp, by decide, by decide⟩

/-! ## Part M — world coordinates: `GeoBox.boundingbox` -/

/-- a point of the footprint lies in `g.boundingbox` -/
theorem covers_boundingbox (g : GeoBox) (w : Pt) (h : g.Covers w) : g.boundingbox.Contains w := by
  obtain ⟨x, y, h1, h2, h3, h4, rfl⟩ := h
  exact bbox_from_transform_covers g.ny g.nx g.aff g.crs (x, y) ⟨h1, h2, h3, h4⟩

/-- **End to end in world coordinates**: for a `BoundingBox` region in the CRS of the GeoBox,
`g.enclosing(bbox).boundingbox` contains every point of the region — hence the region, edge-wise. -/
theorem enclosing_bbox_world (g : GeoBox) (hdet : g.aff.det ≠ 0) (hg : g.crs ≠ none) (reproj : Reproj)
    (bb : BBox Rat) (hc : bb.crs = g.crs) :
    ∃ res : GeoBox, g.enclosingRegion reproj (.bbox bb) = .ok res ∧ res.crs = g.crs ∧
      (∀ q, bb.Contains q → res.boundingbox.Contains q) ∧
      (bb.left ≤ bb.right → bb.bottom ≤ bb.top → bb.Within res.boundingbox) := by
  obtain ⟨res, h, hcov⟩ := enclosing_bbox_covers_box g hdet hg reproj bb hc
  have hcrs : res.crs = g.crs := by
    have hr : (Region.bbox bb).crs ≠ none := by simpa [Region.crs, hc] using hg
    obtain ⟨res', tx, ty, h', e, -⟩ := enclosing_region_spec g hdet hg reproj (.bbox bb) hr
    rw [h] at h'
    cases h'
    rw [e]
    rfl
  refine ⟨res, h, hcrs, fun q hq => covers_boundingbox res q (hcov q hq), fun hlr hbt => ?_⟩
  have c1 := covers_boundingbox res _ (hcov (bb.left, bb.bottom) ⟨le_refl _, hlr, le_refl _, hbt⟩)
  have c2 := covers_boundingbox res _ (hcov (bb.right, bb.top) ⟨hlr, le_refl _, hbt, le_refl _⟩)
  exact ⟨c1.1, c1.2.2.1, c2.2.1, c2.2.2.2⟩

/-- `BoundingBox.transform` is monotone: a proper box inside `c` maps inside the image of `c` -/
theorem bbox_transform_mono (a c : BBox Rat) (A : Aff)
    (h1 : c.Contains (a.left, a.bottom)) (h2 : c.Contains (a.right, a.top)) :
    (a.transform A).Within (c.transform A) := by
  obtain ⟨p1, p2, p3, p4⟩ := h1
  obtain ⟨q1, q2, q3, q4⟩ := h2
  have k1 := bbox_transform_covers c A (a.left, a.bottom) ⟨p1, p2, p3, p4⟩
  have k2 := bbox_transform_covers c A (a.left, a.top) ⟨p1, p2, q3, q4⟩
  have k3 := bbox_transform_covers c A (a.right, a.bottom) ⟨q1, q2, p3, p4⟩
  have k4 := bbox_transform_covers c A (a.right, a.top) ⟨q1, q2, q3, q4⟩
  generalize c.transform A = C at *
  simp only [BBox.Contains] at k1 k2 k3 k4
  simp only [BBox.transform, bboxOfPoints, BBox.Within, List.map]
  refine ⟨?_, ?_, ?_, ?_⟩
  · rcases minL_mem (A.apply (a.left, a.bottom)).1
      [(A.apply (a.left, a.top)).1, (A.apply (a.right, a.bottom)).1, (A.apply (a.right, a.top)).1] with e | e
    · rw [e]; exact k1.1
    · simp only [List.mem_cons, List.mem_nil_iff, or_false] at e
      rcases e with e | e | e <;> rw [e]
      exacts [k2.1, k3.1, k4.1]
  · rcases minL_mem (A.apply (a.left, a.bottom)).2
      [(A.apply (a.left, a.top)).2, (A.apply (a.right, a.bottom)).2, (A.apply (a.right, a.top)).2] with e | e
    · rw [e]; exact k1.2.2.1
    · simp only [List.mem_cons, List.mem_nil_iff, or_false] at e
      rcases e with e | e | e <;> rw [e]
      exacts [k2.2.2.1, k3.2.2.1, k4.2.2.1]
  · rcases maxL_mem (A.apply (a.left, a.bottom)).1
      [(A.apply (a.left, a.top)).1, (A.apply (a.right, a.bottom)).1, (A.apply (a.right, a.top)).1] with e | e
    · rw [e]; exact k1.2.1
    · simp only [List.mem_cons, List.mem_nil_iff, or_false] at e
      rcases e with e | e | e <;> rw [e]
      exacts [k2.2.1, k3.2.1, k4.2.1]
  · rcases maxL_mem (A.apply (a.left, a.bottom)).2
      [(A.apply (a.left, a.top)).2, (A.apply (a.right, a.bottom)).2, (A.apply (a.right, a.top)).2] with e | e
    · rw [e]; exact k1.2.2.2
    · simp only [List.mem_cons, List.mem_nil_iff, or_false] at e
      rcases e with e | e | e <;> rw [e]
      exacts [k2.2.2.2, k3.2.2.2, k4.2.2.2]

/-- the world bounding box of a member of a family is the image of its pixel rectangle -/
theorem boundingbox_onGrid (g0 : GeoBox) (r : Rect) :
    (onGrid g0 r).boundingbox =
      (⟨(r.x0 : Rat), (r.y0 : Rat), (r.x1 : Rat), (r.y1 : Rat), g0.crs⟩ : BBox Rat).transform g0.aff := by
  have ex : ((r.x1 - r.x0 : Int) : Rat) + (r.x0 : Rat) = (r.x1 : Rat) := by push_cast; ring
  have ey : ((r.y1 - r.y0 : Int) : Rat) + (r.y0 : Rat) = (r.y1 : Rat) := by push_cast; ring
  simp only [GeoBox.boundingbox, onGrid, bbox_from_transform_eq_transform, BBox.transform,
    apply_mul_translation, zero_add, ex, ey]

/-- a member inside another member has its world bounding box inside the other's -/
theorem boundingbox_mono_onGrid (g0 : GeoBox) (r s : Rect) (hr : r.Valid)
    (h : s.x0 ≤ r.x0 ∧ s.y0 ≤ r.y0 ∧ r.x1 ≤ s.x1 ∧ r.y1 ≤ s.y1) :
    (onGrid g0 r).boundingbox.Within (onGrid g0 s).boundingbox := by
  obtain ⟨h1, h2, h3, h4⟩ := h
  obtain ⟨v1, v2⟩ := hr
  rw [boundingbox_onGrid, boundingbox_onGrid]
  apply bbox_transform_mono
  · simp only [BBox.Contains]
    exact ⟨by exact_mod_cast h1, by exact_mod_cast (v1.trans h3), by exact_mod_cast h2, by exact_mod_cast (v2.trans h4)⟩
  · simp only [BBox.Contains]
    exact ⟨by exact_mod_cast (h1.trans v1), by exact_mod_cast h3, by exact_mod_cast (h2.trans v2), by exact_mod_cast h4⟩

theorem boundingbox_crs (g : GeoBox) : g.boundingbox.crs = g.crs := rfl

/-- **Union in world coordinates** (any invertible grid: rotated, sheared, mirrored): the bounding
box of `a | b` contains `a.boundingbox | b.boundingbox`. -/
theorem union_boundingbox (g0 : GeoBox) (hdet : g0.aff.det ≠ 0) (r s : Rect) (hr : r.Valid) (hs : s.Valid) :
    ∃ u w, (onGrid g0 r).or (onGrid g0 s) = .ok u ∧
      (onGrid g0 r).boundingbox.or (onGrid g0 s).boundingbox = .ok w ∧ w.Within u.boundingbox := by
  have hw : ∃ w, (onGrid g0 r).boundingbox.or (onGrid g0 s).boundingbox = .ok w := by
    rw [bbox_or_eq]
    simp [boundingbox_crs, onGrid]
  obtain ⟨w, hw⟩ := hw
  refine ⟨_, w, or_onGrid g0 hdet r s, hw, ?_⟩
  apply bbox_union_least _ _ _ _ hw
  · exact boundingbox_mono_onGrid g0 r (r.union s) hr
      ⟨min_le_left _ _, min_le_left _ _, le_max_left _ _, le_max_left _ _⟩
  · exact boundingbox_mono_onGrid g0 s (r.union s) hs
      ⟨min_le_right _ _, min_le_right _ _, le_max_right _ _, le_max_right _ _⟩

/-- **Intersection in world coordinates**: when a pixel is shared, the bounding box of `a & b` lies
within `a.boundingbox & b.boundingbox`. -/
theorem inter_boundingbox (g0 : GeoBox) (hdet : g0.aff.det ≠ 0) (r s : Rect) (hne : (r.inter s).NonEmpty) :
    ∃ i w, (onGrid g0 r).and (onGrid g0 s) = .ok i ∧
      (onGrid g0 r).boundingbox.and (onGrid g0 s).boundingbox = .ok w ∧ i.boundingbox.Within w := by
  have hw : ∃ w, (onGrid g0 r).boundingbox.and (onGrid g0 s).boundingbox = .ok w := by
    rw [bbox_and_eq]
    simp [boundingbox_crs, onGrid]
  obtain ⟨w, hw⟩ := hw
  refine ⟨_, w, and_onGrid g0 hdet r s, hw, ?_⟩
  obtain ⟨n1, n2⟩ := hne
  simp only [Rect.inter] at n1 n2
  have hv : (r.inter s).Valid := ⟨by simp only [Rect.inter]; omega, by simp only [Rect.inter]; omega⟩
  apply (bbox_inter_contained _ _ _ hw).2.2.2
  · apply boundingbox_mono_onGrid g0 _ r hv
    simp only [Rect.inter]
    omega
  · apply boundingbox_mono_onGrid g0 _ s hv
    simp only [Rect.inter]
    omega

example : (Rect.inter ⟨0, 0, 4, 4⟩ ⟨2, 1, 6, 3⟩).NonEmpty := ⟨by decide, by decide⟩

/-! ### axis-aligned grids (north-up, south-up, mirrored; any pixel size): equality -/

theorem min4_xxyy (x y : Rat) : min (min (min x x) y) y = min x y := by
  rw [min_self, min_assoc, min_self]
theorem max4_xxyy (x y : Rat) : max (max (max x x) y) y = max x y := by
  rw [max_self, max_assoc, max_self]
theorem min4_xyxy (x y : Rat) : min (min (min x y) x) y = min x y := by
  rcases le_total x y with h | h <;> simp [h]
theorem max4_xyxy (x y : Rat) : max (max (max x y) x) y = max x y := by
  rcases le_total x y with h | h <;> simp [h]

/-- `BoundingBox.transform` through an axis-aligned transform acts on each axis separately -/
theorem transform_axis (bb : BBox Rat) (A : Aff) (hb : A.b = 0) (hd : A.d = 0) :
    bb.transform A =
      ⟨min (A.a * bb.left + A.c) (A.a * bb.right + A.c), min (A.e * bb.bottom + A.f) (A.e * bb.top + A.f),
       max (A.a * bb.left + A.c) (A.a * bb.right + A.c), max (A.e * bb.bottom + A.f) (A.e * bb.top + A.f),
       bb.crs⟩ := by
  simp only [BBox.transform, bboxOfPoints, List.map, minL, maxL, Aff.apply, hb, hd, zero_mul, add_zero,
    zero_add, min4_xxyy, max4_xxyy, min4_xyxy, max4_xyxy]

/-- one axis of the union: the image of `[min x0 y0, max x1 y1]` under `z ↦ a z + c` has the same
lower end as the two images together (whatever the sign of `a`) -/
theorem axis_union_min (a c x0 x1 y0 y1 : Rat) (hx : x0 ≤ x1) (hy : y0 ≤ y1) :
    min (a * min x0 y0 + c) (a * max x1 y1 + c) =
      min (min (a * y0 + c) (a * y1 + c)) (min (a * x0 + c) (a * x1 + c)) := by
  have t : ∀ z, min x0 y0 ≤ z → z ≤ max x1 y1 → min (a * min x0 y0 + c) (a * max x1 y1 + c) ≤ a * z + c := by
    intro z h1 h2
    rcases lin_lower a _ _ _ h1 h2 with h | h
    · exact (min_le_left _ _).trans (by linarith)
    · exact (min_le_right _ _).trans (by linarith)
  apply le_antisymm
  · refine le_min (le_min (t y0 (min_le_right _ _) (hy.trans (le_max_right _ _)))
        (t y1 ((min_le_right _ _).trans hy) (le_max_right _ _)))
      (le_min (t x0 (min_le_left _ _) (hx.trans (le_max_left _ _)))
        (t x1 ((min_le_left _ _).trans hx) (le_max_left _ _)))
  · apply le_min
    · rcases min_choice x0 y0 with e | e <;> rw [e]
      · exact (min_le_right _ _).trans (min_le_left _ _)
      · exact (min_le_left _ _).trans (min_le_left _ _)
    · rcases max_choice x1 y1 with e | e <;> rw [e]
      · exact (min_le_right _ _).trans (min_le_right _ _)
      · exact (min_le_left _ _).trans (min_le_right _ _)

theorem axis_union_max (a c x0 x1 y0 y1 : Rat) (hx : x0 ≤ x1) (hy : y0 ≤ y1) :
    max (a * min x0 y0 + c) (a * max x1 y1 + c) =
      max (max (a * y0 + c) (a * y1 + c)) (max (a * x0 + c) (a * x1 + c)) := by
  have t : ∀ z, min x0 y0 ≤ z → z ≤ max x1 y1 → a * z + c ≤ max (a * min x0 y0 + c) (a * max x1 y1 + c) := by
    intro z h1 h2
    rcases lin_upper a _ _ _ h1 h2 with h | h
    · exact le_trans (by linarith) (le_max_left _ _)
    · exact le_trans (by linarith) (le_max_right _ _)
  apply le_antisymm
  · apply max_le
    · rcases min_choice x0 y0 with e | e <;> rw [e]
      · exact (le_max_left _ _).trans (le_max_right _ _)
      · exact (le_max_left _ _).trans (le_max_left _ _)
    · rcases max_choice x1 y1 with e | e <;> rw [e]
      · exact (le_max_right _ _).trans (le_max_right _ _)
      · exact (le_max_right _ _).trans (le_max_left _ _)
  · refine max_le (max_le (t y0 (min_le_right _ _) (hy.trans (le_max_right _ _)))
        (t y1 ((min_le_right _ _).trans hy) (le_max_right _ _)))
      (max_le (t x0 (min_le_left _ _) (hx.trans (le_max_left _ _)))
        (t x1 ((min_le_left _ _).trans hx) (le_max_left _ _)))

/-- **On an axis-aligned grid the world bounding box of the union is exactly the union of the world
bounding boxes**: `(a | b).boundingbox == a.boundingbox | b.boundingbox` (north-up, south-up,
mirrored, anisotropic pixels; any shapes including empty ones; any whole-pixel shift). -/
theorem union_boundingbox_axis (g0 : GeoBox) (hdet : g0.aff.det ≠ 0) (hb : g0.aff.b = 0) (hd : g0.aff.d = 0)
    (r s : Rect) (hr : r.Valid) (hs : s.Valid) :
    ∃ u, (onGrid g0 r).or (onGrid g0 s) = .ok u ∧
      (onGrid g0 r).boundingbox.or (onGrid g0 s).boundingbox = .ok u.boundingbox := by
  refine ⟨_, or_onGrid g0 hdet r s, ?_⟩
  obtain ⟨v1, v2⟩ := hr
  obtain ⟨v3, v4⟩ := hs
  have c1 : (r.x0 : Rat) ≤ r.x1 := by exact_mod_cast v1
  have c2 : (r.y0 : Rat) ≤ r.y1 := by exact_mod_cast v2
  have c3 : (s.x0 : Rat) ≤ s.x1 := by exact_mod_cast v3
  have c4 : (s.y0 : Rat) ≤ s.y1 := by exact_mod_cast v4
  rw [bbox_or_eq]
  simp only [boundingbox_onGrid, transform_axis _ _ hb hd, Rect.union, ne_eq, not_true_eq_false, if_false,
    Int.cast_min, Int.cast_max, axis_union_min _ _ _ _ _ _ c1 c3, axis_union_max _ _ _ _ _ _ c1 c3,
    axis_union_min _ _ _ _ _ _ c2 c4, axis_union_max _ _ _ _ _ _ c2 c4]

example : ∃ g0 : GeoBox, g0.aff.det ≠ 0 ∧ g0.aff.b = 0 ∧ g0.aff.d = 0 :=
  ⟨⟨3, 3, ⟨-2, 0, 64, 0, -2, 32⟩, some 1⟩, by simp [Aff.det], rfl, rfl⟩

/-- one axis of the intersection (shared interval `[max x0 y0, min x1 y1]` not inverted) -/
theorem axis_inter_min (a c x0 x1 y0 y1 : Rat) (hx : x0 ≤ x1) (hy : y0 ≤ y1) (hne : max x0 y0 ≤ min x1 y1) :
    min (a * max x0 y0 + c) (a * min x1 y1 + c) =
      max (min (a * y0 + c) (a * y1 + c)) (min (a * x0 + c) (a * x1 + c)) := by
  rcases le_total 0 a with ha | ha
  · have m : ∀ p q : Rat, p ≤ q → min (a * p + c) (a * q + c) = a * p + c := fun p q h =>
      min_eq_left (by have := mul_le_mul_of_nonneg_left h ha; linarith)
    rw [m _ _ hne, m _ _ hx, m _ _ hy]
    rcases le_total x0 y0 with h | h
    · rw [max_eq_right h, max_eq_left (by have := mul_le_mul_of_nonneg_left h ha; linarith)]
    · rw [max_eq_left h, max_eq_right (by have := mul_le_mul_of_nonneg_left h ha; linarith)]
  · have m : ∀ p q : Rat, p ≤ q → min (a * p + c) (a * q + c) = a * q + c := fun p q h =>
      min_eq_right (by have := mul_le_mul_of_nonpos_left h ha; linarith)
    rw [m _ _ hne, m _ _ hx, m _ _ hy]
    rcases le_total x1 y1 with h | h
    · rw [min_eq_left h, max_eq_right (by have := mul_le_mul_of_nonpos_left h ha; linarith)]
    · rw [min_eq_right h, max_eq_left (by have := mul_le_mul_of_nonpos_left h ha; linarith)]

theorem axis_inter_max (a c x0 x1 y0 y1 : Rat) (hx : x0 ≤ x1) (hy : y0 ≤ y1) (hne : max x0 y0 ≤ min x1 y1) :
    max (a * max x0 y0 + c) (a * min x1 y1 + c) =
      min (max (a * y0 + c) (a * y1 + c)) (max (a * x0 + c) (a * x1 + c)) := by
  rcases le_total 0 a with ha | ha
  · have m : ∀ p q : Rat, p ≤ q → max (a * p + c) (a * q + c) = a * q + c := fun p q h =>
      max_eq_right (by have := mul_le_mul_of_nonneg_left h ha; linarith)
    rw [m _ _ hne, m _ _ hx, m _ _ hy]
    rcases le_total x1 y1 with h | h
    · rw [min_eq_left h, min_eq_right (by have := mul_le_mul_of_nonneg_left h ha; linarith)]
    · rw [min_eq_right h, min_eq_left (by have := mul_le_mul_of_nonneg_left h ha; linarith)]
  · have m : ∀ p q : Rat, p ≤ q → max (a * p + c) (a * q + c) = a * p + c := fun p q h =>
      max_eq_left (by have := mul_le_mul_of_nonpos_left h ha; linarith)
    rw [m _ _ hne, m _ _ hx, m _ _ hy]
    rcases le_total x0 y0 with h | h
    · rw [max_eq_right h, min_eq_left (by have := mul_le_mul_of_nonpos_left h ha; linarith)]
    · rw [max_eq_left h, min_eq_right (by have := mul_le_mul_of_nonpos_left h ha; linarith)]

/-- **On an axis-aligned grid, when a pixel is shared, the world bounding box of the intersection is
exactly the intersection of the world bounding boxes**:
`(a & b).boundingbox == a.boundingbox & b.boundingbox`. -/
theorem inter_boundingbox_axis (g0 : GeoBox) (hdet : g0.aff.det ≠ 0) (hb : g0.aff.b = 0) (hd : g0.aff.d = 0)
    (r s : Rect) (hne : (r.inter s).NonEmpty) :
    ∃ i, (onGrid g0 r).and (onGrid g0 s) = .ok i ∧
      (onGrid g0 r).boundingbox.and (onGrid g0 s).boundingbox = .ok i.boundingbox := by
  refine ⟨_, and_onGrid g0 hdet r s, ?_⟩
  obtain ⟨n1, n2⟩ := hne
  simp only [Rect.inter] at n1 n2
  have c1 : (r.x0 : Rat) ≤ r.x1 := by exact_mod_cast (show r.x0 ≤ r.x1 by omega)
  have c2 : (r.y0 : Rat) ≤ r.y1 := by exact_mod_cast (show r.y0 ≤ r.y1 by omega)
  have c3 : (s.x0 : Rat) ≤ s.x1 := by exact_mod_cast (show s.x0 ≤ s.x1 by omega)
  have c4 : (s.y0 : Rat) ≤ s.y1 := by exact_mod_cast (show s.y0 ≤ s.y1 by omega)
  have ix : max (max r.x0 s.x0) (min r.x1 s.x1) = min r.x1 s.x1 := by omega
  have iy : max (max r.y0 s.y0) (min r.y1 s.y1) = min r.y1 s.y1 := by omega
  have d1 : max (r.x0 : Rat) s.x0 ≤ min (r.x1 : Rat) s.x1 := by
    exact_mod_cast (show max r.x0 s.x0 ≤ min r.x1 s.x1 by omega)
  have d2 : max (r.y0 : Rat) s.y0 ≤ min (r.y1 : Rat) s.y1 := by
    exact_mod_cast (show max r.y0 s.y0 ≤ min r.y1 s.y1 by omega)
  rw [bbox_and_eq]
  simp only [boundingbox_onGrid, transform_axis _ _ hb hd, Rect.inter, ix, iy, ne_eq, not_true_eq_false, if_false,
    Int.cast_min, Int.cast_max, axis_inter_min _ _ _ _ _ _ c1 c3 d1, axis_inter_max _ _ _ _ _ _ c1 c3 d1,
    axis_inter_min _ _ _ _ _ _ c2 c4 d2, axis_inter_max _ _ _ _ _ _ c2 c4 d2]

/-! ## Part N — `BoundingBox` as a value / sequence, `split_translation`, non-finite doubles, argument forms -/

/-- `==` between two `BoundingBox`es is structural equality (CRS and the four edges) -/
theorem bbox_eq_iff {α : Type} [DecidableEq α] (a b : BBox α) : a.eqBB b = true ↔ a = b := by
  cases a; cases b
  simp [BBox.eqBB]
  tauto

/-- `==` with a plain tuple compares the four edges only (length 4, in order; the CRS is ignored) -/
theorem bbox_eqTuple_iff {α : Type} [DecidableEq α] (a : BBox α) (t : List α) :
    a.eqTuple t = true ↔ t = a.toList := by
  simp [BBox.eqTuple, BBox.toList]

/-- consequently two boxes that differ only in their CRS both equal the same tuple although they are
different from one another: `==` with tuples is not transitive through `BoundingBox` (as on HEAD) -/
theorem bbox_eq_tuple_not_transitive_cex :
    (⟨0, 0, 1, 1, some 1⟩ : BBox Int).eqTuple [0, 0, 1, 1] = true ∧
    (⟨0, 0, 1, 1, none⟩ : BBox Int).eqTuple [0, 0, 1, 1] = true ∧
    (⟨0, 0, 1, 1, some 1⟩ : BBox Int).eqBB ⟨0, 0, 1, 1, none⟩ = false := by decide

/-- indexing: `bb[0..3]` are left, bottom, right, top; negative indices wrap once; everything else is
an `IndexError`; `len(bb) = 4` and iteration gives the same four values -/
theorem bbox_getItem_spec {α : Type} (a : BBox α) :
    a.getItem 0 = .ok a.left ∧ a.getItem 1 = .ok a.bottom ∧ a.getItem 2 = .ok a.right ∧ a.getItem 3 = .ok a.top ∧
    (∀ i : Int, -4 ≤ i → i < 0 → a.getItem i = a.getItem (i + 4)) ∧
    (∀ i : Int, i < -4 ∨ 4 ≤ i → a.getItem i = .error .indexError) ∧ a.len = a.toList.length := by
  refine ⟨rfl, rfl, rfl, rfl, ?_, ?_, rfl⟩
  · intro i h1 h2
    have h3 : ¬ (i + 4 < 0) := by omega
    simp only [BBox.getItem, if_pos h2, if_neg h3]
  · intro i h
    rcases h with h | h
    · have h0 : i < 0 := by omega
      simp only [BBox.getItem, if_pos h0]
      rw [if_neg (by omega), if_neg (by omega), if_neg (by omega), if_neg (by omega)]
    · have h0 : ¬ i < 0 := by omega
      simp only [BBox.getItem, if_neg h0]
      rw [if_neg (by omega), if_neg (by omega), if_neg (by omega), if_neg (by omega)]

/-- `aspect`: the quotient of the spans, `ZeroDivisionError` exactly for a zero `span_y` -/
theorem bbox_aspect_spec (a : BBox Rat) :
    (a.spanY = 0 → a.aspect = .error .zeroDiv) ∧
    (∀ v, a.aspect = .ok v → a.spanY ≠ 0 ∧ v * a.spanY = a.spanX) := by
  constructor
  · intro h; simp [BBox.aspect, h]
  · intro v h
    unfold BBox.aspect at h
    split at h
    · cases h
    · rename_i h0
      cases h
      exact ⟨h0, div_mul_cancel₀ _ h0⟩

/-- `split_translation`: whole parts are integers, sub-pixel parts at most half a pixel, and they add
up to the translation — per axis -/
theorem splitTranslation_spec (t : Rat × Rat) :
    ∃ wx wy : Int, (splitTranslation t).1 = ((wx : Rat), (wy : Rat)) ∧
      (wx : Rat) + (splitTranslation t).2.1 = t.1 ∧ (wy : Rat) + (splitTranslation t).2.2 = t.2 ∧
      |(splitTranslation t).2.1| ≤ 1 / 2 ∧ |(splitTranslation t).2.2| ≤ 1 / 2 := by
  obtain ⟨wx, a1, a2, a3⟩ := splitFloat_spec t.1
  obtain ⟨wy, b1, b2, b3⟩ := splitFloat_spec t.2
  exact ⟨wx, wy, by simp [splitTranslation, a1, b1], a2, b2, a3, b3⟩

/-- `snap_to` moves by the sub-pixel part of `split_translation`, small parts zeroed -/
theorem snapTo_subpix_eq (t : Rat × Rat) :
    subpix t.1 = maybeZero (splitTranslation t).2.1 tolPix ∧ subpix t.2 = maybeZero (splitTranslation t).2.2 tolPix :=
  ⟨rfl, rfl⟩

/-- non-finite doubles: never "almost an integer" (so a GeoBox at a non-finite offset is rejected by
every operation), `split_float` hands them back with a zero fraction, `maybe_zero` leaves them alone;
on finite doubles the three functions are the rational ones -/
theorem nonfinite_helpers (tol : Rat) :
    (∀ x, isAlmostIntF x tol = true → ∃ q, x = .fin q ∧ isAlmostInt q tol = true) ∧
    splitFloatF .pinf = (.pinf, .fin 0) ∧ splitFloatF .ninf = (.ninf, .fin 0) ∧ splitFloatF .nan = (.nan, .fin 0) ∧
    maybeZeroF .pinf tol = .pinf ∧ maybeZeroF .ninf tol = .ninf ∧ maybeZeroF .nan tol = .nan ∧
    (∀ q, isAlmostIntF (.fin q) tol = isAlmostInt q tol ∧ splitFloatF (.fin q) = (.fin (splitFloat q).1, .fin (splitFloat q).2)
      ∧ maybeZeroF (.fin q) tol = .fin (maybeZero q tol)) := by
  refine ⟨?_, rfl, rfl, rfl, rfl, rfl, rfl, fun q => ⟨rfl, rfl, rfl⟩⟩
  intro x h
  cases x with
  | fin q => exact ⟨q, rfl, h⟩
  | pinf => simp [isAlmostIntF] at h
  | ninf => simp [isAlmostIntF] at h
  | nan => simp [isAlmostIntF] at h

/-- argument forms of the n-ary operations: a list and a tuple are the same call -/
theorem nary_forms (gs : List GeoBox) (f : SeqForm) :
    geoboxUnionForm f gs = geoboxUnionConservative gs ∧
    geoboxIntersectionForm f gs = geoboxIntersectionConservative gs :=
  ⟨rfl, rfl⟩

/-! ### links to the C02 model (read-only import through `Model/C16Link`) -/

/-- `GeoBox.boundingbox` here is C02's `boundingbox` (same four corners, same min / max) -/
theorem boundingbox_eq_C02 (g : GeoBox) :
    g.boundingbox = ⟨(C02.boundingbox (toC02 g)).left, (C02.boundingbox (toC02 g)).bottom,
                     (C02.boundingbox (toC02 g)).right, (C02.boundingbox (toC02 g)).top, g.crs⟩ := by
  simp only [GeoBox.boundingbox, BBox.fromTransform, bboxOfPoints, List.map, minL, maxL, C02.boundingbox, toC02,
    C02.min4, C02.max4, min_assoc, max_assoc]

/-- `GeoBox.extent` here is C02's `extent` (`polygon_from_transform`) -/
theorem extent_eq_C02 (g : GeoBox) : g.extentHead :: g.extentTail = C02.extent (toC02 g) := by
  simp [GeoBox.extentHead, GeoBox.extentTail, C02.extent, C02.corners, toC02]

end OdcGeo.C16

/-! ## Part O — growth round 3: world-coordinate tightness of `enclosing` -/

namespace OdcGeo.C16
open OdcGeo

/-- `~A * (x, y)` for an axis-aligned invertible transform -/
theorem inv_apply_axis (A : Aff) (hb : A.b = 0) (hd : A.d = 0) (hdet : A.det ≠ 0) (q : Pt) :
    A.inv.apply q = ((q.1 - A.c) / A.a, (q.2 - A.f) / A.e) := by
  have hae : A.a * A.e ≠ 0 := by simpa [Aff.det, hb, hd] using hdet
  have ha : A.a ≠ 0 := left_ne_zero_of_mul hae
  have he : A.e ≠ 0 := right_ne_zero_of_mul hae
  simp only [Aff.inv, Aff.apply, Aff.det, hb, hd, Prod.mk.injEq]
  constructor <;> field_simp <;> ring

/-- one axis of `enclosing` on an axis-aligned grid, in world units: `p`, `q` are the pixel
coordinates of the two edges `l = a p + c ≤ r = a q + c` of the region, `[tx, tx + n]` the pixel
interval of the result (covers both, excess < 1 px per side, or the one-pixel degenerate case) -/
theorem axis_tight (a c p q : Rat) (ha : a ≠ 0) (tx n : Int) (hlr : a * p + c ≤ a * q + c)
    (cp : (tx : Rat) ≤ p ∧ p ≤ tx + n) (_cq : (tx : Rat) ≤ q ∧ q ≤ tx + n)
    (hlo : p - tx < 1 ∨ q - tx < 1)
    (hhi : ((tx : Rat) + n - p < 1 ∨ (tx : Rat) + n - q < 1) ∨ (n = 1 ∧ p = tx ∧ q = tx)) :
    ((a * p + c) - min (a * tx + c) (a * (tx + n) + c) < |a| ∧
      max (a * tx + c) (a * (tx + n) + c) - (a * q + c) < |a|) ∨
    (n = 1 ∧ a * p + c = a * q + c ∧
      max (a * tx + c) (a * (tx + n) + c) - min (a * tx + c) (a * (tx + n) + c) = |a|) := by
  have hn : (0 : Rat) ≤ n := by linarith [cp.1, cp.2]
  rcases lt_or_gt_of_ne ha with hneg | hpos
  · -- a < 0 : p ≥ q, the world-left edge is the pixel-high edge
    have hpq : q ≤ p := by
      by_contra h
      have := mul_lt_mul_of_neg_left (lt_of_not_ge h) hneg
      linarith
    have hmin : min (a * tx + c) (a * (tx + n) + c) = a * (tx + n) + c :=
      min_eq_right (by nlinarith)
    have hmax : max (a * tx + c) (a * (tx + n) + c) = a * tx + c :=
      max_eq_left (by nlinarith)
    rw [hmin, hmax, abs_of_neg hneg]
    rcases hhi with hh | ⟨h1, h2, h3⟩
    · left
      have hp : (tx : Rat) + n - p < 1 := by rcases hh with h | h <;> linarith
      have hq : q - tx < 1 := by rcases hlo with h | h <;> linarith
      constructor <;> nlinarith
    · right
      refine ⟨h1, by rw [h2, h3], ?_⟩
      have : (n : Rat) = 1 := by exact_mod_cast h1
      rw [this]; ring
  · have hpq : p ≤ q := by
      by_contra h
      have := mul_lt_mul_of_pos_left (lt_of_not_ge h) hpos
      linarith
    have hmin : min (a * tx + c) (a * (tx + n) + c) = a * tx + c :=
      min_eq_left (by nlinarith)
    have hmax : max (a * tx + c) (a * (tx + n) + c) = a * (tx + n) + c :=
      max_eq_right (by nlinarith)
    rw [hmin, hmax, abs_of_pos hpos]
    rcases hhi with hh | ⟨h1, h2, h3⟩
    · left
      have hq : (tx : Rat) + n - q < 1 := by rcases hh with h | h <;> linarith
      have hp : p - tx < 1 := by rcases hlo with h | h <;> linarith
      constructor <;> nlinarith
    · right
      refine ⟨h1, by rw [h2, h3], ?_⟩
      have : (n : Rat) = 1 := by exact_mod_cast h1
      rw [this]; ring

end OdcGeo.C16

namespace OdcGeo.C16
open OdcGeo

/-- **`enclosing(bbox)` in world units on an axis-aligned grid** (north-up, south-up, mirrored, any
pixel size): the world bounding box of the result exceeds the region by less than one pixel size on
every side — except when the region has zero extent on an axis and sits on a grid line, where a
one-pixel GeoBox is returned (then the result is exactly one pixel wide on that axis). -/
theorem enclosing_bbox_world_tight (g : GeoBox) (hdet : g.aff.det ≠ 0) (hg : g.crs ≠ none)
    (hb : g.aff.b = 0) (hd : g.aff.d = 0) (reproj : Reproj) (bb : BBox Rat) (hc : bb.crs = g.crs)
    (hlr : bb.left ≤ bb.right) (hbt : bb.bottom ≤ bb.top) :
    ∃ res : GeoBox, g.enclosingRegion reproj (.bbox bb) = .ok res ∧
      ((bb.left - res.boundingbox.left < |g.aff.a| ∧ res.boundingbox.right - bb.right < |g.aff.a|) ∨
        (res.nx = 1 ∧ bb.left = bb.right ∧ res.boundingbox.right - res.boundingbox.left = |g.aff.a|)) ∧
      ((bb.bottom - res.boundingbox.bottom < |g.aff.e| ∧ res.boundingbox.top - bb.top < |g.aff.e|) ∨
        (res.ny = 1 ∧ bb.bottom = bb.top ∧ res.boundingbox.top - res.boundingbox.bottom = |g.aff.e|)) := by
  have hae : g.aff.a * g.aff.e ≠ 0 := by simpa [Aff.det, hb, hd] using hdet
  have ha : g.aff.a ≠ 0 := left_ne_zero_of_mul hae
  have he : g.aff.e ≠ 0 := right_ne_zero_of_mul hae
  have hr : (Region.bbox bb).crs ≠ none := by simpa [Region.crs, hc] using hg
  obtain ⟨res, tx, ty, h, e, n1, n2, hcov, lox, loy, hix, hiy⟩ := enclosing_region_spec g hdet hg reproj (.bbox bb) hr
  have hh : (Region.bbox bb).worldHead reproj g.crs = (bb.left, bb.bottom) := by
    simp [Region.worldHead, Region.crs, Region.head, BBox.ringHead, hc]
  have ht : (Region.bbox bb).worldTail reproj g.crs =
      [(bb.left, bb.top), (bb.right, bb.top), (bb.right, bb.bottom), (bb.left, bb.bottom)] := by
    simp [Region.worldTail, Region.crs, Region.tail, BBox.ringTail, hc]
  rw [hh, ht] at hcov lox loy hix hiy
  simp only [inv_apply_axis g.aff hb hd hdet] at lox loy hix hiy
  refine ⟨res, h, ?_, ?_⟩
  -- world bounding box of the result
  all_goals
    have hW := congrArg GeoBox.boundingbox e
    rw [boundingbox_onGrid, transform_axis _ _ hb hd] at hW
  · -- x axis
    have cov : ∀ x y : Rat, (∃ w ∈ [(bb.left, bb.bottom), (bb.left, bb.top), (bb.right, bb.top), (bb.right, bb.bottom),
        (bb.left, bb.bottom)], w = (x, y)) → (tx : Rat) ≤ (x - g.aff.c) / g.aff.a ∧ (x - g.aff.c) / g.aff.a ≤ tx + res.nx := by
      rintro x y ⟨w, hw, rfl⟩
      obtain ⟨u, v, u0, u1, -, -, huv⟩ := hcov (x, y) hw
      rw [e] at huv
      simp only [onGrid, apply_mul_translation] at huv
      simp only [Aff.apply, hb, zero_mul, add_zero, Prod.mk.injEq] at huv
      have : (x - g.aff.c) / g.aff.a = u + tx := by rw [← huv.1]; field_simp; ring
      rw [this]
      have hnx : ((onGrid g ⟨tx, ty, tx + res.nx, ty + res.ny⟩).nx : Rat) = res.nx := by simp [onGrid]
      constructor <;> linarith
    have cp := cov bb.left bb.bottom ⟨_, by simp, rfl⟩
    have cq := cov bb.right bb.top ⟨_, by simp, rfl⟩
    have hlo : (bb.left - g.aff.c) / g.aff.a - tx < 1 ∨ (bb.right - g.aff.c) / g.aff.a - tx < 1 := by
      obtain ⟨w, hw, hlt⟩ := lox
      simp only [List.mem_cons, List.mem_nil_iff, or_false] at hw
      rcases hw with rfl | rfl | rfl | rfl | rfl <;> simp only at hlt <;> first | exact Or.inl hlt | exact Or.inr hlt
    have hhi : (((tx : Rat) + res.nx - (bb.left - g.aff.c) / g.aff.a < 1) ∨
        ((tx : Rat) + res.nx - (bb.right - g.aff.c) / g.aff.a < 1)) ∨
        (res.nx = 1 ∧ (bb.left - g.aff.c) / g.aff.a = tx ∧ (bb.right - g.aff.c) / g.aff.a = tx) := by
      rcases hix with ⟨w, hw, hlt⟩ | ⟨h1, hall⟩
      · left
        simp only [List.mem_cons, List.mem_nil_iff, or_false] at hw
        rcases hw with rfl | rfl | rfl | rfl | rfl <;> simp only at hlt <;> first | exact Or.inl hlt | exact Or.inr hlt
      · right
        exact ⟨h1, hall (bb.left, bb.bottom) (by simp), hall (bb.right, bb.top) (by simp)⟩
    have el : g.aff.a * ((bb.left - g.aff.c) / g.aff.a) + g.aff.c = bb.left := by field_simp; ring
    have er : g.aff.a * ((bb.right - g.aff.c) / g.aff.a) + g.aff.c = bb.right := by field_simp; ring
    have key := axis_tight g.aff.a g.aff.c _ _ ha tx res.nx (by rw [el, er]; exact hlr) cp cq hlo hhi
    rw [el, er] at key
    rw [hW]
    simp only
    push_cast
    exact key
  · -- y axis
    have cov : ∀ x y : Rat, (∃ w ∈ [(bb.left, bb.bottom), (bb.left, bb.top), (bb.right, bb.top), (bb.right, bb.bottom),
        (bb.left, bb.bottom)], w = (x, y)) → (ty : Rat) ≤ (y - g.aff.f) / g.aff.e ∧ (y - g.aff.f) / g.aff.e ≤ ty + res.ny := by
      rintro x y ⟨w, hw, rfl⟩
      obtain ⟨u, v, -, -, v0, v1, huv⟩ := hcov (x, y) hw
      rw [e] at huv
      simp only [onGrid, apply_mul_translation] at huv
      simp only [Aff.apply, hd, zero_mul, zero_add, Prod.mk.injEq] at huv
      have : (y - g.aff.f) / g.aff.e = v + ty := by rw [← huv.2]; field_simp; ring
      rw [this]
      have hny : ((onGrid g ⟨tx, ty, tx + res.nx, ty + res.ny⟩).ny : Rat) = res.ny := by simp [onGrid]
      constructor <;> linarith
    have cp := cov bb.left bb.bottom ⟨_, by simp, rfl⟩
    have cq := cov bb.right bb.top ⟨_, by simp, rfl⟩
    have hlo : (bb.bottom - g.aff.f) / g.aff.e - ty < 1 ∨ (bb.top - g.aff.f) / g.aff.e - ty < 1 := by
      obtain ⟨w, hw, hlt⟩ := loy
      simp only [List.mem_cons, List.mem_nil_iff, or_false] at hw
      rcases hw with rfl | rfl | rfl | rfl | rfl <;> simp only at hlt <;> first | exact Or.inl hlt | exact Or.inr hlt
    have hhi : (((ty : Rat) + res.ny - (bb.bottom - g.aff.f) / g.aff.e < 1) ∨
        ((ty : Rat) + res.ny - (bb.top - g.aff.f) / g.aff.e < 1)) ∨
        (res.ny = 1 ∧ (bb.bottom - g.aff.f) / g.aff.e = ty ∧ (bb.top - g.aff.f) / g.aff.e = ty) := by
      rcases hiy with ⟨w, hw, hlt⟩ | ⟨h1, hall⟩
      · left
        simp only [List.mem_cons, List.mem_nil_iff, or_false] at hw
        rcases hw with rfl | rfl | rfl | rfl | rfl <;> simp only at hlt <;> first | exact Or.inl hlt | exact Or.inr hlt
      · right
        exact ⟨h1, hall (bb.left, bb.bottom) (by simp), hall (bb.right, bb.top) (by simp)⟩
    have el : g.aff.e * ((bb.bottom - g.aff.f) / g.aff.e) + g.aff.f = bb.bottom := by field_simp; ring
    have er : g.aff.e * ((bb.top - g.aff.f) / g.aff.e) + g.aff.f = bb.top := by field_simp; ring
    have key := axis_tight g.aff.e g.aff.f _ _ he ty res.ny (by rw [el, er]; exact hbt) cp cq hlo hhi
    rw [el, er] at key
    rw [hW]
    simp only
    push_cast
    exact key

end OdcGeo.C16

namespace OdcGeo.C16
open OdcGeo

/-! ## Part P — growth round 3: empty geometries, `BoundingBox.to_crs` / `boundary`, non-linear operands -/

/-- **An empty geometry is never enclosed**: whatever the GeoBox (also a degenerate one), the CRSs and
pyproj, `enclosing` of an empty region is an error — never a GeoBox placed somewhere by default. -/
theorem enclosing_empty_rejected (g : GeoBox) (reproj : Reproj) (crs : Option Nat) :
    ∃ e, g.enclosingGeomL reproj crs [] = .error e := by
  unfold GeoBox.enclosingGeomL
  split_ifs <;> exact ⟨_, rfl⟩

/-- `project` of an empty geometry is the empty geometry (with the CRS bookkeeping of the non-empty
case); the only error left is a geo-registered region on a GeoBox without CRS; a degenerate grid is not
noticed.  Non-empty sequences are the modelled `project` / `enclosing`. -/
theorem projectL_spec (g : GeoBox) (reproj : Reproj) (crs : Option Nat) :
    (crs = none → g.projectL reproj crs [] = .ok (g.crs, [])) ∧
    (crs ≠ none → g.crs = none → g.projectL reproj crs [] = .error .assertion) ∧
    (crs ≠ none → g.crs ≠ none → g.projectL reproj crs [] = .ok (none, [])) ∧
    (∀ p ps, g.enclosingGeomL reproj crs (p :: ps) = g.enclosingRegion reproj (.geom crs p ps)) ∧
    (∀ p ps c q qs, g.project reproj crs p ps = .ok (c, q, qs) → g.projectL reproj crs (p :: ps) = .ok (c, q :: qs)) := by
  refine ⟨fun h => by simp [GeoBox.projectL, h], fun h1 h2 => by simp [GeoBox.projectL, h1, h2],
    fun h1 h2 => by simp [GeoBox.projectL, h1, h2], fun _ _ => rfl, ?_⟩
  intro p ps c q qs h
  simp [GeoBox.projectL, h]

/-- `BoundingBox.to_crs`: a box without CRS is refused; otherwise the result carries the destination
CRS, contains the image of every vertex of the box's ring and is the smallest such box (for an equal
CRS the images are the vertices themselves: a proper box comes back unchanged, an inverted one sorted). -/
theorem bbox_toCrs_spec (bb : BBox Rat) (reproj : Reproj) (dst : Nat) :
    (bb.crs = none → bb.toCrs reproj dst = .error .valueError) ∧
    (bb.crs ≠ none → ∃ out, bb.toCrs reproj dst = .ok out ∧ out.crs = some dst ∧
      let f : Pt → Pt := if bb.crs = some dst then fun q => q else reproj bb.crs (some dst)
      (∀ q ∈ bb.ringHead :: bb.ringTail, out.Contains (f q)) ∧
      (∀ c : BBox Rat, (∀ q ∈ bb.ringHead :: bb.ringTail, c.Contains (f q)) → out.Within c)) := by
  constructor
  · intro h
    have : ¬ (none : Option Nat) = some dst := by simp
    simp [BBox.toCrs, h]
  · intro h
    have key : ∀ (f : Pt → Pt),
        (∀ q ∈ bb.ringHead :: bb.ringTail, (bboxOfPoints (f bb.ringHead) (bb.ringTail.map f) (some dst)).Contains (f q)) ∧
        (∀ c : BBox Rat, (∀ q ∈ bb.ringHead :: bb.ringTail, c.Contains (f q)) →
          (bboxOfPoints (f bb.ringHead) (bb.ringTail.map f) (some dst)).Within c) := by
      intro f
      have hx1 := minL_le (f bb.ringHead).1 ((bb.ringTail.map f).map (·.1))
      have hx2 := le_maxL (f bb.ringHead).1 ((bb.ringTail.map f).map (·.1))
      have hy1 := minL_le (f bb.ringHead).2 ((bb.ringTail.map f).map (·.2))
      have hy2 := le_maxL (f bb.ringHead).2 ((bb.ringTail.map f).map (·.2))
      constructor
      · intro q hq
        simp only [List.mem_cons] at hq
        rcases hq with rfl | hq
        · exact ⟨hx1.1, hx2.1, hy1.1, hy2.1⟩
        · have m1 : (f q).1 ∈ (bb.ringTail.map f).map (·.1) := List.mem_map_of_mem (List.mem_map_of_mem hq)
          have m2 : (f q).2 ∈ (bb.ringTail.map f).map (·.2) := List.mem_map_of_mem (List.mem_map_of_mem hq)
          exact ⟨hx1.2 _ m1, hx2.2 _ m1, hy1.2 _ m2, hy2.2 _ m2⟩
      · intro c hc
        have back : ∀ v, v ∈ (bb.ringTail.map f).map (·.1) → ∃ q ∈ bb.ringTail, (f q).1 = v := by
          intro v hv
          simp only [List.map_map, List.mem_map, Function.comp] at hv
          exact hv
        have back2 : ∀ v, v ∈ (bb.ringTail.map f).map (·.2) → ∃ q ∈ bb.ringTail, (f q).2 = v := by
          intro v hv
          simp only [List.map_map, List.mem_map, Function.comp] at hv
          exact hv
        have c0 := hc bb.ringHead (List.mem_cons_self ..)
        refine ⟨?_, ?_, ?_, ?_⟩
        · rcases minL_mem (f bb.ringHead).1 ((bb.ringTail.map f).map (·.1)) with e | e
          · show c.left ≤ minL _ _; rw [e]; exact c0.1
          · obtain ⟨q, hq, hv⟩ := back _ e
            show c.left ≤ minL _ _; rw [← hv]; exact (hc q (List.mem_cons_of_mem _ hq)).1
        · rcases minL_mem (f bb.ringHead).2 ((bb.ringTail.map f).map (·.2)) with e | e
          · show c.bottom ≤ minL _ _; rw [e]; exact c0.2.2.1
          · obtain ⟨q, hq, hv⟩ := back2 _ e
            show c.bottom ≤ minL _ _; rw [← hv]; exact (hc q (List.mem_cons_of_mem _ hq)).2.2.1
        · rcases maxL_mem (f bb.ringHead).1 ((bb.ringTail.map f).map (·.1)) with e | e
          · show maxL _ _ ≤ c.right; rw [e]; exact c0.2.1
          · obtain ⟨q, hq, hv⟩ := back _ e
            show maxL _ _ ≤ c.right; rw [← hv]; exact (hc q (List.mem_cons_of_mem _ hq)).2.1
        · rcases maxL_mem (f bb.ringHead).2 ((bb.ringTail.map f).map (·.2)) with e | e
          · show maxL _ _ ≤ c.top; rw [e]; exact c0.2.2.2
          · obtain ⟨q, hq, hv⟩ := back2 _ e
            show maxL _ _ ≤ c.top; rw [← hv]; exact (hc q (List.mem_cons_of_mem _ hq)).2.2.2
    by_cases hs : bb.crs = some dst
    · refine ⟨bboxOfPoints bb.ringHead bb.ringTail (some dst), by simp [BBox.toCrs, hs], rfl, ?_⟩
      have := key (fun q => q)
      simpa [hs] using this
    · refine ⟨bboxOfPoints (reproj bb.crs (some dst) bb.ringHead) (bb.ringTail.map (reproj bb.crs (some dst))) (some dst),
        by simp [BBox.toCrs, hs, h], rfl, ?_⟩
      have := key (reproj bb.crs (some dst))
      simpa [hs] using this

/-- `boundary`: no points per side is an `IndexError`; one gives the first corner twice; two give the
closed ring through the four corners (left-bottom first, counter-clockwise in the box's own frame) -/
theorem bbox_boundary_small (bb : BBox Rat) :
    bb.boundary 0 = .error .indexError ∧
    bb.boundary 1 = .ok [(bb.left, bb.bottom), (bb.left, bb.bottom)] ∧
    bb.boundary 2 = .ok [(bb.left, bb.bottom), (bb.right, bb.bottom), (bb.right, bb.top), (bb.left, bb.top),
                         (bb.left, bb.bottom)] := by
  refine ⟨?_, ?_, ?_⟩
  · simp [BBox.boundary, edgeIndexClosed, linspaceQ, List.range_zero]
  · simp [BBox.boundary, edgeIndexClosed, linspaceQ, List.range_succ, List.range_zero, bind, Except.bind, pure, Except.pure]
  · simp [BBox.boundary, edgeIndexClosed, linspaceQ, List.range_succ, List.range_zero, bind, Except.bind, pure, Except.pure]
    norm_num

/-- **A non-linear (GCP) operand never produces a result**: `|`, `&`, `overlap_roi`, `snap_to` with a
GCPGeoBox on either side are refused — nothing is silently approximated through `GCPGeoBox.approx`. -/
theorem nonlinear_never_result (x : Operand) (tol : Rat) :
    x.or .nonlinear = .refused ∧ Operand.nonlinear.or x = .refused ∧
    x.and .nonlinear = .refused ∧ Operand.nonlinear.and x = .refused ∧
    x.overlapRoi .nonlinear tol = .refused ∧ Operand.nonlinear.overlapRoi x tol = .refused ∧
    x.snapTo .nonlinear = .refused ∧ Operand.nonlinear.snapTo x = .refused := by
  cases x <;> exact ⟨rfl, rfl, rfl, rfl, rfl, rfl, rfl, rfl⟩

/-- with linear operands the operand-level operations are the modelled ones -/
theorem linear_operands (a b : GeoBox) (tol : Rat) :
    (Operand.linear a).or (.linear b) = .res (a.or b) ∧ (Operand.linear a).and (.linear b) = .res (a.and b) ∧
    (Operand.linear a).overlapRoi (.linear b) tol = .res (a.overlapRoi b tol) ∧
    (Operand.linear a).snapTo (.linear b) = .res (a.snapTo b) := ⟨rfl, rfl, rfl, rfl⟩

end OdcGeo.C16

namespace OdcGeo.C16
/-- non-vacuity of `enclosing_bbox_world_tight`: a mirrored, anisotropic axis-aligned grid and a proper box -/
example : ∃ (g : GeoBox) (bb : BBox Rat), g.aff.det ≠ 0 ∧ g.crs ≠ none ∧ g.aff.b = 0 ∧ g.aff.d = 0 ∧ bb.crs = g.crs ∧
    bb.left ≤ bb.right ∧ bb.bottom ≤ bb.top :=
  ⟨⟨3, 3, ⟨-2, 0, 64, 0, -4, 32⟩, some 1⟩, ⟨0, 0, 2, 2, some 1⟩, by simp [Aff.det], by simp, rfl, rfl, rfl,
    by norm_num, by norm_num⟩
end OdcGeo.C16

namespace OdcGeo.C16
open OdcGeo

/-! ## Part Q — `functools.reduce` of the binary operators = the n-ary functions -/

/-- **`reduce(operator.or_, geoboxes)` is `geobox_union_conservative(geoboxes)`** for every list of
GeoBoxes on a common grid (any length, any order, empty members included): same shape and same world
affine, although the reference changes at every step of the fold. -/
theorem reduce_or_eq_union (g0 : GeoBox) (hdet : g0.aff.det ≠ 0) (r : Rect) (ss : List Rect) :
    List.foldlM (fun acc g => acc.or g) (onGrid g0 r) (ss.map (onGrid g0)) =
      geoboxUnionConservative ((r :: ss).map (onGrid g0)) := by
  induction ss generalizing r with
  | nil =>
    rw [union_list_onGrid g0 hdet r []]
    rfl
  | cons s ss ih =>
    rw [union_list_eq_fold g0 hdet r s ss, or_onGrid g0 hdet]
    simp only [List.map, List.foldlM, or_onGrid g0 hdet, bind, Except.bind]
    have := ih (r.union s)
    simp only [List.map] at this
    exact this

/-- **`reduce(operator.and_, geoboxes)` is `geobox_intersection_conservative(geoboxes)`** on a common
grid, although the fold normalises an empty intermediate result at every step and the n-ary form only
at the end (shapes are never negative: `r.Valid`). -/
theorem reduce_and_eq_inter (g0 : GeoBox) (hdet : g0.aff.det ≠ 0) (r : Rect) (hr : r.Valid) (ss : List Rect) :
    List.foldlM (fun acc g => acc.and g) (onGrid g0 r) (ss.map (onGrid g0)) =
      geoboxIntersectionConservative ((r :: ss).map (onGrid g0)) := by
  induction ss generalizing r with
  | nil =>
    rw [inter_list_onGrid g0 hdet r []]
    obtain ⟨x0, y0, x1, y1⟩ := r
    obtain ⟨h1, h2⟩ := hr
    simp only at h1 h2
    simp only [List.map, List.foldlM, List.foldl, pure, Except.pure, Rect.norm, max_eq_right h1, max_eq_right h2]
  | cons s ss ih =>
    rw [inter_list_eq_fold g0 hdet r s ss, and_onGrid g0 hdet]
    simp only [List.map, List.foldlM, and_onGrid g0 hdet, bind, Except.bind]
    have := ih (r.inter s) ⟨by simp only [Rect.inter]; omega, by simp only [Rect.inter]; omega⟩
    simp only [List.map] at this
    exact this

example : (⟨0, 0, 0, 3⟩ : Rect).Valid := ⟨by decide, by decide⟩

end OdcGeo.C16

namespace OdcGeo.C16
open OdcGeo

/-! ## Part R — `BoundingBox.boundary(n)` for every `n ≥ 2` -/

theorem mapM_ok_of_forall {α β : Type} (f : α → Res β) (g : α → β) (l : List α) (h : ∀ x ∈ l, f x = .ok (g x)) :
    l.mapM f = .ok (l.map g) := by
  induction l with
  | nil => rfl
  | cons x xs ih =>
    have hx := h x (List.mem_cons_self ..)
    have hxs := ih (fun y hy => h y (List.mem_cons_of_mem _ hy))
    simp only [List.mapM_cons, hx, hxs, List.map_cons, bind, Except.bind, pure, Except.pure]

/-- the `i`-th sample of `linspace(a, b, n)` -/
def linPt (a b : Rat) (n i : Nat) : Rat := a + (i : Rat) * ((b - a) / ((n : Rat) - 1))

theorem linspaceQ_get (a b : Rat) (n i : Nat) (hn : 2 ≤ n) (hi : i < n) :
    (linspaceQ a b n)[i]? = some (linPt a b n i) := by
  have h1 : n ≠ 1 := by omega
  simp only [linspaceQ, if_neg h1, List.getElem?_map, List.getElem?_range hi, Option.map_some, linPt]

theorem linPt_zero (a b : Rat) (n : Nat) : linPt a b n 0 = a := by simp [linPt]

theorem linPt_last (a b : Rat) (n : Nat) (hn : 2 ≤ n) : linPt a b n (n - 1) = b := by
  have h : ((n : Rat) - 1) ≠ 0 := by
    have : (2 : Rat) ≤ n := by exact_mod_cast hn
    intro h0; linarith
  have hc : ((n - 1 : Nat) : Rat) = (n : Rat) - 1 := by
    rw [Nat.cast_sub (by omega)]; simp
  simp only [linPt, hc]
  field_simp
  ring

/-- every sample is a convex combination of the two ends -/
theorem linPt_between (a b : Rat) (n i : Nat) (hn : 2 ≤ n) (hi : i < n) :
    ∃ t : Rat, 0 ≤ t ∧ t ≤ 1 ∧ linPt a b n i = a + t * (b - a) := by
  have hpos : (0 : Rat) < (n : Rat) - 1 := by
    have : (2 : Rat) ≤ n := by exact_mod_cast hn
    linarith
  refine ⟨(i : Rat) / ((n : Rat) - 1), div_nonneg (Nat.cast_nonneg i) hpos.le, ?_, ?_⟩
  · rw [div_le_one hpos]
    have : (i : Rat) + 1 ≤ n := by exact_mod_cast hi
    linarith
  · simp only [linPt]; field_simp

theorem mem_edgeIndexClosed (n : Nat) (hn : 2 ≤ n) (ij : Nat × Nat) (h : ij ∈ edgeIndexClosed n) :
    ij.1 < n ∧ ij.2 < n ∧ (ij.1 = 0 ∨ ij.1 = n - 1 ∨ ij.2 = 0 ∨ ij.2 = n - 1) := by
  simp only [edgeIndexClosed, List.mem_append, List.mem_map, List.mem_range, List.mem_reverse, List.mem_cons,
    List.mem_nil_iff, or_false] at h
  rcases h with (((⟨i, hi, rfl⟩ | ⟨j, hj, rfl⟩) | ⟨i, hi, rfl⟩) | ⟨j, hj, rfl⟩) | rfl
  · exact ⟨hi, by omega, Or.inr (Or.inr (Or.inl rfl))⟩
  · exact ⟨by omega, by simp only; omega, Or.inr (Or.inl rfl)⟩
  · exact ⟨by simp only; omega, by simp only; omega, Or.inr (Or.inr (Or.inr rfl))⟩
  · exact ⟨by omega, by simp only; omega, Or.inl rfl⟩
  · exact ⟨by simp only; omega, by simp only; omega, Or.inl rfl⟩

theorem length_edgeIndexClosed (n : Nat) (hn : 2 ≤ n) : (edgeIndexClosed n).length = 4 * (n - 1) + 1 := by
  simp only [edgeIndexClosed, List.length_append, List.length_map, List.length_range, List.length_reverse,
    List.length_cons, List.length_nil]
  omega

/-- **`boundary(n)` for every `n ≥ 2`** (any box, inverted ones included): the call succeeds; it returns
`4(n-1) + 1` points; the walk is closed and starts at `(left, bottom)`; the four corners are on it; every
point lies on the perimeter — on the left or right edge at a height between bottom and top, or on the
bottom or top edge at an abscissa between left and right. -/
theorem bbox_boundary_spec (bb : BBox Rat) (n : Nat) (hn : 2 ≤ n) :
    ∃ pts, bb.boundary n = .ok pts ∧ pts.length = 4 * (n - 1) + 1 ∧
      pts.head? = some (bb.left, bb.bottom) ∧ pts.getLast? = some (bb.left, bb.bottom) ∧
      (bb.left, bb.bottom) ∈ pts ∧ (bb.right, bb.bottom) ∈ pts ∧ (bb.right, bb.top) ∈ pts ∧ (bb.left, bb.top) ∈ pts ∧
      ∀ p ∈ pts,
        ((p.1 = bb.left ∨ p.1 = bb.right) ∧ ∃ t : Rat, 0 ≤ t ∧ t ≤ 1 ∧ p.2 = bb.bottom + t * (bb.top - bb.bottom)) ∨
        ((p.2 = bb.bottom ∨ p.2 = bb.top) ∧ ∃ t : Rat, 0 ≤ t ∧ t ≤ 1 ∧ p.1 = bb.left + t * (bb.right - bb.left)) := by
  let P : Nat × Nat → Pt := fun ij => (linPt bb.left bb.right n ij.1, linPt bb.bottom bb.top n ij.2)
  have hok : bb.boundary n = .ok ((edgeIndexClosed n).map P) := by
    unfold BBox.boundary
    apply mapM_ok_of_forall
    intro ij hij
    obtain ⟨h1, h2, -⟩ := mem_edgeIndexClosed n hn ij hij
    simp only [linspaceQ_get _ _ n _ hn h1, linspaceQ_get _ _ n _ hn h2, P]
  have memP : ∀ i j, (i, j) ∈ edgeIndexClosed n → P (i, j) ∈ (edgeIndexClosed n).map P :=
    fun i j h => List.mem_map_of_mem h
  have m00 : (0, 0) ∈ edgeIndexClosed n := by simp [edgeIndexClosed]
  have m10 : (n - 1, 0) ∈ edgeIndexClosed n := by
    simp only [edgeIndexClosed, List.mem_append, List.mem_map, List.mem_range]
    exact Or.inl (Or.inl (Or.inl (Or.inl ⟨n - 1, by omega, rfl⟩)))
  have m11 : (n - 1, n - 1) ∈ edgeIndexClosed n := by
    simp only [edgeIndexClosed, List.mem_append, List.mem_map, List.mem_range]
    exact Or.inl (Or.inl (Or.inl (Or.inr ⟨n - 2, by omega, by congr 1; omega⟩)))
  have m01 : (0, n - 1) ∈ edgeIndexClosed n := by
    simp only [edgeIndexClosed, List.mem_append, List.mem_map, List.mem_range, List.mem_reverse]
    exact Or.inl (Or.inl (Or.inr ⟨0, by omega, rfl⟩))
  have e00 : P (0, 0) = (bb.left, bb.bottom) := by simp only [P, linPt_zero]
  have e10 : P (n - 1, 0) = (bb.right, bb.bottom) := by simp only [P, linPt_zero, linPt_last _ _ n hn]
  have e11 : P (n - 1, n - 1) = (bb.right, bb.top) := by simp only [P, linPt_last _ _ n hn]
  have e01 : P (0, n - 1) = (bb.left, bb.top) := by simp only [P, linPt_zero, linPt_last _ _ n hn]
  refine ⟨_, hok, by rw [List.length_map, length_edgeIndexClosed n hn], ?_, ?_, ?_, ?_, ?_, ?_, ?_⟩
  · have : (edgeIndexClosed n).head? = some (0, 0) := by
      obtain ⟨k, rfl⟩ : ∃ k, n = k + 2 := ⟨n - 2, by omega⟩
      simp [edgeIndexClosed, List.range_succ_eq_map]
    rw [List.head?_map, this, Option.map_some, e00]
  · have : (edgeIndexClosed n).getLast? = some (0, 0) := by simp [edgeIndexClosed]
    rw [List.getLast?_map, this, Option.map_some, e00]
  · rw [← e00]; exact memP _ _ m00
  · rw [← e10]; exact memP _ _ m10
  · rw [← e11]; exact memP _ _ m11
  · rw [← e01]; exact memP _ _ m01
  · intro p hp
    obtain ⟨ij, hij, rfl⟩ := List.mem_map.mp hp
    obtain ⟨h1, h2, hedge⟩ := mem_edgeIndexClosed n hn ij hij
    rcases hedge with h | h | h | h
    · left; exact ⟨Or.inl (by simp only [P, h, linPt_zero]), linPt_between _ _ n _ hn h2⟩
    · left; exact ⟨Or.inr (by simp only [P, h, linPt_last _ _ n hn]), linPt_between _ _ n _ hn h2⟩
    · right; exact ⟨Or.inl (by simp only [P, h, linPt_zero]), linPt_between _ _ n _ hn h1⟩
    · right; exact ⟨Or.inr (by simp only [P, h, linPt_last _ _ n hn]), linPt_between _ _ n _ hn h1⟩

example : (2 : Nat) ≤ 16 := by decide

end OdcGeo.C16

namespace OdcGeo.C16
open OdcGeo

/-! ## Part S — `BoundingBox.map_bounds` / `aoi` dispatch, `GCPGeoBox.project` -/

/-- `map_bounds`: `((south, west), (north, east))` read off the box itself without CRS or in lon/lat
(pyproj is not consulted), otherwise off the lon/lat images of the corners `(left, bottom)` and
`(right, top)` — latitude first in both cases -/
theorem bbox_mapBounds_spec (bb : BBox Rat) (r1 r2 : Reproj) (ll : Nat) :
    (bb.crs = none ∨ bb.crs = some ll →
      bb.mapBounds r1 ll = ((bb.bottom, bb.left), (bb.top, bb.right)) ∧ bb.mapBounds r1 ll = bb.mapBounds r2 ll) ∧
    (bb.crs ≠ none → bb.crs ≠ some ll →
      bb.mapBounds r1 ll = (((r1 bb.crs (some ll) (bb.left, bb.bottom)).2, (r1 bb.crs (some ll) (bb.left, bb.bottom)).1),
                            ((r1 bb.crs (some ll) (bb.right, bb.top)).2, (r1 bb.crs (some ll) (bb.right, bb.top)).1))) := by
  constructor
  · intro h
    have h' : bb.crs = some ll ∨ bb.crs = none := h.symm
    simp [BBox.mapBounds, h']
  · intro h1 h2
    simp [BBox.mapBounds, h1, h2]

/-- `aoi` never fails; it is the box itself without CRS or in lon/lat and `to_crs("epsg:4326")` otherwise,
hence the smallest lon/lat box around the images of the ring of the box -/
theorem bbox_aoi_spec (bb : BBox Rat) (reproj : Reproj) (ll : Nat) :
    (bb.crs = none ∨ bb.crs = some ll → bb.aoi reproj ll = .ok (bb.left, bb.bottom, bb.right, bb.top)) ∧
    (bb.crs ≠ none → bb.crs ≠ some ll → ∃ o, bb.toCrs reproj ll = .ok o ∧
      bb.aoi reproj ll = .ok (o.left, o.bottom, o.right, o.top) ∧
      ∀ q ∈ bb.ringHead :: bb.ringTail, o.Contains (reproj bb.crs (some ll) q)) := by
  constructor
  · intro h; simp [BBox.aoi, h]
  · intro h1 h2
    obtain ⟨o, ho, -, hc, -⟩ := (bbox_toCrs_spec bb reproj ll).2 h1
    refine ⟨o, ho, by simp [BBox.aoi, h1, h2, ho], ?_⟩
    intro q hq
    have := hc q hq
    simpa [h2] using this

/-- `GCPGeoBox.project` with the identity mapping is the linear `project`; with any mapping whose
`w2p` undoes `p2w`, projecting to the world and back is the identity -/
theorem gcpProject_spec (g : GeoBox) (reproj : Reproj) (crs : Option Nat) (p : Pt) (ps : List Pt) :
    gcpProject g (fun q => q) (fun q => q) reproj crs p ps = g.project reproj crs p ps ∧
    (∀ (P Q : Pt → Pt), (∀ q, Q (P q) = q) → g.aff.det ≠ 0 → g.crs ≠ none →
      ∃ w ws, gcpProject g P Q reproj none p ps = .ok (g.crs, w, ws) ∧
        gcpProject g P Q reproj g.crs w ws = .ok (none, p, ps)) := by
  constructor
  · unfold gcpProject GeoBox.project
    rfl
  · intro P Q hPQ hdet hg
    refine ⟨P (g.aff.apply p), ps.map (fun q => P (g.aff.apply q)), by simp [gcpProject], ?_⟩
    simp only [gcpProject, if_neg hg, Aff.inv?, if_neg hdet, if_true, List.map_map, Function.comp_def, hPQ,
      Aff.inv_apply_apply g.aff hdet]
    simp

end OdcGeo.C16

namespace OdcGeo.C16
open OdcGeo

/-! ## Part T — `enclosing` in world units on ANY invertible grid (rotated, sheared) -/

theorem lin_near (a b X X' Y Y' : Rat) (hx : |X - X'| ≤ 1) (hy : |Y - Y'| ≤ 1) :
    a * X' + b * Y' - (|a| + |b|) ≤ a * X + b * Y ∧ a * X + b * Y ≤ a * X' + b * Y' + (|a| + |b|) := by
  have h1 : |a * (X - X')| ≤ |a| := by
    rw [abs_mul]; exact mul_le_of_le_one_right (abs_nonneg a) hx
  have h2 : |b * (Y - Y')| ≤ |b| := by
    rw [abs_mul]; exact mul_le_of_le_one_right (abs_nonneg b) hy
  obtain ⟨l1, u1⟩ := abs_le.mp h1
  obtain ⟨l2, u2⟩ := abs_le.mp h2
  constructor <;> nlinarith

/-- two boxes whose edges differ by at most one unit have images whose bounding boxes differ by at most
the bounding box of the image of a unit square: `|a| + |b|` across, `|d| + |e|` up -/
theorem bbox_transform_near (R P : BBox Rat) (A : Aff) (h1 : |R.left - P.left| ≤ 1) (h2 : |R.bottom - P.bottom| ≤ 1)
    (h3 : |R.right - P.right| ≤ 1) (h4 : |R.top - P.top| ≤ 1) :
    (P.transform A).left - (|A.a| + |A.b|) ≤ (R.transform A).left ∧
    (P.transform A).bottom - (|A.d| + |A.e|) ≤ (R.transform A).bottom ∧
    (R.transform A).right ≤ (P.transform A).right + (|A.a| + |A.b|) ∧
    (R.transform A).top ≤ (P.transform A).top + (|A.d| + |A.e|) := by
  -- the images of the four corners of P are inside P.transform A
  have kP : ∀ x ∈ [P.left, P.right], ∀ y ∈ [P.bottom, P.top],
      (P.transform A).left ≤ A.a * x + A.b * y + A.c ∧ A.a * x + A.b * y + A.c ≤ (P.transform A).right ∧
      (P.transform A).bottom ≤ A.d * x + A.e * y + A.f ∧ A.d * x + A.e * y + A.f ≤ (P.transform A).top := by
    intro x hx y hy
    simp only [List.mem_cons, List.mem_nil_iff, or_false] at hx hy
    have hl := minL_le (A.apply (P.left, P.bottom)).1 [(A.apply (P.left, P.top)).1, (A.apply (P.right, P.bottom)).1, (A.apply (P.right, P.top)).1]
    have hr := le_maxL (A.apply (P.left, P.bottom)).1 [(A.apply (P.left, P.top)).1, (A.apply (P.right, P.bottom)).1, (A.apply (P.right, P.top)).1]
    have hb := minL_le (A.apply (P.left, P.bottom)).2 [(A.apply (P.left, P.top)).2, (A.apply (P.right, P.bottom)).2, (A.apply (P.right, P.top)).2]
    have ht := le_maxL (A.apply (P.left, P.bottom)).2 [(A.apply (P.left, P.top)).2, (A.apply (P.right, P.bottom)).2, (A.apply (P.right, P.top)).2]
    simp only [BBox.transform, bboxOfPoints, List.map]
    simp only [Aff.apply, List.mem_cons, List.mem_nil_iff, or_false, forall_eq_or_imp, forall_eq] at hl hr hb ht
    rcases hx with rfl | rfl <;> rcases hy with rfl | rfl
    · exact ⟨hl.1, hr.1, hb.1, ht.1⟩
    · exact ⟨hl.2.1, hr.2.1, hb.2.1, ht.2.1⟩
    · exact ⟨hl.2.2.1, hr.2.2.1, hb.2.2.1, ht.2.2.1⟩
    · exact ⟨hl.2.2.2, hr.2.2.2, hb.2.2.2, ht.2.2.2⟩
  -- every corner of R is within one unit of the matching corner of P
  have near : ∀ (x x' y y' : Rat), |x - x'| ≤ 1 → |y - y'| ≤ 1 → x' ∈ [P.left, P.right] → y' ∈ [P.bottom, P.top] →
      (P.transform A).left - (|A.a| + |A.b|) ≤ A.a * x + A.b * y + A.c ∧
      A.a * x + A.b * y + A.c ≤ (P.transform A).right + (|A.a| + |A.b|) ∧
      (P.transform A).bottom - (|A.d| + |A.e|) ≤ A.d * x + A.e * y + A.f ∧
      A.d * x + A.e * y + A.f ≤ (P.transform A).top + (|A.d| + |A.e|) := by
    intro x x' y y' hx hy mx my
    obtain ⟨k1, k2, k3, k4⟩ := kP x' mx y' my
    obtain ⟨a1, a2⟩ := lin_near A.a A.b x x' y y' hx hy
    obtain ⟨b1, b2⟩ := lin_near A.d A.e x x' y y' hx hy
    refine ⟨by linarith, by linarith, by linarith, by linarith⟩
  have c1 := near R.left P.left R.bottom P.bottom h1 h2 (by simp) (by simp)
  have c2 := near R.left P.left R.top P.top h1 h4 (by simp) (by simp)
  have c3 := near R.right P.right R.bottom P.bottom h3 h2 (by simp) (by simp)
  have c4 := near R.right P.right R.top P.top h3 h4 (by simp) (by simp)
  clear kP near
  generalize P.transform A = T at *
  simp only [BBox.transform, bboxOfPoints, List.map]
  refine ⟨?_, ?_, ?_, ?_⟩
  · rcases minL_mem (A.apply (R.left, R.bottom)).1
      [(A.apply (R.left, R.top)).1, (A.apply (R.right, R.bottom)).1, (A.apply (R.right, R.top)).1] with e | e
    · rw [e]; exact c1.1
    · simp only [List.mem_cons, List.mem_nil_iff, or_false] at e
      rcases e with e | e | e <;> rw [e]
      exacts [c2.1, c3.1, c4.1]
  · rcases minL_mem (A.apply (R.left, R.bottom)).2
      [(A.apply (R.left, R.top)).2, (A.apply (R.right, R.bottom)).2, (A.apply (R.right, R.top)).2] with e | e
    · rw [e]; exact c1.2.2.1
    · simp only [List.mem_cons, List.mem_nil_iff, or_false] at e
      rcases e with e | e | e <;> rw [e]
      exacts [c2.2.2.1, c3.2.2.1, c4.2.2.1]
  · rcases maxL_mem (A.apply (R.left, R.bottom)).1
      [(A.apply (R.left, R.top)).1, (A.apply (R.right, R.bottom)).1, (A.apply (R.right, R.top)).1] with e | e
    · rw [e]; exact c1.2.1
    · simp only [List.mem_cons, List.mem_nil_iff, or_false] at e
      rcases e with e | e | e <;> rw [e]
      exacts [c2.2.1, c3.2.1, c4.2.1]
  · rcases maxL_mem (A.apply (R.left, R.bottom)).2
      [(A.apply (R.left, R.top)).2, (A.apply (R.right, R.bottom)).2, (A.apply (R.right, R.top)).2] with e | e
    · rw [e]; exact c1.2.2.2
    · simp only [List.mem_cons, List.mem_nil_iff, or_false] at e
      rcases e with e | e | e <;> rw [e]
      exacts [c2.2.2.2, c3.2.2.2, c4.2.2.2]

/-- the tight pixel box of a region: bounds of the pixel coordinates of its (re-projected) coordinates -/
def Region.pixBox (r : Region) (reproj : Reproj) (g : GeoBox) : BBox Rat :=
  bboxOfPoints (g.aff.inv.apply (r.worldHead reproj g.crs)) ((r.worldTail reproj g.crs).map g.aff.inv.apply) none

/-- one axis of the outward rounding: `[⌊l⌋, ⌊l⌋ + max 1 (⌈r⌉ - ⌊l⌋)]` contains `[l, r]` and each end is
within one unit of the matching end -/
theorem round_axis (l r : Rat) (hlr : l ≤ r) :
    ((l.floor : Rat) ≤ l ∧ r ≤ ((l.floor + max 1 (r.ceil - l.floor) : Int) : Rat)) ∧
    |(l.floor : Rat) - l| ≤ 1 ∧ |((l.floor + max 1 (r.ceil - l.floor) : Int) : Rat) - r| ≤ 1 := by
  have a1 := Rat.floor_le l
  have a2 := Rat.lt_floor_add_one l
  have b1 : r ≤ (r.ceil : Rat) := Rat.le_ceil
  have b2 : (r.ceil : Rat) < r + 1 := Rat.ceil_lt
  push_cast at a2
  rcases le_total 1 (r.ceil - l.floor) with h | h
  · rw [max_eq_right h]
    have e : ((l.floor + (r.ceil - l.floor) : Int) : Rat) = (r.ceil : Rat) := by push_cast; ring
    rw [e]
    refine ⟨⟨a1, b1⟩, ?_, ?_⟩
    · rw [abs_le]; constructor <;> linarith
    · rw [abs_le]; constructor <;> linarith
  · rw [max_eq_left h]
    have hc : (r.ceil : Rat) ≤ (l.floor : Rat) + 1 := by exact_mod_cast (show r.ceil ≤ l.floor + 1 by omega)
    have e : ((l.floor + 1 : Int) : Rat) = (l.floor : Rat) + 1 := by push_cast; ring
    rw [e]
    refine ⟨⟨a1, by linarith⟩, ?_, ?_⟩
    · rw [abs_le]; constructor <;> linarith
    · rw [abs_le]; constructor <;> linarith

/-- **`enclosing` in world units on any invertible grid** (rotated, sheared, mirrored; any region type,
same or other CRS): with `T` the world bounding box of the region's tight pixel box, the world bounding
box of the result contains `T` and exceeds it by at most the world bounding box of ONE pixel per side —
`|a| + |b|` across and `|d| + |e|` up. -/
theorem enclosing_world_excess (g : GeoBox) (hdet : g.aff.det ≠ 0) (hg : g.crs ≠ none) (reproj : Reproj)
    (r : Region) (hr : r.crs ≠ none) :
    ∃ res : GeoBox, g.enclosingRegion reproj r = .ok res ∧
      ((r.pixBox reproj g).transform g.aff).Within res.boundingbox ∧
      ((r.pixBox reproj g).transform g.aff).left - (|g.aff.a| + |g.aff.b|) ≤ res.boundingbox.left ∧
      ((r.pixBox reproj g).transform g.aff).bottom - (|g.aff.d| + |g.aff.e|) ≤ res.boundingbox.bottom ∧
      res.boundingbox.right ≤ ((r.pixBox reproj g).transform g.aff).right + (|g.aff.a| + |g.aff.b|) ∧
      res.boundingbox.top ≤ ((r.pixBox reproj g).transform g.aff).top + (|g.aff.d| + |g.aff.e|) := by
  have hx : (r.pixBox reproj g).left ≤ (r.pixBox reproj g).right :=
    (minL_le _ _).1.trans (le_maxL _ _).1
  have hy : (r.pixBox reproj g).bottom ≤ (r.pixBox reproj g).top :=
    (minL_le _ _).1.trans (le_maxL _ _).1
  obtain ⟨⟨x1, x2⟩, x3, x4⟩ := round_axis _ _ hx
  obtain ⟨⟨y1, y2⟩, y3, y4⟩ := round_axis _ _ hy
  let P := r.pixBox reproj g
  let R : Rect := ⟨P.left.floor, P.bottom.floor, P.left.floor + max 1 (P.right.ceil - P.left.floor),
    P.bottom.floor + max 1 (P.top.ceil - P.bottom.floor)⟩
  have hres : g.enclosingRegion reproj r = .ok (onGrid g R) := by
    rw [enclosingRegion_eq]
    simp only [GeoBox.enclosing, if_neg hr, if_neg hg, Aff.inv?, if_neg hdet, BBox.round, GeoBox.translatePix,
      onGrid, R, P, Region.pixBox]
    congr 2 <;> ring
  refine ⟨_, hres, ?_, ?_⟩
  · rw [boundingbox_onGrid]
    have := bbox_transform_mono P ⟨(R.x0 : Rat), (R.y0 : Rat), (R.x1 : Rat), (R.y1 : Rat), g.crs⟩ g.aff
      ⟨x1, hx.trans x2, y1, hy.trans y2⟩ ⟨x1.trans hx, x2, y1.trans hy, y2⟩
    exact this
  · rw [boundingbox_onGrid]
    exact bbox_transform_near ⟨(R.x0 : Rat), (R.y0 : Rat), (R.x1 : Rat), (R.y1 : Rat), g.crs⟩ P g.aff x3 y3 x4 y4

/-- non-vacuity: a rotated grid with a CRS and a region with a CRS -/
example : ∃ (g : GeoBox) (r : Region), g.aff.det ≠ 0 ∧ g.crs ≠ none ∧ r.crs ≠ none :=
  ⟨⟨4, 5, ⟨3, -4, 100, 4, 3, 200⟩, some 1⟩, .geom (some 2) (1, 2) [(3, 4)], by simp [Aff.det]; norm_num, by simp,
    by simp [Region.crs]⟩

end OdcGeo.C16

namespace OdcGeo.C16
open OdcGeo

/-! ## Part U — shifting the reference by whole pixels shifts the pixel-domain box -/

/-- `~(A * T(m, n)) * G = T(-m, -n) * (~A * G)` -/
theorem inv_shift_mul (A G : Aff) (hdet : A.det ≠ 0) (m n : Rat) :
    (A * Aff.translation m n).inv * G = Aff.translation (-m) (-n) * (A.inv * G) := by
  have hB : (A * Aff.translation m n).det ≠ 0 := by rw [det_mul_translation]; exact hdet
  have hY : (A * Aff.translation m n) * (Aff.translation (-m) (-n) * (A.inv * G)) = G := by
    rw [Aff.mul_assoc', ← Aff.mul_assoc' (Aff.translation m n), translation_mul_translation]
    simp only [add_neg_cancel, translation_zero, Aff.id_mul]
    rw [← Aff.mul_assoc', Aff.mul_inv_self A hdet, Aff.id_mul]
  calc (A * Aff.translation m n).inv * G
      = (A * Aff.translation m n).inv * ((A * Aff.translation m n) * (Aff.translation (-m) (-n) * (A.inv * G))) := by
        rw [hY]
    _ = Aff.translation (-m) (-n) * (A.inv * G) := by
        rw [← Aff.mul_assoc', Aff.inv_mul_self _ hB, Aff.id_mul]

/-- `is_almost_int` does not see whole-number shifts -/
theorem isAlmostInt_sub_int (x tol : Rat) (m : Int) : isAlmostInt (x - m) tol = isAlmostInt x tol := by
  rw [Bool.eq_iff_iff]
  constructor
  · intro h
    obtain ⟨k, hk⟩ := isAlmostInt_near _ _ h
    exact isAlmostInt_of_near x tol (k + m) (by push_cast; rwa [show x - ((k : Rat) + m) = x - m - k by ring])
  · intro h
    obtain ⟨k, hk⟩ := isAlmostInt_near _ _ h
    exact isAlmostInt_of_near (x - m) tol (k - m) (by push_cast; rwa [show x - m - ((k : Rat) - m) = x - k by ring])

/-- on accepted offsets (`tol ≤ 1/2`) `round` commutes with whole-number shifts (away from the ties) -/
theorem pyRound_sub_int (x tol : Rat) (m : Int) (htol : tol ≤ 1 / 2) (h : isAlmostInt x tol = true) :
    pyRound (x - m) = pyRound x - m := by
  obtain ⟨k, hk⟩ := isAlmostInt_near _ _ h
  have hk' : |x - k| < 1 / 2 := lt_of_lt_of_le hk htol
  rw [pyRound_near x k hk', pyRound_near (x - m) (k - m) (by push_cast; rwa [show x - m - ((k : Rat) - m) = x - k by ring])]

/-- `pixel_translation(g, ref')` for a reference moved by `(m, n)` pixels -/
theorem pixelTranslation_ref_shift (g ref ref' : GeoBox) (hdet : ref.aff.det ≠ 0) (m n : Rat)
    (ha : ref'.aff = ref.aff * Aff.translation m n) (hc : ref'.crs = ref.crs) :
    pixelTranslation g ref' = (pixelTranslation g ref).map (fun t => (t.1 - m, t.2 - n)) := by
  have hB : (ref.aff * Aff.translation m n).det ≠ 0 := by rw [det_mul_translation]; exact hdet
  unfold pixelTranslation
  rw [hc]
  by_cases h : g.crs = ref.crs
  · simp only [h, ne_eq, not_true_eq_false, if_false, ha, Aff.inv?, if_neg hdet, if_neg hB, inv_shift_mul _ _ hdet]
    have e : Aff.translation (-m) (-n) * (ref.aff.inv * g.aff) =
        ⟨(ref.aff.inv * g.aff).a, (ref.aff.inv * g.aff).b, (ref.aff.inv * g.aff).c - m,
         (ref.aff.inv * g.aff).d, (ref.aff.inv * g.aff).e, (ref.aff.inv * g.aff).f - n⟩ := by
      generalize ref.aff.inv * g.aff = M
      simp only [Aff.mul_def, Aff.mul, Aff.translation]
      ext <;> simp <;> ring
    rw [e]
    simp only
    split_ifs <;> rfl
  · simp [h]
    rfl

/-- **Shifting the reference by whole pixels shifts the pixel-domain box** (any operand — on the grid,
off it within the tolerances, incompatible, other CRS — and any `0 < tol ≤ 1/2`): the same operands are
accepted, and the box moves by exactly `(-m, -n)`. -/
theorem bbpd_ref_shift (g ref ref' : GeoBox) (hdet : ref.aff.det ≠ 0) (m n : Int)
    (ha : ref'.aff = ref.aff * Aff.translation m n) (hc : ref'.crs = ref.crs) (tol : Rat) (htol : tol ≤ 1 / 2) :
    bboxInPixelDomain g ref' tol =
      (bboxInPixelDomain g ref tol).map (fun bb => ⟨bb.left - m, bb.bottom - n, bb.right - m, bb.top - n, none⟩) := by
  unfold bboxInPixelDomain
  rw [pixelTranslation_ref_shift g ref ref' hdet m n ha hc]
  cases hp : pixelTranslation g ref with
  | error e => rfl
  | ok t =>
    obtain ⟨tx, ty⟩ := t
    simp only [Except.map, isAlmostInt_sub_int]
    by_cases hacc : (isAlmostInt tx tol && isAlmostInt ty tol) = true
    · have h1 : isAlmostInt tx tol = true := by simp only [Bool.and_eq_true] at hacc; exact hacc.1
      have h2 : isAlmostInt ty tol = true := by simp only [Bool.and_eq_true] at hacc; exact hacc.2
      simp only [hacc, Bool.not_true, Bool.false_eq_true, if_false, pyRound_sub_int _ _ _ htol h1,
        pyRound_sub_int _ _ _ htol h2]
      congr 2 <;> ring
    · have : (isAlmostInt tx tol && isAlmostInt ty tol) = false := by simpa using hacc
      simp [this]

example : tolPix ≤ 1 / 2 := by unfold tolPix; norm_num

end OdcGeo.C16

namespace OdcGeo.C16
open OdcGeo

/-! ## Part V — `reduce(|)` = `geobox_union_conservative` for ARBITRARY operand lists -/

theorem bbpd_crs_none (g ref : GeoBox) (tol : Rat) (bb : BBox Int) (h : bboxInPixelDomain g ref tol = .ok bb) :
    bb.crs = none := by
  unfold bboxInPixelDomain at h
  cases hp : pixelTranslation g ref with
  | error e => rw [hp] at h; cases h
  | ok t =>
    obtain ⟨tx, ty⟩ := t
    rw [hp] at h
    simp only at h
    split at h
    · cases h
    · cases h; rfl

theorem geoboxOfPixBBox_det (a : GeoBox) (hdet : a.aff.det ≠ 0) (U : BBox Int) :
    (geoboxOfPixBBox a U).aff.det ≠ 0 := by
  simp only [geoboxOfPixBBox, det_mul_translation]; exact hdet

/-- one step of the fold: `(a placed on U) | g` is `a` placed on `U ∪ (g in the pixels of a)` — for every
operand `g`, accepted or not -/
theorem or_step (a : GeoBox) (hdet : a.aff.det ≠ 0) (U : BBox Int) (g : GeoBox) :
    (geoboxOfPixBBox a U).or g =
      match bboxInPixelDomain g a tolPix with
      | .error e => .error e
      | .ok bb => .ok (geoboxOfPixBBox a ⟨min bb.left U.left, min bb.bottom U.bottom, max bb.right U.right,
                                          max bb.top U.top, none⟩) := by
  have hself : bboxInPixelDomain (geoboxOfPixBBox a U) (geoboxOfPixBBox a U) tolPix =
      .ok ⟨0, 0, U.right - U.left, U.top - U.bottom, none⟩ := by
    have := bboxInPixelDomain_of_mul (geoboxOfPixBBox a U) (geoboxOfPixBBox a U) rfl (geoboxOfPixBBox_det a hdet U) 0 0
      (by simp [translation_zero, Aff.mul_id]) tolPix tolPix_pos
    simpa [geoboxOfPixBBox] using this
  have hshift := bbpd_ref_shift g a (geoboxOfPixBBox a U) hdet U.left U.bottom rfl rfl tolPix
    (by unfold tolPix; norm_num)
  simp only [GeoBox.or, geoboxUnionConservative, allBBoxes, hself, hshift]
  cases hb : bboxInPixelDomain g a tolPix with
  | error e => simp [Except.map]
  | ok bb =>
    simp only [Except.map, bboxUnion, foldRes, unionStep, ne_eq, not_true_eq_false, if_false, geoboxOfPixBBox]
    refine congrArg Except.ok ?_
    simp only [GeoBox.mk.injEq]
    refine ⟨by omega, by omega, ?_, trivial⟩
    rw [Aff.mul_assoc', translation_mul_translation]
    congr 2
    · have : U.left + min (bb.left - U.left) 0 = min bb.left U.left := by omega
      exact_mod_cast this
    · have : U.bottom + min (bb.bottom - U.bottom) 0 = min bb.bottom U.bottom := by omega
      exact_mod_cast this

/-- the fold from any accumulated box: the remaining operands are measured against `a` (as the n-ary form
does), although the fold measures them against the growing union -/
theorem foldl_or_eq (a : GeoBox) (hdet : a.aff.det ≠ 0) (gs : List GeoBox) :
    ∀ U : BBox Int, U.crs = none →
      List.foldlM (fun acc g => acc.or g) (geoboxOfPixBBox a U) gs =
        (match allBBoxes a tolPix gs with
         | .error e => .error e
         | .ok bbs => match foldRes unionStep U bbs with
           | .error e => .error e
           | .ok V => .ok (geoboxOfPixBBox a V)) := by
  induction gs with
  | nil => intro U _; rfl
  | cons g gs ih =>
    intro U hU
    simp only [List.foldlM_cons, or_step a hdet U g, allBBoxes]
    cases hb : bboxInPixelDomain g a tolPix with
    | error e => rfl
    | ok bb =>
      have hc := bbpd_crs_none g a tolPix bb hb
      simp only [bind, Except.bind]
      rw [ih _ rfl]
      cases allBBoxes a tolPix gs with
      | error e => rfl
      | ok bbs =>
        simp only [foldRes, unionStep, hU, hc, ne_eq, not_true_eq_false, if_false]

/-- **`functools.reduce(operator.or_, [a, g1, …, gn])` = `geobox_union_conservative([a, g1, …, gn])` for
ARBITRARY operands** (on the grid of `a`, off it by less than the tolerances, incompatible, in another CRS,
in any order): the same calls succeed, the same fail, and the results are the same GeoBox. -/
theorem reduce_or_eq_union_any (a : GeoBox) (hdet : a.aff.det ≠ 0) (gs : List GeoBox) :
    List.foldlM (fun acc g => acc.or g) a gs = geoboxUnionConservative (a :: gs) := by
  have hself : bboxInPixelDomain a a tolPix = .ok ⟨0, 0, a.nx, a.ny, none⟩ := by
    have := bboxInPixelDomain_of_mul a a rfl hdet 0 0 (by simp [translation_zero, Aff.mul_id]) tolPix tolPix_pos
    simpa using this
  have ha : a = geoboxOfPixBBox a ⟨0, 0, a.nx, a.ny, none⟩ := by
    simp [geoboxOfPixBBox, translation_zero, Aff.mul_id]
  conv_lhs => rw [ha]
  rw [foldl_or_eq a hdet gs _ rfl]
  simp only [geoboxUnionConservative, allBBoxes, hself, bboxUnion]
  cases allBBoxes a tolPix gs with
  | error e => rfl
  | ok bbs => rfl

/-- one step of the `&` fold -/
theorem and_step (a : GeoBox) (hdet : a.aff.det ≠ 0) (U : BBox Int) (g : GeoBox) :
    (geoboxOfPixBBox a U).and g =
      match bboxInPixelDomain g a tolPix with
      | .error e => .error e
      | .ok bb => .ok (geoboxOfPixBBox a (normEmpty ⟨max bb.left U.left, max bb.bottom U.bottom, min bb.right U.right,
                                                    min bb.top U.top, none⟩)) := by
  have hself : bboxInPixelDomain (geoboxOfPixBBox a U) (geoboxOfPixBBox a U) tolPix =
      .ok ⟨0, 0, U.right - U.left, U.top - U.bottom, none⟩ := by
    have := bboxInPixelDomain_of_mul (geoboxOfPixBBox a U) (geoboxOfPixBBox a U) rfl (geoboxOfPixBBox_det a hdet U) 0 0
      (by simp [translation_zero, Aff.mul_id]) tolPix tolPix_pos
    simpa [geoboxOfPixBBox] using this
  have hshift := bbpd_ref_shift g a (geoboxOfPixBBox a U) hdet U.left U.bottom rfl rfl tolPix
    (by unfold tolPix; norm_num)
  simp only [GeoBox.and, geoboxIntersectionConservative, allBBoxes, hself, hshift]
  cases hb : bboxInPixelDomain g a tolPix with
  | error e => simp [Except.map]
  | ok bb =>
    simp only [Except.map, bboxIntersection, foldRes, interStep, ne_eq, not_true_eq_false, if_false, normEmpty_eq,
      geoboxOfPixBBox]
    refine congrArg Except.ok ?_
    simp only [GeoBox.mk.injEq]
    refine ⟨by omega, by omega, ?_, trivial⟩
    rw [Aff.mul_assoc', translation_mul_translation]
    congr 2
    · have : U.left + max (bb.left - U.left) 0 = max bb.left U.left := by omega
      exact_mod_cast this
    · have : U.bottom + max (bb.bottom - U.bottom) 0 = max bb.bottom U.bottom := by omega
      exact_mod_cast this

/-- normalising an empty intermediate result before the next `&` changes nothing after normalisation -/
theorem normEmpty_inter_normEmpty (X b : BBox Int) :
    normEmpty ⟨max b.left (normEmpty X).left, max b.bottom (normEmpty X).bottom, min b.right (normEmpty X).right,
               min b.top (normEmpty X).top, none⟩ =
    normEmpty ⟨max b.left X.left, max b.bottom X.bottom, min b.right X.right, min b.top X.top, none⟩ := by
  simp only [normEmpty_eq, BBox.mk.injEq, and_true, true_and]
  constructor <;> omega

theorem foldl_and_eq (a : GeoBox) (hdet : a.aff.det ≠ 0) (gs : List GeoBox) :
    ∀ X : BBox Int, X.crs = none →
      List.foldlM (fun acc g => acc.and g) (geoboxOfPixBBox a (normEmpty X)) gs =
        (match allBBoxes a tolPix gs with
         | .error e => .error e
         | .ok bbs => match foldRes interStep X bbs with
           | .error e => .error e
           | .ok V => .ok (geoboxOfPixBBox a (normEmpty V))) := by
  induction gs with
  | nil => intro X _; rfl
  | cons g gs ih =>
    intro X hX
    simp only [List.foldlM_cons, and_step a hdet _ g, allBBoxes]
    cases hb : bboxInPixelDomain g a tolPix with
    | error e => rfl
    | ok bb =>
      have hc := bbpd_crs_none g a tolPix bb hb
      simp only [bind, Except.bind, normEmpty_inter_normEmpty]
      rw [ih ⟨max bb.left X.left, max bb.bottom X.bottom, min bb.right X.right, min bb.top X.top, none⟩ rfl]
      cases allBBoxes a tolPix gs with
      | error e => rfl
      | ok bbs =>
        simp only [foldRes, interStep, hX, hc, ne_eq, not_true_eq_false, if_false]

/-- **`functools.reduce(operator.and_, [a, g1, …, gn])` = `geobox_intersection_conservative([a, g1, …, gn])`
for ARBITRARY operands** (shapes of `a` not negative): the fold normalises an empty intermediate result at
every step, the n-ary form only at the end; the same calls succeed and the results are the same GeoBox. -/
theorem reduce_and_eq_inter_any (a : GeoBox) (hdet : a.aff.det ≠ 0) (hnx : 0 ≤ a.nx) (hny : 0 ≤ a.ny)
    (gs : List GeoBox) :
    List.foldlM (fun acc g => acc.and g) a gs = geoboxIntersectionConservative (a :: gs) := by
  have hself : bboxInPixelDomain a a tolPix = .ok ⟨0, 0, a.nx, a.ny, none⟩ := by
    have := bboxInPixelDomain_of_mul a a rfl hdet 0 0 (by simp [translation_zero, Aff.mul_id]) tolPix tolPix_pos
    simpa using this
  have hN : normEmpty ⟨0, 0, a.nx, a.ny, none⟩ = ⟨0, 0, a.nx, a.ny, none⟩ := by
    simp only [normEmpty_eq, BBox.mk.injEq, and_true, true_and]
    constructor <;> omega
  have ha : a = geoboxOfPixBBox a (normEmpty ⟨0, 0, a.nx, a.ny, none⟩) := by
    rw [hN]; simp [geoboxOfPixBBox, translation_zero, Aff.mul_id]
  conv_lhs => rw [ha]
  rw [foldl_and_eq a hdet gs _ rfl]
  simp only [geoboxIntersectionConservative, allBBoxes, hself, bboxIntersection]
  cases allBBoxes a tolPix gs with
  | error e => rfl
  | ok bbs => rfl

/-- non-vacuity: an invertible grid with a non-negative shape; the operand list may hold anything -/
example : ∃ a : GeoBox, a.aff.det ≠ 0 ∧ 0 ≤ a.nx ∧ 0 ≤ a.ny :=
  ⟨⟨4, 5, ⟨3, -4, 100, 4, 3, 200⟩, some 1⟩, by simp [Aff.det]; norm_num, by decide, by decide⟩

end OdcGeo.C16

namespace OdcGeo.C16
/-- non-vacuity of `gcpProject_spec`: a mapping whose `w2p` undoes `p2w` (here a shear and its inverse) -/
example : ∃ P Q : Pt → Pt, ∀ q, Q (P q) = q :=
  ⟨fun q => (q.1 + q.2, q.2), fun q => (q.1 - q.2, q.2), fun q => by simp⟩
end OdcGeo.C16
