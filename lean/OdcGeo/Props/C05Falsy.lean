/-
C05 — corollaries for the falsy-but-meaningful option values of `save_cog_with_dask` (`stats=0`, level `0`, `predictor=False` / `0`):
values are tested with `is None` / `is False` / `is True`, never for truth.
-/
import OdcGeo.Props.C05Opts

set_option linter.unusedVariables false
set_option linter.unusedSimpArgs false

namespace OdcGeo.C05

/-- `stats_zero_means_level_zero`: `stats=0` is "statistics from the full-resolution level", not "no statistics": the
GDAL_METADATA placeholder is reserved and level 0 is used, for every pyramid; `stats=False` alone switches statistics off -/
theorem stats_zero_means_level_zero (n : Nat) (hn : 0 < n) :
    statsTag (.int 0) = true ∧ statsLayer (.int 0) n = .ok (some 0) ∧
    statsTag (.bool false) = false ∧ statsLayer (.bool false) n = .ok none ∧
    statsTag (.bool true) = true ∧ statsLayer (.bool true) n = .ok (some (n / 2)) := by
  refine ⟨rfl, ?_, rfl, rfl, rfl, rfl⟩
  simp [statsLayer, hn]

/-- every level NUMBER reserves the tag and selects that level when it exists -/
theorem stats_number_selects_level (k n : Nat) (hk : k < n) :
    statsTag (.int k) = true ∧ statsLayer (.int k) n = .ok (some k) := by
  refine ⟨rfl, ?_⟩
  simp [statsLayer, hk]

example : statsLayer (.int 0) 1 = .ok (some 0) ∧ statsLayer (.int 2) 2 = .error .indexError := by decide

/-- `level_zero_is_a_level`: `level=0` (e.g. "store, do not compress" for deflate) ends up as `compressionargs["level"] = 0` for
every codec — instance of `explicit_level_wins` at the falsy value -/
theorem level_zero_is_a_level (dt : DType) (pred : PredOpt) (comp : Option String) (cargs : Option CArgs) (kw : Kw) :
    CArgs.get (normCompressionTifffile dt pred comp cargs (some "0") kw).cargs "level" = some (.tok "0") :=
  explicit_level_wins dt pred comp cargs "0" kw

/-- the GDAL-style spelling of a zero level (`zlevel=0`, any letter case) is honoured as well -/
theorem gdal_level_zero_is_a_level (dt : DType) (pred : PredOpt) :
    CArgs.get (normCompressionTifffile dt pred (some "deflate") none none [("ZLEVEL", "0")]).cargs "level" = some (.tok "0") ∧
    CArgs.get (normCompressionTifffile dt pred (some "zstd") none none [("zstd_level", "0")]).cargs "level" = some (.tok "0") := by
  constructor
  · exact gdal_level_used dt pred (some "deflate") [("ZLEVEL", "0")] "0" (by decide)
  · exact gdal_level_used dt pred (some "zstd") [("zstd_level", "0")] "0" (by decide)

/-- `predictor_false_switches_off`: `predictor=False` (and `None`) give TIFF predictor 1 = none for every dtype and codec, also
for the codecs whose default (`Unset`) would switch it on; the NUMBER `0` is not `False` in Python and is passed through as is -/
theorem predictor_false_switches_off (dt : DType) (comp : Option String) (cargs : Option CArgs) (level : Option String) (kw : Kw) :
    (normCompressionTifffile dt (.given (.bool false)) comp cargs level kw).predictor = 1 ∧
    (normCompressionTifffile dt (.given .none) comp cargs level kw).predictor = 1 ∧
    (normCompressionTifffile dt (.given (.int 0)) comp cargs level kw).predictor = 0 ∧
    (∀ k, (normCompressionTifffile dt (.given (.int k)) comp cargs level kw).predictor = k) := by
  refine ⟨rfl, rfl, rfl, fun _ => rfl⟩

/-- and the default really differs: a float image compressed with deflate gets predictor 3 when nothing is said -/
example : (normCompressionTifffile ⟨'f', 4⟩ .unset (some "deflate") none none []).predictor = 3 ∧
    (normCompressionTifffile ⟨'f', 4⟩ (.given (.bool false)) (some "deflate") none none []).predictor = 1 := by decide

/-- the choice of encoder / predictor FUNCTIONS in `_mk_tile_compressor` tests the numbers against 1 (= none), not for truth -/
theorem tile_compressor_parts_spec (c p : Nat) :
    ((tileCompressorParts c p).1 = true ↔ c ≠ 1) ∧ ((tileCompressorParts c p).2 = true ↔ p ≠ 1) := by
  simp [tileCompressorParts]

/-- `spill_sz=0` / `writes_per_chunk` given as keywords are forwarded as given (tokens are never tested for truth) -/
example : (uploadParams [("spill_sz", "0"), ("writes_per_chunk", "1")] []).1 = [("writes_per_chunk", "1"), ("spill_sz", "0")] ∧
    (uploadParams [("spill_sz", "0")] [("spill_sz", "5")]).1 = [("spill_sz", "5")] := by decide

end OdcGeo.C05
