/-
C05, part 4 — theorems about `_stats_from_layer` on integer data (`Model/C05Stats.lean`).
-/
import OdcGeo.Model.C05Stats
import Mathlib.Tactic.Linarith
import Mathlib.Tactic.FieldSimp
import Mathlib.Algebra.Order.Field.Rat

set_option linter.unusedVariables false
set_option linter.unusedSimpArgs false

namespace OdcGeo.C05

theorem mem_validPixels (pix : List Int) (nodata : Option Int) (v : Int) :
    v ∈ validPixels pix nodata ↔ v ∈ pix ∧ nodata ≠ some v := by
  cases nodata with
  | none => simp [validPixels]
  | some nd =>
    simp only [validPixels, List.mem_filter, bne_iff_ne, ne_eq, Option.some.injEq]
    constructor
    · rintro ⟨h1, h2⟩; exact ⟨h1, fun e => h2 e.symm⟩
    · rintro ⟨h1, h2⟩; exact ⟨h1, fun e => h2 e.symm⟩

/-- `level0_statistics_are_the_valid_pixels'`: for every band the reported minimum / maximum are values of valid source pixels
(pixels different from the nodata value) that bound all valid pixels, the mean times the number of valid pixels is their
exact sum, and the count is exactly the number of valid pixels — nothing else (padding, other bands, masked pixels) enters -/
theorem level0_statistics_are_the_valid_pixels (pix : List Int) (nodata : Option Int) :
    let s := bandStats pix nodata
    (∀ m, s.minimum = some m → (m ∈ pix ∧ nodata ≠ some m) ∧ ∀ v ∈ pix, nodata ≠ some v → m ≤ v) ∧
    (∀ m, s.maximum = some m → (m ∈ pix ∧ nodata ≠ some m) ∧ ∀ v ∈ pix, nodata ≠ some v → v ≤ m) ∧
    (∀ μ, s.mean = some μ → μ * (s.valid : Rat) = ((validPixels pix nodata).sum : Rat) ∧ 0 < s.valid) ∧
    s.valid = (validPixels pix nodata).length ∧ s.npix = pix.length ∧
    (s.minimum = none ↔ s.valid = 0) ∧ (s.mean = none ↔ s.valid = 0) := by
  intro s
  refine ⟨?_, ?_, ?_, rfl, rfl, ?_, ?_⟩
  · intro m hm
    have := List.min?_eq_some_iff.mp (show (validPixels pix nodata).min? = some m from hm)
    exact ⟨(mem_validPixels ..).mp this.1, fun v hv hn => this.2 v ((mem_validPixels ..).mpr ⟨hv, hn⟩)⟩
  · intro m hm
    have := List.max?_eq_some_iff.mp (show (validPixels pix nodata).max? = some m from hm)
    exact ⟨(mem_validPixels ..).mp this.1, fun v hv hn => this.2 v ((mem_validPixels ..).mpr ⟨hv, hn⟩)⟩
  · intro μ hμ
    simp only [s, bandStats] at hμ ⊢
    split at hμ
    · cases hμ
    · rename_i hne
      cases hμ
      have hpos : 0 < (validPixels pix nodata).length := by
        cases hv : validPixels pix nodata with
        | nil => simp [hv] at hne
        | cons a l => simp
      have : ((validPixels pix nodata).length : Rat) ≠ 0 := by exact_mod_cast (Nat.pos_iff_ne_zero.mp hpos)
      exact ⟨by field_simp, hpos⟩
  · simp only [s, bandStats]
    cases hv : validPixels pix nodata with
    | nil => simp
    | cons a l => simp [List.min?_cons']
  · simp only [s, bandStats]
    cases hv : validPixels pix nodata <;> simp

example : (bandStats [5, 7, -9999, 2, 7] (some (-9999))).minimum = some 2 ∧ (bandStats [5, 7, -9999, 2, 7] (some (-9999))).maximum = some 7 ∧
    (bandStats [5, 7, -9999, 2, 7] (some (-9999))).valid = 4 ∧ (bandStats [-9999] (some (-9999))).minimum = none := by decide

/-- which pixels belong to which band: band-first data `[s][y][x]` → band `s` holds exactly the rows of `data[s]` -/
theorem bands_of_syx (data : List (List (List Int))) (s : Nat) :
    (bandsOf .SYX data)[s]? = (data[s]?).map List.flatten := by
  simp [bandsOf]

/-- band-last data `[y][x][s]`: the value of sample `s` of every pixel is in band `s` (and the band holds nothing else) -/
theorem bands_of_yxs (data : List (List (List Int))) (s : Nat) (pix : List Int)
    (h : (bandsOf .YXS data)[s]? = some pix) (v : Int) :
    v ∈ pix ↔ ∃ row ∈ data, ∃ cell ∈ row, cell[s]? = some v := by
  simp only [bandsOf, List.getElem?_map, Option.map_eq_some_iff] at h
  obtain ⟨s', hs, rfl⟩ := h
  have : s' = s := by
    rw [List.getElem?_range] at hs
    · cases hs; rfl
    · by_contra hc
      rw [List.getElem?_eq_none (by simpa using hc)] at hs; cases hs
  subst this
  simp only [List.mem_filterMap, List.mem_flatten]
  constructor
  · rintro ⟨cell, ⟨row, hr, hc⟩, hv⟩; exact ⟨row, hr, cell, hc, hv⟩
  · rintro ⟨row, hr, cell, hc, hv⟩; exact ⟨cell, ⟨row, hr, hc⟩, hv⟩

/-- one record per band, each computed from that band's pixels alone -/
theorem stats_per_band (ax : Axis) (data : List (List (List Int))) (nodata : Option Int) (s : Nat) :
    (statsFromLayer ax data nodata)[s]? = ((bandsOf ax data)[s]?).map fun pix => bandStats pix nodata := by
  simp [statsFromLayer]

end OdcGeo.C05
