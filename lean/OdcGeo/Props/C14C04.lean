/-
C14 × C04/C12/C08 — compositions with the tiling models of properties C04 / C12 and the `GeoBox.from_bbox` model of C08
(all imported read-only).

* `GeoboxTiles(gs[k], …)`: a GridSpec tile GeoBox as the base of a GeoboxTiles (the `GBT` of C12 shares this tiling): every
  pixel of the tile belongs to exactly one sub-tile, the sub-tile's GeoBox addresses that pixel at the same world location, and
  that location lies in the footprint of tile `k` — together with `tiles_partition_plane`: tiles of tiles partition.
* `GeoBox.from_bbox(gs[k].boundingbox, shape=gs.tile_shape, tight=True)` rebuilds the tile GeoBox of a north-up grid exactly.
-/
import OdcGeo.Props.C14
import OdcGeo.Lemmas.C14C04
import OdcGeo.Props.C04
import OdcGeo.Model.C12
import OdcGeo.Model.C08

namespace OdcGeo.C14
open OdcGeo.C17 OdcGeo.C04

section
variable {ny nx : Int} {rx ry ox oy : Rat} {fx fy : Bool} {g : GridSpec}

/-- TILES OF TILES: tile `k` of a grid, re-tiled by any well-formed `GeoboxTiles` tiling `t` of its `ny × nx` pixels (regular or
    variable chunks): every pixel `(py, px)` of the tile lies in exactly one sub-tile `(r, c)`; the GeoBox of that sub-tile maps the
    pixel's position inside the sub-tile to the SAME world point as the tile's own affine does, and every point of that pixel cell
    lies in the footprint of tile `k`. -/
theorem gridspec_tile_subtiles_partition (hg : GridSpec.new id ny nx rx ry ox oy fx fy = .ok g) (k : Int × Int)
    (t : Tiling2) (hy : t.y.WF) (hx : t.x.WF) (hby : t.y.base = ny) (hbx : t.x.base = nx)
    (py px : Int) (hpy : 0 ≤ py ∧ py < ny) (hpx : 0 ≤ px ∧ px < nx) :
    ∃! rc : Int × Int, ((0 ≤ rc.1 ∧ rc.1 < t.y.count) ∧ (0 ≤ rc.2 ∧ rc.2 < t.x.count)) ∧
      ∃ sy sx sub, getItem2 t (.idx rc.1) (.idx rc.2) = .ok (sy, sx) ∧ sy.Has py ∧ sx.Has px ∧
        (⟨toC04 (g.tileGeobox id k), t⟩ : GeoboxTiles).getItem (.idx rc.1) (.idx rc.2) = .ok sub ∧
        sub.ny = sy.stop - sy.start ∧ sub.nx = sx.stop - sx.start ∧
        (∀ u v : Rat, sub.A.apply (u, v) = (g.tileGeobox id k).aff.apply (u + sx.start, v + sy.start)) ∧
        (∀ u v : Rat, 0 ≤ u → u ≤ 1 → 0 ≤ v → v ≤ 1 →
          (g.footprint k).memClosed (sub.A.apply ((px : Rat) - sx.start + u, (py : Rat) - sy.start + v))) := by
  obtain ⟨rc, ⟨hr, sy, sx, hgi, hyy, hxx⟩, uniq⟩ :=
    tiles2_partition t hy hx py px (by rw [hby]; exact hpy) (by rw [hbx]; exact hpx)
  have hsub : ∃ sub, (⟨toC04 (g.tileGeobox id k), t⟩ : GeoboxTiles).getItem (.idx rc.1) (.idx rc.2) = .ok sub := by
    simp only [GeoboxTiles.getItem, hgi, bind, Except.bind, pure, Except.pure]; exact ⟨_, rfl⟩
  obtain ⟨sub, hs⟩ := hsub
  obtain ⟨ry', rx', h1, h2, h3, h4⟩ := gbt_tile_is_crop ⟨toC04 (g.tileGeobox id k), t⟩ hy hx _ _ sub hs
  simp only at h1
  rw [hgi] at h1
  cases h1
  have hshape := tile_geobox_shape_res hg k
  refine ⟨rc, ⟨hr, sy, sx, sub, hgi, hyy, hxx, hs, h2, h3, fun u v => h4 (u, v), ?_⟩, ?_⟩
  · intro u v hu0 hu1 hv0 hv1
    rw [h4]
    apply (tile_footprint_is_image hg k _).mp
    simp only [toC04]
    refine ⟨(px : Rat) + u, (py : Rat) + v, ?_, ?_, ?_, ?_, ?_⟩
    · have : (0 : Rat) ≤ (px : Rat) := by exact_mod_cast hpx.1
      linarith
    · rw [hshape.2.1]
      have : (px : Rat) + 1 ≤ (nx : Rat) := by exact_mod_cast hpx.2
      linarith
    · have : (0 : Rat) ≤ (py : Rat) := by exact_mod_cast hpy.1
      linarith
    · rw [hshape.1]
      have : (py : Rat) + 1 ≤ (ny : Rat) := by exact_mod_cast hpy.2
      linarith
    · congr 1; ext <;> simp <;> ring
  · rintro rc' ⟨hr', sy', sx', _, hgi', hyy', hxx', _⟩
    exact uniq rc' ⟨hr', sy', sx', hgi', hyy', hxx'⟩

/-- `GeoBox.from_bbox(gs[k].boundingbox, shape=gs.tile_shape, tight=True)` (C08 model; any anchor, any tolerance) is the tile
    GeoBox itself on a north-up grid (`rx > 0`, `ry < 0`): same shape, same affine. -/
theorem c08_from_bbox_rebuilds_tile (hg : GridSpec.new id ny nx rx ry ox oy fx fy = .ok g) (hrx : 0 < rx) (hry : ry < 0)
    (k : Int × Int) (anchor : C08.AnchorArg) (tol : Rat) :
    C08.fromBbox ⟨(g.footprint k).left, (g.footprint k).bottom, (g.footprint k).right, (g.footprint k).top⟩ true
        (.yx ny nx) .none anchor tol =
      .ok ⟨(g.tileGeobox id k).ny, (g.tileGeobox id k).nx, (g.tileGeobox id k).aff⟩ := by
  obtain ⟨e, w⟩ := GridSpec.new_ok hg
  have hnx : 0 < nx := by have := w.x.sz_pos; rw [w.szx, e] at this; exact GridSpec.n_pos_of_sz this
  have hny : 0 < ny := by have := w.y.sz_pos; rw [w.szy, e] at this; exact GridSpec.n_pos_of_sz this
  have hnx' : (nx : Rat) ≠ 0 := by exact_mod_cast hnx.ne'
  have hny' : (ny : Rat) ≠ 0 := by exact_mod_cast hny.ne'
  obtain ⟨s1, s2, s3, s4, s5, s6, s7, s8, s9⟩ := tile_geobox_shape_res hg k
  have hf : g.footprint k = (g.tileGeobox id k).bbox id := rfl
  have hgx : g.rx = rx := by rw [e]
  have hgy : g.ry = ry := by rw [e]
  have hc : (g.tileGeobox id k).aff.c = (g.footprint k).left := by
    rw [hf, s7]; simp [GridSpec.tileGeobox, GridSpec.tileTxy, hgx, hrx]
  have hff : (g.tileGeobox id k).aff.f = (g.footprint k).top := by
    rw [hf, s7]; simp [GridSpec.tileGeobox, GridSpec.tileTxy, hgy, not_lt.mpr hry.le]
  have ar : rabs rx = rx := GridSpec.rabs_of_pos hrx
  have ay : rabs ry = -ry := by unfold rabs; rw [if_pos hry]
  rw [← hf] at s8 s9
  simp only [C08.fromBbox, C08.snapOf, C08.intShapeToRes, C08.ResArg.xy?, if_true, bind, Except.bind, pure, Except.pure,
    hnx.ne', hny.ne', if_false, C08.BBox.spanX, C08.BBox.spanY, s8, s9, ar, ay]
  congr 1
  rw [s1, s2]
  congr 1
  have : (g.tileGeobox id k).aff = ⟨rx, 0, (g.footprint k).left, 0, ry, (g.footprint k).top⟩ := by
    ext <;> simp [s3, s4, s5, s6, hc, hff]
  rw [this]
  show Aff.mul _ _ = _
  simp only [Aff.mul, Aff.translation, Aff.scale]
  ext <;> simp <;> field_simp

end

example : ∃ g, GridSpec.new id 2 4 (1 / 2) (-1 / 4) (-3) 1 false true = .ok g :=
  (gridspec_new_ok_iff _ _ _ _ _ _ _ _).mpr ⟨by norm_num [rabs], by norm_num [rabs]⟩

example : Tiling.WF (.reg 4 3) ∧ Tiling.WF (.reg 2 2) ∧ (Tiling.reg 4 3).base = 4 := ⟨by show (0 : Int) < 3; decide, by show (0 : Int) < 2; decide, rfl⟩

end OdcGeo.C14
