/-
C04 — source tie, piece `TilesSz` (see OdcGeo/Props/GenC04.lean).  One compilation unit per tied function (or small
group), so that a tie that is lost in a run only removes its own theorems from that run's obligations.
-/
import OdcGeo.Gen.C04
import OdcGeo.Gen.Tie
import OdcGeo.Props.C04

namespace OdcGeo.C04
open OdcGeo.Gen OdcGeo.C17

/-- `Tiles.tile_shape`: the model's one-axis `tileShape` is `_sz(i, number of tiles, tile size, axis size)` -/
theorem tie_tiles_sz (N n i : Int) :
    Gen.C04.tiles_sz i (count N n) n N = tileShape N n i := by
  tie_auto [Gen.C04.tiles_sz, tileShape]

/-- `tileShape_error_iff` for the source `_sz` -/
theorem gen_tile_shape_error_iff (N n : Int) (i : Int) :
    Gen.C04.tiles_sz i (count N n) n N = .error .indexError ↔ (i < -count N n ∨ count N n ≤ i) := by
  rw [tie_tiles_sz]; exact tileShape_error_iff N n i

end OdcGeo.C04
