/-
C04 — source tie, piece `VTilesSz` (see OdcGeo/Props/GenC04.lean): `VariableSizedTiles.tile_shape`'s `_sz(a, i)` with the
offsets array `a` as a `List Int`.
-/
import OdcGeo.Gen.C04
import OdcGeo.Gen.Tie
import OdcGeo.Props.C04

namespace OdcGeo.C04
open OdcGeo.Gen OdcGeo.C17 OdcGeo.NpArray

/-- the prelude's `a[i]` is the numpy reference semantics `npGet` of `Spec/NpArray.lean` -/
theorem py_listGet_eq (a : List Int) (i : Int) : Py.listGet a i = npGet a i := by
  unfold Py.listGet npGet
  simp only
  repeat' split
  all_goals first | rfl | (simp_all; done)

theorem npGet_error_kind (a : List Int) (i : Int) (e : ErrKind) (h : npGet a i = .error e) : e = .indexError := by
  unfold npGet at h
  simp only at h
  repeat' split at h
  all_goals first | (cases h; rfl) | (cases h) | (simp_all; done)

/-- two lookups sequenced in either order give the same result (the only error is `IndexError`): the code evaluates
`a[i + 1]` first, the model `a[i]` -/
theorem npGet_pair_comm (a : List Int) (i j : Int) :
    (match npGet a j with
      | .error e => .error e
      | .ok b => match npGet a i with
        | .error e => .error e
        | .ok x => (.ok (b - x) : Res Int)) =
    (do let x ← npGet a i; let b ← npGet a j; return b - x) := by
  cases hi : npGet a i with
  | error e0 =>
    cases hj : npGet a j with
    | error e1 => rw [npGet_error_kind a i e0 hi, npGet_error_kind a j e1 hj]; rfl
    | ok b => rfl
  | ok x => cases hj : npGet a j <;> rfl

/-- `_sz` on an index already moved into `[0, n)` -/
theorem vtiles_core (a : List Int) (j : Int) :
    (match Py.listGet a (j + 1) with
      | .error e => .error e
      | .ok b => match Py.listGet a j with
        | .error e => .error e
        | .ok x => (.ok (b - x) : Res Int)) =
    (do let x ← npGet a j; let b ← npGet a (j + 1); return b - x) := by
  simp only [py_listGet_eq]; exact npGet_pair_comm a j (j + 1)

/-- `VariableSizedTiles.tile_shape`: the model's one-axis `vtileShape` is `_sz(offsets, i)` -/
theorem tie_vtiles_sz (ch : List Int) (i : Int) :
    Gen.C04.vtiles_sz (offsets ch) i = vtileShape ch i := by
  have hc : (((offsets ch).length : Nat) : Int) - 1 = vcount ch := rfl
  have core := vtiles_core (offsets ch)
  unfold Gen.C04.vtiles_sz vtileShape
  simp only [hc]
  by_cases hi : i < 0
  · simp only [hi, if_true]
    by_cases hr : 0 ≤ vcount ch + i ∧ vcount ch + i < vcount ch
    · have h2 : ¬ (vcount ch + i < 0 ∨ vcount ch + i ≥ vcount ch) := by omega
      rw [if_pos hr, if_neg h2]; exact core _
    · have h2 : vcount ch + i < 0 ∨ vcount ch + i ≥ vcount ch := by omega
      rw [if_neg hr, if_pos h2]
  · simp only [hi, if_false]
    by_cases hr : 0 ≤ i ∧ i < vcount ch
    · have h2 : ¬ (False ∨ i ≥ vcount ch) := by rintro (h | h); exact h; omega
      rw [if_pos hr, if_neg h2]; exact core _
    · have h2 : False ∨ i ≥ vcount ch := Or.inr (by omega)
      rw [if_neg hr, if_pos h2]

/-- `vtileShape_error_iff` for the source `_sz` -/
theorem gen_vtile_shape_error_iff (ch : List Int) (i : Int) :
    Gen.C04.vtiles_sz (offsets ch) i = .error .indexError ↔ (i < -(ch.length : Int) ∨ (ch.length : Int) ≤ i) := by
  rw [tie_vtiles_sz]; exact vtileShape_error_iff ch i

end OdcGeo.C04
