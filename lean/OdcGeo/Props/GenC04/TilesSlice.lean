/-
C04 — source tie, piece `TilesSlice` (see OdcGeo/Props/GenC04.lean).  One compilation unit per tied function (or small
group), so that a tie that is lost in a run only removes its own theorems from that run's obligations.
-/
import OdcGeo.Gen.C04
import OdcGeo.Gen.Tie
import OdcGeo.Props.C04

namespace OdcGeo.C04
open OdcGeo.Gen OdcGeo.C17

/-- `Tiles.__getitem__`: the model's one-axis `getItem` is `_slice` applied to the normalised index -/
theorem tie_tiles_slice (N n : Int) (idx : PIdx) :
    Gen.C04.tiles_slice (normSlice idx (count N n)) N n = getItem N n idx := by
  tie_auto [Gen.C04.tiles_slice, getItem]

/-- `tiles_partition` (exact partition: every pixel lies in exactly one tile) with the region computed by the source
`_slice` on the normalised tile index -/
theorem gen_tiles_partition (N n : Int) (hn : 0 < n) (y : Int) (hy : 0 ≤ y ∧ y < N) :
    ∃! i : Int, (0 ≤ i ∧ i < count N n) ∧
      ∃ s, Gen.C04.tiles_slice (normSlice (.idx i) (count N n)) N n = .ok s ∧ s.Has y := by
  simp only [tie_tiles_slice]; exact tiles_partition N n hn y hy

end OdcGeo.C04
