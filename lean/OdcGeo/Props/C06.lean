/- C06 — property theorems only. -/
import OdcGeo.Model.C06
namespace OdcGeo.C06

end OdcGeo.C06
