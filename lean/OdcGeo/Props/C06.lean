/-
C06 — Multi-part assembly preserves the byte stream under any schedule.

Property theorems only (helper lemmas: `Lemmas/C06.lean`).  The model (`Model/C06.lean`) is
`MPUChunk` + the dask operators of `odc/geo/cog/_mpu.py` as repaired by the `fix:` commits
F7, F8, F9.  A dask `fold`/`collate` graph over the partitions is a binary merge tree over
adjacent partitions; `eval`/`run` are *functions* of the tree, i.e. every node is a pure
function of its children, which is why the result does not depend on the order in which
dask executes sibling tasks (the harness checks that on the real graphs).
-/
import OdcGeo.Lemmas.C06
import OdcGeo.Model.C06AsFound

set_option linter.unusedVariables false
set_option linter.unusedSimpArgs false

namespace OdcGeo.C06
variable {α : Type}

/-- `append` refines "append to the byte stream" and keeps the invariant. -/
theorem append_refines {W : Writer} {c : Chunk α} {lo hi : Nat} {B : List α} {O : List (Nat × Int)}
    (h : Inv W c lo hi B O false) (d : List α) (cid : Int) :
    Inv W (c.append d cid) lo hi (B ++ d) (O ++ [(d.length, cid)]) false :=
  append_inv h d cid

/-- `maybe_write` never fails under the invariant, leaves the byte stream unchanged, keeps the
invariant (in particular: every part it writes has at least `min_write_sz` bytes and a
non-final section keeps one write credit and `min_write_sz` bytes), whatever `spill_sz` is. -/
theorem maybeWrite_refines {W : Writer} {c : Chunk α} {lo hi : Nat} {B : List α} {O : List (Nat × Int)}
    {fin : Bool} (spill : Nat) (h : Inv W c lo hi B O fin) :
    ∃ c' ws, maybeWrite W spill c = .ok (c', ws) ∧ Inv W c' lo hi B O fin ∧ c'.parts = c.parts ++ ws :=
  maybeWrite_inv spill h

/-- `merge` of two adjacent sections never fails under the invariant and refines concatenation of
the byte streams and of the observed lists (both the "concatenate" branch and the
"flush left / move to left_data" branch). -/
theorem merge_refines {W : Writer} {l r : Chunk α} {lo mid hi : Nat} {Bl Br : List α}
    {Ol Or : List (Nat × Int)} {fin : Bool}
    (hl : Inv W l lo mid Bl Ol false) (hr : Inv W r mid hi Br Or fin)
    (hminP : W.minPart < lo) (hmax : mid ≤ W.maxPart + 1) (hobs : (Ol ++ Or).length ≠ 0) :
    ∃ m ws, merge (some W) l r = .ok (m, ws) ∧ Inv W m lo hi (Bl ++ Br) (Ol ++ Or) fin ∧
      m.parts = l.parts ++ ws ++ r.parts :=
  merge_inv hl hr hminP hmax hobs

/-- Every merge tree (any bracketing of adjacent merges) over partitions with ≥ 1 chunk each
evaluates without failure to a chunk satisfying the invariant for the whole sub-stream, and the
writer calls made so far are exactly the parts the chunk remembers. -/
theorem tree_refines (W : Writer) (spill wpc : Nat) (markFinal : Bool) (total : Nat)
    (hcap : (⟨some W, spill, wpc, markFinal⟩ : Cfg).base total ≤ W.maxPart + 1) (t : Tree α)
    (idx : Nat) (hle : idx + t.leaves ≤ total) (hne : t.NonEmpty) :
    ∃ c ws, eval ⟨some W, spill, wpc, markFinal⟩ total t idx = .ok (c, ws) ∧
      Inv W c ((⟨some W, spill, wpc, markFinal⟩ : Cfg).base idx)
        ((⟨some W, spill, wpc, markFinal⟩ : Cfg).base (idx + t.leaves)) t.bytes t.obs
        (markFinal && decide (idx + t.leaves = total)) ∧ List.Perm ws c.parts :=
  eval_inv W spill wpc markFinal total hcap t idx hle hne

/-- **C06, writer present.**  For every writer limits `W`, spill size, writes-per-chunk, every
merge tree `t` over partitions holding ≥ 1 chunk each (chunk sizes arbitrary, 0 included), every
header / footer callback (absent, returning nothing, returning bytes), provided the writer has
enough part numbers (`min_part + 1 + #partitions·wpc ≤ max_part + 1`):

* the run does not fail and both callbacks were shown the complete ordered `(size, id)` list;
* the list `fp` handed to `finalise` concatenates to header ++ chunks ++ footer;
* its part numbers strictly increase (hence are unique) and lie in `[min_part, max_part]`;
* every part except the last has at least `min_write_sz` bytes;
* the writer calls made anywhere in the graph (`wsAll`) are exactly `fp` (as a multiset), so the
  parts concatenated in increasing part number are header ++ chunks ++ footer. -/
theorem main (W : Writer) (spill wpc : Nat) (t : Tree α)
    (mkHdr mkFtr : Option (List (Nat × Int) → List α))
    (hne : t.NonEmpty) (hcap : W.minPart + 1 + t.leaves * wpc ≤ W.maxPart + 1) :
    ∃ wsF fp wsAll,
      run ⟨some W, spill, wpc, mkFtr.isNone⟩ t mkHdr mkFtr = .ok (.written wsF fp, wsAll, t.obs) ∧
      partsBytes fp = optBytes (mkHdr.map (fun f => f t.obs)) ++ t.bytes ++
                      optBytes (mkFtr.map (fun f => f t.obs)) ∧
      fp.Pairwise (fun a b => a.id < b.id) ∧
      (∀ p ∈ fp, W.minPart ≤ p.id ∧ p.id ≤ W.maxPart) ∧
      (∀ p ∈ fp.dropLast, W.minWrite ≤ p.data.length) ∧
      List.Perm wsAll fp := by
  have hcap' : (⟨some W, spill, wpc, mkFtr.isNone⟩ : Cfg).base t.leaves ≤ W.maxPart + 1 := by
    simp only [Cfg.base, Cfg.minPart]; omega
  obtain ⟨root, ws, e, hI, hperm⟩ :=
    eval_inv W spill wpc mkFtr.isNone t.leaves hcap' t 0 (by omega) hne
  have hfin : (mkFtr.isNone && decide (0 + t.leaves = t.leaves)) = mkFtr.isNone := by simp
  rw [hfin] at hI
  have hobs : root.observed = t.obs := hI.obs
  have hff : (mkFtr.map (fun f => f t.obs)) ≠ none → mkFtr.isNone = false := by
    cases mkFtr <;> simp
  obtain ⟨O', hI1⟩ := addFooter_inv hI (mkFtr.map (fun f => f t.obs)) hff
  have hhi : (⟨some W, spill, wpc, mkFtr.isNone⟩ : Cfg).base (0 + t.leaves) ≤ W.maxPart + 1 := by
    simpa using hcap'
  obtain ⟨root2, e2, hbytes, hparts, hr1, hr2, hr3, hr4, hr5⟩ :=
    addHeader_spec hI1 hhi (mkHdr.map (fun f => f t.obs))
  have hlo : W.minPart < (⟨some W, spill, wpc, mkFtr.isNone⟩ : Cfg).base 0 := by
    simp only [Cfg.base, Cfg.minPart]; omega
  have hsz : ∀ p ∈ root2.parts, W.minWrite ≤ p.data.length := by
    rw [hparts]; exact hI1.sizes
  obtain ⟨wsF, fp, e3, hF⟩ := flush_spec hr1 hr2 hr3 hr4 hr5 hlo hsz (by omega)
  refine ⟨wsF, fp, ws ++ ([] ++ wsF), ?_, ?_, hF.incr, hF.range, hF.sizes, ?_⟩
  · simp only [run, e, hobs, finalizer_eq, e2, e3]
  · rw [hF.bytes, hbytes, List.append_assoc]
  · have h1 : root2.parts = root.parts := by rw [hparts, addFooter_parts]
    simp only [List.nil_append]
    refine List.Perm.trans ?_ hF.perm
    rw [h1]
    exact List.Perm.append_right _ hperm

/-- **C06, no writer** (`write=None`): nothing is written; the root chunk returned by the
finaliser holds header ++ chunks ++ footer in its data section and the complete observed list was
shown to the callbacks. -/
theorem main_no_writer (spill wpc : Nat) (t : Tree α)
    (mkHdr mkFtr : Option (List (Nat × Int) → List α)) (hne : t.NonEmpty) :
    ∃ c, run ⟨none, spill, wpc, mkFtr.isNone⟩ t mkHdr mkFtr = .ok (.chunk c, [], t.obs) ∧
      c.parts = [] ∧ c.left = [] ∧
      c.data = optBytes (mkHdr.map (fun f => f t.obs)) ++ t.bytes ++
               optBytes (mkFtr.map (fun f => f t.obs)) := by
  obtain ⟨root, e, h1, h2, h3, h4⟩ := eval_none (α := α) spill wpc mkFtr.isNone t.leaves t 0 hne
  -- footer stage
  have hF : ∃ root1 : Chunk α, addFooter root (mkFtr.map (fun f => f t.obs)) = root1 ∧ root1.parts = [] ∧
      root1.left = [] ∧ root1.data = t.bytes ++ optBytes (mkFtr.map (fun f => f t.obs)) := by
    refine ⟨_, rfl, by rw [addFooter_parts]; exact h1, ?_, ?_⟩
    · cases mkFtr with
      | none => simpa [addFooter] using h2
      | some f => by_cases hl : (f t.obs).length = 0 <;> simp [addFooter, hl, Chunk.append, h2]
    · cases mkFtr with
      | none => simpa [addFooter, optBytes] using h3
      | some f =>
        by_cases hl : (f t.obs).length = 0
        · have : f t.obs = [] := List.length_eq_zero_iff.mp hl
          simp [addFooter, hl, optBytes, this, h3]
        · simp [addFooter, hl, Chunk.append, optBytes, h3]
  obtain ⟨root1, e1, p1, l1, d1⟩ := hF
  have hst : root1.started = false := (started_eq_false_iff root1).2 p1
  cases hh : mkHdr with
  | none =>
    refine ⟨root1, ?_, p1, l1, by simp [optBytes, d1]⟩
    simp only [run, e, h4, finalizer_eq, e1, addHeader, Option.map_none, List.append_nil]
  | some f =>
    by_cases hl : (f t.obs).length = 0
    · have hnil : f t.obs = [] := List.length_eq_zero_iff.mp hl
      refine ⟨root1, ?_, p1, l1, by simp [optBytes, d1, hnil]⟩
      simp only [run, e, h4, finalizer_eq, e1, addHeader, Option.map_some, hl, ne_eq, not_true_eq_false,
        if_false, List.append_nil]
    · have hlen : ¬ (([] : List (Nat × Int)) ++ [((f t.obs).length, (-1 : Int))] ++ root1.observed).length = 0 := by
        simp
      refine ⟨{ next := 1, credits := 1 + root1.credits, data := [] ++ f t.obs ++ root1.data, left := [],
                parts := [], observed := [] ++ [((f t.obs).length, -1)] ++ root1.observed,
                isFinal := root1.isFinal, lhsKeep := 0 }, ?_, rfl, rfl, ?_⟩
      · simp only [run, e, h4, finalizer_eq, e1, addHeader, Option.map_some, hl, ne_eq, not_false_eq_true,
          if_true, merge, Chunk.append, mkChunk, hlen, hst, l1, Bool.not_false, List.length_nil,
          not_true_eq_false, if_false, List.append_nil]
      · simp [optBytes, d1]

/-! ### where each chunk ends up in the written object -/

/-- **The written object, chunk by chunk.**  With a header of fixed length `hdrSz` (the COG header is
patched in place, its length does not depend on the observed list) and no footer, the bytes of the
`i`-th chunk of the stream sit in the finished object exactly at offset
`hdrSz + (total size of the chunks before it)`. -/
theorem file_chunk_bytes (W : Writer) (spill wpc : Nat) (t : Tree α)
    (mkHdr : Option (List (Nat × Int) → List α))
    (hne : t.NonEmpty) (hcap : W.minPart + 1 + t.leaves * wpc ≤ W.maxPart + 1)
    (hdrSz : Nat) (hH : (optBytes (mkHdr.map (fun f => f t.obs))).length = hdrSz) :
    ∃ wsF fp wsAll,
      run ⟨some W, spill, wpc, true⟩ t mkHdr none = .ok (.written wsF fp, wsAll, t.obs) ∧
      ∀ i (hi : i < t.chunks.length),
        ((partsBytes fp).drop (hdrSz + (t.chunks.take i).flatten.length)).take (t.chunks[i].length)
          = t.chunks[i] := by
  obtain ⟨wsF, fp, wsAll, hrun, hbytes, _, _, _, _⟩ := main W spill wpc t mkHdr none hne hcap
  refine ⟨wsF, fp, wsAll, by simpa using hrun, ?_⟩
  intro i hi
  rw [hbytes]
  simp only [Option.map_none, optBytes, List.append_nil]
  rw [Tree.bytes_eq_flatten, ← hH]
  exact slice_flatten _ _ i hi

/-! ### any schedule of the task graph -/

/-- **Schedule independence.**  However the scheduler orders the tasks of the graph (any sequence of
enabled partition / merge tasks, interleaved arbitrarily across the tree), an execution that runs
the graph to completion ends with exactly the chunk `eval` computes, and the writer calls it made
are exactly `eval`'s, up to order. -/
theorem schedule_result (cfg : Cfg) (total : Nat) (t : Tree α) (idx : Nat) (c : Chunk α)
    (log : List (Part α))
    (h : Steps cfg total (Run.ofTree t idx, []) (.done c, log)) :
    ∃ ws, eval cfg total t idx = .ok (c, ws) ∧ List.Perm log ws := by
  obtain ⟨ws', hr, hp⟩ := steps_rel cfg total h (rel_ofTree cfg total t idx) (List.Perm.refl _)
  cases hr with
  | done _ _ _ ws _ he hpw => exact ⟨ws, he, List.Perm.trans hp hpw⟩

/-- **No schedule gets stuck**: while `eval` of the whole tree succeeds, every state that is not
finished has an enabled task. -/
theorem schedule_progress (cfg : Cfg) (total : Nat) {r : Run α} {t : Tree α} {idx : Nat}
    {ws : List (Part α)} (hr : Rel cfg total r t idx ws) (log : List (Part α))
    (hok : ∃ c w, eval cfg total t idx = .ok (c, w)) :
    (∃ c, r = .done c) ∨ ∃ r' log', Step cfg total (r, log) (r', log') := by
  induction hr generalizing log with
  | leafTodo idx chunks =>
    right
    obtain ⟨c, w, he⟩ := hok
    exact ⟨.done c, log ++ w, Step.leaf idx chunks c w log (by simpa [eval] using he)⟩
  | nodeTodo l r tl tr idx wl wr hl hr ihl ihr =>
    right
    obtain ⟨c, w, he⟩ := hok
    -- both children evaluate (otherwise the node would fail)
    have hcl : ∃ cl wl', eval cfg total tl idx = .ok (cl, wl') := by
      cases h : eval cfg total tl idx with
      | error e => simp [eval, h] at he
      | ok p => exact ⟨p.1, p.2, rfl⟩
    obtain ⟨cl, wl', hel⟩ := hcl
    have hcr : ∃ cr wr', eval cfg total tr (idx + tl.leaves) = .ok (cr, wr') := by
      cases h : eval cfg total tr (idx + tl.leaves) with
      | error e => simp [eval, hel, h] at he
      | ok p => exact ⟨p.1, p.2, rfl⟩
    obtain ⟨cr, wr', her⟩ := hcr
    rcases ihl log ⟨cl, wl', hel⟩ with ⟨cl0, rfl⟩ | ⟨l', log', hs⟩
    · rcases ihr log ⟨cr, wr', her⟩ with ⟨cr0, rfl⟩ | ⟨r', log', hs⟩
      · -- both done: the merge task is enabled
        cases hl with
        | done _ _ _ wsl _ hel' _ =>
          cases hr with
          | done _ _ _ wsr _ her' _ =>
            rw [hel] at hel'; rw [her] at her'
            obtain ⟨rfl, rfl⟩ := Prod.mk.inj (Except.ok.inj hel')
            obtain ⟨rfl, rfl⟩ := Prod.mk.inj (Except.ok.inj her')
            cases hm : mergeAndSpill cfg.writer cfg.spill cl cr with
            | error e => simp [eval, hel, her, hm] at he
            | ok p => exact ⟨.done p.1, log ++ p.2, Step.node cl cr p.1 p.2 log hm⟩
      · exact ⟨.nodeTodo (.done cl0) r', log', Step.right _ _ _ _ _ hs⟩
    · exact ⟨.nodeTodo l' r, log', Step.left _ _ _ _ _ hs⟩
  | done c t idx ws ws' he hp => left; exact ⟨c, rfl⟩

/-- **Every schedule is finite**: each task that fires removes exactly one task from the to-do set,
so an execution has exactly as many steps as the graph has tasks. -/
theorem schedule_step_count (cfg : Cfg) (total : Nat) {s s' : Run α × List (Part α)}
    (h : Step cfg total s s') : s'.1.todo + 1 = s.1.todo :=
  step_todo cfg total h

/-! ### the code as found violated the full statement (replays of F7, F8, F9) -/


def bytes (n : Nat) : List Nat := List.replicate n 7

/-! ## `mpu_write` seeds its bags exactly as the merge-tree evaluation numbers its partitions -/

theorem genBunch_eq (cfg : Cfg) (total off n : Nat) (last : Bool)
    (hlast : last = true → off + n = total) (hnot : last = false → off + n < total ∨ cfg.markFinal = false ∨ n = 0) :
    genBunch (cfg.base off) n cfg.wpc (cfg.markFinal && last) cfg.lhsKeep
      = (List.range n).map fun p => cfg.seed total (off + p) := by
  simp only [genBunch, Cfg.seed, Cfg.base]
  apply List.map_congr_left
  intro p hp
  have hp' : p < n := List.mem_range.mp hp
  have e1 : cfg.minPart + 1 + off * cfg.wpc + p * cfg.wpc = cfg.minPart + 1 + (off + p) * cfg.wpc := by
    rw [Nat.add_mul]; omega
  rw [e1]
  congr 1
  cases last with
  | true =>
    have := hlast rfl
    have : (p + 1 = n) ↔ (off + p + 1 = total) := by omega
    simp [this]
  | false =>
    rcases hnot rfl with h | h | h
    · have : ¬ (off + p + 1 = total) := by omega
      simp [this]
    · simp [h]
    · omega

/-- **Seeding.**  For every list of bags with at least one partition each, the sections `mpu_write` creates
(`gen_bunch` per bag, running part counter, final flag on the last partition of the last bag only, one `lhs_keep` for
all) are, read in stream order, exactly the seeds `eval` uses for global partition indices `0 … total-1`.  Hence
`main` / `schedule_result`, stated over global indices, speak about what `mpu_write` builds from several bags. -/
theorem mpu_write_seeds_global (cfg : Cfg) (nparts : List Nat) (hpos : ∀ n ∈ nparts, 0 < n) :
    (mpuWriteSeeds cfg nparts).flatten = (List.range nparts.sum).map (cfg.seed nparts.sum) := by
  suffices h : ∀ (total off : Nat) (ns : List Nat), (∀ n ∈ ns, 0 < n) → off + ns.sum = total →
      (mpuWriteSeedsFrom cfg (cfg.base off) ns).flatten = (List.range ns.sum).map fun p => cfg.seed total (off + p) by
    have := h nparts.sum 0 nparts hpos (by simp)
    simpa [mpuWriteSeeds, Cfg.base] using this
  intro total off ns
  induction ns generalizing off with
  | nil => intro _ _; simp [mpuWriteSeedsFrom]
  | cons n rest ih =>
    intro hp hsum
    have hn : 0 < n := hp n (by simp)
    have hrest : ∀ m ∈ rest, 0 < m := fun m hm => hp m (by simp [hm])
    simp only [List.sum_cons] at hsum
    have hb : cfg.base off + n * cfg.wpc = cfg.base (off + n) := by
      simp only [Cfg.base, Nat.add_mul]; omega
    simp only [mpuWriteSeedsFrom, List.flatten_cons, List.sum_cons, hb]
    rw [ih (off + n) hrest (by omega)]
    rw [genBunch_eq cfg total off n rest.isEmpty]
    · rw [List.range_add, List.map_append, List.map_map]
      congr 1
      apply List.map_congr_left
      intro p _
      simp [Nat.add_assoc]
    · intro he
      have : rest = [] := by simpa using he
      subst this; simp at hsum; omega
    · intro he
      left
      cases rest with
      | nil => simp at he
      | cons m ms =>
        have := hrest m (by simp)
        simp only [List.sum_cons] at hsum
        omega

/-- ids handed to different partitions never collide and stay in stream order: partition `i` owns
`[base i, base i + wpc)` -/
theorem seed_ranges_disjoint (cfg : Cfg) (i j : Nat) (h : i < j) : cfg.base i + cfg.wpc ≤ cfg.base j := by
  simp only [Cfg.base]
  have : (i + 1) * cfg.wpc ≤ j * cfg.wpc := Nat.mul_le_mul_right _ h
  rw [Nat.add_mul] at this
  omega

example : mpuWriteSeeds ⟨some ⟨10, 3, 100⟩, 0, 2, true⟩ [2, 1, 3]
    = [[⟨4, 2, false, 10⟩, ⟨6, 2, false, 10⟩], [⟨8, 2, false, 10⟩],
       [⟨10, 2, false, 10⟩, ⟨12, 2, false, 10⟩, ⟨14, 2, true, 10⟩]] := by decide

/-- F7 as found: final partition with two 30-byte chunks, `spill_sz = 20`, `min_write_sz = 10`,
one write credit: the credit is spent after the first chunk and the final flush fails. -/
theorem cex_final_two_chunks_as_found :
    (match AsFound.appendChunksOp true ⟨10, 1, 100⟩ 20 (mkChunk 2 1 true 10 : Chunk Nat)
        [(bytes 30, 0), (bytes 30, 1)] with
     | .ok (c, _) => (match flush ⟨10, 1, 100⟩ c (some 1) with | .error .assertion => true | _ => false)
     | .error _ => false) = true := by decide

/-- … and the repaired `_mpu_append_chunks_op` on the same input flushes fine. -/
theorem cex_final_two_chunks_repaired :
    (match appendChunksOp (some ⟨10, 1, 100⟩) 20 (mkChunk 2 1 true 10 : Chunk Nat)
        [(bytes 30, 0), (bytes 30, 1)] with
     | .ok (c, _) => (match flush ⟨10, 1, 100⟩ c (some 1) with | .ok _ => true | _ => false)
     | .error _ => false) = true := by decide

/-- F8 as found: `spill_sz = 1 < min_write_sz = 10`, two write credits: a 5-byte part is written in
the middle of the stream. -/
theorem cex_small_spill_as_found :
    (match AsFound.appendChunksOp false ⟨10, 1, 100⟩ 1 (mkChunk 2 2 false 10 : Chunk Nat)
        [(bytes 25, 0), (bytes 25, 1)] with
     | .ok (_, ws) => ws.any (fun p => decide (p.data.length < 10))
     | .error _ => false) = true := by decide

/-- F9 as found: `leftPartId = 1` with a writer whose `min_part = 5` is below the allowed range,
the repaired finaliser passes `min_part`. -/
theorem cex_min_part_as_found :
    (match flush ⟨10, 5, 100⟩ ({ (mkChunk 6 1 false 10 : Chunk Nat) with data := bytes 30 }) (some 1) with
     | .ok (ws, _) => ws.any (fun p => decide (p.id < 5))
     | .error _ => false) = true := by decide


/-! ### non-vacuity and a concrete run -/

/-- The hypotheses of `main` are met by a concrete non-trivial configuration (the replay of
finding F7), and the model evaluates it to the expected parts. -/
example :
    let t : Tree Nat := .node (.leaf [([1, 2, 3], 0)]) (.leaf [([4, 5], 1), ([6], 2)])
    t.NonEmpty ∧ (1 + 1 + t.leaves * 1 ≤ 100 + 1) := by
  simp [Tree.NonEmpty, Tree.leaves]

end OdcGeo.C06
