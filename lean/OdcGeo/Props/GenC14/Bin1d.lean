/-
C14 — source tie, piece `Bin1d` (see OdcGeo/Props/GenC14.lean): `Bin1D.__getitem__`, `Bin1D.bin` against the C14 model at
exact arithmetic (`fl := id`, the instance all theorems of `Props/C14.lean` are about).
-/
import OdcGeo.Gen.C14
import OdcGeo.Gen.Tie
import OdcGeo.Props.C14

namespace OdcGeo.C14
open OdcGeo.Gen

theorem tie_bin1d_getitem (b : Bin1D) (idx : Int) :
    Gen.C14.bin1d_getitem b idx = (b.lo id idx, b.hi id idx) := by
  tie_auto [Gen.C14.bin1d_getitem, Bin1D.lo, Bin1D.hi, id]

/-- `sz > 0` is the class invariant established by `Bin1D.__init__` -/
theorem tie_bin1d_bin (b : Bin1D) (x : Rat) (h : 0 < b.sz) : Gen.C14.bin1d_bin b x = .ok (b.bin id x) := by
  have h0 : b.sz ≠ 0 := ne_of_gt h
  tie_auto [Gen.C14.bin1d_bin, Bin1D.bin, id]

end OdcGeo.C14
