/-
C14 — source tie, piece `Partition` (see OdcGeo/Props/GenC14.lean): the headline theorems of `Props/C14.lean` restated about
the regenerated `pt2idx` / `idx_bounds` of a constructed `GridSpec`.
-/
import OdcGeo.Gen.C14
import OdcGeo.Gen.Tie
import OdcGeo.Props.C14
import OdcGeo.Props.GenC14.Pt2idx

namespace OdcGeo.C14
open OdcGeo.Gen

variable {ny nx : Int} {rx ry ox oy : Rat} {fx fy : Bool} {g : GridSpec}

/-- a constructed `GridSpec` has bins of positive size -/
theorem gridspec_bins_pos (hg : GridSpec.new id ny nx rx ry ox oy fx fy = .ok g) :
    0 < g.xbin.sz ∧ 0 < g.ybin.sz := by
  obtain ⟨_, _, _, _, hxb, hyb⟩ := gridspec_new_fields hg
  have hpos := (gridspec_new_ok_iff ny nx rx ry ox oy fx fy).mp ⟨g, hg⟩
  rw [hxb, hyb]
  exact hpos

/-- `pt_in_its_tile` for the source `pt2idx`: the lookup does not raise and the point lies in the tile it names -/
theorem gen_pt_in_its_tile (hg : GridSpec.new id ny nx rx ry ox oy fx fy = .ok g) (x y : Rat) :
    ∃ k, Gen.C14.pt2idx g x y = .ok k ∧ (g.footprint k).memHalfOpen (x, y) :=
  ⟨_, tie_pt2idx g x y (gridspec_bins_pos hg).1 (gridspec_bins_pos hg).2, pt_in_its_tile hg x y⟩

/-- `tiles_partition_plane` with the source `pt2idx` as the witness: the half-open tiles partition the plane and
`pt2idx` names the unique tile of every point -/
theorem gen_tiles_partition_plane (hg : GridSpec.new id ny nx rx ry ox oy fx fy = .ok g) (p : Rat × Rat) :
    ∃ k, Gen.C14.pt2idx g p.1 p.2 = .ok k ∧ (g.footprint k).memHalfOpen p ∧
      ∀ k', (g.footprint k').memHalfOpen p → k' = k := by
  refine ⟨_, tie_pt2idx g p.1 p.2 (gridspec_bins_pos hg).1 (gridspec_bins_pos hg).2, pt_in_its_tile hg p.1 p.2, ?_⟩
  intro k' hk'
  exact ((pt_tile_unique hg p.1 p.2 k').mp hk').symm

/-- `idx_bounds_sound` for the source `idx_bounds` (tolerance `1e-8`) -/
theorem gen_idx_bounds_sound (hg : GridSpec.new id ny nx rx ry ox oy fx fy = .ok g)
    (q : BBox) (hx : q.left ≤ q.right) (hy : q.bottom ≤ q.top) :
    ∃ r, Gen.C14.idx_bounds g q = .ok r ∧ ∀ k, inRange r k →
      ∃ p : Rat × Rat, q.left - tol8 ≤ p.1 ∧ p.1 ≤ q.right + tol8 ∧ q.bottom - tol8 ≤ p.2 ∧ p.2 ≤ q.top + tol8 ∧
        (g.footprint k).memHalfOpen p := by
  refine ⟨_, tie_idx_bounds g q (gridspec_bins_pos hg).1 (gridspec_bins_pos hg).2, ?_⟩
  intro k hk
  exact idx_bounds_sound hg (by unfold tol8; norm_num) q hx hy k hk

end OdcGeo.C14
