/-
C14 — source tie, piece `Pt2idx` (see OdcGeo/Props/GenC14.lean): `GridSpec.pt2idx`, `GridSpec.idx_bounds`.
-/
import OdcGeo.Gen.C14
import OdcGeo.Gen.Tie
import OdcGeo.Props.C14
import OdcGeo.Props.GenC14.Bin1d

namespace OdcGeo.C14
open OdcGeo.Gen

/-- `GridSpec.pt2idx`; both bins have a positive size (constructor invariant, `gridspec_new_fields`) -/
theorem tie_pt2idx (g : GridSpec) (x y : Rat) (hx : 0 < g.xbin.sz) (hy : 0 < g.ybin.sz) :
    Gen.C14.pt2idx g x y = .ok (g.pt2idx id x y) := by
  simp only [Gen.C14.pt2idx, GridSpec.pt2idx, tie_bin1d_bin _ _ hx, tie_bin1d_bin _ _ hy]
  first | done | rfl | tie_fin

/-- `GridSpec.idx_bounds` with the literal tolerance `1e-8` of the code -/
theorem tie_idx_bounds (g : GridSpec) (q : BBox) (hx : 0 < g.xbin.sz) (hy : 0 < g.ybin.sz) :
    Gen.C14.idx_bounds g q = .ok (g.idxBounds id tol8 q) := by
  simp only [Gen.C14.idx_bounds, GridSpec.idxBounds, tie_pt2idx _ _ _ hx hy, tol8, id, if_true]
  first
    | done
    | rfl
    | (simp only [Except.ok.injEq, Prod.mk.injEq]; omega)
    | (repeat' split) <;> first | rfl | (simp only [Except.ok.injEq, Prod.mk.injEq]; omega) | tie_fin

end OdcGeo.C14
