/-
C14 — source tie, piece `TileTxy` (see OdcGeo/Props/GenC14.lean): `GridSpec._tile_txy`.
-/
import OdcGeo.Gen.C14
import OdcGeo.Gen.Tie
import OdcGeo.Props.C14
import OdcGeo.Props.GenC14.Bin1d

namespace OdcGeo.C14
open OdcGeo.Gen

theorem tie_tile_txy (g : GridSpec) (k : Int × Int) : Gen.C14.tile_txy g k = g.tileTxy id k := by
  simp only [Gen.C14.tile_txy, GridSpec.tileTxy, tie_bin1d_getitem]
  repeat' split
  all_goals tie_fin

end OdcGeo.C14
