/-
C06 — the public entry point `mpu_write`, from its bags to the writer calls, with the task-graph shape derived
inside the model (`Model/C06Dask.lean`: dask's `Bag.fold(split_every)` tree per bag, `_mpu_collate_op` over the
bags) instead of being a parameter.  `Props/C06.lean::main` quantifies over EVERY merge tree; the theorems here
instantiate it at the tree the code really builds, so that nothing named stands between the arguments of
`mpu_write` and its result: no tree, no "dask built a tree with these leaves" hypothesis.
-/
import OdcGeo.Props.C06
import OdcGeo.Lemmas.C06Dask

set_option linter.unusedVariables false
set_option linter.unusedSimpArgs false

namespace OdcGeo.C06
variable {α : Type}

/-- all payload bytes of a list of bags (bag → partition → `(bytes, chunk id)`), in stream order -/
def bagsBytes (bags : List (List (List (List α × Int)))) : List α := (bags.flatten.map chunksBytes).flatten
/-- the `(size, chunk id)` log of a list of bags, in stream order -/
def bagsObs (bags : List (List (List (List α × Int)))) : List (Nat × Int) := (bags.flatten.map chunksObs).flatten

/-- **dask's fold keeps the stream.**  For every `split_every ≥ 2` and every non-empty list of sub-results the
reduction loop of `Bag.fold` terminates, and the tree of merges it performs has exactly the given sub-results as
its leaves, in order: same bytes, same observed list, same number of partitions, every partition still non-empty. -/
theorem dask_fold_keeps_stream (s : Nat) (hs : 2 ≤ s) (ts : List (Tree α)) (hne : ts ≠ []) :
    ∃ t, daskFold s ts = some t ∧ t.bytes = (ts.map Tree.bytes).flatten ∧ t.obs = (ts.map Tree.obs).flatten ∧
      t.leaves = (ts.map Tree.leaves).sum ∧ ((∀ x ∈ ts, x.NonEmpty) → t.NonEmpty) := by
  obtain ⟨t, ht, hl⟩ := daskFold_spec s hs ts hne
  refine ⟨t, ht, ?_, ?_, ?_, ?_⟩
  · rw [Tree.bytes_leafList, hl]
    clear ht hl hne
    induction ts with
    | nil => simp
    | cons x xs ih => simp [ih, Tree.bytes_leafList x]
  · rw [Tree.obs_leafList, hl]
    clear ht hl hne
    induction ts with
    | nil => simp
    | cons x xs ih => simp [ih, Tree.obs_leafList x]
  · rw [Tree.leaves_leafList, hl]
    clear ht hl hne
    induction ts with
    | nil => simp
    | cons x xs ih => simp [ih, Tree.leaves_leafList x]
  · intro hx
    rw [Tree.nonEmpty_leafList, hl]
    intro p hp
    simp only [leafListL, List.mem_flatten, List.mem_map] at hp
    obtain ⟨l, ⟨x, hxm, rfl⟩, hpl⟩ := hp
    exact (Tree.nonEmpty_leafList x).1 (hx x hxm) p hpl

/-- **dask's fold with `split_every ≤ 1` never finishes building the graph** when there is more than one partition
(`while k > split_every` does not make progress: `partition_all(1, …)` keeps `k`); the model returns `none`.
`mpu_write` always uses 4. -/
theorem dask_fold_split_every_one_diverges :
    daskFold 1 [(.leaf [([1], 0)] : Tree Nat), .leaf [([2], 1)]] = none := by decide

/-- the tree `mpu_write` builds: it exists and its leaves are the partitions of the bags in stream order -/
theorem mpu_write_tree_leaves (s : Nat) (hs : 2 ≤ s) (bags : List (List (List (List α × Int))))
    (hb : bags ≠ []) (hp : ∀ b ∈ bags, b ≠ []) :
    ∃ t, mpuWriteTree s bags = some t ∧ t.bytes = bagsBytes bags ∧ t.obs = bagsObs bags ∧
      t.leaves = bags.flatten.length ∧ ((∀ b ∈ bags, ∀ p ∈ b, p ≠ []) → t.NonEmpty) := by
  obtain ⟨t, ht, hl⟩ := mpuWriteTree_spec s hs bags hb hp
  refine ⟨t, ht, by rw [Tree.bytes_leafList, hl, bagsBytes], by rw [Tree.obs_leafList, hl, bagsObs],
    by rw [Tree.leaves_leafList, hl], ?_⟩
  intro hc
  rw [Tree.nonEmpty_leafList, hl]
  intro p hpm
  obtain ⟨b, hbm, hpb⟩ := List.mem_flatten.mp hpm
  exact hc b hbm p hpb

/-- **C06 for the public entry point, writer present.**  `mpu_write(bags, write, mk_header=, mk_footer=,
writes_per_chunk=wpc, spill_sz=spill).compute()`: for EVERY non-empty list of bags, every bag with ≥ 1 partition,
every partition with ≥ 1 chunk (sizes arbitrary, 0 included), every writer limits with enough part numbers for all
partitions of all bags, every spill size, writes-per-chunk and header / footer callback, the run — with the graph
shape the code builds (dask fold, `split_every = 4`, then collate) — does not fail, shows both callbacks the complete
`(size, id)` list, and hands the writer parts that concatenate, in increasing part number, to
header ++ all chunks of all bags in order ++ footer; numbers strictly increasing, within `[min_part, max_part]`,
every part but the last ≥ `min_write_sz`, `finalise` gets exactly the written parts. -/
theorem mpu_write_end_to_end (W : Writer) (spill wpc : Nat) (bags : List (List (List (List α × Int))))
    (mkHdr mkFtr : Option (List (Nat × Int) → List α))
    (hb : bags ≠ []) (hp : ∀ b ∈ bags, b ≠ []) (hc : ∀ b ∈ bags, ∀ p ∈ b, p ≠ [])
    (hcap : W.minPart + 1 + bags.flatten.length * wpc ≤ W.maxPart + 1) :
    ∃ wsF fp wsAll,
      mpuWrite (some W) spill wpc bags mkHdr mkFtr = some (.ok (.written wsF fp, wsAll, bagsObs bags)) ∧
      partsBytes fp = optBytes (mkHdr.map (fun f => f (bagsObs bags))) ++ bagsBytes bags ++
                      optBytes (mkFtr.map (fun f => f (bagsObs bags))) ∧
      fp.Pairwise (fun a b => a.id < b.id) ∧
      (∀ p ∈ fp, W.minPart ≤ p.id ∧ p.id ≤ W.maxPart) ∧
      (∀ p ∈ fp.dropLast, W.minWrite ≤ p.data.length) ∧
      List.Perm wsAll fp := by
  obtain ⟨t, ht, hbytes, hobs, hleaves, hne⟩ :=
    mpu_write_tree_leaves mpuWriteSplitEvery (by decide) bags hb hp
  obtain ⟨wsF, fp, wsAll, hrun, h1, h2, h3, h4, h5⟩ :=
    main W spill wpc t mkHdr mkFtr (hne hc) (by rw [hleaves]; exact hcap)
  refine ⟨wsF, fp, wsAll, ?_, ?_, h2, h3, h4, h5⟩
  · have hbe : bags.isEmpty = false := by cases bags <;> simp_all
    simp only [mpuWrite, hbe, Bool.false_eq_true, if_false, ht, Option.map_some, hrun, hobs]
  · rw [h1, hobs, hbytes]

/-- **C06 for the public entry point, `write=None`**: nothing is written, the chunk the Delayed evaluates to holds
header ++ all chunks ++ footer. -/
theorem mpu_write_end_to_end_no_writer (spill wpc : Nat) (bags : List (List (List (List α × Int))))
    (mkHdr mkFtr : Option (List (Nat × Int) → List α))
    (hb : bags ≠ []) (hp : ∀ b ∈ bags, b ≠ []) (hc : ∀ b ∈ bags, ∀ p ∈ b, p ≠ []) :
    ∃ c, mpuWrite none spill wpc bags mkHdr mkFtr = some (.ok (.chunk c, [], bagsObs bags)) ∧
      c.parts = [] ∧ c.left = [] ∧
      c.data = optBytes (mkHdr.map (fun f => f (bagsObs bags))) ++ bagsBytes bags ++
               optBytes (mkFtr.map (fun f => f (bagsObs bags))) := by
  obtain ⟨t, ht, hbytes, hobs, hleaves, hne⟩ :=
    mpu_write_tree_leaves mpuWriteSplitEvery (by decide) bags hb hp
  obtain ⟨c, hrun, h1, h2, h3⟩ := main_no_writer spill wpc t mkHdr mkFtr (hne hc)
  refine ⟨c, ?_, h1, h2, ?_⟩
  · have hbe : bags.isEmpty = false := by cases bags <;> simp_all
    simp only [mpuWrite, hbe, Bool.false_eq_true, if_false, ht, Option.map_some, hrun, hobs]
  · rw [h3, hobs, hbytes]

/-- **The object does not depend on `split_every`** (nor on how the chunk stream is cut into bags and partitions,
as long as the stream is the same): for any two fold widths ≥ 2 the parts handed to `finalise` concatenate to the same
bytes.  (`from_dask_bag` exposes `split_every`; `mpu_write` fixes it to 4.) -/
theorem object_independent_of_split_every (W : Writer) (spill wpc s1 s2 : Nat) (hs1 : 2 ≤ s1) (hs2 : 2 ≤ s2)
    (bags : List (List (List (List α × Int)))) (mkHdr mkFtr : Option (List (Nat × Int) → List α))
    (hb : bags ≠ []) (hp : ∀ b ∈ bags, b ≠ []) (hc : ∀ b ∈ bags, ∀ p ∈ b, p ≠ [])
    (hcap : W.minPart + 1 + bags.flatten.length * wpc ≤ W.maxPart + 1) :
    ∃ t1 t2 w1 fp1 a1 w2 fp2 a2,
      mpuWriteTree s1 bags = some t1 ∧ mpuWriteTree s2 bags = some t2 ∧
      run ⟨some W, spill, wpc, mkFtr.isNone⟩ t1 mkHdr mkFtr = .ok (.written w1 fp1, a1, bagsObs bags) ∧
      run ⟨some W, spill, wpc, mkFtr.isNone⟩ t2 mkHdr mkFtr = .ok (.written w2 fp2, a2, bagsObs bags) ∧
      partsBytes fp1 = partsBytes fp2 := by
  obtain ⟨t1, ht1, hb1, ho1, hl1, hn1⟩ := mpu_write_tree_leaves s1 hs1 bags hb hp
  obtain ⟨t2, ht2, hb2, ho2, hl2, hn2⟩ := mpu_write_tree_leaves s2 hs2 bags hb hp
  obtain ⟨w1, fp1, a1, hr1, hx1, _⟩ := main W spill wpc t1 mkHdr mkFtr (hn1 hc) (by rw [hl1]; exact hcap)
  obtain ⟨w2, fp2, a2, hr2, hx2, _⟩ := main W spill wpc t2 mkHdr mkFtr (hn2 hc) (by rw [hl2]; exact hcap)
  refine ⟨t1, t2, w1, fp1, a1, w2, fp2, a2, ht1, ht2, by rw [hr1, ho1], by rw [hr2, ho2], ?_⟩
  rw [hx1, hx2, ho1, ho2, hb1, hb2]

/-- no bag at all: `mpu_write([])` fails while building the graph (`assert len(substreams) > 0`) -/
theorem mpu_write_no_bags (w : Option Writer) (spill wpc : Nat) (mkHdr mkFtr : Option (List (Nat × Int) → List α)) :
    mpuWrite w spill wpc [] mkHdr mkFtr = some (.error .assertion) := rfl

/-! ### non-vacuity and concrete shapes -/

/-- nine partitions, `split_every = 4`: two full groups and a lone ninth, then one final reduction -/
example : ((fromDaskBag 4 ((List.range 9).map fun i => [([i], (i : Int))])).map Tree.skel)
    = some "(((((0 1) 2) 3) (((4 5) 6) 7)) 8)" := by decide

/-- two bags (3 and 2 partitions): per-bag folds, then collate -/
example : ((mpuWriteTree 4 [[[([1], 0)], [([2], 1)], [([3], 2)]], [[([4], 3)], [([5], 4)]]]).map Tree.skel)
    = some "(((0 1) 2) (3 4))" := by decide

/-- the hypotheses of `mpu_write_end_to_end` are satisfiable -/
example : let bags : List (List (List (List Nat × Int))) := [[[([1, 2, 3], 0)], [([4], 1), ([], 2)]], [[([5, 6], 3)]]]
    bags ≠ [] ∧ (∀ b ∈ bags, b ≠ []) ∧ (∀ b ∈ bags, ∀ p ∈ b, p ≠ []) ∧
      (1 + 1 + bags.flatten.length * 2 ≤ 100 + 1) := by decide

end OdcGeo.C06
