/-
C04 — argument normalisation / glue around the tiling core (`Model/C04Args.lean`).

Property theorems only (helpers are in `Lemmas/C04Args.lean`).

1. `BlockAssembler.__init__` / `_verify_shape`: success is exactly "every block fits the layout with
   the extra axes of the first block" – the well-formedness `assemble_window` (Props/C04.lean)
   presupposes; which error is raised is decided by the first block that is refused; the final
   `assert` cannot fire for chunk tuples whose sums fit `int32`.
2. index spellings: every accepted spelling of `(r, c)` is answered like the tuple `(r, c)` (no axis
   swap), refused forms never yield a tile, a tuple longer than two is silently truncated by `[]`
   but refused by `tile_shape` / `locate`.
3. `shape_` / `roi_tiles` / `GeoboxTiles.__init__`: which tiling the rest of the model is handed.
4. `planes_yx(yx_roi)`, `WindowFromSlice`, `roi_shape`.
-/
import OdcGeo.Model.C04Args
import OdcGeo.Model.C04Spec
import OdcGeo.Lemmas.C04
import OdcGeo.Lemmas.C04Args
import OdcGeo.Props.C04
namespace OdcGeo.C04
open OdcGeo OdcGeo.C17 OdcGeo.NpArray

/-! ## 1. `_verify_shape` / `BlockAssembler.__init__` -/

/-- **`_verify_shape` succeeds exactly for fitting blocks.**  Without blocks the shape is
`(ny, nx)`; otherwise the first block has at least `axis + 2` dimensions, EVERY block (the first
included) has the shape `lead ++ [chy[iy'], chx[ix']] ++ trail` – `lead` / `trail` the extra
dimensions of the first block, `(iy', ix')` the key with negative members counted from the end –
and the result is `lead ++ [sum(chy), sum(chx)] ++ trail`. -/
theorem verifyShape_ok_iff (chy chx : List Int) (axis : Nat) (blocks : List BlockDesc) (s : List Int) :
    verifyShape chy chx axis blocks = .ok s ↔
      (blocks = [] ∧ s = [total chy, total chx]) ∨
      (∃ b0 rest, blocks = b0 :: rest ∧ axis + 2 ≤ b0.shape.length ∧
        (∀ b ∈ blocks, BlockFits chy chx (b0.shape.take axis) (b0.shape.drop (axis + 2)) b) ∧
        s = b0.shape.take axis ++ [total chy, total chx] ++ b0.shape.drop (axis + 2)) := by
  cases blocks with
  | nil =>
    rw [verifyShape_nil]
    constructor
    · intro h; cases h; exact .inl ⟨rfl, rfl⟩
    · rintro (⟨_, rfl⟩ | ⟨b0, rest, h, _⟩)
      · rfl
      · cases h
  | cons b0 rest =>
    by_cases hfew : b0.shape.length < axis + 2
    · rw [verifyShape_few _ _ _ _ _ hfew]
      constructor
      · intro h; cases h
      · rintro (⟨h, _⟩ | ⟨b0', rest', h, h2, _⟩)
        · cases h
        · cases h; omega
    · have hge : axis + 2 ≤ b0.shape.length := by omega
      obtain ⟨wl, wn⟩ := vstate_of_wf axis b0.shape hge
      rw [verifyShape_cons_eq _ _ _ _ _ hge]
      cases hr : verifyLoop chy chx axis (some (VState.of axis b0.shape)) (b0 :: rest) with
      | error e =>
        simp only []
        constructor
        · intro h; cases h
        · rintro (⟨h, _⟩ | ⟨b0', rest', h, _, hall, _⟩)
          · cases h
          · cases h
            have : verifyLoop chy chx axis (some (VState.of axis b0.shape)) (b0 :: rest) =
                .ok (some (VState.of axis b0.shape)) :=
              (verifyLoop_some_ok_iff _ _ _ _ _ _).2
                ⟨rfl, fun b hb => (checkBlock_ok_iff _ _ _ _ _ wl wn).2 (hall b hb)⟩
            rw [hr] at this; cases this
      | ok r =>
        simp only []
        have hall := ((verifyLoop_some_ok_iff _ _ _ _ _ _).1 hr).2
        constructor
        · intro h; cases h
          exact .inr ⟨b0, rest, rfl, hge,
            fun b hb => (checkBlock_ok_iff _ _ _ _ _ wl wn).1 (hall b hb), rfl⟩
        · rintro (⟨h, _⟩ | ⟨b0', rest', h, _, _, hs⟩)
          · cases h
          · cases h; rw [hs]

/-- **which error `_verify_shape` raises** (exact): there is a first block; either it has fewer than
`axis + 2` dimensions (`ValueError`), or some block is the FIRST one that does not fit – all blocks
before it fit – and the error is `IndexError` when that block has the rank and extra dimensions of
the first block but a key outside the layout (`chy[iy]` on a tuple), `ValueError` otherwise (extra
dimensions differ – tested before the key is looked at – or the `Y, X` size is wrong). -/
theorem verifyShape_error_iff (chy chx : List Int) (axis : Nat) (blocks : List BlockDesc) (e : ErrKind) :
    verifyShape chy chx axis blocks = .error e ↔
      ∃ b0 rest, blocks = b0 :: rest ∧
        ((b0.shape.length < axis + 2 ∧ e = .valueError) ∨
         (axis + 2 ≤ b0.shape.length ∧ ∃ pre b post, blocks = pre ++ b :: post ∧
            (∀ b' ∈ pre, BlockFits chy chx (b0.shape.take axis) (b0.shape.drop (axis + 2)) b') ∧
            ¬ BlockFits chy chx (b0.shape.take axis) (b0.shape.drop (axis + 2)) b ∧
            e = if SameDims axis b0 b ∧ ¬ KeyInLayout chy chx b then .indexError else .valueError)) := by
  cases blocks with
  | nil =>
    rw [verifyShape_nil]
    constructor
    · intro h; cases h
    · rintro ⟨b0, rest, h, _⟩; cases h
  | cons b0 rest =>
    by_cases hfew : b0.shape.length < axis + 2
    · rw [verifyShape_few _ _ _ _ _ hfew]
      constructor
      · intro h; cases h; exact ⟨b0, rest, rfl, .inl ⟨hfew, rfl⟩⟩
      · rintro ⟨b0', rest', h, (⟨_, rfl⟩ | ⟨h2, _⟩)⟩
        · rfl
        · cases h; omega
    · have hge : axis + 2 ≤ b0.shape.length := by omega
      obtain ⟨wl, wn⟩ := vstate_of_wf axis b0.shape hge
      have fits : ∀ b, checkBlock chy chx axis (VState.of axis b0.shape) b = .ok () ↔
          BlockFits chy chx (b0.shape.take axis) (b0.shape.drop (axis + 2)) b :=
        fun b => checkBlock_ok_iff _ _ _ _ _ wl wn
      -- the error of a refused block, in the vocabulary of the statement
      have kind : ∀ b e', checkBlock chy chx axis (VState.of axis b0.shape) b = .error e' →
          e' = if SameDims axis b0 b ∧ ¬ KeyInLayout chy chx b then .indexError else .valueError := by
        intro b e' h
        rcases (checkBlock_error_iff _ _ _ _ _ _).1 h with ⟨h1, rfl⟩ | ⟨h1, h2, rfl⟩ | ⟨_, h2, _, rfl⟩
        · rw [if_neg (fun hh => h1 hh.1)]
        · rw [if_pos ⟨h1, h2⟩]
        · rw [if_neg (fun hh => hh.2 h2)]
      rw [verifyShape_cons_eq _ _ _ _ _ hge]
      cases hr : verifyLoop chy chx axis (some (VState.of axis b0.shape)) (b0 :: rest) with
      | ok r =>
        simp only []
        have hall := ((verifyLoop_some_ok_iff _ _ _ _ _ _).1 hr).2
        constructor
        · intro h; cases h
        · rintro ⟨b0', rest', h, (⟨h2, _⟩ | ⟨_, pre, b, post, hsplit, _, hbad, _⟩)⟩
          · cases h; omega
          · cases h
            exact absurd ((fits b).1 (hall b (by rw [hsplit]; simp))) hbad
      | error e' =>
        simp only []
        obtain ⟨pre, b, post, hsplit, hpre, hb⟩ := (verifyLoop_some_error_iff _ _ _ _ _ _).1 hr
        constructor
        · intro h; cases h
          refine ⟨b0, rest, rfl, .inr ⟨hge, pre, b, post, hsplit, fun b' hb' => (fits b').1 (hpre b' hb'), ?_, kind b e hb⟩⟩
          intro hf
          rw [(fits b).2 hf] at hb; cases hb
        · rintro ⟨b0', rest', h, (⟨h2, _⟩ | ⟨_, pre', b', post', hsplit', hpre', hbad', he⟩)⟩
          · cases h; omega
          · cases h
            -- the first refused block is unique
            have hr' : verifyLoop chy chx axis (some (VState.of axis b0.shape)) (b0 :: rest) = .error e := by
              refine (verifyLoop_some_error_iff _ _ _ _ _ _).2 ⟨pre', b', post', hsplit',
                fun b'' hb'' => (fits b'').2 (hpre' b'' hb''), ?_⟩
              cases hc : checkBlock chy chx axis (VState.of axis b0.shape) b' with
              | ok u => exact absurd ((fits b').1 hc) hbad'
              | error e'' => rw [kind b' e'' hc, he]
            rw [hr] at hr'; cases hr'; rfl

/-- `_verify_shape` raises nothing but `ValueError` and `IndexError`. -/
theorem verifyShape_error_kinds (chy chx : List Int) (axis : Nat) (blocks : List BlockDesc) (e : ErrKind)
    (h : verifyShape chy chx axis blocks = .error e) : e = .valueError ∨ e = .indexError := by
  obtain ⟨b0, rest, _, (⟨_, rfl⟩ | ⟨_, pre, b, post, _, _, _, rfl⟩)⟩ := (verifyShape_error_iff _ _ _ _ _).1 h
  · exact .inl rfl
  · split
    · exact .inr rfl
    · exact .inl rfl

/-- the `Y, X` entries of the verified shape sit at `axis` (with blocks; without blocks only for
`axis = 0`, see `assert_fires_no_blocks_axis_cex`) -/
theorem verifyShape_yx (chy chx : List Int) (axis : Nat) (blocks : List BlockDesc) (s : List Int)
    (h : verifyShape chy chx axis blocks = .ok s) (hb : blocks ≠ [] ∨ axis = 0) :
    (s.drop axis).take 2 = [total chy, total chx] := by
  rcases (verifyShape_ok_iff _ _ _ _ _).1 h with ⟨rfl, rfl⟩ | ⟨b0, rest, rfl, hge, _, rfl⟩
  · rcases hb with hb | rfl
    · exact absurd rfl hb
    · rfl
  · exact (vstate_of_spliced axis _ _ _ _ (by rw [List.length_take]; omega)).2

/-- **every way `BlockAssembler(...)` can fail** (with blocks, or `axis = 0`): the errors of
`_verify_shape`, or – only after it succeeded – `AssertionError` exactly when the `int32` cumulative
sum of a chunk tuple differs from its Python sum. -/
theorem assemblerInit_error_iff (chy chx : List Int) (axis : Nat) (blocks : List BlockDesc)
    (hb : blocks ≠ [] ∨ axis = 0) (e : ErrKind) :
    assemblerInit chy chx axis blocks = .error e ↔
      verifyShape chy chx axis blocks = .error e ∨
      (e = .assertion ∧ (∃ s, verifyShape chy chx axis blocks = .ok s) ∧
        (vbase chy ≠ total chy ∨ vbase chx ≠ total chx)) := by
  unfold assemblerInit
  cases hv : verifyShape chy chx axis blocks with
  | error e' =>
    simp only [bind, Except.bind]
    constructor
    · intro h; cases h; exact .inl rfl
    · rintro (h | ⟨_, ⟨s, hs⟩, _⟩)
      · cases h; rfl
      · cases hs
  | ok s =>
    simp only [bind, Except.bind]
    rw [verifyShape_yx _ _ _ _ _ hv hb]
    by_cases hc : [vbase chy, vbase chx] = [total chy, total chx]
    · rw [if_pos hc]
      simp only [List.cons.injEq, and_true] at hc
      constructor
      · intro h; cases h
      · rintro (h | ⟨_, _, h⟩)
        · cases h
        · omega
    · rw [if_neg hc]
      simp only [List.cons.injEq, and_true] at hc
      constructor
      · intro h; cases h; exact .inr ⟨rfl, ⟨s, rfl⟩, by omega⟩
      · rintro (h | ⟨rfl, _, _⟩)
        · cases h
        · rfl

/-- **the `assert` of `__init__` never fires** for chunk tuples whose sums fit `int32`
(`ChunksOK`): the constructor then is `_verify_shape` plus the dtype flag. -/
theorem assemblerInit_of_chunksOK (chy chx : List Int) (axis : Nat) (blocks : List BlockDesc)
    (hy : ChunksOK chy) (hx : ChunksOK chx) (hb : blocks ≠ [] ∨ axis = 0) :
    assemblerInit chy chx axis blocks =
      (verifyShape chy chx axis blocks).map fun s => ⟨s, blocks.isEmpty⟩ := by
  unfold assemblerInit
  cases hv : verifyShape chy chx axis blocks with
  | error e => rfl
  | ok s =>
    simp only [bind, Except.bind, Except.map]
    rw [verifyShape_yx _ _ _ _ _ hv hb, vbase_eq_total chy hy, vbase_eq_total chx hx, if_pos rfl]

theorem assert_never_fires (chy chx : List Int) (axis : Nat) (blocks : List BlockDesc)
    (hy : ChunksOK chy) (hx : ChunksOK chx) (hb : blocks ≠ [] ∨ axis = 0) :
    assemblerInit chy chx axis blocks ≠ .error .assertion := by
  rw [assemblerInit_of_chunksOK _ _ _ _ hy hx hb]
  cases hv : verifyShape chy chx axis blocks with
  | error e =>
    intro h
    simp only [Except.map] at h
    cases h
    rcases verifyShape_error_kinds _ _ _ _ _ hv with h | h <;> cases h
  | ok s => intro h; cases h

example : ChunksOK [2, 0, 3] ∧ ChunksOK [4] ∧ (([] : List BlockDesc) ≠ [] ∨ (0 : Nat) = 0) :=
  ⟨⟨by decide, by decide⟩, ⟨by decide, by decide⟩, .inr rfl⟩

/-- the `int32` hypothesis is needed: `BlockAssembler({}, ((2**30, 2**30), (1,)))` raises
`AssertionError` (replayed on the real code by the harness, signature `verify|int32|…`). -/
theorem assert_fires_int32_cex :
    assemblerInit [1073741824, 1073741824] [1] 0 [] = .error .assertion := by decide

/-- the hypothesis `blocks ≠ [] ∨ axis = 0` is needed: an empty mapping with `axis = 1` compares
`(ny, nx)[1:3] = (nx,)` with `(ny, nx)` and raises `AssertionError` whatever the chunks are
(the real code does the same). -/
theorem assert_fires_no_blocks_axis_cex : assemblerInit [2, 3] [4] 1 [] = .error .assertion := by decide

/-- **a constructed assembler is well formed** (what `assemble_window` presupposes): the shape is
`lead ++ [sum(chy), sum(chx)] ++ trail` with `lead` / `trail` the extra axes of the first block,
`axis = len(lead)`, the dtype is derived from the blocks, `.base` of the tiling equals the Python sums,
and EVERY block has the shape `lead ++ [chy[iy'], chx[ix']] ++ trail`. -/
theorem init_ok_wellformed (chy chx : List Int) (axis : Nat) (b0 : BlockDesc) (rest : List BlockDesc)
    (info : AsmInfo) (h : assemblerInit chy chx axis (b0 :: rest) = .ok info) :
    (b0.shape.take axis).length = axis ∧
    info.shape = b0.shape.take axis ++ [total chy, total chx] ++ b0.shape.drop (axis + 2) ∧
    info.defaultDtype = false ∧ vbase chy = total chy ∧ vbase chx = total chx ∧
    ∀ b ∈ b0 :: rest, BlockFits chy chx (b0.shape.take axis) (b0.shape.drop (axis + 2)) b := by
  unfold assemblerInit at h
  cases hv : verifyShape chy chx axis (b0 :: rest) with
  | error e => rw [hv] at h; cases h
  | ok s =>
    rw [hv] at h
    simp only [bind, Except.bind] at h
    rw [verifyShape_yx _ _ _ _ _ hv (.inl (by simp))] at h
    by_cases hc : [vbase chy, vbase chx] = [total chy, total chx]
    · rw [if_pos hc] at h
      cases h
      simp only [List.cons.injEq, and_true] at hc
      rcases (verifyShape_ok_iff _ _ _ _ _).1 hv with ⟨h0, _⟩ | ⟨b0', rest', h0, hge, hall, rfl⟩
      · cases h0
      · cases h0
        exact ⟨by rw [List.length_take]; omega, rfl, rfl, hc.1, hc.2, hall⟩
    · rw [if_neg hc] at h; cases h

example : assemblerInit [2, 3] [4] 1 [⟨(0, 0), [5, 2, 4, 1]⟩, ⟨(-1, 0), [5, 3, 4, 1]⟩] =
    .ok ⟨[5, 5, 4, 1], false⟩ := by decide

/-- without blocks the constructor succeeds exactly for `axis = 0` and `int32`-summable chunks -/
theorem init_ok_no_blocks_iff (chy chx : List Int) (axis : Nat) (info : AsmInfo) :
    assemblerInit chy chx axis [] = .ok info ↔
      axis = 0 ∧ vbase chy = total chy ∧ vbase chx = total chx ∧ info = ⟨[total chy, total chx], true⟩ := by
  unfold assemblerInit
  rw [verifyShape_nil]
  simp only [bind, Except.bind, List.isEmpty_nil]
  cases axis with
  | zero =>
    simp only [List.drop_zero, List.take_succ_cons, List.take_zero, List.cons.injEq, and_true, true_and]
    by_cases hc : vbase chy = total chy ∧ vbase chx = total chx
    · rw [if_pos hc]
      constructor
      · intro h; cases h; exact ⟨hc.1, hc.2, rfl⟩
      · rintro ⟨_, _, rfl⟩; rfl
    · rw [if_neg hc]
      constructor
      · intro h; cases h
      · rintro ⟨h1, h2, _⟩; exact absurd ⟨h1, h2⟩ hc
  | succ n =>
    have : ¬ [vbase chy, vbase chx] = (([total chy, total chx] : List Int).drop (n + 1)).take 2 := by
      cases n with
      | zero => simp
      | succ m => simp
    rw [if_neg this]
    constructor
    · intro h; cases h
    · rintro ⟨h, _⟩; cases h

/-- **link to the core model**: the `.shape` a successful constructor reports is `Assembler.shape`
of the `Assembler` (Model/C04) built from the same arguments – the shape `_norm_roi` / `extractND`
pad and normalise windows against – and its `axis` is the number of leading axes. -/
theorem init_shape_eq_assembler_shape {Val : Type} (chy chx : List Int) (axis : Nat) (blocks : List BlockDesc)
    (info : AsmInfo) (blk : Int × Int → Arr Val) (h : assemblerInit chy chx axis blocks = .ok info) :
    (toAssembler chy chx axis blocks blk).shape = info.shape ∧
      (toAssembler chy chx axis blocks blk).lead.length = axis := by
  cases blocks with
  | nil =>
    obtain ⟨rfl, _, _, rfl⟩ := (init_ok_no_blocks_iff _ _ _ _).1 h
    exact ⟨rfl, rfl⟩
  | cons b0 rest =>
    obtain ⟨hl, hs, _⟩ := init_ok_wellformed _ _ _ _ _ _ h
    exact ⟨by rw [hs]; rfl, hl⟩

/-! ## 2. index spellings -/

/-- **one index, six spellings**: `iyx_(r, c)`, `ixy_(c, r)`, the tuple `(r, c)` through `iyx_`, the
tuple `(c, r)` through `ixy_`, `Index2d(x=c, y=r)` and `XY(x=c, y=r)` through either all are the
index with row `r` and column `c` – no spelling swaps the axes. -/
theorem index_spellings_agree (r c : Int) :
    ixy2 c r = iyx2 r c ∧
    iyx (.tuple [.idx r, .idx c]) = .ok (iyx2 r c) ∧ ixy (.tuple [.idx c, .idx r]) = .ok (iyx2 r c) ∧
    iyx (.index2d c r) = .ok (iyx2 r c) ∧ ixy (.index2d c r) = .ok (iyx2 r c) ∧
    iyx (.xy c r) = .ok (iyx2 r c) ∧ ixy (.xy c r) = .ok (iyx2 r c) ∧
    (iyx2 r c).y = .idx r ∧ (iyx2 r c).x = .idx c :=
  ⟨rfl, rfl, rfl, rfl, rfl, rfl, rfl, rfl, rfl⟩

/-- `iyx_` / `ixy_` refuse exactly: anything that is not a tuple / `Index2d` / `XY`, and tuples whose
length is not two – always with `ValueError`. -/
theorem iyx_error_iff (a : IdxArg) (e : ErrKind) :
    iyx a = .error e ↔ e = .valueError ∧ (a = .other ∨ ∃ l, a = .tuple l ∧ l.length ≠ 2) := by
  cases a with
  | other => simp [iyx]; exact eq_comm
  | index2d x y => simp [iyx]
  | xy x y => simp [iyx]
  | tuple l =>
    match l with
    | [] => simp [iyx]; exact eq_comm
    | [_] => simp [iyx]; exact eq_comm
    | [_, _] => simp [iyx]
    | _ :: _ :: _ :: _ => simp [iyx]; exact eq_comm

theorem ixy_error_iff (a : IdxArg) (e : ErrKind) :
    ixy a = .error e ↔ e = .valueError ∧ (a = .other ∨ ∃ l, a = .tuple l ∧ l.length ≠ 2) := by
  cases a with
  | other => simp [ixy]; exact eq_comm
  | index2d x y => simp [ixy]
  | xy x y => simp [ixy]
  | tuple l =>
    match l with
    | [] => simp [ixy]; exact eq_comm
    | [_] => simp [ixy]; exact eq_comm
    | [_, _] => simp [ixy]
    | _ :: _ :: _ :: _ => simp [ixy]; exact eq_comm

/-- **`tiles[idx]` – every accepted spelling of `(r, c)` is the tuple spelling**, for every tiling
(regular or variable, rows and columns different): `Index2d` / `XY` (however constructed) are looked
up as row `y`, column `x`. -/
theorem getItemArg_spellings (t : Tiling2) (r c : Int) :
    getItemArg t (.tuple [.idx r, .idx c]) = getItem2 t (.idx r) (.idx c) ∧
    getItemArg t (.index2d c r) = getItem2 t (.idx r) (.idx c) ∧
    getItemArg t (.xy c r) = getItem2 t (.idx r) (.idx c) :=
  ⟨rfl, rfl, rfl⟩

/-- a 2-tuple of ints / slices is the pair of per-axis lookups of the core model -/
theorem getItemArg_pair (t : Tiling2) (iy ix : PIdx) :
    getItemArg t (.tuple [iy, ix]) = getItem2 t iy ix := rfl

/-- **refused forms never yield a tile**: a list / bare int / slice / `None`, the empty tuple and a
1-tuple are never answered with a region; the first two raise `ValueError`, the 1-tuple raises the
row's `IndexError` if the row is out of range and `ValueError` (unpacking) otherwise. -/
theorem getItemArg_rejected (t : Tiling2) :
    getItemArg t .other = .error .valueError ∧ getItemArg t (.tuple []) = .error .valueError ∧
    ∀ iy, (∀ s, getItemArg t (.tuple [iy]) ≠ .ok s) ∧
      (getItemArg t (.tuple [iy]) = .error .valueError ↔ (∃ s, t.y.getItem iy = .ok s) ∨
        t.y.getItem iy = .error .valueError) := by
  refine ⟨rfl, rfl, fun iy => ?_⟩
  have e1 : getItemArg t (.tuple [iy]) =
      (match t.y.getItem iy with | .ok _ => .error .valueError | .error e => .error e) := by
    simp only [getItemArg, bind, Except.bind]
    cases t.y.getItem iy <;> rfl
  rw [e1]
  cases h : t.y.getItem iy with
  | error e =>
    refine ⟨fun s hs => (by cases hs), ?_⟩
    constructor
    · intro h'; cases h'; exact Or.inr rfl
    · rintro (⟨s, hs⟩ | h')
      · cases hs
      · cases h'; rfl
  | ok s =>
    exact ⟨fun s' hs => (by cases hs), fun _ => Or.inl ⟨s, rfl⟩, fun _ => rfl⟩

/-- **a tuple longer than two is silently truncated by `[]`**: `roi_normalise` zips the index with
the 2-D shape, so members beyond the second are never looked at (not even validated) … -/
theorem getItemArg_long_tuple_truncated (t : Tiling2) (iy ix extra : PIdx) (more : List PIdx) :
    getItemArg t (.tuple (iy :: ix :: extra :: more)) = getItem2 t iy ix := rfl

/-- … while `tile_shape` / `locate` (which unpack through `iyx_`) refuse the same index:
`Tiles((10, 7), (3, 2))[1, 0, 99]` is tile `(1, 0)`, `tile_shape((1, 0, 99))` is a `ValueError`
(both replayed on the real code by the harness, signature `spelling|tuple3|…`). -/
theorem long_tuple_inconsistent_cex :
    getItemArg ⟨.reg 10 3, .reg 7 2⟩ (.tuple [.idx 1, .idx 0, .idx 99]) = .ok (⟨3, 6⟩, ⟨0, 2⟩) ∧
    tileShapeArg ⟨.reg 10 3, .reg 7 2⟩ (.tuple [.idx 1, .idx 0, .idx 99]) = .error (.std .valueError) ∧
    locateArg ⟨.reg 10 3, .reg 7 2⟩ (.tuple [.idx 1, .idx 0, .idx 99]) = .error (.std .valueError) := by
  decide

theorem liftA_zip2 {α : Type} (a b : Res α) :
    liftA (zip2 a b) = (do let x ← liftA a; let y ← liftA b; return (x, y) : ResA (α × α)) := by
  cases a <;> cases b <;> rfl

/-- **`tile_shape(idx)` / `locate(pix)` – every accepted spelling of `(r, c)` is the core lookup**
`tileShape2` / `locate2` at row `r`, column `c`. -/
theorem tileShapeArg_spellings (t : Tiling2) (r c : Int) :
    tileShapeArg t (.tuple [.idx r, .idx c]) = liftA (tileShape2 t r c) ∧
    tileShapeArg t (.index2d c r) = liftA (tileShape2 t r c) ∧
    tileShapeArg t (.xy c r) = liftA (tileShape2 t r c) := by
  have h : ∀ a, iyx a = .ok (iyx2 r c) → tileShapeArg t a = liftA (tileShape2 t r c) := by
    intro a ha
    rw [tileShape2, liftA_zip2]
    simp only [tileShapeArg, ha, liftA, iyx2, tileShapeP, bind, Except.bind]
  exact ⟨h _ rfl, h _ rfl, h _ rfl⟩

theorem locateArg_spellings (t : Tiling2) (py px : Int) :
    locateArg t (.tuple [.idx py, .idx px]) = liftA (locate2 t py px) ∧
    locateArg t (.index2d px py) = liftA (locate2 t py px) ∧
    locateArg t (.xy px py) = liftA (locate2 t py px) := by
  have h : ∀ a, iyx a = .ok (iyx2 py px) → locateArg t a = liftA (locate2 t py px) := by
    intro a ha
    rw [locate2, liftA_zip2]
    simp only [locateArg, ha, liftA, iyx2, locateP, bind, Except.bind]
  exact ⟨h _ rfl, h _ rfl, h _ rfl⟩

/-- `tile_shape` / `locate` refuse (with `ValueError`, before anything is looked up) exactly the
forms `iyx_` refuses – including every tuple that is not a pair. -/
theorem tileShapeArg_rejected (t : Tiling2) (a : IdxArg)
    (h : a = .other ∨ ∃ l, a = .tuple l ∧ l.length ≠ 2) :
    tileShapeArg t a = .error (.std .valueError) ∧ locateArg t a = .error (.std .valueError) := by
  have := (iyx_error_iff a .valueError).2 ⟨rfl, h⟩
  simp [tileShapeArg, locateArg, this, liftA, bind, Except.bind]

example : (IdxArg.tuple [.idx 1]) = .other ∨ ∃ l, IdxArg.tuple [.idx 1] = .tuple l ∧ l.length ≠ 2 :=
  .inr ⟨_, rfl, by decide⟩

/-- a slice where `tile_shape` / `locate` expect an int is a `TypeError` (row first) -/
theorem tileShapeArg_slice_row (t : Tiling2) (a b : Option Int) (ix : PIdx) :
    tileShapeArg t (.tuple [.slc a b, ix]) = .error .typeError ∧
    locateArg t (.tuple [.slc a b, ix]) = .error .typeError := ⟨rfl, rfl⟩

/-- **`GeoboxTiles[idx]`, `chunk_shape(idx)`, `pix_bbox(idx)` – every accepted spelling of `(r, c)`**
gives the tile GeoBox / shape / pixel box of the tuple spelling: with `gbt_tile_is_crop`
(Props/C04) tile `(r, c)` of the parent, never `(c, r)`. -/
theorem gbt_spellings (g : GeoboxTiles) (r c : Int) :
    (g.getItemArg (.tuple [.idx r, .idx c]) = g.getItem (.idx r) (.idx c) ∧
     g.getItemArg (.index2d c r) = g.getItem (.idx r) (.idx c) ∧
     g.getItemArg (.xy c r) = g.getItem (.idx r) (.idx c)) ∧
    (g.pixBBox (.index2d c r) = g.pixBBox (.tuple [.idx r, .idx c]) ∧
     g.pixBBox (.xy c r) = g.pixBBox (.tuple [.idx r, .idx c])) ∧
    (g.chunkShape (.tuple [.idx r, .idx c]) = liftA (tileShape2 g.tiles r c) ∧
     g.chunkShape (.index2d c r) = liftA (tileShape2 g.tiles r c) ∧
     g.chunkShape (.xy c r) = liftA (tileShape2 g.tiles r c)) :=
  ⟨⟨rfl, rfl, rfl⟩, ⟨rfl, rfl⟩, tileShapeArg_spellings g.tiles r c⟩

/-- `pix_bbox` is the region of `[]` in `(left, bottom, right, top) = (x0, y0, x1, y1)` order -/
theorem pixBBox_eq_region (g : GeoboxTiles) (a : IdxArg) (ry rx : NSlice)
    (h : getItemArg g.tiles a = .ok (ry, rx)) :
    g.pixBBox a = .ok (rx.start, ry.start, rx.stop, ry.stop) := by
  simp only [GeoboxTiles.pixBBox, h, bind, Except.bind]
  rfl

example : getItemArg ⟨.reg 10 3, .reg 7 2⟩ (.xy 0 1) = .ok (⟨3, 6⟩, ⟨0, 2⟩) := by decide

/-! ## 3. `shape_`, `roi_tiles`, `GeoboxTiles.__init__` -/

/-- every spelling of the shape `(ny, nx)` – `Shape2d(x=nx, y=ny)`, `XY(x=nx, y=ny)`, the sequence
`(ny, nx)` – is `(ny, nx)`: rows first, never swapped. -/
theorem shapeOf_spellings (ny nx : Int) :
    shapeOf (.shape2d nx ny) = .ok (ny, nx) ∧ shapeOf (.xy nx ny) = .ok (ny, nx) ∧
    shapeOf (.seq [ny, nx]) = .ok (ny, nx) := ⟨rfl, rfl, rfl⟩

theorem shapeOf_error_iff (s : ShapeArg) (e : ErrKind) :
    shapeOf s = .error e ↔ e = .valueError ∧ (s = .other ∨ ∃ l, s = .seq l ∧ l.length ≠ 2) := by
  cases s with
  | other => simp [shapeOf]; exact eq_comm
  | shape2d x y => simp [shapeOf]
  | xy x y => simp [shapeOf]
  | seq l =>
    match l with
    | [] => simp [shapeOf]; exact eq_comm
    | [_] => simp [shapeOf]; exact eq_comm
    | [_, _] => simp [shapeOf]
    | _ :: _ :: _ :: _ => simp [shapeOf]; exact eq_comm

/-- **the regular dispatch hands the core model the tiling it assumes**: for every spelling of the
image shape `(Ny, Nx)` and of the tile shape `(ny, nx)` (non-zero; negative sizes are accepted by the
code as they are by this theorem) `roi_tiles` is `Tiles` with `Tiling.reg Ny ny` on the rows and
`Tiling.reg Nx nx` on the columns – `y` / `x` never exchanged. -/
theorem roiTiles_regular (s h : ShapeArg) (Ny Nx ny nx : Int)
    (hs : shapeOf s = .ok (Ny, Nx)) (hh : shapeOf h = .ok (ny, nx)) (hy : ny ≠ 0) (hx : nx ≠ 0) :
    roiTiles s (.shape h) = .ok ⟨.reg Ny ny, .reg Nx nx⟩ := by
  have e1 : roiTiles s (.shape h) = mkTiles s h := by
    cases h with
    | seq l => cases l with
      | nil => simp [shapeOf] at hh
      | cons a l => rfl
    | _ => rfl
  rw [e1]
  simp only [mkTiles, hs, hh, mkCount, if_neg hy, if_neg hx, bind, Except.bind]
  rfl

example : shapeOf (.xy 7 10) = .ok (10, 7) ∧ shapeOf (.seq [3, 2]) = .ok (3, 2) ∧ (3 : Int) ≠ 0 ∧ (2 : Int) ≠ 0 :=
  ⟨rfl, rfl, by decide, by decide⟩

/-- **the chunk form ignores `shape`**: whatever is passed as the image shape (even something
`shape_` would refuse) the result is `VariableSizedTiles((y, x))` – rows from the first chunk tuple. -/
theorem roiTiles_variable_ignores_shape (s : ShapeArg) (y x : List Int) :
    roiTiles s (.chunks y [x]) = .ok ⟨.var y, .var x⟩ := rfl

/-- **every way `roi_tiles` can fail** (exact): `IndexError` for the empty tuple / list (`how[0]`);
`ZeroDivisionError` for a zero tile size (both shapes understood); `ValueError` for a sequence of
chunk tuples that is not a pair, or a shape / tile shape `shape_` refuses. -/
theorem roiTiles_error_iff (s : ShapeArg) (how : HowArg) (e : ErrKind) :
    roiTiles s how = .error e ↔
      (how = .shape (.seq []) ∧ e = .indexError) ∨
      (∃ c0 rest, how = .chunks c0 rest ∧ rest.length ≠ 1 ∧ e = .valueError) ∨
      (∃ h, how = .shape h ∧ h ≠ .seq [] ∧
        (((∃ e', shapeOf h = .error e') ∨ (∃ e', shapeOf s = .error e')) ∧ e = .valueError ∨
         (∃ Ny Nx ny nx, shapeOf s = .ok (Ny, Nx) ∧ shapeOf h = .ok (ny, nx) ∧ (ny = 0 ∨ nx = 0) ∧
           e = .zeroDiv))) := by
  cases how with
  | chunks c0 rest =>
    match rest with
    | [] => simp [roiTiles]; exact eq_comm
    | [x] => simp [roiTiles]
    | _ :: _ :: _ => simp [roiTiles]; exact eq_comm
  | shape h =>
    by_cases he : h = .seq []
    · subst he
      simp [roiTiles]; exact eq_comm
    · have e1 : roiTiles s (.shape h) = mkTiles s h := by
        cases h with
        | seq l => cases l with
          | nil => exact absurd rfl he
          | cons a l => rfl
        | _ => rfl
      rw [e1]
      simp only [HowArg.shape.injEq, reduceCtorEq, false_and, exists_false, false_or,
        exists_eq_left', ne_eq, he, not_false_eq_true, true_and]
      cases hh : shapeOf h with
      | error eh =>
        have := ((shapeOf_error_iff h eh).1 hh).1; subst this
        simp only [mkTiles, hh, bind, Except.bind]
        constructor
        · intro h'; cases h'; exact .inl ⟨.inl ⟨_, rfl⟩, rfl⟩
        · rintro (⟨_, rfl⟩ | ⟨_, _, _, _, _, h', _⟩)
          · rfl
          · cases h'
      | ok p =>
        obtain ⟨ny, nx⟩ := p
        cases hs : shapeOf s with
        | error es =>
          have := ((shapeOf_error_iff s es).1 hs).1; subst this
          simp only [mkTiles, hh, hs, bind, Except.bind]
          constructor
          · intro h'; cases h'; exact .inl ⟨.inr ⟨_, rfl⟩, rfl⟩
          · rintro (⟨_, rfl⟩ | ⟨_, _, _, _, h', _⟩)
            · rfl
            · cases h'
        | ok q =>
          obtain ⟨Ny, Nx⟩ := q
          simp only [mkTiles, hh, hs, mkCount, bind, Except.bind]
          by_cases hy : ny = 0
          · rw [if_pos hy]
            constructor
            · intro h'; cases h'; exact .inr ⟨Ny, Nx, ny, nx, rfl, rfl, .inl hy, rfl⟩
            · rintro (⟨(⟨_, h'⟩ | ⟨_, h'⟩), _⟩ | ⟨_, _, _, _, _, _, _, rfl⟩)
              · cases h'
              · cases h'
              · rfl
          · rw [if_neg hy]
            by_cases hx : nx = 0
            · rw [if_pos hx]
              constructor
              · intro h'; cases h'; exact .inr ⟨Ny, Nx, ny, nx, rfl, rfl, .inr hx, rfl⟩
              · rintro (⟨(⟨_, h'⟩ | ⟨_, h'⟩), _⟩ | ⟨_, _, _, _, _, _, _, rfl⟩)
                · cases h'
                · cases h'
                · rfl
            · rw [if_neg hx]
              constructor
              · intro h'; cases h'
              · rintro (⟨(⟨_, h'⟩ | ⟨_, h'⟩), _⟩ | ⟨_, _, ny', nx', _, h2, h3, _⟩)
                · cases h'
                · cases h'
                · cases h2; omega

/-- a given `_tiles` is used as is, whatever `tile_shape` says (`_crop` passes `(0, 0)`, `clip` `None`) -/
theorem gbtInit_given (box : GBox) (how : Option HowArg) (t : Tiling2) :
    gbtInit box how (some t) = .ok ⟨box, t⟩ := rfl

/-- **a regular `GeoboxTiles` always tiles exactly its GeoBox**: the base of the tiling is the
GeoBox shape, rows / columns in place. -/
theorem gbtInit_regular_base (box : GBox) (h : ShapeArg) (g : GeoboxTiles)
    (hg : gbtInit box (some (.shape h)) none = .ok g) :
    g.base = box ∧ ∃ ny nx, shapeOf h = .ok (ny, nx) ∧ g.tiles = ⟨.reg box.ny ny, .reg box.nx nx⟩ ∧
      g.tiles.y.base = box.ny ∧ g.tiles.x.base = box.nx := by
  simp only [gbtInit, bind, Except.bind] at hg
  cases hr : roiTiles (.shape2d box.nx box.ny) (.shape h) with
  | error e => rw [hr] at hg; cases hg
  | ok t =>
    rw [hr] at hg
    cases hg
    refine ⟨rfl, ?_⟩
    cases hh : shapeOf h with
    | error e =>
      have hne : h ≠ .seq [] ∨ h = .seq [] := by by_cases hc : h = .seq [] <;> simp [hc]
      rcases hne with hne | rfl
      · have := (roiTiles_error_iff (.shape2d box.nx box.ny) (.shape h) .valueError).2
          (.inr (.inr ⟨h, rfl, hne, .inl ⟨.inl ⟨e, hh⟩, rfl⟩⟩))
        rw [hr] at this; cases this
      · simp [roiTiles] at hr
    | ok p =>
      obtain ⟨ny, nx⟩ := p
      by_cases hz : ny = 0 ∨ nx = 0
      · have hne : h ≠ .seq [] := by rintro rfl; simp [shapeOf] at hh
        have := (roiTiles_error_iff (.shape2d box.nx box.ny) (.shape h) .zeroDiv).2
          (.inr (.inr ⟨h, rfl, hne, .inr ⟨box.ny, box.nx, ny, nx, rfl, hh, hz, rfl⟩⟩))
        rw [hr] at this; cases this
      · have := roiTiles_regular (.shape2d box.nx box.ny) h box.ny box.nx ny nx rfl hh (by omega) (by omega)
        rw [hr] at this; cases this
        exact ⟨ny, nx, rfl, rfl, rfl, rfl⟩

example : gbtInit ⟨10, 7, Aff.translation 0 0⟩ (some (.shape (.seq [3, 2]))) none =
    .ok ⟨⟨10, 7, Aff.translation 0 0⟩, ⟨.reg 10 3, .reg 7 2⟩⟩ := rfl

/-- **a variable `GeoboxTiles` is NOT tied to its GeoBox**: the chunk tuples are taken as they are
(`box.shape` is never consulted), so the tiling covers the GeoBox exactly iff the (`int32`) chunk
sums happen to equal its shape. -/
theorem gbtInit_variable_covers_iff (box : GBox) (chy chx : List Int) :
    gbtInit box (some (.chunks chy [chx])) none = .ok ⟨box, ⟨.var chy, .var chx⟩⟩ ∧
    (((⟨.var chy, .var chx⟩ : Tiling2).y.base = box.ny ∧ (⟨.var chy, .var chx⟩ : Tiling2).x.base = box.nx) ↔
      vbase chy = box.ny ∧ vbase chx = box.nx) := ⟨rfl, Iff.rfl⟩

/-- … and when they do not, nothing is raised: `GeoboxTiles(GeoBox((4, 7), …), ((3, 3), (2, 9)))`
constructs, and tile `(1, 1)` is the pixel region `3:6, 2:11` – outside the 4 x 7 GeoBox it claims to
partition (replayed on the real code by the harness, signature `gbt-init|c|ok`). -/
theorem gbt_variable_exceeds_geobox_cex :
    (∀ box, gbtInit box (some (.chunks [3, 3] [[2, 9]])) none = .ok ⟨box, ⟨.var [3, 3], .var [2, 9]⟩⟩) ∧
    getItemArg ⟨.var [3, 3], .var [2, 9]⟩ (.tuple [.idx 1, .idx 1]) = .ok (⟨3, 6⟩, ⟨2, 11⟩) ∧
    ¬ ((6 : Int) ≤ 4) ∧ ¬ ((11 : Int) ≤ 7) := by
  refine ⟨fun _ => rfl, by decide, by decide, by decide⟩

/-! ## 4. `planes_yx(yx_roi)`, `WindowFromSlice`, `roi_shape` -/

theorem splicePlanes_erase (lead trail : List Nat) (a b : PIdx) :
    (splicePlanes lead trail [.win a, .win b]).map (·.map eraseWin) = planesYX lead trail := by
  simp only [splicePlanes, planesYX, List.map_map]
  apply List.map_congr_left
  intro idx _
  simp [eraseWin, Function.comp_def]

/-- `planes_yx(yx_roi)` raises exactly for a `yx_roi` that is not a pair (`ValueError`, unpacking) -/
theorem planesYXWith_error_iff (lead trail : List Nat) (yx : Option (List PIdx)) (e : ErrKind) :
    planesYXWith lead trail yx = .error e ↔ e = .valueError ∧ ∃ l, yx = some l ∧ l.length ≠ 2 := by
  cases yx with
  | none => simp [planesYXWith]
  | some l =>
    match l with
    | [] => simp [planesYXWith]; exact eq_comm
    | [_] => simp [planesYXWith]; exact eq_comm
    | [_, _] => simp [planesYXWith]
    | _ :: _ :: _ :: _ => simp [planesYXWith]; exact eq_comm

/-- **`planes_yx` with a given `Y, X` window is still one-to-one**: forgetting the window gives
exactly the planes of `planes_yx()` (`planesYX`, one per index vector of the other axes:
`planesYX_mem`), so no plane is produced twice (`planesYX_nodup`); and every plane carries the given
pair – not `:` – at positions `axis`, `axis + 1`. -/
theorem planesYXWith_spec (lead trail : List Nat) (yx : Option (List PIdx)) (ps : List (List PlaneEl))
    (h : planesYXWith lead trail yx = .ok ps) :
    ps.map (·.map eraseWin) = planesYX lead trail ∧ ps.Nodup ∧
    ∀ p ∈ ps, p.length = lead.length + 2 + trail.length ∧
      match yx with
      | none => p[lead.length]? = some (.win (.slc none none)) ∧ p[lead.length + 1]? = some (.win (.slc none none))
      | some l => p[lead.length]? = (l[0]?).map .win ∧ p[lead.length + 1]? = (l[1]?).map .win := by
  have key : ∀ a b, ps = splicePlanes lead trail [.win a, .win b] →
      ps.map (·.map eraseWin) = planesYX lead trail ∧ ps.Nodup ∧
      ∀ p ∈ ps, p.length = lead.length + 2 + trail.length ∧
        p[lead.length]? = some (.win a) ∧ p[lead.length + 1]? = some (.win b) := by
    intro a b hps
    have he := splicePlanes_erase lead trail a b
    rw [← hps] at he
    refine ⟨he, ?_, ?_⟩
    · have := planesYX_nodup lead trail
      rw [← he] at this
      exact List.Nodup.of_map _ this
    · intro p hp
      rw [hps] at hp
      obtain ⟨idx, hidx, rfl⟩ := List.mem_map.1 hp
      have hl := ndindex_length _ _ hidx
      simp only [List.length_append] at hl
      have l1 : ((idx.take lead.length).map PlaneEl.ax).length = lead.length := by simp; omega
      refine ⟨by simp; omega, ?_, ?_⟩
      · rw [List.append_assoc, List.getElem?_append_right (by omega), l1]; simp
      · rw [List.append_assoc, List.getElem?_append_right (by omega), l1]; simp
  cases yx with
  | none =>
    simp only [planesYXWith] at h; cases h
    exact key _ _ rfl
  | some l =>
    match l, h with
    | [ry, rx], h =>
      simp only [planesYXWith] at h; cases h
      exact key _ _ rfl

example : planesYXWith [2] [3] (some [.slc (some 0) (some 1), .idx 1]) =
    .ok (splicePlanes [2] [3] [.win (.slc (some 0) (some 1)), .win (.idx 1)]) := rfl

/-- **`w_[roi]` of a normalised pair is the rasterio window of the same extent**: the window rows /
columns are `(start, stop)` of the slices, and `stop - start` is what `roi_shape` reports. -/
theorem window_of_normalised (sy sx : NSlice) :
    windowFromSlice (.seq [sy.toPIdx, sx.toPIdx]) =
      .ok (some ((sy.start, some sy.stop), (sx.start, some sx.stop))) ∧
    roiShape (.tuple [sy.toPIdx, sx.toPIdx]) = .ok [sy.stop - sy.start, sx.stop - sx.start] :=
  ⟨rfl, rfl⟩

/-- `w_[…]`: `None` passes through; an open start is `0`, an open stop stays `None`; anything that
is not a 2-sequence is a `ValueError`; an int member has no `.start` (`AttributeError`). -/
theorem windowFromSlice_cases (a b c d : Option Int) (i : Int) (p : PIdx) :
    windowFromSlice .none = .ok none ∧ windowFromSlice .other = .error (.std .valueError) ∧
    windowFromSlice (.seq [.slc a b, .slc c d]) = .ok (some ((a.getD 0, b), (c.getD 0, d))) ∧
    windowFromSlice (.seq [.idx i, p]) = .error .attributeError ∧
    windowFromSlice (.seq [.slc a b, .idx i]) = .error .attributeError ∧
    (∀ l : List PIdx, l.length ≠ 2 → windowFromSlice (.seq l) = .error (.std .valueError)) := by
  refine ⟨rfl, rfl, ?_, rfl, rfl, ?_⟩
  · cases a <;> cases c <;> rfl
  · intro l hl
    match l, hl with
    | [], _ => rfl
    | [_], _ => rfl
    | [_, _], hl => exact absurd rfl hl
    | _ :: _ :: _ :: _, _ => rfl

/-! ## 1 + core: from the constructor to the mosaic -/

/-- **a successfully constructed `BlockAssembler` reassembles the mosaic.**  If `BlockAssembler(blocks,
(chy, chx), axis)` succeeds, the chunk sums fit `int32` and the keys are written with non-negative
members, then the hypotheses of `assemble_window_two_tuple` (Props/C04) hold for the assembler it
is – every key addresses a tile (`KeyOK`), `.shape` is `Assembler.shape` – and therefore
`assembler[ry, rx]` returns, for every window, the block cell of the tile owning each mosaic pixel,
else the fill value.  (Keys with a negative member are accepted by the constructor as well –
`init_ok_wellformed` – and name the tile counted from the end; two keys may then name one tile.) -/
theorem init_assemble_window {Val : Type} (chy chx : List Int) (axis : Nat) (blocks : List BlockDesc)
    (info : AsmInfo) (blk : Int × Int → Arr Val)
    (h : assemblerInit chy chx axis blocks = .ok info)
    (hy : ChunksOK chy) (hx : ChunksOK chx)
    (hkeys : ∀ b ∈ blocks, 0 ≤ b.key.1 ∧ 0 ≤ b.key.2)
    (hdims : ∀ b ∈ blocks, ∀ n ∈ b.shape, 0 ≤ n)
    (fill : Val) (ry rx : PIdx)
    (hwy : 0 ≤ (normSlice ry (total chy)).start ∧ (normSlice ry (total chy)).start ≤ (normSlice ry (total chy)).stop)
    (hwx : 0 ≤ (normSlice rx (total chx)).start ∧ (normSlice rx (total chx)).start ≤ (normSlice rx (total chx)).stop) :
    let a := toAssembler chy chx axis blocks blk
    let wy := normSlice ry (total chy)
    let wx := normSlice rx (total chx)
    let wl := ((a.lead.map fullIdx).zip a.lead).map fun p => normSlice p.1 p.2
    let wt := ((a.trail.map fullIdx).zip a.trail).map fun p => normSlice p.1 p.2
    a.shape = info.shape ∧ (∀ k ∈ a.present, KeyOK a k) ∧
    ∃ arr, extractND a fill (.tuple [ry, rx]) =
        .ok (a.lead ++ [wy.stop - wy.start, wx.stop - wx.start] ++ a.trail,
             (a.lead, wy.stop - wy.start, wx.stop - wx.start, a.trail), arr) ∧
      ∀ l y x t, InBox l a.lead → (0 ≤ y ∧ y < wy.stop - wy.start) →
        (0 ≤ x ∧ x < wx.stop - wx.start) → InBox t a.trail →
        (∀ k ∈ a.present, Owns a k (wy.start + y) (wx.start + x) →
          arr l y x t = a.blk k (shift wl l) (wy.start + y - (tileReg a.chy k.1).start)
            (wx.start + x - (tileReg a.chx k.2).start) (shift wt t)) ∧
        ((∀ k ∈ a.present, ¬ Owns a k (wy.start + y) (wx.start + x)) → arr l y x t = fill) := by
  intro a wy wx wl wt
  have hshape := (init_shape_eq_assembler_shape chy chx axis blocks info blk h).1
  -- every key addresses a tile
  have hk : ∀ k ∈ a.present, KeyOK a k := by
    intro k hk
    obtain ⟨b, hb, rfl⟩ := List.mem_map.1 hk
    cases blocks with
    | nil => cases hb
    | cons b0 rest =>
      obtain ⟨_, _, _, _, _, hall⟩ := init_ok_wellformed _ _ _ _ _ _ h
      obtain ⟨⟨ky, kx⟩, _⟩ := hall b hb
      obtain ⟨p1, p2⟩ := hkeys b hb
      simp only [wrapKey, if_neg (not_lt.2 p1), if_neg (not_lt.2 p2)] at ky kx
      exact ⟨ky, kx⟩
  -- numpy shapes are non-negative
  have hlead : ∀ n ∈ a.lead, 0 ≤ n := by
    cases blocks with
    | nil => intro n hn; cases hn
    | cons b0 rest => exact fun n hn => hdims b0 (by simp) n (List.mem_of_mem_take hn)
  have htrail : ∀ n ∈ a.trail, 0 ≤ n := by
    cases blocks with
    | nil => intro n hn; cases hn
    | cons b0 rest => exact fun n hn => hdims b0 (by simp) n (List.mem_of_mem_drop hn)
  exact ⟨hshape, hk, assemble_window_two_tuple a hy hx hk hlead htrail fill ry rx hwy hwx⟩

example : assemblerInit [2, 3] [4] 0 [⟨(1, 0), [3, 4, 2]⟩] = .ok ⟨[5, 4, 2], false⟩ ∧
    ChunksOK [2, 3] ∧ ChunksOK [4] := ⟨by decide, ⟨by decide, by decide⟩, ⟨by decide, by decide⟩⟩

end OdcGeo.C04
