/-
C10 ∘ C03 ∘ C02 — the paste contract for read-shrink `k > 1`, END TO END from the two `GeoBox`es through the public
`compute_reproject_roi` (model `C03.computeReprojectRoi`) and C02's model of `GeoBox.zoom_out`.

The consumer of a `paste_ok` plan with `read_shrink = k > 1` reads the `k`-fold overview of the source, i.e. the raster
whose grid is `src.zoom_out(k)`.  This file shows that pasting the planned overview block equals the nearest-neighbour
warp of the WHOLE overview image, where "the overview image" is C02's zoomed-out GeoBox (shape and affine) and the warp's
transform is destination pixel → world (destination grid) → overview pixel (inverse of the zoomed-out grid) — no named
intermediate transform is left.
-/
import OdcGeo.Props.C10C03
import OdcGeo.Props.C03C02
namespace OdcGeo.C10
open OdcGeo.C17 OdcGeo.C03

/-- two affine maps that agree on every point are equal -/
theorem aff_ext_apply (A B : Aff) (h : ∀ q, A.apply q = B.apply q) : A = B := by
  have h0 := h (0, 0)
  have h1 := h (1, 0)
  have h2 := h (0, 1)
  simp only [Aff.apply, Prod.mk.injEq, mul_zero, mul_one, add_zero, zero_add] at h0 h1 h2
  obtain ⟨a, b, c, d, e, f⟩ := A
  obtain ⟨a', b', c', d', e', f'⟩ := B
  simp only at h0 h1 h2
  obtain ⟨hc, hf⟩ := h0
  obtain ⟨ha, hd⟩ := h1
  obtain ⟨hb, he⟩ := h2
  subst hc hf
  congr 1 <;> linarith

/-- **Paste = nearest-neighbour warp of the overview, for every read-shrink `k > 1`, from the arguments.**
Two `GeoBox`es of one CRS; the plan reports `paste_ok` with `read_shrink = k ≠ 1`.  Then `src.zoom_out(k)` (C02) exists,
the planned source region is `k` times a region `r'` of that overview, and — under the half-pixel budget stated for the
true destination → overview pixel transform `B = ~(S · scale(k)) · D` — filling the planned destination region from the
overview block `r'` (reversed on mirrored axes), nodata elsewhere, equals the nearest-neighbour warp of the whole
overview image under `B`, pixel for pixel, for every pixel type. -/
theorem paste_overview_end_to_end {α : Type} (ov : Int → Int → α) (nodata : α) (src dst : Side) (crs : Nat)
    (projF projB : Proj) (n : Rat) (scaleAt : Rat × Rat → Rat × Rat) (ttol stol : Rat) (padding align : Option Int)
    (p : Plan) (hs : src.isGeoBox = true) (hdg : dst.isGeoBox = true)
    (h : computeReprojectRoi src dst true projF projB n scaleAt ttol stol padding align = .ok p)
    (hp : p.pasteOk = true) (hrs : p.readShrink ≠ 1) (hstol : stol ≤ 1 / 2) (hd : 0 ≤ dst.shape.1 ∧ 0 ≤ dst.shape.2)
    (hbx : rabs (rabs ((src.aff * Aff.scale p.readShrink p.readShrink).inv * dst.aff).a - 1) * dst.shape.2 +
           rabs ((src.aff * Aff.scale p.readShrink p.readShrink).inv * dst.aff).b * dst.shape.1 + ttol ≤ 1 / 2)
    (hby : rabs (rabs ((src.aff * Aff.scale p.readShrink p.readShrink).inv * dst.aff).e - 1) * dst.shape.1 +
           rabs ((src.aff * Aff.scale p.readShrink p.readShrink).inv * dst.aff).d * dst.shape.2 + ttol ≤ 1 / 2) :
    ∃ g' : C02.GeoBox, C02.zoomOut ⟨src.shape.1, src.shape.2, src.aff, crs⟩ (p.readShrink : Rat) = .ok g' ∧
      g'.A = src.aff * Aff.scale p.readShrink p.readShrink ∧
      ∃ r' : ROI, p.roiSrc = scaledUpROI r' p.readShrink ∧
        ∀ dy dx : Int, 0 ≤ dy ∧ dy < dst.shape.1 → 0 ≤ dx ∧ dx < dst.shape.2 →
          pasted ov (decide ((g'.A.inv * dst.aff).e < 0)) (decide ((g'.A.inv * dst.aff).a < 0)) r' p.roiDst nodata dy dx =
            Warp.nnWarp ov (g'.ny, g'.nx) (g'.A.inv * dst.aff) nodata dy dx := by
  rw [top_same_crs_is_core src dst projF projB n scaleAt ttol stol padding align hs hdg] at h
  obtain ⟨hS, hD, _, hl, _, _⟩ := geoboxes_ok h
  have hk : 1 ≤ p.readShrink := (plan_scale _ _ _ _ _ _ _ _ _ p hl).2.2.1
  obtain ⟨g', hz, hshape, _, happ⟩ := overview_is_zoom_out src.shape.1 src.shape.2 src.aff dst.aff crs p.readShrink hk hS hD
  have hA : g'.A = src.aff * Aff.scale p.readShrink p.readShrink := by
    have hkq : (p.readShrink : Rat) ≠ 0 := by
      have : (0 : Rat) < p.readShrink := by exact_mod_cast (by omega : (0 : Int) < p.readShrink)
      exact ne_of_gt this
    simp only [C02.zoomOut, hkq, if_false, Except.ok.injEq] at hz
    rw [← hz]
  have hB : overviewTr (dst.aff.inv * src.aff).inv p.readShrink = g'.A.inv * dst.aff := by
    apply aff_ext_apply
    intro q
    rw [Aff.apply_mul]
    exact happ q
  have hsh1 : g'.ny = zoomOutDim src.shape.1 p.readShrink := (Prod.mk.injEq _ _ _ _ ▸ hshape).1
  have hsh2 : g'.nx = zoomOutDim src.shape.2 p.readShrink := (Prod.mk.injEq _ _ _ _ ▸ hshape).2
  obtain ⟨r', hr, hall⟩ := paste_equals_nearest_overview ov nodata src.shape dst.shape _ _ n ttol stol padding align p hl hp
    hrs hstol hd (by rw [hB, hA]; exact hbx) (by rw [hB, hA]; exact hby)
  refine ⟨g', hz, hA, r', hr, fun dy dx hdy hdx => ?_⟩
  have := hall dy dx hdy hdx
  rw [hB] at this
  rw [hsh1, hsh2]
  exact this

-- non-vacuity: an 8x8 source, a 4x4 destination with pixels twice as large, shifted by one overview pixel: paste_ok with
-- read_shrink 2, and the budget hypotheses hold (B is the exact unit transform)
example : (computeReprojectRoi ⟨true, (8, 8), ⟨1, 0, 0, 0, 1, 0⟩, false⟩ ⟨true, (4, 4), ⟨2, 0, 2, 0, 2, 2⟩, false⟩ true
    C03.idProj C03.idProj 2 (fun _ => (1, 1)) (1 / 20) tol1em3 none none).toOption.map
      (fun p => (p.roiSrc, p.roiDst, p.pasteOk, p.readShrink)) = some ((⟨2, 8⟩, ⟨2, 8⟩), (⟨0, 3⟩, ⟨0, 3⟩), true, 2) := by
  decide +kernel
example : ((⟨1, 0, 0, 0, 1, 0⟩ : Aff) * Aff.scale 2 2).inv * ⟨2, 0, 2, 0, 2, 2⟩ = ⟨1, 0, 1, 0, 1, 1⟩ := by decide +kernel

end OdcGeo.C10
