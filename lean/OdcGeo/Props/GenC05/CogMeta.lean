/-
C05 — source tie, piece `CogMeta` (see OdcGeo/Props/GenC05.lean): the index arithmetic of `CogMeta` (`chunked`, `num_tiles`,
`flat_tile_idx`) against the hand model `Meta` (on `Nat`; the regenerated definitions work on Python ints, the ties are
stated for the casts of a model record with positive tile sizes — a tile size of 0 is outside the model).
-/
import OdcGeo.Gen.C05
import OdcGeo.Gen.Tie
import OdcGeo.Props.C05

namespace OdcGeo.C05
open OdcGeo.Gen

/-- the Python-int view of a modelled `CogMeta` -/
def Meta.toPy (m : Meta) : CogMetaI := ⟨m.planes, m.shape.x, m.shape.y, m.tile.x, m.tile.y⟩

theorem ceil_div_cast (N n : Nat) (h : 0 < n) :
    Int.fdiv (((N : Int) + (n : Int)) - 1) (n : Int) = (((N + n - 1) / n : Nat) : Int) := by
  rw [Py.fdiv_pos _ (by omega)]
  have e : ((N : Int) + (n : Int)) - 1 = ((N + n - 1 : Nat) : Int) := by omega
  rw [e]; exact (Int.natCast_ediv _ _).symm

/-- the same for any spelling of the numerator (`N + n - 1`, `N + (n - 1)`, …): side condition discharged by `omega` -/
theorem ceil_div_cast' (N n : Nat) (h : 0 < n) (a : Int) (ha : a = (N : Int) + (n : Int) - 1) :
    Int.fdiv a (n : Int) = (((N + n - 1) / n : Nat) : Int) := by
  rw [ha]; exact ceil_div_cast N n h

/-- `CogMeta.chunked` -/
theorem tie_cogmeta_chunked (m : Meta) (hx : 0 < m.tile.x) (hy : 0 < m.tile.y) :
    Gen.C05.cogmeta_chunked m.toPy = .ok ((m.chunked.x : Int), (m.chunked.y : Int)) := by
  have h1 : (m.tile.x : Int) ≠ 0 := by omega
  have h2 : (m.tile.y : Int) ≠ 0 := by omega
  simp (disch := omega) only [Gen.C05.cogmeta_chunked, Meta.toPy, Meta.chunked, if_neg h1, if_neg h2,
    ceil_div_cast' m.shape.x m.tile.x hx, ceil_div_cast' m.shape.y m.tile.y hy]

/-- `CogMeta.num_tiles` -/
theorem tie_cogmeta_num_tiles (m : Meta) (hx : 0 < m.tile.x) (hy : 0 < m.tile.y) :
    Gen.C05.cogmeta_num_tiles m.toPy = .ok ((m.numTiles : Nat) : Int) := by
  simp only [Gen.C05.cogmeta_num_tiles, tie_cogmeta_chunked m hx hy, Meta.numTiles]
  simp only [Meta.toPy]; push_cast
  first | rfl | (congr 1; ring1) | tie_fin

/-- `CogMeta.flat_tile_idx((sample, y, x))` -/
theorem tie_cogmeta_flat_tile_idx (m : Meta) (hx : 0 < m.tile.x) (hy : 0 < m.tile.y) (s y x : Int) :
    Gen.C05.cogmeta_flat_tile_idx m.toPy (s, y, x) = (m.flatTileIdx s y x).map (fun n => (n : Int)) := by
  simp only [Gen.C05.cogmeta_flat_tile_idx, tie_cogmeta_chunked m hx hy, Meta.flatTileIdx, Meta.flatRaw]
  simp only [Meta.toPy]
  by_cases h1 : s < 0 ∨ s ≥ (m.planes : Int) <;> by_cases h2 : y < 0 ∨ y ≥ (m.chunked.y : Int) <;>
    by_cases h3 : x < 0 ∨ x ≥ (m.chunked.x : Int)
  all_goals first
    | (have hm : s < 0 ∨ s ≥ ↑m.planes ∨ y < 0 ∨ y ≥ ↑m.chunked.y ∨ x < 0 ∨ x ≥ ↑m.chunked.x := by omega
       simp [h1, h2, h3, hm, Except.map, bind, Except.bind]; done)
    | (have hm : ¬ (s < 0 ∨ s ≥ ↑m.planes ∨ y < 0 ∨ y ≥ ↑m.chunked.y ∨ x < 0 ∨ x ≥ ↑m.chunked.x) := by omega
       have e1 : ((s.toNat : Nat) : Int) = s := Int.toNat_of_nonneg (by omega)
       have e2 : ((y.toNat : Nat) : Int) = y := Int.toNat_of_nonneg (by omega)
       have e3 : ((x.toNat : Nat) : Int) = x := Int.toNat_of_nonneg (by omega)
       simp [h1, h2, h3, hm, Except.map, bind, Except.bind, pure, Except.pure, e1, e2, e3]; done)

/-! ### flat index bijection, transferred to the regenerated `flat_tile_idx` / `num_tiles` -/

/-- on the tile grid the source `flat_tile_idx` does not raise and lands below the source `num_tiles` -/
theorem gen_flat_idx_lt (m : Meta) (hx : 0 < m.tile.x) (hy : 0 < m.tile.y) (s y x : Nat)
    (h : s < m.planes ∧ y < m.chunked.y ∧ x < m.chunked.x) :
    ∃ i n : Nat, Gen.C05.cogmeta_flat_tile_idx m.toPy ((s : Int), (y : Int), (x : Int)) = .ok (i : Int) ∧
      Gen.C05.cogmeta_num_tiles m.toPy = .ok (n : Int) ∧ i < n := by
  refine ⟨m.flatRaw s y x, m.numTiles, ?_, tie_cogmeta_num_tiles m hx hy, flat_idx_lt m s y x h⟩
  rw [tie_cogmeta_flat_tile_idx m hx hy, flat_tile_idx_ok, if_pos h]; rfl

/-- `flat_idx_inj` for the source `flat_tile_idx`: distinct tiles get distinct flat indices -/
theorem gen_flat_idx_inj (m : Meta) (hx : 0 < m.tile.x) (hy : 0 < m.tile.y) (s y x s' y' x' : Nat)
    (h : s < m.planes ∧ y < m.chunked.y ∧ x < m.chunked.x)
    (h' : s' < m.planes ∧ y' < m.chunked.y ∧ x' < m.chunked.x)
    (he : Gen.C05.cogmeta_flat_tile_idx m.toPy ((s : Int), (y : Int), (x : Int)) =
          Gen.C05.cogmeta_flat_tile_idx m.toPy ((s' : Int), (y' : Int), (x' : Int))) :
    (s, y, x) = (s', y', x') := by
  rw [tie_cogmeta_flat_tile_idx m hx hy, tie_cogmeta_flat_tile_idx m hx hy, flat_tile_idx_ok, flat_tile_idx_ok,
    if_pos h, if_pos h'] at he
  simp [Except.map, bind, Except.bind, pure, Except.pure] at he
  exact flat_idx_inj m s y x s' y' x' h h' (by exact_mod_cast he)

end OdcGeo.C05
