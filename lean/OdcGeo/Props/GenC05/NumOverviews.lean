/-
C05 — source tie, piece `NumOverviews` (see OdcGeo/Props/GenC05.lean).  One compilation unit per tied function (or small
group), so that a tie that is lost in a run only removes its own theorems from that run's obligations.
-/
import OdcGeo.Gen.C05
import OdcGeo.Gen.Tie
import OdcGeo.Lemmas.GenC05
import OdcGeo.Props.C05

namespace OdcGeo.C05
open OdcGeo.Gen

/-- `_shared.num_overviews`: the `while` loop terminates within `dim + 1` iterations and counts the model's value -/
theorem tie_num_overviews (block dim : Nat) :
    Gen.C05.num_overviews block dim = .ok ((numOverviews block dim : Nat) : Int) := by
  obtain ⟨d', h⟩ := gen_loop0_spec (dim + 1) block 0 dim block 0 dim rfl rfl rfl (by omega)
  have hf : numOverviewsFuel (dim + 1) block dim = numOverviews block dim :=
    num_overviews_fuel_irrelevant (dim + 1) block dim (by omega)
  have e : ((dim : Int)).toNat + 1 = dim + 1 := by omega
  simp only [Gen.C05.num_overviews, e]
  first
    | (simp only [Nat.cast_zero] at h; rw [h]; simp [hf])
    | (rw [h]; simp [hf])

/-- `num_overviews_spec` for the source `num_overviews`: the result is the least number of halvings of `dim`
that brings it to at most `block` -/
theorem gen_num_overviews_spec (block dim : Nat) :
    ∃ n : Nat, Gen.C05.num_overviews block dim = .ok (n : Int) ∧ LeastHalvings block dim n :=
  ⟨_, tie_num_overviews block dim, num_overviews_spec block dim⟩

end OdcGeo.C05
