/-
C05 — source tie, piece `AlignDown` (see OdcGeo/Props/GenC05.lean).  One compilation unit per tied function (or small
group), so that a tie that is lost in a run only removes its own theorems from that run's obligations.
-/
import OdcGeo.Gen.C05
import OdcGeo.Gen.Tie
import OdcGeo.Lemmas.GenC05
import OdcGeo.Props.C05

namespace OdcGeo.C05
open OdcGeo.Gen

/-- `math.align_down` on naturals, positive alignment -/
theorem tie_align_down (x a : Nat) (h : 0 < a) :
    Gen.C05.align_down x a = .ok ((alignDown x a : Nat) : Int) := by
  have h0 : (a : Int) ≠ 0 := by omega
  have hp : (0 : Int) < a := by omega
  have hle := Nat.mod_le x a
  simp only [Gen.C05.align_down, alignDown, if_neg h0, Py.fmod_pos _ hp]
  first
    | (congr 1; push_cast [Nat.cast_sub hle]; first | rfl | ring1 | omega)
    | tie_fin

end OdcGeo.C05
