/-
C05 — source tie, piece `AdjustBlocksize` (see OdcGeo/Props/GenC05.lean).  One compilation unit per tied function (or small
group), so that a tie that is lost in a run only removes its own theorems from that run's obligations.
-/
import OdcGeo.Gen.C05
import OdcGeo.Gen.Tie
import OdcGeo.Lemmas.GenC05
import OdcGeo.Props.C05
import OdcGeo.Props.GenC05.AlignUp

namespace OdcGeo.C05
open OdcGeo.Gen

/-- `_shared.adjust_blocksize(block, dim)` -/
theorem tie_adjust_blocksize (block dim : Nat) :
    Gen.C05.adjust_blocksize block dim = .ok ((adjustBlocksize block dim : Nat) : Int) := by
  have h16 : ∀ x : Nat, Gen.C05.align_up x 16 = .ok ((alignUp x 16 : Nat) : Int) := by
    intro x; have := tie_align_up x 16 (by omega); simpa using this
  simp only [Gen.C05.adjust_blocksize, adjustBlocksize, h16]
  repeat' split
  all_goals first | rfl | (exfalso; omega) | tie_fin

end OdcGeo.C05
