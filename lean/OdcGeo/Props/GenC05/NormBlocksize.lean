/-
C05 — source tie, piece `NormBlocksize` (see OdcGeo/Props/GenC05.lean).  One compilation unit per tied function (or small
group), so that a tie that is lost in a run only removes its own theorems from that run's obligations.
-/
import OdcGeo.Gen.C05
import OdcGeo.Gen.Tie
import OdcGeo.Lemmas.GenC05
import OdcGeo.Props.C05
import OdcGeo.Props.GenC05.AdjustBlocksize

namespace OdcGeo.C05
open OdcGeo.Gen

/-- `_shared.norm_blocksize`: an int, or a pair read as (y, x) -/
theorem tie_norm_blocksize (blk : Blk) :
    Gen.C05.norm_blocksize blk.toPy = .ok (((normBlocksize blk).y : Int), ((normBlocksize blk).x : Int)) := by
  have h := fun x => tie_adjust_blocksize x 0
  simp only [Nat.cast_zero] at h
  cases blk <;> simp only [Blk.toPy, Gen.C05.norm_blocksize, normBlocksize, h]

end OdcGeo.C05
