/-
C05 — source tie, piece `AlignUp` (see OdcGeo/Props/GenC05.lean).  One compilation unit per tied function (or small
group), so that a tie that is lost in a run only removes its own theorems from that run's obligations.
-/
import OdcGeo.Gen.C05
import OdcGeo.Gen.Tie
import OdcGeo.Lemmas.GenC05
import OdcGeo.Props.C05
import OdcGeo.Props.GenC05.AlignDown

namespace OdcGeo.C05
open OdcGeo.Gen

/-- `math.align_up` on naturals, positive alignment -/
theorem tie_align_up (x a : Nat) (h : 0 < a) :
    Gen.C05.align_up x a = .ok ((alignUp x a : Nat) : Int) := by
  have e : ∀ y : Int, y = ((x + (a - 1) : Nat) : Int) →
      Gen.C05.align_down y a = .ok ((alignDown (x + (a - 1)) a : Nat) : Int) := by
    intro y hy; rw [hy]; exact tie_align_down _ _ h
  simp only [Gen.C05.align_up, alignUp]
  first
    | (rw [e _ (by omega)])
    | (simp only [e _ (by omega)])
    | tie_fin

end OdcGeo.C05
