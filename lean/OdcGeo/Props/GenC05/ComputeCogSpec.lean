/-
C05 — source tie, piece `ComputeCogSpec` (see OdcGeo/Props/GenC05.lean): `compute_cog_spec(data_shape, tile_shape, max_pad=)`
against the hand model `computeCogSpec` (on `Nat`); shapes are `Shape2d` pairs `(x, y)`.
-/
import OdcGeo.Gen.C05
import OdcGeo.Gen.Tie
import OdcGeo.Lemmas.GenC05Pow2
import OdcGeo.Props.GenC05.AdjustBlocksize
import OdcGeo.Props.GenC05.NumOverviews
import OdcGeo.Props.GenC05.AlignUp
import OdcGeo.Props.C05

namespace OdcGeo.C05
open OdcGeo.Gen

/-- the Python view of a model result `(data_shape, tile_shape, n)` -/
def specToPy (r : YX × YX × Nat) : (Int × Int) × (Int × Int) × Int :=
  (((r.1.x : Int), (r.1.y : Int)), ((r.2.1.x : Int), (r.2.1.y : Int)), (r.2.2 : Int))

theorem tie_compute_cog_spec (shape tile : YX) (maxPad : Option Nat) :
    Gen.C05.compute_cog_spec ((shape.x : Int), (shape.y : Int)) ((tile.x : Int), (tile.y : Int))
        (maxPad.map (fun (n : Nat) => (n : Int))) =
      .ok (specToPy (computeCogSpec shape tile maxPad)) := by
  have hadj : ∀ b : Nat, Gen.C05.adjust_blocksize (b : Int) 0 = .ok ((adjustBlocksize b : Nat) : Int) := by
    intro b; have := tie_adjust_blocksize b 0; simpa using this
  have hmax : ∀ a b : Nat, max (a : Int) (b : Int) = ((max a b : Nat) : Int) := by intro a b; omega
  have hpow : ∀ n : Nat, Py.ipow 2 (n : Int) = ((2 ^ n : Nat) : Int) := C20.py_ipow_two_nat
  have hup : ∀ x a : Nat, 0 < a → Gen.C05.align_up (x : Int) (a : Int) = .ok ((alignUp x a : Nat) : Int) := tie_align_up
  have hppos : ∀ n : Nat, 0 < 2 ^ n := fun n => Nat.two_pow_pos n
  have hnn : ∀ n : Nat, ¬ ((n : Int) < 0) := by intro n; omega
  cases maxPad with
  | none =>
    have hp := hppos (max (numOverviews (adjustBlocksize tile.x) shape.x) (numOverviews (adjustBlocksize tile.y) shape.y))
    have hp' : ((2 ^ (max (numOverviews (adjustBlocksize tile.x) shape.x) (numOverviews (adjustBlocksize tile.y) shape.y)) : Nat) : Int) > 0 := by
      exact_mod_cast hp
    simp only [Gen.C05.compute_cog_spec, computeCogSpec, specToPy, Option.map, hadj, tie_num_overviews, hmax, hpow,
      if_neg (hnn _), if_pos hp', hup _ _ hp, if_pos hp]
  | some mp =>
    have hgen : ∀ N : Nat, N = max (numOverviews (adjustBlocksize tile.x) shape.x) (numOverviews (adjustBlocksize tile.y) shape.y) →
        Gen.C05.compute_cog_spec ((shape.x : Int), (shape.y : Int)) ((tile.x : Int), (tile.y : Int)) (some (mp : Int)) =
          .ok (specToPy (computeCogSpec shape tile (some mp))) := by
      intro N hN
      have hp := hppos N
      have hp' : ((2 ^ N : Nat) : Int) > 0 := by exact_mod_cast hp
      by_cases h1 : mp < 2 ^ N
      · have h1' : (mp : Int) < ((2 ^ N : Nat) : Int) := by exact_mod_cast h1
        by_cases h0 : mp = 0
        · subst h0
          have hz : ¬ ((0 : Int) > 0) := by omega
          simp only [Gen.C05.compute_cog_spec, computeCogSpec, specToPy, hadj, tie_num_overviews, hmax, hpow,
            if_neg (hnn _), ← hN, Nat.cast_zero, if_pos h1', if_pos h1, if_true, if_neg hz, if_false,
            if_neg (Nat.lt_irrefl 0), gt_iff_lt, if_pos (show (0 : Int) < ((2 ^ N : Nat) : Int) from hp')]
        · have h0' : ¬ ((mp : Int) = 0) := by omega
          have hd := (alignDownPow2_spec mp (by omega)).2.1
          obtain ⟨k, hk⟩ := (alignDownPow2_spec mp (by omega)).1
          have hdp : 0 < alignDownPow2 mp := by rw [hk]; exact Nat.two_pow_pos k
          have hdp' : ((alignDownPow2 mp : Nat) : Int) > 0 := by exact_mod_cast hdp
          simp only [Gen.C05.compute_cog_spec, computeCogSpec, specToPy, hadj, tie_num_overviews, hmax, hpow,
            if_neg (hnn _), ← hN, if_pos h1', if_pos h1, if_neg h0', if_neg h0, gen_align_down_pow2_nat mp (by omega),
            if_pos hdp', if_pos hdp, hup _ _ hdp, gt_iff_lt]
      · have h1' : ¬ ((mp : Int) < ((2 ^ N : Nat) : Int)) := by exact_mod_cast h1
        simp only [Gen.C05.compute_cog_spec, computeCogSpec, specToPy, hadj, tie_num_overviews, hmax, hpow,
          if_neg (hnn _), ← hN, if_neg h1', if_neg h1, if_pos hp', if_pos hp, hup _ _ hp, gt_iff_lt]
    simpa [Option.map] using hgen _ rfl

/-- `padded_shape` for the source `compute_cog_spec` (no `max_pad`): it does not raise, and each side is padded up by less
than `2^n` to a multiple of `2^n` -/
theorem gen_padded_shape (shape tile : YX) :
    ∃ r : YX × YX × Nat,
      Gen.C05.compute_cog_spec ((shape.x : Int), (shape.y : Int)) ((tile.x : Int), (tile.y : Int)) none = .ok (specToPy r) ∧
      shape.y ≤ r.1.y ∧ r.1.y < shape.y + 2 ^ r.2.2 ∧ 2 ^ r.2.2 ∣ r.1.y ∧
      shape.x ≤ r.1.x ∧ r.1.x < shape.x + 2 ^ r.2.2 ∧ 2 ^ r.2.2 ∣ r.1.x :=
  ⟨computeCogSpec shape tile, by simpa using tie_compute_cog_spec shape tile none, (padded_shape shape tile).2.2⟩

end OdcGeo.C05
