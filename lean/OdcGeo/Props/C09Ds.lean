/-
C09 — the Dataset seen as one object when it also holds variables that are not geo-registered
(`Dataset({"a": arr, "b": arr * 2, "c": <table over another dimension>})`): the Dataset-level recovery hypothesis of
`xr_reproject_ds_crs` is discharged for that shape too.  Additive: statements about the existing models only.
-/
import OdcGeo.Props.C09C11

namespace OdcGeo.C09
open OdcGeo

def isCrsCoord : Coord → Bool
  | .crs _ => true
  | _ => false

/-- merging further coordinates into an accumulator only appends entries with names the accumulator does not have -/
theorem merge_appends (l acc : List (String × Coord)) :
    ∃ F, l.foldl mergeStep acc = acc ++ F ∧ ∀ kc ∈ F, kc ∈ l ∧ kc.1 ∉ acc.map (·.1) := by
  induction l generalizing acc with
  | nil => exact ⟨[], by simp, by simp⟩
  | cons x xs ih =>
    by_cases hx : x.1 ∈ acc.map (·.1)
    · have hstep : mergeStep acc x = acc := by
        unfold mergeStep
        simp only [List.contains_iff_mem, hx, if_true]
      obtain ⟨F, hF, hmem⟩ := ih acc
      refine ⟨F, by rw [List.foldl_cons, hstep, hF], ?_⟩
      intro kc hkc
      exact ⟨List.mem_cons_of_mem _ (hmem kc hkc).1, (hmem kc hkc).2⟩
    · have hstep : mergeStep acc x = acc ++ [x] := by
        unfold mergeStep
        simp only [List.contains_iff_mem, hx, if_false]
      obtain ⟨F, hF, hmem⟩ := ih (acc ++ [x])
      refine ⟨x :: F, by rw [List.foldl_cons, hstep, hF]; simp, ?_⟩
      intro kc hkc
      rcases List.mem_cons.mp hkc with rfl | hkc
      · exact ⟨List.mem_cons_self, hx⟩
      · obtain ⟨h1, h2⟩ := hmem kc hkc
        refine ⟨List.mem_cons_of_mem _ h1, ?_⟩
        intro hm
        exact h2 (by simp only [List.map_append, List.mem_append]; exact Or.inl hm)

theorem lookup_append_of_mem (k : String) (l1 l2 : List (String × Coord)) (h : k ∈ l1.map (·.1)) :
    (l1 ++ l2).lookup k = l1.lookup k := by
  induction l1 with
  | nil => simp at h
  | cons x xs ih =>
    obtain ⟨k', c⟩ := x
    by_cases hk : k = k'
    · subst hk
      simp [List.lookup]
    · have hne : (k == k') = false := by simpa using hk
      simp only [List.cons_append, List.lookup, hne]
      apply ih
      simp only [List.map_cons, List.mem_cons] at h
      rcases h with h | h
      · exact absurd h hk
      · exact h

theorem guessDims_congr6 (l l' : List String)
    (h : ∀ x ∈ ["y", "x", "latitude", "longitude", "lat", "lon"], (x ∈ l ↔ x ∈ l')) : guessDims l = guessDims l' := by
  have hc : ∀ x ∈ ["y", "x", "latitude", "longitude", "lat", "lon"], l.contains x = l'.contains x := by
    intro x hx
    by_cases hm : x ∈ l
    · simp [hm, (h x hx).mp hm]
    · have : x ∉ l' := fun h' => hm ((h x hx).mpr h')
      simp [hm, this]
  simp only [guessDims, hc "y" (by simp), hc "x" (by simp), hc "latitude" (by simp), hc "longitude" (by simp),
    hc "lat" (by simp), hc "lon" (by simp)]

/-- **ds_view_recover_extra** — the geobox of a Dataset as a whole when it also holds unregistered variables: the first
data variable carries the dims and coordinates of the array `a`; every other variable either does too, or is an
"extra" one whose own coordinates are either shared with `a` (same name: the scalar CRS coordinate a Dataset attaches
to all its variables) or are not CRS coordinates, and whose dimensions are not named like spatial dimensions unless
`a` has them.  Then `_locate_geo_info(ds)` recovers exactly what it recovers from `a` under the Dataset's own
`grid_mapping` (which, if set, names a coordinate of `a`). -/
theorem ds_view_recover_extra (attrs : List String) (gm : Option String) (a : XArr) (n0 : String) (v0 : XArr)
    (rest : List (String × XArr)) (p : String × String)
    (h0 : v0.dims = a.dims ∧ v0.coords = a.coords)
    (hco : ∀ w ∈ rest, ∀ kc ∈ w.2.coords, kc.1 ∈ a.coords.map (·.1) ∨ isCrsCoord kc.2 = false)
    (hdi : ∀ w ∈ rest, ∀ d ∈ w.2.dims, d ∈ a.dims ∨ d ∉ ["y", "x", "latitude", "longitude", "lat", "lon"])
    (hnd : (a.coords.map (·.1)).Nodup) (hg : guessDims a.dims = some p)
    (hy : p.1 ∈ a.coords.map (·.1)) (hx : p.2 ∈ a.coords.map (·.1))
    (hgm : ∀ nm, gm = some nm → nm ∈ a.coords.map (·.1)) :
    recover (dsSrcView attrs gm ((n0, v0) :: rest)) = recover { a with gridMapping := gm } := by
  -- coordinates: those of `a`, followed by fresh non-CRS ones
  obtain ⟨F, hF, hFm⟩ := merge_appends (rest.flatMap (·.2.coords)) a.coords
  have hc : (dsSrcView attrs gm ((n0, v0) :: rest)).coords = a.coords ++ F := by
    show (dsView attrs ((n0, v0) :: rest)).coords = _
    rw [dsView_coords_eq]
    simp only [List.flatMap_cons, List.foldl_append, h0.2]
    rw [merge_fresh a.coords [] (by simpa using hnd)]
    simpa using hF
  have hFcrs : ∀ k c, (k, Coord.crs c) ∉ F := by
    intro k c hm
    obtain ⟨hin, hfresh⟩ := hFm _ hm
    simp only [List.mem_flatMap] at hin
    obtain ⟨w, hw, hkw⟩ := hin
    rcases hco w hw _ hkw with h | h
    · exact hfresh h
    · simp [isCrsCoord] at h
  -- dimensions: the named spatial dimensions are those of `a`
  have hgd : guessDims (dsSrcView attrs gm ((n0, v0) :: rest)).dims = some p := by
    rw [← hg]
    apply guessDims_congr6
    intro x hx6
    show x ∈ (((n0, v0) :: rest).flatMap (·.2.dims)).eraseDups ↔ x ∈ a.dims
    rw [List.mem_eraseDups, List.mem_flatMap]
    constructor
    · rintro ⟨w, hw, hxw⟩
      rcases List.mem_cons.mp hw with rfl | hw
      · simpa [h0.1] using hxw
      · rcases hdi w hw x hxw with h | h
        · exact h
        · exact absurd hx6 h
    · intro hxa
      exact ⟨(n0, v0), List.mem_cons_self, by simpa [h0.1] using hxa⟩
  have hly := lookup_append_of_mem p.1 a.coords F hy
  have hlx := lookup_append_of_mem p.2 a.coords F hx
  have hscan : crsScan (a.coords ++ F) = crsScan a.coords := by
    rw [crsScan_append, crsScan_nil_of_no_crs F hFcrs, List.append_nil]
  have hgmv : (dsSrcView attrs gm ((n0, v0) :: rest)).gridMapping = gm := rfl
  unfold recover locateCrsCoords
  rw [spatialDims_of_guess _ _ hgd, spatialDims_of_guess _ _ hg, hc, hgmv]
  simp only [hly, hlx, hscan]
  cases gm with
  | none => rfl
  | some nm => simp only [lookup_append_of_mem nm a.coords F (hgm nm rfl)]

/-- **xr_reproject_ds_crs_extra** — `xr_reproject_ds_crs` without the Dataset-level hypothesis for a Dataset with
unregistered extra variables: the destination is computed from the GeoBox recovered from the array `a` the
registered variables share. -/
theorem xr_reproject_ds_crs_extra (attrs : List String) (gm : Option String) (a0 : XArr) (n0 : String) (v0 : XArr)
    (rest : List (String × XArr)) (pd : String × String) (g : GeoBox) (c : Crs) (p : Proj) (a : C11.GridArgs)
    (extra : List (String × KwVal)) (attrs' : List String) (out : List (String × XArr))
    (h0 : v0.dims = a0.dims ∧ v0.coords = a0.coords)
    (hco : ∀ w ∈ rest, ∀ kc ∈ w.2.coords, kc.1 ∈ a0.coords.map (·.1) ∨ isCrsCoord kc.2 = false)
    (hdi : ∀ w ∈ rest, ∀ d ∈ w.2.dims, d ∈ a0.dims ∨ d ∉ ["y", "x", "latitude", "longitude", "lat", "lon"])
    (hnd : (a0.coords.map (·.1)).Nodup) (hgd : guessDims a0.dims = some pd)
    (hy : pd.1 ∈ a0.coords.map (·.1)) (hx : pd.2 ∈ a0.coords.map (·.1))
    (hgm : ∀ nm, gm = some nm → nm ∈ a0.coords.map (·.1))
    (hrec : recover { a0 with gridMapping := gm } = .ok (.lin g)) (hextra : ∀ kv ∈ extra, kv.1 ∉ gboxKeys)
    (hg : g.crs = some c → 1 ≤ g.ny ∧ 1 ≤ g.nx ∧ (isAffineST g.A = true → g.A.b = 0 ∧ g.A.d = 0))
    (h : xrReprojectDs attrs gm ((n0, v0) :: rest) (.crs c p) a extra = .ok (attrs', out)) :
    ∃ sc dst, g.crs = some sc ∧ outputGeoboxOf (.lin g) sc c p a = .ok dst ∧ dst.crs = some c ∧
      (∀ k ∈ attrs', k ∉ spatialAttributes) ∧
      ∀ nm o, (nm, o) ∈ out → ∃ v, (nm, v) ∈ (n0, v0) :: rest ∧
        ((recover v = .ok .nothing ∧ o.dims = v.dims ∧ o.attrs = v.attrs) ∨
         ((∀ k ∈ o.attrs, k ∉ spatialAttributes) ∧ o.gridMapping = some "spatial_ref" ∧
           (∀ sc0 pre post, DimsShape v sc0 pre post → recover o = .ok (.lin dst)))) :=
  xr_reproject_ds_crs attrs gm ((n0, v0) :: rest) g c p a extra attrs' out
    (by rw [ds_view_recover_extra attrs gm a0 n0 v0 rest pd h0 hco hdi hnd hgd hy hx hgm]; exact hrec) hextra hg h

/-- the unregistered table variable a Dataset may hold next to the rasters: its own dimension `t`, plus the scalar
coordinates (CRS coordinate included) the Dataset attaches to every variable -/
def extraVar (a : XArr) : XArr :=
  ⟨["t"], a.coords.filter (fun kc => match kc.2 with | .crs _ => true | .scalar => true | _ => false) ++ [("t", .other 3)],
    none, []⟩

/-- non-vacuity of `ds_view_recover_extra` / `xr_reproject_ds_crs_extra`: `Dataset({"a": arr, "b": arr * 2, "c": table})` of a
rotated, sliced array — the hypotheses hold and the Dataset-level geobox is the array's on both location paths -/
example :
    let arr := (wrap (.lin ⟨4, 6, ⟨3, 4, 100, 4, -3, 200⟩, some ⟨3857, false⟩⟩) (some 2) none "foo" ["keep"]).bind
      (fun a => applyOps a [.isel "y" (.slc (some 1) none none), .isel "time" (.int 0)])
    arr.bind (fun a => recover (dsSrcView ["title"] none [("a", a), ("b", { a with gridMapping := none }), ("c", extraVar a)]))
      = arr.bind recover ∧
    arr.bind (fun a => recover (dsSrcView [] (some "foo") [("a", a), ("c", extraVar a), ("b", { a with gridMapping := none })]))
      = arr.bind recover ∧
    arr.bind (fun a => .ok (
      decide ((a.coords.map (·.1)).Nodup) && (guessDims a.dims == some ("y", "x")) &&
      (a.coords.map (·.1)).contains "y" && (a.coords.map (·.1)).contains "x" && (a.coords.map (·.1)).contains "foo" &&
      (extraVar a).coords.all (fun kc => (a.coords.map (·.1)).contains kc.1 || !isCrsCoord kc.2) &&
      (extraVar a).dims.all (fun d => a.dims.contains d || !["y", "x", "latitude", "longitude", "lat", "lon"].contains d))) = .ok true := by
  decide +kernel

end OdcGeo.C09
