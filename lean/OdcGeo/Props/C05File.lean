/-
C05 ∘ C06 — the cross-property link that `Props/C05.lean` only names: the offsets / byte counts that
`_patch_hdr` writes into the TIFF header address, in the finished object produced by the multi-part
writer, exactly the bytes of the tile they belong to.

C06 (`file_chunk_bytes`, a corollary of `C06.main`) says where every chunk of the stream ends up in
the object; C05 (`tile_info_exact`, `patch_hdr_exact`) says what the header table contains for the
observed stream.  Both are about the same observed `(size, id)` list, so they compose.
-/
import OdcGeo.Props.C05
import OdcGeo.Props.C06

set_option linter.unusedVariables false
set_option linter.unusedSimpArgs false

namespace OdcGeo.C05
open OdcGeo

theorem sizes_take_eq {α : Type} (tiles : List Obs) (cs : List (List α)) (hsz : tiles.map (·.sz) = cs.map List.length)
    (i : Nat) : sizes (tiles.take i) = (cs.take i).flatten.length := by
  have h : (tiles.take i).map (·.sz) = (cs.take i).map List.length := by
    rw [List.map_take, List.map_take, hsz]
  simp only [sizes, h, List.length_flatten]

/-- **Every header entry addresses exactly its tile's bytes in the written file.**

`t` is any merge tree (= any dask fold / collate shape and execution order, see `C06.schedule_result`)
over the tile stream, `tiles` the observed `(level, plane, y, x, size)` records in stream order whose
sizes are the chunk sizes of `t`, `hdr` a header of fixed length `hdrSz`, `info` the table that
`_patch_hdr` computes from the observed stream.  Then the multi-part write succeeds and for every
tile that carries data the header says `(off, sz)` and the file holds exactly that tile's bytes at
`[off, off + sz)`. -/
theorem header_addresses_tile_bytes {α : Type} (W : C06.Writer) (spill wpc : Nat) (t : C06.Tree α)
    (mkHdr : Option (List (Nat × Int) → List α))
    (hne : t.NonEmpty) (hcap : W.minPart + 1 + t.leaves * wpc ≤ W.maxPart + 1)
    (hdrSz : Nat) (hH : (C06.optBytes (mkHdr.map (fun f => f t.obs))).length = hdrSz)
    (ms : List Meta) (tiles : List Obs) (hsz : tiles.map (·.sz) = t.chunks.map List.length)
    (info : TileInfo) (hinfo : patchHdr ms tiles hdrSz = .ok info)
    (hnd : ∀ i j (hi : i < tiles.length) (hj : j < tiles.length), i < j →
      tiles[i].sz ≠ 0 → tiles[j].sz ≠ 0 → obsKey ms tiles[i] ≠ obsKey ms tiles[j]) :
    ∃ wsF fp wsAll,
      C06.run ⟨some W, spill, wpc, true⟩ t mkHdr none = .ok (.written wsF fp, wsAll, t.obs) ∧
      ∀ i (hi : i < tiles.length) (hc : i < t.chunks.length), tiles[i].sz ≠ 0 →
        ∃ l f off, obsKey ms tiles[i] = .ok (l, f) ∧ look info l f = some (off, tiles[i].sz) ∧
          ((C06.partsBytes fp).drop off).take tiles[i].sz = t.chunks[i] := by
  obtain ⟨wsF, fp, wsAll, hrun, hfile⟩ := C06.file_chunk_bytes W spill wpc t mkHdr hne hcap hdrSz hH
  refine ⟨wsF, fp, wsAll, hrun, ?_⟩
  intro i hi hc hnz
  -- the un-shifted table
  cases h0 : extractTileInfo ms tiles 0 with
  | error e => simp [patchHdr, h0, Except.map] at hinfo
  | ok info0 =>
    obtain ⟨l, f, hkey, hlook0⟩ := tile_info_exact ms tiles 0 info0 h0 hnd i hi hnz
    have hlook := patch_hdr_exact ms tiles hdrSz info info0 h0 hinfo l f _ _ hlook0
    refine ⟨l, f, streamOff 0 tiles i + hdrSz, hkey, hlook, ?_⟩
    have hoff : streamOff 0 tiles i + hdrSz = hdrSz + (t.chunks.take i).flatten.length := by
      simp only [streamOff, Nat.zero_add, sizes_take_eq tiles t.chunks hsz i]; omega
    have hlen : tiles[i].sz = t.chunks[i].length := by
      have := congrArg (fun l => l[i]?) hsz
      simp only [List.getElem?_map, List.getElem?_eq_getElem hi, List.getElem?_eq_getElem hc,
        Option.map_some] at this
      exact Option.some.inj this
    rw [hoff, hlen]
    exact hfile i hc

end OdcGeo.C05
