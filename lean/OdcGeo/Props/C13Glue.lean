/-
C13 — theorems about the glue between the public entry points and the modelled core
(`Model/C13Glue.lean`): nodata conversion (`resolve_fill_value` versus what the warp writes), the
`chunks=` argument, `with_yx`, `_xr_reproject_da`'s defaulting + dispatch composed with the core
theorem, `warp_affine`, the keywords that reach GDAL.
-/
import OdcGeo.Model.C13Glue
import OdcGeo.Props.C13
import OdcGeo.Props.C13Kw
import Mathlib.Tactic.Linarith
import Mathlib.Tactic.Ring
import Mathlib.Algebra.Order.Field.Rat

namespace OdcGeo.C13
open OdcGeo

/-! ## nodata conversion -/

private theorem floor_int_add_half (x : Int) : ((x : Rat) + 1 / 2).floor = x := by
  apply Int.le_antisymm
  · have : ((x : Rat) + 1 / 2).floor < x + 1 := Rat.floor_lt_iff.2 (by push_cast; linarith)
    omega
  · exact Rat.le_floor_iff.2 (by linarith)

private theorem floor_intCast (x : Int) : ((x : Rat)).floor = x := by
  apply Int.le_antisymm
  · have : ((x : Rat)).floor < x + 1 := Rat.floor_lt_iff.2 (by push_cast; linarith)
    omega
  · exact Rat.le_floor_iff.2 (le_refl _)

/-- Python `int(x)` of an integer is that integer -/
theorem truncZ_int (n : Int) : truncZ (n : Rat) = n := by
  unfold truncZ
  split
  · exact floor_intCast n
  · have : (-(n : Rat)) = ((-n : Int) : Rat) := by push_cast; rfl
    rw [this, floor_intCast]
    omega

/-- rounding an integer leaves it alone -/
theorem roundHAZ_int (n : Int) : roundHAZ (n : Rat) = n := by
  unfold roundHAZ
  split
  · exact floor_int_add_half n
  · have : (-(n : Rat) + 1 / 2) = (((-n : Int) : Rat) + 1 / 2) := by push_cast; rfl
    rw [this, floor_int_add_half]
    omega

/-- rounding stays inside an integer range that holds the value -/
theorem roundHAZ_in_range (lo hi : Int) (q : Rat) (h1 : (lo : Rat) ≤ q) (h2 : q ≤ (hi : Rat)) :
    lo ≤ roundHAZ q ∧ roundHAZ q ≤ hi := by
  unfold roundHAZ
  split
  · constructor
    · exact Rat.le_floor_iff.2 (by linarith)
    · have h := Rat.floor_le (q + 1 / 2)
      by_contra hc
      have : (hi : Rat) + 1 ≤ ((q + 1 / 2).floor : Rat) := by exact_mod_cast (by omega : hi + 1 ≤ (q + 1 / 2).floor)
      linarith
  · constructor
    · have h := Rat.floor_le (-q + 1 / 2)
      by_contra hc
      have : ((-q + 1 / 2).floor : Rat) ≥ (-lo : Int) + 1 := by
        exact_mod_cast (by omega : (-lo) + 1 ≤ (-q + 1 / 2).floor)
      push_cast at this
      linarith
    · have : (-hi : Int) ≤ (-q + 1 / 2).floor := Rat.le_floor_iff.2 (by push_cast; linarith)
      omega

/-- **`resolve_fill_value` rounds like the warp** (code of fix2-C13): for an integer dtype the integer it
converts a finite nodata to is `roundHAZ` — whatever the nodata (integral, fractional, negative). -/
theorem fillIntOf_round (q : Rat) : fillIntOf true q = roundHAZ q := by
  show (if ((truncZ q : Int) : Rat) ≠ q then (if 0 < q then truncZ (q + 1 / 2) else truncZ (q - 1 / 2))
    else truncZ q) = roundHAZ q
  by_cases hi : ((truncZ q : Int) : Rat) = q
  · rw [if_neg (by simp [hi])]
    rw [← hi, truncZ_int, roundHAZ_int]
  · rw [if_pos hi]
    by_cases hq : 0 < q
    · rw [if_pos hq]
      unfold truncZ roundHAZ
      rw [if_pos (by linarith), if_pos (le_of_lt hq)]
    · rw [if_neg hq]
      have hq0 : q ≠ 0 := by
        intro h0
        apply hi
        rw [h0]
        have := truncZ_int 0
        simp only [Int.cast_zero] at this
        rw [this]
        simp
      have hneg : q < 0 := lt_of_le_of_ne (not_lt.1 hq) hq0
      unfold truncZ roundHAZ
      rw [if_neg (by linarith), if_neg (by linarith)]
      have : -(q - 1 / 2) = -q + 1 / 2 := by ring
      rw [this]

/-- the code as found truncates -/
theorem fillIntOf_as_found (q : Rat) : fillIntOf false q = truncZ q := rfl

private theorem fillIntOf_int (b : Bool) (n : Int) : fillIntOf b (n : Rat) = n := by
  cases b
  · exact truncZ_int n
  · rw [fillIntOf_round, roundHAZ_int]

private theorem rioCheck_num (r : IRange) (q : Rat) (h : rioCheckInt r (some (.num q)) = .ok ()) :
    (r.lo : Rat) ≤ q ∧ q ≤ (r.hi : Rat) := by
  simp only [rioCheckInt] at h
  split at h
  · assumption
  · cases h

private theorem wholeFillInt_ok (r : IRange) (d s : Option RawNd) (v : Int)
    (h : wholeFillInt r d s = .ok v) :
    rioCheckInt r s = .ok () ∧ rioCheckInt r d = .ok () ∧ v = warpInitInt d s := by
  unfold wholeFillInt at h
  cases h1 : rioCheckInt r s with
  | error e => rw [h1] at h; cases h
  | ok u =>
    cases h2 : rioCheckInt r d with
    | error e => rw [h1, h2] at h; cases h
    | ok u' =>
      rw [h1, h2] at h
      cases h
      exact ⟨rfl, rfl, rfl⟩

/-- **Constant chunks hold what the warp writes.**  Integer raster, ANY nodata pair the caller can give
(fractional, negative, NaN, out of range): whenever the in-memory path accepts the pair (rasterio's
range test) and fills unreached pixels with `v`, `resolve_fill_value` (fix2-C13) gives the constant
chunks of the dask path the same `v` — without an error. -/
theorem const_fill_eq_warp_fill (r : IRange) (d s : Option RawNd) (v : Int)
    (h : wholeFillInt r d s = .ok v) : resolveFillInt true r d s = .ok v := by
  have cast_ok : ∀ q : Rat, rioCheckInt r (some (.num q)) = .ok () →
      fillCastInt true r (.num q) = .ok (roundHAZ q) := by
    intro q hq
    obtain ⟨h1, h2⟩ := rioCheck_num r q hq
    simp only [fillCastInt, fillIntOf_round]
    rw [if_pos (roundHAZ_in_range r.lo r.hi q h1 h2)]
  obtain ⟨hs, hd, rfl⟩ := wholeFillInt_ok r d s v h
  rcases d with _ | (_ | qd)
  · rcases s with _ | (_ | qs)
    · rfl
    · simp [rioCheckInt] at hs
    · exact cast_ok qs hs
  · simp [rioCheckInt] at hd
  · exact cast_ok qd hd

/-- the code **as found** truncates: `uint8`, `dst_nodata = 2.5`: constant chunks get 2, the warp
writes 3 (replayed on the real code: oracle key `fill-not-uniform:fractional-nodata`) -/
theorem const_fill_as_found_cex :
    resolveFillInt false ⟨0, 255⟩ (some (.num (5 / 2))) none = .ok 2 ∧
      wholeFillInt ⟨0, 255⟩ (some (.num (5 / 2))) none = .ok 3 := by
  constructor <;> decide +kernel

/-- a negative half, signed type: as found `int(-0.5) = 0`, the warp writes -1 -/
theorem const_fill_as_found_neg_cex :
    resolveFillInt false ⟨-32768, 32767⟩ none (some (.num (-1 / 2))) = .ok 0 ∧
      wholeFillInt ⟨-32768, 32767⟩ none (some (.num (-1 / 2))) = .ok (-1) := by
  constructor <;> decide +kernel

example : resolveFillInt true ⟨0, 255⟩ (some (.num (5 / 2))) none = .ok 3 := by decide +kernel
example : wholeFillInt ⟨0, 255⟩ (some (.num (5 / 2))) (some (.num 7)) = .ok 3 := by decide +kernel

/-- the converse does not hold: rasterio rejects 255.4 for `uint8` (`ValueError` from the in-memory path
and from every task chunk) while a constant chunk quietly holds 255 -/
theorem const_fill_accepts_more_cex :
    resolveFillInt true ⟨0, 255⟩ (some (.num (1277 / 5))) none = .ok 255 ∧
      wholeFillInt ⟨0, 255⟩ (some (.num (1277 / 5))) none = .error .value := by
  constructor <;> decide +kernel

/-- on integral nodata inside the range the conversion is the `resolveFill` of the core model (either
revision of the code) -/
theorem resolveFillInt_integral (b : Bool) (r : IRange) (d s : Option Int)
    (hd : ∀ n, d = some n → r.lo ≤ n ∧ n ≤ r.hi) (hs : ∀ n, s = some n → r.lo ≤ n ∧ n ≤ r.hi) :
    (resolveFillInt b r (d.map RawNd.ofInt) (s.map RawNd.ofInt)).map Val.num =
      .ok (resolveFill (d.map Val.num) (s.map Val.num) .int) := by
  have cast : ∀ n : Int, r.lo ≤ n ∧ n ≤ r.hi → fillCastInt b r (RawNd.ofInt n) = .ok n := by
    intro n hn
    simp only [RawNd.ofInt, fillCastInt, fillIntOf_int]
    rw [if_pos hn]
  rcases d with _ | n
  · rcases s with _ | m
    · rfl
    · simp only [Option.map_none, Option.map_some, resolveFillInt, resolveFill]
      rw [cast m (hs m rfl)]; rfl
  · simp only [Option.map_some, resolveFillInt, resolveFill]
    rw [cast n (hd n rfl)]; rfl

/-- a fractional source nodata masks no pixel (GDAL compares as doubles) -/
theorem fractional_masks_nothing (q : Rat) (hq : ∀ n : Int, (n : Rat) ≠ q) (p : Int) :
    warpMasks (some (.num q)) p = false := by
  simp only [warpMasks, decide_eq_false_iff_not]
  exact fun h => hq p h.symm

/-! ## the `chunks=` argument -/

private theorem foldl_max_ge (l : List Nat) (a : Nat) : a ≤ l.foldl max a ∧ ∀ c ∈ l, c ≤ l.foldl max a := by
  induction l generalizing a with
  | nil => simp
  | cons x xs ih =>
    simp only [List.foldl_cons, List.mem_cons]
    obtain ⟨h1, h2⟩ := ih (max a x)
    refine ⟨by omega, ?_⟩
    rintro c (rfl | hc)
    · omega
    · exact h2 c hc

private theorem foldl_max_mem (l : List Nat) (a : Nat) : l.foldl max a = a ∨ l.foldl max a ∈ l := by
  induction l generalizing a with
  | nil => simp
  | cons x xs ih =>
    simp only [List.foldl_cons, List.mem_cons]
    rcases ih (max a x) with h | h
    · rw [h]
      by_cases hax : a ≤ x
      · right; left; omega
      · left; omega
    · right; right; exact h

/-- dask's `chunksize` is the largest chunk: an upper bound that is attained -/
theorem chunkSize_spec (ch : List Nat) :
    (∀ c ∈ ch, c ≤ chunkSize ch) ∧ (ch ≠ [] → chunkSize ch ∈ ch) := by
  refine ⟨(foldl_max_ge ch 0).2, fun hne => ?_⟩
  rcases foldl_max_mem ch 0 with h | h
  · -- every chunk is 0
    cases ch with
    | nil => exact absurd rfl hne
    | cons x xs =>
      have hx := (foldl_max_ge (x :: xs) 0).2 x (by simp)
      have h' : chunkSize (x :: xs) = 0 := h
      rw [h']
      rw [h] at hx
      have : x = 0 := by omega
      simp [this]
  · exact h

private theorem tilesPair_chain (H W : Nat) (cy cx : Int) (dy dx : List Span)
    (h : tilesPair H W cy cx = .ok (dy, dx)) : Chain 0 dy H ∧ Chain 0 dx W := by
  unfold tilesPair at h
  split at h
  · cases h
  · split at h
    · cases h
    · rename_i h0 hn
      simp only [Except.ok.injEq, Prod.mk.injEq] at h
      obtain ⟨rfl, rfl⟩ := h
      exact ⟨regularTiling_isTiling H cy.toNat (by omega), regularTiling_isTiling W cx.toNat (by omega)⟩

/-- **Every accepted `chunks=` argument tiles the destination**: `None` (source chunk size),
`(ny, nx)` (ragged last tile, tiles larger than the raster), tuple of tuples (zero-length chunks
included) — whatever `dstTilings` returns covers `[0, H) × [0, W)` contiguously.  This discharges the
destination-tiling hypotheses of `chunked_eq_whole_nn` for the public entry point. -/
theorem dstTilings_chain (H W : Nat) (sy sx : List Nat) (a : ChunkArg) (dy dx : List Span)
    (h : dstTilings H W sy sx a = .ok (dy, dx)) : Chain 0 dy H ∧ Chain 0 dx W := by
  cases a with
  | default => exact tilesPair_chain H W _ _ dy dx h
  | pair cy cx => exact tilesPair_chain H W cy cx dy dx h
  | var ys xs =>
    simp only [dstTilings] at h
    split at h
    · cases h
    · split at h
      · rename_i hsum
        simp only [Except.ok.injEq, Prod.mk.injEq] at h
        obtain ⟨rfl, rfl⟩ := h
        have h1 := chunksTiling_isTiling ys
        have h2 := chunksTiling_isTiling xs
        rw [hsum.1] at h1
        rw [hsum.2] at h2
        exact ⟨h1, h2⟩
      · cases h

/-- the error branches: a zero tile size is a `ZeroDivisionError`, a negative one is rejected
(`ValueError` or `IndexError`), variable chunks that do not add up to the destination shape are rejected
(`ValueError` or `IndexError`) — never a wrong tiling -/
theorem dstTilings_rejects (H W : Nat) (sy sx : List Nat) :
    (∀ cy cx, (cy = 0 ∨ cx = 0) → dstTilings H W sy sx (.pair cy cx) = .error .zeroDiv) ∧
    (∀ cy cx, cy ≠ 0 → cx ≠ 0 → (cy < 0 ∨ cx < 0) → dstTilings H W sy sx (.pair cy cx) = .error .badChunks) ∧
    (∀ ys xs, (ys.sum ≠ H ∨ xs.sum ≠ W) → dstTilings H W sy sx (.var ys xs) = .error .badChunks) := by
  refine ⟨?_, ?_, ?_⟩
  · intro cy cx h
    simp [dstTilings, tilesPair, h]
  · intro cy cx h1 h2 h
    simp [dstTilings, tilesPair, h1, h2, h]
  · intro ys xs h
    simp only [dstTilings]
    split
    · rfl
    · rw [if_neg (by omega)]

example : dstTilings 5 7 [1, 3] [2, 4] .default = .ok ([(0, 3), (3, 5)], [(0, 4), (4, 7)]) := by decide +kernel
example : dstTilings 5 7 [1, 3] [2, 4] (.var [2, 0, 3] [7]) = .ok ([(0, 2), (2, 2), (2, 5)], [(0, 7)]) := by
  decide +kernel
example : dstTilings 5 7 [1, 3] [2, 4] (.pair 8 8) = .ok ([(0, 5)], [(0, 7)]) := by decide +kernel

/-! ## `with_yx` -/

/-- `with_yx` keeps the number of axes -/
theorem withYXrepl_length {α : Type} (ydim : Nat) (a : List α) (y x : α) (h : ydim + 2 ≤ a.length) :
    (withYXrepl ydim a y x).length = a.length := by
  simp [withYXrepl]
  omega

/-- the block index split inverts `with_yx`: `idx[ydim:ydim+2]` of `with_yx(idx, (y, x))` is `(y, x)` —
at the position of the spatial axes, not at the end of the index -/
theorem blockYX_withYXrepl {α : Type} (ydim : Nat) (a : List α) (y x : α) (h : ydim ≤ a.length) :
    blockYX ydim (withYXrepl ydim a y x) = some (y, x) := by
  have hl : (a.take ydim).length = ydim := by simp [h]
  have e1 : (withYXrepl ydim a y x)[ydim]? = some y := by
    simp only [withYXrepl, List.append_assoc]
    rw [List.getElem?_append_right (by omega)]
    simp [hl]
  have e2 : (withYXrepl ydim a y x)[ydim + 1]? = some x := by
    simp only [withYXrepl, List.append_assoc]
    rw [List.getElem?_append_right (by omega)]
    simp [hl]
  simp [blockYX, e1, e2]

/-- `with_yx` leaves every non-spatial axis alone -/
theorem withYXrepl_other {α : Type} (ydim : Nat) (a : List α) (y x : α) (i : Nat)
    (h : ydim + 2 ≤ a.length) (hi : i < ydim ∨ ydim + 2 ≤ i) :
    (withYXrepl ydim a y x)[i]? = a[i]? := by
  have hl : (a.take ydim).length = ydim := by simp; omega
  simp only [withYXrepl, List.append_assoc]
  rcases hi with hi | hi
  · rw [List.getElem?_append_left (by omega)]
    simp [hi]
  · rw [List.getElem?_append_right (by omega), List.getElem?_append_right (by simp; omega)]
    simp only [hl, List.length_cons, List.length_nil, List.getElem?_drop]
    congr 1
    omega

/-- the array `_dask_rio_reproject` declares has the destination shape on the spatial axes and
destination chunks that add up to it -/
theorem declared_spatial (ydim : Nat) (srcChunks : List (List Int)) (H W : Nat) (dy dx : List Span)
    (h : ydim ≤ srcChunks.length) :
    blockYX ydim (declared ydim srcChunks H W dy dx).shape = some ((H : Int), (W : Int)) ∧
    blockYX ydim (declared ydim srcChunks H W dy dx).chunks = some (spanLens dy, spanLens dx) ∧
    blockYX ydim (declared ydim srcChunks H W dy dx).blocks = some (dy.length, dx.length) := by
  refine ⟨?_, ?_, ?_⟩
  · exact blockYX_withYXrepl ydim _ _ _ (by simp [h])
  · exact blockYX_withYXrepl ydim _ _ _ h
  · have := blockYX_withYXrepl ydim srcChunks (spanLens dy) (spanLens dx) h
    simp only [declared, blockYX, List.getElem?_map] at this ⊢
    cases h1 : (withYXrepl ydim srcChunks (spanLens dy) (spanLens dx))[ydim]? with
    | none => simp [h1] at this
    | some a =>
      cases h2 : (withYXrepl ydim srcChunks (spanLens dy) (spanLens dx))[ydim + 1]? with
      | none => simp [h1, h2] at this
      | some b =>
        simp [h1, h2] at this
        rw [this.1, this.2]
        simp [spanLens]

/-! ## the public entry point, composed with the core theorem -/

/-- **`xr_reproject`: dask-backed equals numpy-backed, from the arguments.**  Same CRS, nearest
neighbour.  For EVERY `nodata` attribute, `src_nodata=`, `dst_nodata=`, EVERY form of `chunks=`
(`None`, pair, tuple of tuples), every source chunking: if the dask path builds its graph (`xrDask … =
.ok r`; the alternative is one of the errors of `dstTilings`), then every pixel of the computed array is
the pixel of the numpy-backed call.  The nodata hypothesis and the four tiling hypotheses of
`chunked_eq_whole_nn` are discharged by the glue (`xrNodata_guarantee`, `chunksTiling_isTiling`,
`dstTilings_chain`); what remains is `deps_complete` (C12; discharged on the linear path in
`Props/C13GlueC12`). -/
theorem xr_entry_chunked_eq_whole (a : XrArgs) (G : Gdal) (deps : List (TIdx × List TIdx))
    (src buf r : Img) (c : Cfg)
    (hc : xrCfg a deps = .ok c)
    (hr : xrDask a G deps src = .ok r)
    (hbuf : WF buf a.dstH a.dstW)
    (hsy : a.sy.sum = a.srcH) (hsx : a.sx.sum = a.srcW)
    (hS : a.S.det ≠ 0)
    (hvalid : DepsValid c) (hcomplete : deps_complete c)
    (hnd1 : NodataOk a.kind (xrNodata a.attrNd a.kwSrcNd a.dstNd).2)
    (hnd2 : NodataOk a.kind (xrNodata a.attrNd a.kwSrcNd a.dstNd).1)
    (d : Int × Int) (hd : 0 ≤ d.1 ∧ d.1 < a.dstH ∧ 0 ≤ d.2 ∧ d.2 < a.dstW) :
    r d = xrNumpy a G src buf d := by
  unfold xrDask at hr
  rw [hc] at hr
  simp only [bind, Except.bind] at hr
  split at hr
  · cases hr
  simp only [pure, Except.pure, Except.ok.injEq] at hr
  subst hr
  unfold xrCfg at hc
  cases ht : dstTilings a.dstH a.dstW a.sy a.sx a.chunks with
  | error e => rw [ht] at hc; simp [bind, Except.bind] at hc
  | ok t =>
    obtain ⟨dy, dx⟩ := t
    rw [ht] at hc
    simp only [bind, Except.bind, pure, Except.pure, Except.ok.injEq] at hc
    subst hc
    obtain ⟨hdy, hdx⟩ := dstTilings_chain _ _ _ _ _ _ _ ht
    have h1 := chunksTiling_isTiling a.sy
    have h2 := chunksTiling_isTiling a.sx
    rw [hsy] at h1
    rw [hsx] at h2
    exact chunked_eq_whole_xr _ G src buf a.attrNd a.kwSrcNd a.dstNd rfl rfl rfl hbuf h1 h2 hdy hdx hS
      hvalid hcomplete hnd1 hnd2 d hd

/-- the dask path fails exactly when the `chunks=` argument is rejected (at graph construction) or an
empty destination chunk is wired to source chunks (GDAL, at compute time) — in particular never for
`chunks=None` or a pair of positive tile sizes on a non-empty destination -/
theorem xrDask_error_iff (a : XrArgs) (G : Gdal) (deps : List (TIdx × List TIdx)) (src : Img) (e : GErr) :
    xrDask a G deps src = .error e ↔
      dstTilings a.dstH a.dstW a.sy a.sx a.chunks = .error e ∨
        (∃ c, xrCfg a deps = .ok c ∧ emptyTask c = true ∧ e = .gdal) := by
  unfold xrDask
  cases hc : xrCfg a deps with
  | error e' =>
    have : dstTilings a.dstH a.dstW a.sy a.sx a.chunks = .error e' := by
      unfold xrCfg at hc
      cases ht : dstTilings a.dstH a.dstW a.sy a.sx a.chunks with
      | error e'' => rw [ht] at hc; simpa [bind, Except.bind] using hc
      | ok t => obtain ⟨dy, dx⟩ := t; rw [ht] at hc; simp [bind, Except.bind, pure, Except.pure] at hc
    simp [bind, Except.bind, this]
  | ok c =>
    have : ∃ t, dstTilings a.dstH a.dstW a.sy a.sx a.chunks = .ok t := by
      unfold xrCfg at hc
      cases ht : dstTilings a.dstH a.dstW a.sy a.sx a.chunks with
      | error e'' => rw [ht] at hc; simp [bind, Except.bind] at hc
      | ok t => exact ⟨t, rfl⟩
    obtain ⟨t, ht⟩ := this
    simp only [bind, Except.bind, ht]
    by_cases he : emptyTask c = true
    · rw [if_pos he]
      constructor
      · intro h
        cases h
        exact Or.inr ⟨c, rfl, he, rfl⟩
      · rintro (h | ⟨c', _, _, rfl⟩)
        · cases h
        · rfl
    · rw [if_neg he]
      constructor
      · intro h
        cases h
      · rintro (h | ⟨c', hc', he', _⟩)
        · cases h
        · cases hc'
          exact absurd he' he

/-! ## `warp.py` entry points -/

private theorem id_inv_mul (A : Aff) : Aff.id.inv * A = A := by
  show Aff.mul Aff.id.inv A = A
  cases A
  simp [Aff.mul, Aff.inv, Aff.id, Aff.det]

/-- **`warp_affine` samples through `A`**: pixel `d` of the destination is the source pixel under
`A * centre(d)` (nearest), the destination nodata / 0 where `A` maps the centre outside the source —
i.e. `warp_affine` is the reference warp with pixel map `A` itself (the two GeoBoxes it constructs add
nothing) -/
theorem warp_affine_is_warp (V : Variant) (G : Gdal) (k : DKind) (src : Img) (sh sw : Int) (buf : Img)
    (A : Aff) (sn dn : Option Val) (d : Int × Int) :
    warpAffine V G k src sh sw buf A sn dn d =
      (gdalNearest G (encImg k src) sh sw (encImg k buf) A (encNodata V k sn) (encNodata V k dn) d).map
        (decVal k) := by
  simp only [warpAffine, rioReprojectPlane, id_inv_mul]

/-- `is_resampling_nn` accepts exactly the spellings of "nearest" that `resampling_s2rio` maps to the
`nearest` member -/
theorem isResamplingNN_iff (name : String) :
    isResamplingNN name = true ↔ resamplingS2rio name = .ok "nearest" := by
  unfold isResamplingNN resamplingS2rio
  constructor
  · intro h
    have h' : name.toLower = "nearest" := by simpa using h
    rw [h']
    decide
  · intro h
    split at h
    · simp only [Except.ok.injEq] at h
      simp [h]
    · cases h

/-- `rio_reproject` without `ydim` takes the LAST two axes as Y/X; `_dask_rio_reproject`'s own default
is `ydim=0`: on a `(time, y, x)` array the two low-level defaults name different axes
(`_xr_reproject_da` always passes `ydim`, so `xr_reproject` is not affected) -/
theorem lowlevel_ydim_defaults_differ_cex : rioYdim 3 none = 1 ∧ (1 : Nat) ≠ 0 := by decide

example : rioYdim 2 none = 0 := by decide
example : rioYdim 4 (some 1) = 1 := by decide

/-! ## keywords that reach GDAL -/

/-- after `_rio_reproject`'s injection at least one of `XSCALE` / `YSCALE` is set, and an explicit
value is never overwritten -/
theorem injectScale_spec (kw : List (String × String)) :
    (∀ p ∈ kw, p ∈ injectScale kw) ∧
    ((injectScale kw).any (fun p => p.1 = "XSCALE") ∨ (injectScale kw).any (fun p => p.1 = "YSCALE")) ∧
    (∀ p ∈ injectScale kw, p ∈ kw ∨ (p = ("XSCALE", "1") ∨ p = ("YSCALE", "1")) ∧
        ¬ (kw.any (fun p => p.1 = "XSCALE") ∨ kw.any (fun p => p.1 = "YSCALE"))) := by
  unfold injectScale
  split
  · rename_i h
    exact ⟨fun p hp => hp, h, fun p hp => Or.inl hp⟩
  · rename_i h
    refine ⟨fun p hp => by simp [hp], ?_, ?_⟩
    · left; simp
    · intro p hp
      simp only [List.mem_append, List.mem_cons, List.not_mem_nil, or_false] at hp
      rcases hp with hp | hp
      · exact Or.inl hp
      · exact Or.inr ⟨hp, h⟩

/-- **The same keywords reach GDAL from every chunk task and from the in-memory call** — resampling,
nodata pair, axis, every extra keyword, the injected `XSCALE`/`YSCALE` — and both paths reject the same
resampling names -/
theorem gdal_kw_chunk_eq_whole (r : String) (sn dn : Option Val) (ydim : Nat) (kw : List (String × String))
    (hname : ∀ p ∈ kw, p.1 ≠ "name") :
    gdalKwOfChunk r sn dn ydim kw = gdalKwOfWhole r sn dn ydim kw := by
  unfold gdalKwOfChunk gdalKwOfWhole
  rw [chunk_kw_eq_whole r sn dn ydim kw hname]

example : (gdalKwOfChunk "Cubic" none none 0 [("num_threads", "2")]).toOption =
    some ⟨"cubic", none, none, 0, [("num_threads", "2"), ("XSCALE", "1"), ("YSCALE", "1")]⟩ := by
  decide +kernel

/-! ## the hypotheses of the theorems above are satisfiable -/

example : (0 : Int) ≤ roundHAZ (5 / 2) ∧ roundHAZ (5 / 2) ≤ 255 :=
  roundHAZ_in_range 0 255 (5 / 2) (by norm_num) (by norm_num)

example : warpMasks (some (.num (5 / 2))) 3 = false := by decide +kernel

example : (resolveFillInt true ⟨0, 255⟩ ((some (3 : Int)).map RawNd.ofInt) ((none : Option Int).map RawNd.ofInt)).map Val.num =
    .ok (resolveFill ((some (3 : Int)).map Val.num) ((none : Option Int).map Val.num) .int) :=
  resolveFillInt_integral true ⟨0, 255⟩ (some 3) none (by intro n h; cases h; decide) (by intro n h; cases h)

example : blockYX 1 (withYXrepl 1 [7, 8, 9] 1 2) = some (1, 2) := blockYX_withYXrepl 1 [7, 8, 9] 1 2 (by decide)

example : (withYXrepl 1 [7, 8, 9, 10] 1 2)[3]? = [7, 8, 9, 10][3]? :=
  withYXrepl_other 1 [7, 8, 9, 10] 1 2 3 (by decide) (Or.inr (by decide))

example : (declared 1 [[2, 1], [1, 3], [2, 4]] 5 7 (regularTiling 5 2) (regularTiling 7 3)) =
    ⟨[3, 5, 7], [[2, 1], [2, 2, 1], [3, 3, 1]], [2, 3, 3]⟩ := by decide +kernel

/-! ## nodata the dtype cannot hold: both back-ends refuse alike (fix3-C13); the int8 detour -/

/-- inside the range the copy-back is the identity -/
theorem wrapInt_id (r : IRange) (v : Int) (h : r.lo ≤ v ∧ v ≤ r.hi) : wrapInt r v = v := by
  unfold wrapInt
  rw [Int.emod_eq_of_lt (by omega) (by omega)]
  omega

private theorem rioCheck_mono (r wr : IRange) (hsub : wr.lo ≤ r.lo ∧ r.hi ≤ wr.hi) (v : Option RawNd)
    (h : rioCheckInt r v = .ok ()) : rioCheckInt wr v = .ok () := by
  rcases v with _ | (_ | q)
  · rfl
  · simp [rioCheckInt] at h
  · obtain ⟨h1, h2⟩ := rioCheck_num r q h
    simp only [rioCheckInt]
    rw [if_pos]
    have e1 : (wr.lo : Rat) ≤ (r.lo : Rat) := by exact_mod_cast hsub.1
    have e2 : (r.hi : Rat) ≤ (wr.hi : Rat) := by exact_mod_cast hsub.2
    exact ⟨by linarith, by linarith⟩

private theorem warpInit_in_range (r : IRange) (h0 : r.lo ≤ 0 ∧ 0 ≤ r.hi) (d s : Option RawNd)
    (hs : rioCheckInt r s = .ok ()) (hd : rioCheckInt r d = .ok ()) :
    r.lo ≤ warpInitInt d s ∧ warpInitInt d s ≤ r.hi := by
  rcases d with _ | (_ | qd)
  · rcases s with _ | (_ | qs)
    · exact h0
    · exact h0
    · obtain ⟨h1, h2⟩ := rioCheck_num r qs hs
      exact roundHAZ_in_range r.lo r.hi qs h1 h2
  · exact h0
  · obtain ⟨h1, h2⟩ := rioCheck_num r qd hd
    exact roundHAZ_in_range r.lo r.hi qd h1 h2

/-- **`xr_reproject` treats a nodata the integer type cannot hold the same on both back-ends** (fix3-C13): for every
nodata attribute / `src_nodata=` / `dst_nodata=` (in range, out of range, fractional, NaN), every integer type `r` and
every working type `wr ⊇ r` GDAL warps it in (int8 → int16), the value of an unreached pixel in a constant dask chunk
and in the numpy-backed result are the same `Except` value: the same fill, or the same `ValueError` -/
theorem xr_fill_agree (r wr : IRange) (hsub : wr.lo ≤ r.lo ∧ r.hi ≤ wr.hi) (h0 : r.lo ≤ 0 ∧ 0 ≤ r.hi)
    (a k d : Option RawNd) : xrFillDask true r a k d = xrFillWhole true r wr a k d := by
  unfold xrFillDask xrFillWhole
  generalize xrNodataRaw a k d = nd
  simp only []
  cases hchk : xrEntryCheck true r nd.1 nd.2 with
  | error e => rfl
  | ok u =>
    have hs : rioCheckInt r nd.1 = .ok () := by
      simp only [xrEntryCheck] at hchk
      cases h : rioCheckInt r nd.1 with
      | error e => rw [h] at hchk; cases hchk
      | ok u' => rfl
    have hd : rioCheckInt r nd.2 = .ok () := by
      simp only [xrEntryCheck, hs] at hchk
      exact hchk
    have hin := warpInit_in_range r h0 nd.2 nd.1 hs hd
    have hwr : wholeFillInt wr nd.2 nd.1 = .ok (warpInitInt nd.2 nd.1) := by
      simp only [wholeFillInt, rioCheck_mono r wr hsub _ hs, rioCheck_mono r wr hsub _ hd]
    have hr : wholeFillInt r nd.2 nd.1 = .ok (warpInitInt nd.2 nd.1) := by
      simp only [wholeFillInt, hs, hd]
    simp only [wholeFillWork, hwr, Except.map, wrapInt_id r _ hin]
    exact const_fill_eq_warp_fill r nd.2 nd.1 _ hr

/-- **as found** (before fix3-C13): an int8 raster with `nodata = -200`: the numpy-backed call wraps it through int16
to 56, the dask-backed call raises `OverflowError` (replayed: oracle key `unrepresentable-nodata-one-path-refuses`) -/
theorem int8_wrap_as_found_cex :
    xrFillWhole false ⟨-128, 127⟩ ⟨-32768, 32767⟩ (some (.num (-200))) none none = .ok 56 ∧
      xrFillDask false ⟨-128, 127⟩ (some (.num (-200))) none none = .error .overflow := by
  constructor <;> decide +kernel

/-- as found, disjoint rasters: uint8 with `nodata = -9999` and an explicit `dst_nodata = 0`: constant chunks answer 0,
the in-memory path refuses -/
theorem unrepresentable_as_found_cex :
    xrFillDask false ⟨0, 255⟩ (some (.num (-9999))) none (some (.num 0)) = .ok 0 ∧
      xrFillWhole false ⟨0, 255⟩ ⟨0, 255⟩ (some (.num (-9999))) none (some (.num 0)) = .error .value := by
  constructor <;> decide +kernel

example : xrFillDask true ⟨-128, 127⟩ (some (.num (-200))) none none = .error .value ∧
    xrFillWhole true ⟨-128, 127⟩ ⟨-32768, 32767⟩ (some (.num (-200))) none none = .error .value := by
  constructor <;> decide +kernel

example : xrFillDask true ⟨-128, 127⟩ (some (.num (5 / 2))) none none = .ok 3 := by decide +kernel

/-- the float conversion is odd: negative nodata round like positive ones -/
theorem roundFloat_neg (p : Nat) (q : Rat) : roundFloat p (-q) = -(roundFloat p q) := by
  unfold roundFloat
  by_cases h0 : q = 0
  · simp [h0]
  · by_cases hp : 0 < q
    · have hn : ¬ (0 < -q) := by linarith
      have hne : -q ≠ 0 := by simpa using h0
      simp [hne, hn, h0, hp]
    · have hlt : q < 0 := lt_of_le_of_ne (not_lt.1 hp) h0
      have hn : 0 < -q := by linarith
      have hne : -q ≠ 0 := by simpa using h0
      simp [hne, hn, h0, hp]

end OdcGeo.C13
