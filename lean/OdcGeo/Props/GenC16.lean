/-
C16 — source tie.  `OdcGeo/Gen/C16.lean` is regenerated from `/repo/odc/geo/geom.py` by `tools/py2lean.py` on every run
of `check.py C16`; the theorems `tie_*` prove each regenerated definition equal to the hand model of
`OdcGeo/Model/C16.lean` for ALL inputs.  Tied: the arithmetic of `BoundingBox` (`buffered`, `span_x/y`, `width`, `height`,
`shape`, `from_xy`, `from_points`); the CRS is an opaque token that is only passed through, the constructor only stores
its arguments (declared in the manifest, exercised by the self-check).

The theorems live in OdcGeo/Props/GenC16/*.lean, one compilation unit per small group; this file only imports them all.
-/
import OdcGeo.Props.GenC16.Buffered
import OdcGeo.Props.GenC16.Span
import OdcGeo.Props.GenC16.FromPoints
