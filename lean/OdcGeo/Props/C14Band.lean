/-
C14 — point lookup under a ROUNDED arithmetic with an explicit exclusion band instead of a representability hypothesis.

FULL statement wanted: for binary64 (`fl64`), `Bin1D.bin fl64 x = Bin1D.bin id x` unless `x` lies within `ε·|x − origin|` of an edge
of its tile, `ε = 2u + u²`, `u = 2^-53`.  Proved here (`_partial`): the same for ANY rounding function that satisfies the standard
model of floating-point arithmetic `|fl q − q| ≤ u·|q|`.  Missing: the proof that `fl64` of `Model/C14.lean` satisfies that bound
(normal range; it is validated against CPython on every run and holds on every sampled value, but only the integer fixed points
are proved, `Props/C14Fl.lean`).
-/
import OdcGeo.Props.C14

namespace OdcGeo.C14

/-- two rounded operations `fl(fl(x − o) / sz)` stay within `(2u + u²)·|q|` of the exact quotient `q = (x − o)/sz` -/
theorem rounded_quotient_error (fl : Rnd) (u : Rat) (hu : 0 ≤ u) (hfl : ∀ q, |fl q - q| ≤ u * |q|)
    (x o sz : Rat) (hs : 0 < sz) :
    |fl (fl (x - o) / sz) - (x - o) / sz| ≤ (2 * u + u * u) * |(x - o) / sz| := by
  have h1 := hfl (x - o)
  have h2 := hfl (fl (x - o) / sz)
  have e1 : |fl (x - o) / sz - (x - o) / sz| ≤ u * |(x - o) / sz| := by
    rw [← sub_div, abs_div, abs_div, abs_of_pos hs, ← mul_div_assoc]
    exact div_le_div_of_nonneg_right h1 hs.le
  have e2 : |fl (x - o) / sz| ≤ (1 + u) * |(x - o) / sz| := by
    have : |fl (x - o) / sz| ≤ |fl (x - o) / sz - (x - o) / sz| + |(x - o) / sz| := by
      have := abs_add_le (fl (x - o) / sz - (x - o) / sz) ((x - o) / sz)
      simpa using this
    linarith
  have e3 : |fl (fl (x - o) / sz) - (x - o) / sz| ≤
      |fl (fl (x - o) / sz) - fl (x - o) / sz| + |fl (x - o) / sz - (x - o) / sz| := by
    have := abs_add_le (fl (fl (x - o) / sz) - fl (x - o) / sz) (fl (x - o) / sz - (x - o) / sz)
    simpa using this
  have e4 : u * |fl (x - o) / sz| ≤ u * ((1 + u) * |(x - o) / sz|) := mul_le_mul_of_nonneg_left e2 hu
  nlinarith [abs_nonneg ((x - o) / sz)]

/-- `bin_transfer_band_partial`: under the standard model of floating-point arithmetic the rounded point lookup returns the exact
    tile index for every point that keeps a distance of more than `ε·|x − origin|`, `ε = 2u + u²`, from both edges of its tile
    (distances in units of the tile size: `q − ⌊q⌋` and `⌊q⌋ + 1 − q` for `q = (x − origin)/sz`). -/
theorem bin_transfer_band_partial (fl : Rnd) (u : Rat) (hu : 0 ≤ u) (hfl : ∀ q, |fl q - q| ≤ u * |q|)
    {sz o : Rat} {d : Int} {b : Bin1D} (hb : Bin1D.new sz o d = .ok b) (x : Rat)
    (hlo : (2 * u + u * u) * |(x - b.origin) / b.sz| ≤ (x - b.origin) / b.sz - (((x - b.origin) / b.sz).floor : Rat))
    (hhi : (2 * u + u * u) * |(x - b.origin) / b.sz| < (((x - b.origin) / b.sz).floor : Rat) + 1 - (x - b.origin) / b.sz) :
    b.bin fl x = b.bin id x ∧ b.lo id (b.bin fl x) ≤ x ∧ x < b.hi id (b.bin fl x) := by
  obtain ⟨_, w⟩ := Bin1D.new_ok hb
  have herr := rounded_quotient_error fl u hu hfl x b.origin b.sz w.sz_pos
  have hq : (fl (fl (x - b.origin) / b.sz)).floor = ((x - b.origin) / b.sz).floor := by
    rw [floor_eq_iff']
    have := abs_le.mp herr
    constructor <;> linarith [this.1, this.2]
  have e := bin_transfer fl b x hq
  rw [e]
  exact ⟨rfl, (bin_mem hb x _).mp rfl⟩

/-- the hypotheses are satisfiable: exact arithmetic has `u = 0`, and then the band is empty -/
example : ∃ b, Bin1D.new (5 / 2) 1 (-1) = .ok b ∧ b.bin id 7 = -2 := ⟨⟨5 / 2, 1, -1⟩, by decide +kernel, by decide +kernel⟩

/-- binary64 satisfies the bound on sampled values (kernel evaluation): `u = 2^-53` -/
example : |fl64 (1 / 3) - 1 / 3| ≤ 1 / 2 ^ 53 * |(1 / 3 : Rat)| ∧ |fl64 (-4416000 / 7) - (-4416000 / 7)| ≤ 1 / 2 ^ 53 * |(-4416000 / 7 : Rat)| := by
  decide +kernel

end OdcGeo.C14
