/-
C10 — the paste shortcut is pixel-identical to a nearest-neighbour warp.

Property theorems only (helpers: `Lemmas/C10.lean`; planning model: `Model/C03.lean`; paste
operation: `Model/C10.lean`; reference warp: `Spec/Warp.lean`).
-/
import OdcGeo.Model.C10
import OdcGeo.Lemmas.C10
import OdcGeo.Props.C03
namespace OdcGeo.C10
open OdcGeo.C17 OdcGeo.C03

/-- **Paste = nearest-neighbour warp** (read-shrink 1).  `S` is the snapped transform the plan was
computed from (`box_overlap src dst S`), `A` the *true* destination→source transform.  For every
destination pixel whose true centre image is within half a pixel of the snapped one (always the
case for a pure sub-pixel residue `|ε| < ttol ≤ ½`; for a scale residue `δ` as long as
`|δ|·N + |ε| < ½`), the pasted image — `roi_src` copied into `roi_dst`, reversed along mirrored axes,
`nodata` elsewhere — has exactly the value the nearest-neighbour warp of the whole source
produces, for any pixel type `α`. -/
theorem paste_eq_warp {α : Type} (img : Int → Int → α) (nodata : α) (src dst : Shape) (S A : Aff) (tx ty : Int)
    (hS : IsUnitST S tx ty) (hs : 0 ≤ src.1 ∧ 0 ≤ src.2) (hd : 0 ≤ dst.1 ∧ 0 ≤ dst.2)
    (r : ROI × ROI) (h : boxOverlap src dst S = .ok r) (dy dx : Int)
    (hdy : 0 ≤ dy ∧ dy < dst.1) (hdx : 0 ≤ dx ∧ dx < dst.2)
    (hnx : rabs ((A.apply ((dx : Rat) + 1 / 2, (dy : Rat) + 1 / 2)).1 - (S.apply ((dx : Rat) + 1 / 2, (dy : Rat) + 1 / 2)).1) < 1 / 2)
    (hny : rabs ((A.apply ((dx : Rat) + 1 / 2, (dy : Rat) + 1 / 2)).2 - (S.apply ((dx : Rat) + 1 / 2, (dy : Rat) + 1 / 2)).2) < 1 / 2) :
    pasted img (decide (S.e < 0)) (decide (S.a < 0)) r.1 r.2 nodata dy dx = Warp.nnWarp img src A nodata dy dx := by
  obtain ⟨yy, xx, hy, hx, rfl⟩ := boxOverlap_ok h
  have ex : (S.apply ((dx : Rat) + 1 / 2, (dy : Rat) + 1 / 2)).1 = S.a * ((dx : Rat) + 1 / 2) + (tx : Rat) := by
    simp [Aff.apply, hS.b0, hS.c]
  have ey : (S.apply ((dx : Rat) + 1 / 2, (dy : Rat) + 1 / 2)).2 = S.e * ((dy : Rat) + 1 / 2) + (ty : Rat) := by
    simp [Aff.apply, hS.d0, hS.f]
  rw [ex] at hnx
  rw [ey] at hny
  rw [hS.c] at hx
  rw [hS.f] at hy
  have px := paste_axis src.2 dst.2 S.a tx hS.a1 hs.2 hd.2 xx hx dx hdx _ hnx
  have py := paste_axis src.1 dst.1 S.e ty hS.e1 hs.1 hd.1 yy hy dy hdy _ hny
  simp only [Warp.nnWarp, pasted, px, py]
  by_cases my : yy.2.start ≤ dy ∧ dy < yy.2.stop <;> by_cases mx : xx.2.start ≤ dx ∧ dx < xx.2.stop
  · rw [if_pos my, if_pos mx, if_pos ⟨my.1, my.2, mx.1, mx.2⟩]
  · rw [if_pos my, if_neg mx, if_neg (fun hc => mx ⟨hc.2.2.1, hc.2.2.2⟩)]
  · rw [if_neg my, if_neg (fun hc => my ⟨hc.1, hc.2.1⟩)]
  · rw [if_neg my, if_neg (fun hc => my ⟨hc.1, hc.2.1⟩)]

/-- **Equal shapes.**  For a snapped transform the planned source and destination regions have the
same shape (what a direct copy needs). -/
theorem paste_roi_shapes_equal (src dst : Shape) (S : Aff) (tx ty : Int) (hS : IsUnitST S tx ty)
    (hs : 0 ≤ src.1 ∧ 0 ≤ src.2) (hd : 0 ≤ dst.1 ∧ 0 ≤ dst.2) (r : ROI × ROI)
    (h : boxOverlap src dst S = .ok r) :
    r.1.1.stop - r.1.1.start = r.2.1.stop - r.2.1.start ∧ r.1.2.stop - r.1.2.start = r.2.2.stop - r.2.2.start := by
  obtain ⟨yy, xx, hy, hx, rfl⟩ := boxOverlap_ok h
  rw [hS.c] at hx
  rw [hS.f] at hy
  constructor
  · rcases hS.e1 with e | e <;> rw [e] at hy
    · exact (axis_unit_pos _ _ _ hs.1 hd.1 yy hy).2.2
    · exact (axis_unit_neg _ _ _ hs.1 hd.1 yy hy).2.2
  · rcases hS.a1 with e | e <;> rw [e] at hx
    · exact (axis_unit_pos _ _ _ hs.2 hd.2 xx hx).2.2
    · exact (axis_unit_neg _ _ _ hs.2 hd.2 xx hx).2.2

/-- The destination region of a snapped plan is *exactly* the set of destination pixels whose
snapped centre falls inside the source image (nothing needed is dropped, nothing outside is
overwritten). -/
theorem paste_dst_exact (src dst : Shape) (S : Aff) (tx ty : Int) (hS : IsUnitST S tx ty)
    (hs : 0 ≤ src.1 ∧ 0 ≤ src.2) (hd : 0 ≤ dst.1 ∧ 0 ≤ dst.2) (r : ROI × ROI)
    (h : boxOverlap src dst S = .ok r) (dy dx : Int) (hdy : 0 ≤ dy ∧ dy < dst.1) (hdx : 0 ≤ dx ∧ dx < dst.2) :
    ((r.2.1.start ≤ dy ∧ dy < r.2.1.stop) ∧ (r.2.2.start ≤ dx ∧ dx < r.2.2.stop)) ↔
    ((Warp.nnIndex src.1 (S.apply ((dx : Rat) + 1 / 2, (dy : Rat) + 1 / 2)).2).isSome ∧
     (Warp.nnIndex src.2 (S.apply ((dx : Rat) + 1 / 2, (dy : Rat) + 1 / 2)).1).isSome) := by
  obtain ⟨yy, xx, hy, hx, rfl⟩ := boxOverlap_ok h
  have ex : (S.apply ((dx : Rat) + 1 / 2, (dy : Rat) + 1 / 2)).1 = S.a * ((dx : Rat) + 1 / 2) + (tx : Rat) := by
    simp [Aff.apply, hS.b0, hS.c]
  have ey : (S.apply ((dx : Rat) + 1 / 2, (dy : Rat) + 1 / 2)).2 = S.e * ((dy : Rat) + 1 / 2) + (ty : Rat) := by
    simp [Aff.apply, hS.d0, hS.f]
  rw [hS.c] at hx
  rw [hS.f] at hy
  have z : rabs (0 : Rat) < 1 / 2 := by simp [rabs]
  have px := paste_axis src.2 dst.2 S.a tx hS.a1 hs.2 hd.2 xx hx dx hdx (S.a * ((dx : Rat) + 1 / 2) + (tx : Rat)) (by simpa using z)
  have py := paste_axis src.1 dst.1 S.e ty hS.e1 hs.1 hd.1 yy hy dy hdy (S.e * ((dy : Rat) + 1 / 2) + (ty : Rat)) (by simpa using z)
  rw [ex, ey, px, py]
  by_cases my : yy.2.start ≤ dy ∧ dy < yy.2.stop <;> by_cases mx : xx.2.start ≤ dx ∧ dx < xx.2.stop <;>
    simp [my, mx]

/-- Counterexample to "paste = warp" without the half-pixel bound (model side of known finding
`paste-scale-drift-differs-from-warp`): true x-scale `1 + 1/1024` (within `stol = 1e-3`, so snapped
to 1), 2048-pixel row holding its own column index.  The plan copies column 2000 to column 2000,
the nearest-neighbour warp reads column `⌊2000.5·1025/1024⌋ = 2002`. -/
theorem paste_drift_warp_cex :
    boxOverlap (1, 2048) (1, 2048) ⟨1, 0, 0, 0, 1, 0⟩ = .ok ((⟨0, 1⟩, ⟨0, 2048⟩), (⟨0, 1⟩, ⟨0, 2048⟩)) ∧
    pasted (fun _ c => c) false false (⟨0, 1⟩, ⟨0, 2048⟩) (⟨0, 1⟩, ⟨0, 2048⟩) (-1) 0 2000 = 2000 ∧
    Warp.nnWarp (fun _ c => c) (1, 2048) ⟨1025 / 1024, 0, 0, 0, 1, 0⟩ (-1) 0 2000 = 2002 := by
  refine ⟨by decide +kernel, by decide +kernel, by decide +kernel⟩


/-! ## `maybe_int` / `is_almost_int`: nearest-integer semantics for EVERY tolerance -/

/-- **`maybe_int` snaps to the nearest integer, whatever the tolerance** (also `tol > ½`, `tol ≤ 0`, huge).
There is an integer `k` with `|x - k| ≤ ½` (a nearest integer) such that `maybe_int x tol` is `k` when
`|x - k| < tol` and `x` itself otherwise; so the result never moves `x` by more than half a unit, and never by
`tol` or more.  (A truncating shortcut `int(x)` violates this for `tol > ½`: `-19.7 ↦ -19`.) -/
theorem maybe_int_nearest (x tol : Rat) :
    ∃ k : Int, rabs (x - k) ≤ 1 / 2 ∧
      ((rabs (x - k) < tol ∧ maybeInt x tol = (k : Rat)) ∨ (¬ rabs (x - k) < tol ∧ maybeInt x tol = x)) := by
  obtain ⟨k, e1, e2, e3⟩ := splitFloat_spec x
  refine ⟨k, by rw [e3]; exact nearMeasure_le_half x, ?_⟩
  unfold maybeInt
  by_cases h : rabs (x - k) < tol
  · left; exact ⟨h, by simp only [e2, h, if_true, e1]⟩
  · right; exact ⟨h, by simp only [e2, h, if_false]⟩

/-- `is_almost_int` agrees with `maybe_int` for every tolerance: it holds exactly when `maybe_int` snaps, and then
the snapped value is an integer within `tol` and within half a unit of `x`. -/
theorem is_almost_int_iff_snaps (x tol : Rat) :
    isAlmostInt x tol = true ↔ ∃ k : Int, rabs (x - k) ≤ 1 / 2 ∧ rabs (x - k) < tol ∧ maybeInt x tol = (k : Rat) := by
  obtain ⟨k, e1, e2, e3⟩ := splitFloat_spec x
  rw [isAlmostInt_eq, decide_eq_true_eq]
  constructor
  · intro h
    refine ⟨k, by rw [e3]; exact nearMeasure_le_half x, by rw [e3]; exact h, ?_⟩
    unfold maybeInt
    have : rabs (x - k) < tol := by rw [e3]; exact h
    simp only [e2, this, if_true, e1]
  · rintro ⟨j, hj1, hj2, _⟩
    -- the nearest-integer distance is minimal: `nearMeasure x ≤ |x - j|` for every integer `j`
    have hk : rabs (x - k) ≤ 1 / 2 := by rw [e3]; exact nearMeasure_le_half x
    have hj := (rabs_le_iff _ _).mp hj1
    have hk' := (rabs_le_iff _ _).mp hk
    by_cases hjk : j = k
    · subst hjk; rw [← e3]; exact hj2
    · -- two different integers both within ½ of x: then both distances are exactly ½
      have d1 : (j : Rat) - k ≤ 1 := by linarith [hj.1, hk'.2]
      have d2 : (k : Rat) - j ≤ 1 := by linarith [hj.2, hk'.1]
      have d1' : j - k ≤ 1 := by exact_mod_cast d1
      have d2' : k - j ≤ 1 := by exact_mod_cast d2
      have hcase : j = k + 1 ∨ k = j + 1 := by omega
      rw [← e3]
      have hj2' := (rabs_lt_iff _ _).mp hj2
      rw [rabs_lt_iff]
      rcases hcase with c | c
      · have : (j : Rat) = k + 1 := by exact_mod_cast c
        constructor <;> linarith [hj.1, hj.2, hk'.1, hk'.2, hj2'.1, hj2'.2]
      · have : (k : Rat) = j + 1 := by exact_mod_cast c
        constructor <;> linarith [hj.1, hj.2, hk'.1, hk'.2, hj2'.1, hj2'.2]

/-- **`snap_scale` snaps the whole band** `||s| − 1| < tol` (`tol ≤ ½`) to exactly `±1`, sign kept — in particular
scales *below* one, `1 − tol < |s| < 1`, which are NOT all within `tol` of 1 after inversion (`1/s` can exceed
`1 + tol`): the test `|s| ≥ 1 − tol` must come before the `1/<int>` branch. -/
theorem snap_scale_unit_band (s tol : Rat) (htol : tol ≤ 1 / 2) (h : rabs (rabs s - 1) < tol) :
    snapScale s tol = if s < 0 then -1 else 1 :=
  snapScale_unit s tol htol h

/-- **Read-shrink `k`: the shift is snapped in OVERVIEW pixels.**  When pasting is reported, the offsets taken into
the `k`-fold overview, `A.c / k` and `A.f / k`, are within `ttol` of whole numbers `kx, ky` and `maybe_int` returns
exactly those: the planned overview transform has whole-overview-pixel offsets (a multiple of `k` source pixels),
not merely whole source pixels.  (Snapping at native resolution with `ttol·k` instead would accept `k·kx + 1`.) -/
theorem paste_overview_shift_snaps (A : Aff) (n stol ttol : Rat) (h : canPaste A n stol ttol = .ok true) :
    ∃ (rs kx ky : Int), pickReadScale (min (scale2 A n).1 (scale2 A n).2) = .ok rs ∧ 1 ≤ rs ∧
      rabs (A.c / rs - kx) < ttol ∧ maybeInt (A.c / rs) ttol = (kx : Rat) ∧
      rabs (A.f / rs - ky) < ttol ∧ maybeInt (A.f / rs) ttol = (ky : Rat) ∧
      (snapAffine (overviewTr A rs) ttol stol).c = (kx : Rat) ∧ (snapAffine (overviewTr A rs) ttol stol).f = (ky : Rat) := by
  obtain ⟨rs, hc⟩ := (canPaste_true_iff A n stol ttol).mp h
  have ec : (overviewTr A rs).c = A.c / rs := by
    simp only [overviewTr, Aff.scale, Aff.mul_def, Aff.mul]; ring
  have ef : (overviewTr A rs).f = A.f / rs := by
    simp only [overviewTr, Aff.scale, Aff.mul_def, Aff.mul]; ring
  obtain ⟨kx, hkx, mkx⟩ := isAlmostInt_spec _ _ hc.tx
  obtain ⟨ky, hky, mky⟩ := isAlmostInt_spec _ _ hc.ty
  have hst := hc.st
  simp only [isAffineST, Bool.and_eq_true, decide_eq_true_eq] at hst
  have hrs := read_shrink_pos_int _ _ _ hc.hrs
  have hrq : (1 : Rat) ≤ rs := by exact_mod_cast hrs
  have htol : tol1em10 < tol1em8 := by decide +kernel
  -- the overview transform has even smaller off-diagonal terms, so `snap_affine` takes the snapping branch
  have eb : (overviewTr A rs).b = A.b / rs := by
    simp only [overviewTr, Aff.scale, Aff.mul_def, Aff.mul]; ring
  have ed : (overviewTr A rs).d = A.d / rs := by
    simp only [overviewTr, Aff.scale, Aff.mul_def, Aff.mul]; ring
  have small : ∀ v : Rat, rabs v < tol1em10 → ¬ rabs (v / rs) > tol1em8 := by
    intro v hv hgt
    have hpos : (0 : Rat) < rs := by linarith
    have h1 := (rabs_lt_iff _ _).mp hv
    have : rabs (v / rs) ≤ rabs v := by
      rw [rabs_le_iff]
      have hv0 : 0 ≤ rabs v := by unfold rabs; split_ifs <;> linarith
      have hle : rabs v ≤ rabs v * rs := by nlinarith
      have a1 : v ≤ rabs v := by unfold rabs; split_ifs <;> linarith
      have a2 : -rabs v ≤ v := by unfold rabs; split_ifs <;> linarith
      constructor
      · rw [le_div_iff₀ hpos]; nlinarith
      · rw [div_le_iff₀ hpos]; nlinarith
    linarith
  have hsnap : ¬ (rabs (overviewTr A rs).b > tol1em8 ∨ rabs (overviewTr A rs).d > tol1em8) := by
    rw [eb, ed]
    rintro (hh | hh)
    · exact small _ hst.1 hh
    · exact small _ hst.2 hh
  refine ⟨rs, kx, ky, hc.hrs, hrs, by rw [← ec]; exact hkx, by rw [← ec]; exact mkx,
    by rw [← ef]; exact hky, by rw [← ef]; exact mky, ?_, ?_⟩
  · unfold snapAffine; rw [if_neg hsnap]; exact mkx
  · unfold snapAffine; rw [if_neg hsnap]; exact mky

/-! ## paste eligibility: `_can_paste` -/

/-- **Soundness of `paste_ok`.**  Pasting is reported only for transforms without rotation/shear
(off-diagonal terms below `1e-10`), whose scale is within `stol` of an integer, and which — taken
into the `rs`-fold overview (`rs` the read-shrink of that scale) — have both axis scales within
`stol` of `±1` and both offsets within `ttol` of whole pixels. -/
theorem can_paste_sound (A : Aff) (n stol ttol : Rat) (h : canPaste A n stol ttol = .ok true) :
    rabs A.b < tol1em10 ∧ rabs A.d < tol1em10 ∧
    (∃ ks : Int, rabs (min (scale2 A n).1 (scale2 A n).2 - ks) < stol) ∧
    ∃ rs : Int, pickReadScale (min (scale2 A n).1 (scale2 A n).2) = .ok rs ∧ 1 ≤ rs ∧
      rabs (rabs (overviewTr A rs).a - 1) < stol ∧ rabs (rabs (overviewTr A rs).e - 1) < stol ∧
      (∃ kx : Int, rabs ((overviewTr A rs).c - kx) < ttol) ∧ (∃ ky : Int, rabs ((overviewTr A rs).f - ky) < ttol) := by
  obtain ⟨rs, hc⟩ := (canPaste_true_iff A n stol ttol).mp h
  have hst := hc.st
  simp only [isAffineST, Bool.and_eq_true, decide_eq_true_eq] at hst
  obtain ⟨ks, hks, _⟩ := isAlmostInt_spec _ _ hc.scaleInt
  obtain ⟨kx, hkx, _⟩ := isAlmostInt_spec _ _ hc.tx
  obtain ⟨ky, hky, _⟩ := isAlmostInt_spec _ _ hc.ty
  exact ⟨hst.1, hst.2, ⟨ks, hks⟩, rs, hc.hrs, read_shrink_pos_int _ _ _ hc.hrs, hc.sx, hc.sy, ⟨kx, hkx⟩, ⟨ky, hky⟩⟩

/-- **Rejection.**  Rotation or shear of `1e-10` or more, a scale `stol` or more away from every
integer, an overview axis scale `stol` or more away from `±1`, or an overview offset `ttol` or more
away from every whole pixel: pasting is never reported. -/
theorem can_paste_rejects (A : Aff) (n stol ttol : Rat)
    (h : rabs A.b ≥ tol1em10 ∨ rabs A.d ≥ tol1em10 ∨
      (∀ ks : Int, rabs (min (scale2 A n).1 (scale2 A n).2 - ks) ≥ stol) ∨
      (∀ rs : Int, pickReadScale (min (scale2 A n).1 (scale2 A n).2) = .ok rs →
        (rabs (rabs (overviewTr A rs).a - 1) ≥ stol ∨ rabs (rabs (overviewTr A rs).e - 1) ≥ stol ∨
         (∀ k : Int, rabs ((overviewTr A rs).c - k) ≥ ttol) ∨ (∀ k : Int, rabs ((overviewTr A rs).f - k) ≥ ttol)))) :
    canPaste A n stol ttol ≠ .ok true := by
  intro hc
  obtain ⟨h1, h2, ⟨ks, h3⟩, rs, h4, _, h5, h6, ⟨kx, h7⟩, ⟨ky, h8⟩⟩ := can_paste_sound A n stol ttol hc
  rcases h with h | h | h | h
  · exact absurd h1 (not_lt.mpr h)
  · exact absurd h2 (not_lt.mpr h)
  · exact absurd h3 (not_lt.mpr (h ks))
  · rcases h rs h4 with h | h | h | h
    · exact absurd h5 (not_lt.mpr h)
    · exact absurd h6 (not_lt.mpr h)
    · exact absurd h7 (not_lt.mpr (h kx))
    · exact absurd h8 (not_lt.mpr (h ky))

/-- `_can_paste` never raises for a transform with a positive scale. -/
theorem can_paste_total (A : Aff) (n stol ttol : Rat) (hn : 0 < min (scale2 A n).1 (scale2 A n).2) :
    ∃ b, canPaste A n stol ttol = .ok b := by
  unfold canPaste
  by_cases c1 : isAffineST A = true
  · simp only [c1, not_true_eq_false, if_false]
    by_cases c2 : isAlmostInt (min (scale2 A n).1 (scale2 A n).2) stol = true
    · simp only [c2, not_true_eq_false, if_false]
      cases h3 : pickReadScale (min (scale2 A n).1 (scale2 A n).2) with
      | error e => exact absurd ((read_shrink_error_iff _ _).mp ⟨e, h3⟩) (not_le.mpr hn)
      | ok rs =>
        simp only
        split_ifs
        · exact ⟨false, rfl⟩
        · exact ⟨true, rfl⟩
        · exact ⟨false, rfl⟩
    · exact ⟨false, by simp [c2]⟩
  · exact ⟨false, by simp [c1]⟩

/-! ## the plan with `paste_ok` -/

/-- **Read-shrink 1: the plan is `box_overlap` of a unit transform.**  With `paste_ok`, read-shrink 1
and tolerances `stol, ttol ≤ ½`, the snapped transform `S = snap_affine A` has unit scales with the
signs of `A`, whole-pixel offsets within `ttol` of those of `A`, and the planned regions are
`box_overlap src dst S` — so `paste_eq_warp`, `paste_roi_shapes_equal`, `paste_dst_exact` apply. -/
theorem plan_paste_snapped (src dst : Shape) (fwd A : Aff) (n ttol stol : Rat) (padding align : Option Int)
    (p : Plan) (h : reprojectLinear src dst fwd A n ttol stol padding align = .ok p) (hp : p.pasteOk = true)
    (hrs : p.readShrink = 1) (hstol : stol ≤ 1 / 2) :
    ∃ tx ty : Int, IsUnitST (snapAffine A ttol stol) tx ty ∧
      boxOverlap src dst (snapAffine A ttol stol) = .ok (p.roiSrc, p.roiDst) ∧
      ((snapAffine A ttol stol).a < 0 ↔ A.a < 0) ∧ ((snapAffine A ttol stol).e < 0 ↔ A.e < 0) ∧
      rabs (A.c - tx) < ttol ∧ rabs (A.f - ty) < ttol ∧
      rabs (rabs A.a - 1) < stol ∧ rabs (rabs A.e - 1) < stol ∧ rabs A.b < tol1em10 ∧ rabs A.d < tol1em10 := by
  obtain ⟨hcp, _, _, hbox⟩ := plan_paste_is_box src dst fwd A n ttol stol padding align p h hp
  obtain ⟨h1, _, _, _⟩ := reprojectLinear_cases h
  obtain ⟨rs, hc⟩ := (canPaste_true_iff A n stol ttol).mp hcp
  have hrs1 : rs = 1 := by
    have := hc.hrs; rw [h1, hrs] at this
    simp only [Except.ok.injEq] at this; exact this.symm
  subst hrs1
  have hov : overviewTr A 1 = A := by
    obtain ⟨a, b, c, d, e, f⟩ := A
    simp [overviewTr, Aff.scale, Aff.mul_def, Aff.mul]
  have hsx := hc.sx; have hsy := hc.sy; have htx := hc.tx; have hty := hc.ty
  rw [hov] at hsx hsy htx hty
  have hst := hc.st
  simp only [isAffineST, Bool.and_eq_true, decide_eq_true_eq] at hst
  obtain ⟨kx, hkx, mkx⟩ := isAlmostInt_spec _ _ htx
  obtain ⟨ky, hky, mky⟩ := isAlmostInt_spec _ _ hty
  have htol : tol1em10 < tol1em8 := by decide +kernel
  have hsnap : snapAffine A ttol stol =
      ⟨if A.a < 0 then -1 else 1, 0, (kx : Rat), 0, if A.e < 0 then -1 else 1, (ky : Rat)⟩ := by
    unfold snapAffine
    rw [if_neg (by
      rintro (hh | hh)
      · exact absurd (lt_trans hst.1 htol) (not_lt.mpr (le_of_lt hh))
      · exact absurd (lt_trans hst.2 htol) (not_lt.mpr (le_of_lt hh)))]
    rw [snapScale_unit A.a stol hstol hsx, snapScale_unit A.e stol hstol hsy, mkx, mky]
  have hbox' : boxOverlap src dst (snapAffine A ttol stol) = .ok (p.roiSrc, p.roiDst) := by
    rcases hbox with ⟨_, hb⟩ | ⟨hne, _⟩
    · exact hb
    · exact absurd hrs hne
  refine ⟨kx, ky, ?_, hbox', ?_, ?_, hkx, hky, hsx, hsy, hst.1, hst.2⟩
  · rw [hsnap]
    refine ⟨rfl, rfl, ?_, ?_, rfl, rfl⟩
    · simp only; split_ifs <;> simp
    · simp only; split_ifs <;> simp
  · rw [hsnap]; simp only; split_ifs with c <;> simp [c]
  · rw [hsnap]; simp only; split_ifs with c <;> simp [c]

/-- **Headline: paste = nearest-neighbour warp for whole-pixel shifts with a sub-pixel residue,
mirrored or not.**  If the true transform has exactly unit scales (`A.a, A.e ∈ {1, -1}`, no
rotation) and the plan reports `paste_ok` with read-shrink 1 (so the offsets are within
`ttol ≤ ½` of whole pixels), then for *every* destination pixel and every pixel type the pasted image
equals the nearest-neighbour warp of the whole source under the true transform. -/
theorem plan_paste_eq_warp_shift {α : Type} (img : Int → Int → α) (nodata : α) (src dst : Shape) (fwd A : Aff)
    (n ttol stol : Rat) (padding align : Option Int) (p : Plan)
    (h : reprojectLinear src dst fwd A n ttol stol padding align = .ok p) (hp : p.pasteOk = true)
    (hrs : p.readShrink = 1) (hstol : stol ≤ 1 / 2) (httol : ttol ≤ 1 / 2)
    (hs : 0 ≤ src.1 ∧ 0 ≤ src.2) (hd : 0 ≤ dst.1 ∧ 0 ≤ dst.2)
    (ha : A.a = 1 ∨ A.a = -1) (he : A.e = 1 ∨ A.e = -1) (hb : A.b = 0) (hd' : A.d = 0)
    (dy dx : Int) (hdy : 0 ≤ dy ∧ dy < dst.1) (hdx : 0 ≤ dx ∧ dx < dst.2) :
    pasted img (decide (A.e < 0)) (decide (A.a < 0)) p.roiSrc p.roiDst nodata dy dx =
      Warp.nnWarp img src A nodata dy dx := by
  obtain ⟨tx, ty, hS, hbox, sa, se, hcx, hcy, _⟩ :=
    plan_paste_snapped src dst fwd A n ttol stol padding align p h hp hrs hstol
  have key := paste_eq_warp img nodata src dst (snapAffine A ttol stol) A tx ty hS hs hd _ hbox dy dx hdy hdx
  have eSa : (snapAffine A ttol stol).a = A.a := by
    rcases hS.a1 with e | e <;> rcases ha with e' | e' <;> rw [e, e'] at sa <;> rw [e, e'] <;> norm_num at sa
  have eSe : (snapAffine A ttol stol).e = A.e := by
    rcases hS.e1 with e | e <;> rcases he with e' | e' <;> rw [e, e'] at se <;> rw [e, e'] <;> norm_num at se
  have k := key
    (by
      simp only [Aff.apply, hS.b0, hS.c, eSa, hb]
      have : A.a * ((dx : Rat) + 1 / 2) + 0 * ((dy : Rat) + 1 / 2) + A.c - (A.a * ((dx : Rat) + 1 / 2) + 0 * ((dy : Rat) + 1 / 2) + (tx : Rat))
          = A.c - tx := by ring
      rw [this]; exact lt_of_lt_of_le hcx httol)
    (by
      simp only [Aff.apply, hS.d0, hS.f, eSe, hd']
      have : 0 * ((dx : Rat) + 1 / 2) + A.e * ((dy : Rat) + 1 / 2) + A.f - (0 * ((dx : Rat) + 1 / 2) + A.e * ((dy : Rat) + 1 / 2) + (ty : Rat))
          = A.f - ty := by ring
      rw [this]; exact lt_of_lt_of_le hcy httol)
  rw [eSa, eSe] at k
  exact k

/-- **Read-shrink `k > 1`.**  The planned source region is exactly `k` times a region of the `k`-fold
overview (`scaled_up_roi`), and that overview region and the destination region come from one
`box_overlap` of the snapped overview transform. -/
theorem shrink_roi_scaled (src dst : Shape) (fwd A : Aff) (n ttol stol : Rat) (padding align : Option Int)
    (p : Plan) (h : reprojectLinear src dst fwd A n ttol stol padding align = .ok p) (hp : p.pasteOk = true)
    (hrs : p.readShrink ≠ 1) :
    ∃ r' : ROI,
      p.roiSrc = (⟨r'.1.start * p.readShrink, r'.1.stop * p.readShrink⟩, ⟨r'.2.start * p.readShrink, r'.2.stop * p.readShrink⟩) ∧
      boxOverlap (zoomOutDim src.1 p.readShrink, zoomOutDim src.2 p.readShrink) dst
        (snapAffine (overviewTr A p.readShrink) ttol stol) = .ok (r', p.roiDst) ∧
      (∀ tx ty, IsUnitST (snapAffine (overviewTr A p.readShrink) ttol stol) tx ty → 0 ≤ dst.1 ∧ 0 ≤ dst.2 →
        r'.1.stop - r'.1.start = p.roiDst.1.stop - p.roiDst.1.start ∧
        r'.2.stop - r'.2.start = p.roiDst.2.stop - p.roiDst.2.start) := by
  obtain ⟨_, _, _, hbox⟩ := plan_paste_is_box src dst fwd A n ttol stol padding align p h hp
  rcases hbox with ⟨h1, _⟩ | ⟨_, r', hb, hsrc⟩
  · exact absurd h1 hrs
  · refine ⟨r', ?_, hb, fun tx ty hS hd => ?_⟩
    · rw [hsrc]; simp [scaledUpROI, scaledUpSlice]
    · have := paste_roi_shapes_equal (zoomOutDim src.1 p.readShrink, zoomOutDim src.2 p.readShrink) dst _ tx ty hS
        ⟨by simp only [zoomOutDim]; omega, by simp only [zoomOutDim]; omega⟩ hd _ hb
      exact this

/-! ## the int8 / bool conversion detour of `_rio_reproject` is transparent -/

/-- every value the nearest-neighbour warp produces is a source pixel, the previous destination pixel, or the fill -/
theorem gdalNN_mem (src dst : Int → Int → Int) (shape : Int × Int) (A : Aff) (sn dn : Option Int) (init : Bool)
    (dy dx : Int) :
    (∃ iy ix, gdalNN src dst shape A sn dn init dy dx = src iy ix) ∨
    gdalNN src dst shape A sn dn init dy dx = dst dy dx ∨ gdalNN src dst shape A sn dn init dy dx = effFill sn dn := by
  unfold gdalNN
  simp only
  have hrest : (if init = true then effFill sn dn else dst dy dx) = dst dy dx ∨
      (if init = true then effFill sn dn else dst dy dx) = effFill sn dn := by
    cases init <;> simp
  cases nnPick shape A dy dx with
  | none => exact Or.inr hrest
  | some p =>
    simp only
    by_cases hm : sn = some (src p.1 p.2)
    · rw [if_pos hm]; exact Or.inr hrest
    · rw [if_neg hm]; exact Or.inl ⟨p.1, p.2, rfl⟩

theorem wrap8_id (v : Int) (h : -128 ≤ v ∧ v ≤ 127) : wrap8 v = v := by
  unfold wrap8; omega

/-- **int8: convert → warp → convert back is the warp.**  For an int8 raster (all source / destination pixels and the
nodata values in `[-128, 127]`) `_rio_reproject` returns exactly what the nearest-neighbour warp at the native type
would: every destination pixel, previous destination content and `init_dest_nodata=False` included. -/
theorem detour_transparent_int8 (src dst : Int → Int → Int) (shape : Int × Int) (A : Aff) (sn dn : Option Int)
    (init : Bool) (dy dx : Int)
    (hs : ∀ i j, -128 ≤ src i j ∧ src i j ≤ 127) (hd : -128 ≤ dst dy dx ∧ dst dy dx ≤ 127)
    (hsn : ∀ v, sn = some v → -128 ≤ v ∧ v ≤ 127) (hdn : ∀ v, dn = some v → -128 ≤ v ∧ v ≤ 127) :
    rioNN .int8 src dst shape A sn dn init dy dx = gdalNN src dst shape A sn dn init dy dx := by
  have e : rioNN .int8 src dst shape A sn dn init dy dx = wrap8 (gdalNN src dst shape A sn dn init dy dx) := by
    simp [rioNN, fromWork, toWork, stretchNodata]
  rw [e]
  apply wrap8_id
  have hf : -128 ≤ effFill sn dn ∧ effFill sn dn ≤ 127 := by
    unfold effFill
    cases dn with
    | some v => exact hdn v rfl
    | none => cases sn with
      | some v => exact hsn v rfl
      | none => simp
  rcases gdalNN_mem src dst shape A sn dn init dy dx with ⟨iy, ix, h⟩ | h | h
  · rw [h]; exact hs iy ix
  · rw [h]; exact hd
  · rw [h]; exact hf

/-- **bool: the `0/255` stretch is transparent too.**  For a boolean raster (pixels and nodata values `0` or `1`) the
detour — stretch source, destination and nodata to `0 / 255`, warp, threshold at 127 — returns exactly the
nearest-neighbour warp at the native type, previous destination content included.  (Warping into a *fresh zero*
work array instead of the converted destination breaks this for `init = false`.) -/
theorem detour_transparent_bool (src dst : Int → Int → Int) (shape : Int × Int) (A : Aff) (sn dn : Option Int)
    (init : Bool) (dy dx : Int)
    (hs : ∀ i j, src i j = 0 ∨ src i j = 1) (hd : dst dy dx = 0 ∨ dst dy dx = 1)
    (hsn : ∀ v, sn = some v → v = 0 ∨ v = 1) (hdn : ∀ v, dn = some v → v = 0 ∨ v = 1) :
    rioNN .bool src dst shape A sn dn init dy dx = gdalNN src dst shape A sn dn init dy dx := by
  have hsn' : sn = none ∨ sn = some 0 ∨ sn = some 1 := by
    cases sn with
    | none => left; rfl
    | some v => rcases hsn v rfl with rfl | rfl <;> simp
  have hdn' : dn = none ∨ dn = some 0 ∨ dn = some 1 := by
    cases dn with
    | none => left; rfl
    | some v => rcases hdn v rfl with rfl | rfl <;> simp
  unfold rioNN gdalNN
  simp only [fromWork, toWork]
  cases nnPick shape A dy dx with
  | none =>
    rcases hd with h | h <;> rcases hsn' with rfl | rfl | rfl <;> rcases hdn' with rfl | rfl | rfl <;> cases init <;>
      simp [h, effFill, stretchNodata]
  | some p =>
    rcases hs p.1 p.2 with h1 | h1 <;> rcases hd with h | h <;> rcases hsn' with rfl | rfl | rfl <;>
      rcases hdn' with rfl | rfl | rfl <;> cases init <;> simp [h1, h, effFill, stretchNodata]

/-- other pixel types are aliased: no conversion at all -/
theorem detour_other (src dst : Int → Int → Int) (shape : Int × Int) (A : Aff) (sn dn : Option Int) (init : Bool)
    (dy dx : Int) : rioNN .other src dst shape A sn dn init dy dx = gdalNN src dst shape A sn dn init dy dx := by
  simp [rioNN, fromWork, toWork, stretchNodata]

/-- Without source nodata and with `init_dest_nodata`, the backend model is the reference warp of `Spec/Warp` with the
fill value as nodata — the image `paste_eq_warp` compares the pasted block with. -/
theorem gdalNN_eq_nnWarp (src dst : Int → Int → Int) (shape : Int × Int) (A : Aff) (dn : Option Int) (dy dx : Int) :
    gdalNN src dst shape A none dn true dy dx = Warp.nnWarp src shape A (effFill none dn) dy dx := by
  unfold gdalNN Warp.nnWarp nnPick
  simp only [if_true]
  cases Warp.nnIndex shape.1 (A.apply ((dx : Rat) + 1 / 2, (dy : Rat) + 1 / 2)).2 <;>
    cases Warp.nnIndex shape.2 (A.apply ((dx : Rat) + 1 / 2, (dy : Rat) + 1 / 2)).1 <;> simp

/-! ## non-vacuity -/

example : canPaste ⟨1, 0, 3, 0, -1, 5 + 1 / 64⟩ 1 tol1em3 (1 / 20) = .ok true := by decide +kernel
example : canPaste ⟨1, 0, 3, 0, -1, 5 + 1 / 16⟩ 1 tol1em3 (1 / 20) = .ok false := by decide +kernel
example : canPaste ⟨1, 1 / 1024, 3, 0, 1, 5⟩ 1 tol1em3 (1 / 20) = .ok false := by decide +kernel

end OdcGeo.C10
