/-
C10 — the paste shortcut is pixel-identical to a nearest-neighbour warp.

Property theorems only (helpers: `Lemmas/C10.lean`; planning model: `Model/C03.lean`; paste
operation: `Model/C10.lean`; reference warp: `Spec/Warp.lean`).
-/
import OdcGeo.Model.C10
import OdcGeo.Lemmas.C10
import OdcGeo.Props.C03
namespace OdcGeo.C10
open OdcGeo.C17 OdcGeo.C03

/-- **Paste = nearest-neighbour warp** (read-shrink 1).  `S` is the snapped transform the plan was
computed from (`box_overlap src dst S`), `A` the *true* destination→source transform.  For every
destination pixel whose true centre image is within half a pixel of the snapped one (always the
case for a pure sub-pixel residue `|ε| < ttol ≤ ½`; for a scale residue `δ` as long as
`|δ|·N + |ε| < ½`), the pasted image — `roi_src` copied into `roi_dst`, reversed along mirrored axes,
`nodata` elsewhere — has exactly the value the nearest-neighbour warp of the whole source
produces, for any pixel type `α`. -/
theorem paste_eq_warp {α : Type} (img : Int → Int → α) (nodata : α) (src dst : Shape) (S A : Aff) (tx ty : Int)
    (hS : IsUnitST S tx ty) (hs : 0 ≤ src.1 ∧ 0 ≤ src.2) (hd : 0 ≤ dst.1 ∧ 0 ≤ dst.2)
    (r : ROI × ROI) (h : boxOverlap src dst S = .ok r) (dy dx : Int)
    (hdy : 0 ≤ dy ∧ dy < dst.1) (hdx : 0 ≤ dx ∧ dx < dst.2)
    (hnx : rabs ((A.apply ((dx : Rat) + 1 / 2, (dy : Rat) + 1 / 2)).1 - (S.apply ((dx : Rat) + 1 / 2, (dy : Rat) + 1 / 2)).1) < 1 / 2)
    (hny : rabs ((A.apply ((dx : Rat) + 1 / 2, (dy : Rat) + 1 / 2)).2 - (S.apply ((dx : Rat) + 1 / 2, (dy : Rat) + 1 / 2)).2) < 1 / 2) :
    pasted img (decide (S.e < 0)) (decide (S.a < 0)) r.1 r.2 nodata dy dx = Warp.nnWarp img src A nodata dy dx := by
  obtain ⟨yy, xx, hy, hx, rfl⟩ := boxOverlap_ok h
  have ex : (S.apply ((dx : Rat) + 1 / 2, (dy : Rat) + 1 / 2)).1 = S.a * ((dx : Rat) + 1 / 2) + (tx : Rat) := by
    simp [Aff.apply, hS.b0, hS.c]
  have ey : (S.apply ((dx : Rat) + 1 / 2, (dy : Rat) + 1 / 2)).2 = S.e * ((dy : Rat) + 1 / 2) + (ty : Rat) := by
    simp [Aff.apply, hS.d0, hS.f]
  rw [ex] at hnx
  rw [ey] at hny
  rw [hS.c] at hx
  rw [hS.f] at hy
  have px := paste_axis src.2 dst.2 S.a tx hS.a1 hs.2 hd.2 xx hx dx hdx _ hnx
  have py := paste_axis src.1 dst.1 S.e ty hS.e1 hs.1 hd.1 yy hy dy hdy _ hny
  simp only [Warp.nnWarp, pasted, px, py]
  by_cases my : yy.2.start ≤ dy ∧ dy < yy.2.stop <;> by_cases mx : xx.2.start ≤ dx ∧ dx < xx.2.stop
  · rw [if_pos my, if_pos mx, if_pos ⟨my.1, my.2, mx.1, mx.2⟩]
  · rw [if_pos my, if_neg mx, if_neg (fun hc => mx ⟨hc.2.2.1, hc.2.2.2⟩)]
  · rw [if_neg my, if_neg (fun hc => my ⟨hc.1, hc.2.1⟩)]
  · rw [if_neg my, if_neg (fun hc => my ⟨hc.1, hc.2.1⟩)]

/-- **Equal shapes.**  For a snapped transform the planned source and destination regions have the
same shape (what a direct copy needs). -/
theorem paste_roi_shapes_equal (src dst : Shape) (S : Aff) (tx ty : Int) (hS : IsUnitST S tx ty)
    (hs : 0 ≤ src.1 ∧ 0 ≤ src.2) (hd : 0 ≤ dst.1 ∧ 0 ≤ dst.2) (r : ROI × ROI)
    (h : boxOverlap src dst S = .ok r) :
    r.1.1.stop - r.1.1.start = r.2.1.stop - r.2.1.start ∧ r.1.2.stop - r.1.2.start = r.2.2.stop - r.2.2.start := by
  obtain ⟨yy, xx, hy, hx, rfl⟩ := boxOverlap_ok h
  rw [hS.c] at hx
  rw [hS.f] at hy
  constructor
  · rcases hS.e1 with e | e <;> rw [e] at hy
    · exact (axis_unit_pos _ _ _ hs.1 hd.1 yy hy).2.2
    · exact (axis_unit_neg _ _ _ hs.1 hd.1 yy hy).2.2
  · rcases hS.a1 with e | e <;> rw [e] at hx
    · exact (axis_unit_pos _ _ _ hs.2 hd.2 xx hx).2.2
    · exact (axis_unit_neg _ _ _ hs.2 hd.2 xx hx).2.2

/-- The destination region of a snapped plan is *exactly* the set of destination pixels whose
snapped centre falls inside the source image (nothing needed is dropped, nothing outside is
overwritten). -/
theorem paste_dst_exact (src dst : Shape) (S : Aff) (tx ty : Int) (hS : IsUnitST S tx ty)
    (hs : 0 ≤ src.1 ∧ 0 ≤ src.2) (hd : 0 ≤ dst.1 ∧ 0 ≤ dst.2) (r : ROI × ROI)
    (h : boxOverlap src dst S = .ok r) (dy dx : Int) (hdy : 0 ≤ dy ∧ dy < dst.1) (hdx : 0 ≤ dx ∧ dx < dst.2) :
    ((r.2.1.start ≤ dy ∧ dy < r.2.1.stop) ∧ (r.2.2.start ≤ dx ∧ dx < r.2.2.stop)) ↔
    ((Warp.nnIndex src.1 (S.apply ((dx : Rat) + 1 / 2, (dy : Rat) + 1 / 2)).2).isSome ∧
     (Warp.nnIndex src.2 (S.apply ((dx : Rat) + 1 / 2, (dy : Rat) + 1 / 2)).1).isSome) := by
  obtain ⟨yy, xx, hy, hx, rfl⟩ := boxOverlap_ok h
  have ex : (S.apply ((dx : Rat) + 1 / 2, (dy : Rat) + 1 / 2)).1 = S.a * ((dx : Rat) + 1 / 2) + (tx : Rat) := by
    simp [Aff.apply, hS.b0, hS.c]
  have ey : (S.apply ((dx : Rat) + 1 / 2, (dy : Rat) + 1 / 2)).2 = S.e * ((dy : Rat) + 1 / 2) + (ty : Rat) := by
    simp [Aff.apply, hS.d0, hS.f]
  rw [hS.c] at hx
  rw [hS.f] at hy
  have z : rabs (0 : Rat) < 1 / 2 := by simp [rabs]
  have px := paste_axis src.2 dst.2 S.a tx hS.a1 hs.2 hd.2 xx hx dx hdx (S.a * ((dx : Rat) + 1 / 2) + (tx : Rat)) (by simpa using z)
  have py := paste_axis src.1 dst.1 S.e ty hS.e1 hs.1 hd.1 yy hy dy hdy (S.e * ((dy : Rat) + 1 / 2) + (ty : Rat)) (by simpa using z)
  rw [ex, ey, px, py]
  by_cases my : yy.2.start ≤ dy ∧ dy < yy.2.stop <;> by_cases mx : xx.2.start ≤ dx ∧ dx < xx.2.stop <;>
    simp [my, mx]

/-- Counterexample to "paste = warp" without the half-pixel bound (model side of known finding
`paste-scale-drift-differs-from-warp`): true x-scale `1 + 1/1024` (within `stol = 1e-3`, so snapped
to 1), 2048-pixel row holding its own column index.  The plan copies column 2000 to column 2000,
the nearest-neighbour warp reads column `⌊2000.5·1025/1024⌋ = 2002`. -/
theorem paste_drift_warp_cex :
    boxOverlap (1, 2048) (1, 2048) ⟨1, 0, 0, 0, 1, 0⟩ = .ok ((⟨0, 1⟩, ⟨0, 2048⟩), (⟨0, 1⟩, ⟨0, 2048⟩)) ∧
    pasted (fun _ c => c) false false (⟨0, 1⟩, ⟨0, 2048⟩) (⟨0, 1⟩, ⟨0, 2048⟩) (-1) 0 2000 = 2000 ∧
    Warp.nnWarp (fun _ c => c) (1, 2048) ⟨1025 / 1024, 0, 0, 0, 1, 0⟩ (-1) 0 2000 = 2002 := by
  refine ⟨by decide +kernel, by decide +kernel, by decide +kernel⟩

end OdcGeo.C10
