/- C10 — property theorems only. -/
import OdcGeo.Model.C10
namespace OdcGeo.C10

end OdcGeo.C10
