/-
C13 glue × C12Gi — the public entry point on ROTATED / SHEARED / MIRRORED grids of one CRS (the path on which
`_check_linear` answers `None` and `grid_intersect` goes through `polygon_from_transform` footprints), from the
arguments of `xr_reproject` to the pixels, with no dependency hypothesis: builder C12's
`chunked_eq_whole_same_crs_general` (Props/C12GiC13, imported read-only) composed with the glue of
Props/C13Glue / C13GlueC12 (nodata defaulting, `chunks=` forms, tiling translation).
-/
import OdcGeo.Props.C13GlueC12
import OdcGeo.Props.C12GiC13

namespace OdcGeo.C13
open OdcGeo OdcGeo.C17 OdcGeo.C04

/-! ### with no coordinate transformation the parametric pipeline is the same-CRS pipeline -/

theorem rioReprojectPlaneP_id (V : Variant) (G : Gdal) (k : DKind) (src : Img) (sh sw : Int) (buf : Img)
    (S D : Aff) (sn dn : Option Val) :
    rioReprojectPlaneP V G k src sh sw buf S D id sn dn = rioReprojectPlane V G k src sh sw buf S D sn dn := by
  funext d
  simp only [rioReprojectPlaneP, rioReprojectPlane, pixMapP_id]
  rfl

theorem daskResultP_id (c : Cfg) (G : Gdal) (src : Img) : daskResultP c id G src = daskResult c G src := by
  funext d
  simp only [daskResultP, daskResult, dstBlockP, dstBlock, dstTaskP, dstTask, doChunkedReprojectP,
    doChunkedReproject, rioReprojectPlaneP_id]

/-! ### the destination tiling of every accepted `chunks=` form is a well-formed C12 tiling -/

private theorem total_intChunks' (ch : List Nat) : total (intChunks ch) = ((ch.sum : Nat) : Int) := by
  induction ch with
  | nil => rfl
  | cons n r ih => simp only [intChunks, List.map_cons, total, List.sum_cons] at *; rw [ih]; push_cast; rfl

theorem tiling12_wf (H W : Nat) (sy sx : List Nat) (a : ChunkArg) (ha : a.Small) (hH : 1 ≤ H) (hW : 1 ≤ W)
    (dy dx : List Span) (h : dstTilings H W sy sx a = .ok (dy, dx)) :
    C12.GBT.WF ⟨H, W, tiling12 H W sy sx a⟩ := by
  have pair : ∀ cy cx : Int, tilesPair H W cy cx = .ok (dy, dx) → 0 < cy ∧ 0 < cx := by
    intro cy cx hp
    unfold tilesPair at hp
    split at hp
    · cases hp
    · split at hp
      · cases hp
      · omega
  cases a with
  | default =>
    obtain ⟨h1, h2⟩ := pair _ _ h
    exact ⟨h1, h2, rfl, rfl, by simp only; omega, by simp only; omega⟩
  | pair cy cx =>
    obtain ⟨h1, h2⟩ := pair cy cx h
    exact ⟨h1, h2, rfl, rfl, by simp only; omega, by simp only; omega⟩
  | var ys xs =>
    simp only [dstTilings] at h
    split at h
    · cases h
    · split at h
      · rename_i hsum
        refine ⟨ha.1, ha.2, ?_, ?_, by simp only; omega, by simp only; omega⟩
        · simp only [tiling12, Tiling.base]
          rw [vbase_eq_total _ ha.1, total_intChunks', hsum.1]
        · simp only [tiling12, Tiling.base]
          rw [vbase_eq_total _ ha.2, total_intChunks', hsum.2]
      · cases h

/-- **`xr_reproject` on rotated / sheared / mirrored grids of one CRS, from the arguments to the pixels.**  Nearest
neighbour; the two geoboxes share a CRS and are related by ANY invertible affine map (the general path of
`grid_intersect`).  For EVERY nodata attribute, `src_nodata=`, `dst_nodata=`, EVERY accepted form of `chunks=`, every
source chunking (sums below 2³¹): with the dependency table that the model of the public `grid_intersect`
(`C12.gridIntersectSameCrs`: footprints from `polygon_from_transform`, convex disjointness) computes for the two tilings
`GeoboxTiles` builds from these arguments, every pixel of the computed dask array equals the pixel of the numpy-backed
call.  No dependency / footprint / shapely hypothesis (builder C12's `chunked_eq_whole_same_crs_general`), no tiling
hypothesis, no nodata hypothesis; what remains are facts about the inputs (non-empty rasters, invertible transforms,
chunk sums, boolean nodata, buffer shape). -/
theorem xr_entry_same_crs_general (a : XrArgs) (G : Gdal) (src buf r : Img) (crs : Option Nat)
    (L : List ((Int × Int) × List (Int × Int)))
    (hL : C12.gridIntersectSameCrs
            ⟨crs, true, a.D, ⟨a.dstH, a.dstW, tiling12 a.dstH a.dstW a.sy a.sx a.chunks⟩⟩
            ⟨crs, true, a.S, ⟨a.srcH, a.srcW, ⟨.var (intChunks a.sy), .var (intChunks a.sx)⟩⟩⟩ = .ok L)
    (hr : xrDask a G (depsOfC12 L) src = .ok r)
    (hsmall : a.chunks.Small) (hsy' : ChunksOK (intChunks a.sy)) (hsx' : ChunksOK (intChunks a.sx))
    (hbuf : WF buf a.dstH a.dstW)
    (hsy : a.sy.sum = a.srcH) (hsx : a.sx.sum = a.srcW)
    (hH : 1 ≤ a.srcH) (hW : 1 ≤ a.srcW) (hdH : 1 ≤ a.dstH) (hdW : 1 ≤ a.dstW)
    (hS : a.S.det ≠ 0) (hD : a.D.det ≠ 0)
    (hnd1 : NodataOk a.kind (xrNodata a.attrNd a.kwSrcNd a.dstNd).2)
    (hnd2 : NodataOk a.kind (xrNodata a.attrNd a.kwSrcNd a.dstNd).1)
    (d : Int × Int) (hd : 0 ≤ d.1 ∧ d.1 < a.dstH ∧ 0 ≤ d.2 ∧ d.2 < a.dstW) :
    r d = xrNumpy a G src buf d := by
  unfold xrDask at hr
  cases hc : xrCfg a (depsOfC12 L) with
  | error e => rw [hc] at hr; simp [bind, Except.bind] at hr
  | ok c =>
    rw [hc] at hr
    simp only [bind, Except.bind] at hr
    split at hr
    · cases hr
    simp only [pure, Except.pure, Except.ok.injEq] at hr
    subst hr
    unfold xrCfg at hc
    cases ht : dstTilings a.dstH a.dstW a.sy a.sx a.chunks with
    | error e => rw [ht] at hc; simp [bind, Except.bind] at hc
    | ok t =>
      obtain ⟨dy, dx⟩ := t
      rw [ht] at hc
      simp only [bind, Except.bind, pure, Except.pure, Except.ok.injEq] at hc
      subst hc
      obtain ⟨hry, hrx⟩ := dstTilings_rel _ _ _ _ _ hsmall _ _ ht
      obtain ⟨hdy, hdx⟩ := dstTilings_chain _ _ _ _ _ _ _ ht
      have h1 := chunksTiling_isTiling a.sy
      have h2 := chunksTiling_isTiling a.sx
      rw [hsy] at h1
      rw [hsx] at h2
      let dstT : C12.TGB := ⟨crs, true, a.D, ⟨a.dstH, a.dstW, tiling12 a.dstH a.dstW a.sy a.sx a.chunks⟩⟩
      let srcT : C12.TGB := ⟨crs, true, a.S, ⟨a.srcH, a.srcW, ⟨.var (intChunks a.sy), .var (intChunks a.sx)⟩⟩⟩
      have hsw : srcT.WF :=
        ⟨⟨hsy', hsx', by simp only [srcT, Tiling.base]; rw [vbase_eq_total _ hsy', total_intChunks', hsy],
          by simp only [srcT, Tiling.base]; rw [vbase_eq_total _ hsx', total_intChunks', hsx],
          by simp only [srcT]; omega, by simp only [srcT]; omega⟩, hS⟩
      have hdw : dstT.WF := ⟨tiling12_wf _ _ _ _ _ hsmall hdH hdW _ _ ht, hD⟩
      rw [← daskResultP_id]
      exact C12.chunked_eq_whole_same_crs_general _ G src buf dstT srcT
        ⟨⟨tilingRel_var a.sy hsy', tilingRel_var a.sx hsx', hry, hrx, rfl, rfl⟩, rfl, rfl⟩ hdw hsw L hL rfl rfl hbuf
        h1 h2 hdy hdx (xrNodata_guarantee _ _ _) hnd1 hnd2 d hd

/-! ### the hypotheses are satisfiable: a 2×2 raster onto the same raster rotated by 90° -/

def rotArgs : XrArgs :=
  { kind := .float, srcH := 2, srcW := 2, S := Aff.id, dstH := 2, dstW := 2, D := ⟨0, -1, 2, 1, 0, 0⟩, sy := [2], sx := [2],
    attrNd := none, kwSrcNd := none, dstNd := none, chunks := .var [2] [2] }

theorem rotArgs_deps :
    C12.gridIntersectSameCrs
      ⟨some 1, true, rotArgs.D, ⟨rotArgs.dstH, rotArgs.dstW, tiling12 rotArgs.dstH rotArgs.dstW rotArgs.sy rotArgs.sx rotArgs.chunks⟩⟩
      ⟨some 1, true, rotArgs.S, ⟨rotArgs.srcH, rotArgs.srcW, ⟨.var (intChunks rotArgs.sy), .var (intChunks rotArgs.sx)⟩⟩⟩
      = .ok [((0, 0), [(0, 0)])] := by decide +kernel

example (src : Img) : ∃ r, xrDask rotArgs cexGdal (depsOfC12 [((0, 0), [(0, 0)])]) src = .ok r ∧
    r (1, 0) = xrNumpy rotArgs cexGdal src (full 2 2 (.num 77)) (1, 0) := by
  have hr : ∃ r, xrDask rotArgs cexGdal (depsOfC12 [((0, 0), [(0, 0)])]) src = .ok r := ⟨_, rfl⟩
  obtain ⟨r, hr⟩ := hr
  exact ⟨r, hr, xr_entry_same_crs_general rotArgs cexGdal src (full 2 2 (.num 77)) r (some 1) _ rotArgs_deps hr
    ⟨⟨by decide, by decide⟩, ⟨by decide, by decide⟩⟩ ⟨by decide, by decide⟩ ⟨by decide, by decide⟩
    (by intro p; simp only [full, rotArgs]; split <;> simp_all)
    rfl rfl (by decide) (by decide) (by decide) (by decide) (by decide +kernel) (by decide +kernel)
    (by intro h; cases h) (by intro h; cases h) (1, 0) (by decide)⟩

end OdcGeo.C13
