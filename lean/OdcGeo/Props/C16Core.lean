/-
C16 — GeoBox and bounding-box set operations respect the common pixel grid (core part; `Props/C16.lean`
imports this file and continues with parts F–K).

Property theorems only (helpers are in `Lemmas/C16.lean`).

Part A  bounding-box lattice laws over any linear order (binary `|`, `&` and the n-ary
        `bbox_union` / `bbox_intersection`).
Part B  pixel-set semantics of `GeoBox.__and__ / __or__ / overlap_roi` on a common grid,
        commutativity / associativity including the world affine.
Part C  `enclosing`, `BoundingBox.round`, `BoundingBox.transform`.
Part D  `snap_to`.
Part E  incompatible grids are rejected.
-/
import OdcGeo.Model.C16
import OdcGeo.Lemmas.C16
import OdcGeo.Lemmas.C16Grid
import OdcGeo.Spec.PySlice
import Mathlib.Order.Defs.LinearOrder
import Mathlib.Order.Lattice
import Mathlib.Tactic.Linarith
import Mathlib.Tactic.Ring
import Mathlib.Tactic.ByContra
import Mathlib.Algebra.Order.Field.Rat

namespace OdcGeo.C16
open OdcGeo

/-! ## Part A — BoundingBox lattice laws (any linear order) -/

section BBoxLaws
variable {α : Type} [LinearOrder α]

/-- point membership (closed box) -/
def BBox.Contains (bb : BBox α) (p : α × α) : Prop :=
  bb.left ≤ p.1 ∧ p.1 ≤ bb.right ∧ bb.bottom ≤ p.2 ∧ p.2 ≤ bb.top

/-- `a` lies within `c` (edge-wise) -/
def BBox.Within (a c : BBox α) : Prop :=
  c.left ≤ a.left ∧ c.bottom ≤ a.bottom ∧ a.right ≤ c.right ∧ a.top ≤ c.top

/-- `a | b` computed: CRS mismatch is an error, otherwise edge-wise min / max. -/
theorem bbox_or_eq (a b : BBox α) :
    a.or b = if a.crs ≠ b.crs then .error .crsMismatch
             else .ok ⟨min b.left a.left, min b.bottom a.bottom, max b.right a.right,
                       max b.top a.top, a.crs⟩ := by
  by_cases h : a.crs = b.crs <;> simp [BBox.or, bboxUnion, foldRes, unionStep, h]

/-- `a & b` computed. -/
theorem bbox_and_eq (a b : BBox α) :
    a.and b = if a.crs ≠ b.crs then .error .crsMismatch
              else .ok ⟨max b.left a.left, max b.bottom a.bottom, min b.right a.right,
                        min b.top a.top, a.crs⟩ := by
  by_cases h : a.crs = b.crs <;> simp [BBox.and, bboxIntersection, foldRes, interStep, h]

/-- union is commutative (including the error behaviour) -/
theorem bbox_union_comm (a b : BBox α) : a.or b = b.or a := by
  rw [bbox_or_eq, bbox_or_eq]
  by_cases h : a.crs = b.crs
  · simp [h, min_comm, max_comm]
  · have h' : ¬ b.crs = a.crs := fun e => h e.symm
    simp [h, h']

/-- intersection is commutative (including the error behaviour) -/
theorem bbox_inter_comm (a b : BBox α) : a.and b = b.and a := by
  rw [bbox_and_eq, bbox_and_eq]
  by_cases h : a.crs = b.crs
  · simp [h, min_comm, max_comm]
  · have h' : ¬ b.crs = a.crs := fun e => h e.symm
    simp [h, h']

/-- union is associative: `(a | b) | c = a | (b | c)` (including the error behaviour) -/
theorem bbox_union_assoc (a b c : BBox α) :
    (a.or b >>= fun ab => ab.or c) = (b.or c >>= fun bc => a.or bc) := by
  obtain ⟨al, ab, ar, at', ac⟩ := a
  obtain ⟨bl, bb, br, bt, bc⟩ := b
  obtain ⟨cl, cb, cr, ct, cc⟩ := c
  simp only [bbox_or_eq, bind, Except.bind]
  by_cases h1 : ac = bc
  · subst h1
    by_cases h2 : ac = cc
    · subst h2
      simp [min_comm, max_comm, min_left_comm, max_left_comm]
    · simp [h2]
  · by_cases h2 : bc = cc
    · subst h2
      simp [h1]
    · simp [h1, h2]

/-- intersection is associative -/
theorem bbox_inter_assoc (a b c : BBox α) :
    (a.and b >>= fun ab => ab.and c) = (b.and c >>= fun bc => a.and bc) := by
  obtain ⟨al, ab, ar, at', ac⟩ := a
  obtain ⟨bl, bb, br, bt, bc⟩ := b
  obtain ⟨cl, cb, cr, ct, cc⟩ := c
  simp only [bbox_and_eq, bind, Except.bind]
  by_cases h1 : ac = bc
  · subst h1
    by_cases h2 : ac = cc
    · subst h2
      simp [min_comm, max_comm, min_left_comm, max_left_comm]
    · simp [h2]
  · by_cases h2 : bc = cc
    · subst h2
      simp [h1]
    · simp [h1, h2]

/-- idempotence -/
theorem bbox_union_idem (a : BBox α) : a.or a = .ok a := by
  rw [bbox_or_eq]; simp

theorem bbox_inter_idem (a : BBox α) : a.and a = .ok a := by
  rw [bbox_and_eq]; simp

/-- absorption `a | (a & b) = a` -/
theorem bbox_absorb₁ (a b : BBox α) (h : a.crs = b.crs) :
    (a.and b >>= fun ab => a.or ab) = .ok a := by
  simp [bbox_and_eq, bbox_or_eq, h, bind, Except.bind]
  cases a; simp_all

/-- absorption `a & (a | b) = a` -/
theorem bbox_absorb₂ (a b : BBox α) (h : a.crs = b.crs) :
    (a.or b >>= fun ab => a.and ab) = .ok a := by
  simp [bbox_and_eq, bbox_or_eq, h, bind, Except.bind]
  cases a; simp_all

/-- the union contains both operands (edge-wise and point-wise) -/
theorem bbox_union_contains (a b u : BBox α) (h : a.or b = .ok u) :
    a.Within u ∧ b.Within u ∧ ∀ p, a.Contains p ∨ b.Contains p → u.Contains p := by
  rw [bbox_or_eq] at h
  split at h
  · cases h
  · cases h
    refine ⟨⟨min_le_right _ _, min_le_right _ _, le_max_right _ _, le_max_right _ _⟩,
            ⟨min_le_left _ _, min_le_left _ _, le_max_left _ _, le_max_left _ _⟩, ?_⟩
    rintro p (⟨h1, h2, h3, h4⟩ | ⟨h1, h2, h3, h4⟩)
    · exact ⟨(min_le_right _ _).trans h1, h2.trans (le_max_right _ _),
             (min_le_right _ _).trans h3, h4.trans (le_max_right _ _)⟩
    · exact ⟨(min_le_left _ _).trans h1, h2.trans (le_max_left _ _),
             (min_le_left _ _).trans h3, h4.trans (le_max_left _ _)⟩

/-- the union is the least box containing both operands -/
theorem bbox_union_least (a b u c : BBox α) (h : a.or b = .ok u) (ha : a.Within c) (hb : b.Within c) :
    u.Within c := by
  rw [bbox_or_eq] at h
  split at h
  · cases h
  · cases h
    obtain ⟨a1, a2, a3, a4⟩ := ha
    obtain ⟨b1, b2, b3, b4⟩ := hb
    exact ⟨le_min b1 a1, le_min b2 a2, max_le b3 a3, max_le b4 a4⟩

/-- the intersection is exactly the common point set, lies within both operands and is the
greatest such box -/
theorem bbox_inter_contained (a b i : BBox α) (h : a.and b = .ok i) :
    (∀ p, i.Contains p ↔ a.Contains p ∧ b.Contains p) ∧ i.Within a ∧ i.Within b ∧
    ∀ c : BBox α, c.Within a → c.Within b → c.Within i := by
  rw [bbox_and_eq] at h
  split at h
  · cases h
  · cases h
    refine ⟨?_, ⟨le_max_right _ _, le_max_right _ _, min_le_right _ _, min_le_right _ _⟩,
            ⟨le_max_left _ _, le_max_left _ _, min_le_left _ _, min_le_left _ _⟩, ?_⟩
    · intro p
      simp only [BBox.Contains, max_le_iff, le_min_iff]
      tauto
    · rintro c ⟨a1, a2, a3, a4⟩ ⟨b1, b2, b3, b4⟩
      exact ⟨max_le b1 a1, max_le b2 a2, le_min b3 a3, le_min b4 a4⟩

/-! n-ary forms: `bbox_union(stream)`, `bbox_intersection(stream)` -/

/-- n-ary union of a non-empty stream: contains every member and is the least such box; an
empty stream is an error. -/
theorem bbox_union_list (b : BBox α) (bs : List (BBox α)) (u : BBox α)
    (h : bboxUnion (b :: bs) = .ok u) :
    (∀ x ∈ b :: bs, x.Within u) ∧
    (∀ c : BBox α, (∀ x ∈ b :: bs, x.Within c) → u.Within c) := by
  simp only [bboxUnion] at h
  induction bs generalizing b with
  | nil =>
    simp only [foldRes] at h; cases h
    exact ⟨by simp [BBox.Within], fun c hc => hc _ (by simp)⟩
  | cons x xs ih =>
    simp only [foldRes, unionStep] at h
    split at h
    · cases h
    · rename_i acc' hstep
      split at hstep
      · cases hstep
      · cases hstep
        obtain ⟨ih1, ih2⟩ := ih _ h
        have hacc := ih1 _ (List.mem_cons_self ..)
        obtain ⟨c1, c2, c3, c4⟩ := hacc
        constructor
        · intro y hy
          rcases List.mem_cons.mp hy with rfl | hy
          · exact ⟨c1.trans (min_le_right _ _), c2.trans (min_le_right _ _),
                   (le_max_right _ _).trans c3, (le_max_right _ _).trans c4⟩
          rcases List.mem_cons.mp hy with rfl | hy
          · exact ⟨c1.trans (min_le_left _ _), c2.trans (min_le_left _ _),
                   (le_max_left _ _).trans c3, (le_max_left _ _).trans c4⟩
          · exact ih1 _ (List.mem_cons_of_mem _ hy)
        · intro c hc
          apply ih2
          intro y hy
          rcases List.mem_cons.mp hy with rfl | hy
          · obtain ⟨a1, a2, a3, a4⟩ := hc b (by simp)
            obtain ⟨b1, b2, b3, b4⟩ := hc x (by simp)
            exact ⟨le_min b1 a1, le_min b2 a2, max_le b3 a3, max_le b4 a4⟩
          · exact hc _ (by simp [hy])

theorem bbox_union_empty : bboxUnion ([] : List (BBox α)) = .error .valueError := rfl
theorem bbox_inter_empty : bboxIntersection ([] : List (BBox α)) = .error .valueError := rfl

/-- n-ary intersection: exactly the points common to every member. -/
theorem bbox_inter_list (b : BBox α) (bs : List (BBox α)) (i : BBox α)
    (h : bboxIntersection (b :: bs) = .ok i) (p : α × α) :
    i.Contains p ↔ ∀ x ∈ b :: bs, x.Contains p := by
  simp only [bboxIntersection] at h
  induction bs generalizing b with
  | nil => simp only [foldRes] at h; cases h; simp
  | cons x xs ih =>
    simp only [foldRes, interStep] at h
    split at h
    · cases h
    · rename_i acc' hstep
      split at hstep
      · cases hstep
      · cases hstep
        rw [ih _ h]
        simp only [List.forall_mem_cons, BBox.Contains, max_le_iff, le_min_iff]
        tauto

end BBoxLaws

/-! ## Part B — pixel-set semantics on a common grid

The family of a base grid `g0` ("derived from a base grid by integer pixel shifts and arbitrary
shapes"): `onGrid g0 r` is `g0` shifted so that it covers the index rectangle `r` of `g0`'s pixel
frame.  `g0` may be any GeoBox with an invertible affine: north-up, mirrored, rotated, sheared.

Vocabulary (defined in `Lemmas/C16Grid.lean`, restated here):
  `Rect`                 integer pixel rectangle `x0 ≤ i < x1`, `y0 ≤ j < y1` of `g0`'s index frame
  `onGrid g0 r`          `⟨r.y1 - r.y0, r.x1 - r.x0, g0.aff * Aff.translation r.x0 r.y0, g0.crs⟩`
  `Rect.Valid/NonEmpty`  `x0 ≤ x1 ∧ y0 ≤ y1` / `x0 < x1 ∧ y0 < y1`
  `Rect.union r s`       `⟨min x0, min y0, max x1, max y1⟩`
  `Rect.inter r s`       `⟨max x0, max y0, max (max x0) (min x1), max (max y0) (min y1)⟩`
  `Rect.rawInter`, `Rect.norm`   the same in two steps (n-ary form: fold, then normalise once)
  `HasPixel g w`         `∃ i j : Int, 0 ≤ i < g.nx ∧ 0 ≤ j < g.ny ∧ g.aff.apply (i, j) = w`
                         (on a common grid a pixel is identified by the world position of its corner)
-/

/-- Every GeoBox that is `g0` shifted by whole pixels (same CRS) is a member of the family. -/
theorem eq_onGrid (g0 g : GeoBox) (tx ty : Int) (h : g.aff = g0.aff * Aff.translation tx ty)
    (hc : g.crs = g0.crs) : g = onGrid g0 ⟨tx, ty, tx + g.nx, ty + g.ny⟩ := by
  obtain ⟨ny, nx, aff, crs⟩ := g
  simp only [onGrid, GeoBox.mk.injEq]
  simp only at h hc
  refine ⟨by omega, by omega, h, hc⟩

/-- in particular the base itself -/
theorem self_onGrid (g : GeoBox) : g = onGrid g ⟨0, 0, g.nx, g.ny⟩ := by
  have := eq_onGrid g g 0 0 (by simp [translation_zero, Aff.mul_id]) rfl
  simpa using this

/-- `a | b` on a common grid is the member of the family covering the smallest rectangle that
contains both — whichever operand is the reference. -/
theorem or_onGrid (g0 : GeoBox) (hdet : g0.aff.det ≠ 0) (r s : Rect) :
    (onGrid g0 r).or (onGrid g0 s) = .ok (onGrid g0 (r.union s)) := by
  simp only [GeoBox.or, geoboxUnionConservative, allBBoxes, bbpd_onGrid g0 hdet _ _ _ tolPix_pos,
    bboxUnion, foldRes, unionStep, geoboxOfPixBBox_onGrid]
  simp only [ne_eq, not_true_eq_false, if_false, Rect.union]
  congr 2
  simp only [Rect.mk.injEq]
  omega

/-- `a & b` on a common grid is the member of the family covering exactly the common rectangle
(zero extent when there is none) — whichever operand is the reference. -/
theorem and_onGrid (g0 : GeoBox) (hdet : g0.aff.det ≠ 0) (r s : Rect) :
    (onGrid g0 r).and (onGrid g0 s) = .ok (onGrid g0 (r.inter s)) := by
  simp only [GeoBox.and, geoboxIntersectionConservative, allBBoxes, bbpd_onGrid g0 hdet _ _ _ tolPix_pos,
    bboxIntersection, foldRes, interStep, geoboxOfPixBBox_onGrid, normEmpty_eq]
  simp only [ne_eq, not_true_eq_false, if_false, Rect.inter]
  congr 2
  simp only [Rect.mk.injEq]
  omega

/-- **Intersection is exactly the set of shared pixels** (an empty GeoBox when there are none;
never a negative shape). -/
theorem inter_pixels (g0 : GeoBox) (hdet : g0.aff.det ≠ 0) (r s : Rect) :
    ∃ g, (onGrid g0 r).and (onGrid g0 s) = .ok g ∧
      (∀ w, HasPixel g w ↔ HasPixel (onGrid g0 r) w ∧ HasPixel (onGrid g0 s) w) ∧
      (g.isEmpty = true ↔ ¬ ∃ w, HasPixel (onGrid g0 r) w ∧ HasPixel (onGrid g0 s) w) ∧
      0 ≤ g.nx ∧ 0 ≤ g.ny := by
  refine ⟨_, and_onGrid g0 hdet r s, ?_, ?_, ?_, ?_⟩
  · intro w
    constructor
    · intro h
      obtain ⟨i, j, h1, h2, h3, h4, rfl⟩ := (hasPixel_onGrid _ _ _).mp h
      simp only [Rect.inter] at h1 h2 h3 h4
      rw [hasPixel_idx g0 hdet, hasPixel_idx g0 hdet]
      omega
    · rintro ⟨hr, hs⟩
      obtain ⟨i, j, h1, h2, h3, h4, rfl⟩ := (hasPixel_onGrid _ _ _).mp hr
      rw [hasPixel_idx g0 hdet] at hs ⊢
      simp only [Rect.inter]
      omega
  · simp only [GeoBox.isEmpty, Bool.or_eq_true, beq_iff_eq]
    have e1 : (onGrid g0 (r.inter s)).ny = max (max r.y0 s.y0) (min r.y1 s.y1) - max r.y0 s.y0 := rfl
    have e2 : (onGrid g0 (r.inter s)).nx = max (max r.x0 s.x0) (min r.x1 s.x1) - max r.x0 s.x0 := rfl
    rw [e1, e2]
    constructor
    · rintro h ⟨w, hr, hs⟩
      obtain ⟨i, j, h1, h2, h3, h4, rfl⟩ := (hasPixel_onGrid _ _ _).mp hr
      rw [hasPixel_idx g0 hdet] at hs
      omega
    · intro h
      by_contra hne
      apply h
      refine ⟨g0.aff.apply (((max r.x0 s.x0 : Int) : Rat), ((max r.y0 s.y0 : Int) : Rat)), ?_, ?_⟩ <;>
        rw [hasPixel_idx g0 hdet] <;> omega
  · simp only [onGrid, Rect.inter]; omega
  · simp only [onGrid, Rect.inter]; omega

/-- **Union is the smallest GeoBox on the grid containing the operands.** -/
theorem union_smallest (g0 : GeoBox) (hdet : g0.aff.det ≠ 0) (r s : Rect) :
    ∃ g, (onGrid g0 r).or (onGrid g0 s) = .ok g ∧
      (∀ w, HasPixel (onGrid g0 r) w ∨ HasPixel (onGrid g0 s) w → HasPixel g w) ∧
      (r.NonEmpty → s.NonEmpty → ∀ t : Rect,
        (∀ w, HasPixel (onGrid g0 r) w ∨ HasPixel (onGrid g0 s) w → HasPixel (onGrid g0 t) w) →
        ∀ w, HasPixel g w → HasPixel (onGrid g0 t) w) := by
  refine ⟨_, or_onGrid g0 hdet r s, ?_, ?_⟩
  · rintro w (h | h) <;>
    · obtain ⟨i, j, h1, h2, h3, h4, rfl⟩ := (hasPixel_onGrid _ _ _).mp h
      rw [hasPixel_idx g0 hdet]
      simp only [Rect.union]
      omega
  · rintro ⟨hr1, hr2⟩ ⟨hs1, hs2⟩ t ht w hw
    obtain ⟨i, j, h1, h2, h3, h4, rfl⟩ := (hasPixel_onGrid _ _ _).mp hw
    simp only [Rect.union] at h1 h2 h3 h4
    -- the two extreme pixels of each operand are in `t`
    have r_lo := ht (g0.aff.apply ((r.x0 : Rat), (r.y0 : Rat)))
      (Or.inl ((hasPixel_idx g0 hdet r _ _).mpr (by omega)))
    have r_hi := ht (g0.aff.apply (((r.x1 - 1 : Int) : Rat), ((r.y1 - 1 : Int) : Rat)))
      (Or.inl ((hasPixel_idx g0 hdet r _ _).mpr (by omega)))
    have s_lo := ht (g0.aff.apply ((s.x0 : Rat), (s.y0 : Rat)))
      (Or.inr ((hasPixel_idx g0 hdet s _ _).mpr (by omega)))
    have s_hi := ht (g0.aff.apply (((s.x1 - 1 : Int) : Rat), ((s.y1 - 1 : Int) : Rat)))
      (Or.inr ((hasPixel_idx g0 hdet s _ _).mpr (by omega)))
    rw [hasPixel_idx g0 hdet] at r_lo r_hi s_lo s_hi ⊢
    omega

/-- **`overlap_roi` indexes exactly the shared pixels within the first operand**, under numpy's
slice semantics (`Spec/PySlice`), for every tolerance `tol > 0`. -/
theorem overlap_roi_exact (g0 : GeoBox) (hdet : g0.aff.det ≠ 0) (r s : Rect) (hr : r.Valid)
    (tol : Rat) (htol : 0 < tol) :
    ∃ roi, (onGrid g0 r).overlapRoi (onGrid g0 s) tol = .ok roi ∧
      ∀ i j : Int,
        (PySlice.Sel (onGrid g0 r).nx (.slc (some roi.x0) (some roi.x1)) i ∧
         PySlice.Sel (onGrid g0 r).ny (.slc (some roi.y0) (some roi.y1)) j) ↔
        (0 ≤ i ∧ i < (onGrid g0 r).nx ∧ 0 ≤ j ∧ j < (onGrid g0 r).ny ∧
         HasPixel (onGrid g0 s) ((onGrid g0 r).aff.apply ((i : Rat), (j : Rat)))) := by
  simp only [GeoBox.overlapRoi, bbpd_onGrid g0 hdet _ _ _ htol]
  refine ⟨_, rfl, ?_⟩
  intro i j
  have hw : (onGrid g0 r).aff.apply ((i : Rat), (j : Rat)) =
      g0.aff.apply (((i + r.x0 : Int) : Rat), ((j + r.y0 : Int) : Rat)) := by
    simp only [onGrid, apply_mul_translation]; push_cast; rfl
  rw [hw, hasPixel_idx g0 hdet]
  obtain ⟨hr1, hr2⟩ := hr
  simp only [PySlice.Sel, PySlice.bounds, PySlice.clampBound, onGrid]
  omega

/-- commutativity, **including the world affine whichever operand is the reference** -/
theorem union_comm_world (g0 : GeoBox) (hdet : g0.aff.det ≠ 0) (r s : Rect) :
    (onGrid g0 r).or (onGrid g0 s) = (onGrid g0 s).or (onGrid g0 r) := by
  rw [or_onGrid g0 hdet, or_onGrid g0 hdet]
  congr 2
  simp only [Rect.union, Rect.mk.injEq]
  omega

theorem inter_comm_world (g0 : GeoBox) (hdet : g0.aff.det ≠ 0) (r s : Rect) :
    (onGrid g0 r).and (onGrid g0 s) = (onGrid g0 s).and (onGrid g0 r) := by
  rw [and_onGrid g0 hdet, and_onGrid g0 hdet]
  congr 2
  simp only [Rect.inter, Rect.mk.injEq]
  omega

/-- associativity `(a | b) | c = a | (b | c)`: same shape and same world affine although the
reference operand differs (`a | b` on the left, `a` on the right) -/
theorem union_assoc_world (g0 : GeoBox) (hdet : g0.aff.det ≠ 0) (r s t : Rect) :
    ((onGrid g0 r).or (onGrid g0 s) >>= fun x => x.or (onGrid g0 t)) =
    ((onGrid g0 s).or (onGrid g0 t) >>= fun y => (onGrid g0 r).or y) := by
  simp only [or_onGrid g0 hdet, bind, Except.bind]
  congr 2
  simp only [Rect.union, Rect.mk.injEq]
  omega

/-- associativity of intersection, empty intermediate results included -/
theorem inter_assoc_world (g0 : GeoBox) (hdet : g0.aff.det ≠ 0) (r s t : Rect) :
    ((onGrid g0 r).and (onGrid g0 s) >>= fun x => x.and (onGrid g0 t)) =
    ((onGrid g0 s).and (onGrid g0 t) >>= fun y => (onGrid g0 r).and y) := by
  simp only [and_onGrid g0 hdet, bind, Except.bind]
  congr 2
  simp only [Rect.inter, Rect.mk.injEq]
  omega

/-- The same facts phrased for two arbitrary GeoBoxes related by a whole-pixel shift. -/
theorem union_inter_comm_of_shift (a b : GeoBox) (hdet : a.aff.det ≠ 0) (tx ty : Int)
    (h : b.aff = a.aff * Aff.translation tx ty) (hc : b.crs = a.crs) :
    a.or b = b.or a ∧ a.and b = b.and a := by
  have ha := self_onGrid a
  have hb := eq_onGrid a b tx ty h hc
  have h1 := union_comm_world a hdet ⟨0, 0, a.nx, a.ny⟩ ⟨tx, ty, tx + b.nx, ty + b.ny⟩
  have h2 := inter_comm_world a hdet ⟨0, 0, a.nx, a.ny⟩ ⟨tx, ty, tx + b.nx, ty + b.ny⟩
  rw [← hb, ← ha] at h1 h2
  exact ⟨h1, h2⟩

/-! ## Part C — `enclosing`, `BoundingBox.round`, `BoundingBox.transform` -/

/-- `BoundingBox.round()` expands to integers by less than one unit on every side. -/
theorem bbox_round_spec (bb : BBox Rat) :
    ((bb.round.left : Rat) ≤ bb.left ∧ bb.left < bb.round.left + 1) ∧
    ((bb.round.bottom : Rat) ≤ bb.bottom ∧ bb.bottom < bb.round.bottom + 1) ∧
    (bb.right ≤ bb.round.right ∧ (bb.round.right : Rat) < bb.right + 1) ∧
    (bb.top ≤ bb.round.top ∧ (bb.round.top : Rat) < bb.top + 1) := by
  simp only [BBox.round]
  have a1 := Rat.floor_le bb.left
  have a2 := Rat.lt_floor_add_one bb.left
  have b1 := Rat.floor_le bb.bottom
  have b2 := Rat.lt_floor_add_one bb.bottom
  push_cast at a2 b2
  exact ⟨⟨a1, a2⟩, ⟨b1, b2⟩, ⟨Rat.le_ceil, Rat.ceil_lt⟩, ⟨Rat.le_ceil, Rat.ceil_lt⟩⟩

/-- `BoundingBox.transform(A)`: the image of every point of the box lies in the result. -/
theorem bbox_transform_covers (bb : BBox Rat) (A : Aff) (p : Rat × Rat) (hp : bb.Contains p) :
    (bb.transform A).Contains (A.apply p) := by
  obtain ⟨h1, h2, h3, h4⟩ := hp
  simp only [BBox.transform, bboxOfPoints, BBox.Contains, Aff.apply, List.map, minL, maxL]
  refine ⟨?_, ?_, ?_, ?_⟩
  · rcases lin_lower A.a _ _ _ h1 h2 with ha | ha <;> rcases lin_lower A.b _ _ _ h3 h4 with hb | hb
    · exact (min_le_left _ _).trans ((min_le_left _ _).trans ((min_le_left _ _).trans (by linarith)))
    · exact (min_le_left _ _).trans ((min_le_left _ _).trans ((min_le_right _ _).trans (by linarith)))
    · exact (min_le_left _ _).trans ((min_le_right _ _).trans (by linarith))
    · exact (min_le_right _ _).trans (by linarith)
  · rcases lin_upper A.a _ _ _ h1 h2 with ha | ha <;> rcases lin_upper A.b _ _ _ h3 h4 with hb | hb
    · exact le_trans (by linarith) ((le_max_left _ _).trans ((le_max_left _ _).trans (le_max_left _ _)))
    · exact le_trans (by linarith) ((le_max_right _ _).trans ((le_max_left _ _).trans (le_max_left _ _)))
    · exact le_trans (by linarith) ((le_max_right _ _).trans (le_max_left _ _))
    · exact le_trans (by linarith) (le_max_right _ _)
  · rcases lin_lower A.d _ _ _ h1 h2 with ha | ha <;> rcases lin_lower A.e _ _ _ h3 h4 with hb | hb
    · exact (min_le_left _ _).trans ((min_le_left _ _).trans ((min_le_left _ _).trans (by linarith)))
    · exact (min_le_left _ _).trans ((min_le_left _ _).trans ((min_le_right _ _).trans (by linarith)))
    · exact (min_le_left _ _).trans ((min_le_right _ _).trans (by linarith))
    · exact (min_le_right _ _).trans (by linarith)
  · rcases lin_upper A.d _ _ _ h1 h2 with ha | ha <;> rcases lin_upper A.e _ _ _ h3 h4 with hb | hb
    · exact le_trans (by linarith) ((le_max_left _ _).trans ((le_max_left _ _).trans (le_max_left _ _)))
    · exact le_trans (by linarith) ((le_max_right _ _).trans ((le_max_left _ _).trans (le_max_left _ _)))
    · exact le_trans (by linarith) ((le_max_right _ _).trans (le_max_left _ _))
    · exact le_trans (by linarith) (le_max_right _ _)

/-- **`enclosing`**: for a geo-registered region with vertices `p :: ps` (already in the CRS of
the GeoBox) the result
* lies on the source grid (`onGrid g …`, whole-pixel shift) and has at least one pixel,
* covers every vertex (each is the image of a point of the pixel rectangle `[0,nx]×[0,ny]`),
* exceeds the region by less than one pixel on the low sides, and on the high sides too unless
  the region has zero extent on that axis *and* sits on a grid line (then a one-pixel GeoBox
  is returned and the excess is exactly one pixel — no non-empty on-grid cover can do better). -/
theorem enclosing_spec (g : GeoBox) (hdet : g.aff.det ≠ 0) (rc : Option Nat) (hrc : rc ≠ none)
    (hg : g.crs ≠ none) (p : Rat × Rat) (ps : List (Rat × Rat)) :
    ∃ (res : GeoBox) (tx ty : Int), g.enclosing rc p ps = .ok res ∧
      res = onGrid g ⟨tx, ty, tx + res.nx, ty + res.ny⟩ ∧ 1 ≤ res.nx ∧ 1 ≤ res.ny ∧
      (∀ q ∈ p :: ps, ∃ x y : Rat, 0 ≤ x ∧ x ≤ res.nx ∧ 0 ≤ y ∧ y ≤ res.ny ∧ res.aff.apply (x, y) = q) ∧
      (∃ q ∈ p :: ps, (g.aff.inv.apply q).1 - tx < 1) ∧
      (∃ q ∈ p :: ps, (g.aff.inv.apply q).2 - ty < 1) ∧
      ((∃ q ∈ p :: ps, (tx : Rat) + res.nx - (g.aff.inv.apply q).1 < 1) ∨
        (res.nx = 1 ∧ ∀ q ∈ p :: ps, (g.aff.inv.apply q).1 = tx)) ∧
      ((∃ q ∈ p :: ps, (ty : Rat) + res.ny - (g.aff.inv.apply q).2 < 1) ∨
        (res.ny = 1 ∧ ∀ q ∈ p :: ps, (g.aff.inv.apply q).2 = ty)) := by
  have hx := axis_enclose (g.aff.inv.apply p).1 (ps.map fun q => (g.aff.inv.apply q).1)
  have hy := axis_enclose (g.aff.inv.apply p).2 (ps.map fun q => (g.aff.inv.apply q).2)
  -- transfer between the vertex list and the coordinate lists
  have memx : ∀ q ∈ p :: ps, (g.aff.inv.apply q).1 ∈
      (g.aff.inv.apply p).1 :: ps.map fun q => (g.aff.inv.apply q).1 := by
    intro q hq
    have := List.mem_map_of_mem (f := fun q => (g.aff.inv.apply q).1) hq
    simpa using this
  have memy : ∀ q ∈ p :: ps, (g.aff.inv.apply q).2 ∈
      (g.aff.inv.apply p).2 :: ps.map fun q => (g.aff.inv.apply q).2 := by
    intro q hq
    have := List.mem_map_of_mem (f := fun q => (g.aff.inv.apply q).2) hq
    simpa using this
  have exx : ∀ v ∈ (g.aff.inv.apply p).1 :: ps.map (fun q => (g.aff.inv.apply q).1),
      ∃ q ∈ p :: ps, (g.aff.inv.apply q).1 = v := by
    intro v hv
    have : v ∈ (p :: ps).map fun q => (g.aff.inv.apply q).1 := by simpa using hv
    obtain ⟨q, hq, e⟩ := List.mem_map.mp this
    exact ⟨q, hq, e⟩
  have exy : ∀ v ∈ (g.aff.inv.apply p).2 :: ps.map (fun q => (g.aff.inv.apply q).2),
      ∃ q ∈ p :: ps, (g.aff.inv.apply q).2 = v := by
    intro v hv
    have : v ∈ (p :: ps).map fun q => (g.aff.inv.apply q).2 := by simpa using hv
    obtain ⟨q, hq, e⟩ := List.mem_map.mp this
    exact ⟨q, hq, e⟩
  obtain ⟨hx1, hx2, ⟨vx, hvx, hx3⟩, hx4⟩ := hx
  obtain ⟨hy1, hy2, ⟨vy, hvy, hy3⟩, hy4⟩ := hy
  simp only [GeoBox.enclosing, if_neg hrc, if_neg hg, Aff.inv?, if_neg hdet, bboxOfPoints, BBox.round,
    List.map_map, Function.comp_def, GeoBox.translatePix]
  generalize (minL (g.aff.inv.apply p).1 (List.map (fun q => (g.aff.inv.apply q).1) ps)).floor = tx at *
  generalize (minL (g.aff.inv.apply p).2 (List.map (fun q => (g.aff.inv.apply q).2) ps)).floor = ty at *
  generalize (maxL (g.aff.inv.apply p).1 (List.map (fun q => (g.aff.inv.apply q).1) ps)).ceil = rx at *
  generalize (maxL (g.aff.inv.apply p).2 (List.map (fun q => (g.aff.inv.apply q).2) ps)).ceil = ry at *
  generalize max 1 (rx - tx) = nx at *
  generalize max 1 (ry - ty) = ny at *
  refine ⟨_, tx, ty, rfl, ?_, hx1, hy1, ?_, ?_, ?_, ?_, ?_⟩
  · simp only [onGrid, GeoBox.mk.injEq]
    refine ⟨by omega, by omega, trivial, trivial⟩
  · intro q hq
    obtain ⟨a1, a2⟩ := hx2 _ (memx q hq)
    obtain ⟨b1, b2⟩ := hy2 _ (memy q hq)
    refine ⟨(g.aff.inv.apply q).1 - tx, (g.aff.inv.apply q).2 - ty, by linarith, by linarith, by linarith,
      by linarith, ?_⟩
    rw [apply_mul_translation]
    simp only [sub_add_cancel]
    exact Aff.apply_inv_apply g.aff hdet q
  · obtain ⟨q, hq, e⟩ := exx vx hvx
    exact ⟨q, hq, by rw [e]; exact hx3⟩
  · obtain ⟨q, hq, e⟩ := exy vy hvy
    exact ⟨q, hq, by rw [e]; exact hy3⟩
  · rcases hx4 with ⟨v, hv, h⟩ | ⟨h1, h2⟩
    · obtain ⟨q, hq, e⟩ := exx v hv
      exact Or.inl ⟨q, hq, by rw [e]; exact h⟩
    · exact Or.inr ⟨h1, fun q hq => h2 _ (memx q hq)⟩
  · rcases hy4 with ⟨v, hv, h⟩ | ⟨h1, h2⟩
    · obtain ⟨q, hq, e⟩ := exy v hv
      exact Or.inl ⟨q, hq, by rw [e]; exact h⟩
    · exact Or.inr ⟨h1, fun q hq => h2 _ (memy q hq)⟩

/-- error behaviour of `enclosing` -/
theorem enclosing_errors (g : GeoBox) (rc : Option Nat) (p : Rat × Rat) (ps : List (Rat × Rat)) :
    (rc = none → g.enclosing rc p ps = .error .valueError) ∧
    (rc ≠ none → g.crs = none → g.enclosing rc p ps = .error .assertion) := by
  constructor
  · intro h; simp [GeoBox.enclosing, h]
  · intro h1 h2; simp [GeoBox.enclosing, h1, h2]

/-! ## Part D — `snap_to` -/

/-- **`snap_to`**: when `other` has the same pixel size and orientation (`other = self` moved by
any, generally fractional, `(tx, ty)` pixels) the result is `self` moved by at most half a pixel
per axis, shape unchanged, and it lies on `other`'s grid: a whole-pixel shift from `other`,
exactly — except that a required move below `1e-8` px is not made (`maybe_zero`), leaving the
result within `1e-8` px of the grid. -/
theorem snap_to_half_pixel (self other : GeoBox) (hdet : self.aff.det ≠ 0) (tx ty : Rat)
    (h : other.aff = self.aff * Aff.translation tx ty) (hc : other.crs = self.crs) :
    ∃ (res : GeoBox) (dx dy : Rat) (kx ky : Int) (ex ey : Rat), self.snapTo other = .ok res ∧
      res.aff = self.aff * Aff.translation dx dy ∧ res.nx = self.nx ∧ res.ny = self.ny ∧
      res.crs = self.crs ∧ |dx| ≤ 1 / 2 ∧ |dy| ≤ 1 / 2 ∧
      res.aff = other.aff * Aff.translation (kx + ex) (ky + ey) ∧
      (ex = 0 ∨ (dx = 0 ∧ |ex| < tolPix)) ∧ (ey = 0 ∨ (dy = 0 ∧ |ey| < tolPix)) := by
  obtain ⟨wx, hwx1, hwx2, hwx3⟩ := splitFloat_spec tx
  obtain ⟨wy, hwy1, hwy2, hwy3⟩ := splitFloat_spec ty
  have key : ∀ dx dy : Rat, self.aff * Aff.translation dx dy =
      other.aff * Aff.translation (dx - tx) (dy - ty) := by
    intro dx dy
    rw [h, Aff.mul_assoc', translation_mul_translation]
    congr 2 <;> ring
  simp only [GeoBox.snapTo, pixelTranslation_of_mul other self hc hdet tx ty h, GeoBox.translatePix]
  have sub_cases : ∀ (t : Rat) (w : Int), (w : Rat) + (splitFloat t).2 = t → |(splitFloat t).2| ≤ 1 / 2 →
      |subpix t| ≤ 1 / 2 ∧ ∃ e : Rat, subpix t - t = ((-w : Int) : Rat) + e ∧
        (e = 0 ∨ (subpix t = 0 ∧ |e| < tolPix)) := by
    intro t w hw habs
    unfold subpix maybeZero
    rw [qabs_eq_abs]
    split
    · refine ⟨by simp, -(splitFloat t).2, by push_cast; linarith, Or.inr ⟨rfl, by rwa [abs_neg]⟩⟩
    · exact ⟨habs, 0, by push_cast; linarith, Or.inl rfl⟩
  obtain ⟨ax, ex, hex, hex'⟩ := sub_cases tx wx hwx2 hwx3
  obtain ⟨ay, ey, hey, hey'⟩ := sub_cases ty wy hwy2 hwy3
  refine ⟨_, subpix tx, subpix ty, -wx, -wy, ex, ey, rfl, rfl, rfl, rfl, rfl, ax, ay, ?_, hex', hey'⟩
  show self.aff * Aff.translation (subpix tx) (subpix ty) = _
  rw [key, hex, hey]

/-! ## Part E — incompatible grids are rejected -/

/-- What `bounding_box_in_pixel_domain(g, ref, tol)` decides, in one formula: with
`M = ~ref.affine * g.affine`, it succeeds exactly when the CRSs are equal, `ref` is invertible,
`M`'s linear part passes the four `isclose` tests and both offsets pass `is_almost_int`; every
failure is a `ValueError`. -/
theorem bbpd_eq (g ref : GeoBox) (tol : Rat) :
    bboxInPixelDomain g ref tol =
      if g.crs = ref.crs ∧ ref.aff.det ≠ 0 ∧
         closeOne (ref.aff.inv * g.aff).a = true ∧ closeZero (ref.aff.inv * g.aff).b = true ∧
         closeZero (ref.aff.inv * g.aff).d = true ∧ closeOne (ref.aff.inv * g.aff).e = true ∧
         isAlmostInt (ref.aff.inv * g.aff).c tol = true ∧ isAlmostInt (ref.aff.inv * g.aff).f tol = true
      then .ok ⟨pyRound (ref.aff.inv * g.aff).c, pyRound (ref.aff.inv * g.aff).f,
                pyRound (ref.aff.inv * g.aff).c + g.nx, pyRound (ref.aff.inv * g.aff).f + g.ny, none⟩
      else .error .valueError := by
  unfold bboxInPixelDomain pixelTranslation
  by_cases h1 : g.crs = ref.crs
  · by_cases h2 : ref.aff.det = 0
    · simp [h1, h2, Aff.inv?]
    · simp only [h1, ne_eq, not_true_eq_false, if_false, Aff.inv?, if_neg h2]
      by_cases h3 : (closeOne (ref.aff.inv * g.aff).a && closeZero (ref.aff.inv * g.aff).b &&
          closeZero (ref.aff.inv * g.aff).d && closeOne (ref.aff.inv * g.aff).e) = true
      · simp only [h3, if_true]
        simp only [Bool.and_eq_true] at h3
        by_cases h4 : (isAlmostInt (ref.aff.inv * g.aff).c tol && isAlmostInt (ref.aff.inv * g.aff).f tol) = true
        · simp only [h4, Bool.not_true, Bool.false_eq_true, if_false]
          simp only [Bool.and_eq_true] at h4
          simp [h2, h3, h4]
        · simp only [h4, Bool.not_false, if_true]
          simp only [Bool.and_eq_true, not_and] at h4
          have : ¬ (isAlmostInt (ref.aff.inv * g.aff).c tol = true ∧ isAlmostInt (ref.aff.inv * g.aff).f tol = true) :=
            fun ⟨a, b⟩ => h4 a b
          simp [this]
      · simp only [h3, Bool.false_eq_true, if_false]
        simp only [Bool.and_eq_true, not_and] at h3
        have : ¬ (closeOne (ref.aff.inv * g.aff).a = true ∧ closeZero (ref.aff.inv * g.aff).b = true ∧
            closeZero (ref.aff.inv * g.aff).d = true ∧ closeOne (ref.aff.inv * g.aff).e = true ∧
            isAlmostInt (ref.aff.inv * g.aff).c tol = true ∧ isAlmostInt (ref.aff.inv * g.aff).f tol = true) :=
          fun ⟨a, b, c, d, _⟩ => h3 ⟨⟨a, b⟩, c⟩ d
        simp [this]
  · simp [h1]

/-- **Accepted ⇒ compatible.**  If the pixel-domain bounding box of `g` with respect to `ref` is
computed at all, then: same CRS; and the pixel-to-pixel transform `M = ~ref.affine * g.affine`
has `|sx−1|, |sy−1| ≤ 1e-8 + 1e-5`, `|z1|, |z2| ≤ 1e-8`, and both offsets within `tol` of an
integer.  (Contrapositive: a different CRS, pixel size, orientation, or a sub-pixel offset
beyond the thresholds is rejected.) -/
theorem incompatible_rejected (g ref : GeoBox) (tol : Rat) (bb : BBox Int)
    (h : bboxInPixelDomain g ref tol = .ok bb) :
    g.crs = ref.crs ∧ ref.aff.det ≠ 0 ∧
    |(ref.aff.inv * g.aff).a - 1| ≤ tolOne ∧ |(ref.aff.inv * g.aff).e - 1| ≤ tolOne ∧
    |(ref.aff.inv * g.aff).b| ≤ tolZero ∧ |(ref.aff.inv * g.aff).d| ≤ tolZero ∧
    (∃ kx : Int, |(ref.aff.inv * g.aff).c - kx| < tol) ∧
    (∃ ky : Int, |(ref.aff.inv * g.aff).f - ky| < tol) := by
  rw [bbpd_eq] at h
  split at h
  · rename_i hc
    obtain ⟨c1, c2, c3, c4, c5, c6, c7, c8⟩ := hc
    simp only [closeOne, closeZero, decide_eq_true_eq, qabs_eq_abs] at c3 c4 c5 c6
    exact ⟨c1, c2, c3, c6, c4, c5, isAlmostInt_near _ _ c7, isAlmostInt_near _ _ c8⟩
  · cases h

/-- **Compatible ⇒ accepted, and treated as the whole-pixel shift.**  A grid within `tol ≤ 1/2` px
of a whole-pixel shift `(kx, ky)` of `ref` is accepted and handled exactly as that shift (the
converse of `incompatible_rejected` for grids of equal pixel size and orientation). -/
theorem compatible_accepted (g ref : GeoBox) (hcrs : g.crs = ref.crs) (hdet : ref.aff.det ≠ 0)
    (kx ky : Int) (ex ey tol : Rat) (h : g.aff = ref.aff * Aff.translation (kx + ex) (ky + ey))
    (hx : |ex| < tol) (hy : |ey| < tol) (htol : tol ≤ 1 / 2) :
    bboxInPixelDomain g ref tol = .ok ⟨kx, ky, kx + g.nx, ky + g.ny, none⟩ := by
  unfold bboxInPixelDomain
  rw [pixelTranslation_of_mul g ref hcrs hdet _ _ h]
  have ax : isAlmostInt ((kx : Rat) + ex) tol = true :=
    isAlmostInt_of_near _ _ kx (by rwa [add_sub_cancel_left])
  have ay : isAlmostInt ((ky : Rat) + ey) tol = true :=
    isAlmostInt_of_near _ _ ky (by rwa [add_sub_cancel_left])
  have rx : pyRound ((kx : Rat) + ex) = kx :=
    pyRound_near _ _ (by rw [add_sub_cancel_left]; linarith)
  have ry : pyRound ((ky : Rat) + ey) = ky :=
    pyRound_near _ _ (by rw [add_sub_cancel_left]; linarith)
  simp [ax, ay, rx, ry]

/-- A grid that differs from `ref` by the pixel-space transform `M` (`g.affine = ref.affine * M`)
with `M` outside the thresholds is rejected with `ValueError`. -/
theorem relative_transform_rejected (g ref : GeoBox) (M : Aff) (hdet : ref.aff.det ≠ 0)
    (hM : g.aff = ref.aff * M) (tol : Rat)
    (hbad : tolOne < |M.a - 1| ∨ tolOne < |M.e - 1| ∨ tolZero < |M.b| ∨ tolZero < |M.d| ∨
            (∀ k : Int, tol ≤ |M.c - k|) ∨ (∀ k : Int, tol ≤ |M.f - k|)) :
    bboxInPixelDomain g ref tol = .error .valueError := by
  cases hres : bboxInPixelDomain g ref tol with
  | error e =>
    rw [bbpd_eq] at hres
    split at hres
    · cases hres
    · cases hres; rfl
  | ok bb =>
    exfalso
    obtain ⟨_, _, a1, a2, a3, a4, ⟨kx, a5⟩, ⟨ky, a6⟩⟩ := incompatible_rejected g ref tol bb hres
    rw [hM, inv_mul_mul _ _ hdet] at a1 a2 a3 a4 a5 a6
    rcases hbad with h | h | h | h | h | h
    · exact absurd a1 (not_le.mpr h)
    · exact absurd a2 (not_le.mpr h)
    · exact absurd a3 (not_le.mpr h)
    · exact absurd a4 (not_le.mpr h)
    · exact absurd a5 (not_lt.mpr (h kx))
    · exact absurd a6 (not_lt.mpr (h ky))

/-- A rejected operand makes `|`, `&` and `overlap_roi` fail with the same `ValueError` (nothing is
resampled silently), whichever of the two is the reference for the failing test. -/
theorem rejection_propagates (a b : GeoBox) (tol : Rat)
    (h : bboxInPixelDomain b a tolPix = .error .valueError) :
    a.or b = .error .valueError ∧ a.and b = .error .valueError ∧
    (bboxInPixelDomain b a tol = .error .valueError → a.overlapRoi b tol = .error .valueError) := by
  have self_case : ∀ e, bboxInPixelDomain a a tolPix = .error e → e = .valueError := by
    intro e he
    rw [bbpd_eq] at he
    split at he
    · cases he
    · cases he; rfl
  refine ⟨?_, ?_, ?_⟩
  · simp only [GeoBox.or, geoboxUnionConservative, allBBoxes, h]
    cases haa : bboxInPixelDomain a a tolPix with
    | error e => simp [self_case e haa]
    | ok bb => simp
  · simp only [GeoBox.and, geoboxIntersectionConservative, allBBoxes, h]
    cases haa : bboxInPixelDomain a a tolPix with
    | error e => simp [self_case e haa]
    | ok bb => simp
  · intro h'
    simp [GeoBox.overlapRoi, h']

/-- different CRS: every operation refuses -/
theorem crs_mismatch_rejected (a b : GeoBox) (hc : a.crs ≠ b.crs) (tol : Rat) :
    a.or b = .error .valueError ∧ a.and b = .error .valueError ∧
    a.overlapRoi b tol = .error .valueError ∧ a.snapTo b = .error .valueError := by
  have hb : ∀ t, bboxInPixelDomain b a t = .error .valueError := by
    intro t
    rw [bbpd_eq, if_neg]
    rintro ⟨h, _⟩
    exact hc h.symm
  obtain ⟨h1, h2, h3⟩ := rejection_propagates a b tol (hb tolPix)
  refine ⟨h1, h2, h3 (hb tol), ?_⟩
  simp [GeoBox.snapTo, pixelTranslation, Ne.symm hc]

/-! ## Part B′ — the n-ary forms `geobox_union_conservative`, `geobox_intersection_conservative` -/

/-- n-ary union of members of a family (first member is the reference) -/
theorem union_list_onGrid (g0 : GeoBox) (hdet : g0.aff.det ≠ 0) (r : Rect) (ss : List Rect) :
    geoboxUnionConservative ((r :: ss).map (onGrid g0)) = .ok (onGrid g0 (ss.foldl Rect.union r)) := by
  have h := allBBoxes_onGrid g0 hdet r (r :: ss)
  simp only [List.map] at h ⊢
  simp only [geoboxUnionConservative, h, bboxUnion, foldRes_union_rel, geoboxOfPixBBox_onGrid]
  simp only [relBB]
  generalize List.foldl Rect.union r ss = U
  obtain ⟨a, b, c, d⟩ := U
  refine congrArg Except.ok (congrArg (onGrid g0) ?_)
  simp only [Rect.mk.injEq]
  omega

/-- n-ary intersection of members of a family -/
theorem inter_list_onGrid (g0 : GeoBox) (hdet : g0.aff.det ≠ 0) (r : Rect) (ss : List Rect) :
    geoboxIntersectionConservative ((r :: ss).map (onGrid g0)) =
      .ok (onGrid g0 (ss.foldl Rect.rawInter r).norm) := by
  have h := allBBoxes_onGrid g0 hdet r (r :: ss)
  simp only [List.map] at h ⊢
  simp only [geoboxIntersectionConservative, h, bboxIntersection, foldRes_inter_rel, normEmpty_eq,
    geoboxOfPixBBox_onGrid]
  simp only [relBB, Rect.norm]
  generalize List.foldl Rect.rawInter r ss = U
  obtain ⟨a, b, c, d⟩ := U
  refine congrArg Except.ok (congrArg (onGrid g0) ?_)
  simp only [Rect.mk.injEq]
  omega

/-- **n-ary intersection = exactly the pixels common to all operands** -/
theorem inter_list_pixels (g0 : GeoBox) (hdet : g0.aff.det ≠ 0) (r : Rect) (ss : List Rect) :
    ∃ g, geoboxIntersectionConservative ((r :: ss).map (onGrid g0)) = .ok g ∧
      ∀ w, HasPixel g w ↔ ∀ s ∈ r :: ss, HasPixel (onGrid g0 s) w := by
  refine ⟨_, inter_list_onGrid g0 hdet r ss, ?_⟩
  intro w
  have hnorm : ∀ (t : Rect) (i j : Int), t.norm.Has i j ↔ t.Has i j := by
    intro t i j; simp only [Rect.Has, Rect.norm]; omega
  constructor
  · intro h s hs
    obtain ⟨i, j, h1, h2, h3, h4, rfl⟩ := (hasPixel_onGrid _ _ _).mp h
    have hh : (List.foldl Rect.rawInter r ss).norm.Has i j := ⟨h1, h2, h3, h4⟩
    rw [hnorm, foldl_rawInter_has] at hh
    rw [hasPixel_idx g0 hdet]
    rcases List.mem_cons.mp hs with rfl | hs
    · exact hh.1
    · exact hh.2 s hs
  · intro h
    obtain ⟨i, j, h1, h2, h3, h4, rfl⟩ := (hasPixel_onGrid _ _ _).mp (h r (List.mem_cons_self ..))
    rw [hasPixel_idx g0 hdet]
    apply (hnorm _ i j).mpr
    rw [foldl_rawInter_has]
    refine ⟨⟨h1, h2, h3, h4⟩, ?_⟩
    intro s hs
    exact (hasPixel_idx g0 hdet s i j).mp (h s (List.mem_cons_of_mem _ hs))

/-- **n-ary union = smallest member of the family containing all (non-empty) operands** -/
theorem union_list_pixels (g0 : GeoBox) (hdet : g0.aff.det ≠ 0) (r : Rect) (ss : List Rect) :
    ∃ g, geoboxUnionConservative ((r :: ss).map (onGrid g0)) = .ok g ∧
      (∀ s ∈ r :: ss, ∀ w, HasPixel (onGrid g0 s) w → HasPixel g w) ∧
      ((∀ s ∈ r :: ss, s.NonEmpty) → ∀ t : Rect,
        (∀ s ∈ r :: ss, ∀ w, HasPixel (onGrid g0 s) w → HasPixel (onGrid g0 t) w) →
        ∀ w, HasPixel g w → HasPixel (onGrid g0 t) w) := by
  refine ⟨_, union_list_onGrid g0 hdet r ss, ?_, ?_⟩
  · intro s hs w hw
    obtain ⟨i, j, h1, h2, h3, h4, rfl⟩ := (hasPixel_onGrid _ _ _).mp hw
    rw [hasPixel_idx g0 hdet]
    exact (foldl_union_spec r ss).1 s hs i j ⟨h1, h2, h3, h4⟩
  · intro hne t ht w hw
    obtain ⟨i, j, h1, h2, h3, h4, rfl⟩ := (hasPixel_onGrid _ _ _).mp hw
    rw [hasPixel_idx g0 hdet]
    have edges : ∀ s ∈ r :: ss, t.x0 ≤ s.x0 ∧ t.y0 ≤ s.y0 ∧ s.x1 ≤ t.x1 ∧ s.y1 ≤ t.y1 := by
      intro s hs
      obtain ⟨n1, n2⟩ := hne s hs
      have lo := ht s hs (g0.aff.apply ((s.x0 : Rat), (s.y0 : Rat)))
        ((hasPixel_idx g0 hdet s _ _).mpr (by omega))
      have hi := ht s hs (g0.aff.apply (((s.x1 - 1 : Int) : Rat), ((s.y1 - 1 : Int) : Rat)))
        ((hasPixel_idx g0 hdet s _ _).mpr (by omega))
      rw [hasPixel_idx g0 hdet] at lo hi
      omega
    have := (foldl_union_spec r ss).2 t edges
    omega

/-- the n-ary union is the left fold of the binary `|` (so the reference never matters) -/
theorem union_list_eq_fold (g0 : GeoBox) (hdet : g0.aff.det ≠ 0) (r s : Rect) (ss : List Rect) :
    geoboxUnionConservative ((r :: s :: ss).map (onGrid g0)) =
      ((onGrid g0 r).or (onGrid g0 s) >>= fun x => geoboxUnionConservative (x :: ss.map (onGrid g0))) := by
  rw [union_list_onGrid g0 hdet r (s :: ss), or_onGrid g0 hdet]
  simp only [bind, Except.bind, List.foldl]
  exact (union_list_onGrid g0 hdet (r.union s) ss).symm

/-- the n-ary intersection is the left fold of the binary `&` too (intermediate empty results are
normalised, the final result is the same GeoBox) -/
theorem inter_list_eq_fold (g0 : GeoBox) (hdet : g0.aff.det ≠ 0) (r s : Rect) (ss : List Rect) :
    geoboxIntersectionConservative ((r :: s :: ss).map (onGrid g0)) =
      ((onGrid g0 r).and (onGrid g0 s) >>= fun x => geoboxIntersectionConservative (x :: ss.map (onGrid g0))) := by
  have key : ∀ (ss : List Rect) (t t' : Rect), t.norm = t'.norm →
      (ss.foldl Rect.rawInter t).norm = (ss.foldl Rect.rawInter t').norm := by
    intro ss
    induction ss with
    | nil => intro t t' h; exact h
    | cons u us ih =>
      intro t t' h
      simp only [List.foldl]
      apply ih
      simp only [Rect.norm, Rect.rawInter, Rect.mk.injEq] at h ⊢
      omega
  rw [inter_list_onGrid g0 hdet r (s :: ss), and_onGrid g0 hdet]
  simp only [bind, Except.bind, List.foldl]
  rw [show (onGrid g0 (r.inter s) :: ss.map (onGrid g0)) = ((r.inter s) :: ss).map (onGrid g0) from rfl,
    inter_list_onGrid g0 hdet (r.inter s) ss]
  congr 2
  apply key
  simp only [Rect.norm, Rect.rawInter, Rect.inter, Rect.mk.injEq]
  refine ⟨trivial, trivial, ?_, ?_⟩ <;> omega

/-- the n-ary intersection is an empty GeoBox exactly when no pixel is common to all operands, and
never has a negative shape -/
theorem inter_list_empty_iff (g0 : GeoBox) (hdet : g0.aff.det ≠ 0) (r : Rect) (ss : List Rect) :
    ∃ g, geoboxIntersectionConservative ((r :: ss).map (onGrid g0)) = .ok g ∧ 0 ≤ g.nx ∧ 0 ≤ g.ny ∧
      (g.isEmpty = true ↔ ¬ ∃ w, ∀ s ∈ r :: ss, HasPixel (onGrid g0 s) w) := by
  obtain ⟨g, hg, hpix⟩ := inter_list_pixels g0 hdet r ss
  have hg' := inter_list_onGrid g0 hdet r ss
  rw [hg] at hg'
  cases hg'
  refine ⟨_, hg, ?_, ?_, ?_⟩
  · simp only [onGrid, Rect.norm]; omega
  · simp only [onGrid, Rect.norm]; omega
  · generalize hU : (List.foldl Rect.rawInter r ss).norm = U at *
    have hv : U.x0 ≤ U.x1 ∧ U.y0 ≤ U.y1 := by
      rw [← hU]; simp only [Rect.norm]; omega
    simp only [GeoBox.isEmpty, Bool.or_eq_true, beq_iff_eq]
    have e1 : (onGrid g0 U).ny = U.y1 - U.y0 := rfl
    have e2 : (onGrid g0 U).nx = U.x1 - U.x0 := rfl
    rw [e1, e2]
    constructor
    · rintro h ⟨w, hw⟩
      obtain ⟨i, j, h1, h2, h3, h4, _⟩ := (hasPixel_onGrid _ _ _).mp ((hpix w).mpr hw)
      omega
    · intro h
      by_contra hne
      apply h
      refine ⟨g0.aff.apply ((U.x0 : Rat), (U.y0 : Rat)), (hpix _).mp ?_⟩
      rw [hasPixel_idx g0 hdet]
      omega

/-! ## witnesses: the defect repaired in `overlap_roi`, `round`, non-vacuity -/

/-- Python `round`: nearest integer, ties go to the even one. -/
theorem pyRound_spec (x : Rat) :
    |x - pyRound x| ≤ 1 / 2 ∧ (|x - pyRound x| = 1 / 2 → pyRound x % 2 = 0) := by
  unfold pyRound
  have f1 := Rat.floor_le x
  have f2 := Rat.lt_floor_add_one x
  push_cast at f2
  by_cases h1 : x - (x.floor : Rat) < 1 / 2
  · simp only [h1, if_true]
    constructor
    · rw [abs_le]; constructor <;> linarith
    · intro h; rw [abs_of_nonneg (by linarith)] at h; linarith
  · by_cases h2 : x - (x.floor : Rat) > 1 / 2
    · simp only [h1, h2, if_false, if_true]
      push_cast
      constructor
      · rw [abs_le]; constructor <;> linarith
      · intro h; rw [abs_of_nonpos (by linarith)] at h; linarith
    · simp only [h1, h2, if_false]
      have e : x - (x.floor : Rat) = 1 / 2 := le_antisymm (not_lt.mp h2) (not_lt.mp h1)
      split
      · refine ⟨by rw [e]; norm_num, fun _ => ‹_›⟩
      · push_cast
        refine ⟨?_, fun _ => by omega⟩
        have : x - ((x.floor : Rat) + 1) = -(1 / 2) := by linarith
        rw [this]; norm_num

/-- The defect repaired by the `fix:` commit (replayed on the real code by the harness, key
`overlap-roi-not-shared-pixels`): before the repair, for `b` wholly to the left of `a`, the ROI had
a negative stop which numpy wraps around — column 0 of `a` is selected although `a & b` is empty. -/
theorem overlap_roi_unrepaired_cex :
    let a : GeoBox := onGrid ⟨0, 0, Aff.id, some 1⟩ ⟨0, 0, 10, 10⟩
    let b : GeoBox := onGrid ⟨0, 0, Aff.id, some 1⟩ ⟨-8, 2, -5, 5⟩
    a.overlapRoiUnrepaired b tolPix = .ok ⟨2, 5, 0, -5⟩ ∧
    PySlice.Sel 10 (.slc (some 0) (some (-5))) 0 ∧
    (∃ g, a.and b = .ok g ∧ g.isEmpty = true) ∧
    a.overlapRoi b tolPix = .ok ⟨2, 5, 0, 0⟩ := by
  have hdet : (⟨0, 0, Aff.id, some 1⟩ : GeoBox).aff.det ≠ 0 := by simp [Aff.det, Aff.id]
  refine ⟨?_, by decide, ⟨_, and_onGrid _ hdet _ _, by decide⟩, ?_⟩
  · simp only [GeoBox.overlapRoiUnrepaired, bbpd_onGrid _ hdet _ _ _ tolPix_pos]
    decide
  · simp only [GeoBox.overlapRoi, bbpd_onGrid _ hdet _ _ _ tolPix_pos]
    decide

/-- non-vacuity: a rotated, scaled base grid satisfies the hypotheses of Part B; concrete instances
of the rejection theorem (double pixel size, 90° rotation, mirror image, half-pixel offset). -/
example : (⟨4, 5, ⟨3, -4, 100, 4, 3, 200⟩, some 1⟩ : GeoBox).aff.det ≠ 0 := by
  simp [Aff.det]; norm_num

theorem rejected_examples (ref : GeoBox) (hdet : ref.aff.det ≠ 0) (ny nx : Int) (c f : Rat) :
    bboxInPixelDomain ⟨ny, nx, ref.aff * ⟨2, 0, c, 0, 2, f⟩, ref.crs⟩ ref tolPix = .error .valueError ∧
    bboxInPixelDomain ⟨ny, nx, ref.aff * ⟨0, -1, c, 1, 0, f⟩, ref.crs⟩ ref tolPix = .error .valueError ∧
    bboxInPixelDomain ⟨ny, nx, ref.aff * ⟨-1, 0, c, 0, 1, f⟩, ref.crs⟩ ref tolPix = .error .valueError ∧
    bboxInPixelDomain ⟨ny, nx, ref.aff * Aff.translation (1 / 2) 0, ref.crs⟩ ref tolPix = .error .valueError := by
  have t1 : tolOne < 1 := by unfold tolOne; norm_num
  have tp : tolPix < 1 / 2 := by unfold tolPix; norm_num
  refine ⟨?_, ?_, ?_, ?_⟩
  · exact relative_transform_rejected _ ref _ hdet rfl _ (Or.inl (by norm_num; exact t1))
  · exact relative_transform_rejected _ ref _ hdet rfl _ (Or.inl (by norm_num; exact t1))
  · exact relative_transform_rejected _ ref _ hdet rfl _ (Or.inl (by norm_num; linarith))
  · refine relative_transform_rejected _ ref _ hdet rfl _ (Or.inr (Or.inr (Or.inr (Or.inr (Or.inl ?_)))))
    intro k
    simp only [Aff.translation]
    -- |1/2 - k| ≥ 1/2 for every integer k
    have : (1 : Rat) / 2 ≤ |1 / 2 - (k : Rat)| := by
      rcases le_or_gt k 0 with hk | hk
      · have : (k : Rat) ≤ 0 := by exact_mod_cast hk
        rw [abs_of_nonneg (by linarith)]; linarith
      · have : (1 : Rat) ≤ k := by exact_mod_cast hk
        rw [abs_of_nonpos (by linarith)]; linarith
    linarith

end OdcGeo.C16
