/-
C19 — rebinding the name of a held CRS instance in the unified state (`Model/C19Rebind.lean`).
-/
import OdcGeo.Model.C19Rebind
import OdcGeo.Props.C19Unified

namespace OdcGeo.C19

theorem assoc_retarget_held (v fresh h : Nat) : ∀ hold : List (Nat × Option Nat),
    assoc h hold = some (some v) → assoc h (retarget v fresh hold) = some (some fresh)
  | [], e => by simp [assoc] at e
  | a :: t, e => by
    by_cases ha : a.1 = h
    · simp only [assoc, ha, if_true, Option.some.injEq] at e
      simp [retarget, assoc, ha, e]
    · simp only [assoc, ha, if_false] at e
      have ih := assoc_retarget_held v fresh h t e
      simp only [retarget, List.map_cons] at ih ⊢
      by_cases hv : a.2 = some v <;> simp [assoc, ha, hv, ih]

theorem assoc_retarget_other (v fresh h : Nat) (r : Option Nat) (hr : r ≠ some v) : ∀ hold : List (Nat × Option Nat),
    assoc h hold = some r → assoc h (retarget v fresh hold) = some r
  | [], e => by simp [assoc] at e
  | a :: t, e => by
    by_cases ha : a.1 = h
    · simp only [assoc, ha, if_true, Option.some.injEq] at e
      subst e
      simp [retarget, assoc, ha, hr]
    · simp only [assoc, ha, if_false] at e
      have ih := assoc_retarget_other v fresh h r hr t e
      simp only [retarget, List.map_cons] at ih ⊢
      by_cases hv : a.2 = some v <;> simp [assoc, ha, hv, ih]

/-- the core after the renaming part of a rebinding: the old record sits under `fresh`, the
name `v` is free -/
theorem rename_core (W : World) (σ : State) (v fresh : Nat) (c : CrsObj) (ev : assoc v σ.vars = some c)
    (hf : fresh ≠ v) :
    (step W (step W σ (.mk fresh (.crs v) 0)).1 (.drop v)).1.vars = delVar v (setVar fresh c σ.vars) ∧
    assoc fresh (delVar v (setVar fresh c σ.vars)) = some c := by
  refine ⟨by simp [step, construct, ev], ?_⟩
  unfold delVar
  rw [assoc_filter_ne fresh v hf, assoc_setVar]

/-- **`v = CRS(spec)` while a value holds the old `v`**: the value keeps seeing the OLD record
(all three fields, the lazy `_epsg` as it was), the name `v` denotes the new instance -/
theorem rebind_mk_holder_keeps_old (W : World) (σ : UState) (h v fresh : Nat) (spec : Spec) (pick : Nat)
    (c c' : CrsObj) (eh : assoc h σ.hold = some (some v)) (ev : assoc v σ.core.vars = some c)
    (hheld : σ.held v = true) (hf : fresh ≠ v)
    (hc : (construct W (step W (step W σ.core (.mk fresh (.crs v) 0)).1 (.drop v)).1 spec pick).2 = .ok c') :
    (ustepR W σ fresh (.core (.mk v spec pick))).1.crsOf h = some (some c) ∧
    assoc v (ustepR W σ fresh (.core (.mk v spec pick))).1.core.vars = some c' := by
  obtain ⟨hvars, hfr⟩ := rename_core W σ.core v fresh c ev hf
  simp only [ustepR, Op.binds, hheld, if_true]
  generalize hσ2 : (step W (step W σ.core (.mk fresh (.crs v) 0)).1 (.drop v)).1 = σ2 at hc hvars
  have hcv := construct_vars W σ2 spec pick
  simp only [step]
  revert hc hcv
  generalize construct W σ2 spec pick = r
  intro hc hcv
  rcases r with ⟨σ3, (e | c3)⟩
  · cases hc
  · simp only at hc hcv
    cases hc
    refine ⟨?_, by simp [assoc_setVar]⟩
    simp only [UState.crsOf, assoc_retarget_held v fresh h σ.hold eh]
    rw [assoc_setVar_ne fresh v _ _ hf, hcv, hvars, hfr]
    rfl

/-- values holding OTHER instances are not touched by the rebinding -/
theorem rebind_mk_leaves_others (W : World) (σ : UState) (h v w fresh : Nat) (spec : Spec) (pick : Nat)
    (cw : CrsObj) (eh : assoc h σ.hold = some (some w)) (ew : assoc w σ.core.vars = some cw)
    (hw : w ≠ v) (hwf : w ≠ fresh) (hheld : σ.held v = true) (c : CrsObj) (ev : assoc v σ.core.vars = some c)
    (hf : fresh ≠ v) :
    (ustepR W σ fresh (.core (.mk v spec pick))).1.crsOf h = some (some cw) := by
  obtain ⟨hvars, _⟩ := rename_core W σ.core v fresh c ev hf
  simp only [ustepR, Op.binds, hheld, if_true]
  generalize hσ2 : (step W (step W σ.core (.mk fresh (.crs v) 0)).1 (.drop v)).1 = σ2 at hvars
  have hcv := construct_vars W σ2 spec pick
  simp only [step]
  revert hcv
  generalize construct W σ2 spec pick = r
  intro hcv
  have hr : (some w : Option Nat) ≠ some v := by simpa using hw
  have base : assoc w σ2.vars = some cw := by
    rw [hvars]; unfold delVar
    rw [assoc_filter_ne w v hw, assoc_setVar_ne w fresh _ _ hwf, ew]
  rcases r with ⟨σ3, (e | c3)⟩
  · simp only at hcv
    simp only [UState.crsOf, assoc_retarget_other v fresh h (some w) hr σ.hold eh, hcv, base]; rfl
  · simp only at hcv
    simp only [UState.crsOf, assoc_retarget_other v fresh h (some w) hr σ.hold eh]
    rw [assoc_setVar_ne w v _ _ hw, hcv, base]; rfl

/-- the core of the state after a rebinding is still a state of the history model: it is
reached from the core before by real operations (`CRS(v)` into the fresh name, `del v`, the
operation) — so `urunFrom_core` and with it every part (a) theorem extends to histories that
rebind held names -/
theorem ustepR_core_reachable (W : World) (σ : UState) (fresh : Nat) (op : Op) (v : Nat)
    (hb : op.binds = some v) (hheld : σ.held v = true) (hop : op.real = true) :
    ∃ ops : List Op, (∀ o ∈ ops, o.real = true) ∧
      (ustepR W σ fresh (.core op)).1.core = (runFrom W σ.core ops).1 :=
  ⟨[.mk fresh (.crs v) 0, .drop v, op],
   by intro o ho; simp only [List.mem_cons, List.mem_nil_iff, or_false] at ho
      rcases ho with rfl | rfl | rfl <;> first | rfl | exact hop,
   by simp [ustepR, hb, hheld, runFrom]⟩

/-- non-vacuity: the K4 world, a box holding `X`, then `x = CRS("E")` under the same name -/
example :
    let σ := (urun k4World [.core (.mk 0 (.str "X") 0), .hold 1 0]).1
    σ.held 0 = true ∧
    (ustepR k4World σ 7 (.core (.mk 0 (.str "E") 0))).1.crsOf 1 = some (some ⟨0, ⟨0, "X", "WX", some 4326⟩, "X", some 0⟩) ∧
    (assoc 0 (ustepR k4World σ 7 (.core (.mk 0 (.str "E") 0))).1.core.vars).map (·.str) = some "E" := by
  decide +kernel

end OdcGeo.C19
