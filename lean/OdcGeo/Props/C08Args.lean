/-
C08 — the argument glue of `GeoBox.from_bbox` / `GeoBox.from_geopolygon` (`Model/C08Args.lean`):
every public spelling of region / crs / shape / resolution / anchor reduces to the numeric core
`fromBbox` of `Model/C08.lean` (so the property theorems of `Props/C08.lean` hold for the public call),
which CRS the result reports, what is ignored, and exactly which malformed arguments are rejected how.
Ends with end-to-end statements for the public call forms (arguments in, guarantees out, no named
hypothesis in between).
-/
import OdcGeo.Model.C08Args
import OdcGeo.Props.C08

namespace OdcGeo.C08
open OdcGeo.C20 (snapGrid)

/-! ## helpers (local) -/

theorem fromBbox_val_norm (bb : BBox) (tight : Bool) (shape : ShapeArg) (res : ResArg) (a : AnchorArg)
    (tol : Rat) : fromBbox bb tight shape res (.val (normAnchor a)) tol = fromBbox bb tight shape res a tol := by
  unfold fromBbox
  rfl

theorem fromBbox_res_ignores_shape (bb : BBox) (tight : Bool) {s s' : ShapeArg} {res : ResArg} (a : AnchorArg)
    (tol : Rat) {rx ry : Rat} (hs : ∀ n, s ≠ .int n) (hs' : ∀ n, s' ≠ .int n) (hres : res.xy? = some (rx, ry)) :
    fromBbox bb tight s res a tol = fromBbox bb tight s' res a tol := by
  rw [fromBbox_res_eq hs hres, fromBbox_res_eq hs' hres]

/-! ## `shape` / `resolution` dispatch -/

theorem shapeDispatch_of_not_num (bb : BBox) {shape : ShapeForm} (res : ResForm) (h : ∀ q, shape ≠ .num q) :
    shapeDispatch bb shape res = .ok (shape, res) := by
  cases shape <;> first | rfl | exact absurd rfl (h _)

theorem fromBboxForms_arg (bb : BBox) (tight : Bool) (shape : ShapeForm) (res : ResForm) (a : AnchorArg)
    (tol : Rat) :
    fromBboxForms bb tight shape res (.arg a) tol =
      (shapeDispatch bb shape res >>= fun sr => fromBboxBranches bb tight sr.1 sr.2 (normAnchor a) tol) := rfl

/-- A non-integral number as `shape` (`shape=2.5`): the square pixel is `longest side / 2.5`, then the
resolution branch. -/
theorem from_bbox_forms_num_shape_any (bb : BBox) (tight : Bool) (q : Rat) (res : ResForm) (a : AnchorArg)
    (tol : Rat) (hy : bb.spanY ≠ 0) (hq : q ≠ 0) :
    fromBboxForms bb tight (.num q) res (.arg a) tol =
      liftRes (fromBbox bb tight .none
        (.scalar (if bb.spanX / bb.spanY > 1 then bb.spanX / q else bb.spanY / q)) a tol) := by
  rw [fromBboxForms_arg]
  by_cases hlong : bb.spanX / bb.spanY > 1
  · simp only [shapeDispatch, numShapeToRes, if_neg hy, if_neg hq, if_pos hlong, bind, Except.bind,
      fromBboxBranches, resOfForm, fromBbox_val_norm]
  · simp only [shapeDispatch, numShapeToRes, if_neg hy, if_neg hq, if_neg hlong, bind, Except.bind,
      fromBboxBranches, resOfForm, fromBbox_val_norm]

/-- **A single number as `shape`** (an `int`, or a float with an integral value) is the `.int` branch of the
core, whatever `resolution=` was passed alongside — also a `resolution` of a type `res_` rejects: the derived
resolution **overrides** it before it is looked at. -/
theorem from_bbox_forms_num_shape (bb : BBox) (tight : Bool) (n : Int) (res : ResForm) (res' : ResArg)
    (a : AnchorArg) (tol : Rat) :
    fromBboxForms bb tight (.num (n : Rat)) res (.arg a) tol = liftRes (fromBbox bb tight (.int n) res' a tol) := by
  by_cases hy : bb.spanY = 0
  · rw [fromBboxForms_arg]
    unfold shapeDispatch numShapeToRes fromBbox intShapeToRes
    simp only [if_pos hy, bind, Except.bind, liftRes]
  · by_cases hn : n = 0
    · rw [fromBboxForms_arg]
      unfold shapeDispatch numShapeToRes fromBbox intShapeToRes
      have hn' : (n : Rat) = 0 := by exact_mod_cast hn
      simp only [if_neg hy, if_pos hn, if_pos hn', bind, Except.bind, liftRes]
    · have hn' : (n : Rat) ≠ 0 := by exact_mod_cast hn
      rw [from_bbox_forms_num_shape_any bb tight n res a tol hy hn',
        from_bbox_int_shape_reduces bb tight n res' a tol hy hn]

/-- The derived resolution of a number `shape` does not depend on `resolution=` at all. -/
theorem from_bbox_forms_num_shape_ignores_res (bb : BBox) (tight : Bool) (q : Rat) (res res' : ResForm)
    (a : AnchorForm) (tol : Rat) :
    fromBboxForms bb tight (.num q) res a tol = fromBboxForms bb tight (.num q) res' a tol := rfl

/-- **`resolution=` given** (a number or a `Resolution`) and `shape` not a number: the resolution branch of the
core; the `shape` argument is **not looked at** — not even validated (`shape=numpy.int64(4)`, which `shape_`
rejects, is accepted here). -/
theorem from_bbox_forms_res (bb : BBox) (tight : Bool) (shape : ShapeForm) (res : ResForm) (ra : ResArg)
    (a : AnchorArg) (tol : Rat) (hshape : ∀ q, shape ≠ .num q) (hres : resOfForm res = .ok ra) (hne : res ≠ .none) :
    fromBboxForms bb tight shape res (.arg a) tol = liftRes (fromBbox bb tight .none ra a tol) := by
  rw [fromBboxForms_arg, shapeDispatch_of_not_num bb res hshape]
  simp only [bind, Except.bind]
  cases res with
  | none => exact absurd rfl hne
  | num q => simp only [resOfForm] at hres; cases hres; simp only [fromBboxBranches, resOfForm, fromBbox_val_norm]
  | res rx ry => simp only [resOfForm] at hres; cases hres; simp only [fromBboxBranches, resOfForm, fromBbox_val_norm]
  | other => simp [resOfForm] at hres

/-- A `resolution` of a type `res_` does not understand (tuple, plain `XY`, `numpy.float32`, `numpy` integer) is
a `ValueError` — unless a number `shape` has overridden it (`from_bbox_forms_num_shape`). -/
theorem from_bbox_forms_res_other (bb : BBox) (tight : Bool) (shape : ShapeForm) (a : AnchorArg) (tol : Rat)
    (hshape : ∀ q, shape ≠ .num q) :
    fromBboxForms bb tight shape .other (.arg a) tol = .error (.std .valueError) := by
  rw [fromBboxForms_arg, shapeDispatch_of_not_num bb _ hshape]
  rfl

/-- **`shape=` given, no resolution**: `shape_()` then the shape branch of the core.  `Shape2d` as is, an `XY`
and a two-element sequence go through `int()` (truncation toward zero: `(2.7, 4.2)` is `(2, 4)`). -/
theorem from_bbox_forms_shape (bb : BBox) (tight : Bool) (a : AnchorArg) (tol : Rat) :
    (∀ ny nx, fromBboxForms bb tight (.shape2d ny nx) .none (.arg a) tol =
      liftRes (fromBbox bb tight (.yx ny nx) .none a tol)) ∧
    (∀ x y, fromBboxForms bb tight (.xy x y) .none (.arg a) tol =
      liftRes (fromBbox bb tight (.yx (C20.trunc y) (C20.trunc x)) .none a tol)) ∧
    (∀ u v, fromBboxForms bb tight (.seq [u, v]) .none (.arg a) tol =
      liftRes (fromBbox bb tight (.yx (C20.trunc u) (C20.trunc v)) .none a tol)) := by
  refine ⟨?_, ?_, ?_⟩ <;> intros <;> rw [fromBboxForms_arg] <;>
    simp only [shapeDispatch, bind, Except.bind, fromBboxBranches, shapeOfForm, fromBbox_val_norm]

/-- Neither shape nor resolution, a sequence that does not have exactly two elements, or a `shape` of a type
`shape_` does not understand: `ValueError` (after the anchor has been normalised). -/
theorem from_bbox_forms_shape_rejected (bb : BBox) (tight : Bool) (a : AnchorArg) (tol : Rat) (shape : ShapeForm)
    (h : shape = .none ∨ shape = .other ∨ ∃ l, shape = .seq l ∧ l.length ≠ 2) :
    fromBboxForms bb tight shape .none (.arg a) tol = .error (.std .valueError) := by
  rcases h with rfl | rfl | ⟨l, rfl, hl⟩
  · rfl
  · rfl
  · match l, hl with
    | [], _ => rfl
    | [_], _ => rfl
    | [_, _], hl => exact absurd rfl hl
    | _ :: _ :: _ :: _, _ => rfl

/-- An anchor `_norm_anchor` does not know is rejected before anything else is looked at: `KeyError` for a
hashable value (misspelt name, `None`, a tuple, `numpy.float32`), `TypeError` for an unhashable one. -/
theorem from_bbox_forms_bad_anchor (bb : BBox) (tight : Bool) (shape : ShapeForm) (res : ResForm) (tol : Rat) :
    fromBboxForms bb tight shape res .badKey tol = .error .keyError ∧
    fromBboxForms bb tight shape res .unhashable tol = .error .typeError := ⟨rfl, rfl⟩

/-! ## region / CRS -/

section crs
variable {κ : Type} (lonlat : κ) (proj : Rat × Rat → Rat × Rat) (utmCrs : κ)

/-- Shape of every successful or failing result: `fromBboxForms` on the normalised region, tagged with the CRS. -/
theorem fromBboxCrs_eq (region : RegionForm κ) (crs : CrsForm κ) (tight : Bool) (shape : ShapeForm)
    (res : ResForm) (a : AnchorArg) (tol : Rat) :
    fromBboxCrs lonlat proj utmCrs region crs tight shape res (.arg a) tol =
      (normRegion lonlat proj utmCrs region crs >>= fun bc =>
        (fromBboxForms bc.1 tight shape res (.arg a) tol).map (fun g => ⟨g, bc.2⟩)) := by
  unfold fromBboxCrs
  simp only [normAnchorForm, bind, Except.bind]
  cases normRegion lonlat proj utmCrs region crs with
  | error e => rfl
  | ok bc =>
    simp only
    cases fromBboxForms bc.1 tight shape res (.arg a) tol <;> rfl

/-- **A `BoundingBox` that carries a CRS decides the CRS of the result; the `crs` argument is not looked at** —
not even `crs="utm"` (nothing is projected). -/
theorem from_bbox_crs_of_bbox (b : BBox) (c : κ) (crs : CrsForm κ) (tight : Bool) (shape : ShapeForm)
    (res : ResForm) (a : AnchorArg) (tol : Rat) :
    fromBboxCrs lonlat proj utmCrs (.bbox b (some c)) crs tight shape res (.arg a) tol =
      (fromBboxForms b tight shape res (.arg a) tol).map (fun g => ⟨g, c⟩) := by
  rw [fromBboxCrs_eq]; rfl

/-- A 4-tuple (or list) region: the CRS is the `crs` argument, `"epsg:4326"` when that is `None` or falsy; the
grid itself does not depend on it. -/
theorem from_bbox_crs_of_tuple (l b r t : Rat) (tight : Bool) (shape : ShapeForm) (res : ResForm)
    (a : AnchorArg) (tol : Rat) :
    (∀ c, fromBboxCrs lonlat proj utmCrs (.tuple [l, b, r, t]) (.given c) tight shape res (.arg a) tol =
      (fromBboxForms ⟨l, b, r, t⟩ tight shape res (.arg a) tol).map (fun g => ⟨g, c⟩)) ∧
    fromBboxCrs lonlat proj utmCrs (.tuple [l, b, r, t]) .none tight shape res (.arg a) tol =
      (fromBboxForms ⟨l, b, r, t⟩ tight shape res (.arg a) tol).map (fun g => ⟨g, lonlat⟩) ∧
    fromBboxCrs lonlat proj utmCrs (.tuple [l, b, r, t]) .falsy tight shape res (.arg a) tol =
      (fromBboxForms ⟨l, b, r, t⟩ tight shape res (.arg a) tol).map (fun g => ⟨g, lonlat⟩) := by
  refine ⟨fun c => ?_, ?_, ?_⟩ <;> rw [fromBboxCrs_eq] <;> rfl

/-- `crs="utm…"` with a tuple: the region is the envelope of the four projected corners (C08's `fromBboxUtm`),
the CRS the one the string resolved to. -/
theorem from_bbox_crs_utm (l b r t : Rat) (tight : Bool) (shape : ShapeForm) (res : ResForm)
    (a : AnchorArg) (tol : Rat) :
    fromBboxCrs lonlat proj utmCrs (.tuple [l, b, r, t]) .utm tight shape res (.arg a) tol =
      (fromBboxForms (normBboxUtm proj ⟨l, b, r, t⟩) tight shape res (.arg a) tol).map (fun g => ⟨g, utmCrs⟩) := by
  rw [fromBboxCrs_eq]; rfl

/-- A `BoundingBox` without CRS is the tuple of its four numbers. -/
theorem from_bbox_crs_bbox_nocrs (bb : BBox) (crs : CrsForm κ) (tight : Bool) (shape : ShapeForm)
    (res : ResForm) (a : AnchorForm) (tol : Rat) :
    fromBboxCrs lonlat proj utmCrs (.bbox bb none) crs tight shape res a tol =
      fromBboxCrs lonlat proj utmCrs (.tuple [bb.left, bb.bottom, bb.right, bb.top]) crs tight shape res a tol := rfl

/-- A tuple that does not have exactly four numbers: `TypeError` (from `BoundingBox(*bbox, crs=…)`), after the
anchor has been accepted. -/
theorem from_bbox_crs_bad_tuple (vals : List Rat) (hv : vals.length ≠ 4) (crs : CrsForm κ) (tight : Bool)
    (shape : ShapeForm) (res : ResForm) (a : AnchorArg) (tol : Rat) :
    fromBboxCrs lonlat proj utmCrs (.tuple vals) crs tight shape res (.arg a) tol = .error .typeError := by
  rw [fromBboxCrs_eq]
  unfold normRegion normBboxVals
  match vals, hv with
  | [], _ => rfl
  | [_], _ => rfl
  | [_, _], _ => rfl
  | [_, _, _], _ => rfl
  | [_, _, _, _], hv => exact absurd rfl hv
  | _ :: _ :: _ :: _ :: _ :: _, _ => rfl

/-! ## `from_geopolygon` and its `crs` argument -/

/-- `crs=None` / `Unset()`: the same-CRS construction (`fromGeopolygon`), reported in the polygon's CRS —
`"epsg:4326"` for a polygon **without** CRS (its CRS-less bounding box goes through `_norm_bbox(.., None)`). -/
theorem from_geopolygon_args_unset (polyCrs : Option κ) (p : Rat × Rat) (ps : List (Rat × Rat)) (res : ResArg)
    (align : Option (Rat × Rat)) (shape : ShapeArg) (tight : Bool) (anchor : AnchorArg) (tol : Rat) :
    fromGeopolygonArgs lonlat proj polyCrs p ps res .unset align shape tight anchor tol =
      (fromGeopolygon p ps res align shape tight anchor tol).map (fun g => ⟨g, polyCrs.getD lonlat⟩) := by
  unfold fromGeopolygonArgs fromGeopolygon
  cases alignToAnchor align res anchor with
  | error e => rfl
  | ok ra =>
    simp only [bind, Except.bind]
    cases fromBbox (bboxOfPts p ps) tight shape ra.1 ra.2 tol <;> rfl

/-- `crs=` given and a polygon with a CRS: the vertices are projected (`fromGeopolygonCrs`), the result reports
the requested CRS. -/
theorem from_geopolygon_args_given (c c0 : κ) (p : Rat × Rat) (ps : List (Rat × Rat)) (res : ResArg)
    (align : Option (Rat × Rat)) (shape : ShapeArg) (tight : Bool) (anchor : AnchorArg) (tol : Rat) :
    fromGeopolygonArgs lonlat proj (some c0) p ps res (.given c) align shape tight anchor tol =
      (fromGeopolygonCrs proj p ps res align shape tight anchor tol).map (fun g => ⟨g, c⟩) := by
  unfold fromGeopolygonArgs fromGeopolygonCrs fromGeopolygon
  cases alignToAnchor align res anchor with
  | error e => rfl
  | ok ra =>
    simp only [bind, Except.bind]
    cases fromBbox (bboxOfPts (proj p) (ps.map proj)) tight shape ra.1 ra.2 tol <;> rfl

/-- `crs=` given and a polygon **without** CRS: `ValueError` ("Cannot project geometries without CRS") whenever
the old-style `align` handling got through. -/
theorem from_geopolygon_args_no_crs (c : κ) (p : Rat × Rat) (ps : List (Rat × Rat)) (res : ResArg)
    (align : Option (Rat × Rat)) (shape : ShapeArg) (tight : Bool) (anchor : AnchorArg) (tol : Rat)
    {ra : ResArg × AnchorArg} (hal : alignToAnchor align res anchor = .ok ra) :
    fromGeopolygonArgs lonlat proj none p ps res (.given c) align shape tight anchor tol = .error .valueError := by
  unfold fromGeopolygonArgs
  rw [hal]; rfl

/-! ## end to end: the public call forms -/

/-- **`GeoBox.from_bbox((l, b, r, t), crs, resolution=…, anchor=…, tol=…)` from its arguments to its result.**
Region a tuple with `l ≤ r`, `b ≤ t`; `crs` anything but `"utm…"`; `resolution` a non-zero number `q` (pixel
`(q, -q)`) or a `Resolution(rx, ry)` with non-zero components; any `shape` that is not a number (ignored); any anchor
`_norm_anchor` understands with fractions in `[0, 1)`; `0 ≤ tol < 1/2`.  Then the call succeeds, reports the CRS
argument (`"epsg:4326"` for `None`), has at least one pixel per axis, exactly the requested pixel size and
orientation, covers the region up to `tol` of a pixel per side and exceeds it by at most one pixel (+`tol`) per side. -/
theorem from_bbox_public_res (l b r t : Rat) (crs : CrsForm κ)
    (hnu : crs ≠ .utm) (tight : Bool) (shape : ShapeForm) (hshape : ∀ q, shape ≠ .num q) (res : ResForm)
    (rx ry : Rat) (hres : (res = .num rx ∧ ry = -rx) ∨ res = .res rx ry) (a : AnchorArg) (tol : Rat)
    (v : ValidRes ⟨l, b, r, t⟩ rx ry tol (snapOf tight (normAnchor a))) :
    ∃ g : GeoBox, fromBboxCrs lonlat proj utmCrs (.tuple [l, b, r, t]) crs tight shape res (.arg a) tol =
        .ok ⟨g, match crs with | .given c => c | _ => lonlat⟩ ∧
      1 ≤ g.nx ∧ 1 ≤ g.ny ∧ g.affine.a = rx ∧ g.affine.e = ry ∧ g.affine.b = 0 ∧ g.affine.d = 0 ∧
      g.xmin ≤ l + tol * |rx| ∧ r - tol * |rx| ≤ g.xmax ∧ g.ymin ≤ b + tol * |ry| ∧ t - tol * |ry| ≤ g.ymax ∧
      l - g.xmin ≤ |rx| * (1 + tol) ∧ g.xmax - r ≤ |rx| * (1 + tol) ∧
      b - g.ymin ≤ |ry| * (1 + tol) ∧ g.ymax - t ≤ |ry| * (1 + tol) := by
  -- the ResArg the form normalises to
  obtain ⟨ra, hra, hxy, hne⟩ : ∃ ra, resOfForm res = .ok ra ∧ ra.xy? = some (rx, ry) ∧ res ≠ .none := by
    rcases hres with ⟨rfl, rfl⟩ | rfl
    · exact ⟨.scalar rx, rfl, rfl, by intro h; cases h⟩
    · exact ⟨.xy rx ry, rfl, rfl, by intro h; cases h⟩
  have hsn : ∀ n, ShapeArg.none ≠ .int n := by intro n h; cases h
  obtain ⟨g, hg, hn1, hn2⟩ := from_bbox_res_total (shape := .none) (res := ra) (anchor := a) (tight := tight) hsn hxy v
  obtain ⟨_, ha, he, hb, hd⟩ := from_bbox_res_pixel_size hsn hxy hg
  have hc := from_bbox_res_covers hsn hxy v hg
  have hm := from_bbox_res_minimal_le hsn hxy v hg
  refine ⟨g, ?_, hn1, hn2, ha, he, hb, hd, hc.1, hc.2.1, hc.2.2.1, hc.2.2.2, hm.1, hm.2.1, hm.2.2.1, hm.2.2.2⟩
  rw [fromBboxCrs_eq]
  have hforms : fromBboxForms ⟨l, b, r, t⟩ tight shape res (.arg a) tol = .ok g := by
    rw [from_bbox_forms_res _ _ _ _ ra _ _ hshape hra hne, hg]; rfl
  cases crs with
  | utm => exact absurd rfl hnu
  | none => simp only [normRegion, normBboxVals, bind, Except.bind, hforms]; rfl
  | falsy => simp only [normRegion, normBboxVals, bind, Except.bind, hforms]; rfl
  | given c => simp only [normRegion, normBboxVals, bind, Except.bind, hforms]; rfl

end crs

/-! ## non-vacuity -/

example : fromBboxCrs (κ := Nat) 0 id 7 (.tuple [0, 0, 10, 7]) .none false .none (.num 3)
    (.arg (.name .default)) (1 / 100) = .ok ⟨⟨3, 4, ⟨3, 0, 0, 0, -3, 9⟩⟩, 0⟩ := by decide +kernel
example : fromBboxCrs (κ := Nat) 0 id 7 (.bbox ⟨0, 0, 10, 7⟩ (some 5)) .utm false (.seq [27 / 10, 21 / 5]) .none
    (.arg (.val .floating)) (1 / 100) = .ok ⟨⟨2, 4, ⟨5 / 2, 0, 0, 0, -7 / 2, 7⟩⟩, 5⟩ := by decide +kernel
example : fromBboxForms ⟨0, 0, 4, 2⟩ false (.num (5 / 2)) .other (.arg (.name .default)) (1 / 100) =
    .ok ⟨2, 3, ⟨8 / 5, 0, 0, 0, -8 / 5, 16 / 5⟩⟩ := by decide +kernel
example : fromGeopolygonArgs (κ := Nat) 0 id none (0, 0) [(4, 0), (4, 2)] (.scalar 1) .unset none .none false
    (.name .default) (1 / 100) = .ok ⟨⟨2, 4, ⟨1, 0, 0, 0, -1, 2⟩⟩, 0⟩ := by decide +kernel

end OdcGeo.C08
