/-
C17 — bounds that are not Python ints (`Model/C17Np.lean`): floats / strings, and numpy integer scalars of a fixed width.
"Inside the no-overflow domain the helpers equal the Python-int answer" as theorems over the bounded-width carrier.
-/
import OdcGeo.Model.C17Np
import OdcGeo.Props.C17
import Mathlib.Tactic.Linarith

set_option linter.unusedVariables false
set_option linter.unusedSimpArgs false

namespace OdcGeo.C17
open OdcGeo.C04 (NpT)

/-! ### fixed-width numpy scalars -/

theorem npt_span (t : NpT) (hb : 1 ≤ t.bits) : t.hi - t.lo = 2 ^ t.bits := by
  unfold NpT.hi NpT.lo
  cases t.signed
  · simp
  · simp only [if_true]
    have : (2 : Int) ^ t.bits = 2 * 2 ^ (t.bits - 1) := by
      have h : t.bits = (t.bits - 1) + 1 := by omega
      conv_lhs => rw [h]
      rw [pow_succ]; ring
    omega

/-- a value the type can hold is not changed by the wrap-around -/
theorem wrap_of_fits (t : NpT) (hb : 1 ≤ t.bits) (v : Int) (h : t.fits v = true) : t.wrap v = v := by
  simp only [NpT.fits, decide_eq_true_eq] at h
  have hs := npt_span t hb
  unfold NpT.wrap
  have h0 : 0 ≤ v - t.lo := by omega
  have h1 : v - t.lo < 2 ^ t.bits := by omega
  rw [Int.emod_eq_of_lt h0 h1]; omega

/-- … and a value it cannot hold IS changed (the result always fits) -/
theorem wrap_fits (t : NpT) (hb : 1 ≤ t.bits) (v : Int) : t.fits (t.wrap v) = true := by
  have hs := npt_span t hb
  have hp : (0 : Int) < 2 ^ t.bits := by positivity
  have h1 := Int.emod_nonneg (v - t.lo) (ne_of_gt hp)
  have h2 := Int.emod_lt_of_pos (v - t.lo) hp
  have hw : t.wrap v = (v - t.lo) % 2 ^ t.bits + t.lo := rfl
  unfold NpT.fits
  rw [decide_eq_true_eq, hw]
  constructor <;> linarith

/-- **`roi_normalise` with numpy scalars of one type: inside the no-overflow domain (the sums `n + a`, `n + b` the helper
forms for negative bounds fit the type) the answer is the Python-int answer** -/
theorem normSliceW_eq (t : NpT) (hb : 1 ≤ t.bits) (a b n : Int)
    (ha : a < 0 → t.fits (n + a) = true) (hbb : b < 0 → t.fits (n + b) = true) :
    normSliceW t a b n = normSlice (.slc (some a) (some b)) n := by
  have key : ∀ x, (x < 0 → t.fits (n + x) = true) → wrapNegW t n x = wrapNeg n x := by
    intro x hx
    unfold wrapNegW wrapNeg wadd
    by_cases h : x ≥ 0
    · simp [h]
    · simp only [h, if_false]
      rw [wrap_of_fits t hb _ (hx (by omega))]
  simp only [normSliceW, normSlice, key a ha, key b hbb]

/-- **`roi_pad`**: with `n + a`, `n + b` (negative bounds), `start - pad` and `stop + pad` inside the type -/
theorem padSliceW_eq (t : NpT) (hb : 1 ≤ t.bits) (a b pad n : Int)
    (ha : a < 0 → t.fits (n + a) = true) (hbb : b < 0 → t.fits (n + b) = true)
    (h1 : t.fits ((normSlice (.slc (some a) (some b)) n).start - pad) = true)
    (h2 : t.fits ((normSlice (.slc (some a) (some b)) n).stop + pad) = true) :
    padSliceW t a b pad n = padSlice (.slc (some a) (some b)) pad n := by
  simp only [padSliceW, padSlice, normSliceW_eq t hb a b n ha hbb, wsub, wadd, wrap_of_fits t hb _ h1,
    wrap_of_fits t hb _ h2]

/-- **`roi_shape`**: with `stop - start` inside the type -/
theorem sliceDimW_eq (t : NpT) (hb : 1 ≤ t.bits) (a b : Int) (h : t.fits (b - a) = true) :
    sliceDim (.slc (some a) (some b)) = .ok (sliceDimW t a b) := by
  simp only [sliceDim, sliceDimW, wsub, wrap_of_fits t hb _ h]

/-- **`align_down` / `align_up`** (`align > 0`): with `x - x % align`, `align - 1`, `x + (align - 1)` and the final difference
inside the type -/
theorem alignDownW_eq (t : NpT) (hb : 1 ≤ t.bits) (x a : Int) (h : t.fits (x - x % a) = true) :
    alignDownW t x a = alignDown x a := by
  simp only [alignDownW, alignDown, wsub, wrap_of_fits t hb _ h]

theorem alignUpW_eq (t : NpT) (hb : 1 ≤ t.bits) (x a : Int) (h1 : t.fits (a - 1) = true)
    (h2 : t.fits (x + (a - 1)) = true) (h3 : t.fits (alignUp x a) = true) :
    alignUpW t x a = alignUp x a := by
  unfold alignUpW alignUp
  simp only [wsub, wadd, wrap_of_fits t hb _ h1, wrap_of_fits t hb _ h2]
  exact alignDownW_eq t hb _ a (by simpa [alignUp, alignDown] using h3)

/-- **`scaled_down_roi` / `scaled_up_roi`** per axis -/
theorem scaledDownSliceW_eq (t : NpT) (hb : 1 ≤ t.bits) (s : NSlice) (k : Int) (h1 : t.fits (k - 1) = true)
    (h2 : t.fits (s.stop + (k - 1)) = true) (h3 : t.fits (alignUp s.stop k) = true) :
    scaledDownSliceW t s k = scaledDownSlice s k := by
  simp only [scaledDownSliceW, scaledDownSlice, fdiv, alignUpW_eq t hb s.stop k h1 h2 h3]

theorem scaledUpSliceW_eq (t : NpT) (hb : 1 ≤ t.bits) (s : NSlice) (k : Int)
    (h1 : t.fits (s.start * k) = true) (h2 : t.fits (s.stop * k) = true) :
    scaledUpSliceW t s k = scaledUpSlice s k none := by
  simp only [scaledUpSliceW, scaledUpSlice, wmul, wrap_of_fits t hb _ h1, wrap_of_fits t hb _ h2]

/-- **outside the domain the answer wraps** (plain numpy arithmetic): `roi_pad(slice(uint8 2, uint8 5), uint8 3, uint8 9)`
starts at `max(0, 2 - 3) = 255`; `scaled_up_roi` of `0:100` by 3 in `int8` ends at `300 - 256 = 44`.  Replayed on the real
code by the correspondence. -/
theorem numpy_scalars_wrap_cex :
    padSliceW ⟨false, 8⟩ 2 5 3 9 = ⟨255, 8⟩ ∧ padSlice (.slc (some 2) (some 5)) 3 9 = ⟨0, 8⟩ ∧
    scaledUpSliceW ⟨true, 8⟩ ⟨0, 100⟩ 3 = ⟨0, 44⟩ := by decide

/-! ### floats and strings as bounds -/

/-- on Python ints the any-type normalisation is `_norm_slice` -/
theorem normSliceB_int (a b n : Int) :
    normSliceB (some (.int a)) (some (.int b)) n
      = .ok (.int (normSlice (.slc (some a) (some b)) n).start, .int (normSlice (.slc (some a) (some b)) n).stop) := by
  have key : ∀ x : Int, wrapNegB n (.int x) = .ok (.int (wrapNeg n x)) := by
    intro x
    unfold wrapNegB wrapNeg
    simp only [Bnd.num, Bnd.addInt]
    by_cases h : x ≥ 0
    · have : ((x : Int) : Rat) ≥ 0 := by exact_mod_cast h
      simp [h, this]
    · have h' : ¬ (((x : Int) : Rat) ≥ 0) := by intro hh; exact h (by exact_mod_cast hh)
      simp only [h, h', if_false]
      by_cases hi : n + x > 0
      · have hq : ((n + x : Int) : Rat) > 0 := by exact_mod_cast hi
        have hm : max 0 (n + x) = n + x := by omega
        simp only [hq, if_true, hm]
      · have hq : ¬ (((n + x : Int) : Rat) > 0) := by intro hh; exact hi (by exact_mod_cast hh)
        have hm : max 0 (n + x) = 0 := by omega
        simp only [hq, if_false, hm]
  simp only [normSliceB, Option.getD_some, key, normSlice]

/-- **a string bound is a `TypeError`**, wherever it stands (nothing is validated: it is the first comparison that fails) -/
theorem normSliceB_str (o : Option Bnd) (n : Int) :
    normSliceB (some .str) o n = .error .typeError ∧
    (∀ x e, wrapNegB n x = .error e → e = .typeError) ∧
    normSliceB o (some .str) n = .error .typeError := by
  have herr : ∀ x e, wrapNegB n x = .error e → e = .typeError := by
    intro x e h
    unfold wrapNegB at h
    cases x with
    | str => simp only [Bnd.num, Except.error.injEq] at h; exact h.symm
    | int v =>
      simp only [Bnd.num, Bnd.addInt] at h
      split at h
      · simp at h
      · split at h <;> simp at h
    | flt v =>
      simp only [Bnd.num, Bnd.addInt] at h
      split at h
      · simp at h
      · split at h <;> simp at h
  have hstr : wrapNegB n Bnd.str = .error .typeError := by simp [wrapNegB, Bnd.num]
  refine ⟨?_, herr, ?_⟩
  · unfold normSliceB
    simp only [Option.getD_some, hstr]
  · unfold normSliceB
    simp only [Option.getD_some, hstr]
    cases hw : wrapNegB n (o.getD (Bnd.int 0)) with
    | ok v => rfl
    | error e => rw [herr _ e hw]

/-- **a float bound is answered with a float of the same value the integer formula gives** (no rounding on dyadic inputs;
the result is a float exactly when the bound it comes from is one) -/
theorem wrapNegB_float (n : Int) (q : Rat) :
    wrapNegB n (.flt q) = .ok (if q ≥ 0 then .flt q else if (n : Rat) + q > 0 then .flt ((n : Rat) + q) else .int 0) := by
  unfold wrapNegB
  simp only [Bnd.num, Bnd.addInt]
  by_cases h : q ≥ 0
  · simp [h]
  · simp only [h, if_false]
    by_cases hp : (n : Rat) + q > 0 <;> simp [hp]

/-- `roi_shape` with such bounds: float in, float out; a string anywhere is a `TypeError`; an open stop the `ValueError` -/
theorem sliceDimB_cases (a : Option Bnd) (x y : Int) (q : Rat) :
    sliceDimB (some (.int x)) (some (.int y)) = .ok (.int (y - x)) ∧
    sliceDimB (some (.flt q)) (some (.int y)) = .ok (.flt ((y : Rat) - q)) ∧
    sliceDimB (some .str) (some (.int y)) = .error .typeError ∧
    sliceDimB (some (.int x)) (some .str) = .error .typeError ∧
    sliceDimB a none = .error (.std .valueError) := ⟨rfl, rfl, rfl, rfl, rfl⟩

example : normSliceB (some (.int (-7))) (some (.int 9)) 5 = .ok (.int 0, .int 9) := by
  rw [normSliceB_int]; decide
example : (⟨false, 8⟩ : NpT).fits (9 + (-3)) = true ∧ (1 ≤ (⟨false, 8⟩ : NpT).bits) := by decide

end OdcGeo.C17
