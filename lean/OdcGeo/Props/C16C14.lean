/-
C16 ∘ C14 — the tile GeoBoxes of one GridSpec are pairwise on a common pixel grid.

`Model/C14.lean` (GridSpec, Bin1D, `tile_geobox`) is imported read-only; exact arithmetic (`fl = id`).
Every tile is the tile `(0, 0)` shifted by whole pixels (`± ix·nx`, `± iy·ny`, the signs given by the
flip flags and the signs of the resolution), so the set operations of C16 between tiles of one grid
never refuse: `|` of two tiles is the smallest GeoBox on the grid holding both, `&` of two different
tiles is an empty GeoBox, and the union of a row of `m` consecutive tiles is the GeoBox of the row.
-/
import OdcGeo.Props.C16World
import OdcGeo.Lemmas.C14
import OdcGeo.Model.C16C14

namespace OdcGeo.C16
open OdcGeo

/-- pixel rectangle of tile `k` in the pixel frame of tile `(0, 0)` -/
def tileRect (g : C14.GridSpec) (k : Int × Int) : Rect :=
  ⟨tileStep g.xbin.dir g.rx * k.1 * g.nx, tileStep g.ybin.dir g.ry * k.2 * g.ny,
   tileStep g.xbin.dir g.rx * k.1 * g.nx + g.nx, tileStep g.ybin.dir g.ry * k.2 * g.ny + g.ny⟩

/-- the same rectangle as the driver prints it (`Model/C16C14.tileRectT`) -/
theorem tileRect_eq (g : C14.GridSpec) (k : Int × Int) :
    tileRect g k = ⟨(tileRectT g k).1, (tileRectT g k).2.1, (tileRectT g k).2.2.1, (tileRectT g k).2.2.2⟩ := rfl

section
variable {ny nx : Int} {rx ry ox oy : Rat} {fx fy : Bool} {g : C14.GridSpec}

theorem rabs_mul_sign (r : Rat) (d : Int) : (if 0 < r then (d : Rat) else -(d : Rat)) * r = (d : Rat) * C14.rabs r
    ∨ r = 0 := by
  rcases lt_trichotomy r 0 with h | h | h
  · left
    have : ¬ 0 < r := not_lt.mpr h.le
    simp only [C14.rabs, if_pos h, if_neg this]; ring
  · right; exact h
  · left
    have : ¬ r < 0 := not_lt.mpr h.le
    simp only [C14.rabs, if_pos h, if_neg this]

/-- one axis: the world position of pixel 0 of tile `k` is that of tile 0 plus `step·k·n` pixels -/
theorem tile_origin_axis (b : C14.Bin1D) (n : Int) (r : Rat) (hsz : b.sz = (n : Rat) * C14.rabs r) (hr : r ≠ 0) (k : Int) :
    (if 0 < r then b.lo id k else b.hi id k) =
      r * ((tileStep b.dir r * k * n : Int) : Rat) + (if 0 < r then b.lo id 0 else b.hi id 0) := by
  rcases lt_or_gt_of_ne hr with h | h
  · have h' : ¬ 0 < r := not_lt.mpr h.le
    simp only [if_neg h', C14.Bin1D.hi_eq_lo_add, C14.Bin1D.lo_id, tileStep, hsz, C14.rabs, if_pos h]
    push_cast; ring
  · have h' : ¬ r < 0 := not_lt.mpr h.le
    simp only [if_pos h, C14.Bin1D.lo_id, tileStep, hsz, C14.rabs, if_neg h']
    push_cast; ring

/-- **Every tile of a GridSpec is the tile `(0, 0)` shifted by whole pixels**: all tiles of one grid
lie on one pixel grid (all four flip / sign combinations, any origin, any tile index). -/
theorem tile_onGrid (hg : C14.GridSpec.new id ny nx rx ry ox oy fx fy = .ok g) (crs : Option Nat) (k : Int × Int) :
    ofC14 (g.tileGeobox id k) crs = onGrid (ofC14 (g.tileGeobox id (0, 0)) crs) (tileRect g k) := by
  obtain ⟨e, w⟩ := C14.GridSpec.new_ok hg
  have hx0 : g.rx ≠ 0 := by
    intro h0
    have := w.x.sz_pos
    rw [w.szx, h0] at this
    simp [C14.rabs] at this
  have hy0 : g.ry ≠ 0 := by
    intro h0
    have := w.y.sz_pos
    rw [w.szy, h0] at this
    simp [C14.rabs] at this
  have ax := tile_origin_axis g.xbin g.nx g.rx w.szx hx0 k.1
  have ay := tile_origin_axis g.ybin g.ny g.ry w.szy hy0 k.2
  simp only [ofC14, onGrid, C14.GridSpec.tileGeobox, C14.GridSpec.tileTxy, tileRect, GeoBox.mk.injEq,
    Aff.mul_def, Aff.mul, Aff.translation, Aff.mk.injEq]
  refine ⟨by ring, by ring, ?_, trivial⟩
  refine ⟨by ring, by ring, ?_, by ring, by ring, ?_⟩
  · rw [ax]; ring
  · rw [ay]; ring

/-- the tile grid is invertible -/
theorem tile_det (hg : C14.GridSpec.new id ny nx rx ry ox oy fx fy = .ok g) (crs : Option Nat) :
    (ofC14 (g.tileGeobox id (0, 0)) crs).aff.det ≠ 0 := by
  obtain ⟨e, w⟩ := C14.GridSpec.new_ok hg
  have hx0 : g.rx ≠ 0 := by
    intro h0
    have := w.x.sz_pos
    rw [w.szx, h0] at this
    simp [C14.rabs] at this
  have hy0 : g.ry ≠ 0 := by
    intro h0
    have := w.y.sz_pos
    rw [w.szy, h0] at this
    simp [C14.rabs] at this
  simp only [ofC14, C14.GridSpec.tileGeobox, Aff.det, mul_zero, sub_zero]
  exact mul_ne_zero hx0 hy0

/-- **`|` and `&` of any two tiles of one GridSpec succeed** and are the members of the tile grid
covering the smallest rectangle holding both / exactly the shared pixels; `overlap_roi` works too. -/
theorem tiles_ops_succeed (hg : C14.GridSpec.new id ny nx rx ry ox oy fx fy = .ok g) (crs : Option Nat)
    (k k' : Int × Int) :
    (ofC14 (g.tileGeobox id k) crs).or (ofC14 (g.tileGeobox id k') crs) =
      .ok (onGrid (ofC14 (g.tileGeobox id (0, 0)) crs) ((tileRect g k).union (tileRect g k'))) ∧
    (ofC14 (g.tileGeobox id k) crs).and (ofC14 (g.tileGeobox id k') crs) =
      .ok (onGrid (ofC14 (g.tileGeobox id (0, 0)) crs) ((tileRect g k).inter (tileRect g k'))) := by
  rw [tile_onGrid hg crs k, tile_onGrid hg crs k']
  exact ⟨or_onGrid _ (tile_det hg crs) _ _, and_onGrid _ (tile_det hg crs) _ _⟩

theorem tileStep_cases (hg : C14.GridSpec.new id ny nx rx ry ox oy fx fy = .ok g) :
    (tileStep g.xbin.dir g.rx = 1 ∨ tileStep g.xbin.dir g.rx = -1) ∧
    (tileStep g.ybin.dir g.ry = 1 ∨ tileStep g.ybin.dir g.ry = -1) ∧ 0 < g.nx ∧ 0 < g.ny := by
  obtain ⟨e, w⟩ := C14.GridSpec.new_ok hg
  have px : 0 < g.nx := by
    have h := w.x.sz_pos
    rw [w.szx] at h
    have hr : 0 ≤ C14.rabs g.rx := by unfold C14.rabs; split_ifs <;> linarith
    by_contra hn
    have : (g.nx : Rat) ≤ 0 := by exact_mod_cast not_lt.mp hn
    nlinarith
  have py : 0 < g.ny := by
    have h := w.y.sz_pos
    rw [w.szy] at h
    have hr : 0 ≤ C14.rabs g.ry := by unfold C14.rabs; split_ifs <;> linarith
    by_contra hn
    have : (g.ny : Rat) ≤ 0 := by exact_mod_cast not_lt.mp hn
    nlinarith
  refine ⟨?_, ?_, px, py⟩
  · rcases w.x.dir with h | h <;> unfold tileStep <;> split_ifs <;> simp [h]
  · rcases w.y.dir with h | h <;> unfold tileStep <;> split_ifs <;> simp [h]

theorem step_apart (s a b n : Int) (hs : s = 1 ∨ s = -1) (hn : 0 < n) (hab : a ≠ b) :
    s * a * n + n ≤ s * b * n ∨ s * b * n + n ≤ s * a * n := by
  have key : ∀ p q : Int, p < q → p * n + n ≤ q * n := by
    intro p q h
    have : (p + 1) * n ≤ q * n := Int.mul_le_mul_of_nonneg_right (by omega) hn.le
    linarith [this, add_mul p 1 n]
  rcases hs with rfl | rfl
  · rcases lt_or_gt_of_ne hab with h | h
    · left; simpa using key a b h
    · right; simpa using key b a h
  · rcases lt_or_gt_of_ne hab with h | h
    · right; have := key (-b) (-a) (by omega); simpa using this
    · left; have := key (-a) (-b) (by omega); simpa using this

/-- **Two different tiles of a GridSpec share no pixel**: `tile(k) & tile(k')` is an empty GeoBox
(never an error, never a negative shape). -/
theorem tiles_disjoint (hg : C14.GridSpec.new id ny nx rx ry ox oy fx fy = .ok g) (crs : Option Nat)
    (k k' : Int × Int) (hk : k ≠ k') :
    ∃ i, (ofC14 (g.tileGeobox id k) crs).and (ofC14 (g.tileGeobox id k') crs) = .ok i ∧ i.isEmpty = true ∧
      0 ≤ i.nx ∧ 0 ≤ i.ny := by
  obtain ⟨sx, sy, px, py⟩ := tileStep_cases hg
  refine ⟨_, (tiles_ops_succeed hg crs k k').2, ?_, ?_, ?_⟩
  · have hne : k.1 ≠ k'.1 ∨ k.2 ≠ k'.2 := by
      by_contra h
      have h' := not_or.mp h
      exact hk (Prod.ext (not_not.mp h'.1) (not_not.mp h'.2))
    simp only [GeoBox.isEmpty, onGrid, tileRect, Rect.inter, Bool.or_eq_true, beq_iff_eq]
    rcases hne with h | h
    · right
      rcases step_apart _ k.1 k'.1 g.nx sx px h with h1 | h1 <;> omega
    · left
      rcases step_apart _ k.2 k'.2 g.ny sy py h with h1 | h1 <;> omega
  · simp only [onGrid, tileRect, Rect.inter]; omega
  · simp only [onGrid, tileRect, Rect.inter]; omega

/-- **The union of a row of consecutive tiles is the GeoBox of the row**:
`geobox_union_conservative([tile(i0, iy), …, tile(i0 + m, iy)])` succeeds and is the member of the tile
grid of shape `(ny, (m + 1)·nx)` spanning from the first to the last tile (whichever way the row runs
in pixel space). -/
theorem row_union (hg : C14.GridSpec.new id ny nx rx ry ox oy fx fy = .ok g) (crs : Option Nat)
    (i0 iy : Int) (m : Nat) :
    ∃ u, rowUnion g crs i0 iy m = .ok u ∧
      u.ny = g.ny ∧ u.nx = ((m : Int) + 1) * g.nx ∧
      u = onGrid (ofC14 (g.tileGeobox id (0, 0)) crs)
        ⟨min (tileRect g (i0, iy)).x0 (tileRect g (i0 + (m : Int), iy)).x0, (tileRect g (i0, iy)).y0,
         max (tileRect g (i0, iy)).x1 (tileRect g (i0 + (m : Int), iy)).x1, (tileRect g (i0, iy)).y1⟩ := by
  obtain ⟨sx, sy, px, py⟩ := tileStep_cases hg
  unfold rowUnion
  have hmap : ((i0, iy) :: rowRest i0 iy m).map (fun k => ofC14 (g.tileGeobox id k) crs) =
      (((i0, iy) :: rowRest i0 iy m).map (tileRect g)).map (onGrid (ofC14 (g.tileGeobox id (0, 0)) crs)) := by
    rw [List.map_map]
    exact List.map_congr_left (fun k _ => tile_onGrid hg crs k)
  rw [hmap, List.map_cons, union_list_onGrid _ (tile_det hg crs)]
  -- the running union
  have fold : ∀ m : Nat, List.foldl Rect.union (tileRect g (i0, iy)) ((rowRest i0 iy m).map (tileRect g)) =
      ⟨min (tileRect g (i0, iy)).x0 (tileRect g (i0 + (m : Int), iy)).x0, (tileRect g (i0, iy)).y0,
       max (tileRect g (i0, iy)).x1 (tileRect g (i0 + (m : Int), iy)).x1, (tileRect g (i0, iy)).y1⟩ ∧
      (tileRect g (i0 + (m : Int), iy)).x0 = (tileRect g (i0, iy)).x0 + tileStep g.xbin.dir g.rx * (m : Int) * g.nx := by
    intro m
    induction m with
    | zero => simp [rowRest, tileRect]
    | succ m ih =>
      obtain ⟨ih1, ih2⟩ := ih
      have step : (tileRect g (i0 + ((m + 1 : Nat) : Int), iy)).x0 =
          (tileRect g (i0 + (m : Int), iy)).x0 + tileStep g.xbin.dir g.rx * g.nx := by
        simp only [tileRect]; push_cast; ring
      have e2 : (tileRect g (i0 + ((m + 1 : Nat) : Int), iy)).x0 =
          (tileRect g (i0, iy)).x0 + tileStep g.xbin.dir g.rx * ((m + 1 : Nat) : Int) * g.nx := by
        rw [step, ih2]; push_cast; ring
      refine ⟨?_, e2⟩
      simp only [rowRest, List.map_append, List.foldl_append, List.map_cons, List.map_nil, List.foldl_cons,
        List.foldl_nil, ih1, Rect.union, Rect.mk.injEq]
      have hx1 : ∀ k : Int × Int, (tileRect g k).x1 = (tileRect g k).x0 + g.nx := fun k => rfl
      have hy0 : ∀ i : Int, (tileRect g (i, iy)).y0 = (tileRect g (i0, iy)).y0 := fun i => rfl
      have hy1 : ∀ i : Int, (tileRect g (i, iy)).y1 = (tileRect g (i0, iy)).y1 := fun i => rfl
      rw [hx1, hx1, hx1, hy0 (i0 + ((m + 1 : Nat) : Int)), hy1 (i0 + ((m + 1 : Nat) : Int)), step, ih2]
      have hm : (0 : Int) ≤ (m : Int) := Int.natCast_nonneg m
      generalize (tileRect g (i0, iy)).x0 = a0
      generalize (tileRect g (i0, iy)).y0 = b0
      generalize (tileRect g (i0, iy)).y1 = b1
      have hmn : 0 ≤ (m : Int) * g.nx := Int.mul_nonneg hm px.le
      rcases sx with s | s <;> rw [s] <;> refine ⟨?_, ?_, ?_, ?_⟩ <;> first | omega | (simp only [one_mul, neg_mul]; omega)
  obtain ⟨f1, f2⟩ := fold m
  rw [f1]
  have hx1 : ∀ k : Int × Int, (tileRect g k).x1 = (tileRect g k).x0 + g.nx := fun k => rfl
  have hm : (0 : Int) ≤ (m : Int) := Int.natCast_nonneg m
  have hmn : 0 ≤ (m : Int) * g.nx := Int.mul_nonneg hm px.le
  refine ⟨_, rfl, ?_, ?_, rfl⟩
  · show (tileRect g (i0, iy)).y1 - (tileRect g (i0, iy)).y0 = g.ny
    simp only [tileRect]; ring
  · show max (tileRect g (i0, iy)).x1 (tileRect g (i0 + (m : Int), iy)).x1 -
        min (tileRect g (i0, iy)).x0 (tileRect g (i0 + (m : Int), iy)).x0 = ((m : Int) + 1) * g.nx
    rw [hx1, hx1, f2]
    generalize (tileRect g (i0, iy)).x0 = a0
    have e1 : ((m : Int) + 1) * g.nx = (m : Int) * g.nx + g.nx := by ring
    rw [e1]
    rcases sx with s | s <;> rw [s]
    · simp only [one_mul]
      generalize (m : Int) * g.nx = t at hmn ⊢
      omega
    · simp only [neg_mul, one_mul]
      generalize (m : Int) * g.nx = t at hmn ⊢
      omega

/-- non-vacuity: a GridSpec exists (north-up, 4 × 5 pixel tiles of 10 m) -/
example : ∃ g : C14.GridSpec, C14.GridSpec.new id 4 5 10 (-10) 0 0 false false = .ok g :=
  ⟨_, C14.GridSpec.new_eq_ok 0 0 false false (by norm_num [C14.rabs]) (by norm_num [C14.rabs])⟩

end
end OdcGeo.C16
