/-
C03 × C02 — the overview path of `compute_reproject_roi` against C02's model of `GeoBox.zoom_out`.

On the paste path with read-shrink `k > 1` the code computes the overlap against `src.zoom_out(k)`, but it takes only
the SHAPE from that object; the transform into overview pixels is written down independently as
`Affine.scale(1 / k) * A`.  These theorems show that the two agree: the shape the planner uses is the shape of C02's
zoomed-out grid, and `scale(1/k) * A` is exactly the destination-pixel → overview-pixel transform of that grid.
-/
import OdcGeo.Props.C03Top
import OdcGeo.Model.C02
namespace OdcGeo.C03
open OdcGeo.C17

/-- `src.zoom_out(k)` succeeds for `k ≥ 1`, has the shape the planner's overview path uses, and the transform
`Affine.scale(1/k) * A` (with `A = (D⁻¹ S)⁻¹` the destination → source pixel transform) maps a destination pixel
location through the destination grid into the world and through the inverse of the ZOOMED-OUT grid into overview
pixels. -/
theorem overview_is_zoom_out (ny nx : Int) (S D : Aff) (crs : Nat) (k : Int) (hk : 1 ≤ k) (hS : S.det ≠ 0)
    (hD : D.det ≠ 0) :
    ∃ g' : C02.GeoBox, C02.zoomOut ⟨ny, nx, S, crs⟩ (k : Rat) = .ok g' ∧
      (g'.ny, g'.nx) = (zoomOutDim ny k, zoomOutDim nx k) ∧ g'.A.det ≠ 0 ∧
      ∀ q, (Aff.scale (1 / (k : Rat)) (1 / (k : Rat)) * (D.inv * S).inv).apply q = g'.A.inv.apply (D.apply q) := by
  have hkq : (k : Rat) ≠ 0 := by
    have : (0 : Rat) < k := by exact_mod_cast (by omega : (0 : Int) < k)
    exact ne_of_gt this
  refine ⟨⟨C02.ceil1 ((ny : Rat) / k), C02.ceil1 ((nx : Rat) / k), S * Aff.scale k k, crs⟩, ?_, ?_, ?_, ?_⟩
  · simp only [C02.zoomOut, hkq, if_false]
  · simp only [C02.ceil1, zoomOutDim]
  · show (S * Aff.scale k k).det ≠ 0
    rw [Aff.det_mul]
    apply mul_ne_zero hS
    simp only [Aff.det, Aff.scale]
    simp [hkq]
  · intro q
    show _ = (S * Aff.scale k k).inv.apply (D.apply q)
    have hF : (D.inv * S).det ≠ 0 := by
      rw [Aff.det_mul]
      apply mul_ne_zero _ hS
      intro hz
      have := Aff.inv_mul_self D hD
      have hd := congrArg Aff.det this
      rw [Aff.det_mul, hz, zero_mul] at hd
      simp [Aff.det, Aff.id] at hd
    have hA : (D.inv * S).inv.apply q = S.inv.apply (D.apply q) := by
      have e : (D.inv * S).apply (S.inv.apply (D.apply q)) = q := by
        rw [Aff.apply_mul, Aff.apply_inv_apply S hS, Aff.inv_apply_apply D hD]
      rw [← e, Aff.inv_apply_apply _ hF, e]
    have hG : (S * Aff.scale k k).det ≠ 0 := by
      rw [Aff.det_mul]
      apply mul_ne_zero hS
      simp only [Aff.det, Aff.scale]
      simp [hkq]
    rw [Aff.apply_mul, hA]
    have hw : S.apply (S.inv.apply (D.apply q)) = D.apply q := Aff.apply_inv_apply S hS _
    generalize S.inv.apply (D.apply q) = y at hw ⊢
    have e : (S * Aff.scale k k).apply ((Aff.scale (1 / (k : Rat)) (1 / (k : Rat))).apply y) = D.apply q := by
      rw [Aff.apply_mul, ← hw]
      congr 1
      simp only [Aff.apply, Aff.scale]
      ext <;> simp <;> field_simp
    rw [← e, Aff.inv_apply_apply _ hG]

example : C02.zoomOut ⟨10, 7, ⟨2, 0, 5, 0, -2, 9⟩, 0⟩ ((3 : Int) : Rat) = .ok ⟨4, 3, ⟨6, 0, 5, 0, -6, 9⟩, 0⟩ := by
  decide +kernel

end OdcGeo.C03
