/-
C04 — the VALUES of `extract(…, dtype=narrower)`: pasting commutes with any cell-wise conversion, so
the window extracted with a conversion applied block by block (`np.copyto(…, casting=…)` casts each
block slice) is the conversion of the window of the unconverted mosaic – with `castInt` (wrap-around
of integers, validated against numpy) as the conversion: every cell is the wrapped mosaic cell, the
absent tiles hold the converted fill.
-/
import OdcGeo.Model.C04Dtype
import OdcGeo.Props.C04
import Mathlib.Tactic.SplitIfs
import Mathlib.Tactic.Positivity
import Mathlib.Tactic.Ring
namespace OdcGeo.C04
open OdcGeo OdcGeo.C17 OdcGeo.NpArray

variable {V W : Type}

/-- the assembler whose blocks are converted cell by cell -/
def Assembler.mapVal (f : V → W) (a : Assembler V) : Assembler W :=
  { chy := a.chy, chx := a.chx, present := a.present, lead := a.lead, trail := a.trail,
    blk := fun k l y x t => f (a.blk k l y x t) }

theorem pasteBlock_mapVal (f : V → W) (a : Assembler V) (wl : List NSlice) (wy wx : NSlice) (wt : List NSlice)
    (xx : Arr V) (k : Int × Int) :
    pasteBlock (a.mapVal f) wl wy wx wt (fun l y x t => f (xx l y x t)) k =
      (pasteBlock a wl wy wx wt xx k).map fun out => fun l y x t => f (out l y x t) := by
  simp only [pasteBlock, Assembler.mapVal, bind, Except.bind, pure, Except.pure]
  cases zip2 (vgetItem a.chy (.idx k.1)) (vgetItem a.chx (.idx k.2)) with
  | error e => rfl
  | ok b =>
    obtain ⟨by_, bx⟩ := b
    simp only []
    cases sliceIntersect3 by_.toPIdx wy.toPIdx with
    | error e => rfl
    | ok r1 =>
      obtain ⟨sy, dy, _⟩ := r1
      simp only []
      cases sliceIntersect3 bx.toPIdx wx.toPIdx with
      | error e => rfl
      | ok r2 =>
        obtain ⟨sx, dx, _⟩ := r2
        simp only []
        cases assignMap (wy.stop - wy.start) (by_.stop - by_.start) dy sy with
        | error e => rfl
        | ok my =>
          simp only []
          cases assignMap (wx.stop - wx.start) (bx.stop - bx.start) dx sx with
          | error e => rfl
          | ok mx =>
            simp only []
            cases extraMaps a.lead wl with
            | error e => rfl
            | ok ml =>
              simp only []
              cases extraMaps a.trail wt with
              | error e => rfl
              | ok mt =>
                simp only [Except.map]
                congr 1
                funext l y x t
                cases mapIdx ml l <;> cases my y <;> cases mx x <;> cases mapIdx mt t <;> rfl

theorem pasteAll_mapVal (f : V → W) (a : Assembler V) (wl : List NSlice) (wy wx : NSlice) (wt : List NSlice)
    (ks : List (Int × Int)) : ∀ (xx : Arr V),
    pasteAll (a.mapVal f) wl wy wx wt (fun l y x t => f (xx l y x t)) ks =
      (pasteAll a wl wy wx wt xx ks).map fun out => fun l y x t => f (out l y x t) := by
  induction ks with
  | nil => intro xx; rfl
  | cons k ks ih =>
    intro xx
    simp only [pasteAll, bind, Except.bind]
    rw [pasteBlock_mapVal]
    cases pasteBlock a wl wy wx wt xx k with
    | error e => rfl
    | ok xx' => simp only [Except.map]; exact ih xx'

/-- **pasting commutes with cell-wise conversion**: extracting from converted blocks with the converted
fill is converting the extracted window – any window, any subset of blocks, leading / trailing axes -/
theorem extract_mapVal (f : V → W) (a : Assembler V) (fill : V) (rl : List PIdx) (ry rx : PIdx) (rt : List PIdx) :
    extract (a.mapVal f) (f fill) rl ry rx rt =
      (extract a fill rl ry rx rt).map fun r => (r.1, fun l y x t => f (r.2 l y x t)) := by
  have h := pasteAll_mapVal f a
    ((rl.zip a.lead).map fun p => normSlice p.1 p.2) (normSlice ry (total a.chy)) (normSlice rx (total a.chx))
    ((rt.zip a.trail).map fun p => normSlice p.1 p.2) a.present (fun _ _ _ _ => fill)
  have e1 : (a.mapVal f).lead = a.lead := rfl
  have e2 : (a.mapVal f).trail = a.trail := rfl
  have e3 : (a.mapVal f).chy = a.chy := rfl
  have e4 : (a.mapVal f).chx = a.chx := rfl
  have e5 : (a.mapVal f).present = a.present := rfl
  unfold extract
  rw [e1, e2, e3, e4, e5]
  by_cases h1 : rl.length ≠ a.lead.length ∨ rt.length ≠ a.trail.length
  · rw [if_pos h1, if_pos h1]; rfl
  · rw [if_neg h1, if_neg h1]
    simp only []
    split_ifs
    · rfl
    · rw [h]
      cases pasteAll a ((rl.zip a.lead).map fun p => normSlice p.1 p.2) (normSlice ry (total a.chy))
          (normSlice rx (total a.chx)) ((rt.zip a.trail).map fun p => normSlice p.1 p.2) (fun _ _ _ _ => fill) a.present <;> rfl

/-- **`extract(…, dtype=d)` of integer tiles, cell values**: with `castInt d` as what numpy writes,
every cell of the narrowed window is the wrapped cell of the window of the unconverted mosaic, and
the absent tiles hold the wrapped fill -/
theorem extract_narrowed_cells (d : DT) (a : Assembler Int) (fill : Int) (rl : List PIdx) (ry rx : PIdx)
    (rt : List PIdx) (shp : List Int × Int × Int × List Int) (xx : Arr Int)
    (h : extract a fill rl ry rx rt = .ok (shp, xx)) :
    extract (a.mapVal (castInt d)) (castInt d fill) rl ry rx rt =
      .ok (shp, fun l y x t => castInt d (xx l y x t)) := by
  rw [extract_mapVal, h]; rfl

/-- wrap-around stays inside the target type, and leaves values that fit alone -/
theorem castInt_unsigned_range (bits : Nat) (v : Int) :
    ∃ w, castInt ⟨.u, bits⟩ v = some w ∧ 0 ≤ w ∧ w < 2 ^ bits ∧ (0 ≤ v ∧ v < 2 ^ bits → w = v) := by
  have hp : (0 : Int) < 2 ^ bits := by positivity
  refine ⟨v % 2 ^ bits, rfl, Int.emod_nonneg _ (ne_of_gt hp), Int.emod_lt_of_pos _ hp, ?_⟩
  intro hv
  exact Int.emod_eq_of_lt hv.1 hv.2

theorem castInt_signed_fits (bits : Nat) (hb : 0 < bits) (v : Int)
    (hv : -(2 ^ (bits - 1)) ≤ v ∧ v < 2 ^ (bits - 1)) : castInt ⟨.i, bits⟩ v = some v := by
  have e : (2 : Int) ^ bits = 2 * 2 ^ (bits - 1) := by
    obtain ⟨k, rfl⟩ : ∃ k, bits = k + 1 := ⟨bits - 1, by omega⟩
    simp [pow_succ]; ring
  simp only [castInt]
  rw [Int.emod_eq_of_lt (by omega) (by omega)]
  congr 1; omega

example : castInt ⟨.u, 8⟩ 300 = some 44 ∧ castInt ⟨.i, 8⟩ 200 = some (-56) ∧ castInt ⟨.b, 8⟩ (-3) = some 1 := by decide

end OdcGeo.C04
