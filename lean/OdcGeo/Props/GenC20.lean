/-
C20 — source tie.  `OdcGeo/Gen/C20.lean` is regenerated from `/repo/odc/geo/math.py` by `tools/py2lean.py` on every
run of `check.py C20`; the theorems `tie_*` prove each regenerated definition equal to the hand model of
`OdcGeo/Model/C20.lean` for ALL inputs, `gen_*` transfer headline theorems of `Props/C20.lean`.

Floats are exact rationals on both sides (DESIGN §3.1); `isfinite` is `true` on every modelled value, so the ties are
to the finite-input models (`splitFloat`, `maybeInt`, `isAlmostInt`); the non-finite wrappers (`…X`) stay hand-written.
Not translated: `snap_scale` (tests object identity, `s_inv_snapped is s_inv`).

The theorems live in OdcGeo/Props/GenC20/*.lean, one compilation unit per tied function or small group; this file only
imports them all (`lake build OdcGeo.Props.GenC20`).
-/
import OdcGeo.Props.GenC20.MaybeZero
import OdcGeo.Props.GenC20.SplitFloat
import OdcGeo.Props.GenC20.MaybeInt
import OdcGeo.Props.GenC20.IsAlmostInt
import OdcGeo.Props.GenC20.Clamp
import OdcGeo.Props.GenC20.AlignUpPow2
import OdcGeo.Props.GenC20.AlignDownPow2
import OdcGeo.Props.GenC20.SnapEdgePos
import OdcGeo.Props.GenC20.SnapEdge
import OdcGeo.Props.GenC20.SnapGrid
import OdcGeo.Props.GenC20.Bin1dInit
import OdcGeo.Props.GenC20.Bin1dGetitem
import OdcGeo.Props.GenC20.Bin1dBin
import OdcGeo.Props.GenC20.Bin1dFromSampleBin
