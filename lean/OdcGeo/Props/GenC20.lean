/-
C20 — source tie.  `OdcGeo/Gen/C20.lean` is regenerated from `/repo/odc/geo/math.py` by `tools/py2lean.py` on every
run of `check.py C20`; the theorems `tie_*` prove each regenerated definition equal to the hand model of
`OdcGeo/Model/C20.lean` for ALL inputs, `gen_*` transfer headline theorems of `Props/C20.lean`.

Floats are exact rationals on both sides (DESIGN §3.1); `isfinite` is `true` on every modelled value, so the ties are
to the finite-input models (`splitFloat`, `maybeInt`, `isAlmostInt`); the non-finite wrappers (`…X`) stay hand-written.
Not translated: `snap_scale` (tests object identity, `s_inv_snapped is s_inv`).
-/
import OdcGeo.Gen.C20
import OdcGeo.Gen.Tie
import OdcGeo.Lemmas.GenC20
import OdcGeo.Props.C20

namespace OdcGeo.C20
open OdcGeo.Gen

/-! ## ties: generated definition = hand model -/

theorem tie_maybe_zero (x tol : Rat) : Gen.C20.maybe_zero x tol = maybeZero x tol := by
  tie_auto [Gen.C20.maybe_zero, maybeZero, py_absR_eq]

theorem tie_split_float (x : Rat) : Gen.C20.split_float x = splitFloat x := by
  tie_auto [Gen.C20.split_float, splitFloat, py_fmod_one]

theorem tie_maybe_int (x tol : Rat) : Gen.C20.maybe_int x tol = maybeInt x tol := by
  tie_auto [Gen.C20.maybe_int, maybeInt_if, tie_split_float, py_absR_eq, py_trunc_eq]

theorem tie_is_almost_int (x tol : Rat) : Gen.C20.is_almost_int x tol = isAlmostInt x tol := by
  tie_auto [Gen.C20.is_almost_int, isAlmostInt, py_fmod_one, py_absR_eq]

theorem tie_clamp (x lo up : Rat) : Gen.C20.clamp x lo up = clamp x lo up := by
  tie_auto [Gen.C20.clamp, clamp]

theorem tie_align_up_pow2 (x : Int) : Gen.C20.align_up_pow2 x = .ok (alignUpPow2 x) := by
  by_cases h : x ≤ 0
  · simp [Gen.C20.align_up_pow2, alignUpPow2, h]
  · simp [Gen.C20.align_up_pow2, alignUpPow2, h, py_ceilLog2_eq x (by omega), py_ipow_two_nat]

theorem tie_align_down_pow2 (x : Int) : Gen.C20.align_down_pow2 x = .ok (alignDownPow2 x) := by
  tie_auto [Gen.C20.align_down_pow2, alignDownPow2, tie_align_up_pow2]

theorem tie_snap_edge_pos (x0 x1 res tol : Rat) :
    Gen.C20.snap_edge_pos x0 x1 res tol = snapEdgePos x0 x1 res tol := by
  tie_auto [Gen.C20.snap_edge_pos, snapEdgePos, tie_maybe_int]

theorem tie_snap_edge (x0 x1 res tol : Rat) :
    Gen.C20.snap_edge x0 x1 res tol = snapEdge x0 x1 res tol := by
  tie_auto [Gen.C20.snap_edge, snapEdge, tie_snap_edge_pos]

theorem tie_snap_grid (x0 x1 res : Rat) (off_pix : Option Rat) (tol : Rat) :
    Gen.C20.snap_grid x0 x1 res off_pix tol = snapGrid x0 x1 res off_pix tol := by
  cases off_pix <;> tie_auto [Gen.C20.snap_grid, snapGrid, tie_snap_edge, tie_maybe_int, py_absR_eq]

theorem tie_bin1d_init (sz origin : Rat) (direction : Int) :
    Gen.C20.bin1d_init sz origin direction = Bin1D.mk? sz origin direction := by
  tie_auto [Gen.C20.bin1d_init, Bin1D.mk?]

theorem tie_bin1d_getitem (b : Bin1D) (idx : Int) : Gen.C20.bin1d_getitem b idx = b.interval idx := by
  tie_auto [Gen.C20.bin1d_getitem, Bin1D.interval]

/-- `Bin1D.bin`; `sz > 0` is the class invariant established by `__init__` (`tie_bin1d_init`) -/
theorem tie_bin1d_bin (b : Bin1D) (x : Rat) (h : 0 < b.sz) : Gen.C20.bin1d_bin b x = .ok (b.bin x) := by
  have h0 : b.sz ≠ 0 := ne_of_gt h
  tie_auto [Gen.C20.bin1d_bin, Bin1D.bin]

theorem tie_bin1d_from_sample_bin (idx : Int) (bin : Rat × Rat) (direction : Int) :
    Gen.C20.bin1d_from_sample_bin idx bin direction = Bin1D.fromSampleBin idx bin.1 bin.2 direction := by
  tie_auto [Gen.C20.bin1d_from_sample_bin, Bin1D.fromSampleBin, tie_bin1d_init]

/-! ## headline theorems of `Props/C20.lean`, transferred to the regenerated definitions -/

/-- `split_float_sum_range_whole` for the source `split_float` -/
theorem gen_split_float_sum_range_whole (x : Rat) :
    (∃ k : Int, (Gen.C20.split_float x).1 = (k : Rat)) ∧
      (Gen.C20.split_float x).1 + (Gen.C20.split_float x).2 = x ∧
      -(1 / 2) ≤ (Gen.C20.split_float x).2 ∧ (Gen.C20.split_float x).2 ≤ 1 / 2 := by
  rw [tie_split_float]; exact split_float_sum_range_whole x

/-- `is_almost_int_iff` for the source `is_almost_int` -/
theorem gen_is_almost_int_iff (x tol : Rat) :
    Gen.C20.is_almost_int x tol = true ↔ ∃ n : Int, |x - n| < tol := by
  rw [tie_is_almost_int]; exact is_almost_int_iff x tol

/-- `align_up_pow2_least` for the source `align_up_pow2`: no exception, least power of two `≥ x` -/
theorem gen_align_up_pow2_least (x : Int) (hx : 1 ≤ x) :
    ∃ y, Gen.C20.align_up_pow2 x = .ok y ∧
      ∃ n : Nat, y = 2 ^ n ∧ x ≤ 2 ^ n ∧ ∀ m : Nat, x ≤ 2 ^ m → (2 : Int) ^ n ≤ 2 ^ m :=
  ⟨_, tie_align_up_pow2 x, align_up_pow2_least x hx⟩

/-- `align_down_pow2_greatest` for the source `align_down_pow2` -/
theorem gen_align_down_pow2_greatest (x : Int) (hx : 1 ≤ x) :
    ∃ y, Gen.C20.align_down_pow2 x = .ok y ∧
      ∃ n : Nat, y = 2 ^ n ∧ (2 : Int) ^ n ≤ x ∧ ∀ m : Nat, (2 : Int) ^ m ≤ x → (2 : Int) ^ m ≤ 2 ^ n :=
  ⟨_, tie_align_down_pow2 x, align_down_pow2_greatest x hx⟩

/-- `snap_grid_n_pos` for the source `snap_grid` -/
theorem gen_snap_grid_n_pos {x0 x1 res tol : Rat} (off : Option Rat) (hr : res ≠ 0) (hx : x0 ≤ x1)
    (hop : ∀ op, off = some op → 0 ≤ op ∧ op < 1) (ht : 0 ≤ tol) (ht2 : tol < 1 / 2) :
    ∃ tx nx, Gen.C20.snap_grid x0 x1 res off tol = .ok (tx, nx) ∧ 1 ≤ nx := by
  simp only [tie_snap_grid]; exact snap_grid_n_pos off hr hx hop ht ht2

/-- `snap_grid_cover` for the source `snap_grid` -/
theorem gen_snap_grid_cover {x0 x1 res tol tx : Rat} {nx : Int} (off : Option Rat) (hr : res ≠ 0)
    (hx : x0 ≤ x1) (hop : ∀ op, off = some op → 0 ≤ op ∧ op < 1) (ht : 0 ≤ tol) (ht2 : tol < 1 / 2)
    (h : Gen.C20.snap_grid x0 x1 res off tol = .ok (tx, nx)) :
    gridLo res tx nx ≤ x0 + tol * |res| ∧ x1 - tol * |res| ≤ gridHi res tx nx := by
  rw [tie_snap_grid] at h; exact snap_grid_cover off hr hx hop ht ht2 h

/-- `bin1d_point_in_bin` for the source `Bin1D.bin` / `Bin1D.__getitem__` -/
theorem gen_bin1d_point_in_bin (b : Bin1D) (hsz : 0 < b.sz) (hd : b.direction = 1 ∨ b.direction = -1) (x : Rat) :
    ∃ i, Gen.C20.bin1d_bin b x = .ok i ∧
      (Gen.C20.bin1d_getitem b i).1 ≤ x ∧ x < (Gen.C20.bin1d_getitem b i).2 := by
  refine ⟨_, tie_bin1d_bin b x hsz, ?_⟩
  rw [tie_bin1d_getitem]; exact bin1d_point_in_bin b hsz hd x

/-- `bin1d_from_sample_bin` for the source `Bin1D.from_sample_bin` -/
theorem gen_bin1d_from_sample_bin (b : Bin1D) (hsz : 0 < b.sz) (hd : b.direction = 1 ∨ b.direction = -1) (idx : Int) :
    Gen.C20.bin1d_from_sample_bin idx (Gen.C20.bin1d_getitem b idx) b.direction = .ok b := by
  rw [tie_bin1d_from_sample_bin, tie_bin1d_getitem]; exact bin1d_from_sample_bin b hsz hd idx

/-- `bin1d_rejects` for the source `Bin1D.__init__` -/
theorem gen_bin1d_rejects (sz origin : Rat) (d : Int) (h : ¬ (d = -1 ∨ d = 1) ∨ ¬ sz > 0) :
    Gen.C20.bin1d_init sz origin d = .error .assertion := by
  rw [tie_bin1d_init]; exact bin1d_rejects sz origin d h

end OdcGeo.C20
