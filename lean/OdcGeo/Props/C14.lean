/- C14 — property theorems only. -/
import OdcGeo.Model.C14
namespace OdcGeo.C14

end OdcGeo.C14
