/-
C14 — A GridSpec tiles the plane without gaps or overlaps.

All theorems are about the exact-arithmetic instance (`fl := id`) of the model in
`Model/C14.lean`; hypotheses are "the constructor returned this object", never an abstract
well-formedness assumption.  Directions `±1`, resolutions of either sign, any origin, any
(negative or positive) tile index, no bound on anything.

Point-set vocabulary (`BBox.memHalfOpen / memInterior / memClosed`, `GeoBox.covers`,
`GridSpec.footprint`) is defined at the end of the model file.
-/
import OdcGeo.Model.C14
import OdcGeo.Lemmas.C14
import OdcGeo.Model.C20
import OdcGeo.Model.C02
import Mathlib.Tactic.NormNum

namespace OdcGeo.C14

/-! ## 1-D binning (`Bin1D`) -/

/-- `Bin1D(sz, origin, direction)` is accepted iff `sz > 0` and `direction ∈ {1, -1}`. -/
theorem bin1d_new_ok_iff (sz o : Rat) (d : Int) :
    (∃ b, Bin1D.new sz o d = .ok b) ↔ 0 < sz ∧ (d = 1 ∨ d = -1) := by
  constructor
  · rintro ⟨b, h⟩
    obtain ⟨e, w⟩ := Bin1D.new_ok h
    subst e
    exact ⟨w.sz_pos, w.dir⟩
  · rintro ⟨h1, h2⟩
    exact ⟨_, Bin1D.new_of_wf ⟨sz, o, d⟩ ⟨h1, h2⟩⟩

/-- `bin x = k  ↔  lo k ≤ x < hi k` — for both directions (point lookup and index→interval agree). -/
theorem bin_mem {sz o : Rat} {d : Int} {b : Bin1D} (hb : Bin1D.new sz o d = .ok b) (x : Rat) (k : Int) :
    b.bin id x = k ↔ b.lo id k ≤ x ∧ x < b.hi id k :=
  Bin1D.bin_eq_iff b (Bin1D.new_ok hb).2 x k

/-- every coordinate lies in exactly one bin (no gaps, no overlaps) -/
theorem bins_partition {sz o : Rat} {d : Int} {b : Bin1D} (hb : Bin1D.new sz o d = .ok b) (x : Rat) :
    ∃! k : Int, b.lo id k ≤ x ∧ x < b.hi id k := by
  refine ⟨b.bin id x, (bin_mem hb x _).mp rfl, ?_⟩
  intro k hk
  exact ((bin_mem hb x k).mpr hk).symm

/-- the right edge of bin `k` is exactly the left edge of the next bin in index direction -/
theorem bins_abut {sz o : Rat} {d : Int} {b : Bin1D} (hb : Bin1D.new sz o d = .ok b) (k : Int) :
    b.hi id k = b.lo id (k + d) := by
  obtain ⟨e, w⟩ := Bin1D.new_ok hb
  have := Bin1D.hi_eq_lo_next b w k
  rw [this, e]

/-- every bin has width `sz` and bin `0` starts at the origin -/
theorem bin_width_origin {sz o : Rat} {d : Int} {b : Bin1D} (hb : Bin1D.new sz o d = .ok b) (k : Int) :
    b.hi id k - b.lo id k = sz ∧ b.lo id 0 = o := by
  obtain ⟨e, _⟩ := Bin1D.new_ok hb
  subst e
  constructor
  · rw [Bin1D.hi_eq_lo_add]; ring
  · rw [Bin1D.lo_id]; push_cast; ring

/-- distinct bins have no common point (even including their left edges) -/
theorem bins_disjoint {sz o : Rat} {d : Int} {b : Bin1D} (hb : Bin1D.new sz o d = .ok b)
    {j k : Int} (hjk : j ≠ k) :
    ¬ ∃ x, (b.lo id j ≤ x ∧ x < b.hi id j) ∧ (b.lo id k ≤ x ∧ x < b.hi id k) := by
  rintro ⟨x, h1, h2⟩
  exact hjk (((bin_mem hb x j).mpr h1).symm.trans ((bin_mem hb x k).mpr h2))

/-- `from_sample_bin(idx, (x0, x1), dir)`: accepted iff `x0 < x1` (for a legal direction); the sample
    interval is bin `idx` of the result. -/
theorem from_sample_bin_sample (idx : Int) (x0 x1 : Rat) {d : Int} (hd : d = 1 ∨ d = -1) :
    (x0 < x1 → ∃ b, Bin1D.fromSampleBin id idx x0 x1 d = .ok b ∧ b.lo id idx = x0 ∧ b.hi id idx = x1
        ∧ b.dir = d) ∧
    (¬ x0 < x1 → Bin1D.fromSampleBin id idx x0 x1 d = .error .assertion) := by
  constructor
  · intro hx
    refine ⟨_, Bin1D.fromSampleBin_ok hd hx, ?_, ?_, rfl⟩
    · rw [Bin1D.lo_id]; ring
    · rw [Bin1D.hi_id]; ring
  · intro hx
    exact Bin1D.fromSampleBin_err hx

/-- a binning rebuilt from any one of its bins is the same binning -/
theorem from_sample_bin_roundtrip {sz o : Rat} {d : Int} {b : Bin1D} (hb : Bin1D.new sz o d = .ok b)
    (j : Int) : Bin1D.fromSampleBin id j (b.lo id j) (b.hi id j) b.dir = .ok b :=
  Bin1D.fromSampleBin_roundtrip b (Bin1D.new_ok hb).2 j

example : ∃ b, Bin1D.new (5 / 2) (-3) (-1) = .ok b :=
  (bin1d_new_ok_iff _ _ _).mpr ⟨by norm_num, Or.inr rfl⟩

/-! ## 2-D grid (`GridSpec`) -/

section grid
variable {ny nx : Int} {rx ry ox oy : Rat} {fx fy : Bool} {g : GridSpec}

/-- `GridSpec(shape=(ny,nx), resolution=(rx,ry), origin, flips)` is accepted iff both tile sizes
    `nx·|rx|`, `ny·|ry|` are positive (otherwise `AssertionError` from `Bin1D`). -/
theorem gridspec_new_ok_iff (ny nx : Int) (rx ry ox oy : Rat) (fx fy : Bool) :
    (∃ g, GridSpec.new id ny nx rx ry ox oy fx fy = .ok g) ↔
      0 < (nx : Rat) * rabs rx ∧ 0 < (ny : Rat) * rabs ry :=
  GridSpec.new_isOk_iff ny nx rx ry ox oy fx fy

/-- tile size = shape × |resolution|; bins carry the origin and the direction chosen by the flip flags -/
theorem gridspec_new_fields (hg : GridSpec.new id ny nx rx ry ox oy fx fy = .ok g) :
    g.ny = ny ∧ g.nx = nx ∧ g.rx = rx ∧ g.ry = ry ∧
    g.xbin = ⟨(nx : Rat) * rabs rx, ox, if fx then -1 else 1⟩ ∧
    g.ybin = ⟨(ny : Rat) * rabs ry, oy, if fy then -1 else 1⟩ := by
  obtain ⟨e, _⟩ := GridSpec.new_ok hg
  subst e
  exact ⟨rfl, rfl, rfl, rfl, rfl, rfl⟩

/-- Each tile's GeoBox has the specified shape and the specified *signed* resolution, is axis aligned,
    and its footprint is exactly the rectangle `xbin[ix] × ybin[iy]` — for all four sign combinations
    of the resolution and all four flip combinations. -/
theorem tile_geobox_shape_res (hg : GridSpec.new id ny nx rx ry ox oy fx fy = .ok g) (k : Int × Int) :
    (g.tileGeobox id k).ny = ny ∧ (g.tileGeobox id k).nx = nx ∧
    (g.tileGeobox id k).aff.a = rx ∧ (g.tileGeobox id k).aff.b = 0 ∧
    (g.tileGeobox id k).aff.d = 0 ∧ (g.tileGeobox id k).aff.e = ry ∧
    (g.tileGeobox id k).bbox id
      = ⟨g.xbin.lo id k.1, g.ybin.lo id k.2, g.xbin.hi id k.1, g.ybin.hi id k.2⟩ ∧
    ((g.tileGeobox id k).bbox id).right - ((g.tileGeobox id k).bbox id).left = (nx : Rat) * rabs rx ∧
    ((g.tileGeobox id k).bbox id).top - ((g.tileGeobox id k).bbox id).bottom = (ny : Rat) * rabs ry := by
  obtain ⟨e, w⟩ := GridSpec.new_ok hg
  have hf := GridSpec.footprint_eq g w k
  unfold GridSpec.footprint at hf
  rw [hf]
  subst e
  refine ⟨rfl, rfl, rfl, rfl, rfl, rfl, rfl, ?_, ?_⟩
  · simp only [Bin1D.hi_eq_lo_add]; ring
  · simp only [Bin1D.hi_eq_lo_add]; ring

/-- the bounding box of a tile is its footprint as a point set: the image of the pixel rectangle
    `[0,nx]×[0,ny]` under the tile's pixel→world affine is exactly the closed bin rectangle -/
theorem tile_footprint_is_image (hg : GridSpec.new id ny nx rx ry ox oy fx fy = .ok g) (k : Int × Int)
    (p : Rat × Rat) : (g.tileGeobox id k).covers p ↔ (g.footprint k).memClosed p :=
  GridSpec.tileGeobox_covers_iff g (GridSpec.new_ok hg).2 k p

/-- a point lies in tile `k` (left/bottom edges included, right/top excluded) iff `pt2idx` returns `k` -/
theorem pt_tile_unique (hg : GridSpec.new id ny nx rx ry ox oy fx fy = .ok g) (x y : Rat) (k : Int × Int) :
    (g.footprint k).memHalfOpen (x, y) ↔ g.pt2idx id x y = k := by
  obtain ⟨_, w⟩ := GridSpec.new_ok hg
  rw [GridSpec.footprint_eq g w]
  unfold BBox.memHalfOpen GridSpec.pt2idx
  have hx := Bin1D.bin_eq_iff g.xbin w.x x k.1
  have hy := Bin1D.bin_eq_iff g.ybin w.y y k.2
  constructor
  · rintro ⟨a, b, c, d⟩
    exact Prod.ext (hx.mpr ⟨a, b⟩) (hy.mpr ⟨c, d⟩)
  · intro h
    have h1 := hx.mp (congrArg Prod.fst h)
    have h2 := hy.mp (congrArg Prod.snd h)
    exact ⟨h1.1, h1.2, h2.1, h2.2⟩

/-- every point belongs to the tile that point lookup returns -/
theorem pt_in_its_tile (hg : GridSpec.new id ny nx rx ry ox oy fx fy = .ok g) (x y : Rat) :
    (g.footprint (g.pt2idx id x y)).memHalfOpen (x, y) :=
  (pt_tile_unique hg x y _).mpr rfl

/-- the half-open tiles partition the plane: no gaps, no overlaps -/
theorem tiles_partition_plane (hg : GridSpec.new id ny nx rx ry ox oy fx fy = .ok g) (p : Rat × Rat) :
    ∃! k : Int × Int, (g.footprint k).memHalfOpen p := by
  refine ⟨g.pt2idx id p.1 p.2, pt_in_its_tile hg p.1 p.2, ?_⟩
  intro k hk
  exact ((pt_tile_unique hg p.1 p.2 k).mp hk).symm

/-- tile footprints with distinct indices have disjoint interiors -/
theorem tiles_disjoint_interiors (hg : GridSpec.new id ny nx rx ry ox oy fx fy = .ok g)
    {k k' : Int × Int} (hk : k ≠ k') :
    ¬ ∃ p, (g.footprint k).memInterior p ∧ (g.footprint k').memInterior p := by
  rintro ⟨p, ⟨a1, a2, a3, a4⟩, ⟨b1, b2, b3, b4⟩⟩
  have h1 := (pt_tile_unique hg p.1 p.2 k).mp ⟨a1.le, a2, a3.le, a4⟩
  have h2 := (pt_tile_unique hg p.1 p.2 k').mp ⟨b1.le, b2, b3.le, b4⟩
  exact hk (h1.symm.trans h2)

/-- neighbouring tiles share their common edge exactly: the next tile in x index direction starts where
    this one ends and spans the same y interval; likewise in y. -/
theorem neighbours_share_edge (hg : GridSpec.new id ny nx rx ry ox oy fx fy = .ok g) (ix iy : Int) :
    (g.footprint (ix + g.xbin.dir, iy)).left = (g.footprint (ix, iy)).right ∧
    (g.footprint (ix + g.xbin.dir, iy)).bottom = (g.footprint (ix, iy)).bottom ∧
    (g.footprint (ix + g.xbin.dir, iy)).top = (g.footprint (ix, iy)).top ∧
    (g.footprint (ix, iy + g.ybin.dir)).bottom = (g.footprint (ix, iy)).top ∧
    (g.footprint (ix, iy + g.ybin.dir)).left = (g.footprint (ix, iy)).left ∧
    (g.footprint (ix, iy + g.ybin.dir)).right = (g.footprint (ix, iy)).right := by
  obtain ⟨_, w⟩ := GridSpec.new_ok hg
  simp only [GridSpec.footprint_eq g w]
  exact ⟨(Bin1D.hi_eq_lo_next g.xbin w.x ix).symm, trivial, trivial,
    (Bin1D.hi_eq_lo_next g.ybin w.y iy).symm, trivial, trivial⟩

/-! ### bounding-box query -/

/-- Exact characterisation of `idx_bounds` for *every* query box and tolerance (ends in any order):
    tile `k` is in the returned index rectangle iff its half-open footprint meets the rectangle spanned
    by the two probe points `(left+tol, bottom+tol)` and `(right−tol, top−tol)`. -/
theorem idx_bounds_general (hg : GridSpec.new id ny nx rx ry ox oy fx fy = .ok g) (tol : Rat) (q : BBox)
    (k : Int × Int) :
    inRange (g.idxBounds id tol q) k ↔
      ∃ p : Rat × Rat,
        min (q.left + tol) (q.right - tol) ≤ p.1 ∧ p.1 ≤ max (q.left + tol) (q.right - tol) ∧
        min (q.bottom + tol) (q.top - tol) ≤ p.2 ∧ p.2 ≤ max (q.bottom + tol) (q.top - tol) ∧
        (g.footprint k).memHalfOpen p := by
  obtain ⟨_, w⟩ := GridSpec.new_ok hg
  rw [GridSpec.footprint_eq g w]
  have X := Bin1D.range_iff g.xbin w.x (q.left + tol) (q.right - tol) k.1
  have Y := Bin1D.range_iff g.ybin w.y (q.bottom + tol) (q.top - tol) k.2
  unfold inRange GridSpec.idxBounds GridSpec.pt2idx BBox.memHalfOpen
  simp only [id]
  constructor
  · rintro ⟨a1, a2, b1, b2⟩
    obtain ⟨x, hx⟩ := X.mp ⟨a1, a2⟩
    obtain ⟨y, hy⟩ := Y.mp ⟨b1, b2⟩
    exact ⟨(x, y), hx.1, hx.2.1, hy.1, hy.2.1, hx.2.2.1, hx.2.2.2, hy.2.2.1, hy.2.2.2⟩
  · rintro ⟨p, h1, h2, h3, h4, h5, h6, h7, h8⟩
    have a := X.mpr ⟨p.1, h1, h2, h5, h6⟩
    have b := Y.mpr ⟨p.2, h3, h4, h7, h8⟩
    exact ⟨a.1, a.2, b.1, b.2⟩

/-- `idx_bounds_exact`: for a query at least `2·tol` wide and high, tile `k` is in the returned range
    iff its footprint overlaps the query shrunk by `tol` on every side.  (The hypotheses are needed:
    see `idx_bounds_exact_thin_cex`.)  The tile is half-open, hence a tile whose *left/bottom* edge is
    exactly `tol` inside the query's right/top edge is returned while a tile whose right/top edge is
    exactly `tol` inside the query's left/bottom edge is not. -/
theorem idx_bounds_exact (hg : GridSpec.new id ny nx rx ry ox oy fx fy = .ok g) (tol : Rat) (q : BBox)
    (hx : q.left + tol ≤ q.right - tol) (hy : q.bottom + tol ≤ q.top - tol) (k : Int × Int) :
    inRange (g.idxBounds id tol q) k ↔
      ∃ p : Rat × Rat, q.left + tol ≤ p.1 ∧ p.1 ≤ q.right - tol ∧ q.bottom + tol ≤ p.2 ∧ p.2 ≤ q.top - tol ∧
        (g.footprint k).memHalfOpen p := by
  rw [idx_bounds_general hg, min_eq_left hx, max_eq_right hx, min_eq_left hy, max_eq_right hy]

/-- For every (also degenerate) query `left ≤ right`, `bottom ≤ top` and `tol ≥ 0`: a returned tile
    contains a point within `tol` of the query box — nothing farther than `tol` is ever returned. -/
theorem idx_bounds_sound (hg : GridSpec.new id ny nx rx ry ox oy fx fy = .ok g) {tol : Rat} (ht : 0 ≤ tol)
    (q : BBox) (hx : q.left ≤ q.right) (hy : q.bottom ≤ q.top) (k : Int × Int)
    (hk : inRange (g.idxBounds id tol q) k) :
    ∃ p : Rat × Rat, q.left - tol ≤ p.1 ∧ p.1 ≤ q.right + tol ∧ q.bottom - tol ≤ p.2 ∧ p.2 ≤ q.top + tol ∧
      (g.footprint k).memHalfOpen p := by
  obtain ⟨p, h1, h2, h3, h4, h5⟩ := (idx_bounds_general hg tol q k).mp hk
  refine ⟨p, ?_, ?_, ?_, ?_, h5⟩
  · rcases min_choice (q.left + tol) (q.right - tol) with h | h <;> rw [h] at h1 <;> linarith
  · rcases max_choice (q.left + tol) (q.right - tol) with h | h <;> rw [h] at h2 <;> linarith
  · rcases min_choice (q.bottom + tol) (q.top - tol) with h | h <;> rw [h] at h3 <;> linarith
  · rcases max_choice (q.bottom + tol) (q.top - tol) with h | h <;> rw [h] at h4 <;> linarith

/-- the returned index rectangle is never empty (also for zero-area queries) -/
theorem idx_bounds_nonempty (g : GridSpec) (tol : Rat) (q : BBox) :
    (g.idxBounds id tol q).1 < (g.idxBounds id tol q).2.2.1 ∧
    (g.idxBounds id tol q).2.1 < (g.idxBounds id tol q).2.2.2 := by
  unfold GridSpec.idxBounds
  simp only
  omega

/-- `tiles(bounds)` enumerates exactly the index rectangle of `idx_bounds` -/
theorem tiles_mem (g : GridSpec) (tol : Rat) (q : BBox) (k : Int × Int) :
    k ∈ g.tiles id tol q ↔ inRange (g.idxBounds id tol q) k := by
  unfold GridSpec.tiles inRange
  simp only [List.mem_flatMap, List.mem_map, mem_rangeI]
  constructor
  · rintro ⟨iy, ⟨h1, h2⟩, ix, ⟨h3, h4⟩, rfl⟩
    exact ⟨h3, h4, h1, h2⟩
  · rintro ⟨h1, h2, h3, h4⟩
    exact ⟨k.2, ⟨h3, h4⟩, k.1, ⟨h1, h2⟩, rfl⟩

/-- `tiles(bounds)` yields every tile index at most once -/
theorem tiles_nodup (g : GridSpec) (tol : Rat) (q : BBox) : (g.tiles id tol q).Nodup := by
  unfold GridSpec.tiles
  rw [List.nodup_flatMap]
  refine ⟨fun iy _ => List.Nodup.map (fun i j h => by simpa using h) (rangeI_nodup _ _), ?_⟩
  apply List.Pairwise.imp_of_mem _ (rangeI_nodup _ _)
  intro a b _ _ hab
  simp only [Function.onFun, List.disjoint_left, List.mem_map]
  rintro k ⟨i, _, rfl⟩ ⟨j, _, h⟩
  exact hab (by simpa using (congrArg Prod.snd h).symm)

/-- bounding-box query: returns exactly the tiles overlapping the query shrunk by the tolerance -/
theorem bbox_query_exact (hg : GridSpec.new id ny nx rx ry ox oy fx fy = .ok g) (tol : Rat) (q : BBox)
    (hx : q.left + tol ≤ q.right - tol) (hy : q.bottom + tol ≤ q.top - tol) (k : Int × Int) :
    k ∈ g.tiles id tol q ↔
      ∃ p : Rat × Rat, q.left + tol ≤ p.1 ∧ p.1 ≤ q.right - tol ∧ q.bottom + tol ≤ p.2 ∧ p.2 ≤ q.top - tol ∧
        (g.footprint k).memHalfOpen p := by
  rw [tiles_mem, idx_bounds_exact hg tol q hx hy]

/-! ### polygon query -/

/-- `tiles_from_geopolygon` = tiles of the polygon's bounding box, minus those whose footprint the
    `disjoint` test (shapely) reports as disjoint from the polygon -/
theorem polygon_query_filter (g : GridSpec) (tol : Rat) (q : BBox) (dj : GeoBox → Bool) (k : Int × Int) :
    k ∈ g.tilesFromPolygon id tol q dj ↔ k ∈ g.tiles id tol q ∧ dj (g.tileGeobox id k) = false := by
  unfold GridSpec.tilesFromPolygon
  simp [List.mem_filter]

/-- Soundness under the contract of `disjoint` (true iff no polygon point lies in the closed footprint):
    every returned tile's closed footprint contains a point of the polygon. -/
theorem polygon_query_sound (hg : GridSpec.new id ny nx rx ry ox oy fx fy = .ok g) (tol : Rat) (q : BBox)
    (poly : Rat × Rat → Prop) (dj : GeoBox → Bool)
    (hdj : ∀ gb, dj gb = true ↔ ¬ ∃ p, poly p ∧ gb.covers p) (k : Int × Int)
    (hk : k ∈ g.tilesFromPolygon id tol q dj) :
    ∃ p, poly p ∧ (g.footprint k).memClosed p := by
  have h2 := ((polygon_query_filter g tol q dj k).mp hk).2
  have : ¬ dj (g.tileGeobox id k) = true := by rw [h2]; simp
  rw [hdj] at this
  obtain ⟨p, hp, hc⟩ := Classical.not_not.mp this
  exact ⟨p, hp, (tile_footprint_is_image hg k p).mp hc⟩

/-- Completeness under the same contract: for a polygon with bounding box `q` at least `2·tol` wide and
    high, the tile of every polygon point that is at least `tol` away from the edges of `q` is returned. -/
theorem polygon_query_complete (hg : GridSpec.new id ny nx rx ry ox oy fx fy = .ok g) (tol : Rat) (q : BBox)
    (poly : Rat × Rat → Prop) (dj : GeoBox → Bool)
    (hdj : ∀ gb, dj gb = true ↔ ¬ ∃ p, poly p ∧ gb.covers p)
    (hx : q.left + tol ≤ q.right - tol) (hy : q.bottom + tol ≤ q.top - tol)
    (p : Rat × Rat) (hp : poly p)
    (hin : q.left + tol ≤ p.1 ∧ p.1 ≤ q.right - tol ∧ q.bottom + tol ≤ p.2 ∧ p.2 ≤ q.top - tol) :
    g.pt2idx id p.1 p.2 ∈ g.tilesFromPolygon id tol q dj := by
  have hmem := pt_in_its_tile hg p.1 p.2
  rw [polygon_query_filter]
  constructor
  · rw [bbox_query_exact hg tol q hx hy]
    exact ⟨p, hin.1, hin.2.1, hin.2.2.1, hin.2.2.2, hmem⟩
  · have : ¬ dj (g.tileGeobox id (g.pt2idx id p.1 p.2)) = true := by
      rw [hdj]
      intro hnone
      apply hnone
      refine ⟨p, hp, (tile_footprint_is_image hg _ p).mpr ?_⟩
      obtain ⟨a, b, c, d⟩ := hmem
      exact ⟨a, b.le, c, d.le⟩
    simpa using this

end grid

/-! ### corners of the bounding-box query -/

section corners
variable {ny nx : Int} {rx ry ox oy : Rat} {fx fy : Bool} {g : GridSpec}

/-- "edge contacts excluded": querying with the exact footprint of tile `k` (any `0 < tol`,
    `2·tol ≤` tile size) returns tile `k` and none of its eight neighbours. -/
theorem edge_contact_excluded (hg : GridSpec.new id ny nx rx ry ox oy fx fy = .ok g) {tol : Rat}
    (ht : 0 < tol) (hsx : 2 * tol ≤ (nx : Rat) * rabs rx) (hsy : 2 * tol ≤ (ny : Rat) * rabs ry)
    (k k' : Int × Int) : k' ∈ g.tiles id tol (g.footprint k) ↔ k' = k := by
  obtain ⟨e, w⟩ := GridSpec.new_ok hg
  have hfk := GridSpec.footprint_eq g w k
  have hwx : g.xbin.hi id k.1 = g.xbin.lo id k.1 + (nx : Rat) * rabs rx := by
    rw [Bin1D.hi_eq_lo_add, w.szx, e]
  have hwy : g.ybin.hi id k.2 = g.ybin.lo id k.2 + (ny : Rat) * rabs ry := by
    rw [Bin1D.hi_eq_lo_add, w.szy, e]
  rw [bbox_query_exact hg tol _ (by rw [hfk]; simp only; linarith) (by rw [hfk]; simp only; linarith)]
  rw [hfk]
  simp only
  constructor
  · rintro ⟨p, h1, h2, h3, h4, h5⟩
    have hin : (g.footprint k).memHalfOpen (p.1, p.2) := by
      rw [hfk]
      exact ⟨by simp only; linarith, by simp only; linarith, by simp only; linarith,
        by simp only; linarith⟩
    have a := (pt_tile_unique hg p.1 p.2 k).mp hin
    have b := (pt_tile_unique hg p.1 p.2 k').mp h5
    exact b.symm.trans a
  · rintro rfl
    refine ⟨(g.xbin.lo id k'.1 + tol, g.ybin.lo id k'.2 + tol), le_refl _, by simp only; linarith,
      le_refl _, by simp only; linarith, ?_⟩
    rw [hfk]
    exact ⟨by simp only; linarith, by simp only; linarith, by simp only; linarith,
      by simp only; linarith⟩

/-- The design statement `idx_bounds_exact` without the "query at least `2·tol` wide" hypothesis is
    FALSE for the code: for the 5×5-unit grid and the zero-width query `x = 5 + 2⁻²⁸`, `1 ≤ y ≤ 2`
    (inside tile (1,0), 3.7e-9 away from tile (0,0)) the code (tolerance `1e-8`) also returns tile
    (0,0), whose closed footprint has no point in common with the query.  (Replayed on the real code by
    the harness: `idx_bounds` gives `(0, 0, 2, 1)`.)  Thin queries are *widened* by the sorting of the
    two probe points, never dropped; `idx_bounds_sound` bounds the excess by `tol`. -/
theorem idx_bounds_exact_thin_cex :
    ∃ (g : GridSpec) (q : BBox) (k : Int × Int),
      GridSpec.new id 10 10 (1 / 2) (-1 / 2) 0 0 false false = .ok g ∧
      q.left ≤ q.right ∧ q.bottom ≤ q.top ∧
      inRange (g.idxBounds id tol8 q) k ∧ ¬ ∃ p, q.memClosed p ∧ (g.footprint k).memClosed p := by
  have hg := GridSpec.new_eq_ok (ny := 10) (nx := 10) (rx := 1 / 2) (ry := -1 / 2) 0 0 false false
    (by norm_num [rabs]) (by norm_num [rabs])
  have w := (GridSpec.new_ok hg).2
  refine ⟨_, ⟨5 + 1 / 2 ^ 28, 1, 5 + 1 / 2 ^ 28, 2⟩, (0, 0), hg, le_refl _, by norm_num, ?_, ?_⟩
  · rw [idx_bounds_general hg]
    refine ⟨(5 + 1 / 2 ^ 28 - tol8, 3 / 2), ?_⟩
    rw [GridSpec.footprint_eq _ w]
    have m1 : min ((5 : Rat) + 1 / 2 ^ 28 + tol8) (5 + 1 / 2 ^ 28 - tol8) = 5 + 1 / 2 ^ 28 - tol8 :=
      min_eq_right (by norm_num [tol8])
    have m2 : max ((5 : Rat) + 1 / 2 ^ 28 + tol8) (5 + 1 / 2 ^ 28 - tol8) = 5 + 1 / 2 ^ 28 + tol8 :=
      max_eq_left (by norm_num [tol8])
    have m3 : min ((1 : Rat) + tol8) (2 - tol8) = 1 + tol8 := min_eq_left (by norm_num [tol8])
    have m4 : max ((1 : Rat) + tol8) (2 - tol8) = 2 - tol8 := max_eq_right (by norm_num [tol8])
    simp only [m1, m2, m3, m4, BBox.memHalfOpen, Bin1D.lo_id, Bin1D.hi_id, dirOf, rabs]
    norm_num [tol8]
  · rintro ⟨p, ⟨h1, _, _, _⟩, ⟨_, h2, _, _⟩⟩
    rw [GridSpec.footprint_eq _ w] at h2
    simp only [Bin1D.hi_id, dirOf, rabs] at h1 h2
    norm_num at h1 h2
    linarith

end corners

/-! ## `from_sample_tile` -/

section sample
variable {ny nx : Int} {rx ry ox oy : Rat} {fx fy : Bool} {g : GridSpec}

/-- a grid built from a sample tile has that tile (footprint, shape) at the given index, index
    directions as requested, and the conventional resolution signs (x positive, y negative) -/
theorem from_sample_tile_sample (q : BBox) {ny nx : Int} (ix iy : Int) (fx fy : Bool)
    (hx : q.left < q.right) (hy : q.bottom < q.top) (hnx : 0 < nx) (hny : 0 < ny) :
    ∃ g', GridSpec.fromSampleTile id q ny nx ix iy fx fy = .ok g' ∧
      g'.footprint (ix, iy) = q ∧ g'.ny = ny ∧ g'.nx = nx ∧
      g'.xbin.dir = (if fx then -1 else 1) ∧ g'.ybin.dir = (if fy then -1 else 1) ∧
      g'.rx = (q.right - q.left) / (nx : Rat) ∧ g'.ry = -(q.top - q.bottom) / (ny : Rat) := by
  obtain ⟨g', h, w, h1, h2, h3, h4, h5, h6⟩ := GridSpec.fromSampleTile_spec ix iy fx fy hx hy hnx hny
  refine ⟨g', h, ?_, h1, h2, by rw [h5]; rfl, by rw [h6]; rfl, h3, h4⟩
  rw [GridSpec.footprint_eq g' w, h5, h6]
  simp only [Bin1D.lo_id, Bin1D.hi_id]
  obtain ⟨l, b, r, t⟩ := q
  simp only [BBox.mk.injEq]
  refine ⟨?_, ?_, ?_, ?_⟩ <;> ring

/-- what `from_sample_tile` rejects -/
theorem from_sample_tile_rejects (q : BBox) (ny nx ix iy : Int) (fx fy : Bool) :
    ((ny = -1 ∧ nx = -1) → GridSpec.fromSampleTile id q ny nx ix iy fx fy = .error .valueError) ∧
    (¬ (ny = -1 ∧ nx = -1) → ¬ q.left < q.right →
      GridSpec.fromSampleTile id q ny nx ix iy fx fy = .error .assertion) := by
  constructor
  · intro h
    unfold GridSpec.fromSampleTile
    simp only [h, and_self, if_true]
    rfl
  · intro h hx
    unfold GridSpec.fromSampleTile
    rw [Bin1D.fromSampleBin_err hx]
    simp only [h, if_false]
    rfl

/-- `from_sample_roundtrip`: a grid rebuilt from ANY one of its tiles (footprint, index, shape, flip
    flags) has the same footprint for every index and the same point lookup — although its resolution
    signs are normalised to (+x, −y), whatever the signs of the original were. -/
theorem from_sample_roundtrip (hg : GridSpec.new id ny nx rx ry ox oy fx fy = .ok g) (j : Int × Int) :
    ∃ g', GridSpec.fromSampleTile id (g.footprint j) ny nx j.1 j.2 fx fy = .ok g' ∧
      (∀ k, g'.footprint k = g.footprint k) ∧ (∀ x y, g'.pt2idx id x y = g.pt2idx id x y) ∧
      g'.ny = ny ∧ g'.nx = nx ∧ g'.rx = rabs rx ∧ g'.ry = -rabs ry := by
  obtain ⟨e, w⟩ := GridSpec.new_ok hg
  have hnx : 0 < nx := by have := w.x.sz_pos; rw [w.szx, e] at this; exact GridSpec.n_pos_of_sz this
  have hny : 0 < ny := by have := w.y.sz_pos; rw [w.szy, e] at this; exact GridSpec.n_pos_of_sz this
  have hnx' : (nx : Rat) ≠ 0 := by exact_mod_cast hnx.ne'
  have hny' : (ny : Rat) ≠ 0 := by exact_mod_cast hny.ne'
  have hdx : g.xbin.dir = dirOf fx := by rw [e]
  have hdy : g.ybin.dir = dirOf fy := by rw [e]
  have hfj := GridSpec.footprint_eq g w j
  obtain ⟨g', h, w', h1, h2, h3, h4, h5, h6⟩ :=
    GridSpec.fromSampleTile_spec (q := g.footprint j) (ny := ny) (nx := nx) j.1 j.2 fx fy
      (by rw [hfj]; exact Bin1D.lo_lt_hi _ w.x _) (by rw [hfj]; exact Bin1D.lo_lt_hi _ w.y _) hnx hny
  -- the two rebuilt binnings are the original ones
  have bx : g'.xbin = g.xbin := by
    have r := Bin1D.fromSampleBin_roundtrip g.xbin w.x j.1
    rw [Bin1D.fromSampleBin_ok w.x.dir (Bin1D.lo_lt_hi _ w.x _)] at r
    rw [h5, hfj, ← hdx]
    exact Except.ok.inj r
  have by' : g'.ybin = g.ybin := by
    have r := Bin1D.fromSampleBin_roundtrip g.ybin w.y j.2
    rw [Bin1D.fromSampleBin_ok w.y.dir (Bin1D.lo_lt_hi _ w.y _)] at r
    rw [h6, hfj, ← hdy]
    exact Except.ok.inj r
  refine ⟨g', h, ?_, ?_, h1, h2, ?_, ?_⟩
  · intro k
    rw [GridSpec.footprint_eq g' w', GridSpec.footprint_eq g w, bx, by']
  · intro x y
    unfold GridSpec.pt2idx
    rw [bx, by']
  · rw [h3, hfj]
    simp only [Bin1D.hi_eq_lo_add]
    rw [w.szx, e]
    field_simp
    ring
  · rw [h4, hfj]
    simp only [Bin1D.hi_eq_lo_add]
    rw [w.szy, e]
    field_simp
    ring

end sample


/-! ## `web_tiles` (slippy-map tiles);  `P` stands for the double `math.pi * 6378137` -/

section web
variable {P : Rat} {npix : Int} {g : GridSpec}

/-- the web-tile grid is an ordinary `GridSpec` (so every theorem above applies to it): x index left to
    right from `-P`, y index top to bottom from `+P`, square tiles of side `P·2^(1-z)`, `npix` pixels -/
theorem web_tiles_is_gridspec (hP : 0 < P) (z : Int) (hn : 0 < npix) :
    GridSpec.webTiles id P z npix =
      GridSpec.new id npix npix (P * pow2 (1 - z) / (npix : Rat)) (-(P * pow2 (1 - z)) / (npix : Rat))
        (-P) (P - P * pow2 (1 - z)) false true :=
  GridSpec.webTiles_eq_new hP z hn

/-- `web_tile_extent`: tile `(i, j)` at zoom `z` has exactly the slippy-map extent
    `x ∈ [-P + i·T, -P + (i+1)·T]`, `y ∈ [P - (j+1)·T, P - j·T]`, `T = 2P / 2^z`; pixel size `T / npix`
    (x positive, y negative). -/
theorem web_tile_extent (hP : 0 < P) (z : Nat) (hn : 0 < npix)
    (hg : GridSpec.webTiles id P (z : Int) npix = .ok g) (i j : Int) :
    g.footprint (i, j) =
      ⟨-P + (i : Rat) * (2 * P / 2 ^ z), P - ((j : Rat) + 1) * (2 * P / 2 ^ z),
       -P + ((i : Rat) + 1) * (2 * P / 2 ^ z), P - (j : Rat) * (2 * P / 2 ^ z)⟩ ∧
    g.ny = npix ∧ g.nx = npix ∧
    g.rx = 2 * P / 2 ^ z / (npix : Rat) ∧ g.ry = -(2 * P / 2 ^ z) / (npix : Rat) := by
  rw [web_tiles_is_gridspec hP _ hn] at hg
  obtain ⟨e, w⟩ := GridSpec.new_ok hg
  have hn' : (0 : Rat) < (npix : Rat) := by exact_mod_cast hn
  have ht : 0 < P * pow2 (1 - (z : Int)) := mul_pos hP (pow2_pos _)
  have hT : P * pow2 (1 - (z : Int)) = 2 * P / 2 ^ z := by rw [pow2_one_sub]; ring
  have sx : g.xbin.sz = 2 * P / 2 ^ z := by
    rw [w.szx, e]
    simp only
    rw [GridSpec.rabs_of_pos (div_pos ht hn'), ← hT]; field_simp
  have sy : g.ybin.sz = 2 * P / 2 ^ z := by
    rw [w.szy, e]
    simp only
    have : -(P * pow2 (1 - (z : Int))) / (npix : Rat) < 0 := by
      rw [neg_div]; exact neg_neg_of_pos (div_pos ht hn')
    unfold rabs; rw [if_pos this, ← hT]; field_simp
  refine ⟨?_, by rw [e], by rw [e], by rw [e, hT], by rw [e, hT]⟩
  rw [GridSpec.footprint_eq g w]
  simp only [Bin1D.hi_id, Bin1D.lo_id, sx, sy]
  rw [e]
  simp only [dirOf, Bool.false_eq_true, if_false, if_true, hT]
  push_cast
  refine BBox.mk.injEq .. |>.mpr ⟨?_, ?_, ?_, ?_⟩ <;> ring

/-- `web_tiles_count`: the tiles lying inside the world square `[-P, P]²` are exactly those with both
    indices in `[0, 2^z)` — `2^z` tiles per side (together with `tiles_partition_plane` they tile the
    square without gaps or overlaps). -/
theorem web_tiles_count (hP : 0 < P) (z : Nat) (hn : 0 < npix)
    (hg : GridSpec.webTiles id P (z : Int) npix = .ok g) (i j : Int) :
    (0 ≤ i ∧ i < 2 ^ z ∧ 0 ≤ j ∧ j < 2 ^ z) ↔
      (-P ≤ (g.footprint (i, j)).left ∧ (g.footprint (i, j)).right ≤ P ∧
       -P ≤ (g.footprint (i, j)).bottom ∧ (g.footprint (i, j)).top ≤ P) := by
  rw [(web_tile_extent hP z hn hg i j).1]
  simp only
  have hT : 0 < 2 * P / 2 ^ z := by positivity
  have key : ((2 ^ z : Int) : Rat) * (2 * P / 2 ^ z) = 2 * P := by
    push_cast; field_simp
  have a := int_mul_nonneg_iff hT i
  have b := int_mul_le_iff hT (i + 1) (2 ^ z)
  have c := int_mul_nonneg_iff hT j
  have d := int_mul_le_iff hT (j + 1) (2 ^ z)
  rw [key] at b d
  push_cast at b d
  constructor
  · rintro ⟨h1, h2, h3, h4⟩
    have := a.mpr h1
    have := b.mpr (by omega)
    have := c.mpr h3
    have := d.mpr (by omega)
    refine ⟨by linarith, by linarith, by linarith, by linarith⟩
  · rintro ⟨h1, h2, h3, h4⟩
    have := a.mp (by linarith)
    have := b.mp (by linarith)
    have := c.mp (by linarith)
    have := d.mp (by linarith)
    omega

example : ∃ g, GridSpec.webTiles id 3 (2 : Nat) 256 = .ok g := by
  rw [web_tiles_is_gridspec (by norm_num) _ (by norm_num)]
  exact (gridspec_new_ok_iff _ _ _ _ _ _ _ _).mpr ⟨by norm_num [rabs, pow2], by norm_num [rabs, pow2]⟩

end web


/-- a bounding box in a foreign CRS is rejected (`AssertionError`), never silently reinterpreted or converted
    through its four corners; with the grid's own CRS the guard is transparent -/
theorem idx_bounds_crs_guard (fl : Rnd) (tol : Rat) (g : GridSpec) (q : BBox) :
    g.idxBoundsChecked fl tol false q = .error .assertion ∧ g.tilesChecked fl tol false q = .error .assertion ∧
    g.idxBoundsChecked fl tol true q = .ok (g.idxBounds fl tol q) ∧
    g.tilesChecked fl tol true q = .ok (g.tiles fl tol q) :=
  ⟨rfl, rfl, rfl, rfl⟩

/-! ## the shared `geobox_cache` (state across a history of queries; any rounding function `fl`) -/

section cache
variable (fl : Rnd) (tol : Rat) (g : GridSpec)

/-- a fresh cache is coherent -/
theorem cache_empty_coherent : g.Coherent fl [] := by
  intro k gb h; simp at h

/-- `tiles(bounds, cache)` with a coherent cache yields exactly what the cache-less call yields (same
    indices in the same order, each with the geobox of its index); afterwards the cache is still coherent
    and holds exactly the old keys plus every tile of the query. -/
theorem tiles_cache_transparent (q : BBox) (c : Cache) (hc : g.Coherent fl c) :
    (g.tilesC fl tol q c).1 = (g.tiles fl tol q).map (fun k => (k, g.tileGeobox fl k)) ∧
    g.Coherent fl (g.tilesC fl tol q c).2 ∧
    ∀ k, ((g.tilesC fl tol q c).2.lookup k).isSome ↔ ((c.lookup k).isSome ∨ k ∈ g.tiles fl tol q) :=
  GridSpec.tilesGo_spec fl g _ c hc

/-- `polygon_query_cache_independent`: with a coherent cache — in particular one filled by ANY earlier
    history of bbox / polygon queries on this grid — the polygon query returns exactly the tiles the
    cache-less query returns (cached tiles are still tested against the polygon); the cache stays coherent and
    afterwards holds the old keys plus every tile of the polygon's bounding box (also the filtered-out ones). -/
theorem polygon_query_cache_independent (q : BBox) (dj : GeoBox → Bool) (c : Cache) (hc : g.Coherent fl c) :
    (g.tilesFromPolygonC fl tol q dj c).1.map (·.1) = g.tilesFromPolygon fl tol q dj ∧
    (∀ e ∈ (g.tilesFromPolygonC fl tol q dj c).1, e.2 = g.tileGeobox fl e.1) ∧
    g.Coherent fl (g.tilesFromPolygonC fl tol q dj c).2 ∧
    ∀ k, ((g.tilesFromPolygonC fl tol q dj c).2.lookup k).isSome ↔
      ((c.lookup k).isSome ∨ k ∈ g.tiles fl tol q) := by
  obtain ⟨h1, h2, h3⟩ := tiles_cache_transparent fl tol g q c hc
  unfold GridSpec.tilesFromPolygonC GridSpec.tilesFromPolygon
  simp only
  rw [h1]
  refine ⟨?_, ?_, h2, h3⟩
  · rw [List.filter_map, List.map_map]
    simp [Function.comp_def]
  · intro e he
    rw [List.mem_filter, List.mem_map] at he
    obtain ⟨⟨k, _, rfl⟩, _⟩ := he
    rfl

end cache

/-! ## growth round: degenerate queries, multi-part geometries, `__eq__`, `alignment`, `geojson`, E↔F transfer -/

section growth
variable {ny nx : Int} {rx ry ox oy : Rat} {fx fy : Bool} {g : GridSpec}

/-- For EVERY query box and tolerance (also zero width / height, also thinner than the tolerance) the tile
    containing the centre of the box is returned: a bounding-box query is never answered with nothing. -/
theorem bbox_query_returns_centre_tile (hg : GridSpec.new id ny nx rx ry ox oy fx fy = .ok g) (tol : Rat) (q : BBox) :
    g.pt2idx id ((q.left + q.right) / 2) ((q.bottom + q.top) / 2) ∈ g.tiles id tol q := by
  rw [tiles_mem, idx_bounds_general hg]
  refine ⟨((q.left + q.right) / 2, (q.bottom + q.top) / 2), ?_, ?_, ?_, ?_, pt_in_its_tile hg _ _⟩
  · rcases le_total (q.left + tol) (q.right - tol) with h | h
    · rw [min_eq_left h]; simp only; linarith
    · rw [min_eq_right h]; simp only; linarith
  · rcases le_total (q.left + tol) (q.right - tol) with h | h
    · rw [max_eq_right h]; simp only; linarith
    · rw [max_eq_left h]; simp only; linarith
  · rcases le_total (q.bottom + tol) (q.top - tol) with h | h
    · rw [min_eq_left h]; simp only; linarith
    · rw [min_eq_right h]; simp only; linarith
  · rcases le_total (q.bottom + tol) (q.top - tol) with h | h
    · rw [max_eq_right h]; simp only; linarith
    · rw [max_eq_left h]; simp only; linarith

/-- a zero-area query (a point) returns the tile that contains the point -/
theorem zero_area_query_returns_its_tile (hg : GridSpec.new id ny nx rx ry ox oy fx fy = .ok g) (tol x y : Rat) :
    g.pt2idx id x y ∈ g.tiles id tol ⟨x, y, x, y⟩ := by
  have := bbox_query_returns_centre_tile hg tol ⟨x, y, x, y⟩
  simpa using this

/-- a zero-WIDTH query (`left = right = x`, e.g. the bounding box of a north-south line): every tile that contains
    a point `(x, y)` of it with `y` at least `tol` inside the box is returned (and symmetrically for zero height) -/
theorem zero_width_query_returns_tiles (hg : GridSpec.new id ny nx rx ry ox oy fx fy = .ok g) {tol : Rat}
    (ht : 0 ≤ tol) (x y b t : Rat) (hy : b + tol ≤ y ∧ y ≤ t - tol) :
    g.pt2idx id x y ∈ g.tiles id tol ⟨x, b, x, t⟩ ∧ g.pt2idx id y x ∈ g.tiles id tol ⟨b, x, t, x⟩ := by
  constructor
  · rw [tiles_mem, idx_bounds_general hg]
    exact ⟨(x, y), le_trans (min_le_right _ _) (by simp only; linarith), le_trans (by simp only; linarith) (le_max_left _ _),
      le_trans (min_le_left _ _) hy.1, le_trans hy.2 (le_max_right _ _), pt_in_its_tile hg _ _⟩
  · rw [tiles_mem, idx_bounds_general hg]
    exact ⟨(y, x), le_trans (min_le_left _ _) hy.1, le_trans hy.2 (le_max_right _ _),
      le_trans (min_le_right _ _) (by simp only; linarith), le_trans (by simp only; linarith) (le_max_left _ _),
      pt_in_its_tile hg _ _⟩

/-! ### multi-part query geometries -/

/-- `tiles_from_geopolygon` of a multi-part geometry: ONE scan over the bounding box of the whole geometry; a tile
    is returned iff it is in that scan and NOT disjoint from at least one part — whatever the order of the parts —
    and it is returned exactly once.  An empty geometry is rejected (`ValueError`). -/
theorem multipart_query (fl : Rnd) (tol : Rat) (g : GridSpec) (parts : List (BBox × (GeoBox → Bool))) :
    (parts = [] → g.tilesFromMulti fl tol parts = .error .valueError) ∧
    (∀ q, hullBBox (parts.map (·.1)) = some q →
      ∃ l, g.tilesFromMulti fl tol parts = .ok l ∧ l.Nodup ∧
        ∀ k, k ∈ l ↔ (k ∈ g.tiles fl tol q ∧ ∃ p ∈ parts, p.2 (g.tileGeobox fl k) = false)) := by
  constructor
  · rintro rfl; rfl
  · intro q hq
    unfold GridSpec.tilesFromMulti
    rw [hq]
    refine ⟨_, rfl, ?_, fun k => ?_⟩
    · unfold GridSpec.tilesFromPolygon
      apply List.Nodup.filter
      -- the scan itself has no duplicates (any rounding function)
      unfold GridSpec.tiles
      rw [List.nodup_flatMap]
      refine ⟨fun iy _ => List.Nodup.map (fun i j h => by simpa using h) (rangeI_nodup _ _), ?_⟩
      apply List.Pairwise.imp_of_mem _ (rangeI_nodup _ _)
      intro a b _ _ hab
      simp only [Function.onFun, List.disjoint_left, List.mem_map]
      rintro k ⟨i, _, rfl⟩ ⟨j, _, h⟩
      exact hab (by simpa using (congrArg Prod.snd h).symm)
    · unfold GridSpec.tilesFromPolygon
      simp only [List.mem_filter, Bool.not_eq_true', List.all_eq_false]
      constructor
      · rintro ⟨h1, p, hp, h2⟩
        exact ⟨h1, p, hp, by simpa using h2⟩
      · rintro ⟨h1, p, hp, h2⟩
        exact ⟨h1, p, hp, by simp [h2]⟩

/-- the hull of the parts' bounds contains every part's bounds -/
theorem hull_contains_parts (qs : List BBox) (q : BBox) (hq : hullBBox qs = some q) :
    ∀ p ∈ qs, q.left ≤ p.left ∧ q.bottom ≤ p.bottom ∧ p.right ≤ q.right ∧ p.top ≤ q.top := by
  cases qs with
  | nil => simp [hullBBox] at hq
  | cons q0 rest =>
    simp only [hullBBox, Option.some.injEq] at hq
    subst hq
    -- generalise the accumulator of the fold
    have key : ∀ (l : List BBox) (h0 : BBox),
        (let r := l.foldl (fun h p => (⟨min h.left p.left, min h.bottom p.bottom, max h.right p.right, max h.top p.top⟩ : BBox)) h0
         (r.left ≤ h0.left ∧ r.bottom ≤ h0.bottom ∧ h0.right ≤ r.right ∧ h0.top ≤ r.top) ∧
          ∀ p ∈ l, r.left ≤ p.left ∧ r.bottom ≤ p.bottom ∧ p.right ≤ r.right ∧ p.top ≤ r.top) := by
      intro l
      induction l with
      | nil => intro h0; simp
      | cons a l ih =>
        intro h0
        have := ih ⟨min h0.left a.left, min h0.bottom a.bottom, max h0.right a.right, max h0.top a.top⟩
        simp only [List.foldl_cons] at this ⊢
        obtain ⟨⟨a1, a2, a3, a4⟩, hall⟩ := this
        refine ⟨⟨le_trans a1 (min_le_left _ _), le_trans a2 (min_le_left _ _), le_trans (le_max_left _ _) a3,
          le_trans (le_max_left _ _) a4⟩, ?_⟩
        intro p hp
        rcases List.mem_cons.mp hp with rfl | hp
        · exact ⟨le_trans a1 (min_le_right _ _), le_trans a2 (min_le_right _ _), le_trans (le_max_right _ _) a3,
            le_trans (le_max_right _ _) a4⟩
        · exact hall p hp
    intro p hp
    obtain ⟨h0, hall⟩ := key rest q0
    rcases List.mem_cons.mp hp with rfl | hp
    · exact h0
    · exact hall p hp

/-- Soundness and completeness of the multi-part query under the per-part contract of `disjoint`
    (`P p` is the point set of part `p`): a returned tile's closed footprint contains a point of SOME part; and the
    tile of any point of ANY part lying at least `tol` inside the overall bounding box is returned. -/
theorem multipart_query_sound_complete (hg : GridSpec.new id ny nx rx ry ox oy fx fy = .ok g) (tol : Rat)
    (parts : List (BBox × (GeoBox → Bool))) (P : (BBox × (GeoBox → Bool)) → Rat × Rat → Prop)
    (hdj : ∀ p ∈ parts, ∀ gb, p.2 gb = true ↔ ¬ ∃ pt, P p pt ∧ gb.covers pt)
    (q : BBox) (hq : hullBBox (parts.map (·.1)) = some q) (l : List (Int × Int))
    (hl : g.tilesFromMulti id tol parts = .ok l) :
    (∀ k ∈ l, ∃ p ∈ parts, ∃ pt, P p pt ∧ (g.footprint k).memClosed pt) ∧
    (q.left + tol ≤ q.right - tol → q.bottom + tol ≤ q.top - tol →
      ∀ p ∈ parts, ∀ pt, P p pt →
        q.left + tol ≤ pt.1 ∧ pt.1 ≤ q.right - tol ∧ q.bottom + tol ≤ pt.2 ∧ pt.2 ≤ q.top - tol →
        g.pt2idx id pt.1 pt.2 ∈ l) := by
  have hall : ∀ gb, (parts.all (fun p => p.2 gb)) = true ↔ ¬ ∃ pt, (∃ p ∈ parts, P p pt) ∧ gb.covers pt := by
    intro gb
    rw [List.all_eq_true]
    constructor
    · rintro h ⟨pt, ⟨p, hp, hP⟩, hc⟩
      exact ((hdj p hp gb).mp (h p hp)) ⟨pt, hP, hc⟩
    · intro h p hp
      rw [hdj p hp gb]
      rintro ⟨pt, hP, hc⟩
      exact h ⟨pt, ⟨p, hp, hP⟩, hc⟩
  unfold GridSpec.tilesFromMulti at hl
  rw [hq] at hl
  cases hl
  constructor
  · intro k hk
    obtain ⟨pt, ⟨p, hp, hP⟩, hc⟩ := polygon_query_sound hg tol q (fun pt => ∃ p ∈ parts, P p pt) _ hall k hk
    exact ⟨p, hp, pt, hP, hc⟩
  · intro hx hy p hp pt hP hin
    exact polygon_query_complete hg tol q (fun pt => ∃ p ∈ parts, P p pt) _ hall hx hy pt ⟨p, hp, hP⟩ hin

/-! ### `__eq__` -/

/-- `gs1 == gs2` (same CRS) holds exactly when the two grids have the same tile shape and the same footprint for
    every tile index — equality characterises the TILING. -/
theorem gridspec_eq_iff_same_tiling {ny' nx' : Int} {rx' ry' ox' oy' : Rat} {fx' fy' : Bool} {h : GridSpec}
    (hg : GridSpec.new id ny nx rx ry ox oy fx fy = .ok g)
    (hh : GridSpec.new id ny' nx' rx' ry' ox' oy' fx' fy' = .ok h) :
    g.beq h true = true ↔ (g.ny = h.ny ∧ g.nx = h.nx ∧ ∀ k, g.footprint k = h.footprint k) := by
  obtain ⟨_, wg⟩ := GridSpec.new_ok hg
  obtain ⟨_, wh⟩ := GridSpec.new_ok hh
  unfold GridSpec.beq
  simp only [Bool.and_true, Bool.and_eq_true, decide_eq_true_eq]
  constructor
  · rintro ⟨⟨⟨h1, h2⟩, hy⟩, hx⟩
    refine ⟨h1, h2, fun k => ?_⟩
    rw [GridSpec.footprint_eq g wg, GridSpec.footprint_eq h wh, hx, hy]
  · rintro ⟨h1, h2, hf⟩
    have f0 := hf (0, 0)
    have f1 := hf (1, 1)
    rw [GridSpec.footprint_eq g wg, GridSpec.footprint_eq h wh] at f0 f1
    simp only [BBox.mk.injEq, Bin1D.lo_id, Bin1D.hi_id] at f0 f1
    obtain ⟨a0, b0, c0, d0⟩ := f0
    obtain ⟨a1, b1, _, _⟩ := f1
    push_cast at a0 b0 c0 d0 a1 b1
    have ex : g.xbin = h.xbin := by
      apply Bin1D.eq_of_bins _ _ wg.x <;> simp only [Bin1D.lo_id, Bin1D.hi_id] <;> push_cast <;> assumption
    have ey : g.ybin = h.ybin := by
      apply Bin1D.eq_of_bins _ _ wg.y <;> simp only [Bin1D.lo_id, Bin1D.hi_id] <;> push_cast <;> assumption
    exact ⟨⟨⟨h1, h2⟩, ey⟩, ex⟩

/-- `__eq__` ignores the SIGN of the resolution: `GridSpec((10,10), (0.5,-0.5)) == GridSpec((10,10), (-0.5,-0.5))`
    although their tile GeoBoxes differ (mirrored pixel order).  Replayed on the real code by the harness
    (`a == b` is `True`, `a[0,0] == b[0,0]` is `False`).  Equality is not part of C14's statement; recorded as an
    observation (equal values that behave differently). -/
theorem gridspec_eq_ignores_resolution_sign :
    ∃ g h, GridSpec.new id 10 10 (1 / 2) (-1 / 2) 0 0 false false = .ok g ∧
      GridSpec.new id 10 10 (-1 / 2) (-1 / 2) 0 0 false false = .ok h ∧
      g.beq h true = true ∧ g.tileGeobox id (0, 0) ≠ h.tileGeobox id (0, 0) := by
  have hg := GridSpec.new_eq_ok (ny := 10) (nx := 10) (rx := 1 / 2) (ry := -1 / 2) 0 0 false false
    (by norm_num [rabs]) (by norm_num [rabs])
  have hh := GridSpec.new_eq_ok (ny := 10) (nx := 10) (rx := -1 / 2) (ry := -1 / 2) 0 0 false false
    (by norm_num [rabs]) (by norm_num [rabs])
  refine ⟨_, _, hg, hh, ?_, ?_⟩
  · unfold GridSpec.beq
    simp only [Bool.and_true, Bool.and_eq_true, decide_eq_true_eq, Bin1D.mk.injEq, and_true, true_and]
    norm_num [rabs]
  · intro he
    have := congrArg (fun gb => gb.aff.a) he
    simp only [GridSpec.tileGeobox] at this
    norm_num at this

/-! ### `alignment` -/

/-- `GridSpec.alignment` is defined for every constructed grid, lies in `[0, |res|)` per axis, and is the offset of
    EVERY pixel edge of EVERY tile from the multiples of the pixel size: the left edge of pixel column `c` of tile
    `k` is `n·|rx| + alignment.x` for an integer `n` (same for rows). -/
theorem alignment_spec (hg : GridSpec.new id ny nx rx ry ox oy fx fy = .ok g) :
    ∃ ax ay, g.alignment id = .ok (ax, ay) ∧ 0 ≤ ax ∧ ax < rabs rx ∧ 0 ≤ ay ∧ ay < rabs ry ∧
      (∀ k c : Int, ∃ n : Int, g.xbin.lo id k + (c : Rat) * rabs rx = (n : Rat) * rabs rx + ax) ∧
      (∀ k c : Int, ∃ n : Int, g.ybin.lo id k + (c : Rat) * rabs ry = (n : Rat) * rabs ry + ay) := by
  obtain ⟨e, w⟩ := GridSpec.new_ok hg
  have hnx := GridSpec.n_pos_of_sz (by have := w.x.sz_pos; rw [w.szx, e] at this; exact this : 0 < (nx : Rat) * rabs rx)
  have hny := GridSpec.n_pos_of_sz (by have := w.y.sz_pos; rw [w.szy, e] at this; exact this : 0 < (ny : Rat) * rabs ry)
  have hrx : 0 < rabs rx := by
    have := w.x.sz_pos; rw [w.szx, e] at this
    exact GridSpec.rabs_pos_of_sz this
  have hry : 0 < rabs ry := by
    have := w.y.sz_pos; rw [w.szy, e] at this
    exact GridSpec.rabs_pos_of_sz this
  obtain ⟨ax, hax, ax0, ax1, nxo, hxo⟩ := pyFloatMod_pos (a := ox) hrx
  obtain ⟨ay, hay, ay0, ay1, nyo, hyo⟩ := pyFloatMod_pos (a := oy) hry
  refine ⟨ax, ay, ?_, ax0, ax1, ay0, ay1, ?_, ?_⟩
  · subst e
    simp only [GridSpec.alignment, hay, hax]
    rfl
  · intro k c
    refine ⟨k * nx * g.xbin.dir + c + nxo, ?_⟩
    rw [Bin1D.lo_id, w.szx]
    subst e
    simp only
    push_cast
    rw [hxo]; ring
  · intro k c
    refine ⟨k * ny * g.ybin.dir + c + nyo, ?_⟩
    rw [Bin1D.lo_id, w.szy]
    subst e
    simp only
    push_cast
    rw [hyo]; ring

/-! ### `geojson` index walk -/

/-- `geojson(bbox=…, geopolygon=…)` emits the tiles of the polygon query when a geopolygon is given (the bbox
    argument is then ignored), otherwise those of the bbox query, in query order, each index once. -/
theorem geojson_index_walk (fl : Rnd) (tol : Rat) (g : GridSpec) (q q' : BBox) (dj : GeoBox → Bool) :
    g.geojsonIdx fl tol (some q') (some (q, dj)) = some (g.tilesFromPolygon fl tol q dj) ∧
    g.geojsonIdx fl tol none (some (q, dj)) = some (g.tilesFromPolygon fl tol q dj) ∧
    g.geojsonIdx fl tol (some q) none = some (g.tiles fl tol q) :=
  ⟨rfl, rfl, rfl⟩

/-! ### `from_sample_tile`: the two axes are independent (non-square pixels) -/

/-- the rebuilt grid takes its x tile size / pixel size from the sample's WIDTH and its y tile size / pixel size from
    the sample's HEIGHT, independently (pixels need not be square) -/
theorem from_sample_tile_axes_independent (q : BBox) {ny nx : Int} (ix iy : Int) (fx fy : Bool)
    (hx : q.left < q.right) (hy : q.bottom < q.top) (hnx : 0 < nx) (hny : 0 < ny) :
    ∃ g', GridSpec.fromSampleTile id q ny nx ix iy fx fy = .ok g' ∧
      g'.xbin.sz = q.right - q.left ∧ g'.ybin.sz = q.top - q.bottom ∧
      g'.rx * (nx : Rat) = q.right - q.left ∧ -g'.ry * (ny : Rat) = q.top - q.bottom := by
  obtain ⟨g', h, _, _, _, h3, h4, h5, h6⟩ := GridSpec.fromSampleTile_spec ix iy fx fy hx hy hnx hny
  have hnx' : (nx : Rat) ≠ 0 := by exact_mod_cast hnx.ne'
  have hny' : (ny : Rat) ≠ 0 := by exact_mod_cast hny.ne'
  refine ⟨g', h, by rw [h5], by rw [h6], ?_, ?_⟩
  · rw [h3]; field_simp
  · rw [h4]; field_simp

example : ∃ g', GridSpec.fromSampleTile id ⟨0, 0, 12, 5⟩ 10 3 0 0 false false = .ok g' ∧ g'.rx = 4 ∧ g'.ry = -1 / 2 := by
  obtain ⟨g', h, _, _, _, _, _, h7, h8⟩ := from_sample_tile_sample ⟨0, 0, 12, 5⟩ (ny := 10) (nx := 3) 0 0 false false
    (by norm_num) (by norm_num) (by norm_num) (by norm_num)
  exact ⟨g', h, by rw [h7]; norm_num, by rw [h8]; norm_num⟩

end growth

/-! ## E-mode ↔ F-mode: the exact theorems transfer to any rounding function that leaves the intermediates alone

`fl` is arbitrary (in particular binary64 `fl64`).  Each lemma lists exactly the intermediate values of the
corresponding Python expression; if `fl` fixes them (they are representable), the rounded model coincides with the
exact one, hence every theorem above applies verbatim to what the real code computes in doubles.  What is NOT proved:
a closed-form representability criterion for `fl64` (`fl64 (m·2^e) = m·2^e` for `|m| < 2^53`); representability of
concrete values is discharged by kernel evaluation (examples below) and checked for whole input streams by the
harness (E and F lines of the same input must both equal the real code). -/

section transfer
variable (fl : Rnd)

/-- `Bin1D.__getitem__`: `idx*sz`, `·*direction`, `·+origin`, `·+sz` -/
theorem bin_interval_transfer (b : Bin1D) (k : Int)
    (h1 : fl ((k : Rat) * b.sz) = (k : Rat) * b.sz)
    (h2 : fl ((k : Rat) * b.sz * (b.dir : Rat)) = (k : Rat) * b.sz * (b.dir : Rat))
    (h3 : fl ((k : Rat) * b.sz * (b.dir : Rat) + b.origin) = (k : Rat) * b.sz * (b.dir : Rat) + b.origin)
    (h4 : fl ((k : Rat) * b.sz * (b.dir : Rat) + b.origin + b.sz) = (k : Rat) * b.sz * (b.dir : Rat) + b.origin + b.sz) :
    b.lo fl k = b.lo id k ∧ b.hi fl k = b.hi id k := by
  have hlo : b.lo fl k = b.lo id k := by
    unfold Bin1D.lo
    simp only [id]
    rw [h1, h2, h3]
  refine ⟨hlo, ?_⟩
  unfold Bin1D.hi
  rw [hlo]
  simp only [id, Bin1D.lo_id]
  exact h4

/-- `Bin1D.bin`: only the FLOOR of the rounded quotient matters -/
theorem bin_transfer (b : Bin1D) (x : Rat)
    (h : (fl (fl (x - b.origin) / b.sz)).floor = ((x - b.origin) / b.sz).floor) :
    b.bin fl x = b.bin id x := by
  unfold Bin1D.bin
  simp only [id]
  rw [h]

/-- the 1-D membership theorem for the ROUNDED model: if the quotient's floor and the edges of the bin found are
    not disturbed by `fl`, the point lies in the bin that the rounded lookup returns -/
theorem bin_mem_transfer {sz o : Rat} {d : Int} {b : Bin1D} (hb : Bin1D.new sz o d = .ok b) (x : Rat)
    (hq : (fl (fl (x - b.origin) / b.sz)).floor = ((x - b.origin) / b.sz).floor)
    (hlo : b.lo fl (b.bin fl x) = b.lo id (b.bin fl x)) (hhi : b.hi fl (b.bin fl x) = b.hi id (b.bin fl x)) :
    b.lo fl (b.bin fl x) ≤ x ∧ x < b.hi fl (b.bin fl x) := by
  rw [hlo, hhi, bin_transfer fl b x hq]
  exact (bin_mem hb x _).mp rfl

/-- `GridSpec.__init__`: if the two products `shape × |resolution|` are representable the rounded constructor
    builds the same grid as the exact one -/
theorem gridspec_new_transfer (ny nx : Int) (rx ry ox oy : Rat) (fx fy : Bool)
    (hx : fl ((nx : Rat) * rabs rx) = (nx : Rat) * rabs rx) (hy : fl ((ny : Rat) * rabs ry) = (ny : Rat) * rabs ry) :
    GridSpec.new fl ny nx rx ry ox oy fx fy = GridSpec.new id ny nx rx ry ox oy fx fy := by
  unfold GridSpec.new
  simp only [id]
  rw [hx, hy]

/-- point lookup and tile GeoBox of the rounded model equal the exact ones under per-axis exactness -/
theorem pt2idx_tile_transfer (g : GridSpec) (x y : Rat) (k : Int × Int)
    (hqx : (fl (fl (x - g.xbin.origin) / g.xbin.sz)).floor = ((x - g.xbin.origin) / g.xbin.sz).floor)
    (hqy : (fl (fl (y - g.ybin.origin) / g.ybin.sz)).floor = ((y - g.ybin.origin) / g.ybin.sz).floor)
    (hxl : g.xbin.lo fl k.1 = g.xbin.lo id k.1) (hxh : g.xbin.hi fl k.1 = g.xbin.hi id k.1)
    (hyl : g.ybin.lo fl k.2 = g.ybin.lo id k.2) (hyh : g.ybin.hi fl k.2 = g.ybin.hi id k.2) :
    g.pt2idx fl x y = g.pt2idx id x y ∧ g.tileGeobox fl k = g.tileGeobox id k := by
  constructor
  · unfold GridSpec.pt2idx
    rw [bin_transfer fl g.xbin x hqx, bin_transfer fl g.ybin y hqy]
  · unfold GridSpec.tileGeobox GridSpec.tileTxy
    simp only [hxl, hxh, hyl, hyh]

/-- `idx_bounds` of the rounded model equals the exact one if the four probe coordinates `x ± tol` are representable
    and their lookups are undisturbed -/
theorem idx_bounds_transfer (tol : Rat) (g : GridSpec) (q : BBox)
    (h1 : fl (q.left + tol) = q.left + tol) (h2 : fl (q.bottom + tol) = q.bottom + tol)
    (h3 : fl (q.right - tol) = q.right - tol) (h4 : fl (q.top - tol) = q.top - tol)
    (hp1 : g.pt2idx fl (q.left + tol) (q.bottom + tol) = g.pt2idx id (q.left + tol) (q.bottom + tol))
    (hp2 : g.pt2idx fl (q.right - tol) (q.top - tol) = g.pt2idx id (q.right - tol) (q.top - tol)) :
    g.idxBounds fl tol q = g.idxBounds id tol q ∧ g.tiles fl tol q = g.tiles id tol q := by
  have : g.idxBounds fl tol q = g.idxBounds id tol q := by
    unfold GridSpec.idxBounds
    simp only [id]
    rw [h1, h2, h3, h4, hp1, hp2]
  refine ⟨this, ?_⟩
  unfold GridSpec.tiles
  rw [this]

/-- binary64 leaves typical exact-stream values alone and rounds others (kernel evaluation of `fl64`) -/
example : fl64 (5 / 2) = 5 / 2 ∧ fl64 (-4416000 + 37 * 96000) = -4416000 + 37 * 96000 ∧ fl64 (1 / 3) ≠ 1 / 3 := by
  decide +kernel

/-- the hypotheses of `bin_interval_transfer` hold for binary64 on a DEA-like binning (96 km tiles from -4416000) -/
example : let b : Bin1D := ⟨96000, -4416000, 1⟩
    b.lo fl64 37 = b.lo id 37 ∧ b.hi fl64 37 = b.hi id 37 := by
  decide +kernel

end transfer

/-! ## composition with neighbouring models (imported read-only) -/

section links

/-- this model's binning as the `Bin1D` of the C20 model (numeric helpers) -/
def toC20 (b : Bin1D) : C20.Bin1D := ⟨b.sz, b.origin, b.dir⟩

/-- C20's `Bin1D` model and this one are the same functions (constructor, interval, lookup, from_sample_bin) -/
theorem c20_bin1d_agrees (b : Bin1D) (k : Int) (x : Rat) (sz o : Rat) (d : Int) (idx : Int) (x0 x1 : Rat) :
    C20.Bin1D.interval (toC20 b) k = (b.lo id k, b.hi id k) ∧ C20.Bin1D.bin (toC20 b) x = b.bin id x ∧
    (C20.Bin1D.mk? sz o d).map (fun c => (⟨c.sz, c.origin, c.direction⟩ : Bin1D)) = Bin1D.new sz o d ∧
    (C20.Bin1D.fromSampleBin idx x0 x1 d).map (fun c => (⟨c.sz, c.origin, c.direction⟩ : Bin1D)) =
      Bin1D.fromSampleBin id idx x0 x1 d := by
  refine ⟨rfl, rfl, ?_, ?_⟩
  · unfold C20.Bin1D.mk? Bin1D.new
    split <;> [rfl; (split <;> rfl)]
  · unfold C20.Bin1D.fromSampleBin Bin1D.fromSampleBin C20.Bin1D.mk? Bin1D.new
    simp only [id]
    split <;> [rfl; (split <;> [rfl; (split <;> rfl)])]

/-- hence C14's membership theorem holds for the C20 model: `bin x = k ↔ interval(k)[0] ≤ x < interval(k)[1]` -/
theorem c20_bin_mem {sz o : Rat} {d : Int} {c : C20.Bin1D} (hc : C20.Bin1D.mk? sz o d = .ok c) (x : Rat) (k : Int) :
    C20.Bin1D.bin c x = k ↔ (C20.Bin1D.interval c k).1 ≤ x ∧ x < (C20.Bin1D.interval c k).2 := by
  have h := (c20_bin1d_agrees ⟨c.sz, c.origin, c.direction⟩ k x sz o d 0 0 0).2.2.1
  rw [hc] at h
  have hb : Bin1D.new sz o d = .ok ⟨c.sz, c.origin, c.direction⟩ := h.symm
  exact bin_mem hb x k

/-- a tile GeoBox of this model as a `GeoBox` of the C02 model (GeoBox views), with CRS tag `crs` -/
def toC02 (gb : GeoBox) (crs : Nat) : C02.GeoBox := ⟨gb.ny, gb.nx, gb.aff, crs⟩

/-- End-to-end link with C02: every tile of a grid, looked at through C02's GeoBox model, is a scale+translate
    GeoBox whose `resolution` is exactly the grid's signed resolution, whose `boundingbox` is the bin rectangle
    and whose `extent` ring is the tile's footprint ring. -/
theorem c02_tile_view {ny nx : Int} {rx ry ox oy : Rat} {fx fy : Bool} {g : GridSpec}
    (hg : GridSpec.new id ny nx rx ry ox oy fx fy = .ok g) (k : Int × Int) (crs : Nat) (n m : Rat) :
    C02.resolution (toC02 (g.tileGeobox id k) crs) n m = .ok (rx, ry) ∧
    (let b := C02.boundingbox (toC02 (g.tileGeobox id k) crs)
     (b.left, b.bottom, b.right, b.top) =
       (g.xbin.lo id k.1, g.ybin.lo id k.2, g.xbin.hi id k.1, g.ybin.hi id k.2)) ∧
    C02.extent (toC02 (g.tileGeobox id k) crs) =
      (g.tileGeobox id k).extentPts id ++ [(g.tileGeobox id k).aff.apply (0, 0)] := by
  obtain ⟨e, w⟩ := GridSpec.new_ok hg
  have hf := GridSpec.footprint_eq g w k
  refine ⟨?_, ?_, ?_⟩
  · have ht : (0 : Rat) < C02.tolST := by decide +kernel
    have hst : C02.isAffineST (toC02 (g.tileGeobox id k) crs).A = true := by
      unfold C02.isAffineST toC02 GridSpec.tileGeobox
      simp [C02.rabs, ht]
    unfold C02.resolution
    rw [if_pos hst]
    subst e
    rfl
  · unfold GridSpec.footprint GeoBox.bbox applyF at hf
    simp only [id] at hf
    unfold C02.boundingbox C02.min4 C02.max4 toC02 Aff.apply
    simp only
    have e1 := congrArg BBox.left hf
    have e2 := congrArg BBox.bottom hf
    have e3 := congrArg BBox.right hf
    have e4 := congrArg BBox.top hf
    simp only at e1 e2 e3 e4
    simp only [mul_comm (g.tileGeobox id k).aff.a, mul_comm (g.tileGeobox id k).aff.b,
      mul_comm (g.tileGeobox id k).aff.d, mul_comm (g.tileGeobox id k).aff.e]
    rw [← e1, ← e2, ← e3, ← e4]
    simp only [Prod.mk.injEq]
    refine ⟨?_, ?_, ?_, ?_⟩ <;> simp only [min_assoc, max_assoc]
  · unfold C02.extent C02.corners toC02 GeoBox.extentPts applyF Aff.apply
    simp only [id, List.map_cons, List.map_nil, List.cons_append, List.nil_append, List.cons.injEq, Prod.mk.injEq,
      and_true]
    refine ⟨⟨?_, ?_⟩, ⟨?_, ?_⟩, ⟨?_, ?_⟩, ?_, ?_⟩ <;> ring

end links

/-! ## non-vacuity of the hypotheses used above -/

example : ∃ g, GridSpec.new id 2 3 (-3 / 4) (1 / 4) (-3 / 4) (5 / 2) true false = .ok g :=
  (gridspec_new_ok_iff _ _ _ _ _ _ _ _).mpr ⟨by norm_num [rabs], by norm_num [rabs]⟩

example : ∃ g', GridSpec.fromSampleTile id ⟨0, 0, 5, 5⟩ 10 10 2 3 true false = .ok g' := by
  obtain ⟨g', h, _⟩ := from_sample_tile_sample ⟨0, 0, 5, 5⟩ (ny := 10) (nx := 10) 2 3 true false
    (by norm_num) (by norm_num) (by norm_num) (by norm_num)
  exact ⟨g', h⟩

/-- a box query of tile size satisfies the width hypothesis of `idx_bounds_exact` for the real tolerance -/
example : (0 : Rat) + tol8 ≤ 5 - tol8 := by norm_num [tol8]

/-- the `disjoint` contract of the polygon theorems is satisfiable for every point set -/
example (poly : Rat × Rat → Prop) :
    ∃ dj : GeoBox → Bool, ∀ gb, dj gb = true ↔ ¬ ∃ p, poly p ∧ gb.covers p := by
  classical
  exact ⟨fun gb => decide (¬ ∃ p, poly p ∧ gb.covers p), fun gb => by simp⟩

end OdcGeo.C14
