/-
C18 ∘ C06 — the multi-part assembly of `_mpu.py` (C06) driving the file sink of `_mpu_fs.py` (C18).

`C06.main` is stated about an abstract writer: it lists the calls `write(part, data)` made anywhere in
the dask graph (`wsAll`) and the list handed to `write.finalise` (`fp`), and proves that the part
numbers lie in `[min_part, max_part]`, are distinct, and that `fp` concatenates to
header ++ stream ++ footer.  Those are exactly the hypotheses of the C18 sink contract
(`sink_finalise_concat` / `sink_finalise_cleanup`: distinct listed parts that were all written, every
file of the parts directory listed), so the two compose: the FILE the sink leaves is
header ++ stream ++ footer and its temporary parts are gone — for every merge tree (= every dask fold /
collate shape and execution order), every spill size, with or without header / footer callbacks.
-/
import OdcGeo.Props.C06
import OdcGeo.Props.C18
import OdcGeo.Lemmas.C18C06
import OdcGeo.Props.C18Up

set_option linter.unusedVariables false
set_option linter.unusedSimpArgs false

namespace OdcGeo.C18
open OdcGeo

/-- **mpu_write_to_file_sink**: for every merge tree `t` over the chunk stream (any dask fold /
collate shape and execution order), any spill size, any header / footer callbacks, a writer `W`
with enough part numbers: the run succeeds, every writer call uses a part number within
`[min_part, max_part]`, and when exactly those calls are performed on the C18 file sink (in the
order they were made) and the sink is finalised with the list C06 hands to `finalise`, the
finalisation succeeds, the destination file is header ++ stream ++ footer, and the parts
directory with all part files is gone. -/
theorem mpu_write_to_file_sink (W : C06.Writer) (spill wpc : Nat) (t : C06.Tree Nat)
    (mkHdr mkFtr : Option (List (Nat × Int) → List Nat))
    (hne : t.NonEmpty) (hcap : W.minPart + 1 + t.leaves * wpc ≤ W.maxPart + 1) :
    ∃ wsF fp wsAll,
      C06.run ⟨some W, spill, wpc, mkFtr.isNone⟩ t mkHdr mkFtr = .ok (.written wsF fp, wsAll, t.obs) ∧
      (∀ p ∈ wsAll, W.minPart ≤ p.id ∧ p.id ≤ W.maxPart) ∧
      (Sink.finalise true (sinkAfter wsAll) (fp.map (·.id)) false).2 = none ∧
      (Sink.finalise true (sinkAfter wsAll) (fp.map (·.id)) false).1.dst =
        some (C06.optBytes (mkHdr.map (fun f => f t.obs)) ++ t.bytes ++
              C06.optBytes (mkFtr.map (fun f => f t.obs))) ∧
      (Sink.finalise true (sinkAfter wsAll) (fp.map (·.id)) false).1.dirExists = false ∧
      (Sink.finalise true (sinkAfter wsAll) (fp.map (·.id)) false).1.parts = [] := by
  obtain ⟨wsF, fp, wsAll, hrun, hbytes, hpw, hrange, _, hperm⟩ := C06.main W spill wpc t mkHdr mkFtr hne hcap
  refine ⟨wsF, fp, wsAll, hrun, ?_, ?_⟩
  · intro p hp; exact hrange p (hperm.mem_iff.1 hp)
  -- part numbers handed to finalise are distinct, hence so are the ones written
  have hfpnd : (fp.map (·.id)).Nodup := by
    rw [List.Nodup, List.pairwise_map]
    exact hpw.imp (fun h => Nat.ne_of_lt h)
  have hwsnd : (wsAll.map (·.id)).Nodup := (hperm.map (·.id)).nodup_iff.2 hfpnd
  have hkeys : ((wsAll.map (fun p => (p.id, p.data))).map (·.1)) = wsAll.map (·.id) := by
    simp [List.map_map, Function.comp]
  have hnd' : ((wsAll.map (fun p => (p.id, p.data))).map (·.1)).Nodup := by rw [hkeys]; exact hwsnd
  have hfpne : fp ≠ [] := run_final_parts_ne _ t mkHdr mkFtr wsF fp wsAll t.obs hrun
  -- the content function: data of the part with that number
  let tbl := fp.map (fun p => (p.id, p.data))
  let f : Nat → Bytes := fun i => match tbl.lookup i with | some d => d | none => []
  have htblnd : (tbl.map (·.1)).Nodup := by
    have : tbl.map (·.1) = fp.map (·.id) := by simp [tbl, List.map_map, Function.comp]
    rw [this]; exact hfpnd
  have hf : ∀ p ∈ fp, f p.id = p.data := by
    intro p hp
    have := Sink.assoc_lookup tbl htblnd (p.id, p.data) (List.mem_map.2 ⟨p, hp, rfl⟩)
    simp only [f, this]
  have hw : ∀ i ∈ fp.map (·.id), (sinkAfter wsAll).lookup i = some (f i) := by
    intro i hi
    obtain ⟨p, hp, rfl⟩ := List.mem_map.1 hi
    have hpw' : p ∈ wsAll := hperm.mem_iff.2 hp
    rw [sinkAfter_eq]
    have := Sink.lookup_foldl_write (wsAll.map (fun p => (p.id, p.data))) hnd' {} (p.id, p.data)
      (List.mem_map.2 ⟨p, hpw', rfl⟩)
    rw [this, hf p hp]
  have hall : ∀ q ∈ (sinkAfter wsAll).parts, q.1 ∈ fp.map (·.id) := by
    intro q hq
    rw [sinkAfter_eq] at hq
    rcases Sink.keys_foldl_write _ {} q hq with h | h
    · rw [hkeys] at h
      exact (hperm.map (·.id)).mem_iff.1 h
    · simp at h
  have hne' : fp.map (·.id) ≠ [] := by simpa using hfpne
  have h1 := sink_finalise_concat (sinkAfter wsAll) (fp.map (·.id)) false f hne' hfpnd hw
  have h2 := sink_finalise_cleanup (sinkAfter wsAll) (fp.map (·.id)) f hne' hfpnd hw hall
  refine ⟨h2.1, ?_, h2.2.1, h2.2.2⟩
  rw [h1.1, ← hbytes, List.flatMap_map]
  simp only [C06.partsBytes, List.flatMap_def]
  exact congrArg (fun l => some (List.flatten l)) (List.map_congr_left (fun p hp => hf p hp))

/-- The same for an `MPUFileSink(dst, **kw)` with its configured limits as the writer C06 reads:
the header part number is the sink's `min_part`, all part numbers stay within the sink's
`[min_part, max_part]` (e.g. the defaults 1 … 10000). -/
theorem mpu_write_to_configured_file_sink (kw : LimitKw) (spill wpc : Nat) (t : C06.Tree Nat)
    (mkHdr mkFtr : Option (List (Nat × Int) → List Nat)) (hne : t.NonEmpty)
    (hcap : (sinkWriter kw).minPart + 1 + t.leaves * wpc ≤ (sinkWriter kw).maxPart + 1) :
    ∃ wsF fp wsAll,
      C06.run ⟨some (sinkWriter kw), spill, wpc, mkFtr.isNone⟩ t mkHdr mkFtr =
        .ok (.written wsF fp, wsAll, t.obs) ∧
      (∀ p ∈ wsAll, (sinkLimit true kw .minPart).toNat ≤ p.id ∧ p.id ≤ (sinkLimit true kw .maxPart).toNat) ∧
      (Sink.finalise true (sinkAfter wsAll) (fp.map (·.id)) false).2 = none ∧
      (Sink.finalise true (sinkAfter wsAll) (fp.map (·.id)) false).1.dst =
        some (C06.optBytes (mkHdr.map (fun f => f t.obs)) ++ t.bytes ++
              C06.optBytes (mkFtr.map (fun f => f t.obs))) :=
  let ⟨wsF, fp, wsAll, h1, h2, h3, h4, _, _⟩ :=
    mpu_write_to_file_sink (sinkWriter kw) spill wpc t mkHdr mkFtr hne hcap
  ⟨wsF, fp, wsAll, h1, h2, h3, h4⟩

/-- non-vacuity: with the default limits (parts 1 … 10000) three partitions of two writes each fit -/
example : (sinkWriter {}).minPart + 1 + 3 * 2 ≤ (sinkWriter {}).maxPart + 1 := by decide

/-! ## `MultiPartUpload.upload` end to end: C06's assembly driving the lazily initialised S3 writer -/

/-- **mpu_upload_to_s3**: `MultiPartUpload.upload(chunks, mk_header, mk_footer, writes_per_chunk, spill_sz ≠ 0)`
run in-process, for every merge tree over the chunk stream (= every dask fold / collate shape and execution
order), any header / footer callbacks, with at most 10000 - 1 part numbers needed: the run succeeds; when the
writer calls it makes (in the order made) and the final `finalise` are performed by the in-process S3 writer
against a service that demands 5 MiB of every part but the last, ascending part order and known parts, then no
call fails, exactly ONE multipart upload is initiated, every `upload_part` / `complete` call carries its id,
part numbers lie in 1 … 10000, and the object the service assembles is header ++ stream ++ footer. -/
theorem mpu_upload_to_s3 (spill wpc : Nat) (t : C06.Tree Nat)
    (mkHdr mkFtr : Option (List (Nat × Int) → List Nat))
    (hs : spill ≠ 0) (hne : t.NonEmpty) (hcap : 1 + 1 + t.leaves * wpc ≤ 10000 + 1) :
    ∃ wsF fp wsAll,
      C06.run ⟨uploadWriter spill, spill, wpc, mkFtr.isNone⟩ t mkHdr mkFtr = .ok (.written wsF fp, wsAll, t.obs) ∧
      (∀ p ∈ wsAll, 1 ≤ p.id ∧ p.id ≤ 10000) ∧
      (Up.runWrites {} (wsAll.map (fun p => (p.id, p.data)))).2 = none ∧
      (Up.finalise (5 * 1024 * 1024) (Up.runWrites {} (wsAll.map (fun p => (p.id, p.data)))).1 (fp.map (·.id))).2 = none ∧
      (Up.finalise (5 * 1024 * 1024) (Up.runWrites {} (wsAll.map (fun p => (p.id, p.data)))).1 (fp.map (·.id))).1.object =
        some (C06.optBytes (mkHdr.map (fun f => f t.obs)) ++ t.bytes ++
              C06.optBytes (mkFtr.map (fun f => f t.obs))) ∧
      (Up.finalise (5 * 1024 * 1024) (Up.runWrites {} (wsAll.map (fun p => (p.id, p.data)))).1 (fp.map (·.id))).1.creates = 1 ∧
      (∀ c ∈ (Up.finalise (5 * 1024 * 1024) (Up.runWrites {} (wsAll.map (fun p => (p.id, p.data)))).1
          (fp.map (·.id))).1.calls, c.id = 1) := by
  have hW : uploadWriter spill = some ⟨5 * 1024 * 1024, 1, 10000⟩ := (upload_writer_spec spill).2 hs
  obtain ⟨wsF, fp, wsAll, hrun, hbytes, hpw, hrange, hsizes, hperm⟩ :=
    C06.main ⟨5 * 1024 * 1024, 1, 10000⟩ spill wpc t mkHdr mkFtr hne hcap
  refine ⟨wsF, fp, wsAll, by rw [hW]; exact hrun, fun p hp => hrange p (hperm.mem_iff.1 hp), ?_⟩
  have hasc : (fp.map (·.id)).Pairwise (· < ·) := by
    rw [List.pairwise_map]; exact hpw
  have hfpnd : (fp.map (·.id)).Nodup := hasc.imp (fun h => Nat.ne_of_lt h)
  have hwsnd : (wsAll.map (·.id)).Nodup := (hperm.map (·.id)).nodup_iff.2 hfpnd
  have hkeys : ((wsAll.map (fun p => (p.id, p.data))).map (·.1)) = wsAll.map (·.id) := by
    simp [List.map_map, Function.comp]
  have hnd' : ((wsAll.map (fun p => (p.id, p.data))).map (·.1)).Nodup := by rw [hkeys]; exact hwsnd
  have hfpne : fp ≠ [] := run_final_parts_ne _ t mkHdr mkFtr wsF fp wsAll t.obs hrun
  let tbl := fp.map (fun p => (p.id, p.data))
  let f : Nat → Bytes := fun i => match tbl.lookup i with | some d => d | none => []
  have htblnd : (tbl.map (·.1)).Nodup := by
    have : tbl.map (·.1) = fp.map (·.id) := by simp [tbl, List.map_map, Function.comp]
    rw [this]; exact hfpnd
  have hf : ∀ p ∈ fp, f p.id = p.data := by
    intro p hp
    have := Sink.assoc_lookup tbl htblnd (p.id, p.data) (List.mem_map.2 ⟨p, hp, rfl⟩)
    simp only [f, this]
  have hw : ∀ i ∈ fp.map (·.id), ((wsAll.map (fun p => (p.id, p.data))).foldl Up.put []).lookup i = some (f i) := by
    intro i hi
    obtain ⟨p, hp, rfl⟩ := List.mem_map.1 hi
    have hpw' : p ∈ wsAll := hperm.mem_iff.2 hp
    have := Up.lookup_foldl_put (wsAll.map (fun p => (p.id, p.data))) hnd' (p.id, p.data)
      (List.mem_map.2 ⟨p, hpw', rfl⟩)
    rw [this, hf p hp]
  have hmap : (fp.map (·.id)).map f = fp.map (·.data) := by
    rw [List.map_map]; exact List.map_congr_left (fun p hp => hf p hp)
  have hsz : ∀ b ∈ ((fp.map (·.id)).map f).dropLast, 5 * 1024 * 1024 ≤ b.length := by
    rw [hmap]
    intro b hb
    obtain ⟨p, hpm, rfl⟩ := Up.mem_dropLast_map (·.data) fp b hb
    exact hsizes p hpm
  obtain ⟨h1, h2, h3, h4, h5, _⟩ :=
    s3_writer_contract (5 * 1024 * 1024) (wsAll.map (fun p => (p.id, p.data))) (fp.map (·.id)) f
      (by simpa using hfpne) hasc hw hsz
  refine ⟨h1, h2, ?_, h4, h5⟩
  rw [h3, ← hbytes, List.flatMap_map]
  simp only [C06.partsBytes, List.flatMap_def]
  exact congrArg (fun l => some (List.flatten l)) (List.map_congr_left (fun p hp => hf p hp))

/-- **mpu_upload_without_spill**: `upload(..., spill_sz=0)` hands `mpu_write` no writer: no storage call is made
at all - no upload is initiated - and the finaliser returns the root chunk holding header ++ stream ++ footer. -/
theorem mpu_upload_without_spill (wpc : Nat) (t : C06.Tree Nat)
    (mkHdr mkFtr : Option (List (Nat × Int) → List Nat)) (hne : t.NonEmpty) :
    ∃ c, C06.run ⟨uploadWriter 0, 0, wpc, mkFtr.isNone⟩ t mkHdr mkFtr = .ok (.chunk c, [], t.obs) ∧
      c.parts = [] ∧
      c.data = C06.optBytes (mkHdr.map (fun f => f t.obs)) ++ t.bytes ++
               C06.optBytes (mkFtr.map (fun f => f t.obs)) := by
  obtain ⟨c, h1, h2, _, h4⟩ := C06.main_no_writer 0 wpc t mkHdr mkFtr hne
  exact ⟨c, by rw [(upload_writer_spec 0).1 rfl]; exact h1, h2, h4⟩

/-- non-vacuity: 100 partitions of 4 writes each fit into the S3 part numbers -/
example : 1 + 1 + 100 * 4 ≤ 10000 + 1 := by decide

end OdcGeo.C18
