/-
C13 — schedules with RE-EXECUTION: dask may run a task again (a worker died, a result was evicted, the same key appears in two
graphs computed one after the other).  The tasks of `_dask_rio_reproject` are pure, so running any tasks again — in any
order, any number of times, after any schedule — changes no block: every key keeps the value it had, and a topological
schedule followed by any re-execution of its own keys still runs to the end.
-/
import OdcGeo.Props.C13

namespace OdcGeo.C13
open OdcGeo

/-- running two schedules one after the other is running their concatenation -/
theorem runOrder_append (g : Key → Option Task) : ∀ (a b : List Key) (st : Store),
    runOrder g (a ++ b) st = (runOrder g a st).bind (runOrder g b)
  | [], b, st => by simp [runOrder]
  | k :: r, b, st => by
    simp only [List.cons_append, runOrder]
    cases h : runTask g st k with
    | none => simp
    | some st1 => simp [runOrder_append g r b st1]

/-- a schedule only adds to the store: a key that had a block still has one afterwards -/
theorem runOrder_keeps_keys (c : Cfg) (G : Gdal) (src : Img) : ∀ (order : List Key) {st st' : Store},
    StoreOk c G src st → runOrder (graph c G src) order st = some st' →
    ∀ k v, st.lookup k = some v → ∃ v', st'.lookup k = some v'
  | [], st, st', _, h, k, v, hk => by
    simp [runOrder] at h; subst h; exact ⟨v, hk⟩
  | k0 :: r, st, st', hst, h, k, v, hk => by
    unfold runOrder at h
    cases h1 : runTask (graph c G src) st k0 with
    | none => simp [h1] at h
    | some st1 =>
      simp only [h1, Option.bind_eq_bind, Option.bind_some] at h
      obtain ⟨v0, rfl, hv0⟩ := runTask_ok c G src hst h1
      have hst1 : StoreOk c G src ((k0, v0) :: st) := by
        intro k' v' hm
        simp only [List.mem_cons, Prod.mk.injEq] at hm
        rcases hm with ⟨rfl, rfl⟩ | hm
        · exact hv0
        · exact hst k' v' hm
      obtain ⟨v1, hv1⟩ := lookup_cons_isSome (k := k0) (v := v0) (st := st) (k' := k) (Or.inr ⟨v, hk⟩)
      exact runOrder_keeps_keys c G src r hst1 h k v1 hv1

/-- **Re-execution changes nothing**: after ANY schedule `o` that ran, run ANY further tasks `extra` (keys of `o` again,
other keys, repetitions, any order): every key that had a block keeps exactly that block. -/
theorem reexecution_same_blocks (c : Cfg) (G : Gdal) (src : Img) (o extra : List Key) (st st' : Store)
    (h1 : runOrder (graph c G src) o [] = some st)
    (h2 : runOrder (graph c G src) (o ++ extra) [] = some st')
    (k : Key) (v : Img) (hk : st.lookup k = some v) : st'.lookup k = some v := by
  rw [runOrder_append, h1] at h2
  simp only [Option.bind_some] at h2
  have hst : StoreOk c G src st := runOrder_ok c G src o (st := []) (fun _ _ h => by simp at h) h1
  obtain ⟨v', hv'⟩ := runOrder_keeps_keys c G src extra hst h2 k v hk
  have hst' : StoreOk c G src st' := runOrder_ok c G src extra hst h2
  have e1 := hst k v (lookup_mem hk)
  have e2 := hst' k v' (lookup_mem hv')
  rw [e1] at e2
  rw [hv']
  exact e2.symm ▸ rfl

/-- readiness only grows with the set of finished tasks -/
theorem ready_mono (c : Cfg) (done done' : List Key) (hsub : ∀ k ∈ done, k ∈ done') (k : Key)
    (h : Ready c done k) : Ready c done' k := by
  cases k with
  | src i => exact h
  | dst i => exact ⟨h.1, h.2.1, fun j hj => hsub _ (h.2.2 j hj)⟩

theorem validOrder_mono (c : Cfg) : ∀ (order done done' : List Key), (∀ k ∈ done, k ∈ done') →
    ValidOrder c done order → ValidOrder c done' order
  | [], _, _, _, _ => trivial
  | k :: r, done, done', hsub, h => by
    refine ⟨ready_mono c done done' hsub k h.1, validOrder_mono c r (k :: done) (k :: done') ?_ h.2⟩
    intro x hx
    rcases List.mem_cons.1 hx with rfl | hx
    · exact List.mem_cons_self
    · exact List.mem_cons_of_mem _ (hsub x hx)

/-- a valid schedule followed by a schedule that is valid given what the first one finished is valid -/
theorem validOrder_append (c : Cfg) : ∀ (a b done : List Key),
    ValidOrder c done a → ValidOrder c (a.reverse ++ done) b → ValidOrder c done (a ++ b)
  | [], b, done, _, hb => by simpa using hb
  | k :: r, b, done, ha, hb => by
    refine ⟨ha.1, validOrder_append c r b (k :: done) ha.2 ?_⟩
    simpa [List.reverse_cons, List.append_assoc] using hb

/-- every key of a valid schedule is ready once the schedule has finished -/
theorem ready_after (c : Cfg) : ∀ (order done : List Key), ValidOrder c done order →
    ∀ k ∈ order, Ready c (order.reverse ++ done) k
  | [], _, _, k, hk => by cases hk
  | k0 :: r, done, h, k, hk => by
    rcases List.mem_cons.1 hk with rfl | hk
    · exact ready_mono c done _ (fun x hx => by simp [hx]) _ h.1
    · have := ready_after c r (k0 :: done) h.2 k hk
      simpa [List.reverse_cons, List.append_assoc] using this

/-- re-executing keys of a finished valid schedule, in any order and any number of times, is a valid schedule -/
theorem validOrder_reexec (c : Cfg) (order : List Key) (hv : ValidOrder c [] order) :
    ∀ (extra done : List Key), (∀ k ∈ extra, k ∈ order) → (∀ k ∈ order.reverse, k ∈ done) →
      (∀ k ∈ order, Ready c done k) → ValidOrder c done extra
  | [], _, _, _, _ => trivial
  | k :: r, done, hsub, hdone, hready => by
    refine ⟨hready k (hsub k List.mem_cons_self), validOrder_reexec c order hv r (k :: done)
      (fun x hx => hsub x (List.mem_cons_of_mem _ hx)) (fun x hx => List.mem_cons_of_mem _ (hdone x hx)) ?_⟩
    intro x hx
    exact ready_mono c done (k :: done) (fun y hy => List.mem_cons_of_mem _ hy) x (hready x hx)

/-- **Any topological order with re-execution runs and yields the same blocks**: a schedule in which every task comes after
the source blocks it depends on, followed by ANY re-execution of its own tasks (any subset, any order, any multiplicity),
never fails, and every scheduled key ends up holding its schedule-free denotation — the block the plain schedule gives. -/
theorem topo_order_with_reexecution (c : Cfg) (G : Gdal) (src : Img)
    (hsy : Chain 0 c.sy c.srcH) (hsx : Chain 0 c.sx c.srcW) (hS : c.S.det ≠ 0)
    (hvalid : DepsValid c) (order extra : List Key) (hv : ValidOrder c [] order) (hsub : ∀ k ∈ extra, k ∈ order) :
    ∃ st st', runOrder (graph c G src) order [] = some st ∧ runOrder (graph c G src) (order ++ extra) [] = some st' ∧
      ∀ k ∈ order, ∃ v, st.lookup k = some v ∧ st'.lookup k = some v ∧ denote c G src k = some v := by
  have hv2 : ValidOrder c [] (order ++ extra) := by
    refine validOrder_append c order extra [] hv ?_
    refine validOrder_reexec c order hv extra (order.reverse ++ []) hsub (fun k hk => by simp at hk ⊢; exact hk) ?_
    exact ready_after c order [] hv
  obtain ⟨st, h1, hst⟩ := topo_order_runs c G src hsy hsx hS hvalid order hv
  obtain ⟨st', h2, _⟩ := topo_order_runs c G src hsy hsx hS hvalid (order ++ extra) hv2
  refine ⟨st, st', h1, h2, fun k hk => ?_⟩
  obtain ⟨v, hlk, hden⟩ := hst k hk
  exact ⟨v, hlk, reexecution_same_blocks c G src order extra st st' h1 h2 k v hlk, hden⟩

/-- all hypotheses hold together: the witness schedule `[src (0,0), dst (0,0)]`, then the destination task twice more and the
source getter again -/
example : ∃ st st', runOrder (graph (cexCfg Variant.repaired .float none none) cexGdal (full 1 1 (.num 5)))
      [Key.src (0, 0), Key.dst (0, 0)] [] = some st ∧
    runOrder (graph (cexCfg Variant.repaired .float none none) cexGdal (full 1 1 (.num 5)))
      ([Key.src (0, 0), Key.dst (0, 0)] ++ [Key.dst (0, 0), Key.src (0, 0), Key.dst (0, 0)]) [] = some st' ∧
    ∀ k ∈ [Key.src (0, 0), Key.dst (0, 0)], ∃ v, st.lookup k = some v ∧ st'.lookup k = some v ∧
      denote (cexCfg Variant.repaired .float none none) cexGdal (full 1 1 (.num 5)) k = some v :=
  topo_order_with_reexecution _ _ _ (by simp [cexCfg, Chain]) (by simp [cexCfg, Chain]) (by decide +kernel)
    (cexCfg_deps_valid _ _ _ _) _ _
    (by simp [ValidOrder, Ready, cexCfg, lookupDeps])
    (by intro k hk; simp at hk ⊢; rcases hk with h | h | h <;> simp [h])

end OdcGeo.C13
