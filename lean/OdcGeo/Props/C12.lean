/-
C12 — tile queries and tile dependency graphs are complete.

Property theorems only (helpers in `Lemmas/C12.lean`).  Tilings are those of C04 (regular and
variable, `Tiling.WF`); pixel coordinates are exact rationals.

"Intersects" is positive-area overlap: tile `(r, c)` *meets* a box when it owns an image pixel
whose open unit square meets the open box (`TileMeets`).  Tiles that merely touch the query
along an edge are not returned by the code (the test-suite pins this: the extent of tile
`(0,0)` queries to `[(0,0)]`), so nothing is claimed for degenerate (zero-area) queries.
-/
import OdcGeo.Model.C12
import OdcGeo.Lemmas.C12
import OdcGeo.Props.C04
import Mathlib.Tactic.Linarith
import Mathlib.Algebra.Order.Field.Rat
namespace OdcGeo.C12
open OdcGeo OdcGeo.C17 OdcGeo.C04

/-- pixel `j` (the unit interval `(j, j+1)`) meets the open span `(a1, a2)` -/
def PixMeets (a1 a2 : Rat) (j : Int) : Prop := (j : Rat) < a2 ∧ a1 < (j : Rat) + 1

/-- `_clamp`: for an image of `N ≥ 1` pixels the clamped pixel range is inside the image and
contains every image pixel that meets the span. -/
theorem clampSpan_covers (a1 a2 : Rat) (N : Int) (hN : 1 ≤ N) :
    ∃ p q, clampSpan a1 a2 N = .ok (p, q) ∧ (0 ≤ p ∧ p ≤ N - 1) ∧ (0 ≤ q ∧ q ≤ N - 1) ∧
      ∀ j : Int, 0 ≤ j ∧ j < N → PixMeets a1 a2 j → p ≤ j ∧ j ≤ q := by
  have hc : clampSpan a1 a2 N = .ok
      (if a1.floor < 0 then 0 else if a1.floor > N - 1 then N - 1 else a1.floor,
       (if a2.ceil < 1 then 1 else if a2.ceil > N then N else a2.ceil) - 1) := by
    simp only [clampSpan, clamp_ok _ 0 (N - 1) (by omega), clamp_ok _ 1 N hN, bind,
      Except.bind, pure, Except.pure]
  refine ⟨_, _, hc, ?_, ?_, ?_⟩
  · split <;> [omega; (split <;> omega)]
  · split <;> [omega; (split <;> omega)]
  · intro j hj hm
    have h1 : a1.floor < j + 1 := by
      rw [Rat.floor_lt_iff]; push_cast; exact hm.2
    have h2 : j < a2.ceil := by
      rw [Rat.lt_ceil_iff]; exact hm.1
    constructor
    · split <;> [omega; (split <;> omega)]
    · split <;> [omega; (split <;> omega)]

/-- **range_superset** (one axis; regular and variable tiles): the tile range computed from a
span contains every tile owning an image pixel that meets the span. -/
theorem range_superset_axis (t : Tiling) (hw : t.WF) (N : Int) (hN : 1 ≤ N) (hb : t.base = N)
    (a1 a2 : Rat) (p q : Int) (hc : clampSpan a1 a2 N = .ok (p, q))
    (i : Int) (hi : 0 ≤ i ∧ i < t.count) (s : NSlice) (hs : t.getItem (.idx i) = .ok s)
    (j : Int) (hj : 0 ≤ j ∧ j < N) (hsj : s.Has j) (hm : PixMeets a1 a2 j) :
    ∃ t1 t2, t.locate p = .ok t1 ∧ t.locate q = .ok t2 ∧ t1 ≤ i ∧ i ≤ t2 := by
  obtain ⟨p', q', hc', hp, hq, hcov⟩ := clampSpan_covers a1 a2 N hN
  rw [hc] at hc'
  cases hc'
  obtain ⟨hpj, hjq⟩ := hcov j hj hm
  obtain ⟨t1, _, l1, _, _, _⟩ := Tiling.locate_spec t hw p (by omega)
  obtain ⟨t2, _, l2, _, _, _⟩ := Tiling.locate_spec t hw q (by omega)
  obtain ⟨ij, sj, lj, bj, gj, mj⟩ := Tiling.locate_spec t hw j (by omega)
  -- `i` is the tile located for `j`
  have hij : ij = i := by
    by_contra hne
    rcases Int.lt_or_gt_of_ne hne with h | h
    · have := Tiling.region_order t hw ij i bj hi h sj s gj hs j j mj hsj; omega
    · have := Tiling.region_order t hw i ij hi bj h s sj hs gj j j hsj mj; omega
  subst hij
  exact ⟨t1, t2, l1, l2,
    Tiling.locate_mono t hw p j ⟨hp.1, hpj⟩ (by omega) t1 ij l1 lj,
    Tiling.locate_mono t hw j q ⟨hj.1, hjq⟩ (by omega) ij t2 lj l2⟩

/-- a tiled GeoBox is well formed: both axes are, the tiling covers the image, the image is
not empty -/
structure GBT.WF (g : GBT) : Prop where
  y : g.tiles.y.WF
  x : g.tiles.x.WF
  by_ : g.tiles.y.base = g.ny
  bx : g.tiles.x.base = g.nx
  ny : 1 ≤ g.ny
  nx : 1 ≤ g.nx

/-- tile `(r, c)` owns an image pixel whose unit square meets the (open) box -/
def TileMeets (g : GBT) (b : BBox) (rc : Int × Int) : Prop :=
  (0 ≤ rc.1 ∧ rc.1 < g.tiles.y.count) ∧ (0 ≤ rc.2 ∧ rc.2 < g.tiles.x.count) ∧
  ∃ sy sx jy jx, g.tiles.y.getItem (.idx rc.1) = .ok sy ∧ g.tiles.x.getItem (.idx rc.2) = .ok sx ∧
    sy.Has jy ∧ sx.Has jx ∧ (0 ≤ jy ∧ jy < g.ny) ∧ (0 ≤ jx ∧ jx < g.nx) ∧
    PixMeets b.y1 b.y2 jy ∧ PixMeets b.x1 b.x2 jx

/-- **range_superset**: `range_from_bbox` succeeds and its ranges contain every tile whose
pixel rectangle meets the query box (clamped to the image); hence the candidate list does. -/
theorem range_superset (g : GBT) (hg : g.WF) (b : BBox) :
    ∃ r1 r2 c1 c2, rangeFromBBox g b = .ok ((r1, r2), (c1, c2)) ∧
      candidates g b = .ok (product (irange r1 r2) (irange c1 c2)) ∧
      ∀ rc, TileMeets g b rc → (r1 ≤ rc.1 ∧ rc.1 ≤ r2) ∧ (c1 ≤ rc.2 ∧ rc.2 ≤ c2) := by
  obtain ⟨px1, px2, hcx, hpx1, hpx2, _⟩ := clampSpan_covers b.x1 b.x2 g.nx hg.nx
  obtain ⟨py1, py2, hcy, hpy1, hpy2, _⟩ := clampSpan_covers b.y1 b.y2 g.ny hg.ny
  obtain ⟨r1, _, lr1, _, _, _⟩ := Tiling.locate_spec g.tiles.y hg.y py1 (by rw [hg.by_]; omega)
  obtain ⟨r2, _, lr2, _, _, _⟩ := Tiling.locate_spec g.tiles.y hg.y py2 (by rw [hg.by_]; omega)
  obtain ⟨c1, _, lc1, _, _, _⟩ := Tiling.locate_spec g.tiles.x hg.x px1 (by rw [hg.bx]; omega)
  obtain ⟨c2, _, lc2, _, _, _⟩ := Tiling.locate_spec g.tiles.x hg.x px2 (by rw [hg.bx]; omega)
  have hr : rangeFromBBox g b = .ok ((r1, r2), (c1, c2)) := by
    simp only [rangeFromBBox, hcx, hcy, locate2, zip2, lr1, lr2, lc1, lc2, bind, Except.bind, pure,
      Except.pure]
  refine ⟨r1, r2, c1, c2, hr, by simp only [candidates, hr, bind, Except.bind, pure, Except.pure], ?_⟩
  rintro ⟨r, c⟩ ⟨hr', hc', sy, sx, jy, jx, gy, gx, my, mx, bjy, bjx, pmy, pmx⟩
  obtain ⟨a1, a2, e1, e2, o1, o2⟩ := range_superset_axis g.tiles.y hg.y g.ny hg.ny hg.by_ b.y1 b.y2
    py1 py2 hcy r hr' sy gy jy bjy my pmy
  obtain ⟨d1, d2, f1, f2, o3, o4⟩ := range_superset_axis g.tiles.x hg.x g.nx hg.nx hg.bx b.x1 b.x2
    px1 px2 hcx c hc' sx gx jx bjx mx pmx
  rw [lr1] at e1; rw [lr2] at e2; rw [lc1] at f1; rw [lc2] at f2
  cases e1; cases e2; cases f1; cases f2
  exact ⟨⟨o1, o2⟩, o3, o4⟩

/-- pixel-space box queries (as repaired) return every tile meeting the box … -/
theorem tiles_pix_complete (g : GBT) (hg : g.WF) (b : BBox) :
    ∃ l, tilesFromPixBBox g b = .ok l ∧ ∀ rc, TileMeets g b rc → rc ∈ l := by
  simp only [tilesFromPixBBox]
  by_cases hout : b.x2 ≤ 0 ∨ b.x1 ≥ g.nx ∨ b.y2 ≤ 0 ∨ b.y1 ≥ g.ny
  · rw [if_pos hout]
    refine ⟨[], rfl, ?_⟩
    rintro rc ⟨_, _, sy, sx, jy, jx, _, _, _, _, bjy, bjx, pmy, pmx⟩
    exfalso
    simp only [PixMeets] at pmy pmx
    have h1 : (0 : Rat) ≤ jy := by exact_mod_cast bjy.1
    have h2 : (jy : Rat) + 1 ≤ g.ny := by exact_mod_cast (by omega : jy + 1 ≤ g.ny)
    have h3 : (0 : Rat) ≤ jx := by exact_mod_cast bjx.1
    have h4 : (jx : Rat) + 1 ≤ g.nx := by exact_mod_cast (by omega : jx + 1 ≤ g.nx)
    rcases hout with h | h | h | h <;> linarith [pmy.1, pmy.2, pmx.1, pmx.2]
  · rw [if_neg hout]
    obtain ⟨r1, r2, c1, c2, _, hc, hsup⟩ := range_superset g hg b
    refine ⟨_, hc, ?_⟩
    intro rc hm
    rw [mem_product, mem_irange, mem_irange]
    exact hsup rc hm

/-- … and nothing at all for a box that does not overlap the image (F15 repaired: the
clamped edge tiles are no longer returned). -/
theorem tiles_pix_outside_empty (g : GBT) (b : BBox)
    (hout : b.x2 ≤ 0 ∨ b.x1 ≥ g.nx ∨ b.y2 ≤ 0 ∨ b.y1 ≥ g.ny) : tilesFromPixBBox g b = .ok [] := by
  simp only [tilesFromPixBBox]; rw [if_pos hout]

/-- **tiles_geom_exact**: a geometry query returns exactly the candidates of its bounding box
that shapely does not call disjoint – so (with `range_superset`, and shapely's contract that a
footprint overlapping the query is not disjoint from it) every intersecting tile and only
intersecting tiles. -/
theorem tiles_geom_exact (g : GBT) (hg : g.WF) (b : BBox) (disjoint : Int × Int → Bool) :
    ∃ c l, candidates g b = .ok c ∧ tilesGeom g b disjoint = .ok l ∧
      (∀ rc, rc ∈ l ↔ rc ∈ c ∧ disjoint rc = false) ∧
      (∀ rc, TileMeets g b rc → disjoint rc = false → rc ∈ l) := by
  obtain ⟨r1, r2, c1, c2, _, hc, hsup⟩ := range_superset g hg b
  have hl : tilesGeom g b disjoint =
      .ok ((product (irange r1 r2) (irange c1 c2)).filter fun idx => !disjoint idx) := by
    simp only [tilesGeom, hc, bind, Except.bind, pure, Except.pure]
  refine ⟨_, _, hc, hl, ?_, ?_⟩
  · intro rc; simp [List.mem_filter]
  · intro rc hm hd
    simp only [List.mem_filter, mem_product, mem_irange]
    exact ⟨hsup rc hm, by simp [hd]⟩

/-! ## the linear path -/

/-- the rounded image box of a tile contains the image of every point of the tile
(scale + translation maps) -/
theorem transform_round_contains (A : Aff) (hb : A.b = 0) (hd : A.d = 0) (tb : BBox) (u v : Rat)
    (hu : tb.x1 ≤ u ∧ u ≤ tb.x2) (hv : tb.y1 ≤ v ∧ v ≤ tb.y2) :
    ((tb.transform A).round.x1 ≤ A.a * u + A.c ∧ A.a * u + A.c ≤ (tb.transform A).round.x2) ∧
    ((tb.transform A).round.y1 ≤ A.e * v + A.f ∧ A.e * v + A.f ≤ (tb.transform A).round.y2) := by
  obtain ⟨x1, x2⟩ := scale_between A.a A.c tb.x1 tb.x2 u hu
  obtain ⟨y1, y2⟩ := scale_between A.e A.f tb.y1 tb.y2 v hv
  simp only [BBox.transform, BBox.round, Aff.apply, hb, hd, zero_mul, add_zero, zero_add]
  have m1 := min4_le (A.a * tb.x1 + A.c) (A.a * tb.x1 + A.c) (A.a * tb.x2 + A.c) (A.a * tb.x2 + A.c)
  have m2 := le_max4 (A.a * tb.x1 + A.c) (A.a * tb.x1 + A.c) (A.a * tb.x2 + A.c) (A.a * tb.x2 + A.c)
  have m3 := min4_le (A.e * tb.y1 + A.f) (A.e * tb.y2 + A.f) (A.e * tb.y1 + A.f) (A.e * tb.y2 + A.f)
  have m4 := le_max4 (A.e * tb.y1 + A.f) (A.e * tb.y2 + A.f) (A.e * tb.y1 + A.f) (A.e * tb.y2 + A.f)
  have f1 := Rat.floor_le (min4 (A.a * tb.x1 + A.c) (A.a * tb.x1 + A.c) (A.a * tb.x2 + A.c) (A.a * tb.x2 + A.c))
  have f2 := @Rat.le_ceil (max4 (A.a * tb.x1 + A.c) (A.a * tb.x1 + A.c) (A.a * tb.x2 + A.c) (A.a * tb.x2 + A.c))
  have f3 := Rat.floor_le (min4 (A.e * tb.y1 + A.f) (A.e * tb.y2 + A.f) (A.e * tb.y1 + A.f) (A.e * tb.y2 + A.f))
  have f4 := @Rat.le_ceil (max4 (A.e * tb.y1 + A.f) (A.e * tb.y2 + A.f) (A.e * tb.y1 + A.f) (A.e * tb.y2 + A.f))
  refine ⟨⟨?_, ?_⟩, ?_, ?_⟩
  · rcases min_le_iff.1 x1 with h | h <;> linarith [m1.1, m1.2.2.1]
  · rcases le_max_iff.1 x2 with h | h <;> linarith [m2.1, m2.2.2.1]
  · rcases min_le_iff.1 y1 with h | h <;> linarith [m3.1, m3.2.1]
  · rcases le_max_iff.1 y2 with h | h <;> linarith [m4.1, m4.2.1]

/-- **linear_deps_complete**: on the linear path (snapped scale + translation map `A` from
destination to source pixels, mirrored axes included) the dependencies of destination tile
`idx` contain every source tile `rc` owning a pixel `(jx, jy)` whose open unit square contains
the image of a point `(u, v)` of the destination tile – i.e. every source tile whose footprint
overlaps the tile's with non-empty interior. -/
theorem linear_deps_complete (dst src : GBT) (hs : src.WF) (A : Aff) (hb : A.b = 0) (hd : A.d = 0)
    (idx : Int × Int) (tb : BBox) (htb : pixBBox dst idx = .ok tb)
    (rc : Int × Int) (hr : 0 ≤ rc.1 ∧ rc.1 < src.tiles.y.count) (hc : 0 ≤ rc.2 ∧ rc.2 < src.tiles.x.count)
    (sy sx : NSlice) (gy : src.tiles.y.getItem (.idx rc.1) = .ok sy)
    (gx : src.tiles.x.getItem (.idx rc.2) = .ok sx)
    (jy jx : Int) (my : sy.Has jy) (mx : sx.Has jx) (bjy : 0 ≤ jy ∧ jy < src.ny)
    (bjx : 0 ≤ jx ∧ jx < src.nx) (u v : Rat)
    (hu : tb.x1 ≤ u ∧ u ≤ tb.x2) (hv : tb.y1 ≤ v ∧ v ≤ tb.y2)
    (hx : (jx : Rat) < A.a * u + A.c ∧ A.a * u + A.c < jx + 1)
    (hy : (jy : Rat) < A.e * v + A.f ∧ A.e * v + A.f < jy + 1) :
    ∃ l, linearDeps dst src A idx = .ok l ∧ rc ∈ l := by
  obtain ⟨⟨x1, x2⟩, y1, y2⟩ := transform_round_contains A hb hd tb u v hu hv
  obtain ⟨l, hl, hall⟩ := tiles_pix_complete src hs (tb.transform A).round
  refine ⟨l, by simp only [linearDeps, htb, hl, bind, Except.bind], hall rc ?_⟩
  exact ⟨hr, hc, sy, sx, jy, jx, gy, gx, my, mx, bjy, bjx,
    ⟨by linarith [hy.1], by linarith [hy.2]⟩, ⟨by linarith [hx.1], by linarith [hx.2]⟩⟩

/-- **linear_disjoint_empty** (F15 repaired): a destination tile whose rounded image box has
no overlap with the source image depends on no source tile (before the repair the clamped
edge tiles were returned, see `DESIGN.md` §5 F15). -/
theorem linear_disjoint_empty (dst src : GBT) (A : Aff) (idx : Int × Int) (tb : BBox)
    (htb : pixBBox dst idx = .ok tb)
    (hout : (tb.transform A).round.x2 ≤ 0 ∨ (tb.transform A).round.x1 ≥ src.nx ∨
            (tb.transform A).round.y2 ≤ 0 ∨ (tb.transform A).round.y1 ≥ src.ny) :
    linearDeps dst src A idx = .ok [] := by
  simp only [linearDeps, htb, bind, Except.bind]
  exact tiles_pix_outside_empty src _ hout

/-! ## the general path -/

/-- **general_deps_complete_partial**: the control flow of the general path drops nothing:
if the (re)projected footprints handed to `tiles()` are supersets of the true ones – so that
an overlapping destination tile `d` is a non-disjoint candidate for the source footprint and an
overlapping source tile `s` a non-disjoint candidate for `d`'s extent – then `s ∈ deps d`.
Partial: the footprint-superset hypothesis itself (pyproj, densification, the 2-pixel buffer of
`footprint(4326, 2)`) is assumed, not proved; it is sampled by the harness oracle. -/
theorem general_deps_complete_partial (dstCand : List (Int × Int)) (dstDisjoint : Int × Int → Bool)
    (srcCand : Int × Int → List (Int × Int)) (srcDisjoint : Int × Int → Int × Int → Bool)
    (d s : Int × Int) (hd : d ∈ dstCand) (hdd : dstDisjoint d = false)
    (hs : s ∈ srcCand d) (hsd : srcDisjoint d s = false) :
    ∃ deps, (d, deps) ∈ gridIntersectGeneral dstCand dstDisjoint srcCand srcDisjoint ∧ s ∈ deps := by
  refine ⟨(srcCand d).filter fun s => !srcDisjoint d s, ?_, ?_⟩
  · simp only [gridIntersectGeneral, List.mem_map, List.mem_filter]
    exact ⟨d, ⟨hd, by simp [hdd]⟩, rfl⟩
  · simp only [List.mem_filter]
    exact ⟨hs, by simp [hsd]⟩

/-- the general path lists only destination tiles that shapely does not call disjoint from
the source footprint: for disjoint rasters (every candidate disjoint) the graph is empty. -/
theorem general_disjoint_empty (dstCand : List (Int × Int)) (dstDisjoint : Int × Int → Bool)
    (srcCand : Int × Int → List (Int × Int)) (srcDisjoint : Int × Int → Int × Int → Bool)
    (h : ∀ d ∈ dstCand, dstDisjoint d = true) :
    gridIntersectGeneral dstCand dstDisjoint srcCand srcDisjoint = [] := by
  simp only [gridIntersectGeneral, List.map_eq_nil_iff, List.filter_eq_nil_iff]
  intro d hd
  simp [h d hd]

/-! ## hypotheses are satisfiable; the defect F15 in the unrepaired query -/

/-- the 20×20 image of 10×10 tiles used below -/
def g20 : GBT := ⟨20, 20, ⟨.reg 20 10, .reg 20 10⟩⟩

example : g20.WF := ⟨by show (0:Int) < 10; decide, by show (0:Int) < 10; decide, rfl, rfl, by decide, by decide⟩
example : tilesFromPixBBox g20 ⟨5, 5, 15, 6⟩ = .ok [(0, 0), (0, 1)] := by decide

/-- F15: `range_from_bbox` alone (what the pixel-box query used before the repair) answers a
box far outside the image with the nearest edge tile – `candidates` is not empty there, which
is why `_tiles_from_pix_bbox` must test for an empty overlap first. -/
theorem clamped_candidates_outside_cex :
    candidates g20 ⟨100, 100, 120, 120⟩ = .ok [(1, 1)] ∧
    tilesFromPixBBox g20 ⟨100, 100, 120, 120⟩ = .ok [] := by decide

end OdcGeo.C12
