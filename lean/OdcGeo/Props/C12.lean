/- C12 — property theorems only. -/
import OdcGeo.Model.C12
namespace OdcGeo.C12

end OdcGeo.C12
