/-
C12 — tile queries and tile dependency graphs are complete.

Property theorems only (helpers in `Lemmas/C12.lean`).  Tilings are those of C04 (regular and
variable, `Tiling.WF`); pixel coordinates are exact rationals.

"Intersects" is positive-area overlap: tile `(r, c)` *meets* a box when it owns an image pixel
whose open unit square meets the open box (`TileMeets`).  Tiles that merely touch the query
along an edge are not returned by the code (the test-suite pins this: the extent of tile
`(0,0)` queries to `[(0,0)]`), so nothing is claimed for degenerate (zero-area) queries.
-/
import OdcGeo.Model.C12
import OdcGeo.Lemmas.C12
import OdcGeo.Props.C04
import Mathlib.Tactic.Linarith
import Mathlib.Algebra.Order.Field.Rat
namespace OdcGeo.C12
open OdcGeo OdcGeo.C17 OdcGeo.C04

/-- pixel `j` (the unit interval `(j, j+1)`) meets the open span `(a1, a2)` -/
def PixMeets (a1 a2 : Rat) (j : Int) : Prop := (j : Rat) < a2 ∧ a1 < (j : Rat) + 1

/-- `_clamp`: for an image of `N ≥ 1` pixels the clamped pixel range is inside the image and
contains every image pixel that meets the span. -/
theorem clampSpan_covers (a1 a2 : Rat) (N : Int) (hN : 1 ≤ N) :
    ∃ p q, clampSpan a1 a2 N = .ok (p, q) ∧ (0 ≤ p ∧ p ≤ N - 1) ∧ (0 ≤ q ∧ q ≤ N - 1) ∧
      ∀ j : Int, 0 ≤ j ∧ j < N → PixMeets a1 a2 j → p ≤ j ∧ j ≤ q := by
  have hc : clampSpan a1 a2 N = .ok
      (if a1.floor < 0 then 0 else if a1.floor > N - 1 then N - 1 else a1.floor,
       (if a2.ceil < 1 then 1 else if a2.ceil > N then N else a2.ceil) - 1) := by
    simp only [clampSpan, clamp_ok _ 0 (N - 1) (by omega), clamp_ok _ 1 N hN, bind,
      Except.bind, pure, Except.pure]
  refine ⟨_, _, hc, ?_, ?_, ?_⟩
  · split <;> [omega; (split <;> omega)]
  · split <;> [omega; (split <;> omega)]
  · intro j hj hm
    have h1 : a1.floor < j + 1 := by
      rw [Rat.floor_lt_iff]; push_cast; exact hm.2
    have h2 : j < a2.ceil := by
      rw [Rat.lt_ceil_iff]; exact hm.1
    constructor
    · split <;> [omega; (split <;> omega)]
    · split <;> [omega; (split <;> omega)]

/-- **range_superset** (one axis; regular and variable tiles): the tile range computed from a
span contains every tile owning an image pixel that meets the span. -/
theorem range_superset_axis (t : Tiling) (hw : t.WF) (N : Int) (hN : 1 ≤ N) (hb : t.base = N)
    (a1 a2 : Rat) (p q : Int) (hc : clampSpan a1 a2 N = .ok (p, q))
    (i : Int) (hi : 0 ≤ i ∧ i < t.count) (s : NSlice) (hs : t.getItem (.idx i) = .ok s)
    (j : Int) (hj : 0 ≤ j ∧ j < N) (hsj : s.Has j) (hm : PixMeets a1 a2 j) :
    ∃ t1 t2, t.locate p = .ok t1 ∧ t.locate q = .ok t2 ∧ t1 ≤ i ∧ i ≤ t2 := by
  obtain ⟨p', q', hc', hp, hq, hcov⟩ := clampSpan_covers a1 a2 N hN
  rw [hc] at hc'
  cases hc'
  obtain ⟨hpj, hjq⟩ := hcov j hj hm
  obtain ⟨t1, _, l1, _, _, _⟩ := Tiling.locate_spec t hw p (by omega)
  obtain ⟨t2, _, l2, _, _, _⟩ := Tiling.locate_spec t hw q (by omega)
  obtain ⟨ij, sj, lj, bj, gj, mj⟩ := Tiling.locate_spec t hw j (by omega)
  -- `i` is the tile located for `j`
  have hij : ij = i := by
    by_contra hne
    rcases Int.lt_or_gt_of_ne hne with h | h
    · have := Tiling.region_order t hw ij i bj hi h sj s gj hs j j mj hsj; omega
    · have := Tiling.region_order t hw i ij hi bj h s sj hs gj j j hsj mj; omega
  subst hij
  exact ⟨t1, t2, l1, l2,
    Tiling.locate_mono t hw p j ⟨hp.1, hpj⟩ (by omega) t1 ij l1 lj,
    Tiling.locate_mono t hw j q ⟨hj.1, hjq⟩ (by omega) ij t2 lj l2⟩

/-- a tiled GeoBox is well formed: both axes are, the tiling covers the image, the image is
not empty -/
structure GBT.WF (g : GBT) : Prop where
  y : g.tiles.y.WF
  x : g.tiles.x.WF
  by_ : g.tiles.y.base = g.ny
  bx : g.tiles.x.base = g.nx
  ny : 1 ≤ g.ny
  nx : 1 ≤ g.nx

/-- tile `(r, c)` owns an image pixel whose unit square meets the (open) box -/
def TileMeets (g : GBT) (b : BBox) (rc : Int × Int) : Prop :=
  (0 ≤ rc.1 ∧ rc.1 < g.tiles.y.count) ∧ (0 ≤ rc.2 ∧ rc.2 < g.tiles.x.count) ∧
  ∃ sy sx jy jx, g.tiles.y.getItem (.idx rc.1) = .ok sy ∧ g.tiles.x.getItem (.idx rc.2) = .ok sx ∧
    sy.Has jy ∧ sx.Has jx ∧ (0 ≤ jy ∧ jy < g.ny) ∧ (0 ≤ jx ∧ jx < g.nx) ∧
    PixMeets b.y1 b.y2 jy ∧ PixMeets b.x1 b.x2 jx

/-- **range_superset**: `range_from_bbox` succeeds and its ranges contain every tile whose
pixel rectangle meets the query box (clamped to the image); hence the candidate list does. -/
theorem range_superset (g : GBT) (hg : g.WF) (b : BBox) :
    ∃ r1 r2 c1 c2, rangeFromBBox g b = .ok ((r1, r2), (c1, c2)) ∧
      candidates g b = .ok (product (irange r1 r2) (irange c1 c2)) ∧
      ∀ rc, TileMeets g b rc → (r1 ≤ rc.1 ∧ rc.1 ≤ r2) ∧ (c1 ≤ rc.2 ∧ rc.2 ≤ c2) := by
  obtain ⟨px1, px2, hcx, hpx1, hpx2, _⟩ := clampSpan_covers b.x1 b.x2 g.nx hg.nx
  obtain ⟨py1, py2, hcy, hpy1, hpy2, _⟩ := clampSpan_covers b.y1 b.y2 g.ny hg.ny
  obtain ⟨r1, _, lr1, _, _, _⟩ := Tiling.locate_spec g.tiles.y hg.y py1 (by rw [hg.by_]; omega)
  obtain ⟨r2, _, lr2, _, _, _⟩ := Tiling.locate_spec g.tiles.y hg.y py2 (by rw [hg.by_]; omega)
  obtain ⟨c1, _, lc1, _, _, _⟩ := Tiling.locate_spec g.tiles.x hg.x px1 (by rw [hg.bx]; omega)
  obtain ⟨c2, _, lc2, _, _, _⟩ := Tiling.locate_spec g.tiles.x hg.x px2 (by rw [hg.bx]; omega)
  have hr : rangeFromBBox g b = .ok ((r1, r2), (c1, c2)) := by
    simp only [rangeFromBBox, hcx, hcy, locate2, zip2, lr1, lr2, lc1, lc2, bind, Except.bind, pure,
      Except.pure]
  refine ⟨r1, r2, c1, c2, hr, by simp only [candidates, hr, bind, Except.bind, pure, Except.pure], ?_⟩
  rintro ⟨r, c⟩ ⟨hr', hc', sy, sx, jy, jx, gy, gx, my, mx, bjy, bjx, pmy, pmx⟩
  obtain ⟨a1, a2, e1, e2, o1, o2⟩ := range_superset_axis g.tiles.y hg.y g.ny hg.ny hg.by_ b.y1 b.y2
    py1 py2 hcy r hr' sy gy jy bjy my pmy
  obtain ⟨d1, d2, f1, f2, o3, o4⟩ := range_superset_axis g.tiles.x hg.x g.nx hg.nx hg.bx b.x1 b.x2
    px1 px2 hcx c hc' sx gx jx bjx mx pmx
  rw [lr1] at e1; rw [lr2] at e2; rw [lc1] at f1; rw [lc2] at f2
  cases e1; cases e2; cases f1; cases f2
  exact ⟨⟨o1, o2⟩, o3, o4⟩

/-- pixel-space box queries (as repaired) return every tile meeting the box … -/
theorem tiles_pix_complete (g : GBT) (hg : g.WF) (b : BBox) :
    ∃ l, tilesFromPixBBox g b = .ok l ∧ ∀ rc, TileMeets g b rc → rc ∈ l := by
  simp only [tilesFromPixBBox]
  by_cases hout : b.x2 ≤ 0 ∨ b.x1 ≥ g.nx ∨ b.y2 ≤ 0 ∨ b.y1 ≥ g.ny
  · rw [if_pos hout]
    refine ⟨[], rfl, ?_⟩
    rintro rc ⟨_, _, sy, sx, jy, jx, _, _, _, _, bjy, bjx, pmy, pmx⟩
    exfalso
    simp only [PixMeets] at pmy pmx
    have h1 : (0 : Rat) ≤ jy := by exact_mod_cast bjy.1
    have h2 : (jy : Rat) + 1 ≤ g.ny := by exact_mod_cast (by omega : jy + 1 ≤ g.ny)
    have h3 : (0 : Rat) ≤ jx := by exact_mod_cast bjx.1
    have h4 : (jx : Rat) + 1 ≤ g.nx := by exact_mod_cast (by omega : jx + 1 ≤ g.nx)
    rcases hout with h | h | h | h <;> linarith [pmy.1, pmy.2, pmx.1, pmx.2]
  · rw [if_neg hout]
    obtain ⟨r1, r2, c1, c2, _, hc, hsup⟩ := range_superset g hg b
    refine ⟨_, hc, ?_⟩
    intro rc hm
    rw [mem_product, mem_irange, mem_irange]
    exact hsup rc hm

/-- … and nothing at all for a box that does not overlap the image (F15 repaired: the
clamped edge tiles are no longer returned). -/
theorem tiles_pix_outside_empty (g : GBT) (b : BBox)
    (hout : b.x2 ≤ 0 ∨ b.x1 ≥ g.nx ∨ b.y2 ≤ 0 ∨ b.y1 ≥ g.ny) : tilesFromPixBBox g b = .ok [] := by
  simp only [tilesFromPixBBox]; rw [if_pos hout]

/-- **tiles_geom_exact**: a geometry query returns exactly the candidates of its bounding box
that shapely does not call disjoint – so (with `range_superset`, and shapely's contract that a
footprint overlapping the query is not disjoint from it) every intersecting tile and only
intersecting tiles. -/
theorem tiles_geom_exact (g : GBT) (hg : g.WF) (b : BBox) (disjoint : Int × Int → Bool) :
    ∃ c l, candidates g b = .ok c ∧ tilesGeom g b disjoint = .ok l ∧
      (∀ rc, rc ∈ l ↔ rc ∈ c ∧ disjoint rc = false) ∧
      (∀ rc, TileMeets g b rc → disjoint rc = false → rc ∈ l) := by
  obtain ⟨r1, r2, c1, c2, _, hc, hsup⟩ := range_superset g hg b
  have hl : tilesGeom g b disjoint =
      .ok ((product (irange r1 r2) (irange c1 c2)).filter fun idx => !disjoint idx) := by
    simp only [tilesGeom, hc, bind, Except.bind, pure, Except.pure]
  refine ⟨_, _, hc, hl, ?_, ?_⟩
  · intro rc; simp [List.mem_filter]
  · intro rc hm hd
    simp only [List.mem_filter, mem_product, mem_irange]
    exact ⟨hsup rc hm, by simp [hd]⟩

/-! ## the linear path -/

/-- the rounded image box of a tile contains the image of every point of the tile
(scale + translation maps) -/
theorem transform_round_contains (A : Aff) (hb : A.b = 0) (hd : A.d = 0) (tb : BBox) (u v : Rat)
    (hu : tb.x1 ≤ u ∧ u ≤ tb.x2) (hv : tb.y1 ≤ v ∧ v ≤ tb.y2) :
    ((tb.transform A).round.x1 ≤ A.a * u + A.c ∧ A.a * u + A.c ≤ (tb.transform A).round.x2) ∧
    ((tb.transform A).round.y1 ≤ A.e * v + A.f ∧ A.e * v + A.f ≤ (tb.transform A).round.y2) := by
  obtain ⟨x1, x2⟩ := scale_between A.a A.c tb.x1 tb.x2 u hu
  obtain ⟨y1, y2⟩ := scale_between A.e A.f tb.y1 tb.y2 v hv
  simp only [BBox.transform, BBox.round, Aff.apply, hb, hd, zero_mul, add_zero, zero_add]
  have m1 := min4_le (A.a * tb.x1 + A.c) (A.a * tb.x1 + A.c) (A.a * tb.x2 + A.c) (A.a * tb.x2 + A.c)
  have m2 := le_max4 (A.a * tb.x1 + A.c) (A.a * tb.x1 + A.c) (A.a * tb.x2 + A.c) (A.a * tb.x2 + A.c)
  have m3 := min4_le (A.e * tb.y1 + A.f) (A.e * tb.y2 + A.f) (A.e * tb.y1 + A.f) (A.e * tb.y2 + A.f)
  have m4 := le_max4 (A.e * tb.y1 + A.f) (A.e * tb.y2 + A.f) (A.e * tb.y1 + A.f) (A.e * tb.y2 + A.f)
  have f1 := Rat.floor_le (min4 (A.a * tb.x1 + A.c) (A.a * tb.x1 + A.c) (A.a * tb.x2 + A.c) (A.a * tb.x2 + A.c))
  have f2 := @Rat.le_ceil (max4 (A.a * tb.x1 + A.c) (A.a * tb.x1 + A.c) (A.a * tb.x2 + A.c) (A.a * tb.x2 + A.c))
  have f3 := Rat.floor_le (min4 (A.e * tb.y1 + A.f) (A.e * tb.y2 + A.f) (A.e * tb.y1 + A.f) (A.e * tb.y2 + A.f))
  have f4 := @Rat.le_ceil (max4 (A.e * tb.y1 + A.f) (A.e * tb.y2 + A.f) (A.e * tb.y1 + A.f) (A.e * tb.y2 + A.f))
  refine ⟨⟨?_, ?_⟩, ?_, ?_⟩
  · rcases min_le_iff.1 x1 with h | h <;> linarith [m1.1, m1.2.2.1]
  · rcases le_max_iff.1 x2 with h | h <;> linarith [m2.1, m2.2.2.1]
  · rcases min_le_iff.1 y1 with h | h <;> linarith [m3.1, m3.2.1]
  · rcases le_max_iff.1 y2 with h | h <;> linarith [m4.1, m4.2.1]

/-- **linear_deps_complete**: on the linear path (snapped scale + translation map `A` from
destination to source pixels, mirrored axes included) the dependencies of destination tile
`idx` contain every source tile `rc` owning a pixel `(jx, jy)` whose open unit square contains
the image of a point `(u, v)` of the destination tile – i.e. every source tile whose footprint
overlaps the tile's with non-empty interior. -/
theorem linear_deps_complete (dst src : GBT) (hs : src.WF) (A : Aff) (hb : A.b = 0) (hd : A.d = 0)
    (idx : Int × Int) (tb : BBox) (htb : pixBBox dst idx = .ok tb)
    (rc : Int × Int) (hr : 0 ≤ rc.1 ∧ rc.1 < src.tiles.y.count) (hc : 0 ≤ rc.2 ∧ rc.2 < src.tiles.x.count)
    (sy sx : NSlice) (gy : src.tiles.y.getItem (.idx rc.1) = .ok sy)
    (gx : src.tiles.x.getItem (.idx rc.2) = .ok sx)
    (jy jx : Int) (my : sy.Has jy) (mx : sx.Has jx) (bjy : 0 ≤ jy ∧ jy < src.ny)
    (bjx : 0 ≤ jx ∧ jx < src.nx) (u v : Rat)
    (hu : tb.x1 ≤ u ∧ u ≤ tb.x2) (hv : tb.y1 ≤ v ∧ v ≤ tb.y2)
    (hx : (jx : Rat) < A.a * u + A.c ∧ A.a * u + A.c < jx + 1)
    (hy : (jy : Rat) < A.e * v + A.f ∧ A.e * v + A.f < jy + 1) :
    ∃ l, linearDeps dst src A idx = .ok l ∧ rc ∈ l := by
  obtain ⟨⟨x1, x2⟩, y1, y2⟩ := transform_round_contains A hb hd tb u v hu hv
  obtain ⟨l, hl, hall⟩ := tiles_pix_complete src hs (tb.transform A).round
  refine ⟨l, by simp only [linearDeps, htb, hl, bind, Except.bind], hall rc ?_⟩
  exact ⟨hr, hc, sy, sx, jy, jx, gy, gx, my, mx, bjy, bjx,
    ⟨by linarith [hy.1], by linarith [hy.2]⟩, ⟨by linarith [hx.1], by linarith [hx.2]⟩⟩

/-- **linear_disjoint_empty** (F15 repaired): a destination tile whose rounded image box has
no overlap with the source image depends on no source tile (before the repair the clamped
edge tiles were returned, see `DESIGN.md` §5 F15). -/
theorem linear_disjoint_empty (dst src : GBT) (A : Aff) (idx : Int × Int) (tb : BBox)
    (htb : pixBBox dst idx = .ok tb)
    (hout : (tb.transform A).round.x2 ≤ 0 ∨ (tb.transform A).round.x1 ≥ src.nx ∨
            (tb.transform A).round.y2 ≤ 0 ∨ (tb.transform A).round.y1 ≥ src.ny) :
    linearDeps dst src A idx = .ok [] := by
  simp only [linearDeps, htb, bind, Except.bind]
  exact tiles_pix_outside_empty src _ hout

/-! ## the general path -/

/-- **general_deps_complete_partial**: the control flow of the general path drops nothing:
if the (re)projected footprints handed to `tiles()` are supersets of the true ones – so that
an overlapping destination tile `d` is a non-disjoint candidate for the source footprint and an
overlapping source tile `s` a non-disjoint candidate for `d`'s extent – then `s ∈ deps d`.
Partial: the footprint-superset hypothesis itself (pyproj, densification, the 2-pixel buffer of
`footprint(4326, 2)`) is assumed, not proved; it is sampled by the harness oracle. -/
theorem general_deps_complete_partial (dstCand : List (Int × Int)) (dstDisjoint : Int × Int → Bool)
    (srcCand : Int × Int → List (Int × Int)) (srcDisjoint : Int × Int → Int × Int → Bool)
    (d s : Int × Int) (hd : d ∈ dstCand) (hdd : dstDisjoint d = false)
    (hs : s ∈ srcCand d) (hsd : srcDisjoint d s = false) :
    ∃ deps, (d, deps) ∈ gridIntersectGeneral dstCand dstDisjoint srcCand srcDisjoint ∧ s ∈ deps := by
  refine ⟨(srcCand d).filter fun s => !srcDisjoint d s, ?_, ?_⟩
  · simp only [gridIntersectGeneral, List.mem_map, List.mem_filter]
    exact ⟨d, ⟨hd, by simp [hdd]⟩, rfl⟩
  · simp only [List.mem_filter]
    exact ⟨hs, by simp [hsd]⟩

/-- the general path lists only destination tiles that shapely does not call disjoint from
the source footprint: for disjoint rasters (every candidate disjoint) the graph is empty. -/
theorem general_disjoint_empty (dstCand : List (Int × Int)) (dstDisjoint : Int × Int → Bool)
    (srcCand : Int × Int → List (Int × Int)) (srcDisjoint : Int × Int → Int × Int → Bool)
    (h : ∀ d ∈ dstCand, dstDisjoint d = true) :
    gridIntersectGeneral dstCand dstDisjoint srcCand srcDisjoint = [] := by
  simp only [gridIntersectGeneral, List.map_eq_nil_iff, List.filter_eq_nil_iff]
  intro d hd
  simp [h d hd]


/-! ## world-space boxes: rounding outward -/

/-- an affine form `a·u + b·v + c` on a box lies between the smallest and the largest of its
four corner values (any signs of `a`, `b`: mirrored and rotated grids) -/
theorem affine_form_between (a b c x1 x2 y1 y2 u v : Rat) (hu : x1 ≤ u ∧ u ≤ x2) (hv : y1 ≤ v ∧ v ≤ y2) :
    min4 (a * x1 + b * y1 + c) (a * x1 + b * y2 + c) (a * x2 + b * y1 + c) (a * x2 + b * y2 + c)
        ≤ a * u + b * v + c ∧
    a * u + b * v + c ≤
      max4 (a * x1 + b * y1 + c) (a * x1 + b * y2 + c) (a * x2 + b * y1 + c) (a * x2 + b * y2 + c) := by
  have m := min4_le (a * x1 + b * y1 + c) (a * x1 + b * y2 + c) (a * x2 + b * y1 + c) (a * x2 + b * y2 + c)
  have M := le_max4 (a * x1 + b * y1 + c) (a * x1 + b * y2 + c) (a * x2 + b * y1 + c) (a * x2 + b * y2 + c)
  rcases le_total 0 a with ha | ha <;> rcases le_total 0 b with hb | hb
  · have h1 := mul_le_mul_of_nonneg_left hu.1 ha; have h2 := mul_le_mul_of_nonneg_left hu.2 ha
    have h3 := mul_le_mul_of_nonneg_left hv.1 hb; have h4 := mul_le_mul_of_nonneg_left hv.2 hb
    exact ⟨by linarith [m.1], by linarith [M.2.2.2]⟩
  · have h1 := mul_le_mul_of_nonneg_left hu.1 ha; have h2 := mul_le_mul_of_nonneg_left hu.2 ha
    have h3 := mul_le_mul_of_nonpos_left hv.1 hb; have h4 := mul_le_mul_of_nonpos_left hv.2 hb
    exact ⟨by linarith [m.2.1], by linarith [M.2.2.1]⟩
  · have h1 := mul_le_mul_of_nonpos_left hu.1 ha; have h2 := mul_le_mul_of_nonpos_left hu.2 ha
    have h3 := mul_le_mul_of_nonneg_left hv.1 hb; have h4 := mul_le_mul_of_nonneg_left hv.2 hb
    exact ⟨by linarith [m.2.2.1], by linarith [M.2.1]⟩
  · have h1 := mul_le_mul_of_nonpos_left hu.1 ha; have h2 := mul_le_mul_of_nonpos_left hu.2 ha
    have h3 := mul_le_mul_of_nonpos_left hv.1 hb; have h4 := mul_le_mul_of_nonpos_left hv.2 hb
    exact ⟨by linarith [m.2.2.2], by linarith [M.1]⟩

/-- the corner bounding box of an affine image contains the image of every point of the box -/
theorem mapCorners_affine_contains (A : Aff) (b : BBox) (u v : Rat)
    (hu : b.x1 ≤ u ∧ u ≤ b.x2) (hv : b.y1 ≤ v ∧ v ≤ b.y2) :
    ((b.mapCorners A.apply).x1 ≤ (A.apply (u, v)).1 ∧ (A.apply (u, v)).1 ≤ (b.mapCorners A.apply).x2) ∧
    ((b.mapCorners A.apply).y1 ≤ (A.apply (u, v)).2 ∧ (A.apply (u, v)).2 ≤ (b.mapCorners A.apply).y2) := by
  have hx := affine_form_between A.a A.b A.c b.x1 b.x2 b.y1 b.y2 u v hu hv
  have hy := affine_form_between A.d A.e A.f b.x1 b.x2 b.y1 b.y2 u v hu hv
  simp only [BBox.mapCorners, Aff.apply]
  exact ⟨hx, hy⟩

/-- **range_superset, world space (same CRS; any invertible pixel-to-world affine – north-up,
mirrored, rotated)**: `range_from_bbox` of a box carrying the raster's CRS succeeds, and every
tile owning an image pixel `(jx, jy)` whose open unit square contains the pixel coordinates
`~W · (u, v)` of some point `(u, v)` of the box is inside the returned ranges (the box is
rounded outward, never inward). -/
theorem range_superset_world (g : GBT) (hg : g.WF) (W : Aff) (hW : W.det ≠ 0) (b : BBox)
    (rc : Int × Int) (hr : 0 ≤ rc.1 ∧ rc.1 < g.tiles.y.count) (hc : 0 ≤ rc.2 ∧ rc.2 < g.tiles.x.count)
    (sy sx : NSlice) (gy : g.tiles.y.getItem (.idx rc.1) = .ok sy)
    (gx : g.tiles.x.getItem (.idx rc.2) = .ok sx)
    (jy jx : Int) (my : sy.Has jy) (mx : sx.Has jx) (bjy : 0 ≤ jy ∧ jy < g.ny) (bjx : 0 ≤ jx ∧ jx < g.nx)
    (u v : Rat) (hu : b.x1 ≤ u ∧ u ≤ b.x2) (hv : b.y1 ≤ v ∧ v ≤ b.y2)
    (hx : (jx : Rat) < (W.inv.apply (u, v)).1 ∧ (W.inv.apply (u, v)).1 < jx + 1)
    (hy : (jy : Rat) < (W.inv.apply (u, v)).2 ∧ (W.inv.apply (u, v)).2 < jy + 1) :
    ∃ r1 r2 c1 c2, rangeFromBBoxWorld g W id b = .ok ((r1, r2), (c1, c2)) ∧
      candidatesWorld g W id b = .ok (product (irange r1 r2) (irange c1 c2)) ∧
      (r1 ≤ rc.1 ∧ rc.1 ≤ r2) ∧ (c1 ≤ rc.2 ∧ rc.2 ≤ c2) := by
  have hp : projectBBox W id b = .ok (b.mapCorners W.inv.apply) := by
    simp only [projectBBox, Aff.inv?, if_neg hW, bind, Except.bind, pure, Except.pure, id]
  obtain ⟨⟨x1, x2⟩, y1, y2⟩ := mapCorners_affine_contains W.inv b u v hu hv
  obtain ⟨r1, r2, c1, c2, hrange, hcand, hsup⟩ := range_superset g hg (b.mapCorners W.inv.apply)
  refine ⟨r1, r2, c1, c2, by simp only [rangeFromBBoxWorld, hp, hrange, bind, Except.bind],
    by simp only [candidatesWorld, hp, hcand, bind, Except.bind], ?_⟩
  exact hsup rc ⟨hr, hc, sy, sx, jy, jx, gy, gx, my, mx, bjy, bjx,
    ⟨by linarith [hy.1], by linarith [hy.2]⟩, ⟨by linarith [hx.1], by linarith [hx.2]⟩⟩

/-- **tiles(geometry) = range ∩ not-disjoint, world space**: the result is exactly the candidates
of the geometry's bounding box that shapely does not call disjoint. -/
theorem tiles_geom_world_exact (g : GBT) (W : Aff) (b : BBox) (disjoint : Int × Int → Bool)
    (c : List (Int × Int)) (hc : candidatesWorld g W id b = .ok c) :
    tilesGeomWorld g W b disjoint = .ok (c.filter fun idx => !disjoint idx) ∧
      ∀ rc, rc ∈ (c.filter fun idx => !disjoint idx) ↔ rc ∈ c ∧ disjoint rc = false := by
  refine ⟨by simp only [tilesGeomWorld, hc, bind, Except.bind, pure, Except.pure], ?_⟩
  intro rc; simp [List.mem_filter]

/-- a box in a *foreign* CRS: only the four corners are transformed (`bbox.polygon` has no other
vertices), so what is guaranteed is that the pixel box contains the images of the corners –
nothing about the curved edges in between (the chord reading of cross-CRS queries; the harness
samples the bulge, see `curved_queries`). -/
theorem projectBBox_contains_corners (W : Aff) (hW : W.det ≠ 0) (proj : Rat × Rat → Rat × Rat) (b : BBox)
    (p : Rat × Rat) (hp : p ∈ b.corners) :
    ∃ pb, projectBBox W proj b = .ok pb ∧
      (pb.x1 ≤ (W.inv.apply (proj p)).1 ∧ (W.inv.apply (proj p)).1 ≤ pb.x2) ∧
      (pb.y1 ≤ (W.inv.apply (proj p)).2 ∧ (W.inv.apply (proj p)).2 ≤ pb.y2) := by
  have hpb : projectBBox W proj b = .ok (b.mapCorners fun q => W.inv.apply (proj q)) := by
    simp only [projectBBox, Aff.inv?, if_neg hW, bind, Except.bind, pure, Except.pure]
  refine ⟨_, hpb, ?_⟩
  simp only [BBox.corners, List.mem_cons, List.mem_nil_iff, or_false] at hp
  simp only [BBox.mapCorners]
  have m := fun a b c d => min4_le a b c d
  have M := fun a b c d => le_max4 a b c d
  rcases hp with rfl | rfl | rfl | rfl
  · exact ⟨⟨(m _ _ _ _).1, (M _ _ _ _).1⟩, (m _ _ _ _).1, (M _ _ _ _).1⟩
  · exact ⟨⟨(m _ _ _ _).2.1, (M _ _ _ _).2.1⟩, (m _ _ _ _).2.1, (M _ _ _ _).2.1⟩
  · exact ⟨⟨(m _ _ _ _).2.2.1, (M _ _ _ _).2.2.1⟩, (m _ _ _ _).2.2.1, (M _ _ _ _).2.2.1⟩
  · exact ⟨⟨(m _ _ _ _).2.2.2, (M _ _ _ _).2.2.2⟩, (m _ _ _ _).2.2.2, (M _ _ _ _).2.2.2⟩

/-! ## rounding direction on mirrored grids (negative relative scale) -/

/-- **negative relative scale**: with `a < 0` the image of the tile's x-range `[x1, x2]` is
`[a·x2 + c, a·x1 + c]`, and the rounded box is `[⌊a·x2 + c⌋, ⌈a·x1 + c⌉]`: the *far* edge is
floored and the *near* edge is ceiled – still outward on both sides. -/
theorem round_negative_scale (A : Aff) (hb : A.b = 0) (ha : A.a < 0) (tb : BBox) (hx : tb.x1 ≤ tb.x2) :
    (tb.transform A).round.x1 = ((A.a * tb.x2 + A.c).floor : Int) ∧
    (tb.transform A).round.x2 = ((A.a * tb.x1 + A.c).ceil : Int) := by
  have h : A.a * tb.x2 ≤ A.a * tb.x1 := mul_le_mul_of_nonpos_left hx (le_of_lt ha)
  have hmin : min4 (A.a * tb.x1 + A.c) (A.a * tb.x1 + A.c) (A.a * tb.x2 + A.c) (A.a * tb.x2 + A.c) =
      A.a * tb.x2 + A.c := by
    unfold min4; rw [min_self, min_self, min_eq_right (by linarith)]
  have hmax : max4 (A.a * tb.x1 + A.c) (A.a * tb.x1 + A.c) (A.a * tb.x2 + A.c) (A.a * tb.x2 + A.c) =
      A.a * tb.x1 + A.c := by
    unfold max4; rw [max_self, max_self, max_eq_left (by linarith)]
  simp only [BBox.transform, BBox.round, Aff.apply, hb, zero_mul, add_zero]
  rw [hmin, hmax]
  exact ⟨rfl, rfl⟩




theorem mapM_ok_of_forall {α β} (f : α → Res β) (g : α → β) (l : List α) (h : ∀ x ∈ l, f x = .ok (g x)) :
    l.mapM f = .ok (l.map g) := by
  induction l with
  | nil => rfl
  | cons a as ih =>
    rw [List.mapM_cons, h a (by simp), ih (fun x hx => h x (List.mem_cons_of_mem _ hx))]
    rfl

/-- candidate list of a box, as a total function (used only to name the result) -/
def candsOf (g : GBT) (b : BBox) : List (Int × Int) :=
  match candidates g b with
  | .ok c => c
  | .error _ => []

theorem candidates_ok (g : GBT) (hg : g.WF) (b : BBox) :
    candidates g b = .ok (candsOf g b) ∧ ∀ rc, TileMeets g b rc → rc ∈ candsOf g b := by
  obtain ⟨r1, r2, c1, c2, _, hc, hsup⟩ := range_superset g hg b
  have e : candsOf g b = product (irange r1 r2) (irange c1 c2) := by simp only [candsOf, hc]
  refine ⟨by rw [e]; exact hc, ?_⟩
  intro rc hm
  rw [e, mem_product, mem_irange, mem_irange]
  exact hsup rc hm

/-- **general_deps_complete_ranges** (upgrade of `general_deps_complete_partial`): on the general
path – rotated / sheared same-CRS grids and different CRSs – with the candidate ranges computed by
the model itself (`range_from_bbox` on the bounding boxes handed to `tiles`), `grid_intersect`
succeeds and lists source tile `s` for destination tile `d` whenever

* `d` meets the pixel bounding box `fp` of the (re)projected source footprint and `s` meets the
  pixel bounding box `ext d` of the (re)projected extent of `d`   (`TileMeets`), and
* shapely does not call the footprint / `d`, resp. the extent of `d` / `s`, disjoint.

What is still assumed, and why it cannot be discharged here: (1) geometry – that a truly
overlapping pair satisfies the two `TileMeets` facts, i.e. that the projected footprint / extent
polygons (pyproj, `footprint(4326, 2)` with its 2 px padding and 100-point densification, the
4-corner tile extent) *contain* the true overlap region; for same-CRS pairs this is
`mapCorners_affine_contains`, for different CRSs it depends on the curvature of the projection
between the sampled vertices (harness: `dense_dep_oracle`, `large_cross_crs`); (2) shapely's
contract that polygons with a common interior point are not `disjoint`. -/
theorem general_deps_complete_ranges (dst src : GBT) (hd : dst.WF) (hs : src.WF) (fp : BBox)
    (dstDisjoint : Int × Int → Bool) (ext : Int × Int → BBox)
    (srcDisjoint : Int × Int → Int × Int → Bool) (d s : Int × Int)
    (h1 : TileMeets dst fp d) (h2 : dstDisjoint d = false)
    (h3 : TileMeets src (ext d) s) (h4 : srcDisjoint d s = false) :
    ∃ l deps, gridIntersectGeneralR dst src fp dstDisjoint ext srcDisjoint = .ok l ∧
      (d, deps) ∈ l ∧ s ∈ deps := by
  obtain ⟨hdc, hdm⟩ := candidates_ok dst hd fp
  let g : Int × Int → (Int × Int) × List (Int × Int) :=
    fun d' => (d', (candsOf src (ext d')).filter fun s' => !srcDisjoint d' s')
  have hm : ((candsOf dst fp).filter fun d' => !dstDisjoint d').mapM (fun d' => do
      let sc ← candidates src (ext d')
      return (d', sc.filter fun s' => !srcDisjoint d' s')) =
      .ok (((candsOf dst fp).filter fun d' => !dstDisjoint d').map g) := by
    apply mapM_ok_of_forall
    intro d' _
    simp only [(candidates_ok src hs (ext d')).1, bind, Except.bind, pure, Except.pure, g]
  refine ⟨_, (g d).2, by simp only [gridIntersectGeneralR, hdc, bind, Except.bind]; exact hm, ?_, ?_⟩
  · exact List.mem_map.2 ⟨d, List.mem_filter.2 ⟨hdm d h1, by simp [h2]⟩, rfl⟩
  · exact List.mem_filter.2 ⟨(candidates_ok src hs (ext d)).2 s h3, by simp [h4]⟩

/-! ## composition with C04: the dependencies partition the needed source pixels -/

/-- **C12 ∘ C04**: on the linear path every source pixel `(jx, jy)` that destination tile `idx`
needs (its open unit square contains the image of a point of the tile) lies in exactly one source
tile (C04 `tiles2_partition`), and that tile is among the dependencies of `idx`: the listed
source tiles split the needed source pixels exactly, none is lost and none is served twice. -/
theorem linear_deps_partition_needed_pixels (dst src : GBT) (hs : src.WF) (A : Aff)
    (hb : A.b = 0) (hd : A.d = 0) (idx : Int × Int) (tb : BBox) (htb : pixBBox dst idx = .ok tb)
    (jy jx : Int) (bjy : 0 ≤ jy ∧ jy < src.ny) (bjx : 0 ≤ jx ∧ jx < src.nx) (u v : Rat)
    (hu : tb.x1 ≤ u ∧ u ≤ tb.x2) (hv : tb.y1 ≤ v ∧ v ≤ tb.y2)
    (hx : (jx : Rat) < A.a * u + A.c ∧ A.a * u + A.c < jx + 1)
    (hy : (jy : Rat) < A.e * v + A.f ∧ A.e * v + A.f < jy + 1) :
    ∃ l, linearDeps dst src A idx = .ok l ∧
      ∃! rc : Int × Int, (((0 ≤ rc.1 ∧ rc.1 < src.tiles.y.count) ∧ (0 ≤ rc.2 ∧ rc.2 < src.tiles.x.count)) ∧
        ∃ sy sx, getItem2 src.tiles (.idx rc.1) (.idx rc.2) = .ok (sy, sx) ∧ sy.Has jy ∧ sx.Has jx) ∧
        rc ∈ l := by
  obtain ⟨rc, ⟨hbnd, sy, sx, hget, hyy, hxx⟩, huniq⟩ := tiles2_partition src.tiles hs.y hs.x jy jx
    (by rw [hs.by_]; exact bjy) (by rw [hs.bx]; exact bjx)
  have hget' := hget
  simp only [getItem2, zip2, bind, Except.bind, pure, Except.pure] at hget'
  cases gy : src.tiles.y.getItem (.idx rc.1) with
  | error e => rw [gy] at hget'; cases hget'
  | ok ry =>
    cases gx : src.tiles.x.getItem (.idx rc.2) with
    | error e => rw [gy, gx] at hget'; cases hget'
    | ok rx =>
      rw [gy, gx] at hget'
      cases hget'
      obtain ⟨l, hl, hin⟩ := linear_deps_complete dst src hs A hb hd idx tb htb rc hbnd.1 hbnd.2 sy sx gy gx
        jy jx hyy hxx bjy bjx u v hu hv hx hy
      refine ⟨l, hl, rc, ⟨⟨hbnd, sy, sx, hget, hyy, hxx⟩, hin⟩, ?_⟩
      rintro rc' ⟨h', _⟩
      exact huniq rc' h'


/-! ## hypotheses are satisfiable; the defect F15 in the unrepaired query -/

/-- the 20×20 image of 10×10 tiles used below -/
def g20 : GBT := ⟨20, 20, ⟨.reg 20 10, .reg 20 10⟩⟩

example : g20.WF := ⟨by show (0:Int) < 10; decide, by show (0:Int) < 10; decide, rfl, rfl, by decide, by decide⟩
example : tilesFromPixBBox g20 ⟨5, 5, 15, 6⟩ = .ok [(0, 0), (0, 1)] := by decide

/-- F15: `range_from_bbox` alone (what the pixel-box query used before the repair) answers a
box far outside the image with the nearest edge tile – `candidates` is not empty there, which
is why `_tiles_from_pix_bbox` must test for an empty overlap first. -/
theorem clamped_candidates_outside_cex :
    candidates g20 ⟨100, 100, 120, 120⟩ = .ok [(1, 1)] ∧
    tilesFromPixBBox g20 ⟨100, 100, 120, 120⟩ = .ok [] := by decide

end OdcGeo.C12
