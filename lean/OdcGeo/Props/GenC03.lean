/-
C03 — source tie.  `OdcGeo/Gen/C03.lean` is regenerated from `/repo/odc/geo/{math.py,overlap.py}` by
`tools/py2lean.py` on every run of `check.py C03`; the theorems `tie_*` prove each regenerated definition equal to the
hand model of `OdcGeo/Model/C03.lean` for ALL inputs (rational arithmetic on both sides).
-/
import OdcGeo.Gen.C03
import OdcGeo.Gen.Tie
import OdcGeo.Lemmas.GenC03
import OdcGeo.Props.C03

namespace OdcGeo.C03
open OdcGeo.Gen OdcGeo.C17

/-! ## ties -/

theorem tie_split_float (x : Rat) : Gen.C03.split_float x = splitFloat x := by
  tie_auto [Gen.C03.split_float, splitFloat, py_fmod_one]

theorem tie_maybe_int (x tol : Rat) : Gen.C03.maybe_int x tol = maybeInt x tol := by
  tie_auto [Gen.C03.maybe_int, maybeInt, tie_split_float, py_absR_eq, py_trunc_eq, trunc_splitFloat_whole]

theorem tie_is_almost_int (x tol : Rat) : Gen.C03.is_almost_int x tol = isAlmostInt x tol := by
  tie_auto [Gen.C03.is_almost_int, isAlmostInt, py_fmod_one, py_absR_eq]

/-- `_pick_read_scale(scale, tol)` -/
theorem tie_pick_read_scale (scale tol : Rat) : Gen.C03.pick_read_scale scale tol = pickReadScale scale tol := by
  tie_auto [Gen.C03.pick_read_scale, pickReadScale, tie_maybe_int, py_trunc_eq]

/-- `compute_axis_overlap(Ns, Nd, s, t)` -/
theorem tie_compute_axis_overlap (Ns Nd : Int) (s t : Rat) :
    Gen.C03.compute_axis_overlap Ns Nd s t = axisOverlap Ns Nd s t := by
  tie_auto [Gen.C03.compute_axis_overlap, axisOverlap, axisPos]

/-! ## headline theorems of `Props/C03.lean`, transferred to the regenerated definitions -/

/-- `axis_error_iff` for the source `compute_axis_overlap` -/
theorem gen_axis_error_iff (Ns Nd : Int) (s t : Rat) :
    (∃ e, Gen.C03.compute_axis_overlap Ns Nd s t = .error e) ↔ s = 0 := by
  rw [tie_compute_axis_overlap]; exact axis_error_iff Ns Nd s t

/-- `axis_within` for the source `compute_axis_overlap` -/
theorem gen_axis_within (Ns Nd : Int) (s t : Rat) (hNs : 0 ≤ Ns) (hNd : 0 ≤ Nd) (r : NSlice × NSlice)
    (h : Gen.C03.compute_axis_overlap Ns Nd s t = .ok r) :
    (0 ≤ r.1.start ∧ r.1.start ≤ r.1.stop ∧ r.1.stop ≤ Ns) ∧
    (0 ≤ r.2.start ∧ r.2.start ≤ r.2.stop ∧ r.2.stop ≤ Nd) := by
  rw [tie_compute_axis_overlap] at h; exact axis_within Ns Nd s t hNs hNd r h

/-- `axis_dst_covers` (never drops a needed destination pixel) for the source `compute_axis_overlap` -/
theorem gen_axis_dst_covers (Ns Nd : Int) (s t : Rat) (r : NSlice × NSlice)
    (h : Gen.C03.compute_axis_overlap Ns Nd s t = .ok r) (d : Int) (hd0 : 0 ≤ d) (hdN : d < Nd)
    (hx0 : 0 ≤ s * ((d : Rat) + 1 / 2) + t) (hxN : s * ((d : Rat) + 1 / 2) + t < Ns) :
    r.2.start ≤ d ∧ d < r.2.stop := by
  rw [tie_compute_axis_overlap] at h; exact axis_dst_covers Ns Nd s t r h d hd0 hdN hx0 hxN

/-- `read_shrink_pos_int` for the source `_pick_read_scale` -/
theorem gen_read_shrink_pos_int (scale tol : Rat) (rs : Int) (h : Gen.C03.pick_read_scale scale tol = .ok rs) :
    1 ≤ rs := by
  rw [tie_pick_read_scale] at h; exact read_shrink_pos_int scale tol rs h

/-- `read_shrink_bound` for the source `_pick_read_scale` -/
theorem gen_read_shrink_bound (scale tol : Rat) (rs : Int) (h : Gen.C03.pick_read_scale scale tol = .ok rs) :
    ((rs : Rat) ≤ max 1 scale ∨ (rs : Rat) - scale < tol) ∧ scale - 1 < rs := by
  rw [tie_pick_read_scale] at h; exact read_shrink_bound scale tol rs h

end OdcGeo.C03
