/-
C03 — source tie.  `OdcGeo/Gen/C03.lean` is regenerated from `/repo/odc/geo/{math.py,overlap.py}` by
`tools/py2lean.py` on every run of `check.py C03`; the theorems `tie_*` prove each regenerated definition equal to the
hand model of `OdcGeo/Model/C03.lean` for ALL inputs (rational arithmetic on both sides).

The theorems live in OdcGeo/Props/GenC03/*.lean, one compilation unit per tied function or small group; this file only
imports them all (`lake build OdcGeo.Props.GenC03`).
-/
import OdcGeo.Props.GenC03.SplitFloat
import OdcGeo.Props.GenC03.MaybeInt
import OdcGeo.Props.GenC03.IsAlmostInt
import OdcGeo.Props.GenC03.PickReadScale
import OdcGeo.Props.GenC03.ComputeAxisOverlap
