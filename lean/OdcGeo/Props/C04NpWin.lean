/-
C04 — numpy integer scalars inside `BlockAssembler` windows and at the `GeoboxTiles` entry points
(model: `normRoiNp`, `gbtRegionI`, `gbtChunkShapeI` in `Model/C04Np.lean`).
-/
import OdcGeo.Props.C04Np
namespace OdcGeo.C04
open OdcGeo OdcGeo.C17 OdcGeo.NpArray

/-- **a window holding a numpy scalar is refused** – after the length test, before anything is
computed from it: never a window computed in a fixed-width type -/
theorem normRoiNp_np_refused (shape : List Int) (axis : Nat) (roi : List WinEl) (h : roi.any WinEl.isNp = true) :
    normRoiNp shape axis roi = .error .attribute ∨ normRoiNp shape axis roi = .error (.std .indexError) := by
  simp only [normRoiNp]
  cases hp : padRoi shape axis (.tuple (roi.map WinEl.toPIdx)) with
  | error e =>
    right
    simp only [padRoi] at hp
    split at hp
    · cases hp
    · split at hp
      · cases hp
      · split at hp
        · cases hp; rfl
        · cases hp
  | ok r => left; simp [h]

/-- a window of Python ints and slices is the window of `Model/C04Roi.normRoi` -/
theorem normRoiNp_py (shape : List Int) (axis : Nat) (roi : List WinEl) (h : roi.any WinEl.isNp = false) :
    normRoiNp shape axis roi = liftN (normRoi shape axis (.tuple (roi.map WinEl.toPIdx))) := by
  simp only [normRoiNp, normRoi]
  cases hp : padRoi shape axis (.tuple (roi.map WinEl.toPIdx)) with
  | error e => simp [liftN, bind, Except.bind]
  | ok r => simp [h, hp]

/-- **`GeoboxTiles[...]`, `.roi[...]`, `pix_bbox`: Python-int region or refusal** -/
theorem gbtRegionI_py_or_error (t : Tiling2) (iy ix : IntArg) :
    gbtRegionI t iy ix = gbtRegionI t iy.toPy ix.toPy ∨ ∃ e, gbtRegionI t iy ix = .error e := by
  cases iy with
  | np ty v => right; exact ⟨_, rfl⟩
  | py vy =>
    cases ix with
    | py vx => left; rfl
    | np tx v => right; exact ⟨_, rfl⟩

/-- **`GeoboxTiles.chunk_shape`: the Python-int answer for every integer type** (as repaired) -/
theorem gbtChunkShapeI_eq_py (t : Tiling2) (iy ix : IntArg) :
    gbtChunkShapeI t iy ix = gbtChunkShapeI t iy.toPy ix.toPy := rfl

example : normRoiNp [3, 300, 60] 1 [.int (.np ⟨false, 8⟩ 255), .slc (some 0) (some 60)] = .error .attribute := by decide
example : ([WinEl.int (.py 2), .slc none none] : List WinEl).any WinEl.isNp = false := by decide

end OdcGeo.C04
