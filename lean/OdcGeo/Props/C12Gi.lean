/-
C12 — the public entry points `GeoboxTiles.grid_intersect(src)` and `GeoboxTiles.tiles(query)` from
their arguments to their result (model: `Model/C12Gi.lean`).

* `convex_common_point_not_disjoint` – the reference semantics of shapely's `disjoint` on convex
  rings never calls two rings with a common point disjoint (the half of the separating-axis
  theorem completeness needs);
* `tiles_quad_complete` – a same-CRS convex query returns every tile that owns a pixel whose open
  unit square contains (the pixel coordinates of) a point of the query – any invertible affine;
* `grid_intersect_same_crs_general_complete` – the general path for two rasters of one CRS (rotated,
  sheared, mirrored grids) lists source tile `s` for destination tile `d` whenever a world point
  lies in the interior of a pixel of `d` and of a pixel of `s`: NO hypothesis about footprints or
  shapely is left (compare `general_deps_complete_ranges`);
* `grid_intersect_same_crs_complete` – the same for the public `gridIntersect`, whichever path
  `_check_linear` picks (on the linear path: when `snap_affine` did not move the map; the
  tolerance case is `Props/C13C12`);
* dispatch facts: different CRS / non-`GeoBox` base never take the linear path, an empty common
  footprint of different-CRS rasters gives the empty graph, mismatching CRS-lessness of query and
  raster raises instead of answering.
-/
import OdcGeo.Model.C12Gi
import OdcGeo.Lemmas.C12Gi
import OdcGeo.Props.C12
import Mathlib.Tactic.Linarith
import Mathlib.Algebra.Order.Field.Rat
namespace OdcGeo.C12
open OdcGeo OdcGeo.C17 OdcGeo.C04 OdcGeo.Spec

/-- **separating axes, the direction completeness needs**: two convex rings that contain a common
point are not `disjoint` for the reference semantics of shapely's predicate -/
theorem convex_common_point_not_disjoint (p q : Quad) (P : Rat × Rat) (hp : p.Contains P)
    (hq : q.Contains P) : Convex.disjoint p.toList q.toList = false := by
  unfold Convex.disjoint
  rw [List.any_eq_false]
  intro ax _
  rw [not_separated_of_common ax p q P hp hq]
  simp

/-- a tiled raster is well formed: the tiling is (C12 `GBT.WF`) and the affine is invertible -/
structure TGB.WF (t : TGB) : Prop where
  g : t.g.WF
  det : t.W.det ≠ 0

/-- `rc` is a tile index inside the tiling -/
def ValidTile (g : GBT) (rc : Int × Int) : Prop :=
  (0 ≤ rc.1 ∧ rc.1 < g.tiles.y.count) ∧ (0 ≤ rc.2 ∧ rc.2 < g.tiles.x.count)

/-- world point `P` lies in the interior of an image pixel owned by tile `rc` -/
def TileSees (t : TGB) (rc : Int × Int) (P : Rat × Rat) : Prop :=
  ValidTile t.g rc ∧
  ∃ sy sx jy jx, t.g.tiles.y.getItem (.idx rc.1) = .ok sy ∧ t.g.tiles.x.getItem (.idx rc.2) = .ok sx ∧
    sy.Has jy ∧ sx.Has jx ∧ (0 ≤ jy ∧ jy < t.g.ny) ∧ (0 ≤ jx ∧ jx < t.g.nx) ∧
    ((jx : Rat) < (t.W.inv.apply P).1 ∧ (t.W.inv.apply P).1 < jx + 1) ∧
    ((jy : Rat) < (t.W.inv.apply P).2 ∧ (t.W.inv.apply P).2 < jy + 1)

/-- `range_from_bbox` returns ranges of valid tile indices that contain every tile meeting the box -/
theorem range_superset_valid (g : GBT) (hg : g.WF) (b : BBox) :
    ∃ r1 r2 c1 c2, candidates g b = .ok (product (irange r1 r2) (irange c1 c2)) ∧
      (0 ≤ r1 ∧ r2 < g.tiles.y.count) ∧ (0 ≤ c1 ∧ c2 < g.tiles.x.count) ∧
      ∀ rc, TileMeets g b rc → (r1 ≤ rc.1 ∧ rc.1 ≤ r2) ∧ (c1 ≤ rc.2 ∧ rc.2 ≤ c2) := by
  obtain ⟨px1, px2, hcx, hpx1, hpx2, _⟩ := clampSpan_covers b.x1 b.x2 g.nx hg.nx
  obtain ⟨py1, py2, hcy, hpy1, hpy2, _⟩ := clampSpan_covers b.y1 b.y2 g.ny hg.ny
  obtain ⟨r1, _, lr1, br1, _, _⟩ := Tiling.locate_spec g.tiles.y hg.y py1 (by rw [hg.by_]; omega)
  obtain ⟨r2, _, lr2, br2, _, _⟩ := Tiling.locate_spec g.tiles.y hg.y py2 (by rw [hg.by_]; omega)
  obtain ⟨c1, _, lc1, bc1, _, _⟩ := Tiling.locate_spec g.tiles.x hg.x px1 (by rw [hg.bx]; omega)
  obtain ⟨c2, _, lc2, bc2, _, _⟩ := Tiling.locate_spec g.tiles.x hg.x px2 (by rw [hg.bx]; omega)
  have hr : rangeFromBBox g b = .ok ((r1, r2), (c1, c2)) := by
    simp only [rangeFromBBox, hcx, hcy, locate2, zip2, lr1, lr2, lc1, lc2, bind, Except.bind, pure,
      Except.pure]
  obtain ⟨r1', r2', c1', c2', hr', _, hsup⟩ := range_superset g hg b
  rw [hr] at hr'
  cases hr'
  exact ⟨r1, r2, c1, c2, by simp only [candidates, hr, bind, Except.bind, pure, Except.pure],
    ⟨br1.1, br2.2⟩, ⟨bc1.1, bc2.2⟩, hsup⟩

theorem candsOf_valid (g : GBT) (hg : g.WF) (b : BBox) : ∀ idx ∈ candsOf g b, ValidTile g idx := by
  obtain ⟨r1, r2, c1, c2, hc, hr, hcc, _⟩ := range_superset_valid g hg b
  intro idx h
  have e : candsOf g b = product (irange r1 r2) (irange c1 c2) := by simp only [candsOf, hc]
  rw [e, mem_product, mem_irange, mem_irange] at h
  exact ⟨⟨by omega, by omega⟩, by omega, by omega⟩

/-- **tile extents**: the ring `self[idx].extent` of a valid tile exists and contains the world
image of every point of the tile's pixel rectangle (C04 `gbt_tile_is_crop` underneath) -/
theorem tileExtent_contains (t : TGB) (ht : t.WF) (rc : Int × Int) (hv : ValidTile t.g rc) :
    ∃ q sy sx, tileExtent t rc = .ok q ∧ t.g.tiles.y.getItem (.idx rc.1) = .ok sy ∧
      t.g.tiles.x.getItem (.idx rc.2) = .ok sx ∧
      ∀ px py : Rat, ((sx.start : Rat) ≤ px ∧ px ≤ sx.stop) → ((sy.start : Rat) ≤ py ∧ py ≤ sy.stop) →
        q.Contains (t.W.apply (px, py)) := by
  obtain ⟨sy, gy⟩ := Tiling.getItem_ok t.g.tiles.y ht.g.y rc.1 hv.1
  obtain ⟨sx, gx⟩ := Tiling.getItem_ok t.g.tiles.x ht.g.x rc.2 hv.2
  have hget2 : getItem2 t.g.tiles (.idx rc.1) (.idx rc.2) = .ok (sy, sx) := by
    simp only [getItem2, zip2, gy, gx, bind, Except.bind, pure, Except.pure]
  have hgi : t.c04.getItem (.idx rc.1) (.idx rc.2) = .ok (t.c04.base.crop sy.toPIdx sx.toPIdx) := by
    simp only [GeoboxTiles.getItem, TGB.c04, hget2, bind, Except.bind, pure, Except.pure]
  obtain ⟨ry, rx, h2, hny, hnx, happ⟩ := gbt_tile_is_crop t.c04 ht.g.y ht.g.x _ _ _ hgi
  have h2' : getItem2 t.g.tiles (.idx rc.1) (.idx rc.2) = .ok (ry, rx) := h2
  rw [hget2] at h2'
  cases h2'
  refine ⟨Quad.ofBox (t.c04.base.crop sy.toPIdx sx.toPIdx).A
      ⟨0, 0, ((t.c04.base.crop sy.toPIdx sx.toPIdx).nx : Int), ((t.c04.base.crop sy.toPIdx sx.toPIdx).ny : Int)⟩,
    sy, sx, by simp only [tileExtent, hgi, bind, Except.bind, pure, Except.pure], gy, gx, ?_⟩
  intro px py hpx hpy
  have hc := ofBox_contains (t.c04.base.crop sy.toPIdx sx.toPIdx).A
    ⟨0, 0, ((t.c04.base.crop sy.toPIdx sx.toPIdx).nx : Int), ((t.c04.base.crop sy.toPIdx sx.toPIdx).ny : Int)⟩
    (px - sx.start) (py - sy.start)
    ⟨by simp only []; linarith [hpx.1], by simp only []; rw [hnx]; push_cast; linarith [hpx.2]⟩
    ⟨by simp only []; linarith [hpy.1], by simp only []; rw [hny]; push_cast; linarith [hpy.2]⟩
  rw [happ] at hc
  simp only [sub_add_cancel] at hc
  exact hc

/-- the ring of tile `idx` as a total function (names what `tileExtent` computes) -/
def extOf (t : TGB) (idx : Int × Int) : Quad :=
  match tileExtent t idx with
  | .ok q => q
  | .error _ => ⟨(0, 0), (0, 0), (0, 0), (0, 0)⟩

theorem tileExtent_eq_extOf (t : TGB) (ht : t.WF) (rc : Int × Int) (hv : ValidTile t.g rc) :
    tileExtent t rc = .ok (extOf t rc) := by
  obtain ⟨q, _, _, hq, _⟩ := tileExtent_contains t ht rc hv
  simp only [extOf, hq]

/-- result of `tiles(poly)` for a convex ring in the raster's CRS, as a total function -/
def tilesQuadL (t : TGB) (q : Quad) : List (Int × Int) :=
  (candsOf t.g (q.bbox.mapCorners t.W.inv.apply)).filter fun idx =>
    !Convex.disjoint q.toList (extOf t idx).toList

theorem filter_map_fst {α} (c : List α) (f : α → Bool) :
    ((c.map fun x => (x, f x)).filter fun p => !p.2).map (·.1) = c.filter fun x => !f x := by
  induction c with
  | nil => rfl
  | cons a as ih =>
    simp only [List.map_cons, List.filter_cons]
    cases f a <;> simp [ih]

/-- **`tiles(poly)` never fails** on a well-formed raster and returns valid tile indices:
candidates of the projected bounding box, kept unless the reference `disjoint` separates them -/
theorem tiles_quad_ok (t : TGB) (ht : t.WF) (q : Quad) :
    tilesQuad t q = .ok (tilesQuadL t q) ∧ ∀ idx ∈ tilesQuadL t q, ValidTile t.g idx := by
  have hp : projectBBox t.W id q.bbox = .ok (q.bbox.mapCorners t.W.inv.apply) := by
    simp only [projectBBox, Aff.inv?, if_neg ht.det, bind, Except.bind, pure, Except.pure, id]
  have hc := (candidates_ok t.g ht.g (q.bbox.mapCorners t.W.inv.apply)).1
  have hval := candsOf_valid t.g ht.g (q.bbox.mapCorners t.W.inv.apply)
  have hm : (candsOf t.g (q.bbox.mapCorners t.W.inv.apply)).mapM (fun idx => do
      let e ← tileExtent t idx
      return (idx, Convex.disjoint q.toList e.toList)) =
      .ok ((candsOf t.g (q.bbox.mapCorners t.W.inv.apply)).map fun idx =>
        (idx, Convex.disjoint q.toList (extOf t idx).toList)) := by
    apply mapM_ok_of_forall
    intro idx hidx
    simp only [tileExtent_eq_extOf t ht idx (hval idx hidx), bind, Except.bind, pure, Except.pure]
  constructor
  · simp only [tilesQuad, candidatesWorld, hp, hc, bind, Except.bind, pure, Except.pure] at hm ⊢
    rw [hm]
    simp only [tilesQuadL]
    rw [filter_map_fst]
  · intro idx h
    exact hval idx (List.mem_of_mem_filter h)

/-- **tiles(query) is complete for same-CRS convex queries** (any invertible affine: north-up,
mirrored, rotated, sheared): every tile owning a pixel whose interior contains a point of the
query ring's hull is returned. -/
theorem tiles_quad_complete (t : TGB) (ht : t.WF) (q : Quad) (P : Rat × Rat) (hq : q.Contains P)
    (rc : Int × Int) (hs : TileSees t rc P) : rc ∈ tilesQuadL t q := by
  obtain ⟨hv, sy, sx, jy, jx, gy, gx, my, mx, bjy, bjx, hx, hy⟩ := hs
  obtain ⟨⟨bx1, bx2⟩, by1, by2⟩ := contains_bbox q P hq
  obtain ⟨⟨x1, x2⟩, y1, y2⟩ := mapCorners_affine_contains t.W.inv q.bbox P.1 P.2 ⟨bx1, bx2⟩ ⟨by1, by2⟩
  rw [Prod.mk.eta] at x1 x2 y1 y2
  simp only [tilesQuadL, List.mem_filter]
  constructor
  · apply (candidates_ok t.g ht.g _).2 rc
    exact ⟨hv.1, hv.2, sy, sx, jy, jx, gy, gx, my, mx, bjy, bjx,
      ⟨by linarith [hy.1], by linarith [hy.2]⟩, ⟨by linarith [hx.1], by linarith [hx.2]⟩⟩
  · obtain ⟨e, sy', sx', he, gy', gx', hcont⟩ := tileExtent_contains t ht rc hv
    rw [gy] at gy'; rw [gx] at gx'
    cases gy'; cases gx'
    have hext : extOf t rc = e := by simp only [extOf, he]
    have h1 : ((sx.start : Int) : Rat) ≤ jx := by exact_mod_cast mx.1
    have h2 : ((jx : Int) : Rat) + 1 ≤ sx.stop := by exact_mod_cast (by have := mx.2; omega : jx + 1 ≤ sx.stop)
    have h3 : ((sy.start : Int) : Rat) ≤ jy := by exact_mod_cast my.1
    have h4 : ((jy : Int) : Rat) + 1 ≤ sy.stop := by exact_mod_cast (by have := my.2; omega : jy + 1 ≤ sy.stop)
    have hP := hcont (t.W.inv.apply P).1 (t.W.inv.apply P).2 ⟨by linarith [hx.1], by linarith [hx.2]⟩
      ⟨by linarith [hy.1], by linarith [hy.2]⟩
    rw [Prod.mk.eta, Aff.apply_inv_apply t.W ht.det] at hP
    rw [hext, convex_common_point_not_disjoint q e P hq hP]
    rfl

/-- a point seen by a tile lies in the raster's extent ring -/
theorem extent_contains (t : TGB) (ht : t.WF) (rc : Int × Int) (P : Rat × Rat) (hs : TileSees t rc P) :
    t.extent.Contains P := by
  obtain ⟨_, _, _, jy, jx, _, _, _, _, bjy, bjx, hx, hy⟩ := hs
  have h1 : (0 : Rat) ≤ jx := by exact_mod_cast bjx.1
  have h2 : ((jx : Int) : Rat) + 1 ≤ t.g.nx := by exact_mod_cast (by omega : jx + 1 ≤ t.g.nx)
  have h3 : (0 : Rat) ≤ jy := by exact_mod_cast bjy.1
  have h4 : ((jy : Int) : Rat) + 1 ≤ t.g.ny := by exact_mod_cast (by omega : jy + 1 ≤ t.g.ny)
  have h := ofBox_contains t.W ⟨0, 0, t.g.nx, t.g.ny⟩ (t.W.inv.apply P).1 (t.W.inv.apply P).2
    ⟨by simp only []; linarith [hx.1], by simp only []; linarith [hx.2]⟩
    ⟨by simp only []; linarith [hy.1], by simp only []; linarith [hy.2]⟩
  rw [Prod.mk.eta, Aff.apply_inv_apply t.W ht.det] at h
  exact h

/-- the same-CRS general path never fails on well-formed rasters; its table, explicitly -/
theorem grid_intersect_same_crs_eq (dst src : TGB) (hd : dst.WF) (hs : src.WF) :
    gridIntersectSameCrs dst src =
      .ok ((tilesQuadL dst src.extent).map fun idx => (idx, tilesQuadL src (extOf dst idx))) := by
  obtain ⟨hq1, hv1⟩ := tiles_quad_ok dst hd src.extent
  have hm : (tilesQuadL dst src.extent).mapM (fun idx => do
      let e ← tileExtent dst idx
      let l ← tilesQuad src e
      return (idx, l)) =
      .ok ((tilesQuadL dst src.extent).map fun idx => (idx, tilesQuadL src (extOf dst idx))) := by
    apply mapM_ok_of_forall
    intro idx hidx
    simp only [tileExtent_eq_extOf dst hd idx (hv1 idx hidx), (tiles_quad_ok src hs _).1, bind,
      Except.bind, pure, Except.pure]
  simp only [gridIntersectSameCrs, hq1, bind, Except.bind, pure, Except.pure] at hm ⊢
  exact hm

/-- a point seen by tile `d` lies in the ring of `d`'s extent -/
theorem extOf_contains (t : TGB) (ht : t.WF) (d : Int × Int) (P : Rat × Rat) (h1 : TileSees t d P) :
    (extOf t d).Contains P := by
  obtain ⟨hv, sy, sx, jy, jx, gy, gx, my, mx, _, _, hx, hy⟩ := h1
  obtain ⟨e, sy', sx', he, gy', gx', hcont⟩ := tileExtent_contains t ht d hv
  rw [gy] at gy'; rw [gx] at gx'
  cases gy'; cases gx'
  have hext : extOf t d = e := by simp only [extOf, he]
  have a1 : ((sx.start : Int) : Rat) ≤ jx := by exact_mod_cast mx.1
  have a2 : ((jx : Int) : Rat) + 1 ≤ sx.stop := by exact_mod_cast (by have := mx.2; omega : jx + 1 ≤ sx.stop)
  have a3 : ((sy.start : Int) : Rat) ≤ jy := by exact_mod_cast my.1
  have a4 : ((jy : Int) : Rat) + 1 ≤ sy.stop := by exact_mod_cast (by have := my.2; omega : jy + 1 ≤ sy.stop)
  have hP := hcont (t.W.inv.apply P).1 (t.W.inv.apply P).2 ⟨by linarith [hx.1], by linarith [hx.2]⟩
    ⟨by linarith [hy.1], by linarith [hy.2]⟩
  rw [Prod.mk.eta, Aff.apply_inv_apply t.W ht.det] at hP
  rw [hext]
  exact hP

/-- **same-CRS general path, end to end** (rotated / sheared / mirrored grids; regular and variable
tilings): `grid_intersect` succeeds and lists source tile `s` among the dependencies of
destination tile `d` whenever some world point lies in the interior of a pixel of `d` and in the
interior of a pixel of `s` – i.e. whenever the two tile footprints overlap with non-empty
interior.  Nothing about footprints, candidate ranges or shapely is assumed: the rings are those
of `polygon_from_transform`, the ranges those of `range_from_bbox`, the predicate is
`Spec.Convex.disjoint` (validated against shapely on every run). -/
theorem grid_intersect_same_crs_general_complete (dst src : TGB) (hd : dst.WF) (hs : src.WF)
    (d s : Int × Int) (P : Rat × Rat) (h1 : TileSees dst d P) (h2 : TileSees src s P) :
    ∃ l deps, gridIntersectSameCrs dst src = .ok l ∧ (d, deps) ∈ l ∧ s ∈ deps := by
  refine ⟨_, tilesQuadL src (extOf dst d), grid_intersect_same_crs_eq dst src hd hs, ?_, ?_⟩
  · exact List.mem_map.2 ⟨d, tiles_quad_complete dst hd src.extent P (extent_contains src hs s P h2) d h1, rfl⟩
  · exact tiles_quad_complete src hs (extOf dst d) P (extOf_contains dst hd d P h1) s h2

/-- **C12 ∘ C04 on the general path**: every source pixel `(jx, jy)` that destination tile `d` needs
(a world point inside a pixel of `d` falls inside it) lies in exactly one source tile (C04
`tiles2_partition`), and that tile is among the dependencies listed for `d`: the dependency lists
of rotated / sheared grids split the needed source pixels exactly – none lost, none served twice. -/
theorem general_deps_partition_needed_pixels (dst src : TGB) (hd : dst.WF) (hs : src.WF)
    (d : Int × Int) (P : Rat × Rat) (h1 : TileSees dst d P)
    (jy jx : Int) (bjy : 0 ≤ jy ∧ jy < src.g.ny) (bjx : 0 ≤ jx ∧ jx < src.g.nx)
    (hx : (jx : Rat) < (src.W.inv.apply P).1 ∧ (src.W.inv.apply P).1 < jx + 1)
    (hy : (jy : Rat) < (src.W.inv.apply P).2 ∧ (src.W.inv.apply P).2 < jy + 1) :
    ∃ l deps, gridIntersectSameCrs dst src = .ok l ∧ (d, deps) ∈ l ∧
      ∃! rc : Int × Int, (((0 ≤ rc.1 ∧ rc.1 < src.g.tiles.y.count) ∧ (0 ≤ rc.2 ∧ rc.2 < src.g.tiles.x.count)) ∧
        ∃ sy sx, getItem2 src.g.tiles (.idx rc.1) (.idx rc.2) = .ok (sy, sx) ∧ sy.Has jy ∧ sx.Has jx) ∧
        rc ∈ deps := by
  obtain ⟨rc, ⟨hbnd, sy, sx, hget, hyy, hxx⟩, huniq⟩ := tiles2_partition src.g.tiles hs.g.y hs.g.x jy jx
    (by rw [hs.g.by_]; exact bjy) (by rw [hs.g.bx]; exact bjx)
  have hget' := hget
  simp only [getItem2, zip2, bind, Except.bind, pure, Except.pure] at hget'
  cases gy : src.g.tiles.y.getItem (.idx rc.1) with
  | error e => rw [gy] at hget'; cases hget'
  | ok ry =>
    cases gx : src.g.tiles.x.getItem (.idx rc.2) with
    | error e => rw [gy, gx] at hget'; cases hget'
    | ok rx =>
      rw [gy, gx] at hget'
      cases hget'
      have h2 : TileSees src rc P := ⟨hbnd, sy, sx, jy, jx, gy, gx, hyy, hxx, bjy, bjx, hx, hy⟩
      obtain ⟨l, deps, hl, hin, hs'⟩ := grid_intersect_same_crs_general_complete dst src hd hs d rc P h1 h2
      refine ⟨l, deps, hl, hin, rc, ⟨⟨hbnd, sy, sx, hget, hyy, hxx⟩, hs'⟩, ?_⟩
      rintro rc' ⟨h', _⟩
      exact huniq rc' h'

/-! ## dispatch of `grid_intersect` -/

/-- rasters of different CRSs never take the linear path (`_check_linear` answers `None` before
any arithmetic – also for a singular affine) -/
theorem check_linear_crs_differ (dst src : TGB) (ttol stol tol sttol : Rat) (h : src.crs ≠ dst.crs) :
    checkLinearT dst src ttol stol tol sttol = .ok none := by
  simp only [checkLinearT, if_pos h]

/-- a base that is not a `GeoBox` (GCPGeoBox) never takes the linear path -/
theorem check_linear_nonlinear (dst src : TGB) (ttol stol tol sttol : Rat)
    (h : dst.linear = false ∨ src.linear = false) :
    checkLinearT dst src ttol stol tol sttol = .ok none := by
  simp only [checkLinearT]
  split
  · rfl
  · rcases h with h | h
    · simp [h]
    · cases hd : dst.linear <;> simp [h]

/-- two `GeoBox`es of one CRS: `_check_linear` is the arithmetic test of `Model/C12.checkLinear` -/
theorem check_linear_same_crs (dst src : TGB) (ttol stol tol sttol : Rat) (hc : src.crs = dst.crs)
    (hd : dst.linear = true) (hs : src.linear = true) :
    checkLinearT dst src ttol stol tol sttol = checkLinear src.W dst.W ttol stol tol sttol := by
  simp [checkLinearT, hc, hd, hs]

/-- different CRSs whose robust footprints (via EPSG:4326) have an empty intersection: the empty
graph, not an error -/
theorem grid_intersect_cross_crs_apart (dst src : TGB) (ttol stol tol sttol : Rat) (fr : Foreign)
    (h : src.crs ≠ dst.crs) (he : fr.fpEmpty = true) :
    gridIntersect dst src ttol stol tol sttol fr = .ok [] := by
  simp only [gridIntersect, check_linear_crs_differ dst src ttol stol tol sttol h, bind, Except.bind,
    if_neg h, he, if_true]

/-- `grid_intersect` of two `GeoBox`es of one CRS is the linear path when `_check_linear` finds a
scale + translation map, else the general path computed by the model – `Foreign` is not consulted -/
theorem grid_intersect_same_crs_dispatch (dst src : TGB) (ttol stol tol sttol : Rat) (fr : Foreign)
    (hc : src.crs = dst.crs) (hd : dst.linear = true) (hs : src.linear = true) (r : Option Aff)
    (hr : checkLinear src.W dst.W ttol stol tol sttol = .ok r) :
    gridIntersect dst src ttol stol tol sttol fr =
      match r with
      | some A => gridIntersectLinear dst.g src.g A
      | none => gridIntersectSameCrs dst src := by
  simp only [gridIntersect, check_linear_same_crs dst src ttol stol tol sttol hc hd hs, hr, bind,
    Except.bind]
  cases r with
  | some A => rfl
  | none => simp [hc, hd, hs]

/-- what `_check_linear` accepts has no rotation / shear terms at all (for tolerances with
`st_tol ≤ tol`, as the code's `1e-10 ≤ 1e-8`): either `snap_affine` zeroed them or the test fails -/
theorem check_linear_some_st (srcT dstT : Aff) (ttol stol tol sttol : Rat) (ht : sttol ≤ tol) (A : Aff)
    (h : checkLinear srcT dstT ttol stol tol sttol = .ok (some A)) : A.b = 0 ∧ A.d = 0 := by
  simp only [checkLinear, Aff.inv?] at h
  split at h
  · cases h
  · simp only [bind, Except.bind, pure, Except.pure] at h
    split at h
    · rename_i hst
      cases h
      simp only [snapAffine] at hst ⊢
      split
      · rename_i hbig
        rw [if_pos hbig] at hst
        rcases hbig with hb | hb <;> linarith [hst.1, hst.2]
      · exact ⟨rfl, rfl⟩
    · cases h

/-- all tiles of a tiling are valid indices -/
theorem mem_allTiles (g : GBT) (rc : Int × Int) : rc ∈ allTiles g ↔ ValidTile g rc := by
  simp only [allTiles, mem_product, mem_irange, ValidTile]
  constructor
  · rintro ⟨⟨a, b⟩, c, d⟩; exact ⟨⟨a, by omega⟩, c, by omega⟩
  · rintro ⟨⟨a, b⟩, c, d⟩; exact ⟨⟨a, by omega⟩, c, by omega⟩

/-- the linear path as a whole: every destination tile gets its `linearDeps` -/
theorem grid_intersect_linear_mem (dst src : GBT) (A : Aff) (d : Int × Int) (hd : ValidTile dst d)
    (l : List ((Int × Int) × List (Int × Int))) (h : gridIntersectLinear dst src A = .ok l) :
    ∃ deps, linearDeps dst src A d = .ok deps ∧ (d, deps) ∈ l := by
  have key : ∀ (xs : List (Int × Int)) (l : List ((Int × Int) × List (Int × Int))),
      xs.mapM (fun idx => do let dd ← linearDeps dst src A idx; return (idx, dd)) = .ok l →
      d ∈ xs → ∃ deps, linearDeps dst src A d = .ok deps ∧ (d, deps) ∈ l := by
    intro xs
    induction xs with
    | nil => intro l _ hm; cases hm
    | cons a as ih =>
      intro l hl hm
      rw [List.mapM_cons] at hl
      cases ha : linearDeps dst src A a with
      | error e => simp only [ha, bind, Except.bind] at hl; cases hl
      | ok da =>
        simp only [ha, bind, Except.bind, pure, Except.pure] at hl
        cases hr : as.mapM (fun idx => do let dd ← linearDeps dst src A idx; return (idx, dd)) with
        | error e =>
          simp only [bind, Except.bind, pure, Except.pure] at hr
          rw [hr] at hl; cases hl
        | ok rest =>
          simp only [bind, Except.bind, pure, Except.pure] at hr
          rw [hr] at hl
          cases hl
          rcases List.mem_cons.1 hm with rfl | hm'
          · exact ⟨da, ha, List.mem_cons_self⟩
          · obtain ⟨deps, h1, h2⟩ := ih rest (by simp only [bind, Except.bind, pure, Except.pure]; exact hr) hm'
            exact ⟨deps, h1, List.mem_cons_of_mem _ h2⟩
  exact key (allTiles dst) l h ((mem_allTiles dst d).2 hd)

/-- **grid_intersect of two GeoBoxes of one CRS is complete, whichever path is taken**: if the
call succeeds – it always does on the general path – source tile `s` is listed for destination
tile `d` whenever a world point lies in the interior of a pixel of each.  On the linear path this
is stated for maps that `snap_affine` left alone (`A` is the exact pixel-to-pixel map); maps moved
by the tolerances are the subject of `Props/C13C12` (drift bound, K17 / K23). -/
theorem grid_intersect_same_crs_complete (dst src : TGB) (hd : dst.WF) (hs : src.WF)
    (ttol stol tol sttol : Rat) (ht : sttol ≤ tol) (fr : Foreign)
    (hc : src.crs = dst.crs) (hld : dst.linear = true) (hls : src.linear = true)
    (r : Option Aff) (hr : checkLinear src.W dst.W ttol stol tol sttol = .ok r)
    (hsnap : ∀ A, r = some A → A = src.W.inv * dst.W)
    (d s : Int × Int) (P : Rat × Rat) (h1 : TileSees dst d P) (h2 : TileSees src s P) :
    ∃ l deps, gridIntersect dst src ttol stol tol sttol fr = .ok l ∧ (d, deps) ∈ l ∧ s ∈ deps := by
  rw [grid_intersect_same_crs_dispatch dst src ttol stol tol sttol fr hc hld hls r hr]
  cases r with
  | none => exact grid_intersect_same_crs_general_complete dst src hd hs d s P h1 h2
  | some A =>
    simp only []
    obtain ⟨hb, hdz⟩ := check_linear_some_st src.W dst.W ttol stol tol sttol ht A hr
    have hA := hsnap A rfl
    obtain ⟨hv1, sy1, sx1, iy, ix, gy1, gx1, my1, mx1, _, _, hx1, hy1⟩ := h1
    obtain ⟨hv2, sy2, sx2, jy, jx, gy2, gx2, my2, mx2, bjy, bjx, hx2, hy2⟩ := h2
    -- the destination tile's pixel box
    have htb : pixBBox dst.g d = .ok ⟨(sx1.start : Int), (sy1.start : Int), (sx1.stop : Int), (sy1.stop : Int)⟩ := by
      simp only [pixBBox, getItem2, zip2, gy1, gx1, bind, Except.bind, pure, Except.pure]
    -- source pixel coordinates of `P` through the exact map
    have hmap : src.W.inv.apply P = A.apply (dst.W.inv.apply P) := by
      rw [hA, Aff.apply_mul, Aff.apply_inv_apply dst.W hd.det]
    have ex : (src.W.inv.apply P).1 = A.a * (dst.W.inv.apply P).1 + A.c := by
      rw [hmap]; simp only [Aff.apply, hb, zero_mul, add_zero]
    have ey : (src.W.inv.apply P).2 = A.e * (dst.W.inv.apply P).2 + A.f := by
      rw [hmap]; simp only [Aff.apply, hdz, zero_mul, zero_add]
    have a1 : ((sx1.start : Int) : Rat) ≤ ix := by exact_mod_cast mx1.1
    have a2 : ((ix : Int) : Rat) + 1 ≤ sx1.stop := by exact_mod_cast (by have := mx1.2; omega : ix + 1 ≤ sx1.stop)
    have a3 : ((sy1.start : Int) : Rat) ≤ iy := by exact_mod_cast my1.1
    have a4 : ((iy : Int) : Rat) + 1 ≤ sy1.stop := by exact_mod_cast (by have := my1.2; omega : iy + 1 ≤ sy1.stop)
    obtain ⟨deps, hdeps, hin⟩ := linear_deps_complete dst.g src.g hs.g A hb hdz d _ htb s hv2.1 hv2.2 sy2 sx2 gy2 gx2
      jy jx my2 mx2 bjy bjx (dst.W.inv.apply P).1 (dst.W.inv.apply P).2
      ⟨by simp only []; linarith [hx1.1], by simp only []; linarith [hx1.2]⟩
      ⟨by simp only []; linarith [hy1.1], by simp only []; linarith [hy1.2]⟩
      (by rw [← ex]; exact hx2) (by rw [← ey]; exact hy2)
    -- the whole graph: it succeeds iff every tile's `linearDeps` does; then `d` carries `deps`
    cases hl : gridIntersectLinear dst.g src.g A with
    | ok l =>
      obtain ⟨deps', h3, h4⟩ := grid_intersect_linear_mem dst.g src.g A d hv1 l hl
      rw [hdeps] at h3
      cases h3
      exact ⟨l, deps, rfl, h4, hin⟩
    | error e =>
      exfalso
      -- every destination tile has a pixel box, and `tiles_pix_complete` makes every query succeed
      have hall : ∀ idx ∈ allTiles dst.g, ∃ dd, linearDeps dst.g src.g A idx = .ok dd := by
        intro idx hidx
        have hv := (mem_allTiles dst.g idx).1 hidx
        obtain ⟨ry, gy⟩ := Tiling.getItem_ok dst.g.tiles.y hd.g.y idx.1 hv.1
        obtain ⟨rx, gx⟩ := Tiling.getItem_ok dst.g.tiles.x hd.g.x idx.2 hv.2
        have hpb : pixBBox dst.g idx = .ok ⟨(rx.start : Int), (ry.start : Int), (rx.stop : Int), (ry.stop : Int)⟩ := by
          simp only [pixBBox, getItem2, zip2, gy, gx, bind, Except.bind, pure, Except.pure]
        obtain ⟨l', hl', _⟩ := tiles_pix_complete src.g hs.g
          ((BBox.mk (rx.start : Int) (ry.start : Int) (rx.stop : Int) (ry.stop : Int)).transform A).round
        exact ⟨l', by simp only [linearDeps, hpb, hl', bind, Except.bind]⟩
      have hok : ∃ l, gridIntersectLinear dst.g src.g A = .ok l := by
        have key : ∀ xs : List (Int × Int), (∀ idx ∈ xs, ∃ dd, linearDeps dst.g src.g A idx = .ok dd) →
            ∃ l, xs.mapM (fun idx => do let dd ← linearDeps dst.g src.g A idx; return (idx, dd)) = .ok l := by
          intro xs
          induction xs with
          | nil => intro _; exact ⟨[], rfl⟩
          | cons a as ih =>
            intro hx
            obtain ⟨da, hda⟩ := hx a List.mem_cons_self
            obtain ⟨rest, hrest⟩ := ih (fun idx hi => hx idx (List.mem_cons_of_mem _ hi))
            refine ⟨(a, da) :: rest, ?_⟩
            rw [List.mapM_cons]
            simp only [bind, Except.bind, pure, Except.pure] at hrest ⊢
            rw [hda]
            simp only [hrest]
        exact key (allTiles dst.g) hall
      obtain ⟨l, hl2⟩ := hok
      rw [hl] at hl2
      cases hl2

/-- **aligned grids (the re-chunk / mosaic case), no snapping hypothesis**: when the exact
destination-to-source pixel map has integer scale and integer translation (same resolution or an
integer zoom, whole-pixel offsets, mirrored or not), `snap_affine` returns it unchanged, the linear
path is taken with the exact map, and `grid_intersect` lists every source tile that shares the
interior of a pixel with a destination tile. -/
theorem grid_intersect_aligned_complete (dst src : TGB) (hd : dst.WF) (hs : src.WF)
    (ttol stol tol sttol : Rat) (h1 : 0 < ttol) (h2 : 0 < stol) (h3 : 0 < sttol) (ht : sttol ≤ tol) (fr : Foreign)
    (hc : src.crs = dst.crs) (hld : dst.linear = true) (hls : src.linear = true)
    (a c e f : Int) (hA : src.W.inv * dst.W = ⟨a, 0, c, 0, e, f⟩)
    (d s : Int × Int) (P : Rat × Rat) (hd1 : TileSees dst d P) (hs1 : TileSees src s P) :
    ∃ l deps, gridIntersect dst src ttol stol tol sttol fr = .ok l ∧ (d, deps) ∈ l ∧ s ∈ deps := by
  have hr : checkLinear src.W dst.W ttol stol tol sttol = .ok (some (src.W.inv * dst.W)) := by
    simp only [checkLinear, Aff.inv?, if_neg hs.det, bind, Except.bind, pure, Except.pure]
    rw [hA, snapAffine_int a c e f ttol stol tol h1 h2 (by linarith)]
    simp [rabs, h3]
  exact grid_intersect_same_crs_complete dst src hd hs ttol stol tol sttol ht fr hc hld hls _ hr
    (fun A h => by cases h; rfl) d s P hd1 hs1

/-! ## dispatch of `tiles(query)` -/

/-- a `BoundingBox` carrying the raster's CRS: every tile owning a pixel whose interior contains
(the pixel coordinates of) a point of the box is returned -/
theorem tiles_query_box_complete (t : TGB) (ht : t.WF) (c : Nat) (hc : t.crs = some c)
    (toCrs : Nat → Nat → Quad → Res Quad) (b : BBox) (u v : Rat) (hu : b.x1 ≤ u ∧ u ≤ b.x2)
    (hv : b.y1 ≤ v ∧ v ≤ b.y2) (rc : Int × Int) (hs : TileSees t rc (u, v)) :
    ∃ l, tilesQuery t toCrs (.box c b) = .ok l ∧ rc ∈ l := by
  refine ⟨tilesQuadL t (Quad.ofBBox b), ?_, tiles_quad_complete t ht _ (u, v) (ofBBox_contains b u v hu hv) rc hs⟩
  simp only [tilesQuery, tilesQuery.poly, hc, if_true]
  exact (tiles_quad_ok t ht _).1

/-- a convex geometry in the raster's CRS – or without CRS against a CRS-less raster (as
repaired: world coordinates of the raster) – is answered by `tilesQuad`, hence completely -/
theorem tiles_query_quad_complete (t : TGB) (ht : t.WF) (toCrs : Nat → Nat → Quad → Res Quad) (q : Quad)
    (P : Rat × Rat) (hq : q.Contains P) (rc : Int × Int) (hs : TileSees t rc P) :
    ∃ l, tilesQuery t toCrs (.quad t.crs q) = .ok l ∧ rc ∈ l := by
  refine ⟨tilesQuadL t q, ?_, tiles_quad_complete t ht q P hq rc hs⟩
  simp only [tilesQuery, tilesQuery.poly]
  cases h : t.crs with
  | none => exact (tiles_quad_ok t ht _).1
  | some tc => simp only [if_true]; exact (tiles_quad_ok t ht _).1

/-- query and raster disagree on *having* a CRS: the call raises, it never answers with tiles -/
theorem tiles_query_crs_mismatch_raises (t : TGB) (toCrs : Nat → Nat → Quad → Res Quad) (q : Quad) :
    (t.crs = none → ∀ c, tilesQuery t toCrs (.quad (some c) q) = .error .assertion) ∧
    (∀ tc, t.crs = some tc → tilesQuery t toCrs (.quad none q) = .error .valueError) := by
  constructor
  · intro h c; simp only [tilesQuery, tilesQuery.poly, h]
  · intro tc h; simp [tilesQuery, tilesQuery.poly, h]

/-- a pixel-domain box (BoundingBox without CRS) is the query of `Props/C12.tiles_pix_complete` -/
theorem tiles_query_pix (t : TGB) (toCrs : Nat → Nat → Quad → Res Quad) (b : BBox) :
    tilesQuery t toCrs (.pixBox b) = tilesFromPixBBox t.g b := rfl

/-! ## hypotheses are satisfiable; the defect repaired by fix2-C12 -/

/-- 8×8 image in 4×4 tiles, origin at (1000, 1000), no CRS -/
def tN : TGB := ⟨none, true, ⟨1, 0, 1000, 0, 1, 1000⟩, ⟨8, 8, ⟨.reg 8 4, .reg 8 4⟩⟩⟩
/-- the same raster rotated by 90° about its centre -/
def tR : TGB := ⟨none, true, ⟨0, -1, 1008, 1, 0, 1000⟩, ⟨8, 8, ⟨.reg 8 4, .reg 8 4⟩⟩⟩

example : tN.WF :=
  ⟨⟨by show (0:Int) < 4; decide, by show (0:Int) < 4; decide, rfl, rfl, by decide, by decide⟩, by decide +kernel⟩
example : tR.WF :=
  ⟨⟨by show (0:Int) < 4; decide, by show (0:Int) < 4; decide, rfl, rfl, by decide, by decide⟩, by decide +kernel⟩
example : TileSees tN (0, 0) (2001 / 2, 2001 / 2) :=
  ⟨⟨by decide, by decide⟩, ⟨0, 4⟩, ⟨0, 4⟩, 0, 0, by decide, by decide,
    by show (0:Int) ≤ 0 ∧ (0:Int) < 4; decide, by show (0:Int) ≤ 0 ∧ (0:Int) < 4; decide, by decide, by decide,
    by decide +kernel, by decide +kernel⟩
example : (Quad.ofBBox ⟨0, 0, 2, 2⟩).Contains (1, 1) := ofBBox_contains _ 1 1 (by decide) (by decide)
example : checkLinear tN.W tN.W (1 / 1000) (1 / 1000000) (1 / 100000000) (1 / 10000000000) = .ok (some Aff.id) := by
  decide +kernel
example : ∀ A, some Aff.id = some A → A = tN.W.inv * tN.W := by
  intro A h; cases h; decide +kernel

example : tN.W.inv * (⟨1, 0, 1002, 0, 1, 1000⟩ : Aff) = ⟨((1 : Int) : Rat), 0, ((2 : Int) : Rat), 0, ((1 : Int) : Rat), ((0 : Int) : Rat)⟩ := by
  decide +kernel

/-- as repaired, the rotated CRS-less pair has its four dependencies … -/
theorem rotated_no_crs_graph :
    gridIntersectSameCrs tR tN = .ok [((0, 0), [(0, 1)]), ((0, 1), [(1, 1)]), ((1, 0), [(0, 0)]), ((1, 1), [(1, 0)])] := by
  decide +kernel

/-- … **as found** the candidates of the source footprint were taken from its *world* bounding
box read as pixels: only the clamped corner tile `(1, 1)` was ever looked at, so three of the four
destination tiles had no entry at all (replayed on the real code: key
`grid-intersect-misses-dependency`, crs `None`). -/
theorem no_crs_candidates_as_found_cex :
    candidatesAsFound tR tN.extent = .ok [(1, 1)] ∧
    candidatesWorld tR.g tR.W id tN.extent.bbox = .ok [(0, 0), (0, 1), (1, 0), (1, 1)] := by
  decide +kernel

end OdcGeo.C12
