/-
C20 — the public glue of `odc.geo.math` (`Model/C20Glue.lean`): `Poly2d` construction and call forms, `Bin1D.__eq__`,
`apply_affine`, `stack_xy` / `unstack_xy`, the `ndarray` variant of `decompose_rws`, `maybe_zero`, `clamp`.
-/
import OdcGeo.Model.C20Glue
import OdcGeo.Lemmas.C20f
import OdcGeo.Lemmas.C20g
import OdcGeo.Props.C20

namespace OdcGeo.C20

/-! ## `Poly2d.__init__` -/

/-- **`Poly2d(cc, A)` accepts exactly the coefficient tables of shape `(3, 3, 2)` and `(2, 2, 2)`** and keeps the table
(reshaped `k×k`) and the input transform as given. -/
theorem poly_mk_spec (shape : List Nat) (cc : List (Rat × Rat)) (A : Aff) :
    (shape = [3, 3, 2] → Poly2d.mk? shape cc A = .ok ⟨Poly2d.reshape 3 cc, A⟩) ∧
    (shape = [2, 2, 2] → Poly2d.mk? shape cc A = .ok ⟨Poly2d.reshape 2 cc, A⟩) ∧
    (shape ≠ [3, 3, 2] → shape ≠ [2, 2, 2] → Poly2d.mk? shape cc A = .error .assertion) := by
  refine ⟨?_, ?_, ?_⟩
  · rintro rfl; rfl
  · rintro rfl; rfl
  · intro h3 h2
    unfold Poly2d.mk? Poly2d.shapeOk
    simp [h3, h2]

/-! ## `Poly2d.__call__` -/

theorem map_fst_zip_eval (P : Poly2d) (pts : List (Rat × Rat)) :
    ((pts.map fun p => (P.eval p).1), (pts.map fun p => (P.eval p).2)) =
      ((pts.map P.eval).map (·.1), (pts.map P.eval).map (·.2)) := by
  simp [List.map_map, Function.comp_def]

/-- **Two equally long arrays: element `i` of the result is the polynomial at `(x[i], y[i])`**, on both
normalisation branches (with or without rotation / shear in the input transform). -/
theorem poly_call_arrays_pointwise (P : Poly2d) (xs ys : List Rat) (h : xs.length = ys.length) :
    Poly2d.call2 P (.arr xs) (.arr ys) =
      .ok (((xs.zip ys).map P.eval).map (·.1), ((xs.zip ys).map P.eval).map (·.2)) := by
  unfold Poly2d.call2
  simp only [Poly2d.Arg.len?, h, Poly2d.broadcast2, if_true]
  rw [map_fst_zip_eval]
  split <;> rfl

/-- Two scalars: the value at the point. -/
theorem poly_call_scalars (P : Poly2d) (x y : Rat) :
    Poly2d.call2 P (.scalar x) (.scalar y) = .ok ([(P.eval (x, y)).1], [(P.eval (x, y)).2]) := by
  unfold Poly2d.call2
  simp only [Poly2d.Arg.len?, Poly2d.broadcast2, if_true, List.map_cons, List.map_nil]
  split <;> rfl

/-- **The `N×2` call form is the two-array form on the columns, transposed**: `P(pts)[i] = P(pts[i].x, pts[i].y)`. -/
theorem poly_call_nx2 (P : Poly2d) (pts : List (Rat × Rat)) :
    Poly2d.call2 P (.arr (pts.map (·.1))) (.arr (pts.map (·.2))) =
      .ok ((Poly2d.callN P pts).map (·.1), (Poly2d.callN P pts).map (·.2)) := by
  rw [poly_call_arrays_pointwise _ _ _ (by simp)]
  have : (pts.map (·.1)).zip (pts.map (·.2)) = pts := by
    induction pts with
    | nil => rfl
    | cons p ps ih => simp [ih]
  rw [this]; rfl

/-- **What HEAD does with a scalar against an array depends on the input transform**: with the scale/translation
shortcut the call is rejected (`polyval2d` wants equal shapes), with a rotated / sheared input transform the scalar is
broadcast.  (Observation about the code as it is; both behaviours are replayed by the correspondence.) -/
theorem poly_call_scalar_array_branch_dependent (P : Poly2d) (x : Rat) (ys : List Rat) :
    (P.safeToGrid = true → Poly2d.call2 P (.scalar x) (.arr ys) = .error .valueError) ∧
    (P.safeToGrid = false → Poly2d.call2 P (.scalar x) (.arr ys) =
      .ok ((ys.map fun y => (P.eval (x, y)).1), (ys.map fun y => (P.eval (x, y)).2))) := by
  constructor
  · intro h
    unfold Poly2d.call2
    simp [h, Poly2d.Arg.len?]
  · intro h
    unfold Poly2d.call2
    simp [h, Poly2d.broadcast2, List.map_map, Function.comp_def]

/-- Arrays of different lengths (neither of length one) are rejected on both branches: `ValueError` from `polyval2d`
with the shortcut, `TypeError` from `Affine.__mul__` otherwise. -/
theorem poly_call_rejects_unequal (P : Poly2d) (xs ys : List Rat) (h : xs.length ≠ ys.length)
    (h1 : xs.length ≠ 1) (h2 : ys.length ≠ 1) :
    Poly2d.call2 P (.arr xs) (.arr ys) = .error (if P.safeToGrid then .valueError else .typeError) := by
  unfold Poly2d.call2
  by_cases hs : P.safeToGrid = true
  · simp [hs, Poly2d.Arg.len?, h]
  · simp [hs, Poly2d.broadcast2, h, h1, h2]

/-- **`with_input_transform` through the array call form**: evaluating the chained polynomial on points is evaluating
the original on the transformed points. -/
theorem poly_call_with_input_transform (P : Poly2d) (A : Aff) (pts : List (Rat × Rat)) :
    Poly2d.callN (P.withInputTransform A) pts = Poly2d.callN P (pts.map A.apply) := by
  unfold Poly2d.callN
  rw [List.map_map]
  apply List.map_congr_left
  intro p _
  exact poly_with_input_transform P A p

/-- For the documented `N×2` input the general (any-rank) call form is the pointwise one. -/
theorem poly_call_last2_rank1 (P : Poly2d) (pts : List (Rat × Rat)) :
    Poly2d.callLast2 P [pts.length] pts = Poly2d.callN P pts := by
  unfold Poly2d.callLast2 Poly2d.callN Poly2d.transposeFlat
  simp only [List.prod_cons, List.prod_nil, mul_one, List.reverse_cons, List.reverse_nil, List.nil_append,
    Poly2d.unravel, Poly2d.ravel, Nat.div_one, add_zero]
  apply List.ext_getElem
  · simp
  · intro i h1 h2
    simp only [List.length_map, List.length_range] at h1
    simp [List.getD_eq_getElem?_getD, h1]

/-- **As found: an `a×b×2` array comes back as `b×a×2`** — `__call__` transposes the whole `(2, a, b)` result, so
`P(X)[j, i] = P(X[i, j])`.  Outside the documented contract ("x is assumed to be Nx2"); pinned here on a `2×3×2` input
with the identity-like polynomial `P(x, y) = (x, y)` and replayed by the correspondence. -/
theorem poly_call_nd_axis_reversal_cex :
    Poly2d.callLast2 ⟨[[(0, 0), (0, 1)], [(1, 0), (0, 0)]], ⟨1, 0, 0, 0, 1, 0⟩⟩ [2, 3]
      [(0, 0), (0, 1), (0, 2), (1, 0), (1, 1), (1, 2)] =
      [(0, 0), (1, 0), (0, 1), (1, 1), (0, 2), (1, 2)] := by decide +kernel

/-- Two equally shaped arrays of any rank: pointwise on the flattened data. -/
theorem poly_call_nd_pointwise (P : Poly2d) (xs ys : List Rat) (h : xs.length = ys.length) :
    Poly2d.call2 P (.arr xs) (.arr ys) = .ok (Poly2d.callNd P xs ys) := by
  rw [poly_call_arrays_pointwise P xs ys h]
  simp [Poly2d.callNd, List.map_map, Function.comp_def]

/-! ## `Bin1D.__eq__` -/

/-- `==` is equality of the three parameters. -/
theorem bin1d_eq_iff (a b : Bin1D) : Bin1D.beq a b = true ↔ a = b := by
  unfold Bin1D.beq
  cases a; cases b
  simp [and_assoc]

/-- **Two binnings are `==` exactly when they have the same intervals**: `a[idx] == b[idx]` for every index iff the
objects compare equal (for a non-zero bin size; the constructor demands `sz > 0`). -/
theorem bin1d_eq_iff_same_intervals (a b : Bin1D) (hsz : a.sz ≠ 0) :
    (∀ idx : Int, a.interval idx = b.interval idx) ↔ Bin1D.beq a b = true := by
  rw [bin1d_eq_iff]
  constructor
  · intro h
    have h0 := h 0
    have h1 := h 1
    simp only [Bin1D.interval, Prod.mk.injEq, Int.cast_zero, zero_mul, zero_add, Int.cast_one, one_mul] at h0 h1
    obtain ⟨ho, hs⟩ := h0
    have hsz' : a.sz = b.sz := by linarith
    have hd : (a.direction : Rat) = b.direction := by
      have := h1.1
      rw [ho, hsz'] at this
      have hb : b.sz ≠ 0 := hsz' ▸ hsz
      have h2 : b.sz * (a.direction : Rat) = b.sz * (b.direction : Rat) := by linarith
      exact mul_left_cancel₀ hb h2
    cases a; cases b
    simp only [Bin1D.mk.injEq] at *
    exact ⟨hsz', ho, by exact_mod_cast hd⟩
  · rintro rfl _; rfl

/-! ## `apply_affine`, `stack_xy`, `unstack_xy` -/

/-- **`apply_affine` is `A * (x_i, y_i)` element by element**; arrays of different sizes are rejected. -/
theorem apply_affine_pointwise (A : Aff) (xs ys : List Rat) :
    (xs.length = ys.length →
      applyAffine A xs ys = .ok (((xs.zip ys).map A.apply).map (·.1), ((xs.zip ys).map A.apply).map (·.2))) ∧
    (xs.length ≠ ys.length → applyAffine A xs ys = .error .valueError) := by
  unfold applyAffine
  constructor
  · intro h; simp [h, List.map_map, Function.comp_def]
  · intro h; simp [h]

/-- `unstack_xy(stack_xy(pts)) == pts`. -/
theorem stack_unstack_roundtrip (pts : List (Rat × Rat)) : unstackXy (stackXy pts) = .ok pts := by
  unfold unstackXy stackXy
  induction pts with
  | nil => rfl
  | cons p ps ih =>
    simp only [List.map_cons, List.mapM_cons, bind, Except.bind] at ih ⊢
    rw [ih]; rfl

/-! ## `decompose_rws` on an `ndarray` -/

/-- **The `Affine` variant of `decompose_rws` is the `ndarray` variant on its linear part**, the translation riding on
`R`; any other array shape fails the assertion. -/
theorem decompose_rws_nd_spec (A : Aff) (n p : Rat) :
    ∃ r, decomposeRwsNd [[A.a, A.b], [A.d, A.e]] n p = .ok r ∧
      decomposeRws A n p = ⟨⟨r.R.a, r.R.b, A.c, r.R.d, r.R.e, A.f⟩, r.W, r.S⟩ := by
  refine ⟨decomposeRws2 (m2 A.a A.b A.d A.e) n p, rfl, ?_⟩
  unfold decomposeRws decomposeRws2
  rfl

theorem decompose_rws_nd_rejects (rows : List (List Rat)) (n p : Rat)
    (h : ¬ ∃ a b d e, rows = [[a, b], [d, e]]) : decomposeRwsNd rows n p = .error .assertion := by
  unfold decomposeRwsNd
  split
  · rename_i a b d e
    exact absurd ⟨a, b, d, e, rfl⟩ h
  · rfl

/-! ## `maybe_zero`, `clamp` -/

/-- `maybe_zero`: values closer to zero than `tol` become `0`, all others are returned unchanged; idempotent. -/
theorem maybe_zero_spec (x tol : Rat) :
    (|x| < tol → maybeZero x tol = 0) ∧ (tol ≤ |x| → maybeZero x tol = x) ∧
      maybeZero (maybeZero x tol) tol = maybeZero x tol := by
  have habs : rabs x = |x| := by
    unfold rabs; split
    · rename_i h; rw [abs_of_neg h]
    · rename_i h; rw [abs_of_nonneg (not_lt.mp h)]
  unfold maybeZero
  rw [habs]
  refine ⟨fun h => if_pos h, fun h => if_neg (not_lt.mpr h), ?_⟩
  by_cases h : |x| < tol
  · rw [if_pos h]
    have : rabs 0 = 0 := by unfold rabs; simp
    rw [this]
    split <;> rfl
  · rw [if_neg h, habs, if_neg h]

/-- `clamp(x, lo, up)`: for `lo ≤ up` the nearest point of `[lo, up]` (so `x` itself when inside); `lo > up` fails the
assertion. -/
theorem clamp_spec (x lo up : Rat) :
    (lo ≤ up → ∃ r, clamp x lo up = .ok r ∧ lo ≤ r ∧ r ≤ up ∧ (lo ≤ x → x ≤ up → r = x) ∧
      ∀ z, lo ≤ z → z ≤ up → |x - r| ≤ |x - z|) ∧
    (¬ lo ≤ up → clamp x lo up = .error .assertion) := by
  constructor
  · intro h
    unfold clamp
    rw [if_neg (not_not.mpr h)]
    by_cases h1 : x < lo
    · refine ⟨lo, by rw [if_pos h1], le_refl _, h, fun hlo _ => absurd h1 (not_lt.mpr hlo), ?_⟩
      intro z hz _
      rw [abs_of_nonpos (by linarith), abs_of_nonpos (by linarith)]; linarith
    · by_cases h2 : x > up
      · refine ⟨up, by rw [if_neg h1, if_pos h2], h, le_refl _, fun _ hup => absurd h2 (not_lt.mpr hup), ?_⟩
        intro z _ hz
        rw [abs_of_nonneg (by linarith), abs_of_nonneg (by linarith)]; linarith
      · refine ⟨x, by rw [if_neg h1, if_neg h2], not_lt.mp h1, not_lt.mp h2, fun _ _ => rfl, ?_⟩
        intro z _ _
        simp
  · intro h
    unfold clamp
    rw [if_pos h]

/-! ## `affine_from_pts` with the executable least-squares instance -/

/-- **The executable solver of the model (`lstsqNormal`: normal equations by Cramer's rule) returns a least-squares
minimiser** — for any data, exact or noisy.  (This was an unproved assumption about the driver's instance; the fit
theorems of `Props/C20.lean` take "returns a minimiser" as a hypothesis on the solver.) -/
theorem lstsq_normal_is_minimiser (X Y : List (Rat × Rat)) (h : X.length = Y.length) {M : Aff}
    (hs : lstsqNormal X Y = some M) : ∀ M' : Aff, sqResidual M (X.zip Y) ≤ sqResidual M' (X.zip Y) :=
  lstsqNormal_minimiser X Y h hs

theorem affineFromPts_ok_length {lstsq : List (Rat × Rat) → List (Rat × Rat) → Option Aff} {X Y : List (Rat × Rat)}
    {M : Aff} (h : affineFromPts lstsq X Y = .ok M) : X.length = Y.length ∧ 3 ≤ X.length ∧ lstsq X Y = some M := by
  unfold affineFromPts at h
  split at h
  · exact absurd h (by simp)
  · rename_i h1
    split at h
    · exact absurd h (by simp)
    · rename_i h2
      split at h
      · rename_i M0 hM0
        have := Except.ok.inj h; subst this
        exact ⟨not_not.mp h1, by omega, hM0⟩
      · exact absurd h (by simp)

/-- **`affine_from_pts` as the driver runs it is a least-squares fit**: whenever it returns, what it returns minimises
the squared residual over all affine maps. -/
theorem affine_from_pts_normal_minimiser (X Y : List (Rat × Rat)) {M : Aff}
    (h : affineFromPts lstsqNormal X Y = .ok M) : ∀ M' : Aff, sqResidual M (X.zip Y) ≤ sqResidual M' (X.zip Y) := by
  obtain ⟨hl, _, hs⟩ := affineFromPts_ok_length h
  exact lstsqNormal_minimiser X Y hl hs

/-- **`affine_from_pts` reproduces an exactly affine correspondence** (`Y = A·X`, three sources not collinear) — now
without a hypothesis on the solver: the model's own instance is proved to be a minimiser. -/
theorem affine_from_pts_normal_exact (X Y : List (Rat × Rat)) (A M : Aff)
    (hexact : ∀ q ∈ X.zip Y, A.apply q.1 = q.2)
    (p q r : (Rat × Rat) × (Rat × Rat)) (hp : p ∈ X.zip Y) (hq : q ∈ X.zip Y) (hr : r ∈ X.zip Y)
    (hnc : (q.1.1 - p.1.1) * (r.1.2 - p.1.2) - (q.1.2 - p.1.2) * (r.1.1 - p.1.1) ≠ 0)
    (h : affineFromPts lstsqNormal X Y = .ok M) : M = A := by
  obtain ⟨hl, _, _⟩ := affineFromPts_ok_length h
  exact affine_from_pts_exact lstsqNormal X Y A M (fun M0 h0 => lstsqNormal_minimiser X Y hl h0) hexact p q r hp hq hr
    hnc h

/-- **Solvability**: the Gram determinant of the design matrix `[x y 1]` is positive as soon as three of the source
points are not collinear, so the normal equations have their (unique) solution: `affine_from_pts` returns, and what it
returns is a least-squares minimiser — for any targets. -/
theorem affine_from_pts_normal_total (X Y : List (Rat × Rat)) (hl : X.length = Y.length) (h3 : 3 ≤ X.length)
    (p q r : Rat × Rat) (hp : p ∈ X) (hq : q ∈ X) (hr : r ∈ X)
    (hnc : (q.1 - p.1) * (r.2 - p.2) - (q.2 - p.2) * (r.1 - p.1) ≠ 0) :
    ∃ M, affineFromPts lstsqNormal X Y = .ok M ∧ ∀ M' : Aff, sqResidual M (X.zip Y) ≤ sqResidual M' (X.zip Y) := by
  obtain ⟨M, hM⟩ := lstsqNormal_isSome Y hp hq hr hnc
  have hok : affineFromPts lstsqNormal X Y = .ok M := by
    unfold affineFromPts
    rw [if_neg (not_not.mpr hl), if_neg (by omega), hM]
  exact ⟨M, hok, lstsqNormal_minimiser X Y hl hM⟩

/-- **`affine_from_pts` reproduces an exactly affine correspondence — no hypothesis left about the solver or about it
returning**: equally many sources and targets, at least three, `Y = A·X` exactly, three sources not collinear ⟹ the
result is `A`. -/
theorem affine_from_pts_normal_exact_total (X Y : List (Rat × Rat)) (A : Aff) (hl : X.length = Y.length)
    (h3 : 3 ≤ X.length) (hexact : ∀ q ∈ X.zip Y, A.apply q.1 = q.2)
    (p q r : (Rat × Rat) × (Rat × Rat)) (hp : p ∈ X.zip Y) (hq : q ∈ X.zip Y) (hr : r ∈ X.zip Y)
    (hnc : (q.1.1 - p.1.1) * (r.1.2 - p.1.2) - (q.1.2 - p.1.2) * (r.1.1 - p.1.1) ≠ 0) :
    affineFromPts lstsqNormal X Y = .ok A := by
  have mem1 : ∀ z : (Rat × Rat) × (Rat × Rat), z ∈ X.zip Y → z.1 ∈ X := fun z hz => (List.of_mem_zip hz).1
  obtain ⟨M, hok, _⟩ := affine_from_pts_normal_total X Y hl h3 p.1 q.1 r.1 (mem1 p hp) (mem1 q hq) (mem1 r hr) hnc
  rw [hok, affine_from_pts_normal_exact X Y A M hexact p q r hp hq hr hnc hok]

/-! ## non-vacuity -/

example : affineFromPts lstsqNormal [(0, 0), (1, 0), (0, 1), (2, 3)] [(5, 7), (7, 7), (5, 4), (9, -2)] =
    .ok ⟨2, 0, 5, 0, -3, 7⟩ := by decide +kernel
example : affineFromPts lstsqNormal [(0, 0), (1, 0), (0, 1), (1, 1)] [(0, 0), (1, 0), (0, 1), (2, 2)] =
    .ok ⟨3 / 2, 1 / 2, -1 / 4, 1 / 2, 3 / 2, -1 / 4⟩ := by decide +kernel


example : Poly2d.call2 ⟨[[(1, 0), (0, 1)], [(2, 0), (0, 0)]], ⟨2, 0, 1, 0, 3, 1⟩⟩ (.arr [1, 2]) (.arr [3, 4]) =
    .ok ([7, 11], [10, 13]) := by decide +kernel
example : Bin1D.beq ⟨3, 1, 1⟩ ⟨3, 1, -1⟩ = false ∧ (⟨3, 1, 1⟩ : Bin1D).interval 1 ≠ (⟨3, 1, -1⟩ : Bin1D).interval 1 := by
  decide +kernel
example : decomposeRwsNd [[1, 0, 0], [0, 1, 0]] 1 1 = .error .assertion := by decide +kernel

end OdcGeo.C20
