/-
C12 — the linear path of the public `grid_intersect` with the map that `snap_affine` actually
returns (tolerances `ttol = 1e-3` px on the translation, `stol = 1e-6` on the scale).

`grid_intersect_same_crs_complete` covers maps that snapping leaves alone.  Here: completeness is
proved against the *snapped* map `A` (what the code uses), then transferred to the true map
`M = ~S·D` for every overlap that is at least as deep as the displacement `|A·u − M·u|`, and the
displacement of the translation part is bounded by the tolerance (`maybeInt_close`).
-/
import OdcGeo.Props.C12Gi
import Mathlib.Tactic.Linarith
import Mathlib.Algebra.Order.Field.Rat
import Mathlib.Algebra.Order.AbsoluteValue.Basic
import Mathlib.Tactic.FieldSimp
import Mathlib.Tactic.Positivity
import Mathlib.Tactic.Ring
namespace OdcGeo.C12
open OdcGeo OdcGeo.C17 OdcGeo.C04

/-- **linear path, the map the code uses.**  Two GeoBoxes of one CRS for which `_check_linear`
returns `A` (snapped or not): source tile `s` is listed for destination tile `d` whenever a point `u`
inside a pixel of `d` has its image `A·u` inside a pixel of `s`. -/
theorem grid_intersect_linear_snapped_complete (dst src : TGB) (hd : dst.WF) (hs : src.WF)
    (ttol stol tol sttol : Rat) (ht : sttol ≤ tol) (fr : Foreign)
    (hc : src.crs = dst.crs) (hld : dst.linear = true) (hls : src.linear = true)
    (A : Aff) (hr : checkLinear src.W dst.W ttol stol tol sttol = .ok (some A))
    (d s : Int × Int) (hvd : ValidTile dst.g d) (hvs : ValidTile src.g s)
    (sy1 sx1 sy2 sx2 : NSlice)
    (gy1 : dst.g.tiles.y.getItem (.idx d.1) = .ok sy1) (gx1 : dst.g.tiles.x.getItem (.idx d.2) = .ok sx1)
    (gy2 : src.g.tiles.y.getItem (.idx s.1) = .ok sy2) (gx2 : src.g.tiles.x.getItem (.idx s.2) = .ok sx2)
    (jy jx : Int) (my : sy2.Has jy) (mx : sx2.Has jx) (bjy : 0 ≤ jy ∧ jy < src.g.ny) (bjx : 0 ≤ jx ∧ jx < src.g.nx)
    (u v : Rat) (hu : (sx1.start : Rat) ≤ u ∧ u ≤ sx1.stop) (hv : (sy1.start : Rat) ≤ v ∧ v ≤ sy1.stop)
    (hx : (jx : Rat) < (A.apply (u, v)).1 ∧ (A.apply (u, v)).1 < jx + 1)
    (hy : (jy : Rat) < (A.apply (u, v)).2 ∧ (A.apply (u, v)).2 < jy + 1) :
    ∃ l deps, gridIntersect dst src ttol stol tol sttol fr = .ok l ∧ (d, deps) ∈ l ∧ s ∈ deps := by
  rw [grid_intersect_same_crs_dispatch dst src ttol stol tol sttol fr hc hld hls _ hr]
  simp only []
  obtain ⟨hb, hdz⟩ := check_linear_some_st src.W dst.W ttol stol tol sttol ht A hr
  have htb : pixBBox dst.g d = .ok ⟨(sx1.start : Int), (sy1.start : Int), (sx1.stop : Int), (sy1.stop : Int)⟩ := by
    simp only [pixBBox, getItem2, zip2, gy1, gx1, bind, Except.bind, pure, Except.pure]
  have ex : (A.apply (u, v)).1 = A.a * u + A.c := by simp only [Aff.apply, hb, zero_mul, add_zero]
  have ey : (A.apply (u, v)).2 = A.e * v + A.f := by simp only [Aff.apply, hdz, zero_mul, zero_add]
  obtain ⟨deps, hdeps, hin⟩ := linear_deps_complete dst.g src.g hs.g A hb hdz d _ htb s hvs.1 hvs.2 sy2 sx2 gy2 gx2
    jy jx my mx bjy bjx u v hu hv (by rw [← ex]; exact hx) (by rw [← ey]; exact hy)
  -- the table as a whole succeeds: every destination tile has a pixel box and every query succeeds
  have hall : ∀ idx ∈ allTiles dst.g, ∃ dd, linearDeps dst.g src.g A idx = .ok dd := by
    intro idx hidx
    have hv' := (mem_allTiles dst.g idx).1 hidx
    obtain ⟨ry, gy⟩ := Tiling.getItem_ok dst.g.tiles.y hd.g.y idx.1 hv'.1
    obtain ⟨rx, gx⟩ := Tiling.getItem_ok dst.g.tiles.x hd.g.x idx.2 hv'.2
    have hpb : pixBBox dst.g idx = .ok ⟨(rx.start : Int), (ry.start : Int), (rx.stop : Int), (ry.stop : Int)⟩ := by
      simp only [pixBBox, getItem2, zip2, gy, gx, bind, Except.bind, pure, Except.pure]
    obtain ⟨l', hl', _⟩ := tiles_pix_complete src.g hs.g
      ((BBox.mk (rx.start : Int) (ry.start : Int) (rx.stop : Int) (ry.stop : Int)).transform A).round
    exact ⟨l', by simp only [linearDeps, hpb, hl', bind, Except.bind]⟩
  have key : ∀ xs : List (Int × Int), (∀ idx ∈ xs, ∃ dd, linearDeps dst.g src.g A idx = .ok dd) →
      ∃ l, xs.mapM (fun idx => do let dd ← linearDeps dst.g src.g A idx; return (idx, dd)) = .ok l := by
    intro xs
    induction xs with
    | nil => intro _; exact ⟨[], rfl⟩
    | cons a as ih =>
      intro hx'
      obtain ⟨da, hda⟩ := hx' a List.mem_cons_self
      obtain ⟨rest, hrest⟩ := ih (fun idx hi => hx' idx (List.mem_cons_of_mem _ hi))
      refine ⟨(a, da) :: rest, ?_⟩
      rw [List.mapM_cons]
      simp only [bind, Except.bind, pure, Except.pure] at hrest ⊢
      rw [hda]
      simp only [hrest]
  obtain ⟨l, hl⟩ := key (allTiles dst.g) hall
  obtain ⟨deps', h3, h4⟩ := grid_intersect_linear_mem dst.g src.g A d hvd l hl
  rw [hdeps] at h3
  cases h3
  exact ⟨l, deps, hl, h4, hin⟩

/-- **transfer to the true map.**  If the true source coordinates `q` of the point lie at least `m`
inside source pixel `(jx, jy)` and snapping displaces the image by at most `m` in each coordinate,
then the snapped image is strictly inside that pixel – the premise of
`grid_intersect_linear_snapped_complete`.  (Overlaps shallower than the displacement – at most the
tolerances, see `maybeInt_close` – are the slivers the property excludes.) -/
theorem snapped_image_inside (A : Aff) (u v : Rat) (q : Rat × Rat) (m : Rat) (jx jy : Int)
    (hdx : rabs ((A.apply (u, v)).1 - q.1) ≤ m) (hdy : rabs ((A.apply (u, v)).2 - q.2) ≤ m)
    (hx : (jx : Rat) + m < q.1 ∧ q.1 < jx + 1 - m) (hy : (jy : Rat) + m < q.2 ∧ q.2 < jy + 1 - m) :
    ((jx : Rat) < (A.apply (u, v)).1 ∧ (A.apply (u, v)).1 < jx + 1) ∧
    ((jy : Rat) < (A.apply (u, v)).2 ∧ (A.apply (u, v)).2 < jy + 1) := by
  simp only [rabs] at hdx hdy
  constructor
  · split at hdx <;> constructor <;> linarith [hx.1, hx.2]
  · split at hdy <;> constructor <;> linarith [hy.1, hy.2]

theorem splitFloat_core (x t : Rat) (ht : -1 < x - t ∧ x - t < 1) :
    (if x - t > 1 / 2 then (t + 1, x - t - 1) else if x - t < -(1 / 2) then (t - 1, x - t + 1) else (t, x - t)).1 +
      (if x - t > 1 / 2 then (t + 1, x - t - 1) else if x - t < -(1 / 2) then (t - 1, x - t + 1) else (t, x - t)).2 = x ∧
    -(1 / 2) ≤ (if x - t > 1 / 2 then (t + 1, x - t - 1) else if x - t < -(1 / 2) then (t - 1, x - t + 1) else (t, x - t)).2 ∧
    (if x - t > 1 / 2 then (t + 1, x - t - 1) else if x - t < -(1 / 2) then (t - 1, x - t + 1) else (t, x - t)).2 ≤ 1 / 2 := by
  by_cases h1 : x - t > 1 / 2
  · rw [if_pos h1]; exact ⟨by ring, by linarith [ht.1], by linarith [ht.2]⟩
  · rw [if_neg h1]
    by_cases h2 : x - t < -(1 / 2)
    · rw [if_pos h2]; exact ⟨by ring, by linarith [ht.1], by linarith [ht.2]⟩
    · rw [if_neg h2]; exact ⟨by ring, by linarith, by linarith⟩

/-- `split_float`: whole + part, the part within half a unit -/
theorem splitFloat_spec (x : Rat) : (splitFloat x).1 + (splitFloat x).2 = x ∧
    -(1 / 2) ≤ (splitFloat x).2 ∧ (splitFloat x).2 ≤ 1 / 2 := by
  by_cases hx : x < 0
  · have h1 := Rat.floor_le (-x)
    have h2 := Rat.lt_floor_add_one (-x)
    push_cast at h2
    have := splitFloat_core x (-(((-x).floor : Int) : Rat)) ⟨by linarith, by linarith⟩
    simpa only [splitFloat, if_pos hx] using this
  · have h1 := Rat.floor_le x
    have h2 := Rat.lt_floor_add_one x
    push_cast at h2
    have := splitFloat_core x ((x.floor : Int) : Rat) ⟨by linarith, by linarith⟩
    simpa only [splitFloat, if_neg hx] using this

/-- **`maybe_int` moves a value by less than the tolerance** (the translation part of `snap_affine`:
`ttol = 1e-3` source pixels) -/
theorem maybeInt_close (x tol : Rat) (ht : 0 < tol) : rabs ((maybeInt x tol).1 - x) < tol := by
  obtain ⟨hs, _, _⟩ := splitFloat_spec x
  simp only [maybeInt]
  split
  · next hsn =>
    have e : (splitFloat x).1 - x = -(splitFloat x).2 := by linarith
    simp only [e]
    simp only [rabs] at hsn ⊢
    split at hsn <;> split <;> linarith
  · simp only [sub_self, rabs]
    split <;> linarith

/-- the translation of the snapped map differs from the true one by less than `ttol` (when the
rotation terms are within `tol`, i.e. whenever `snap_affine` snaps at all) -/
theorem snap_translation_close (M : Aff) (ttol stol tol : Rat) (ht : 0 < ttol)
    (hb : ¬ (rabs M.b > tol ∨ rabs M.d > tol)) :
    rabs ((snapAffine M ttol stol tol).c - M.c) < ttol ∧ rabs ((snapAffine M ttol stol tol).f - M.f) < ttol := by
  simp only [snapAffine, if_neg hb]
  exact ⟨maybeInt_close M.c ttol ht, maybeInt_close M.f ttol ht⟩

theorem rabs_eq_abs (x : Rat) : rabs x = |x| := by
  simp only [rabs]
  split
  · next h => rw [abs_of_neg h]
  · next h => rw [abs_of_nonneg (not_lt.1 h)]

/-- reciprocal branch of `snap_scale`: `1/s = w + p` with `|p| < tol`, `|s| < 1 - tol` ⇒ `|1/w - s| < tol` -/
theorem recip_snap_close (s w p tol : Rat) (ht : 0 < tol) (hs0 : s ≠ 0) (hs : |s| < 1 - tol)
    (hz : 1 / s = w + p) (hp : |p| < tol) : |1 / w - s| < tol := by
  have hspos : 0 < |s| := abs_pos.2 hs0
  have hz1 : 1 + tol < |1 / s| := by
    rw [abs_div, abs_one, lt_div_iff₀ hspos]
    nlinarith
  have hw1 : 1 < |w| := by
    have : |1 / s| ≤ |w| + |p| := by rw [hz]; exact abs_add_le w p
    linarith
  have hw0 : w ≠ 0 := by
    intro h; rw [h, abs_zero] at hw1; linarith
  have e : 1 / w - s = s * p / w := by
    have h1 : s * (w + p) = 1 := by rw [← hz]; field_simp
    field_simp
    linarith
  rw [e, abs_div, abs_mul, div_lt_iff₀ (by linarith)]
  have h1 : |s| * |p| < 1 * tol := by
    apply mul_lt_mul'' (by linarith) hp (abs_nonneg _) (abs_nonneg _)
  nlinarith [abs_nonneg s, abs_nonneg p]

/-- **`snap_scale` moves a scale by less than the tolerance** (`stol = 1e-6`), in every branch -/
theorem snapScale_close (s tol : Rat) (ht : 0 < tol) : rabs (snapScale s tol - s) < tol := by
  simp only [snapScale]
  split
  · exact maybeInt_close s tol ht
  · next h1 =>
    split
    · simp only [sub_self, rabs]; split <;> linarith
    · next h2 =>
      split
      · next hsn =>
        -- snapped through the reciprocal
        have hsn' : (maybeInt (1 / s) tol).2 = true := hsn
        simp only [maybeInt] at hsn' ⊢
        split at hsn'
        · next hp =>
          obtain ⟨hsum, _, _⟩ := splitFloat_spec (1 / s)
          rw [if_pos hp]
          rw [rabs_eq_abs] at hp h1 h2 ⊢
          have hs0 : s ≠ 0 := by
            intro h; rw [h, abs_zero] at h2; exact h2 ht
          exact recip_snap_close s _ _ tol ht hs0 (by linarith [not_le.1 h1]) hsum.symm hp
        · simp at hsn'
      · simp only [sub_self, rabs]; split <;> linarith

/-- the whole snapped map is within the tolerances of the true one, entry by entry -/
theorem snap_affine_close (M : Aff) (ttol stol tol : Rat) (h1 : 0 < ttol) (h2 : 0 < stol)
    (hb : ¬ (rabs M.b > tol ∨ rabs M.d > tol)) :
    rabs ((snapAffine M ttol stol tol).a - M.a) < stol ∧ rabs ((snapAffine M ttol stol tol).e - M.e) < stol ∧
    rabs ((snapAffine M ttol stol tol).c - M.c) < ttol ∧ rabs ((snapAffine M ttol stol tol).f - M.f) < ttol := by
  simp only [snapAffine, if_neg hb]
  exact ⟨snapScale_close M.a stol h2, snapScale_close M.e stol h2, maybeInt_close M.c ttol h1, maybeInt_close M.f ttol h1⟩

/-- **how far snapping moves the image of a point**: at destination pixel coordinates `(u, v)` the
snapped map differs from the true one by at most `stol·|u| + tol·|v| + ttol` source pixels per
coordinate – with `snapped_image_inside` and `grid_intersect_linear_snapped_complete`: every overlap
deeper than that is a dependency -/
theorem snap_displacement_le (M : Aff) (ttol stol tol : Rat) (h1 : 0 < ttol) (h2 : 0 < stol)
    (hb : ¬ (rabs M.b > tol ∨ rabs M.d > tol)) (u v : Rat) :
    rabs (((snapAffine M ttol stol tol).apply (u, v)).1 - (M.apply (u, v)).1) ≤ stol * rabs u + tol * rabs v + ttol ∧
    rabs (((snapAffine M ttol stol tol).apply (u, v)).2 - (M.apply (u, v)).2) ≤ tol * rabs u + stol * rabs v + ttol := by
  obtain ⟨ca, ce, cc, cf⟩ := snap_affine_close M ttol stol tol h1 h2 hb
  have hbb : rabs M.b ≤ tol := by
    by_contra h; exact hb (Or.inl (not_le.1 h))
  have hdd : rabs M.d ≤ tol := by
    by_contra h; exact hb (Or.inr (not_le.1 h))
  have eb : (snapAffine M ttol stol tol).b = 0 := by simp only [snapAffine, if_neg hb]
  have ed : (snapAffine M ttol stol tol).d = 0 := by simp only [snapAffine, if_neg hb]
  simp only [rabs_eq_abs] at *
  simp only [Aff.apply, eb, ed, zero_mul, add_zero, zero_add]
  constructor
  · have e : (snapAffine M ttol stol tol).a * u + (snapAffine M ttol stol tol).c - (M.a * u + M.b * v + M.c) =
        ((snapAffine M ttol stol tol).a - M.a) * u + (-(M.b) * v) + ((snapAffine M ttol stol tol).c - M.c) := by ring
    rw [e]
    have t1 := abs_add_three (((snapAffine M ttol stol tol).a - M.a) * u) (-(M.b) * v) ((snapAffine M ttol stol tol).c - M.c)
    rw [abs_mul, abs_mul, abs_neg] at t1
    have m1 : |(snapAffine M ttol stol tol).a - M.a| * |u| ≤ stol * |u| := mul_le_mul_of_nonneg_right ca.le (abs_nonneg u)
    have m2 : |M.b| * |v| ≤ tol * |v| := mul_le_mul_of_nonneg_right hbb (abs_nonneg v)
    linarith
  · have e : (snapAffine M ttol stol tol).e * v + (snapAffine M ttol stol tol).f - (M.d * u + M.e * v + M.f) =
        (-(M.d) * u) + ((snapAffine M ttol stol tol).e - M.e) * v + ((snapAffine M ttol stol tol).f - M.f) := by ring
    rw [e]
    have t1 := abs_add_three (-(M.d) * u) (((snapAffine M ttol stol tol).e - M.e) * v) ((snapAffine M ttol stol tol).f - M.f)
    rw [abs_mul, abs_mul, abs_neg] at t1
    have m1 : |(snapAffine M ttol stol tol).e - M.e| * |v| ≤ stol * |v| := mul_le_mul_of_nonneg_right ce.le (abs_nonneg v)
    have m2 : |M.d| * |u| ≤ tol * |u| := mul_le_mul_of_nonneg_right hdd (abs_nonneg u)
    linarith

/-! ## the padding of the different-CRS footprints -/

theorem rabs_nonneg' (x : Rat) : 0 ≤ rabs x := by rw [rabs_eq_abs]; exact abs_nonneg x

/-- **the footprint pad is at least `buffer` pixels on BOTH axes, mirrored rasters included**: the
distance handed to `buffer()` is `buffer · max(|res.x|, |res.y|)` (never negative, never the finer axis) -/
theorem footprint_pad_covers_pixels (t : TGB) (b n : Rat) (hb : 0 < b) :
    ∃ dist, (footprintParams t b n).1 = some dist ∧ b * rabs t.W.a ≤ dist ∧ b * rabs t.W.e ≤ dist ∧ 0 ≤ dist := by
  refine ⟨b * max (rabs t.W.a) (rabs t.W.e), by simp only [footprintParams, if_neg (ne_of_gt hb)], ?_, ?_, ?_⟩
  · exact mul_le_mul_of_nonneg_left (le_max_left _ _) hb.le
  · exact mul_le_mul_of_nonneg_left (le_max_right _ _) hb.le
  · exact mul_nonneg hb.le (le_trans (rabs_nonneg' _) (le_max_left _ _))

/-- the different-CRS branch of `grid_intersect` pads both rasters by two of their own pixels -/
theorem cross_footprints_padded_two_pixels (dst src : TGB) :
    (∃ d, (crossFootprintParams dst src).1.1 = some d ∧ 2 * rabs src.W.a ≤ d ∧ 2 * rabs src.W.e ≤ d) ∧
    (∃ d, (crossFootprintParams dst src).2.1 = some d ∧ 2 * rabs dst.W.a ≤ d ∧ 2 * rabs dst.W.e ≤ d) := by
  obtain ⟨d1, h1, a1, b1, _⟩ := footprint_pad_covers_pixels src 2 100 (by decide +kernel)
  obtain ⟨d2, h2, a2, b2, _⟩ := footprint_pad_covers_pixels dst 2 100 (by decide +kernel)
  exact ⟨⟨d1, h1, a1, b1⟩, ⟨d2, h2, a2, b2⟩⟩

example : rabs ((maybeInt (1000001 / 1000000) (1 / 1000)).1 - 1000001 / 1000000) < 1 / 1000 :=
  maybeInt_close _ _ (by decide +kernel)

end OdcGeo.C12
