/-
C06 for `_mpu.py` as repaired on branch `fix3-C06` (`Model/C06Fix.lean`: `maybe_write` asserts the writer's part
number range).  Under `main`'s capacity hypothesis the repaired code is the code as found, step by step, so the whole
of C06 carries over (`main_repaired`); without it the repaired `maybe_write` fails where the code as found handed the
writer a number beyond `max_part` (`max_part_repaired_cex` against `max_part_unchecked_cex`).
-/
import OdcGeo.Model.C06Fix
import OdcGeo.Props.C06Dask
import OdcGeo.Props.C06Ops

set_option linter.unusedVariables false
set_option linter.unusedSimpArgs false

namespace OdcGeo.C06
variable {α : Type}

/-- `maybe_write` only writes while it holds a write credit -/
theorem maybeWrite_writes_credit (W : Writer) (spill : Nat) (c c' : Chunk α) (ws : List (Part α))
    (h : maybeWrite W spill c = .ok (c', ws)) (hne : ws ≠ []) : 1 ≤ c.credits := by
  unfold maybeWrite at h
  by_cases h1 : c.credits - 1 < (if c.isFinal then (0 : Int) else 1)
  · simp only [h1, if_true, Except.ok.injEq, Prod.mk.injEq] at h
    exact absurd h.2.symm hne
  · split at h1 <;> omega

/-- every part the repaired `maybe_write` hands to the writer carries a number of the writer's range — whatever the
state of the chunk, no invariant, no capacity hypothesis -/
theorem maybeWriteR_in_range (W : Writer) (spill : Nat) (c c' : Chunk α) (ws : List (Part α))
    (h : maybeWriteR W spill c = .ok (c', ws)) (hne : ws ≠ []) : W.minPart ≤ c.next ∧ c.next ≤ W.maxPart := by
  unfold maybeWriteR at h
  cases hm : maybeWrite W spill c with
  | error e => simp [hm] at h
  | ok p =>
    obtain ⟨c1, w1⟩ := p
    simp only [hm] at h
    by_cases he : w1.isEmpty = true
    · simp only [he, if_true, Except.ok.injEq, Prod.mk.injEq] at h
      have : w1 = [] := by simpa using he
      exact absurd (h.2 ▸ this) hne
    · simp only [he, Bool.false_eq_true, if_false] at h
      by_cases hr : W.minPart ≤ c.next ∧ c.next ≤ W.maxPart
      · exact hr
      · simp [hr] at h

/-- **Inside the capacity the repair changes nothing**: under the invariant of a section whose part-number range
`[lo, hi)` lies within the writer's range the repaired `maybe_write` is `maybe_write`. -/
theorem maybeWriteR_eq {W : Writer} {c : Chunk α} {lo hi : Nat} {B : List α} {O : List (Nat × Int)} {fin : Bool}
    (spill : Nat) (h : Inv W c lo hi B O fin) (hlo : W.minPart ≤ lo) (hhi : hi ≤ W.maxPart + 1) :
    maybeWriteR W spill c = maybeWrite W spill c := by
  unfold maybeWriteR
  cases hm : maybeWrite W spill c with
  | error e => rfl
  | ok p =>
    obtain ⟨c1, w1⟩ := p
    by_cases he : w1.isEmpty = true
    · simp [he]
    · simp only [he, Bool.false_eq_true, if_false]
      have hne : w1 ≠ [] := by simpa using he
      have hc := maybeWrite_writes_credit W spill c c1 w1 hm hne
      have hr := h.range
      have hl := h.lo_le
      have : W.minPart ≤ c.next ∧ c.next ≤ W.maxPart := by
        refine ⟨le_trans hlo hl, ?_⟩
        have : (c.next : Int) + 1 ≤ hi := by omega
        omega
      simp [this]

theorem appendStepR_eq {W : Writer} {spill : Nat} {c : Chunk α} {ws : List (Part α)} {lo hi : Nat}
    {B : List α} {O : List (Nat × Int)} (h : Inv W c lo hi B O false) (hlo : W.minPart ≤ lo) (hhi : hi ≤ W.maxPart + 1)
    (ch : List α × Int) :
    appendStepR (some W) spill (.ok (c, ws)) ch = appendStep (some W) spill (.ok (c, ws)) ch := by
  have h1 := append_inv h ch.1 ch.2
  simp only [appendStepR, appendStep, maybeWriteR_eq spill h1 hlo hhi]
  by_cases hsp : spill = 0
  · simp only [hsp, if_true]
  · simp only [hsp, if_false]
    cases maybeWrite W spill (c.append ch.1 ch.2) with
    | error e => rfl
    | ok p => rfl

theorem foldl_appendStepR_eq {W : Writer} {spill : Nat} (chunks : List (List α × Int)) :
    ∀ {c : Chunk α} {ws : List (Part α)} {lo hi : Nat} {B : List α} {O : List (Nat × Int)},
    Inv W c lo hi B O false → c.parts = ws → W.minPart ≤ lo → hi ≤ W.maxPart + 1 →
    chunks.foldl (appendStepR (some W) spill) (.ok (c, ws)) = chunks.foldl (appendStep (some W) spill) (.ok (c, ws)) := by
  induction chunks with
  | nil => intros; rfl
  | cons ch rest ih =>
    intro c ws lo hi B O h hp hlo hhi
    obtain ⟨c1, ws1, e1, h1, hp1⟩ := appendStep_inv (spill := spill) h hp ch
    simp only [List.foldl_cons, appendStepR_eq h hlo hhi ch, e1]
    exact ih h1 hp1 hlo hhi

theorem appendChunksOpR_eq (W : Writer) (spill lo wpc : Nat) (fin : Bool) (chunks : List (List α × Int))
    (hlo : W.minPart ≤ lo) (hhi : lo + wpc ≤ W.maxPart + 1) :
    appendChunksOpR (some W) spill (mkChunk lo wpc fin W.minWrite : Chunk α) chunks
      = appendChunksOp (some W) spill (mkChunk lo wpc fin W.minWrite : Chunk α) chunks := by
  simp only [appendChunksOpR, appendChunksOp]
  rw [foldl_appendStepR_eq (spill := spill) chunks (mkChunk_inv (α := α) W lo wpc fin)
    (by simp [mkChunk] : ({ (mkChunk lo wpc fin W.minWrite : Chunk α) with isFinal := false }).parts = []) hlo hhi]
  generalize List.foldl (appendStep (some W) spill) _ chunks = x
  cases x with
  | error e => rfl
  | ok p => rfl

theorem mergeAndSpillR_eq {W : Writer} {spill : Nat} {l r : Chunk α} {lo mid hi : Nat} {Bl Br : List α}
    {Ol Or : List (Nat × Int)} {fin : Bool}
    (hl : Inv W l lo mid Bl Ol false) (hr : Inv W r mid hi Br Or fin)
    (hminP : W.minPart < lo) (hmax : mid ≤ W.maxPart + 1) (hhi : hi ≤ W.maxPart + 1) (hobs : (Ol ++ Or).length ≠ 0) :
    mergeAndSpillR (some W) spill l r = mergeAndSpill (some W) spill l r := by
  obtain ⟨m, wm, e, hm, hp⟩ := merge_inv hl hr hminP hmax hobs
  simp only [mergeAndSpillR, mergeAndSpill, e, maybeWriteR_eq spill hm (Nat.le_of_lt hminP) hhi]
  by_cases hsp : spill = 0
  · simp only [hsp, if_true]
  · simp only [hsp, if_false]
    cases maybeWrite W spill m with
    | error e => rfl
    | ok p => rfl

/-- the merge tree evaluates the same, node by node -/
theorem evalR_eq (W : Writer) (spill wpc : Nat) (markFinal : Bool) (total : Nat)
    (hcap : (⟨some W, spill, wpc, markFinal⟩ : Cfg).base total ≤ W.maxPart + 1) (t : Tree α) :
    ∀ idx, idx + t.leaves ≤ total → t.NonEmpty →
      evalR ⟨some W, spill, wpc, markFinal⟩ total t idx = eval ⟨some W, spill, wpc, markFinal⟩ total t idx := by
  induction t with
  | leaf chunks =>
    intro idx hle hne
    simp only [Tree.leaves] at hle
    have hb : (⟨some W, spill, wpc, markFinal⟩ : Cfg).base idx + wpc
        = (⟨some W, spill, wpc, markFinal⟩ : Cfg).base (idx + 1) := by
      simp only [Cfg.base, Nat.add_mul]; omega
    have hhi : (⟨some W, spill, wpc, markFinal⟩ : Cfg).base idx + wpc ≤ W.maxPart + 1 := by
      rw [hb]; exact le_trans (base_mono _ hle) hcap
    have hlo : W.minPart ≤ (⟨some W, spill, wpc, markFinal⟩ : Cfg).base idx := by
      simp only [Cfg.base, Cfg.minPart]; omega
    simpa [evalR, eval, Cfg.lhsKeep] using
      appendChunksOpR_eq (α := α) W spill _ wpc (markFinal && decide (idx + 1 = total)) chunks hlo hhi
  | node l r ihl ihr =>
    intro idx hle hne
    simp only [Tree.leaves] at hle
    have hlp := l.leaves_pos
    have hrp := r.leaves_pos
    simp only [evalR, eval, ihl idx (by omega) hne.1, ihr (idx + l.leaves) (by omega) hne.2]
    obtain ⟨cl, wl, el, hl, _⟩ := eval_inv W spill wpc markFinal total hcap l idx (by omega) hne.1
    obtain ⟨cr, wr, er, hr, _⟩ := eval_inv W spill wpc markFinal total hcap r (idx + l.leaves) (by omega) hne.2
    have hfl : (markFinal && decide (idx + l.leaves = total)) = false := by
      have : ¬ (idx + l.leaves = total) := by omega
      simp [this]
    rw [hfl] at hl
    have hminP : W.minPart < (⟨some W, spill, wpc, markFinal⟩ : Cfg).base idx := by
      simp only [Cfg.base, Cfg.minPart]; omega
    have hmax : (⟨some W, spill, wpc, markFinal⟩ : Cfg).base (idx + l.leaves) ≤ W.maxPart + 1 :=
      le_trans (base_mono _ (by omega)) hcap
    have hhi : (⟨some W, spill, wpc, markFinal⟩ : Cfg).base (idx + l.leaves + r.leaves) ≤ W.maxPart + 1 :=
      le_trans (base_mono _ (by omega)) hcap
    have hobs : (l.obs ++ r.obs).length ≠ 0 := by
      have := l.obs_ne_nil hne.1
      simp only [List.length_append]; omega
    simp only [el, er, mergeAndSpillR_eq (spill := spill) hl hr hminP hmax hhi hobs]
    cases mergeAndSpill (some W) spill cl cr with
    | error e => rfl
    | ok p => rfl

theorem runR_eq_of_evalR_eq (cfg : Cfg) (t : Tree α) (mkHdr mkFtr : Option (List (Nat × Int) → List α))
    (he : evalR cfg t.leaves t 0 = eval cfg t.leaves t 0) : runR cfg t mkHdr mkFtr = run cfg t mkHdr mkFtr := by
  simp only [runR, run, he]
  cases eval cfg t.leaves t 0 with
  | error e => rfl
  | ok p =>
    obtain ⟨root, ws⟩ := p
    simp only
    cases finalizer cfg.writer root (mkHdr.map fun f => f root.observed) (mkFtr.map fun f => f root.observed) with
    | error e => rfl
    | ok q => rfl

/-- **C06 for the repaired code, writer present**: word for word the conclusion of `main`, about `runR`. -/
theorem main_repaired (W : Writer) (spill wpc : Nat) (t : Tree α)
    (mkHdr mkFtr : Option (List (Nat × Int) → List α))
    (hne : t.NonEmpty) (hcap : W.minPart + 1 + t.leaves * wpc ≤ W.maxPart + 1) :
    ∃ wsF fp wsAll,
      runR ⟨some W, spill, wpc, mkFtr.isNone⟩ t mkHdr mkFtr = .ok (.written wsF fp, wsAll, t.obs) ∧
      partsBytes fp = optBytes (mkHdr.map (fun f => f t.obs)) ++ t.bytes ++
                      optBytes (mkFtr.map (fun f => f t.obs)) ∧
      fp.Pairwise (fun a b => a.id < b.id) ∧
      (∀ p ∈ fp, W.minPart ≤ p.id ∧ p.id ≤ W.maxPart) ∧
      (∀ p ∈ fp.dropLast, W.minWrite ≤ p.data.length) ∧
      List.Perm wsAll fp := by
  have hcap' : (⟨some W, spill, wpc, mkFtr.isNone⟩ : Cfg).base t.leaves ≤ W.maxPart + 1 := by
    simp only [Cfg.base, Cfg.minPart]; omega
  have he := evalR_eq W spill wpc mkFtr.isNone t.leaves hcap' t 0 (by omega) hne
  have hrun : runR ⟨some W, spill, wpc, mkFtr.isNone⟩ t mkHdr mkFtr = run ⟨some W, spill, wpc, mkFtr.isNone⟩ t mkHdr mkFtr :=
    runR_eq_of_evalR_eq _ t mkHdr mkFtr he
  rw [hrun]
  exact main W spill wpc t mkHdr mkFtr hne hcap

/-- without a writer `maybe_write` is never reached: nothing changes at all -/
theorem evalR_no_writer (spill wpc : Nat) (markFinal : Bool) (total : Nat) (t : Tree α) (idx : Nat) :
    evalR ⟨none, spill, wpc, markFinal⟩ total t idx = eval ⟨none, spill, wpc, markFinal⟩ total t idx := by
  have hstep : appendStepR (α := α) none spill = appendStep none spill := by
    funext acc ch
    cases acc with
    | error e => rfl
    | ok p => rfl
  induction t generalizing idx with
  | leaf chunks =>
    simp only [evalR, eval, appendChunksOpR, appendChunksOp, hstep]
    generalize List.foldl (appendStep none spill) _ chunks = x
    cases x with
    | error e => rfl
    | ok p => rfl
  | node l r ihl ihr =>
    simp only [evalR, eval, ihl, ihr]
    cases eval ⟨none, spill, wpc, markFinal⟩ total l idx with
    | error e => rfl
    | ok p =>
      obtain ⟨cl, wl⟩ := p
      simp only
      cases eval ⟨none, spill, wpc, markFinal⟩ total r (idx + l.leaves) with
      | error e => rfl
      | ok q =>
        obtain ⟨cr, wr⟩ := q
        simp only [mergeAndSpillR, mergeAndSpill]
        cases merge none cl cr with
        | error e => rfl
        | ok m => rfl

/-- **The repaired public entry point**: `mpu_write_end_to_end` holds for `mpuWriteR`, and inside the capacity the repaired
entry point is the entry point as found. -/
theorem mpu_write_repaired_eq (W : Writer) (spill wpc : Nat) (bags : List (List (List (List α × Int))))
    (mkHdr mkFtr : Option (List (Nat × Int) → List α))
    (hb : bags ≠ []) (hp : ∀ b ∈ bags, b ≠ []) (hc : ∀ b ∈ bags, ∀ p ∈ b, p ≠ [])
    (hcap : W.minPart + 1 + bags.flatten.length * wpc ≤ W.maxPart + 1) :
    mpuWriteR (some W) spill wpc bags mkHdr mkFtr = mpuWrite (some W) spill wpc bags mkHdr mkFtr := by
  obtain ⟨t, ht, _, _, hleaves, hne⟩ := mpu_write_tree_leaves mpuWriteSplitEvery (by decide) bags hb hp
  have hbe : bags.isEmpty = false := by cases bags <;> simp_all
  have hcap' : (⟨some W, spill, wpc, mkFtr.isNone⟩ : Cfg).base t.leaves ≤ W.maxPart + 1 := by
    simp only [Cfg.base, Cfg.minPart, hleaves]; omega
  have he := evalR_eq W spill wpc mkFtr.isNone t.leaves hcap' t 0 (by omega) (hne hc)
  simp only [mpuWriteR, mpuWrite, hbe, Bool.false_eq_true, if_false, ht, Option.map_some,
    runR_eq_of_evalR_eq _ t mkHdr mkFtr he]

/-- the witness of finding `part-number-above-max-part-unchecked` on the repaired code: the run now FAILS (loudly) instead of
finishing with parts 5 and 6 for a writer that allows 1..3 (`max_part_unchecked_cex` is the same input as found) -/
theorem max_part_repaired_cex :
    (match runR (α := Nat) ⟨some ⟨2, 1, 3⟩, 2, 3, true⟩ (.node (.leaf [(List.replicate 8 7, 0)]) (.leaf [(List.replicate 8 7, 1)]))
        none none with
     | .error .assertion => true
     | _ => false) = true := by decide

/-! non-vacuity -/
example : (match maybeWriteR ⟨2, 1, 100⟩ 2 ({ (mkChunk 2 2 false 2 : Chunk Nat) with data := [1, 2, 3, 4, 5, 6] }) with
    | .ok (_, ws) => ws.map (·.id) == [2]
    | .error _ => false) = true := by decide

end OdcGeo.C06
