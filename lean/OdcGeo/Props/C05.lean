/- C05 — property theorems only. -/
import OdcGeo.Model.C05
namespace OdcGeo.C05

end OdcGeo.C05
