/-
C05 — the parallel (dask) COG writer produces a correct, overview-first GeoTIFF.

Property theorems only, about the model `OdcGeo/Model/C05.lean` (which mirrors
`odc/geo/cog/_shared.py`, `_tifffile.py` at the `fix-C05` branch).  All statements are for
arbitrary sizes, block lists, sample counts, observed streams.

Assumed by name (owned by C06, not proved here): `C06.main` — the bytes handed to the parts
writer, concatenated in part order, equal `header ++ tiles in stream order`.  With it,
"position in the observed stream" (`streamOff`) *is* "offset in the file"; the harness checks
that on every file it writes (offset order = `writeOrder`, gap-free from header size to EOF).
So `file_is_header_then_tiles` of DESIGN §4 is `C06.main` + `tile_info_exact` + `patch_hdr_exact`.
-/
import OdcGeo.Model.C05
import OdcGeo.Lemmas.C05
import Mathlib.Tactic.Ring
import Mathlib.Tactic.Linarith
import Mathlib.Data.List.Nodup

namespace OdcGeo.C05

/-! ## tile sizes -/

/-- every tile size the writer uses is a multiple of 16 (`adjust_blocksize`, any `dim`) -/
theorem blocksize_mult16 (block dim : Nat) : 16 ∣ adjustBlocksize block dim := by
  unfold adjustBlocksize
  split <;> exact alignUp_dvd _ 16 (by decide)

/-- … and rounds the governing size (image side if smaller than the block, else the block) up
by less than 16 -/
theorem blocksize_bounds (block dim : Nat) :
    let g := if 0 < dim ∧ dim < block then dim else block
    g ≤ adjustBlocksize block dim ∧ adjustBlocksize block dim < g + 16 := by
  unfold adjustBlocksize
  split
  · exact ⟨alignUp_ge _ 16 (by decide), alignUp_lt _ 16 (by decide)⟩
  · exact ⟨alignUp_ge _ 16 (by decide), alignUp_lt _ 16 (by decide)⟩

theorem blocksize_pos (block dim : Nat) (hb : 0 < block) : 0 < adjustBlocksize block dim := by
  have := blocksize_bounds block dim
  simp only at this
  split at this <;> omega

theorem norm_blocksize_mult16 (b : Blk) : 16 ∣ (normBlocksize b).y ∧ 16 ∣ (normBlocksize b).x := by
  cases b <;> simp only [normBlocksize] <;> exact ⟨blocksize_mult16 _ _, blocksize_mult16 _ _⟩

/-- `compute_cog_spec` adjusts an already adjusted tile again: a no-op -/
theorem adjust_idem (b : Nat) : adjustBlocksize (adjustBlocksize b) = adjustBlocksize b := by
  have h : ∀ x, adjustBlocksize x = alignUp x 16 := by intro x; simp [adjustBlocksize]
  rw [h, h]
  exact alignUp_of_dvd _ 16 (by decide) (alignUp_dvd _ 16 (by decide))

/-! ## number of overviews: the `while` loop -/

/-- `num_overviews(block, dim)` is the least `k` with `⌊dim / 2^k⌋ ≤ block`: iterated
floor-halving equals one floor division, and no smaller exponent fits. -/
theorem num_overviews_spec (block dim : Nat) :
    dim / 2 ^ numOverviews block dim ≤ block ∧ ∀ j, j < numOverviews block dim → block < dim / 2 ^ j :=
  numOverviewsFuel_least dim block dim (Nat.le_refl _)

theorem num_overviews_least (block dim k : Nat) (h : dim / 2 ^ k ≤ block) : numOverviews block dim ≤ k := by
  rcases Nat.lt_or_ge k (numOverviews block dim) with hlt | hge
  · have := (num_overviews_spec block dim).2 k hlt; omega
  · exact hge

/-- termination: the iteration budget is never what stops the loop — any budget `≥ dim`
gives the same count (the loop runs at most `dim` times because `dim` strictly decreases
while `block < dim`). -/
theorem num_overviews_fuel_irrelevant (fuel block dim : Nat) (h : dim ≤ fuel) :
    numOverviewsFuel fuel block dim = numOverviews block dim :=
  leastHalvings_unique (numOverviewsFuel_least fuel block dim h) (num_overviews_spec block dim)

example : numOverviews 32 1023 = 5 ∧ numOverviews 256 78 = 0 ∧ numOverviews 16 300 = 5 := by decide

/-! ## padded shape -/

/-- `compute_cog_spec` without `max_pad`: each side is padded up (never cropped, never moved:
the GeoBox is `expand`ed, which keeps the affine) by less than `2^n` to a multiple of `2^n`;
`n` is the larger of the two overview counts. -/
theorem padded_shape (shape tile : YX) :
    let r := computeCogSpec shape tile
    let n := r.2.2
    n = max (numOverviews (adjustBlocksize tile.x) shape.x) (numOverviews (adjustBlocksize tile.y) shape.y) ∧
    r.2.1 = ⟨adjustBlocksize tile.y, adjustBlocksize tile.x⟩ ∧
    shape.y ≤ r.1.y ∧ r.1.y < shape.y + 2 ^ n ∧ 2 ^ n ∣ r.1.y ∧
    shape.x ≤ r.1.x ∧ r.1.x < shape.x + 2 ^ n ∧ 2 ^ n ∣ r.1.x := by
  intro r n
  have hp : ∀ n, 0 < 2 ^ n := fun n => Nat.two_pow_pos n
  refine ⟨rfl, rfl, ?_⟩
  have hr : r.1 = ⟨alignUp shape.y (2 ^ n), alignUp shape.x (2 ^ n)⟩ := by
    simp only [r, n, computeCogSpec]; rw [if_pos (hp _)]
  rw [hr]
  exact ⟨alignUp_ge _ _ (hp _), alignUp_lt _ _ (hp _), alignUp_dvd _ _ (hp _),
    alignUp_ge _ _ (hp _), alignUp_lt _ _ (hp _), alignUp_dvd _ _ (hp _)⟩

/-- `align_down_pow2(x)` for `x ≥ 1`: the largest power of two not above `x` -/
theorem alignDownPow2_spec (x : Nat) (hx : 1 ≤ x) :
    (∃ k, alignDownPow2 x = 2 ^ k) ∧ alignDownPow2 x ≤ x ∧ x < 2 * alignDownPow2 x := by
  unfold alignDownPow2
  rw [if_neg (by omega)]
  exact pow2Below_spec x 1 x (Nat.le_refl _) hx (by omega) ⟨0, rfl⟩


/-- `compute_cog_spec(…, max_pad=mp)`: the padding unit is `2^n` unless `mp` is smaller, then it is
the largest power of two `≤ mp` (no padding at all for `mp = 0`); each side is padded up by less
than that unit to a multiple of it, so never by more than `mp` when `mp` limits it. -/
theorem padded_shape_maxpad (shape tile : YX) (mp : Nat) :
    let r := computeCogSpec shape tile (some mp)
    let n := r.2.2
    let pad := if mp < 2 ^ n then (if mp = 0 then 0 else alignDownPow2 mp) else 2 ^ n
    n = (computeCogSpec shape tile).2.2 ∧
    (pad = 0 → r.1 = shape) ∧
    (0 < pad → shape.y ≤ r.1.y ∧ r.1.y < shape.y + pad ∧ pad ∣ r.1.y ∧
               shape.x ≤ r.1.x ∧ r.1.x < shape.x + pad ∧ pad ∣ r.1.x) ∧
    (mp < 2 ^ n → pad ≤ mp) ∧ (pad = 0 ∨ ∃ k, pad = 2 ^ k) := by
  intro r n pad
  have hr : r.1 = if pad > 0 then ⟨alignUp shape.y pad, alignUp shape.x pad⟩ else shape := rfl
  refine ⟨rfl, ?_, ?_, ?_, ?_⟩
  · intro h0; rw [hr, if_neg (by omega)]
  · intro hp
    rw [hr, if_pos hp]
    exact ⟨alignUp_ge _ _ hp, alignUp_lt _ _ hp, alignUp_dvd _ _ hp,
      alignUp_ge _ _ hp, alignUp_lt _ _ hp, alignUp_dvd _ _ hp⟩
  · intro hlt
    simp only [pad, if_pos hlt]
    split
    · omega
    · rename_i h0; exact (alignDownPow2_spec mp (by omega)).2.1
  · simp only [pad]
    split
    · split
      · left; rfl
      · rename_i h0; right; exact (alignDownPow2_spec mp (by omega)).1
    · right; exact ⟨n, rfl⟩

/-- F19 witness: the padding can cross a tile boundary — 272 rows with 16-pixel tiles are padded
to 288 rows = 18 tile rows, the unpadded source has only 17 chunk rows (the writer now pads
the source, `_pad_to_cog_shape`). -/
theorem padding_adds_tile_cex :
    let p := (computeCogSpec ⟨272, 16⟩ ⟨16, 16⟩).1
    (Meta.chunked ⟨1, p, ⟨16, 16⟩⟩).y = 18 ∧ (Meta.chunked ⟨1, ⟨272, 16⟩, ⟨16, 16⟩⟩).y = 17 := by
  decide

/-! ## the level loop of the header writer -/

/-- `levels_halve` + `header_levels_total`: for **every** image of at least 1×1 pixels (also
with sides `≤ 2^n`), any block list and with or without a GeoBox, the level loop returns
`n + 1` levels without error; level `k` has shape exactly `p / 2^k` (`shape_k · 2^k = p`,
never rounded), at least 1×1 pixels, the tile prescribed by the cycled block list, and the
GeoBox affine `A · scale(2^k)`. -/
theorem header_levels_total (im : YX) (hy : 1 ≤ im.y) (hx : 1 ≤ im.x) (bs : List Blk) (last : Blk)
    (g : Option Aff) :
    let p := (computeCogSpec im (normBlocksize last)).1
    let n := (computeCogSpec im (normBlocksize last)).2.2
    ∃ lv, levelLoop (blockAt bs last) n (n + 1) 0 p g = .ok lv ∧ lv.length = n + 1 ∧
      ∀ k (hk : k < lv.length),
        lv[k].shape.y * 2 ^ k = p.y ∧ lv[k].shape.x * 2 ^ k = p.x ∧
        1 ≤ lv[k].shape.y ∧ 1 ≤ lv[k].shape.x ∧
        lv[k].tile = normBlocksize (blockAt bs last k) ∧
        16 ∣ lv[k].tile.y ∧ 16 ∣ lv[k].tile.x ∧
        lv[k].aff = g.map (fun A => A * Aff.scale (2 ^ k) (2 ^ k)) := by
  intro p n
  obtain ⟨_, _, h1, _, ⟨cy, hcy⟩, h2, _, ⟨cx, hcx⟩⟩ := padded_shape im (normBlocksize last)
  have hpy : p.y = 2 ^ n * cy := hcy
  have hpx : p.x = 2 ^ n * cx := hcx
  have hcy0 : 0 < cy := by
    rcases Nat.eq_zero_or_pos cy with h | h
    · subst h; have : p.y = 0 := by rw [hpy]; simp
      have : im.y ≤ p.y := h1
      omega
    · exact h
  have hcx0 : 0 < cx := by
    rcases Nat.eq_zero_or_pos cx with h | h
    · subst h; have : p.x = 0 := by rw [hpx]; simp
      have : im.x ≤ p.x := h2
      omega
    · exact h
  obtain ⟨lv, hlv, hlen, hall⟩ := levelLoop_spec (blockAt bs last) n (n + 1) 0 p g (by omega)
    ⟨cy, hcy0, by rw [hpy, Nat.add_sub_cancel, Nat.mul_comm]⟩
    ⟨cx, hcx0, by rw [hpx, Nat.add_sub_cancel, Nat.mul_comm]⟩
  refine ⟨lv, hlv, hlen, ?_⟩
  intro k hk
  obtain ⟨a1, a2, a3, a4, a5, a6⟩ := hall k hk
  simp only [Nat.zero_add] at a5
  exact ⟨a1, a2, a3, a4, a5, a5 ▸ (norm_blocksize_mult16 _).1, a5 ▸ (norm_blocksize_mult16 _).2, a6⟩

/-- the same at the level of `_make_empty_cog`: whenever the axis order is determined and the
image has at least 1×1 pixels and the block list is not empty, the call succeeds -/
theorem make_empty_cog_total (shape : List Nat) (gbox : Option (YX × Aff)) (bs : List Blk)
    (ax : Axis) (yd : Nat) (im : YX) (ns : Nat) (last : Blk)
    (hax : yaxisFromShape shape (gbox.map (·.1)) = .ok (ax, yd))
    (him : imShape ax shape = some (im, ns)) (hlast : bs.getLast? = some last)
    (hy : 1 ≤ im.y) (hx : 1 ≤ im.x) :
    ∃ c, makeEmptyCog shape gbox bs = .ok c ∧ c.axis = ax ∧ c.nsamples = ns ∧
      c.nlevels = (computeCogSpec im (normBlocksize last)).2.2 ∧ c.levels.length = c.nlevels + 1 := by
  obtain ⟨lv, hlv, hlen, _⟩ := header_levels_total im hy hx bs last (gbox.map (·.2))
  refine ⟨⟨ax, ns, if ax = .SYX then ns else 1, _, lv⟩, ?_, rfl, rfl, rfl, hlen⟩
  simp only [makeEmptyCog, makeEmptyCogWith, hax, him, hlast]
  rw [hlv]

/-- every IFD of a header has the same number of planes (hypothesis of
`write_order_stream_exact`) -/
theorem cog_metas_planes (c : Cog) : ∀ m ∈ c.metas, m.planes = c.planes := by
  intro m hm
  simp only [Cog.metas, List.mem_map] at hm
  obtain ⟨l, _, rfl⟩ := hm
  rfl

/-- F18 witness: the loop as it was before the repair (shrink + `zoom_to` after *every* level)
divides by zero for an 8×200 image with 32-pixel tiles and a GeoBox … -/
theorem header_levels_prefix_cex :
    makeEmptyCogPreFix [8, 200] (some (⟨8, 200⟩, ⟨1, 0, 0, 0, -1, 0⟩)) [.one 32] = .error .zeroDiv := by
  decide +kernel

/-- … while without a GeoBox the old loop succeeded, and the repaired loop succeeds with it. -/
theorem header_levels_prefix_nogbox :
    (makeEmptyCogPreFix [8, 200] none [.one 32]).toOption.map (·.levels.length) = some 4 ∧
    (makeEmptyCog [8, 200] (some (⟨8, 200⟩, ⟨1, 0, 0, 0, -1, 0⟩)) [.one 32]).toOption.map
      (·.levels.length) = some 4 := by
  decide +kernel

/-- axis order: a GeoBox that matches the last two axes (and not the first two) makes the image
band-first, whatever its width … -/
theorem yaxis_gbox_decides (a b c : Nat) (g : YX) (h1 : g ≠ ⟨a, b⟩) (h2 : g = ⟨b, c⟩) :
    yaxisFromShape [a, b, c] (some g) = .ok (.SYX, 1) := by
  subst h2
  have : ¬ ((⟨b, c⟩ : YX) = ⟨a, b⟩) := h1
  simp [yaxisFromShape, this]

/-- … which the order of tests before the repair got wrong for 3- or 4-pixel-wide images. -/
theorem yaxis_prefix_cex : yaxisFromShapePreFix [2, 8, 3] (some ⟨8, 3⟩) = .ok (.YXS, 0) := by decide

/-- default block list (`blocksize` unset): both entries normalise to positive tiles, also for
1-pixel chunks (repaired) -/
theorem default_blocksize_pos (cy cx : Nat) (hy : 1 ≤ cy) (hx : 1 ≤ cx) :
    ∀ b ∈ defaultBlocksize cy cx, 0 < (normBlocksize b).y ∧ 0 < (normBlocksize b).x := by
  intro b hb
  simp only [defaultBlocksize, List.mem_cons, List.not_mem_nil, or_false] at hb
  rcases hb with rfl | rfl
  · simp only [normBlocksize]; exact ⟨blocksize_pos _ _ (by omega), blocksize_pos _ _ (by omega)⟩
  · simp only [normBlocksize]; exact ⟨blocksize_pos _ _ (by omega), blocksize_pos _ _ (by omega)⟩

/-! ## tile enumeration and flat index -/

theorem mem_tidx (m : Meta) (s y x : Nat) :
    (s, y, x) ∈ m.tidx ↔ s < m.planes ∧ y < m.chunked.y ∧ x < m.chunked.x := by
  simp only [Meta.tidx, List.mem_flatMap, List.mem_map, List.mem_range, Prod.mk.injEq]
  constructor
  · rintro ⟨s', hs, y', hy, x', hx, rfl, rfl, rfl⟩; exact ⟨hs, hy, hx⟩
  · rintro ⟨hs, hy, hx⟩; exact ⟨s, hs, y, hy, x, hx, rfl, rfl, rfl⟩

/-- `flat_tile_idx` accepts exactly the indices inside the tile grid -/
theorem flat_tile_idx_ok (m : Meta) (s y x : Nat) :
    m.flatTileIdx s y x = if s < m.planes ∧ y < m.chunked.y ∧ x < m.chunked.x
      then .ok (m.flatRaw s y x) else .error .indexError := by
  unfold Meta.flatTileIdx
  by_cases h : s < m.planes ∧ y < m.chunked.y ∧ x < m.chunked.x
  · rw [if_pos h, if_neg (by omega)]; simp
  · rw [if_neg h, if_pos (by omega)]

/-- `flat_idx_bijection`, enumeration form: the `i`-th tile enumerated by `tidx()` has flat index
`i`, and there are `num_tiles` of them. -/
theorem flat_idx_enum (m : Meta) :
    m.tidx.map (fun t => m.flatTileIdx t.1 t.2.1 t.2.2) = (List.range m.numTiles).map .ok := by
  rw [← tidx_map_flat m, List.map_map]
  apply List.map_congr_left
  rintro ⟨s, y, x⟩ ht
  rw [mem_tidx] at ht
  simp [flat_tile_idx_ok, ht]

theorem flat_idx_lt (m : Meta) (s y x : Nat) (h : s < m.planes ∧ y < m.chunked.y ∧ x < m.chunked.x) :
    m.flatRaw s y x < m.numTiles := by
  have : m.flatRaw s y x ∈ m.tidx.map (fun t => m.flatRaw t.1 t.2.1 t.2.2) :=
    List.mem_map.mpr ⟨(s, y, x), (mem_tidx m s y x).mpr h, rfl⟩
  rw [tidx_map_flat] at this
  exact List.mem_range.mp this

/-- injective on the tile grid -/
theorem flat_idx_inj (m : Meta) (s y x s' y' x' : Nat)
    (h : s < m.planes ∧ y < m.chunked.y ∧ x < m.chunked.x)
    (h' : s' < m.planes ∧ y' < m.chunked.y ∧ x' < m.chunked.x)
    (he : m.flatRaw s y x = m.flatRaw s' y' x') : (s, y, x) = (s', y', x') := by
  have hnd : (m.tidx.map (fun t => m.flatRaw t.1 t.2.1 t.2.2)).Nodup := by
    rw [tidx_map_flat]; exact List.nodup_range
  exact List.inj_on_of_nodup_map hnd ((mem_tidx m s y x).mpr h) ((mem_tidx m s' y' x').mpr h') he

/-- onto `[0, num_tiles)` -/
theorem flat_idx_surj (m : Meta) (i : Nat) (hi : i < m.numTiles) :
    ∃ s y x, (s < m.planes ∧ y < m.chunked.y ∧ x < m.chunked.x) ∧ m.flatRaw s y x = i := by
  have : i ∈ m.tidx.map (fun t => m.flatRaw t.1 t.2.1 t.2.2) := by
    rw [tidx_map_flat]; exact List.mem_range.mpr hi
  obtain ⟨⟨s, y, x⟩, ht, rfl⟩ := List.mem_map.mp this
  exact ⟨s, y, x, (mem_tidx m s y x).mp ht, rfl⟩

/-- the tile grid covers the image: `chunked · tile ≥ shape > (chunked − 1) · tile` -/
theorem chunked_covers (N t : Nat) (ht : 0 < t) :
    N ≤ ((N + t - 1) / t) * t ∧ ((N + t - 1) / t) * t < N + t := by
  have h1 := Nat.div_add_mod (N + t - 1) t
  have h2 := Nat.mod_lt (N + t - 1) ht
  rw [Nat.mul_comm] at h1
  constructor <;> omega

/-! ## tile padding in the block compressors -/

/-- padding is only after the data (right / bottom), and data + padding is one full tile -/
theorem tile_pad_right_bottom (N t i : Nat) :
    (tilePad N t i).1 = 0 ∧ blockExtent N t i + (tilePad N t i).2 = t := by
  refine ⟨rfl, ?_⟩
  show min t (N - i * t) + (t - min t (N - i * t)) = t
  omega

/-- the per-tile extents partition the source rows/columns: pixel `r` lies in tile `r / t`, inside
that tile's extent -/
theorem block_extents_partition (N t r : Nat) (ht : 0 < t) (hr : r < N) :
    r / t < (N + t - 1) / t ∧ (r / t) * t ≤ r ∧ r < (r / t) * t + blockExtent N t (r / t) := by
  have h1 := Nat.div_add_mod r t
  have h2 := Nat.mod_lt r ht
  rw [Nat.mul_comm] at h1
  refine ⟨?_, by omega, ?_⟩
  · rw [Nat.div_lt_iff_lt_mul ht]
    have := (chunked_covers N t ht).1
    omega
  · simp only [blockExtent]; omega

/-! ## header patching from the observed stream -/

/-- position of the `i`-th observed tile in the byte stream that starts at `start` -/
def streamOff (start : Nat) (tiles : List Obs) (i : Nat) : Nat := start + sizes (tiles.take i)

theorem look_initInfo (ms : List Meta) (l f : Nat) (m : Meta) (hm : ms[l]? = some m) (hf : f < m.numTiles) :
    look (initInfo ms) l f = some (0, 0) := by
  simp [look, initInfo, hm, hf]

theorem obsKey_lt {ms : List Meta} {t : Obs} {l f : Nat} (h : obsKey ms t = .ok (l, f)) :
    ∃ m, ms[l]? = some m ∧ f < m.numTiles := by
  unfold obsKey at h
  cases hm : ms[t.lvl]? with
  | none => rw [hm] at h; cases h
  | some m =>
    rw [hm] at h
    simp only at h
    cases hfl : m.flatTileIdx t.p t.y t.x with
    | error e => rw [hfl] at h; cases h
    | ok f' =>
      rw [hfl] at h
      cases h
      refine ⟨m, hm, ?_⟩
      unfold Meta.flatTileIdx at hfl
      split at hfl
      · cases hfl
      · cases hfl
        apply flat_idx_lt
        omega

/-- the loop raises `IndexError` unless every observed tile id lies inside its IFD's grid -/
theorem tile_info_ok_ids (ms : List Meta) : ∀ (ts : List Obs) (st0 st' : TileInfo × Nat),
    extractLoop ms st0 ts = .ok st' → ∀ i (hi : i < ts.length), ∃ k, obsKey ms ts[i] = .ok k := by
  intro ts
  induction ts with
  | nil => intro _ _ _ i hi; simp at hi
  | cons t ts ih =>
    intro st0 st' hr i hi
    rw [extractLoop] at hr
    cases hs : extractStep ms st0 t with
    | error e' => rw [hs] at hr; cases hr
    | ok st1 =>
      rw [hs] at hr
      cases i with
      | zero =>
        simp only [List.getElem_cons_zero]
        cases hk : obsKey ms t with
        | error e => simp [extractStep, hk] at hs
        | ok k => exact ⟨k, rfl⟩
      | succ i => exact ih st1 st' hr i (by simpa using hi)

/-- `tile_info_exact`: for **every** observed stream — any order, any subset of tiles, zero-size
tiles skipped — in which no tile is reported twice with data, the entry of the `i`-th observed
tile is `(start + Σ_{j<i} size_j, size_i)`: its interval starts where the previous data ended
and has the observed length. -/
theorem tile_info_exact (ms : List Meta) (tiles : List Obs) (start : Nat) (info : TileInfo)
    (h : extractTileInfo ms tiles start = .ok info)
    (hnd : ∀ i j (hi : i < tiles.length) (hj : j < tiles.length), i < j →
      tiles[i].sz ≠ 0 → tiles[j].sz ≠ 0 → obsKey ms tiles[i] ≠ obsKey ms tiles[j]) :
    ∀ i (hi : i < tiles.length), tiles[i].sz ≠ 0 →
      ∃ l f, obsKey ms tiles[i] = .ok (l, f) ∧
        look info l f = some (streamOff start tiles i, tiles[i].sz) := by
  unfold extractTileInfo at h
  cases hr : extractLoop ms (initInfo ms, start) tiles with
  | error e => rw [hr] at h; cases h
  | ok st =>
    obtain ⟨info', off'⟩ := st
    rw [hr] at h
    cases h
    obtain ⟨_, _, _, a4⟩ := extractLoop_spec ms tiles (initInfo ms) start info' off' hr
    intro i hi hz
    obtain ⟨k, hk⟩ := tile_info_ok_ids ms tiles _ _ hr i hi
    cases k with
    | mk l f =>
      obtain ⟨m, hm, hf⟩ := obsKey_lt hk
      refine ⟨l, f, hk, ?_⟩
      apply a4 i hi l f hz hk (by rw [look_initInfo ms l f m hm hf]; rfl)
      intro j hj hij hzj hkj
      exact hnd i j hi hj hij hz hzj (by rw [hk, hkj])

/-- the intervals `[streamOff i, streamOff i + size_i)` start at the header size, are gap-free in
stream order, pairwise disjoint, and end at `start + total size` -/
theorem stream_intervals (start : Nat) (tiles : List Obs) :
    streamOff start tiles 0 = start ∧
    (∀ i (hi : i < tiles.length), streamOff start tiles (i + 1) = streamOff start tiles i + tiles[i].sz) ∧
    (∀ i j (hi : i < tiles.length), i < j → streamOff start tiles i + tiles[i].sz ≤ streamOff start tiles j) ∧
    streamOff start tiles tiles.length = start + sizes tiles := by
  have hstep : ∀ i (hi : i < tiles.length),
      streamOff start tiles (i + 1) = streamOff start tiles i + tiles[i].sz := by
    intro i hi
    simp only [streamOff, List.take_succ_eq_append_getElem hi, sizes, List.map_append, List.sum_append]
    simp [Nat.add_assoc]
  have hmono : ∀ i j, i ≤ j → streamOff start tiles i ≤ streamOff start tiles j := by
    intro i j hij
    induction j with
    | zero => have : i = 0 := by omega
              subst this; exact Nat.le_refl _
    | succ j ih =>
      rcases Nat.lt_or_ge i (j + 1) with hlt | hge
      · have h1 := ih (by omega)
        rcases Nat.lt_or_ge j tiles.length with hj | hj
        · rw [hstep j hj]; omega
        · have : streamOff start tiles (j + 1) = streamOff start tiles j := by
            simp only [streamOff, List.take_of_length_le hj, List.take_of_length_le (Nat.le_succ_of_le hj)]
          omega
      · have : i = j + 1 := by omega
        subst this; exact Nat.le_refl _
  refine ⟨by simp [streamOff], hstep, ?_, by simp [streamOff]⟩
  intro i j hi hij
  rw [← hstep i hi]
  exact hmono (i + 1) j hij

/-- a tile of the grid that was never observed with data keeps the entry `(0, 0)` -/
theorem tile_info_unobserved (ms : List Meta) (tiles : List Obs) (start : Nat) (info : TileInfo)
    (h : extractTileInfo ms tiles start = .ok info) (l f : Nat) (m : Meta)
    (hm : ms[l]? = some m) (hf : f < m.numTiles)
    (hno : ∀ t ∈ tiles, t.sz ≠ 0 → obsKey ms t ≠ .ok (l, f)) :
    look info l f = some (0, 0) := by
  unfold extractTileInfo at h
  cases hr : extractLoop ms (initInfo ms, start) tiles with
  | error e => rw [hr] at h; cases h
  | ok st =>
    obtain ⟨info', off'⟩ := st
    rw [hr] at h
    cases h
    obtain ⟨_, a2, _, _⟩ := extractLoop_spec ms tiles (initInfo ms) start info' off' hr
    rw [a2 l f hno, look_initInfo ms l f m hm hf]

/-- `_patch_hdr`: the tags hold the stream position (from 0) shifted by the header size -/
theorem patch_hdr_exact (ms : List Meta) (tiles : List Obs) (hdrSz : Nat) (info info0 : TileInfo)
    (h0 : extractTileInfo ms tiles 0 = .ok info0) (h : patchHdr ms tiles hdrSz = .ok info)
    (l f o n : Nat) (hl : look info0 l f = some (o, n)) : look info l f = some (o + hdrSz, n) := by
  simp only [patchHdr, h0, Except.map] at h
  cases h
  simp only [look, List.getElem?_map] at hl ⊢
  cases hi : info0[l]? with
  | none => rw [hi] at hl; cases hl
  | some p =>
    obtain ⟨os, ns⟩ := p
    rw [hi] at hl
    simp only [Option.map, List.getElem?_map] at hl ⊢
    cases ho : os[f]? <;> cases hn : ns[f]? <;> simp_all

/-! ## write order -/

/-- `overviews_first`: along the stream handed to the multi-part writer the IFD index never
increases — every tile of every overview (`IFD k > 0`) is streamed before every
full-resolution tile (`IFD 0`), coarsest level first. -/
theorem overviews_first (ms : List Meta) (i j : Nat) (hi : i < (writeOrder ms).length)
    (hj : j < (writeOrder ms).length) (hij : i < j) :
    ((writeOrder ms)[j]).1 ≤ ((writeOrder ms)[i]).1 :=
  List.pairwise_iff_getElem.mp (writeOrder_levels_desc ms) i j hi hj hij

/-- hence (with `stream_intervals`; file offsets by `C06.main`): the data of an overview tile
ends before the data of any full-resolution tile starts -/
theorem overview_data_before_fullres (ms : List Meta) (start : Nat) (tiles : List Obs)
    (hord : tiles.map (·.lvl) = (writeOrder ms).map (·.1))
    (i j : Nat) (hi : i < tiles.length) (hj : j < tiles.length)
    (hov : 0 < tiles[i].lvl) (hfull : tiles[j].lvl = 0) :
    streamOff start tiles i + tiles[i].sz ≤ streamOff start tiles j := by
  have hlen : tiles.length = (writeOrder ms).length := by
    have := congrArg List.length hord; simpa using this
  have hlv : ∀ k (hk : k < tiles.length), tiles[k].lvl = ((writeOrder ms)[k]'(hlen ▸ hk)).1 := by
    intro k hk
    have h1 : (tiles.map (·.lvl))[k]? = ((writeOrder ms).map (·.1))[k]? := by rw [hord]
    simp only [List.getElem?_map, List.getElem?_eq_getElem hk,
      List.getElem?_eq_getElem (hlen ▸ hk), Option.map] at h1
    exact Option.some.inj h1
  rcases Nat.lt_trichotomy i j with hlt | heq | hgt
  · exact (stream_intervals start tiles).2.2.1 i j hi hlt
  · subst heq; omega
  · exfalso
    have := overviews_first ms j i (hlen ▸ hj) (hlen ▸ hi) hgt
    rw [← hlv i hi, ← hlv j hj] at this
    omega

/-- the write order contains exactly the tiles of every IFD's grid (for every plane) -/
theorem write_order_complete (m0 : Meta) (rest : List Meta) (e : Nat × Nat × Nat × Nat) :
    e ∈ writeOrder (m0 :: rest) ↔
      ∃ m, (m0 :: rest)[e.1]? = some m ∧ e.2.1 < m0.planes ∧ e.2.2.1 < m.chunked.y ∧ e.2.2.2 < m.chunked.x := by
  rw [writeOrder_eq]
  simp only [List.mem_flatten, List.mem_reverse, bagsFrom, List.mem_flatMap, List.mem_map, List.mem_range]
  constructor
  · rintro ⟨b, ⟨⟨m, l⟩, hml, s, hs, rfl⟩, he⟩
    obtain ⟨h1, h2, h3, h4⟩ := mem_bag he
    rw [List.mem_zipIdx_iff_getElem?] at hml
    exact ⟨m, by rw [h1]; exact hml, by rw [h2]; exact hs, h3, h4⟩
  · rintro ⟨m, hm, hs, hy, hx⟩
    refine ⟨bag m e.1 e.2.1, ⟨(m, e.1), List.mem_zipIdx_iff_getElem?.mpr hm, e.2.1, hs, rfl⟩, ?_⟩
    simp only [bag, List.mem_flatMap, List.mem_map, List.mem_range]
    exact ⟨e.2.2.1, hy, e.2.2.2, hx, rfl⟩

/-- no tile is streamed twice -/
theorem write_order_nodup (ms : List Meta) : (writeOrder ms).Nodup := writeOrder_nodup ms

/-- the observation of write-order entry `e` with `sz` bytes -/
def obsOf (e : Nat × Nat × Nat × Nat) (sz : Nat) : Obs := ⟨e.1, e.2.1, e.2.2.1, e.2.2.2, sz⟩

/-- key of a write-order entry: its IFD and its flat index there -/
theorem obsKey_obsOf (ms : List Meta) (e : Nat × Nat × Nat × Nat) (sz : Nat) (m : Meta)
    (hm : ms[e.1]? = some m) (hv : e.2.1 < m.planes ∧ e.2.2.1 < m.chunked.y ∧ e.2.2.2 < m.chunked.x) :
    obsKey ms (obsOf e sz) = .ok (e.1, m.flatRaw e.2.1 e.2.2.1 e.2.2.2) := by
  simp only [obsKey, obsOf, hm, flat_tile_idx_ok, if_pos hv]

/-- validity of every write-order entry, with the planes of its own level -/
theorem writeOrder_valid (m0 : Meta) (rest : List Meta) (hpl : ∀ m ∈ rest, m.planes = m0.planes)
    (e : Nat × Nat × Nat × Nat) (he : e ∈ writeOrder (m0 :: rest)) :
    ∃ m, (m0 :: rest)[e.1]? = some m ∧ e.2.1 < m.planes ∧ e.2.2.1 < m.chunked.y ∧ e.2.2.2 < m.chunked.x := by
  obtain ⟨m, hm, hs, hy, hx⟩ := (write_order_complete m0 rest e).mp he
  refine ⟨m, hm, ?_, hy, hx⟩
  have hmem : m ∈ m0 :: rest := List.mem_of_getElem? hm
  rcases List.mem_cons.mp hmem with rfl | h
  · exact hs
  · rw [hpl m h]; exact hs

/-- The stream `save_cog_with_dask` really produces — the tiles in `writeOrder`, with arbitrary
observed sizes — satisfies the hypotheses of `tile_info_exact` by itself: every id is inside its
IFD's grid and no tile occurs twice.  Hence header patching succeeds and every non-empty tile's
entry is `(start + Σ earlier sizes, its size)`. -/
theorem write_order_stream_exact (m0 : Meta) (rest : List Meta)
    (hpl : ∀ m ∈ rest, m.planes = m0.planes) (szs : List Nat) (start : Nat) :
    let ms := m0 :: rest
    let tiles := List.zipWith obsOf (writeOrder ms) szs
    ∃ info, extractTileInfo ms tiles start = .ok info ∧
      ∀ i (hi : i < tiles.length), tiles[i].sz ≠ 0 →
        ∃ l f, obsKey ms tiles[i] = .ok (l, f) ∧
          look info l f = some (streamOff start tiles i, tiles[i].sz) := by
  intro ms tiles
  have hlen : tiles.length ≤ (writeOrder ms).length := by
    simp only [tiles, List.length_zipWith]; omega
  have hget : ∀ i (hi : i < tiles.length), ∃ sz,
      tiles[i] = obsOf ((writeOrder ms)[i]'(Nat.lt_of_lt_of_le hi hlen)) sz := by
    intro i hi
    simp only [tiles, List.getElem_zipWith]
    exact ⟨_, rfl⟩
  have hkey : ∀ i (hi : i < tiles.length), ∃ m,
      ms[((writeOrder ms)[i]'(Nat.lt_of_lt_of_le hi hlen)).1]? = some m ∧
      obsKey ms tiles[i] = .ok (((writeOrder ms)[i]'(Nat.lt_of_lt_of_le hi hlen)).1,
        m.flatRaw ((writeOrder ms)[i]'(Nat.lt_of_lt_of_le hi hlen)).2.1
          ((writeOrder ms)[i]'(Nat.lt_of_lt_of_le hi hlen)).2.2.1
          ((writeOrder ms)[i]'(Nat.lt_of_lt_of_le hi hlen)).2.2.2) ∧
      (((writeOrder ms)[i]'(Nat.lt_of_lt_of_le hi hlen)).2.1 < m.planes ∧
        ((writeOrder ms)[i]'(Nat.lt_of_lt_of_le hi hlen)).2.2.1 < m.chunked.y ∧
        ((writeOrder ms)[i]'(Nat.lt_of_lt_of_le hi hlen)).2.2.2 < m.chunked.x) := by
    intro i hi
    obtain ⟨sz, hsz⟩ := hget i hi
    obtain ⟨m, hm, hv⟩ := writeOrder_valid m0 rest hpl _ (List.getElem_mem (Nat.lt_of_lt_of_le hi hlen))
    exact ⟨m, hm, by rw [hsz]; exact obsKey_obsOf ms _ sz m hm hv, hv⟩
  have hall : ∀ t ∈ tiles, ∃ k, obsKey ms t = .ok k := by
    intro t ht
    obtain ⟨i, hi, rfl⟩ := List.getElem_of_mem ht
    obtain ⟨m, _, hk, _⟩ := hkey i hi
    exact ⟨_, hk⟩
  obtain ⟨⟨info, off⟩, hrun⟩ := extractLoop_total ms tiles (initInfo ms, start) hall
  have hinfo : extractTileInfo ms tiles start = .ok info := by
    simp [extractTileInfo, hrun, Except.map]
  refine ⟨info, hinfo, ?_⟩
  apply tile_info_exact ms tiles start info hinfo
  intro i j hi hj hij _ _ heq
  obtain ⟨mi, hmi, hki, hvi⟩ := hkey i hi
  obtain ⟨mj, hmj, hkj, hvj⟩ := hkey j hj
  rw [hki, hkj] at heq
  have h1 := (Prod.mk.inj (Except.ok.inj heq)).1
  have h2 := (Prod.mk.inj (Except.ok.inj heq)).2
  rw [h1] at hmi
  have hmm : mi = mj := Option.some.inj (hmi.symm.trans hmj)
  subst hmm
  have h3 := flat_idx_inj mi _ _ _ _ _ _ hvi hvj h2
  have hee : (writeOrder ms)[i]'(Nat.lt_of_lt_of_le hi hlen) = (writeOrder ms)[j]'(Nat.lt_of_lt_of_le hj hlen) := by
    apply Prod.ext h1
    exact h3
  have := (List.Nodup.getElem_inj_iff (writeOrder_nodup ms)).mp hee
  omega


example : writeOrder [⟨1, ⟨8, 40⟩, ⟨16, 16⟩⟩, ⟨1, ⟨4, 20⟩, ⟨16, 16⟩⟩] =
    [(1, 0, 0, 0), (1, 0, 0, 1), (0, 0, 0, 0), (0, 0, 0, 1), (0, 0, 0, 2)] := by decide

/-! ## `_compress_tiles`: which source block and which band feed a tile -/

theorem bandOffset_replicate_one (ns k : Nat) (hk : k ≤ ns) : bandOffset (List.replicate ns 1) k = k := by
  unfold bandOffset
  rw [List.take_replicate, Nat.min_eq_left hk]
  simp

/-- `compress_tile_picks_own_band`: for EVERY band count and EVERY chunking of the band axis of a band-first source
(all bands in one chunk, one band per chunk, groups of 2, irregular …) the tile of plane `s` is cut from source band `s`:
the block named for it exists after the re-chunk, and block offset + plane picked inside the block is `s`. -/
theorem compress_tile_picks_own_band (ns : Nat) (bandChunks : List Nat) (s : Nat) (hs : s < ns) :
    sourceBandOfTile ns bandChunks s = some s := by
  unfold sourceBandOfTile compressChunks blockName pickPlane
  by_cases h1 : bandChunks.length = 1
  · simp only [h1, if_true]
    simp only [show ¬ (3 = 2) by decide, if_false, List.getElem?_cons_zero]
    by_cases hn : ns = 1
    · subst hn
      have : s = 0 := by omega
      subst this
      simp [bandOffset]
    · simp [hn, bandOffset]
  · simp only [h1, if_false, show ¬ (3 = 2) by decide]
    have hget : (List.replicate ns 1)[s]? = some 1 := by
      rw [List.getElem?_replicate]; simp [hs]
    simp only [hget]
    simp [bandOffset_replicate_one ns s (Nat.le_of_lt hs)]

/-- what the re-chunk targets: band-last and 2-D sources get ALL samples of a pixel in one chunk, a band-first source
keeps a single band chunk and is otherwise split to one band per chunk; spatially always the tile -/
theorem compress_chunks_spec (ax : Axis) (ndim ns : Nat) (bc : List Nat) (tile : YX) :
    (compressChunks ax ndim ns bc tile).tile = tile ∧
    ((compressChunks ax ndim ns bc tile).band = [] ∨ (compressChunks ax ndim ns bc tile).band = [ns] ∨
      (compressChunks ax ndim ns bc tile).band = List.replicate ns 1) ∧
    (ax = .SYX → ndim = 3 → bc.length ≠ 1 → (compressChunks ax ndim ns bc tile).band = List.replicate ns 1) := by
  unfold compressChunks
  cases ax <;> simp
  · by_cases h2 : ndim = 2 <;> by_cases h1 : bc.length = 1 <;> simp [h2, h1]

/-- the C05-10 class, concretely: 4 bands chunked 2 + 2, and 3 bands chunked (2, 1) -/
example : sourceBandOfTile 4 [2, 2] 3 = some 3 ∧ sourceBandOfTile 3 [2, 1] 2 = some 2 ∧
    sourceBandOfTile 5 [5] 4 = some 4 ∧ sourceBandOfTile 1 [1] 0 = some 0 := by decide

/-! ## grouping of the bags handed to the multi-part writer -/

/-- `bag_groups_permutation`: concatenating the first four reversed bags and passing the rest one by one streams every
bag EXACTLY once, in reversed order — whatever the number of bags -/
theorem bag_groups_flatten {β : Type} (tiles : List β) : (bagGroups tiles).flatten = tiles.reverse := by
  unfold bagGroups
  have hsing : ∀ l : List β, (l.map fun b => [b]).flatten = l := by
    intro l; induction l with
    | nil => rfl
    | cons a t ih => simp [ih]
  simp only []
  split
  · simp only [List.flatten_cons, hsing, List.take_append_drop]
  · exact hsing _

theorem bag_groups_perm {β : Type} (tiles : List β) : (bagGroups tiles).flatten.Perm tiles := by
  rw [bag_groups_flatten]; exact List.reverse_perm tiles

/-- at most one group has more than one member, and it is the first -/
theorem bag_groups_shape {β : Type} (tiles : List β) :
    (tiles.length ≤ 4 → bagGroups tiles = tiles.reverse.map fun b => [b]) ∧
    (4 < tiles.length → ∃ rest, bagGroups tiles = tiles.reverse.take 4 :: rest ∧ ∀ g ∈ rest, g.length = 1) := by
  unfold bagGroups
  simp only []
  constructor
  · intro h; rw [if_neg (by simpa using Nat.not_lt.mpr h)]
  · intro h
    rw [if_pos (by simpa using h)]
    refine ⟨_, rfl, ?_⟩
    intro g hg
    obtain ⟨b, _, rfl⟩ := List.mem_map.mp hg
    rfl

example : bagGroups [0, 1, 2, 3, 4, 5] = [[5, 4, 3, 2], [1], [0]] := by decide

/-! ## size of the patched header -/

/-- `patched_header_size`: without statistics the header keeps its length; with statistics it grows by the XML + NUL
unless the XML fits into the old tag value; every tile offset is shifted by exactly that final size -/
theorem patched_header_size (h0 oldCount xmlLen : Nat) :
    patchedHdrSize h0 none = h0 ∧
    (oldCount ≤ xmlLen → patchedHdrSize h0 (some (oldCount, xmlLen)) = h0 + xmlLen + 1) ∧
    (xmlLen + 1 ≤ oldCount → patchedHdrSize h0 (some (oldCount, xmlLen)) = h0) ∧
    h0 ≤ patchedHdrSize h0 (some (oldCount, xmlLen)) := by
  simp only [patchedHdrSize, statsGrow]
  refine ⟨trivial, ?_, ?_, ?_⟩
  · intro h; rw [if_neg (by omega)]; omega
  · intro h; rw [if_pos h]; rfl
  · split <;> omega

/-- the table written with statistics is the plain table shifted by the FINAL header size (stats XML included) -/
theorem patch_hdr_stats_exact (ms : List Meta) (tiles : List Obs) (h0 : Nat) (stats : Option (Nat × Nat))
    (info info0 : TileInfo) (hinfo0 : extractTileInfo ms tiles 0 = .ok info0)
    (hinfo : patchHdrStats ms tiles h0 stats = .ok info) (l f o n : Nat) (hl : look info0 l f = some (o, n)) :
    look info l f = some (o + patchedHdrSize h0 stats, n) :=
  patch_hdr_exact ms tiles _ info info0 hinfo0 hinfo l f o n hl

end OdcGeo.C05
