/-
C17 — source tie, piece `AlignDown` (see OdcGeo/Props/GenC17.lean).  One compilation unit per tied function (or small
group), so that a tie that is lost in a run only removes its own theorems from that run's obligations.
-/
import OdcGeo.Gen.C17
import OdcGeo.Gen.Tie
import OdcGeo.Props.C17

namespace OdcGeo.C17
open OdcGeo.Gen OdcGeo.PySlice

/-- `math.align_down` -/
theorem tie_align_down (x align : Int) (h : 0 < align) :
    Gen.C17.align_down x align = .ok (alignDown x align) := by
  have h0 : align ≠ 0 := by omega
  simp only [Gen.C17.align_down, alignDown]
  tie_auto []

/-- `align_down_spec` for the source `align_down`: it does not raise for a positive alignment and returns the
multiple of `a` in `(x - a, x]` -/
theorem gen_align_down_spec (x a : Int) (ha : 0 < a) :
    ∃ y, Gen.C17.align_down x a = .ok y ∧ a ∣ y ∧ y ≤ x ∧ x - y < a :=
  ⟨alignDown x a, tie_align_down x a ha, align_down_spec x a ha⟩

end OdcGeo.C17
