/-
C17 — source tie, piece `AlignUp` (see OdcGeo/Props/GenC17.lean).  One compilation unit per tied function (or small
group), so that a tie that is lost in a run only removes its own theorems from that run's obligations.
-/
import OdcGeo.Gen.C17
import OdcGeo.Gen.Tie
import OdcGeo.Props.C17
import OdcGeo.Props.GenC17.AlignDown

namespace OdcGeo.C17
open OdcGeo.Gen OdcGeo.PySlice

/-- `math.align_up` -/
theorem tie_align_up (x align : Int) (h : 0 < align) :
    Gen.C17.align_up x align = .ok (alignUp x align) := by
  have h0 : align ≠ 0 := by omega
  have hd := fun y => tie_align_down y align h
  simp only [Gen.C17.align_up, alignUp, Gen.C17.align_down, alignDown] at hd ⊢
  tie_auto []

/-- `align_up_spec` for the source `align_up` -/
theorem gen_align_up_spec (x a : Int) (ha : 0 < a) :
    ∃ y, Gen.C17.align_up x a = .ok y ∧ a ∣ y ∧ x ≤ y ∧ y - x < a :=
  ⟨alignUp x a, tie_align_up x a ha, align_up_spec x a ha⟩

end OdcGeo.C17
