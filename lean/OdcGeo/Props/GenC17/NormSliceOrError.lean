/-
C17 — source tie, piece `NormSliceOrError` (see OdcGeo/Props/GenC17.lean).  One compilation unit per tied function (or small
group), so that a tie that is lost in a run only removes its own theorems from that run's obligations.
-/
import OdcGeo.Gen.C17
import OdcGeo.Gen.Tie
import OdcGeo.Props.C17

namespace OdcGeo.C17
open OdcGeo.Gen OdcGeo.PySlice

/-- `roi._norm_slice_or_error` -/
theorem tie_norm_slice_or_error (s : PIdx) : Gen.C17.norm_slice_or_error s = normSliceOrError s := by
  rcases s with i | ⟨_ | a, _ | b⟩ <;>
    tie_auto [Gen.C17.norm_slice_or_error, normSliceOrError]

end OdcGeo.C17
