/-
C17 — source tie, piece `RoiIsFull` (see OdcGeo/Props/GenC17.lean): N-D wrapper, a roi / shape of unknown length is a `List`.
-/
import OdcGeo.Gen.C17
import OdcGeo.Gen.Tie
import OdcGeo.Props.C17
import OdcGeo.Props.GenC17.SliceFull

namespace OdcGeo.C17
open OdcGeo.Gen OdcGeo.PySlice

/-- `roi.roi_is_full` -/
theorem tie_roi_is_full (roi : List PIdx) (shape : List Int) :
    Gen.C17.roi_is_full roi shape = roiIsFull roi shape := by
  simp [Gen.C17.roi_is_full, roiIsFull, tie_slice_full]

/-- `roi_is_full_nd_iff` for the source `roi_is_full` -/
theorem gen_roi_is_full_nd_iff (roi : List PIdx) (shape : List Int) :
    Gen.C17.roi_is_full roi shape = true ↔
      ∀ k (hr : k < roi.length) (hs : k < shape.length), sliceFull roi[k] shape[k] = true := by
  rw [tie_roi_is_full]; exact roi_is_full_nd_iff roi shape

end OdcGeo.C17
