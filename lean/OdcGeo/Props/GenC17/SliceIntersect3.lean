/-
C17 — source tie, piece `SliceIntersect3` (see OdcGeo/Props/GenC17.lean).  One compilation unit per tied function (or small
group), so that a tie that is lost in a run only removes its own theorems from that run's obligations.
-/
import OdcGeo.Gen.C17
import OdcGeo.Gen.Tie
import OdcGeo.Props.C17
import OdcGeo.Props.GenC17.NormSliceOrError

namespace OdcGeo.C17
open OdcGeo.Gen OdcGeo.PySlice

/-- `roi.slice_intersect3` -/
theorem tie_slice_intersect3 (a b : PIdx) : Gen.C17.slice_intersect3 a b = sliceIntersect3 a b := by
  tie_auto [Gen.C17.slice_intersect3, sliceIntersect3, tie_norm_slice_or_error, intersect3N]

/-- `intersect3_common` for the source `slice_intersect3`: on closed non-negative operands it succeeds and its
third component selects exactly the common index set -/
theorem gen_intersect3_common (n : Int) (a b : NSlice) (i : Int)
    (ha : 0 ≤ a.start ∧ 0 ≤ a.stop) (hb : 0 ≤ b.start ∧ 0 ≤ b.stop) :
    ∃ r, Gen.C17.slice_intersect3 a.toPIdx b.toPIdx = .ok r ∧
      (Sel n r.2.2.toPIdx i ↔ (Sel n a.toPIdx i ∧ Sel n b.toPIdx i)) := by
  refine ⟨intersect3N a b, ?_, intersect3_common n a b i ha hb⟩
  rw [tie_slice_intersect3]
  apply intersect3_total
  · have : ¬ (a.stop < 0 ∨ a.start < 0) := by omega
    simp [normSliceOrError, NSlice.toPIdx, this]
  · have : ¬ (b.stop < 0 ∨ b.start < 0) := by omega
    simp [normSliceOrError, NSlice.toPIdx, this]

end OdcGeo.C17
