/-
C17 — source tie, piece `RoiIsEmpty` (see OdcGeo/Props/GenC17.lean): N-D wrapper, a roi / shape of unknown length is a `List`.
-/
import OdcGeo.Gen.C17
import OdcGeo.Gen.Tie
import OdcGeo.Props.C17
import OdcGeo.Props.GenC17.RoiShape

namespace OdcGeo.C17
open OdcGeo.Gen OdcGeo.PySlice

/-- `roi.roi_is_empty` -/
theorem tie_roi_is_empty (roi : List PIdx) : Gen.C17.roi_is_empty roi = roiIsEmpty roi := by
  simp only [Gen.C17.roi_is_empty, roiIsEmpty, tie_roi_shape, bind, Except.bind, pure, Except.pure]
  cases roi.mapM sliceDim <;> simp

/-- `roi_is_empty_closed` for the source `roi_is_empty` -/
theorem gen_roi_is_empty_closed (roi : List (Int × Int)) :
    Gen.C17.roi_is_empty (roi.map fun p => .slc (some p.1) (some p.2)) =
      .ok (roi.any fun p => decide (p.2 - p.1 ≤ 0)) := by
  rw [tie_roi_is_empty]; exact roi_is_empty_closed roi

end OdcGeo.C17
