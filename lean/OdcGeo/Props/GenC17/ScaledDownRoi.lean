/-
C17 — source tie, piece `ScaledDownRoi` (see OdcGeo/Props/GenC17.lean).  One compilation unit per tied function (or small
group), so that a tie that is lost in a run only removes its own theorems from that run's obligations.
-/
import OdcGeo.Gen.C17
import OdcGeo.Gen.Tie
import OdcGeo.Props.C17
import OdcGeo.Props.GenC17.AlignUp

namespace OdcGeo.C17
open OdcGeo.Gen OdcGeo.PySlice

/-- `roi.scaled_down_roi` (both axes) -/
theorem tie_scaled_down_roi (roi : NSlice × NSlice) (scale : Int) (h : 0 < scale) :
    Gen.C17.scaled_down_roi roi scale = .ok (scaledDownSlice roi.1 scale, scaledDownSlice roi.2 scale) := by
  have h0 : scale ≠ 0 := by omega
  tie_auto [Gen.C17.scaled_down_roi, scaledDownSlice, tie_align_up _ _ h, fdiv]

end OdcGeo.C17
