/-
C17 — source tie, piece `SliceDim` (see OdcGeo/Props/GenC17.lean).  One compilation unit per tied function (or small
group), so that a tie that is lost in a run only removes its own theorems from that run's obligations.
-/
import OdcGeo.Gen.C17
import OdcGeo.Gen.Tie
import OdcGeo.Props.C17

namespace OdcGeo.C17
open OdcGeo.Gen OdcGeo.PySlice

/-- `roi.roi_shape`'s `slice_dim` -/
theorem tie_slice_dim (s : PIdx) : Gen.C17.slice_dim s = sliceDim s := by
  rcases s with i | ⟨_ | a, _ | b⟩ <;> tie_auto [Gen.C17.slice_dim, sliceDim]

end OdcGeo.C17
