/-
C17 — source tie, piece `SliceCenter` (see OdcGeo/Props/GenC17.lean).  One compilation unit per tied function (or small
group), so that a tie that is lost in a run only removes its own theorems from that run's obligations.
-/
import OdcGeo.Gen.C17
import OdcGeo.Gen.Tie
import OdcGeo.Props.C17
import OdcGeo.Props.GenC17.NormSliceOrError

namespace OdcGeo.C17
open OdcGeo.Gen OdcGeo.PySlice

/-- `roi.roi_center`'s `slice_center` -/
theorem tie_slice_center (s : PIdx) : Gen.C17.slice_center s = sliceCenter s := by
  tie_auto [Gen.C17.slice_center, sliceCenter, tie_norm_slice_or_error]

/-- `center_eq` for the source `roi_center.slice_center` -/
theorem gen_center_eq (s e : Int) (h : 0 ≤ s ∧ 0 ≤ e) :
    Gen.C17.slice_center (.slc (some s) (some e)) = .ok (((s + e : Int) : Rat) / 2) := by
  rw [tie_slice_center]; exact center_eq s e h

end OdcGeo.C17
