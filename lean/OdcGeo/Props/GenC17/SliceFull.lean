/-
C17 — source tie, piece `SliceFull` (see OdcGeo/Props/GenC17.lean).  One compilation unit per tied function (or small
group), so that a tie that is lost in a run only removes its own theorems from that run's obligations.
-/
import OdcGeo.Gen.C17
import OdcGeo.Gen.Tie
import OdcGeo.Props.C17

namespace OdcGeo.C17
open OdcGeo.Gen OdcGeo.PySlice

/-- `roi.roi_is_full`'s `slice_full` -/
theorem tie_slice_full (s : PIdx) (n : Int) : Gen.C17.slice_full s n = sliceFull s n := by
  rcases s with i | ⟨_ | a, _ | b⟩ <;> tie_auto [Gen.C17.slice_full, sliceFull]

end OdcGeo.C17
