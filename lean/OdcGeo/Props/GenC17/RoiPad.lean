/-
C17 — source tie, piece `RoiPad` (see OdcGeo/Props/GenC17.lean): N-D wrapper, a roi / shape of unknown length is a `List`.
-/
import OdcGeo.Gen.C17
import OdcGeo.Gen.Tie
import OdcGeo.Props.C17
import OdcGeo.Props.GenC17.PadSlice

namespace OdcGeo.C17
open OdcGeo.Gen OdcGeo.PySlice

/-- `roi.roi_pad` on tuples -/
theorem tie_roi_pad (roi : List PIdx) (pad : Int) (shape : List Int) :
    Gen.C17.roi_pad roi pad shape = roiPad roi pad shape := by
  simp [Gen.C17.roi_pad, roiPad, tie_pad_slice]

end OdcGeo.C17
