/-
C17 — source tie, piece `NormSlice` (see OdcGeo/Props/GenC17.lean).  One compilation unit per tied function (or small
group), so that a tie that is lost in a run only removes its own theorems from that run's obligations.
-/
import OdcGeo.Gen.C17
import OdcGeo.Gen.Tie
import OdcGeo.Props.C17

namespace OdcGeo.C17
open OdcGeo.Gen OdcGeo.PySlice

/-- `roi._norm_slice` -/
theorem tie_norm_slice (s : PIdx) (n : Int) : Gen.C17.norm_slice s n = normSlice s n := by
  rcases s with i | ⟨_ | a, _ | b⟩ <;>
    tie_auto [Gen.C17.norm_slice, normSlice, wrapNeg]

/-- `normalise_same_elements` for the function `_norm_slice` as written in the source -/
theorem gen_normalise_same_elements (n : Int) (hn : 0 ≤ n) (a b : Option Int) (i : Int) :
    Sel n (Gen.C17.norm_slice (.slc a b) n).toPIdx i ↔ Sel n (.slc a b) i := by
  rw [tie_norm_slice]; exact normalise_same_elements n hn a b i

/-- `normalise_int_index` for the source `_norm_slice` -/
theorem gen_normalise_int_index (n : Int) (k : Int) (hk : -n ≤ k ∧ k < n) (i : Int) :
    Sel n (Gen.C17.norm_slice (.idx k) n).toPIdx i ↔ Sel n (.idx k) i := by
  rw [tie_norm_slice]; exact normalise_int_index n k hk i

end OdcGeo.C17
