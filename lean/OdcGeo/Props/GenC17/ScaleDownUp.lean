/-
C17 — source tie, piece `ScaleDownUp` (see OdcGeo/Props/GenC17.lean).  One compilation unit per tied function (or small
group), so that a tie that is lost in a run only removes its own theorems from that run's obligations.
-/
import OdcGeo.Gen.C17
import OdcGeo.Gen.Tie
import OdcGeo.Props.C17
import OdcGeo.Props.GenC17.ScaledDownRoi
import OdcGeo.Props.GenC17.ScaledUpRoi

namespace OdcGeo.C17
open OdcGeo.Gen OdcGeo.PySlice

/-- `scale_down_up` for the source `scaled_down_roi` followed by `scaled_up_roi` (no clamp), per axis -/
theorem gen_scale_down_up (roi : NSlice × NSlice) (k : Int) (hk : 0 < k) :
    ∃ d, Gen.C17.scaled_down_roi roi k = .ok d ∧
      let r := Gen.C17.scaled_up_roi d k none
      (r.1.start ≤ roi.1.start ∧ roi.1.start - r.1.start < k ∧ roi.1.stop ≤ r.1.stop ∧ r.1.stop - roi.1.stop < k) ∧
      (r.2.start ≤ roi.2.start ∧ roi.2.start - r.2.start < k ∧ roi.2.stop ≤ r.2.stop ∧ r.2.stop - roi.2.stop < k) := by
  refine ⟨_, tie_scaled_down_roi roi k hk, ?_⟩
  simp only [tie_scaled_up_roi, Option.map]
  exact ⟨scale_down_up roi.1 k hk, scale_down_up roi.2 k hk⟩

end OdcGeo.C17
