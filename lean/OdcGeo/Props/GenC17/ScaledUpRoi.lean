/-
C17 — source tie, piece `ScaledUpRoi` (see OdcGeo/Props/GenC17.lean).  One compilation unit per tied function (or small
group), so that a tie that is lost in a run only removes its own theorems from that run's obligations.
-/
import OdcGeo.Gen.C17
import OdcGeo.Gen.Tie
import OdcGeo.Props.C17

namespace OdcGeo.C17
open OdcGeo.Gen OdcGeo.PySlice

/-- `roi.scaled_up_roi` (both axes; `shape` clamps when given) -/
theorem tie_scaled_up_roi (roi : NSlice × NSlice) (scale : Int) (shape : Option (Int × Int)) :
    Gen.C17.scaled_up_roi roi scale shape =
      (scaledUpSlice roi.1 scale (shape.map (·.1)), scaledUpSlice roi.2 scale (shape.map (·.2))) := by
  cases shape <;> tie_auto [Gen.C17.scaled_up_roi, scaledUpSlice, Option.map]

end OdcGeo.C17
