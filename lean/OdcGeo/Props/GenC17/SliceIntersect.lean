/-
C17 — source tie, piece `SliceIntersect` (see OdcGeo/Props/GenC17.lean).  One compilation unit per tied function (or small
group), so that a tie that is lost in a run only removes its own theorems from that run's obligations.
-/
import OdcGeo.Gen.C17
import OdcGeo.Gen.Tie
import OdcGeo.Props.C17
import OdcGeo.Props.GenC17.NormSliceOrError

namespace OdcGeo.C17
open OdcGeo.Gen OdcGeo.PySlice

/-- `roi.roi_intersect`'s `slice_intersect` -/
theorem tie_slice_intersect (a b : PIdx) : Gen.C17.slice_intersect a b = sliceIntersect a b := by
  tie_auto [Gen.C17.slice_intersect, sliceIntersect, tie_norm_slice_or_error, intersectN]

end OdcGeo.C17
