/-
C17 — source tie, piece `PadSlice` (see OdcGeo/Props/GenC17.lean).  One compilation unit per tied function (or small
group), so that a tie that is lost in a run only removes its own theorems from that run's obligations.
-/
import OdcGeo.Gen.C17
import OdcGeo.Gen.Tie
import OdcGeo.Props.C17
import OdcGeo.Props.GenC17.NormSlice

namespace OdcGeo.C17
open OdcGeo.Gen OdcGeo.PySlice

/-- `roi.roi_pad`'s `pad_slice` (closure variable `pad` is the last parameter) -/
theorem tie_pad_slice (s : PIdx) (n pad : Int) : Gen.C17.pad_slice s n pad = padSlice s pad n := by
  tie_auto [Gen.C17.pad_slice, padSlice, tie_norm_slice]

/-- `pad_within` for the source `roi_pad.pad_slice` -/
theorem gen_pad_within (n : Int) (hn : 0 ≤ n) (s : PIdx) (pad : Int) :
    0 ≤ (Gen.C17.pad_slice s n pad).start ∧ (Gen.C17.pad_slice s n pad).stop ≤ n := by
  rw [tie_pad_slice]; exact pad_within n hn s pad

end OdcGeo.C17
