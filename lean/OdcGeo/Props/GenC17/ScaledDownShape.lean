/-
C17 — source tie, piece `ScaledDownShape` (see OdcGeo/Props/GenC17.lean).  One compilation unit per tied function (or small
group), so that a tie that is lost in a run only removes its own theorems from that run's obligations.
-/
import OdcGeo.Gen.C17
import OdcGeo.Gen.Tie
import OdcGeo.Props.C17
import OdcGeo.Props.GenC17.AlignUp

namespace OdcGeo.C17
open OdcGeo.Gen OdcGeo.PySlice

/-- `roi.scaled_down_shape` (two axes) -/
theorem tie_scaled_down_shape (shape : Int × Int) (scale : Int) (h : 0 < scale) :
    Gen.C17.scaled_down_shape shape scale = .ok (scaledDownDim shape.1 scale, scaledDownDim shape.2 scale) := by
  have h0 : scale ≠ 0 := by omega
  tie_auto [Gen.C17.scaled_down_shape, scaledDownDim, tie_align_up _ _ h, fdiv]

/-- `scaled_down_dim_spec` for the source `scaled_down_shape` -/
theorem gen_scaled_down_dim_spec (shape : Int × Int) (k : Int) (hk : 0 < k) :
    ∃ d, Gen.C17.scaled_down_shape shape k = .ok d ∧
      (shape.1 ≤ d.1 * k ∧ d.1 * k - shape.1 < k) ∧ (shape.2 ≤ d.2 * k ∧ d.2 * k - shape.2 < k) :=
  ⟨_, tie_scaled_down_shape shape k hk, scaled_down_dim_spec shape.1 k hk, scaled_down_dim_spec shape.2 k hk⟩

end OdcGeo.C17
