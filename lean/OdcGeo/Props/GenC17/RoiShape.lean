/-
C17 — source tie, piece `RoiShape` (see OdcGeo/Props/GenC17.lean): N-D wrapper, a roi / shape of unknown length is a `List`.
-/
import OdcGeo.Gen.C17
import OdcGeo.Gen.Tie
import OdcGeo.Props.C17
import OdcGeo.Props.GenC17.SliceDim

namespace OdcGeo.C17
open OdcGeo.Gen OdcGeo.PySlice

/-- `roi.roi_shape` on a tuple of index expressions: `slice_dim` on every axis, first error wins -/
theorem tie_roi_shape (roi : List PIdx) : Gen.C17.roi_shape roi = roi.mapM sliceDim := by
  have h : (fun p => Gen.C17.slice_dim p) = sliceDim := funext tie_slice_dim
  simp only [Gen.C17.roi_shape, h]
  cases roi.mapM sliceDim <;> rfl

end OdcGeo.C17
