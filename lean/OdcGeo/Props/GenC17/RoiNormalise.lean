/-
C17 — source tie, piece `RoiNormalise` (see OdcGeo/Props/GenC17.lean): N-D wrapper, a roi / shape of unknown length is a `List`.
-/
import OdcGeo.Gen.C17
import OdcGeo.Gen.Tie
import OdcGeo.Props.C17
import OdcGeo.Props.GenC17.NormSlice

namespace OdcGeo.C17
open OdcGeo.Gen OdcGeo.PySlice

/-- `roi.roi_normalise` on tuples -/
theorem tie_roi_normalise (roi : List PIdx) (shape : List Int) :
    Gen.C17.roi_normalise roi shape = roiNormalise roi shape := by
  simp [Gen.C17.roi_normalise, roiNormalise, tie_norm_slice]

/-- `roi_normalise_nd_length` for the source `roi_normalise` -/
theorem gen_roi_normalise_nd_length (roi : List PIdx) (shape : List Int) :
    (Gen.C17.roi_normalise roi shape).length = min roi.length shape.length := by
  rw [tie_roi_normalise]; exact roi_normalise_nd_length roi shape

end OdcGeo.C17
