/-
C14 — point lookup under binary64 with an EXPLICIT exclusion band (no representability hypothesis).

`fl64_rounding_error`: the binary64 rounding of the model satisfies, for EVERY rational, `|fl64 q − q| ≤ 2^-53·|q| + 2^-1075`
(proved from its definition: `Lemmas/C14FlBound.lean`).  Hence `bin_transfer_band_fl64`: `Bin1D.bin fl64 x` is the exact tile index
for every point that keeps more than `ε·|q| + η'` (in units of the tile size, `q = (x − origin)/sz`, `ε = 2u + u²`, `u = 2^-53`,
`η' = 2^-1075·((1+u)/sz + 1)`) from both edges of its tile — the F-mode transfer of `pt2idx` has an explicit band instead of a
hypothesis on representability.  This discharges the hypothesis of `bin_transfer_band_partial` (`Props/C14Band.lean`).
-/
import OdcGeo.Lemmas.C14FlBound
import OdcGeo.Props.C14

namespace OdcGeo.C14

/-- binary64 rounding error of the model, all rationals: relative `2^-53` plus half the subnormal quantum -/
theorem fl64_rounding_error (q : Rat) : |fl64 q - q| ≤ 1 / 2 ^ 53 * |q| + pow2 (-1074) / 2 := fl64_error_bound q

/-- two rounded operations `fl(fl(x − o) / sz)` under a mixed relative / absolute error model -/
theorem rounded_quotient_error_mixed (fl : Rnd) (u η : Rat) (hu : 0 ≤ u) (_hη : 0 ≤ η)
    (hfl : ∀ q, |fl q - q| ≤ u * |q| + η) (x o sz : Rat) (hs : 0 < sz) :
    |fl (fl (x - o) / sz) - (x - o) / sz| ≤ (2 * u + u * u) * |(x - o) / sz| + η * ((1 + u) / sz + 1) := by
  have h1 := hfl (x - o)
  have h2 := hfl (fl (x - o) / sz)
  have e1 : |fl (x - o) / sz - (x - o) / sz| ≤ u * |(x - o) / sz| + η / sz := by
    rw [← sub_div, abs_div, abs_div, abs_of_pos hs, ← mul_div_assoc, ← add_div]
    exact div_le_div_of_nonneg_right h1 hs.le
  have e2 : |fl (x - o) / sz| ≤ (1 + u) * |(x - o) / sz| + η / sz := by
    have := abs_add_le (fl (x - o) / sz - (x - o) / sz) ((x - o) / sz)
    simp only [sub_add_cancel] at this
    linarith
  have e3 : |fl (fl (x - o) / sz) - (x - o) / sz| ≤
      |fl (fl (x - o) / sz) - fl (x - o) / sz| + |fl (x - o) / sz - (x - o) / sz| := by
    have := abs_add_le (fl (fl (x - o) / sz) - fl (x - o) / sz) (fl (x - o) / sz - (x - o) / sz)
    simpa using this
  have e4 : u * |fl (x - o) / sz| ≤ u * ((1 + u) * |(x - o) / sz| + η / sz) := mul_le_mul_of_nonneg_left e2 hu
  have e5 : η * ((1 + u) / sz + 1) = η / sz + u * (η / sz) + η := by field_simp
  rw [e5]
  nlinarith [abs_nonneg ((x - o) / sz)]

/-- exclusion band for any rounding with a mixed error model -/
theorem bin_transfer_band (fl : Rnd) (u η : Rat) (hu : 0 ≤ u) (hη : 0 ≤ η) (hfl : ∀ q, |fl q - q| ≤ u * |q| + η)
    {sz o : Rat} {d : Int} {b : Bin1D} (hb : Bin1D.new sz o d = .ok b) (x : Rat)
    (hlo : (2 * u + u * u) * |(x - b.origin) / b.sz| + η * ((1 + u) / b.sz + 1) ≤
      (x - b.origin) / b.sz - (((x - b.origin) / b.sz).floor : Rat))
    (hhi : (2 * u + u * u) * |(x - b.origin) / b.sz| + η * ((1 + u) / b.sz + 1) <
      (((x - b.origin) / b.sz).floor : Rat) + 1 - (x - b.origin) / b.sz) :
    b.bin fl x = b.bin id x ∧ b.lo id (b.bin fl x) ≤ x ∧ x < b.hi id (b.bin fl x) := by
  obtain ⟨_, w⟩ := Bin1D.new_ok hb
  have herr := rounded_quotient_error_mixed fl u η hu hη hfl x b.origin b.sz w.sz_pos
  have hq : (fl (fl (x - b.origin) / b.sz)).floor = ((x - b.origin) / b.sz).floor := by
    rw [floor_eq_iff']
    have := abs_le.mp herr
    constructor <;> linarith [this.1, this.2]
  rw [bin_transfer fl b x hq]
  exact ⟨rfl, (bin_mem hb x _).mp rfl⟩

/-- BINARY64, UNCONDITIONAL: outside the explicit band the rounded point lookup is the exact one and the point lies in the tile
    it returns (`u = 2^-53`, `η = 2^-1075`) -/
theorem bin_transfer_band_fl64 {sz o : Rat} {d : Int} {b : Bin1D} (hb : Bin1D.new sz o d = .ok b) (x : Rat)
    (hlo : (2 * (1 / 2 ^ 53) + 1 / 2 ^ 53 * (1 / 2 ^ 53)) * |(x - b.origin) / b.sz| +
        pow2 (-1074) / 2 * ((1 + 1 / 2 ^ 53) / b.sz + 1) ≤ (x - b.origin) / b.sz - (((x - b.origin) / b.sz).floor : Rat))
    (hhi : (2 * (1 / 2 ^ 53) + 1 / 2 ^ 53 * (1 / 2 ^ 53)) * |(x - b.origin) / b.sz| +
        pow2 (-1074) / 2 * ((1 + 1 / 2 ^ 53) / b.sz + 1) < (((x - b.origin) / b.sz).floor : Rat) + 1 - (x - b.origin) / b.sz) :
    b.bin fl64 x = b.bin id x ∧ b.lo id (b.bin fl64 x) ≤ x ∧ x < b.hi id (b.bin fl64 x) :=
  bin_transfer_band fl64 (1 / 2 ^ 53) (pow2 (-1074) / 2) (by positivity) (by have := pow2_pos (-1074); linarith)
    fl64_error_bound hb x hlo hhi

/-- 2-D: the binary64 `pt2idx` of a grid returns the exact tile for every point outside the band on both axes -/
theorem pt2idx_band_fl64 {ny nx : Int} {rx ry ox oy : Rat} {fx fy : Bool} {g : GridSpec}
    (hg : GridSpec.new id ny nx rx ry ox oy fx fy = .ok g) (x y : Rat)
    (hx : g.xbin.bin fl64 x = g.xbin.bin id x) (hy : g.ybin.bin fl64 y = g.ybin.bin id y) :
    g.pt2idx fl64 x y = g.pt2idx id x y ∧ (g.footprint (g.pt2idx fl64 x y)).memHalfOpen (x, y) := by
  have e : g.pt2idx fl64 x y = g.pt2idx id x y := by unfold GridSpec.pt2idx; rw [hx, hy]
  exact ⟨e, by rw [e]; exact pt_in_its_tile hg x y⟩

/-- non-vacuity: the centre of a DEA tile (96 km tiles from -4416000) is far outside the band -/
example : Bin1D.new 96000 (-4416000) 1 = .ok ⟨96000, -4416000, 1⟩ ∧
    (2 * (1 / 2 ^ 53) + 1 / 2 ^ 53 * (1 / 2 ^ 53)) * |((-816000 : Rat) - (-4416000)) / 96000| +
        pow2 (-1074) / 2 * ((1 + 1 / 2 ^ 53) / 96000 + 1) ≤ ((-816000 : Rat) - (-4416000)) / 96000 - 37 := by
  refine ⟨by decide +kernel, ?_⟩
  have hp : pow2 (-1074) ≤ 1 / 2 ^ 53 := by
    rw [pow2_eq_zpow]
    have : (2 : Rat) ^ (-1074 : Int) ≤ (2 : Rat) ^ (-53 : Int) := zpow_le_zpow_right₀ (by norm_num) (by norm_num)
    simpa [zpow_neg] using this
  have h1 : pow2 (-1074) / 2 * ((1 + 1 / 2 ^ 53) / 96000 + 1) ≤ 1 / 2 ^ 53 := by
    have c : (1 + 1 / 2 ^ 53) / 96000 + 1 ≤ (2 : Rat) := by norm_num
    have p0 := pow2_pos (-1074)
    nlinarith
  have h2 : (2 * (1 / 2 ^ 53) + 1 / 2 ^ 53 * (1 / 2 ^ 53)) * |((-816000 : Rat) - (-4416000)) / 96000| ≤ 1 / 2 ^ 40 := by
    rw [abs_of_pos (by norm_num)]; norm_num
  have h3 : (1 : Rat) / 2 ^ 53 + 1 / 2 ^ 40 ≤ ((-816000 : Rat) - (-4416000)) / 96000 - 37 := by norm_num
  linarith

end OdcGeo.C14
