/-
C05, part 3 — theorems about the statistics text, `cog_gbox` and the pyramid plan (`Model/C05Meta.lean`).
-/
import OdcGeo.Model.C05Meta
import OdcGeo.Lemmas.C05
import Mathlib.Tactic.Linarith
import Mathlib.Tactic.Positivity
import Mathlib.Algebra.Order.Field.Rat

set_option linter.unusedVariables false
set_option linter.unusedSimpArgs false

namespace OdcGeo.C05

/-! ## the printed statistics -/

/-- rounding half to even moves a value by at most one half -/
theorem round_half_even_error (q : Rat) : (roundHalfEven q : Rat) - q ≤ 1 / 2 ∧ q - (roundHalfEven q : Rat) ≤ 1 / 2 := by
  have h1 : (q.floor : Rat) ≤ q := Rat.floor_le q
  have h2 : q < (q.floor : Rat) + 1 := by
    have := Rat.lt_floor_add_one q
    push_cast at this; exact this
  unfold roundHalfEven
  simp only
  split
  · rename_i h; constructor <;> linarith
  · split
    · rename_i h h'; push_cast; constructor <;> linarith
    · rename_i h h'
      have he : q - (q.floor : Rat) = 1 / 2 := by
        have := not_lt.mp h; have := not_lt.mp h'; linarith
      split
      · constructor <;> linarith
      · push_cast; constructor <;> linarith

/-- `fixed_point_error`: the number printed with `p` decimals is within half a unit of the last printed place of the value —
`STATISTICS_*` items carry the computed statistics to `precision` decimals, correctly rounded -/
theorem fixed_point_error (v : Rat) (p : Nat) :
    |(fixedScaled v p : Rat) / (10 : Rat) ^ p - v| ≤ 1 / (2 * (10 : Rat) ^ p) := by
  have hp : (0 : Rat) < (10 : Rat) ^ p := by positivity
  obtain ⟨e1, e2⟩ := round_half_even_error (v * (10 : Rat) ^ p)
  unfold fixedScaled
  generalize (roundHalfEven (v * (10 : Rat) ^ p) : Rat) = R at e1 e2
  generalize (10 : Rat) ^ p = s at hp e1 e2
  have hs : s ≠ 0 := ne_of_gt hp
  have a2 : (R / s - v) * s = R - v * s := by field_simp
  rw [abs_le]
  constructor
  · have a1 : (-(1 / (2 * s))) * s = -(1 / 2) := by field_simp
    have h : (-(1 / (2 * s))) * s ≤ (R / s - v) * s := by rw [a1, a2]; linarith
    exact le_of_mul_le_mul_right h hp
  · have a1 : (1 / (2 * s)) * s = 1 / 2 := by field_simp
    have h : (R / s - v) * s ≤ (1 / (2 * s)) * s := by rw [a1, a2]; linarith
    exact le_of_mul_le_mul_right h hp

theorem mapM_some_get {α β : Type} (f : α → Option β) : ∀ (l : List α) (out : List β), l.mapM f = some out →
    out.length = l.length ∧ ∀ i (hi : i < l.length), ∃ b, out[i]? = some b ∧ f l[i] = some b := by
  intro l
  induction l with
  | nil => intro out h; simp at h; subst h; exact ⟨rfl, fun i hi => absurd hi (by simp)⟩
  | cons a l ih =>
    intro out h
    rw [List.mapM_cons] at h
    cases hfa : f a with
    | none => simp [hfa] at h
    | some b0 =>
      cases hl : l.mapM f with
      | none => simp [hfa, hl] at h
      | some rest =>
        simp [hfa, hl] at h
        subst h
        obtain ⟨hlen, hget⟩ := ih rest hl
        refine ⟨by simp [hlen], ?_⟩
        intro i hi
        cases i with
        | zero => exact ⟨b0, by simp, by simpa using hfa⟩
        | succ k =>
          obtain ⟨b, h1, h2⟩ := hget k (by simpa using hi)
          exact ⟨b, by simpa using h1, by simpa using h2⟩

/-- one dict per band, each with the keys of `stats` in their order, band `i` holding the `i`-th value of every key -/
theorem unwrap_stats_band (stats : List (String × List Rat)) (ndim : Nat) (bs : List (List (String × Rat)))
    (h : unwrapStats stats ndim = some bs) (i : Nat) (b : List (String × Rat)) (hb : bs[i]? = some b) :
    stats.mapM (fun kv => (kv.2[i]?).map fun v => (kv.1, v)) = some b := by
  unfold unwrapStats at h
  simp only at h
  obtain ⟨hlen, hget⟩ := mapM_some_get _ _ _ h
  have hi : i < bs.length := by
    rcases Nat.lt_or_ge i bs.length with h' | h'
    · exact h'
    · rw [List.getElem?_eq_none h'] at hb; cases hb
  obtain ⟨b', h1, h2⟩ := hget i (by omega)
  rw [hb] at h1
  cases h1
  simpa using h2

/-! ## `cog_gbox` -/

/-- `cog_gbox_nlevels`: with an explicit level count every side is padded up by less than `2^n` to a multiple of `2^n` -/
theorem cog_gbox_nlevels (shape : YX) (tile : TileArg) (n : Nat) :
    let r := cogGboxShape shape tile (some n)
    shape.y ≤ r.y ∧ r.y < shape.y + 2 ^ n ∧ 2 ^ n ∣ r.y ∧ shape.x ≤ r.x ∧ r.x < shape.x + 2 ^ n ∧ 2 ^ n ∣ r.x := by
  have hp : 0 < 2 ^ n := Nat.two_pow_pos n
  exact ⟨alignUp_ge _ _ hp, alignUp_lt _ _ hp, alignUp_dvd _ _ hp, alignUp_ge _ _ hp, alignUp_lt _ _ hp, alignUp_dvd _ _ hp⟩

/-- without a level count it is the padded shape of the layout rule for the given tile (256 by default; a number means a
square tile) — the shape `_make_empty_cog` pads to for the same last block size -/
theorem cog_gbox_default (shape : YX) :
    cogGboxShape shape .none none = (computeCogSpec shape ⟨256, 256⟩).1 ∧
    (∀ t, cogGboxShape shape (.int t) none = (computeCogSpec shape ⟨t, t⟩).1) ∧
    (∀ y x, cogGboxShape shape (.pair y x) none = (computeCogSpec shape ⟨y, x⟩).1) := ⟨rfl, fun _ => rfl, fun _ _ => rfl⟩

/-! ## the pyramid -/

/-- `pyramid_is_a_chain`: overview `k + 1` is reprojected from layer `k` (not from the full-resolution image) onto the GeoBox
of IFD `k + 1`, chunked by that IFD's tile; there is one step per overview IFD -/
theorem pyramid_is_a_chain (levels : List Level) :
    (pyramidPlan levels).length = levels.length - 1 ∧
    ∀ k (st : PyrStep), (pyramidPlan levels)[k]? = some st → st.src = k ∧ levels[k + 1]? = some st.dst ∧ st.chunks = st.dst.tile := by
  unfold pyramidPlan
  refine ⟨by simp, ?_⟩
  intro k st h
  simp only [List.getElem?_map, List.getElem?_zipIdx, Option.map_eq_some_iff] at h
  obtain ⟨⟨l, idx⟩, h1, rfl⟩ := h
  simp only [Option.map_eq_some_iff, Prod.mk.injEq] at h1
  obtain ⟨l', h2, rfl, rfl⟩ := h1
  refine ⟨by simp, ?_, rfl⟩
  rw [List.getElem?_drop] at h2
  rw [Nat.add_comm]; exact h2

end OdcGeo.C05
