/-
C18 — several objects at once (the per-object reading of "exactly one upload is initiated for the object" when one job
writes several COGs): what is proved for ANY number of objects.

* file sinks: `sinks_never_interfere` (Props/C18.lean) is already stated for a LIST of sinks of any length; here the
  contract of every sink of the list at once, and a three-sink instance.
* cluster protocol with explicit names (`DistN`): the threads of other objects - any number of them, any schedule -
  never touch this object's shared variable, its lock, its workers' copies or its threads (state-level
  non-interference).  Not proved: the per-object `Once` for the joint run (the model numbers upload ids globally, so
  the joint run is a product of single-object runs only up to a renaming of ids).
-/
import OdcGeo.Props.C18
import OdcGeo.Lemmas.C18Obj

set_option linter.unusedVariables false
set_option linter.unusedSimpArgs false

namespace OdcGeo.C18

/-! ## Any number of file sinks -/

/-- **all_sinks_honour_contract**: ANY number of sinks alive at once (the list `cfgs`, of any length) with pairwise
different parts directories and destinations, ANY interleaving `ops` of their operations: EVERY sink that started with
nothing of its own, wrote parts with distinct numbers and finalised them in that order ends with its destination equal
to the concatenation of its own data and its parts directory removed. -/
theorem all_sinks_honour_contract (cfgs : List SinkCfg)
    (hdist : ∀ (i j : Nat) (ci cj : SinkCfg), cfgs[i]? = some ci → cfgs[j]? = some cj → i ≠ j →
      ci.pkey ≠ cj.pkey ∧ ci.dkey ≠ cj.dkey)
    (ops : List (Nat × SinkOp)) (fs : FS) :
    ∀ (i : Nat) (c : SinkCfg) (ws : List (Nat × Bytes)), cfgs[i]? = some c → fs.view c = {} → ws ≠ [] →
      (ws.map (·.1)).Nodup →
      ownOps i ops = ws.map SinkOp.write ++ [SinkOp.finalise (ws.map (·.1)) false] →
      ((FS.run cfgs fs ops).1.view c).dst = some (ws.flatMap (·.2)) ∧
        ((FS.run cfgs fs ops).1.view c).dirExists = false ∧ ((FS.run cfgs fs ops).1.view c).parts = [] :=
  fun i c ws hc hfresh hne hnd hown =>
    sink_contract_among_others cfgs hdist i c hc ops fs hfresh ws hne hnd hown

/-- non-vacuity with THREE sinks (`dem.tif`, `dem.msk`, and `dem.tif` of another directory), interleaved: pairwise
distinct keys, and each destination holds its own bytes -/
example :
    let a : SinkCfg := { dir := "d", name := "dem.tif" }
    let b : SinkCfg := { dir := "d", name := "dem.msk" }
    let c : SinkCfg := { dir := "e", name := "dem.tif" }
    let r := FS.run [a, b, c] {} [(0, .write (1, [1])), (2, .write (1, [3])), (1, .write (1, [2])), (2, .write (2, [3, 3])),
                                   (1, .finalise [1] false), (0, .finalise [1] false), (2, .finalise [1, 2] false)]
    a.pkey ≠ b.pkey ∧ a.pkey ≠ c.pkey ∧ b.pkey ≠ c.pkey ∧ a.dkey ≠ b.dkey ∧ a.dkey ≠ c.dkey ∧ b.dkey ≠ c.dkey ∧
      (r.1.view a).dst = some [1] ∧ (r.1.view b).dst = some [2] ∧ (r.1.view c).dst = some [3, 3, 3] ∧
      r.2 = [none, none, none, none, none, none, none] := by decide

/-! ## Any number of objects on one cluster: state-level non-interference -/

/-- **other_objects_never_touch_this_one**: an object whose writers use the Variable name `V` and the Lock name `L`.
Threads of OTHER objects - their workers' copies compute other names - in any number and any schedule `sched`: the
shared variable `V`, the lock `L`, every thread that is not in `sched` and the copy of every worker that hosts none of
the scheduled threads are exactly as before.  (A "worker" of the model is a writer copy: one per process and object.) -/
theorem other_objects_never_touch_this_one (cfg : DistN.Cfg) (L V : Nat) (sched : List Nat)
    (hforeign : ∀ t ∈ sched, cfg.varName (cfg.worker t) ≠ V ∧ cfg.lockName (cfg.worker t) ≠ L) :
    ∀ s : DistN.State,
      (DistN.runFrom cfg s sched).vars V = s.vars V ∧ (DistN.runFrom cfg s sched).locks L = s.locks L ∧
      (∀ t', t' ∉ sched → (DistN.runFrom cfg s sched).pc t' = s.pc t') ∧
      (∀ w, (∀ t ∈ sched, cfg.worker t ≠ w) → (DistN.runFrom cfg s sched).wid w = s.wid w) := by
  induction sched with
  | nil => intro s; exact ⟨rfl, rfl, fun _ _ => rfl, fun _ _ => rfl⟩
  | cons t rest ih =>
    intro s
    have ht := hforeign t List.mem_cons_self
    obtain ⟨f1, f2, f3, f4⟩ := DistN.step_frame cfg L V s t ht.1 ht.2
    obtain ⟨g1, g2, g3, g4⟩ := ih (fun u hu => hforeign u (List.mem_cons_of_mem _ hu)) (DistN.step cfg s t)
    have hrun : DistN.runFrom cfg s (t :: rest) = DistN.runFrom cfg (DistN.step cfg s t) rest := rfl
    rw [hrun]
    refine ⟨g1.trans f1, g2.trans f2, ?_, ?_⟩
    · intro t' hn
      have h1 : t' ≠ t := fun e => hn (e ▸ List.mem_cons_self)
      have h2 : t' ∉ rest := fun e => hn (List.mem_cons_of_mem _ e)
      rw [g3 t' h2, f3 t' h1]
    · intro w hw
      have h1 : w ≠ cfg.worker t := fun e => hw t List.mem_cons_self e.symm
      rw [g4 w (fun u hu => hw u (List.mem_cons_of_mem _ hu)), f4 w h1]

/-- non-vacuity: object A (copy 0, names 0/0) has published its id; object B's two threads (copies 1 and 2, names
1/1) run to the end: A's variable, lock, copy and thread are untouched, B has initiated its own upload -/
example :
    let cfg : DistN.Cfg := { kind := fun t => .write (t + 1), worker := fun t => t,
                             varName := fun w => if w = 0 then 0 else 1, lockName := fun w => if w = 0 then 0 else 1 }
    let s := DistN.run cfg (List.replicate 11 0)
    let s' := DistN.runFrom cfg s (List.replicate 16 1 ++ List.replicate 12 2)
    s.vars 0 = some 1 ∧ s'.vars 0 = some 1 ∧ s'.locks 0 = s.locks 0 ∧ s'.pc 0 = s.pc 0 ∧ s'.wid 0 = 1 ∧
      s'.vars 1 = some 2 ∧ s'.pc 1 = .done ∧ s'.pc 2 = .done ∧ s'.creates = 2 := by decide

/-- … and the converse direction of the same frame: this object's own threads leave every OTHER name alone -/
theorem this_object_never_touches_other_names (cfg : DistN.Cfg) (L V : Nat) (sched : List Nat)
    (hown : ∀ t ∈ sched, cfg.varName (cfg.worker t) = V ∧ cfg.lockName (cfg.worker t) = L)
    (L' V' : Nat) (hV : V' ≠ V) (hL : L' ≠ L) (s : DistN.State) :
    (DistN.runFrom cfg s sched).vars V' = s.vars V' ∧ (DistN.runFrom cfg s sched).locks L' = s.locks L' :=
  let h := other_objects_never_touch_this_one cfg L' V' sched
    (fun t ht => ⟨by rw [(hown t ht).1]; exact fun e => hV e.symm, by rw [(hown t ht).2]; exact fun e => hL e.symm⟩) s
  ⟨h.1, h.2.1⟩

end OdcGeo.C18
