/- C07 — corollaries of the densify theorems for coordinate lists of ANY length: whenever some edge — at
any position, the last / closing one included — is longer than the resolution, `densify` cannot hand the
list back unchanged: that edge gets at least one added vertex strictly inside it, the output is strictly
longer than the input, and no output edge exceeds the resolution.  (A "fast path" that returns a long
list unchanged after looking at only some of its edges contradicts this.) -/
import OdcGeo.Props.C07
import Mathlib.Tactic.Linarith

namespace OdcGeo.C07
set_option linter.unusedSectionVars false

variable {K : Type} [Field K] [LinearOrder K] [IsStrictOrderedRing K]

/-- a list all of whose consecutive gaps are `≤ r` has no consecutive pair further apart, wherever the
pair sits (any prefix, any suffix — in particular the last edge: `post = []`) -/
theorem gapsLe_pair_anywhere (r : K) (p1 p2 : Pt K) (post : List (Pt K)) :
    ∀ pre : List (Pt K), GapsLe r (pre ++ p1 :: p2 :: post) → dist2 p1 p2 ≤ r * r
  | [], h => h.1
  | [a], h => gapsLe_pair_anywhere r p1 p2 post [] h.2
  | a :: b :: pre, h => gapsLe_pair_anywhere r p1 p2 post (b :: pre) h.2

/-- **The long edge itself gets a vertex**: an edge longer than the resolution (shapely's length
contract `EdgeOk` for this edge) receives at least one added vertex, and every added vertex lies
strictly inside the edge -/
theorem long_edge_gets_vertex (E : Env K) (r : K) (hr : 0 < r) (p1 p2 : Pt K)
    (hlong : r * r < dist2 p1 p2) (hE : EdgeOk E r p1 p2) :
    (∃ q, q ∈ (edge shortEnough E r p1 p2).dropLast) ∧
    ∀ q ∈ (edge shortEnough E r p1 p2).dropLast,
      ∃ τ : K, 0 < τ ∧ τ < 1 ∧ q.x = p1.x + τ * (p2.x - p1.x) ∧ q.y = p1.y + τ * (p2.y - p1.y) := by
  have hs : shortEnough r p1 p2 = false := by
    simp only [shortEnough, decide_eq_false_iff_not, not_lt]; exact le_of_lt hlong
  have hlen : r < E.len p1 p2 := by
    by_contra hc
    have hle : E.len p1 p2 ≤ r := not_lt.mp hc
    have : E.len p1 p2 * E.len p1 p2 ≤ r * r := mul_le_mul hle hle hE.len_nonneg (le_of_lt hr)
    rw [hE.len_sq] at this
    exact absurd hlong (not_lt.mpr this)
  have hfuel : E.fuel r p1 p2 ≠ 0 := by
    intro h0
    have := hE.fuel_ok
    rw [h0] at this
    simp only [Nat.cast_zero, zero_add, one_mul] at this
    exact absurd hlen (not_lt.mpr (le_of_lt this))
  obtain ⟨f, hf⟩ := Nat.exists_eq_succ_of_ne_zero hfuel
  have hdrop : (edge shortEnough E r p1 p2).dropLast = loopPts p1 p2 (E.len p1 p2) r (E.fuel r p1 p2) r := by
    simp [edge, hs]
  constructor
  · refine ⟨interp p1 p2 (E.len p1 p2) r, ?_⟩
    rw [hdrop, hf]
    simp [loopPts, hlen]
  · intro q hq
    rw [hdrop] at hq
    exact densify_on_edge E r hr p1 p2 q _ hq

/-- **Any length, any position**: if the coordinate list `pre ++ [p1, p2] ++ post` has an edge `p1 → p2`
longer than the resolution — first, middle, last (`post = []`) or the closing edge of a ring — then a
successful `densify` returns a list in which no edge exceeds the resolution, which keeps all input
vertices in order, which is **strictly longer than the input** and hence **not the input**. -/
theorem densify_long_edge_anywhere (E : Env K) (r : K) (pre post : List (Pt K)) (p1 p2 : Pt K) (out : List (Pt K))
    (hlong : r * r < dist2 p1 p2) (hE : CoordsOk E r (pre ++ p1 :: p2 :: post))
    (h : densify E r (pre ++ p1 :: p2 :: post) = .ok out) :
    GapsLe r out ∧ List.Sublist (pre ++ p1 :: p2 :: post) out ∧
    (pre ++ p1 :: p2 :: post).length < out.length ∧ out ≠ pre ++ p1 :: p2 :: post := by
  have hg := densify_gap_le E r _ out hE h
  have hne : out ≠ pre ++ p1 :: p2 :: post := by
    intro heq
    rw [heq] at hg
    exact absurd hlong (not_lt.mpr (gapsLe_pair_anywhere r p1 p2 post pre hg))
  have hsub : List.Sublist (pre ++ p1 :: p2 :: post) out := by
    rcases densify_cases E r _ out h with ⟨h0, _, _⟩ | ⟨_, h'⟩
    · exact absurd h0 (by simp)
    · exact densify_retains shortEnough E r _ out h'
  refine ⟨hg, hsub, ?_, hne⟩
  rcases lt_or_eq_of_le hsub.length_le with hlt | heq
  · exact hlt
  · exact absurd (hsub.eq_of_length heq).symm hne

/-- the same over the reals with the true Euclidean length: no hypothesis on shapely is left -/
theorem densify_long_edge_anywhere_real (r : ℝ) (pre post : List (Pt ℝ)) (p1 p2 : Pt ℝ) (out : List (Pt ℝ))
    (hlong : r * r < dist2 p1 p2) (h : densify envReal r (pre ++ p1 :: p2 :: post) = .ok out) :
    GapsLe r out ∧ (pre ++ p1 :: p2 :: post).length < out.length ∧ out ≠ pre ++ p1 :: p2 :: post := by
  have hr : 0 < r := by
    rcases densify_cases envReal r _ out h with ⟨h0, _, _⟩ | ⟨_, h'⟩
    · exact absurd h0 (by simp)
    · exact (densify_ok shortEnough envReal r _ out h').1
  have := densify_long_edge_anywhere envReal r pre post p1 p2 out hlong (envReal_coordsOk r hr _) h
  exact ⟨this.1, this.2.2.1, this.2.2.2⟩

/-- non-vacuity: 70 short edges followed by ONE long last edge (the round-7 shape), over `Rat` -/
example : ∃ pre : List (Pt Rat), pre.length = 70 ∧
    (1 : Rat) * 1 < dist2 (⟨70, 0⟩ : Pt Rat) ⟨70, 8⟩ := ⟨List.replicate 70 ⟨0, 0⟩, by simp, by norm_num [dist2]⟩

example : EdgeOk (⟨fun _ _ => 5, fuelRat⟩ : Env Rat) 1 ⟨0, 0⟩ ⟨3, 4⟩ ∧ (1 : Rat) * 1 < dist2 (⟨0, 0⟩ : Pt Rat) ⟨3, 4⟩ := by
  refine ⟨⟨by norm_num [dist2], by norm_num, ?_⟩, by norm_num [dist2]⟩
  exact fuelRat_sufficient 1 5 ⟨0, 0⟩ ⟨3, 4⟩ (by norm_num) (by norm_num) (by norm_num [dist2])

end OdcGeo.C07
