/- C07 — property theorems only. -/
import OdcGeo.Model.C07
namespace OdcGeo.C07

end OdcGeo.C07
