/- C07 — property theorems only.

Coordinates range over an arbitrary linear ordered field `K` (ℝ included); shapely's segment
length enters through `Env.len` with the contract `EdgeOk` (`len² = |p2 - p1|²`, `len ≥ 0`,
and enough loop fuel), required only for the edges that are actually densified.
"Distance ≤ r" is stated on squares (`dist2 a b ≤ r*r`, equivalent for `r > 0`). -/
import OdcGeo.Model.C07
import OdcGeo.Lemmas.C07
import OdcGeo.Lemmas.C01
import OdcGeo.Model.C16
import Mathlib.Tactic.Ring
import Mathlib.Tactic.Linarith
import Mathlib.Tactic.FieldSimp
import Mathlib.Tactic.Positivity
import Mathlib.Tactic.NormNum
import Mathlib.Algebra.Order.Field.Basic
import Mathlib.Algebra.Order.Field.Rat
import Mathlib.Analysis.Real.Sqrt
import Mathlib.Algebra.Order.Floor.Semiring

namespace OdcGeo.C07
set_option linter.unusedSectionVars false

variable {K : Type} [Field K] [LinearOrder K] [IsStrictOrderedRing K]

/-! ### densify -/

/-- what a successful `densify` call is -/
theorem densify_ok (short : K → Pt K → Pt K → Bool) (E : Env K) (r : K) (coords out : List (Pt K))
    (h : densifyWith short E r coords = .ok out) :
    0 < r ∧ ∃ p rest, coords = p :: rest ∧ out = p :: densifyFrom short E r p rest := by
  cases coords with
  | nil =>
    unfold densifyWith at h
    by_cases hr : r ≤ 0 <;> simp [hr] at h
  | cons p rest =>
    unfold densifyWith at h
    by_cases hr : r ≤ 0
    · simp [hr] at h
    · simp only [hr, if_false, Except.ok.injEq] at h
      exact ⟨not_le.mp hr, p, rest, rfl, h.symm⟩

/-- a non-positive resolution is rejected (it used to loop forever) -/
theorem densify_nonpos_errors (E : Env K) (r : K) (hr : r ≤ 0) (coords : List (Pt K)) :
    densify E r coords = .error .valueError := by
  cases coords <;> simp [densify, densifyWith, hr]

/-- what a successful `densify` call of the repaired tree is: the empty list for the empty list, the
non-empty core (`densifyWith`) otherwise -/
theorem densify_cases (E : Env K) (r : K) (coords out : List (Pt K)) (h : densify E r coords = .ok out) :
    (coords = [] ∧ out = [] ∧ 0 < r) ∨ (coords ≠ [] ∧ densifyWith shortEnough E r coords = .ok out) := by
  cases coords with
  | nil =>
    left
    simp only [densify] at h
    by_cases hr : r ≤ 0
    · simp [hr] at h
    · simp only [hr, if_false, Except.ok.injEq] at h
      exact ⟨rfl, h.symm, not_le.mp hr⟩
  | cons p rest => exact Or.inr ⟨by simp, h⟩

/-- **fix3-C07**: an empty coordinate list (empty LineString / ring / polygon shell) is handed back
empty for every positive resolution — it used to be an `IndexError` (`densifyAsFound`) -/
theorem densify_empty (E : Env K) (r : K) (hr : 0 < r) :
    densify E r [] = .ok [] ∧ densifyAsFound E r [] = .error .indexError := by
  have : ¬ r ≤ 0 := not_le.mpr hr
  simp [densify, densifyAsFound, densifyWith, this]

/-- **No edge of the output is longer than the resolution** (repaired code; every direction and
position of the edges, any number of vertices). -/
theorem densify_gap_le (E : Env K) (r : K) (coords out : List (Pt K))
    (hE : CoordsOk E r coords) (h : densify E r coords = .ok out) : GapsLe r out := by
  rcases densify_cases E r coords out h with ⟨_, rfl, _⟩ | ⟨_, h⟩
  · trivial
  · obtain ⟨hr, p, rest, rfl, rfl⟩ := densify_ok shortEnough E r coords out h
    exact densifyFrom_gaps E r hr rest p hE

/-- The code as found (F3) violates it: `densify([(0,0),(0,100)], 10)` returns its input. -/
theorem densify_gap_le_F3_cex (E : Env Rat) :
    densifyF3 E 10 [⟨0, 0⟩, ⟨0, 100⟩] = .ok [⟨0, 0⟩, ⟨0, 100⟩] ∧
    ¬ GapsLe (10 : Rat) [⟨0, 0⟩, ⟨0, 100⟩] := by
  constructor
  · simp [densifyF3, densifyFrom, edge, shortEnoughF3]
  · simp only [GapsLe, dist2, and_true]; norm_num

/-- **All original vertices are retained, in order** (a sublist), for any length test and any
shapely: nothing but insertion ever happens. -/
theorem densify_retains (short : K → Pt K → Pt K → Bool) (E : Env K) (r : K) (coords out : List (Pt K))
    (h : densifyWith short E r coords = .ok out) : List.Sublist coords out := by
  obtain ⟨_, p, rest, rfl, rfl⟩ := densify_ok short E r coords out h
  exact (densifyFrom_sublist short E r rest p).cons_cons p

/-- first and last vertex are kept as first and last -/
theorem densify_first_last (short : K → Pt K → Pt K → Bool) (E : Env K) (r : K)
    (coords out : List (Pt K)) (h : densifyWith short E r coords = .ok out) :
    out.head? = coords.head? ∧ out.getLast? = coords.getLast? := by
  obtain ⟨_, p, rest, rfl, rfl⟩ := densify_ok short E r coords out h
  exact ⟨rfl, densifyFrom_getLast short E r rest p⟩

/-- **Added vertices lie on the original edge**: everything the loop inserts for the edge
`p1 → p2` is `p1 + τ (p2 - p1)` with `0 < τ < 1`. -/
theorem densify_on_edge (E : Env K) (r : K) (hr : 0 < r) (p1 p2 q : Pt K) (fuel : Nat)
    (hq : q ∈ loopPts p1 p2 (E.len p1 p2) r fuel r) :
    ∃ τ : K, 0 < τ ∧ τ < 1 ∧ q.x = p1.x + τ * (p2.x - p1.x) ∧ q.y = p1.y + τ * (p2.y - p1.y) := by
  obtain ⟨d, h1, h2, rfl⟩ := loopPts_mem p1 p2 (E.len p1 p2) r hr fuel r q hq
  have hd : 0 < d := lt_of_lt_of_le hr h1
  have hLpos : 0 < E.len p1 p2 := lt_trans hd h2
  refine ⟨d / E.len p1 p2, div_pos hd hLpos, (div_lt_one hLpos).mpr h2, rfl, rfl⟩

/-- everything `densify` puts between `p1` and `p2` comes from that loop -/
theorem edge_inserted (E : Env K) (r : K) (p1 p2 q : Pt K)
    (hq : q ∈ (edge shortEnough E r p1 p2).dropLast) :
    q ∈ loopPts p1 p2 (E.len p1 p2) r (E.fuel r p1 p2) r := by
  unfold edge at hq
  by_cases hs : shortEnough r p1 p2 = true
  · simp [hs] at hq
  · simpa [hs] using hq

/-- **Length is preserved**: an added vertex at arc length `d` splits its edge into parts of
lengths `d` and `L - d` (their squares are the squared distances; both are positive), which
add up to the edge length `L`. -/
theorem densify_len_preserved (E : Env K) (r : K) (hr : 0 < r) (p1 p2 q : Pt K) (fuel : Nat)
    (hE : EdgeOk E r p1 p2) (hq : q ∈ loopPts p1 p2 (E.len p1 p2) r fuel r) :
    ∃ d : K, 0 < d ∧ 0 < E.len p1 p2 - d ∧ dist2 p1 q = d * d ∧
      dist2 q p2 = (E.len p1 p2 - d) * (E.len p1 p2 - d) ∧ d + (E.len p1 p2 - d) = E.len p1 p2 := by
  obtain ⟨d, h1, h2, rfl⟩ := loopPts_mem p1 p2 (E.len p1 p2) r hr fuel r q hq
  have hd : 0 < d := lt_of_lt_of_le hr h1
  have hL0 : E.len p1 p2 ≠ 0 := ne_of_gt (lt_trans hd h2)
  exact ⟨d, hd, by linarith, dist2_start_interp p1 p2 _ d hL0 hE.len_sq,
    dist2_interp_end p1 p2 _ d hL0 hE.len_sq, by ring⟩

/-- consecutive added vertices are exactly `r` apart (so the gaps of an edge are
`r, r, …, r, L - n·r`, summing to `L`) -/
theorem densify_inner_gap (p1 p2 : Pt K) (L r d : K) (hL : L ≠ 0) (hLL : L * L = dist2 p1 p2) :
    dist2 (interp p1 p2 L d) (interp p1 p2 L (d + r)) = r * r := by
  rw [dist2_interp_interp p1 p2 L d (d + r) hL hLL]; ring

/-- **Area is preserved**: inserting a vertex on the edge leaves the shoelace sum unchanged … -/
theorem shoelace_insert_collinear (a b : Pt K) (τ : K) :
    cross a ⟨a.x + τ * (b.x - a.x), a.y + τ * (b.y - a.y)⟩
      + cross ⟨a.x + τ * (b.x - a.x), a.y + τ * (b.y - a.y)⟩ b = cross a b := by
  simp only [cross]; ring

/-- … hence `densify` keeps the shoelace sum (twice the signed area of a ring) exactly,
for any length test and any shapely. -/
theorem densify_area_preserved (short : K → Pt K → Pt K → Bool) (E : Env K) (r : K)
    (coords out : List (Pt K)) (h : densifyWith short E r coords = .ok out) :
    shoelace out = shoelace coords := by
  obtain ⟨_, p, rest, rfl, rfl⟩ := densify_ok short E r coords out h
  exact shoelace_densifyFrom short E r rest p

/-! ### segmented: recursion over geometry kinds -/

theorem densifyRings_spec (E : Env K) (r : K) :
    ∀ (cs cs' : List (List (Pt K))), densifyRings E r cs = .ok cs' →
      List.Forall₂ (fun c c' => densify E r c = .ok c') cs cs' := by
  intro cs
  induction cs with
  | nil => intro cs' h; simp only [densifyRings, Except.ok.injEq] at h; subst h; exact .nil
  | cons c cs ih =>
    intro cs' h
    unfold densifyRings at h
    cases hd : densify E r c with
    | error e => simp [hd] at h
    | ok c' =>
      cases hr : densifyRings E r cs with
      | error e => simp [hd, hr] at h
      | ok cs'' =>
        simp only [hd, hr, Except.ok.injEq] at h
        subst h
        exact .cons hd (ih cs'' hr)

mutual
/-- **Geometry type and ring / part structure are unchanged** by `segmented` … -/
theorem segmented_preserves_kind_and_structure (E : Env K) (r : K) :
    ∀ (g g' : Geom K), segmentize E r g = .ok g' → skel g' = skel g
  | .point p, g', h => by simp only [segmentize, Except.ok.injEq] at h; subst h; rfl
  | .multiPoint ps, g', h => by simp only [segmentize, Except.ok.injEq] at h; subst h; rfl
  | .lineString cs, g', h => by
    simp only [segmentize] at h
    cases hd : densify E r cs with
    | error e => simp [hd] at h
    | ok cs' => simp only [hd, Except.ok.injEq] at h; subst h; rfl
  | .linearRing cs, g', h => by
    simp only [segmentize] at h
    cases hd : densify E r cs with
    | error e => simp [hd] at h
    | ok cs' => simp only [hd, Except.ok.injEq] at h; subst h; rfl
  | .polygon ext holes, g', h => by
    simp only [segmentize] at h
    cases hd : densify E r ext with
    | error e => simp [hd] at h
    | ok ext' =>
      cases hh : densifyRings E r holes with
      | error e => simp [hd, hh] at h
      | ok holes' =>
        simp only [hd, hh, Except.ok.injEq] at h; subst h
        simp only [skel]
        rw [(densifyRings_spec E r holes holes' hh).length_eq]
  | .multiLineString gs, g', h => by
    simp only [segmentize] at h
    cases hl : segmentizeList E r gs with
    | error e => simp [hl] at h
    | ok gs' =>
      simp only [hl, Except.ok.injEq] at h; subst h
      simp only [skel]; rw [segmentedList_preserves E r gs gs' hl]
  | .multiPolygon gs, g', h => by
    simp only [segmentize] at h
    cases hl : segmentizeList E r gs with
    | error e => simp [hl] at h
    | ok gs' =>
      simp only [hl, Except.ok.injEq] at h; subst h
      simp only [skel]; rw [segmentedList_preserves E r gs gs' hl]
  | .collection gs, g', h => by
    simp only [segmentize] at h
    cases hl : segmentizeList E r gs with
    | error e => simp [hl] at h
    | ok gs' =>
      simp only [hl, Except.ok.injEq] at h; subst h
      simp only [skel]; rw [segmentedList_preserves E r gs gs' hl]
/-- … part by part, in order -/
theorem segmentedList_preserves (E : Env K) (r : K) :
    ∀ (gs gs' : List (Geom K)), segmentizeList E r gs = .ok gs' → skelList gs' = skelList gs
  | [], gs', h => by simp only [segmentizeList, Except.ok.injEq] at h; subst h; rfl
  | g :: gs, gs', h => by
    simp only [segmentizeList] at h
    cases hg : segmentize E r g with
    | error e => simp [hg] at h
    | ok g1 =>
      cases hl : segmentizeList E r gs with
      | error e => simp [hg, hl] at h
      | ok gs1 =>
        simp only [hg, hl, Except.ok.injEq] at h; subst h
        simp only [skelList]
        rw [segmented_preserves_kind_and_structure E r g g1 hg, segmentedList_preserves E r gs gs1 hl]
end

/-- ring by ring, `segmented` is `densify` (points are left alone) -/
def RingRel (E : Env K) (r : K) (c c' : List (Pt K)) : Prop :=
  (c' = c ∧ ∃ p, c = [p]) ∨ densify E r c = .ok c'

theorem forall₂_refl_ringRel (E : Env K) (r : K) (ps : List (Pt K)) :
    List.Forall₂ (RingRel E r) (ps.map (fun p => [p])) (ps.map (fun p => [p])) := by
  induction ps with
  | nil => exact .nil
  | cons p ps ih => exact .cons (Or.inl ⟨rfl, p, rfl⟩) ih

mutual
/-- every coordinate sequence of `g.segmented(r)` is the corresponding sequence of `g`, either
untouched (points) or passed through `densify`; same number of sequences, same order -/
theorem segmented_ringwise (E : Env K) (r : K) :
    ∀ (g g' : Geom K), segmentize E r g = .ok g' → List.Forall₂ (RingRel E r) (rings g) (rings g')
  | .point p, g', h => by
    simp only [segmentize, Except.ok.injEq] at h; subst h; exact forall₂_refl_ringRel E r [p]
  | .multiPoint ps, g', h => by
    simp only [segmentize, Except.ok.injEq] at h; subst h; exact forall₂_refl_ringRel E r ps
  | .lineString cs, g', h => by
    simp only [segmentize] at h
    cases hd : densify E r cs with
    | error e => simp [hd] at h
    | ok cs' => simp only [hd, Except.ok.injEq] at h; subst h; exact .cons (Or.inr hd) .nil
  | .linearRing cs, g', h => by
    simp only [segmentize] at h
    cases hd : densify E r cs with
    | error e => simp [hd] at h
    | ok cs' => simp only [hd, Except.ok.injEq] at h; subst h; exact .cons (Or.inr hd) .nil
  | .polygon ext holes, g', h => by
    simp only [segmentize] at h
    cases hd : densify E r ext with
    | error e => simp [hd] at h
    | ok ext' =>
      cases hh : densifyRings E r holes with
      | error e => simp [hd, hh] at h
      | ok holes' =>
        simp only [hd, hh, Except.ok.injEq] at h; subst h
        simp only [rings]
        exact .cons (Or.inr hd) ((densifyRings_spec E r holes holes' hh).imp (fun _ _ h => Or.inr h))
  | .multiLineString gs, g', h => by
    simp only [segmentize] at h
    cases hl : segmentizeList E r gs with
    | error e => simp [hl] at h
    | ok gs' =>
      simp only [hl, Except.ok.injEq] at h; subst h
      exact segmentedList_ringwise E r gs gs' hl
  | .multiPolygon gs, g', h => by
    simp only [segmentize] at h
    cases hl : segmentizeList E r gs with
    | error e => simp [hl] at h
    | ok gs' =>
      simp only [hl, Except.ok.injEq] at h; subst h
      exact segmentedList_ringwise E r gs gs' hl
  | .collection gs, g', h => by
    simp only [segmentize] at h
    cases hl : segmentizeList E r gs with
    | error e => simp [hl] at h
    | ok gs' =>
      simp only [hl, Except.ok.injEq] at h; subst h
      exact segmentedList_ringwise E r gs gs' hl
theorem segmentedList_ringwise (E : Env K) (r : K) :
    ∀ (gs gs' : List (Geom K)), segmentizeList E r gs = .ok gs' →
      List.Forall₂ (RingRel E r) (ringsList gs) (ringsList gs')
  | [], gs', h => by simp only [segmentizeList, Except.ok.injEq] at h; subst h; exact .nil
  | g :: gs, gs', h => by
    simp only [segmentizeList] at h
    cases hg : segmentize E r g with
    | error e => simp [hg] at h
    | ok g1 =>
      cases hl : segmentizeList E r gs with
      | error e => simp [hg, hl] at h
      | ok gs1 =>
        simp only [hg, hl, Except.ok.injEq] at h; subst h
        simp only [ringsList]
        exact List.rel_append (segmented_ringwise E r g g1 hg) (segmentedList_ringwise E r gs gs1 hl)
end

theorem forall₂_mem_right {α β : Type} {R : α → β → Prop} {l : List α} {l' : List β}
    (h : List.Forall₂ R l l') {b : β} (hb : b ∈ l') : ∃ a ∈ l, R a b := by
  induction h with
  | nil => simp at hb
  | cons hab _ ih =>
    rcases List.mem_cons.mp hb with rfl | hm
    · exact ⟨_, List.mem_cons_self .., hab⟩
    · obtain ⟨a, ha, hr⟩ := ih hm
      exact ⟨a, List.mem_cons_of_mem _ ha, hr⟩

/-- **No edge of a segmented geometry is longer than the resolution**, whatever its kind -/
theorem segmented_gap_le (E : Env K) (r : K) (g g' : Geom K) (h : segmentize E r g = .ok g')
    (hE : ∀ c ∈ rings g, CoordsOk E r c) : ∀ c' ∈ rings g', GapsLe r c' := by
  intro c' hc'
  have hrel := segmented_ringwise E r g g' h
  obtain ⟨c, hc, hr⟩ := forall₂_mem_right hrel hc'
  rcases hr with ⟨rfl, p, rfl⟩ | hd
  · simp [GapsLe]
  · exact densify_gap_le E r c c' (hE c hc) hd

/-- all original vertices of every ring / part are retained in order by `segmented` -/
theorem segmented_retains (E : Env K) (r : K) (g g' : Geom K) (h : segmentize E r g = .ok g') :
    List.Forall₂ (fun c c' => List.Sublist c c' ∧ c'.head? = c.head? ∧ c'.getLast? = c.getLast?)
      (rings g) (rings g') := by
  refine (segmented_ringwise E r g g' h).imp ?_
  intro c c' hr
  rcases hr with ⟨rfl, _⟩ | hd
  · exact ⟨List.Sublist.refl _, rfl, rfl⟩
  · rcases densify_cases E r c c' hd with ⟨rfl, rfl, _⟩ | ⟨_, hd⟩
    · exact ⟨List.Sublist.refl _, rfl, rfl⟩
    · exact ⟨densify_retains shortEnough E r c c' hd, densify_first_last shortEnough E r c c' hd⟩

/-- ring areas (shoelace sums) are unchanged by `segmented` -/
theorem segmented_area_preserved (E : Env K) (r : K) (g g' : Geom K) (h : segmentize E r g = .ok g') :
    List.Forall₂ (fun c c' => shoelace c' = shoelace c) (rings g) (rings g') := by
  refine (segmented_ringwise E r g g' h).imp ?_
  intro c c' hr
  rcases hr with ⟨rfl, _⟩ | hd
  · rfl
  · rcases densify_cases E r c c' hd with ⟨rfl, rfl, _⟩ | ⟨_, hd⟩
    · rfl
    · exact densify_area_preserved shortEnough E r c c' hd

/-! ### to_crs -/

-- `ops.transform` maps vertex by vertex, in order …
mutual
theorem vertices_mapPts (f : Pt K → Pt K) : ∀ g : Geom K, vertices (mapPts f g) = (vertices g).map f
  | .point p => by simp [mapPts, vertices]
  | .multiPoint ps => by simp [mapPts, vertices]
  | .lineString cs => by simp [mapPts, vertices]
  | .linearRing cs => by simp [mapPts, vertices]
  | .polygon ext holes => by simp [mapPts, vertices, List.map_flatten]
  | .multiLineString gs => by simp only [mapPts, vertices]; exact verticesList_mapPts f gs
  | .multiPolygon gs => by simp only [mapPts, vertices]; exact verticesList_mapPts f gs
  | .collection gs => by simp only [mapPts, vertices]; exact verticesList_mapPts f gs
theorem verticesList_mapPts (f : Pt K → Pt K) :
    ∀ gs : List (Geom K), verticesList (mapPtsList f gs) = (verticesList gs).map f
  | [] => rfl
  | g :: gs => by
    simp only [mapPtsList, verticesList, List.map_append]
    rw [vertices_mapPts f g, verticesList_mapPts f gs]
end

-- … and keeps geometry type and ring / part structure
mutual
theorem skel_mapPts (f : Pt K → Pt K) : ∀ g : Geom K, skel (mapPts f g) = skel g
  | .point p => rfl
  | .multiPoint ps => by simp [mapPts, skel]
  | .lineString cs => rfl
  | .linearRing cs => rfl
  | .polygon ext holes => by simp [mapPts, skel]
  | .multiLineString gs => by simp only [mapPts, skel]; rw [skelList_mapPts f gs]
  | .multiPolygon gs => by simp only [mapPts, skel]; rw [skelList_mapPts f gs]
  | .collection gs => by simp only [mapPts, skel]; rw [skelList_mapPts f gs]
theorem skelList_mapPts (f : Pt K → Pt K) : ∀ gs : List (Geom K), skelList (mapPtsList f gs) = skelList gs
  | [] => rfl
  | g :: gs => by simp only [mapPtsList, skelList]; rw [skel_mapPts f g, skelList_mapPts f gs]
end

/-- already in the target CRS (in whatever spelling `CRS.__eq__` accepts): returned unchanged -/
theorem to_crs_same_is_identity (E : Env K) (proj : C01.CrsRec → C01.CrsRec → Pt K → Pt K)
    (autoRes : Geom K → K) (g : Tagged K) (t : C01.CrsRec) (res : Resolution K)
    (h : C01.tagEq g.crs (some t) = true) : toCrs E proj autoRes g (some t) res = .ok g := by
  simp [toCrs, h]

/-- a geometry without CRS is refused, whatever the target and resolution -/
theorem to_crs_none_errors (E : Env K) (proj : C01.CrsRec → C01.CrsRec → Pt K → Pt K)
    (autoRes : Geom K → K) (geom : Geom K) (target : C01.Tag) (res : Resolution K) :
    toCrs E proj autoRes ⟨none, geom⟩ target res = .error .valueError := by
  cases target <;> simp [toCrs, C01.tagEq]

/-- **Point-wise**: a successful conversion into a different CRS is `proj` applied to every
vertex of the (optionally densified) geometry — same type, same ring/part structure, same
vertex order — tagged with the target CRS; for an arbitrary `proj`. -/
theorem to_crs_pointwise (E : Env K) (proj : C01.CrsRec → C01.CrsRec → Pt K → Pt K)
    (autoRes : Geom K → K) (g g' : Tagged K) (t : C01.CrsRec) (res : Resolution K)
    (hne : C01.tagEq g.crs (some t) = false) (h : toCrs E proj autoRes g (some t) res = .ok g') :
    ∃ (s : C01.CrsRec) (d : Geom K), g.crs = some s ∧
      (d = g.geom ∨ ∃ r, 0 < r ∧ segmentize E r g.geom = .ok d) ∧
      g'.crs = some t ∧ g'.geom = mapPts (proj s t) d ∧
      vertices g'.geom = (vertices d).map (proj s t) ∧ skel g'.geom = skel g.geom := by
  unfold toCrs at h
  simp only [hne, Bool.false_eq_true, if_false] at h
  cases hc : g.crs with
  | none => simp [hc] at h
  | some s =>
    simp only [hc] at h
    -- the densification step
    have key : ∀ (dres : Res (Geom K)),
        (match dres with
          | .error e => (.error e : Res (Tagged K))
          | .ok geom => .ok ⟨some t, mapPts (proj s t) geom⟩) = .ok g' →
        ∃ d, dres = .ok d ∧ g' = ⟨some t, mapPts (proj s t) d⟩ := by
      intro dres hd
      cases dres with
      | error e => simp at hd
      | ok d => simp only [Except.ok.injEq] at hd; exact ⟨d, rfl, hd.symm⟩
    obtain ⟨d, hd, rfl⟩ := key _ h
    have hdens : d = g.geom ∨ ∃ r, 0 < r ∧ segmentize E r g.geom = .ok d := by
      cases res with
      | none => simp only [Except.ok.injEq] at hd; exact Or.inl hd.symm
      | nonfinite => simp only [Except.ok.injEq] at hd; exact Or.inl hd.symm
      | auto =>
        simp only at hd
        by_cases hr : 0 < autoRes g.geom
        · simp only [hr, if_true] at hd; exact Or.inr ⟨_, hr, hd⟩
        · simp only [hr, if_false, Except.ok.injEq] at hd; exact Or.inl hd.symm
      | val r =>
        simp only at hd
        by_cases hr : 0 < r
        · simp only [hr, if_true] at hd; exact Or.inr ⟨_, hr, hd⟩
        · simp only [hr, if_false, Except.ok.injEq] at hd; exact Or.inl hd.symm
    refine ⟨s, d, rfl, hdens, rfl, rfl, vertices_mapPts _ d, ?_⟩
    rw [skel_mapPts]
    rcases hdens with rfl | ⟨r, _, hseg⟩
    · rfl
    · exact segmented_preserves_kind_and_structure E r g.geom d hseg

/-- **Multi-part densification through `to_crs`**: with a positive resolution the geometry that
is projected is `segmented(r)` of the input — every edge of every ring of every part, at any
nesting depth and whatever the size of the part relative to `r`, is `≤ r` before projecting;
no part is passed through untouched. -/
theorem to_crs_resolution_densifies_every_part (E : Env K)
    (proj : C01.CrsRec → C01.CrsRec → Pt K → Pt K) (autoRes : Geom K → K) (s t : C01.CrsRec)
    (geom : Geom K) (r : K) (hr : 0 < r) (hne : C01.tagEq (some s) (some t) = false) (g' : Tagged K)
    (h : toCrs E proj autoRes ⟨some s, geom⟩ (some t) (.val r) = .ok g')
    (hE : ∀ c ∈ rings geom, CoordsOk E r c) :
    ∃ d, segmentize E r geom = .ok d ∧ g' = ⟨some t, mapPts (proj s t) d⟩ ∧
      (∀ c ∈ rings d, GapsLe r c) ∧ skel d = skel geom := by
  unfold toCrs at h
  simp only [hne, Bool.false_eq_true, if_false, hr, if_true] at h
  cases hseg : segmentize E r geom with
  | error e => simp [hseg] at h
  | ok d =>
    simp only [hseg, Except.ok.injEq] at h
    exact ⟨d, rfl, h.symm, segmented_gap_le E r geom d hseg hE,
      segmented_preserves_kind_and_structure E r geom d hseg⟩

/-- without a resolution the conversion is exactly `proj` on every vertex of the input -/
theorem to_crs_pointwise_plain (E : Env K) (proj : C01.CrsRec → C01.CrsRec → Pt K → Pt K)
    (autoRes : Geom K → K) (s t : C01.CrsRec) (geom : Geom K)
    (hne : C01.tagEq (some s) (some t) = false) :
    toCrs E proj autoRes ⟨some s, geom⟩ (some t) .none = .ok ⟨some t, mapPts (proj s t) geom⟩ := by
  simp [toCrs, hne]

/-- a resolution of zero or below (e.g. the automatic resolution of a zero-area geometry) adds
nothing instead of hanging -/
theorem to_crs_nonpos_resolution (E : Env K) (proj : C01.CrsRec → C01.CrsRec → Pt K → Pt K)
    (autoRes : Geom K → K) (s t : C01.CrsRec) (geom : Geom K) (r : K) (hr : r ≤ 0)
    (hne : C01.tagEq (some s) (some t) = false) :
    toCrs E proj autoRes ⟨some s, geom⟩ (some t) (.val r) = .ok ⟨some t, mapPts (proj s t) geom⟩ := by
  simp [toCrs, hne, not_lt.mpr hr]

/-! ### the tail of `to_crs`: `wrapdateline`, `clip_lon180` -/

/-- **With `wrapdateline=False` (the default) nothing is chopped or snapped**: `to_crs` is the
plain vertex-wise transformer whatever the target CRS is (geographic or not), whatever the
antimeridian helpers would do, and however close to ±180° the images are. -/
theorem to_crs_default_nothing_snapped (E : Env K) (proj : C01.CrsRec → C01.CrsRec → Pt K → Pt K)
    (autoRes : Geom K → K) (chop : Geom K → Res (Geom K)) (c180 eps : K) (g : Tagged K)
    (target : C01.Tag) (geographic : Bool) (res : Resolution K) :
    toCrsFull E proj autoRes chop c180 eps g target geographic res false
      = toCrs E proj autoRes g target res := by
  unfold toCrsFull toCrs
  cases target with
  | none => rfl
  | some t =>
    simp only [Bool.false_and, Bool.false_eq_true, if_false]

/-- the same for a projected target, `wrapdateline` or not -/
theorem to_crs_projected_target_nothing_snapped (E : Env K)
    (proj : C01.CrsRec → C01.CrsRec → Pt K → Pt K) (autoRes : Geom K → K)
    (chop : Geom K → Res (Geom K)) (c180 eps : K) (g : Tagged K) (target : C01.Tag)
    (res : Resolution K) (wd : Bool) :
    toCrsFull E proj autoRes chop c180 eps g target false res wd = toCrs E proj autoRes g target res := by
  unfold toCrsFull toCrs
  cases target with
  | none => rfl
  | some t =>
    simp only [Bool.and_false, Bool.false_eq_true, if_false]

theorem clipRing_length (c180 thresh : K) (cs : List (Pt K)) :
    (clipRing c180 thresh cs).length = cs.length := by
  simp [clipRing]

/-- `clip_lon180` never touches a latitude, and a longitude either stays or becomes exactly
±180 — the latter only for `|lon| ≥ 180 - tol`; all clipped vertices of one coordinate
sequence go to the same side. -/
theorem clipRing_spec (c180 thresh : K) (cs : List (Pt K)) :
    ∃ clip, (clip = c180 ∨ clip = -c180) ∧
      List.Forall₂ (fun p q => q.y = p.y ∧
        ((absK p.x < thresh ∧ q.x = p.x) ∨ (¬ absK p.x < thresh ∧ q.x = clip)))
        cs (clipRing c180 thresh cs) := by
  refine ⟨pickClip c180 thresh (cs.map (·.x)), ?_, ?_⟩
  · unfold pickClip
    dsimp only
    split
    · exact Or.inl rfl
    · exact Or.inr rfl
  · unfold clipRing
    dsimp only
    generalize pickClip c180 thresh (cs.map (·.x)) = clip
    induction cs with
    | nil => exact .nil
    | cons p cs ih =>
      refine .cons ⟨rfl, ?_⟩ ih
      by_cases h : absK p.x < thresh
      · exact Or.inl ⟨h, by simp [h]⟩
      · exact Or.inr ⟨h, by simp [h]⟩

/-- away from the antimeridian (`|lon| < 180 - tol` everywhere) a coordinate sequence is returned
as it is -/
theorem clipRing_id_of_far (c180 thresh : K) (cs : List (Pt K))
    (h : ∀ p ∈ cs, absK p.x < thresh) : clipRing c180 thresh cs = cs := by
  unfold clipRing
  dsimp only
  generalize pickClip c180 thresh (cs.map (·.x)) = clip
  induction cs with
  | nil => rfl
  | cons p cs ih =>
    have hp := h p (List.mem_cons_self ..)
    simp only [List.map_cons, hp, if_true]
    rw [ih (fun q hq => h q (List.mem_cons_of_mem _ hq))]

theorem map_eq_self_of_mem {α : Type} (f : α → α) (l : List α) (h : ∀ x ∈ l, f x = x) : l.map f = l := by
  induction l with
  | nil => rfl
  | cons a l ih =>
    simp only [List.map_cons, h a (List.mem_cons_self ..)]
    rw [ih (fun x hx => h x (List.mem_cons_of_mem _ hx))]

mutual
theorem mapRings_id (f : List (Pt K) → List (Pt K)) :
    ∀ g : Geom K, (∀ c ∈ rings g, f c = c) → mapRings f g = g
  | .point p, h => by
    have := h [p] (by simp [rings])
    simp [mapRings, this]
  | .multiPoint ps, h => by
    simp only [mapRings]
    congr 1
    have : ∀ p ∈ ps, (match f [p] with | q :: _ => q | [] => p) = p := by
      intro p hp
      have := h [p] (by simp only [rings, List.mem_map]; exact ⟨p, hp, rfl⟩)
      simp [this]
    exact map_eq_self_of_mem _ ps this
  | .lineString cs, h => by simp [mapRings, h cs (by simp [rings])]
  | .linearRing cs, h => by simp [mapRings, h cs (by simp [rings])]
  | .polygon ext holes, h => by
    have he := h ext (by simp [rings])
    have hh : holes.map f = holes :=
      map_eq_self_of_mem f holes (fun c hc => h c (by simp [rings, hc]))
    simp [mapRings, he, hh]
  | .multiLineString gs, h => by simp only [mapRings]; rw [mapRingsList_id f gs h]
  | .multiPolygon gs, h => by simp only [mapRings]; rw [mapRingsList_id f gs h]
  | .collection gs, h => by simp only [mapRings]; rw [mapRingsList_id f gs h]
theorem mapRingsList_id (f : List (Pt K) → List (Pt K)) :
    ∀ gs : List (Geom K), (∀ c ∈ ringsList gs, f c = c) → mapRingsList f gs = gs
  | [], _ => rfl
  | g :: gs, h => by
    simp only [mapRingsList]
    rw [mapRings_id f g (fun c hc => h c (by simp [ringsList, hc])),
        mapRingsList_id f gs (fun c hc => h c (by simp [ringsList, hc]))]
end

mutual
/-- `clip_lon180` (any per-sequence edit) keeps geometry type and ring / part structure -/
theorem skel_mapRings (f : List (Pt K) → List (Pt K)) : ∀ g : Geom K, skel (mapRings f g) = skel g
  | .point p => by
    simp only [mapRings]; split <;> rfl
  | .multiPoint ps => by simp [mapRings, skel]
  | .lineString cs => rfl
  | .linearRing cs => rfl
  | .polygon ext holes => by simp [mapRings, skel]
  | .multiLineString gs => by simp only [mapRings, skel]; rw [skelList_mapRings f gs]
  | .multiPolygon gs => by simp only [mapRings, skel]; rw [skelList_mapRings f gs]
  | .collection gs => by simp only [mapRings, skel]; rw [skelList_mapRings f gs]
theorem skelList_mapRings (f : List (Pt K) → List (Pt K)) :
    ∀ gs : List (Geom K), skelList (mapRingsList f gs) = skelList gs
  | [] => rfl
  | g :: gs => by simp only [mapRingsList, skelList]; rw [skel_mapRings f g, skelList_mapRings f gs]
end

/-- `clip_lon180` is the identity on a geometry that stays `tol` away from ±180° -/
theorem clipLon180_id_of_far (c180 tol : K) (g : Geom K)
    (h : ∀ c ∈ rings g, ∀ p ∈ c, absK p.x < c180 - tol) : clipLon180 c180 tol g = g :=
  mapRings_id _ g (fun c hc => clipRing_id_of_far c180 (c180 - tol) c (h c hc))

/-- **`wrapdateline=True` away from the antimeridian**: if the geometry is not chopped and every
projected longitude is more than `eps` away from ±180°, the result is again the plain
vertex-wise transformer; otherwise it is `clip_lon180 ∘ transformer ∘ chop`, same structure as
the chopped geometry. -/
theorem to_crs_wrapdateline_spec (E : Env K) (proj : C01.CrsRec → C01.CrsRec → Pt K → Pt K)
    (autoRes : Geom K → K) (chop : Geom K → Res (Geom K)) (c180 eps : K) (s t : C01.CrsRec)
    (geom : Geom K) (hne : C01.tagEq (some s) (some t) = false) :
    (∀ chopped, chop geom = .ok chopped →
      toCrsFull E proj autoRes chop c180 eps ⟨some s, geom⟩ (some t) true .none true
        = .ok ⟨some t, clipLon180 c180 eps (mapPts (proj s t) chopped)⟩ ∧
      skel (clipLon180 c180 eps (mapPts (proj s t) chopped)) = skel chopped) ∧
    (chop geom = .ok geom →
      (∀ c ∈ rings (mapPts (proj s t) geom), ∀ p ∈ c, absK p.x < c180 - eps) →
      toCrsFull E proj autoRes chop c180 eps ⟨some s, geom⟩ (some t) true .none true
        = toCrs E proj autoRes ⟨some s, geom⟩ (some t) .none) := by
  constructor
  · intro chopped hc
    refine ⟨by simp [toCrsFull, hne, hc], ?_⟩
    unfold clipLon180
    rw [skel_mapRings, skel_mapPts]
  · intro hc hfar
    simp only [toCrsFull, toCrs, hne, Bool.false_eq_true, if_false, Bool.and_self, if_true, hc]
    rw [clipLon180_id_of_far c180 eps _ hfar]

/-! ### `Geometry.transform`, `sides`, `BoundingBox.to_crs` -/

/-- `Geometry.transform` / `A * geom`: vertex by vertex, type / structure / order kept; the CRS
is kept unless `crs=` is given (then it is exactly that, `None` included) -/
theorem transform_spec (f : Pt K → Pt K) (arg : CrsArg) (g : Tagged K) :
    vertices (transformGeom f arg g).geom = (vertices g.geom).map f ∧
    skel (transformGeom f arg g).geom = skel g.geom ∧
    (transformGeom f .unset g).crs = g.crs ∧ (∀ t, (transformGeom f (.set t) g).crs = t) :=
  ⟨vertices_mapPts f g.geom, skel_mapPts f g.geom, rfl, fun _ => rfl⟩

/-- `sides(poly)`: one side per edge, consecutive sides share their end point, first side starts
and last side ends where the ring does -/
theorem sides_spec : ∀ cs : List (Pt K), (sides cs).length = cs.length - 1 ∧ sides cs = cs.zip cs.tail
  | [] => ⟨rfl, rfl⟩
  | [_] => ⟨rfl, rfl⟩
  | a :: b :: rest => by
    have ih := sides_spec (b :: rest)
    constructor
    · simp only [sides, List.length_cons, ih.1]; omega
    · simp only [sides, List.tail_cons, List.zip_cons_cons, ih.2]

theorem boundsOf_fold_contains (ps : List (Pt K)) :
    ∀ (b : K × K × K × K) (v : Pt K),
      ((b.1 ≤ v.x ∧ v.x ≤ b.2.2.1 ∧ b.2.1 ≤ v.y ∧ v.y ≤ b.2.2.2) ∨ v ∈ ps) →
      let r := ps.foldl (fun (b : K × K × K × K) q =>
        (minK b.1 q.x, minK b.2.1 q.y, maxK b.2.2.1 q.x, maxK b.2.2.2 q.y)) b
      r.1 ≤ v.x ∧ v.x ≤ r.2.2.1 ∧ r.2.1 ≤ v.y ∧ v.y ≤ r.2.2.2 := by
  induction ps with
  | nil => intro b v h; rcases h with h | h; exact h; simp at h
  | cons q ps ih =>
    intro b v h
    simp only [List.foldl_cons]
    apply ih
    have hmin : ∀ a c : K, minK a c ≤ a ∧ minK a c ≤ c := by
      intro a c; unfold minK; split <;> constructor <;> first | exact le_refl _ | exact le_of_lt ‹_› | exact not_lt.mp ‹_›
    have hmax : ∀ a c : K, a ≤ maxK a c ∧ c ≤ maxK a c := by
      intro a c; unfold maxK; split <;> constructor <;> first | exact le_refl _ | exact le_of_lt ‹_› | exact not_lt.mp ‹_›
    rcases h with h | h
    · left
      exact ⟨le_trans (hmin _ _).1 h.1, le_trans h.2.1 (hmax _ _).1, le_trans (hmin _ _).1 h.2.2.1,
        le_trans h.2.2.2 (hmax _ _).1⟩
    · rcases List.mem_cons.mp h with rfl | h
      · left
        exact ⟨(hmin _ _).2, (hmax _ _).2, (hmin _ _).2, (hmax _ _).2⟩
      · right; exact h

/-- shapely bounds contain every vertex -/
theorem boundsOf_contains (vs : List (Pt K)) (b : K × K × K × K) (h : boundsOf vs = some b) :
    ∀ v ∈ vs, b.1 ≤ v.x ∧ v.x ≤ b.2.2.1 ∧ b.2.1 ≤ v.y ∧ v.y ≤ b.2.2.2 := by
  cases vs with
  | nil => simp [boundsOf] at h
  | cons p ps =>
    simp only [boundsOf, Option.some.injEq] at h
    intro v hv
    rw [← h]
    apply boundsOf_fold_contains ps (p.x, p.y, p.x, p.y) v
    rcases List.mem_cons.mp hv with rfl | hv
    · left; exact ⟨le_refl _, le_refl _, le_refl _, le_refl _⟩
    · right; exact hv

/-- **`BoundingBox.to_crs`**: errors exactly as `to_crs` of its polygon does (no CRS, no
target), carries the CRS of the converted polygon, and its box contains the image of every
vertex of the (optionally densified) boundary polygon. -/
theorem bbox_to_crs_spec (E : Env K) (proj : C01.CrsRec → C01.CrsRec → Pt K → Pt K)
    (autoRes : Geom K → K) (crs : C01.Tag) (l b r t : K) (target : C01.Tag) (res : Resolution K) :
    (∀ e, toCrs E proj autoRes ⟨crs, .polygon (boxRing l b r t) []⟩ target res = .error e →
      bboxToCrs E proj autoRes crs l b r t target res = .error e) ∧
    (∀ g', toCrs E proj autoRes ⟨crs, .polygon (boxRing l b r t) []⟩ target res = .ok g' →
      ∃ bb, bboxToCrs E proj autoRes crs l b r t target res = .ok (g'.crs, bb) ∧
        ∀ box, bb = some box → ∀ v ∈ vertices g'.geom,
          box.1 ≤ v.x ∧ v.x ≤ box.2.2.1 ∧ box.2.1 ≤ v.y ∧ v.y ≤ box.2.2.2) := by
  constructor
  · intro e h; simp [bboxToCrs, h]
  · intro g' h
    refine ⟨boundsOf (vertices g'.geom), by simp [bboxToCrs, h], ?_⟩
    intro box hb
    exact boundsOf_contains _ box hb

/-- a box without CRS cannot be converted; a box converted into its own CRS keeps its corners -/
theorem bbox_to_crs_none_errors (E : Env K) (proj : C01.CrsRec → C01.CrsRec → Pt K → Pt K)
    (autoRes : Geom K → K) (l b r t : K) (target : C01.Tag) (res : Resolution K) :
    bboxToCrs E proj autoRes none l b r t target res = .error .valueError := by
  simp [bboxToCrs, to_crs_none_errors]

/-! ### composition: what the GeoBox models (C16 `enclosing` / `project`, C14 `tiles_from_geopolygon`) assume of `to_crs` -/

/-- **Interface of `to_crs` without options**, as used by `GeoBox.project`, `GeoBox.enclosing`,
`GeoboxTiles.tiles` and `GridSpec.tiles_from_geopolygon` before their own arithmetic: for a
geometry that carries a CRS and any target CRS it never fails, the result carries a CRS
equal (`CRS.__eq__`) to the target, and its vertices are the input vertices in the same order
and number, each mapped by the transformer — or untouched when the CRSs compare equal. -/
theorem to_crs_interface (E : Env K) (proj : C01.CrsRec → C01.CrsRec → Pt K → Pt K)
    (autoRes : Geom K → K) (geom : Geom K) (s t : C01.CrsRec) :
    ∃ g' f, toCrs E proj autoRes ⟨some s, geom⟩ (some t) .none = .ok g' ∧
      (f = id ∨ f = proj s t) ∧ (C01.tagEq (some s) (some t) = true → f = id) ∧
      vertices g'.geom = (vertices geom).map f ∧ skel g'.geom = skel geom ∧
      (∃ c, g'.crs = some c ∧ C01.tagEq (some c) (some t) = true) := by
  by_cases h : C01.tagEq (some s) (some t) = true
  · refine ⟨⟨some s, geom⟩, id, by simp [toCrs, h], Or.inl rfl, fun _ => rfl, by simp, rfl, s, rfl, h⟩
  · have h' : C01.tagEq (some s) (some t) = false := by simpa using h
    refine ⟨⟨some t, mapPts (proj s t) geom⟩, proj s t, to_crs_pointwise_plain E proj autoRes s t geom h',
      Or.inr rfl, fun hh => absurd hh h, vertices_mapPts _ geom, skel_mapPts _ geom, t, rfl, ?_⟩
    exact C01.tagEq_refl' (some t)

/-- vertices as the coordinate pairs of the GeoBox model -/
def toPair (p : Pt Rat) : Rat × Rat := (p.x, p.y)

/-- **End-to-end link with C16**: `GeoBox.enclosing(region)` for a region in another CRS is the
C16 model of `enclosing` applied to the vertex-wise transformed vertices of the region —
the re-projection that C16 takes as "already done" is exactly this model's `to_crs`. -/
theorem enclosing_after_to_crs (E : Env Rat) (proj : C01.CrsRec → C01.CrsRec → Pt Rat → Pt Rat)
    (autoRes : Geom Rat → Rat) (gbox : C16.GeoBox) (n : Nat) (geom : Geom Rat) (s t : C01.CrsRec)
    (p : Pt Rat) (ps : List (Pt Rat)) (hv : vertices geom = p :: ps) :
    ∃ g' f q qs, toCrs E proj autoRes ⟨some s, geom⟩ (some t) .none = .ok g' ∧
      (f = id ∨ f = proj s t) ∧ vertices g'.geom = q :: qs ∧
      C16.GeoBox.enclosing gbox (some n) (toPair q) (qs.map toPair)
        = C16.GeoBox.enclosing gbox (some n) (toPair (f p)) ((ps.map f).map toPair) := by
  obtain ⟨g', f, h1, h2, _, h4, _, _⟩ := to_crs_interface E proj autoRes geom s t
  refine ⟨g', f, f p, ps.map f, h1, h2, ?_, rfl⟩
  rw [h4, hv]; rfl

/-! ### NaN harmonisation -/

theorem harmonise_nan_both (p : Coord K × Coord K) :
    (harmonise p).1 = .nan ↔ (harmonise p).2 = .nan := by
  rcases p with ⟨x, y⟩; cases x <;> cases y <;> simp [harmonise]

theorem harmonise_finite (x y : K) : harmonise (Coord.fin x, Coord.fin y) = (.fin x, .fin y) := rfl

theorem harmonise_idem (p : Coord K × Coord K) : harmonise (harmonise p) = harmonise p := by
  rcases p with ⟨x, y⟩; cases x <;> cases y <;> simp [harmonise]

/-! ### the executable instance over `Rat` -/

/-- the loop count can be decided on squares alone (no square root needed): this is what the
driver reports for edges of irrational length -/
theorem countSq_eq_loop_length (p1 p2 : Pt Rat) (L r : Rat) (hL : 0 ≤ L) (hr : 0 < r) :
    ∀ (fuel : Nat) (d : Rat), 0 ≤ d →
      countSq (L * L) r fuel d = (loopPts p1 p2 L r fuel d).length := by
  intro fuel
  induction fuel with
  | zero => intro d _; simp [loopPts, countSq]
  | succ n ih =>
    intro d hd
    unfold countSq loopPts
    have hiff : d * d < L * L ↔ d < L := mul_self_lt_mul_self_iff hd hL |>.symm
    by_cases h : d < L
    · have h' : d * d < L * L := hiff.mpr h
      simp only [h, h', if_true, List.length_cons]
      rw [ih (d + r) (by linarith)]
    · have h' : ¬ d * d < L * L := fun hh => h (hiff.mp hh)
      simp [h, h']

/-- `fuelRat` is enough fuel: over `Rat` the `EdgeOk.fuel_ok` hypothesis is discharged -/
theorem fuelRat_sufficient (r L : Rat) (p q : Pt Rat) (hr : 0 < r) (_hL : 0 ≤ L)
    (hLL : L * L = dist2 p q) : L < ((fuelRat r p q : Rat) + 1) * r := by
  unfold fuelRat
  rw [if_neg (not_le.mpr hr)]
  set c : Int := Rat.ceil (dist2 p q / (r * r)) with hc
  have hrr : 0 < r * r := mul_pos hr hr
  have h1 : dist2 p q / (r * r) ≤ (c : Rat) := Rat.le_ceil
  have h2 : (c : Rat) ≤ ((c.toNat : Nat) : Rat) := by
    have : c ≤ (c.toNat : Int) := Int.self_le_toNat c
    exact_mod_cast this
  have h3 : L * L ≤ ((c.toNat : Nat) : Rat) * (r * r) := by
    rw [hLL]
    have := le_trans h1 h2
    rwa [div_le_iff₀ hrr] at this
  push_cast
  set n : Rat := ((c.toNat : Nat) : Rat) with hn
  have hn0 : 0 ≤ n := by rw [hn]; exact_mod_cast Nat.zero_le _
  by_contra hcon
  have hge : (n + 1 + 1) * r ≤ L := not_lt.mp hcon
  have hpos : 0 ≤ (n + 1 + 1) * r := by positivity
  have := mul_self_le_mul_self hpos hge
  nlinarith [mul_nonneg hn0 hrr.le]

/-- non-vacuity: a 3-4-5 edge with resolution 1 satisfies the contract over `Rat` -/
example : EdgeOk (⟨fun _ _ => 5, fuelRat⟩ : Env Rat) 1 ⟨0, 0⟩ ⟨3, 4⟩ := by
  refine ⟨by norm_num [dist2], by norm_num, ?_⟩
  exact fuelRat_sufficient 1 5 ⟨0, 0⟩ ⟨3, 4⟩ (by norm_num) (by norm_num) (by norm_num [dist2])

/-! ### the reals: no hypothesis on shapely is left -/

/-- shapely over the reals: the Euclidean length, and `⌈len / r⌉` loop iterations as fuel -/
noncomputable def envReal : Env ℝ where
  len := fun p q => Real.sqrt (dist2 p q)
  fuel := fun r p q => ⌈Real.sqrt (dist2 p q) / r⌉₊

theorem envReal_edgeOk (r : ℝ) (hr : 0 < r) (p q : Pt ℝ) : EdgeOk envReal r p q where
  len_sq := Real.mul_self_sqrt (dist2_nonneg p q)
  len_nonneg := Real.sqrt_nonneg _
  fuel_ok := by
    show Real.sqrt (dist2 p q) < ((⌈Real.sqrt (dist2 p q) / r⌉₊ : ℝ) + 1) * r
    have h := Nat.le_ceil (Real.sqrt (dist2 p q) / r)
    rw [div_le_iff₀ hr] at h
    linarith

theorem envReal_coordsOk (r : ℝ) (hr : 0 < r) : ∀ coords : List (Pt ℝ), CoordsOk envReal r coords
  | [] => trivial
  | p :: rest => by
    show EdgesOk envReal r p rest
    induction rest generalizing p with
    | nil => trivial
    | cons q rest ih => exact ⟨envReal_edgeOk r hr p q, ih q⟩

/-- **Over the real numbers, with the true Euclidean length, no hypothesis is left**: every
consecutive pair of `densify`'s output is at distance `≤ r`. -/
theorem densify_gap_le_real (r : ℝ) (coords out : List (Pt ℝ))
    (h : densify envReal r coords = .ok out) : GapsLe r out := by
  have hr : 0 < r := by
    rcases densify_cases envReal r coords out h with ⟨_, _, hr⟩ | ⟨_, h'⟩
    · exact hr
    · exact (densify_ok shortEnough envReal r coords out h').1
  exact densify_gap_le envReal r coords out (envReal_coordsOk r hr coords) h

/-- … and so for every geometry kind -/
theorem segmented_gap_le_real (r : ℝ) (hr : 0 < r) (g g' : Geom ℝ)
    (h : segmentize envReal r g = .ok g') : ∀ c' ∈ rings g', GapsLe r c' :=
  segmented_gap_le envReal r g g' h (fun c _ => envReal_coordsOk r hr c)

end OdcGeo.C07
