/-
C05 ∘ C06 ∘ C18, C05 side — the tile table of every IFD against the FILE the sink leaves.

`Props/C06Cog.lean` (C06's builder) proves `cog_file_end_to_end`: `mpu_write` over the tile bags, `_patch_hdr` on the observed
stream and `MPUFileSink.finalise` leave `header ++ tiles` at the destination and every header entry addresses its tile's bytes.
This file adds what the C05 statement says about that FILE (not only about the stream): every tile offset / byte-count entry
lies inside the file, behind the header, and all overview tile data precedes all full-resolution tile data.
-/
import OdcGeo.Props.C06Cog

set_option linter.unusedVariables false
set_option linter.unusedSimpArgs false

namespace OdcGeo.C05
open OdcGeo

theorem zipWith_obsOf_lvl (wo : List (Nat × Nat × Nat × Nat)) (szs : List Nat) (h : wo.length = szs.length) :
    (List.zipWith obsOf wo szs).map (·.lvl) = wo.map (·.1) := by
  induction wo generalizing szs with
  | nil => simp
  | cons e wo ih =>
    cases szs with
    | nil => simp at h
    | cons s szs => simp [obsOf, ih szs (by simpa using h)]

theorem zipWith_obsOf_sz' (wo : List (Nat × Nat × Nat × Nat)) (szs : List Nat) (i : Nat)
    (hi : i < (List.zipWith obsOf wo szs).length) (hs : i < szs.length) : (List.zipWith obsOf wo szs)[i].sz = szs[i] := by
  simp [obsOf]

/-- `cog_file_tile_table`: under the hypotheses of `C06.cog_file_end_to_end` (any pyramid, any cutting of the tile stream into bags
and partitions, any writer limits / spill size / writes-per-chunk, any header of length `hdrSz`) the destination FILE and the
patched tile table satisfy: every tile with data has an entry `(off, size)` with `hdrSz ≤ off` and `off + size ≤ len(file)`
holding exactly its bytes, and the data of every overview tile ends before the data of any full-resolution tile starts -/
theorem cog_file_tile_table (W : C06.Writer) (spill wpc : Nat) (bags : List (List (List (List Nat × Int))))
    (mkHdr : Option (List (Nat × Int) → List Nat))
    (hb : bags ≠ []) (hp : ∀ b ∈ bags, b ≠ []) (hc : ∀ b ∈ bags, ∀ p ∈ b, p ≠ [])
    (hcap : W.minPart + 1 + bags.flatten.length * wpc ≤ W.maxPart + 1)
    (hdrSz : Nat) (hH : (C06.optBytes (mkHdr.map (fun f => f (C06.bagsObs bags)))).length = hdrSz)
    (m0 : Meta) (rest : List Meta) (hpl : ∀ m ∈ rest, m.planes = m0.planes)
    (hcount : (C06.bagsChunks bags).length = (writeOrder (m0 :: rest)).length) :
    let ms := m0 :: rest
    let tiles := List.zipWith obsOf (writeOrder ms) ((C06.bagsChunks bags).map List.length)
    ∃ (info : TileInfo) (file : List Nat) (wsAll fp : List (C06.Part Nat)),
      patchHdr ms tiles hdrSz = .ok info ∧
      (C18.Sink.finalise true (C18.sinkAfter wsAll) (fp.map (·.id)) false).1.dst = some file ∧
      (∀ i (hi : i < tiles.length), tiles[i].sz ≠ 0 →
        ∃ l f, obsKey ms tiles[i] = .ok (l, f) ∧
          look info l f = some (hdrSz + streamOff 0 tiles i, tiles[i].sz) ∧
          hdrSz + streamOff 0 tiles i + tiles[i].sz ≤ file.length ∧
          (file.drop (hdrSz + streamOff 0 tiles i)).take tiles[i].sz = (C06.bagsChunks bags)[i]'(by
            have : tiles.length ≤ ((C06.bagsChunks bags).map List.length).length := by
              simp only [tiles, List.length_zipWith]; omega
            simpa using Nat.lt_of_lt_of_le hi this)) ∧
      (∀ i j (hi : i < tiles.length) (hj : j < tiles.length), 0 < tiles[i].lvl → tiles[j].lvl = 0 →
        hdrSz + streamOff 0 tiles i + tiles[i].sz ≤ hdrSz + streamOff 0 tiles j) := by
  intro ms tiles
  obtain ⟨wsF, fp, wsAll, info, hrun, hpatch, hs2, hs3, hdst, hfile⟩ :=
    C06.cog_file_end_to_end W spill wpc bags mkHdr hb hp hc hcap hdrSz hH m0 rest hpl hcount
  have hlen : (writeOrder ms).length = ((C06.bagsChunks bags).map List.length).length := by simp [ms, hcount]
  obtain ⟨info0, h0, hstream⟩ := write_order_stream_exact m0 rest hpl ((C06.bagsChunks bags).map List.length) 0
  refine ⟨info, _, wsAll, fp, hpatch, hdst, ?_, ?_⟩
  · intro i hi hsz
    have hci : i < (C06.bagsChunks bags).length := by
      have : tiles.length ≤ ((C06.bagsChunks bags).map List.length).length := by
        simp only [tiles, List.length_zipWith]; omega
      simpa using Nat.lt_of_lt_of_le hi this
    obtain ⟨l, f, hk, hl0⟩ := hstream i hi hsz
    have hl := patch_hdr_exact ms tiles hdrSz info info0 h0 hpatch l f _ _ hl0
    obtain ⟨l', f', off, hk', hlook', hbytes⟩ := hfile _ hdst i hi hci hsz
    have hkk : (l', f') = (l, f) := by
      have := hk.symm.trans hk'
      cases this; rfl
    cases hkk
    have hoff : off = streamOff 0 tiles i + hdrSz := by
      have := hlook'.symm.trans hl
      simp only [Option.some.injEq, Prod.mk.injEq] at this
      exact this.1
    subst hoff
    have hszlen : tiles[i].sz = ((C06.bagsChunks bags)[i]).length := by
      have := zipWith_obsOf_sz' (writeOrder ms) ((C06.bagsChunks bags).map List.length) i hi (by simpa using hci)
      simpa [tiles] using this
    have hcomm : hdrSz + streamOff 0 tiles i = streamOff 0 tiles i + hdrSz := Nat.add_comm _ _
    refine ⟨l, f, hk, by rw [hcomm]; exact hl, ?_, by rw [hcomm]; exact hbytes⟩
    have hl2 := congrArg List.length hbytes
    rw [List.length_take, List.length_drop, ← hszlen] at hl2
    omega
  · intro i j hi hj hov hfull
    have hord : tiles.map (·.lvl) = (writeOrder ms).map (·.1) := zipWith_obsOf_lvl _ _ hlen
    have := overview_data_before_fullres ms 0 tiles hord i j hi hj hov hfull
    omega

end OdcGeo.C05
