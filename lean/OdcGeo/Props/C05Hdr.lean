/-
C05 ∘ C06 with statistics: the link theorem of `Props/C05File.lean` (integrator) instantiated with the header size that
`_patch_hdr` REALLY uses — the length of the header after the GDAL statistics XML was written into tag 42112
(`patchedHdrSize`: the XML does not fit into the placeholder and is appended, so the header grows by `len(xml) + 1`).
An off-by-the-XML-length in the shift (offsets computed with the length of the EMPTY header) is exactly what this rules out.
-/
import OdcGeo.Props.C05File

set_option linter.unusedVariables false

namespace OdcGeo.C05
open OdcGeo

/-- every header entry addresses exactly its tile's bytes in the written file, with statistics on or off: the header
`mkHdr` produces has the patched length `patchedHdrSize hdr0Len stats`, the table is `patchHdrStats …` -/
theorem header_addresses_tile_bytes_stats {α : Type} (W : C06.Writer) (spill wpc : Nat) (t : C06.Tree α)
    (mkHdr : Option (List (Nat × Int) → List α))
    (hne : t.NonEmpty) (hcap : W.minPart + 1 + t.leaves * wpc ≤ W.maxPart + 1)
    (hdr0Len : Nat) (stats : Option (Nat × Nat))
    (hH : (C06.optBytes (mkHdr.map (fun f => f t.obs))).length = patchedHdrSize hdr0Len stats)
    (ms : List Meta) (tiles : List Obs) (hsz : tiles.map (·.sz) = t.chunks.map List.length)
    (info : TileInfo) (hinfo : patchHdrStats ms tiles hdr0Len stats = .ok info)
    (hnd : ∀ i j (hi : i < tiles.length) (hj : j < tiles.length), i < j →
      tiles[i].sz ≠ 0 → tiles[j].sz ≠ 0 → obsKey ms tiles[i] ≠ obsKey ms tiles[j]) :
    ∃ wsF fp wsAll,
      C06.run ⟨some W, spill, wpc, true⟩ t mkHdr none = .ok (.written wsF fp, wsAll, t.obs) ∧
      ∀ i (hi : i < tiles.length) (hc : i < t.chunks.length), tiles[i].sz ≠ 0 →
        ∃ l f off, obsKey ms tiles[i] = .ok (l, f) ∧ look info l f = some (off, tiles[i].sz) ∧
          ((C06.partsBytes fp).drop off).take tiles[i].sz = t.chunks[i] :=
  header_addresses_tile_bytes W spill wpc t mkHdr hne hcap (patchedHdrSize hdr0Len stats) hH ms tiles hsz info hinfo hnd

end OdcGeo.C05
